import Ptn.C02.SimComposite
/-! Value level, part 3 (continued): event sequences of a TDVP step (`TdvpEvent`, `TdvpRun` of `CompositeWF.lean` — the
hypothesis of `Ptn.C06.tdvp_step_structure`) simulated at the value level.

* `SimEvent` — one event with its value-level image: the simulated history of its basic steps (`SimRun`) and, for the
  events that update a tensor (site access with write-back, link update, two-site update), the replacement made; the last
  index records the replacement as `some (w, k, X')` = "in the network `w` the tensor of node `k` was replaced by `X'`".
* `SimTdvpRun` — a sequence of such events; `UpdTrace` — the shape of the change of the value along it: constant, one
  replacement, constant, one replacement, …, constant. -/
namespace Ptn.C02
open NodeS Ptn.Ein Ptn.C03

set_option linter.unusedSectionVars false
set_option linter.unusedVariables false
variable {R : Type} [CommSemiring R]

/-- a recorded local update: in the network `w` the tensor of node `k` is replaced by `X'` -/
abbrev Upd (R : Type) := VNet R × Nat × (Asg Nat → R)

/-- **One event of a TDVP step with its value-level image.** -/
inductive SimEvent (dim : Nat → Nat) (e : Label → Nat) :
    TTN → LegMap → VNet R → TdvpEvent → TTN → LegMap → VNet R → Option (Upd R) → Prop
  /-- site update: the tensor of `id` is read, evolved to any tensor `X'` on the same legs, stored back -/
  | access {t t1 : TTN} {g : LegMap} {v : VNet R} {id : Id} {X' : Asg Nat → R} :
      t.step (.access id) = some t1 → DependsOn (· ∈ v.legs id) X' →
      SimEvent dim e t g v (.access id) t1 g (setTens v id X') (some (v, id, X'))
  /-- centre move: exact QR split, contraction of R into the neighbour -/
  | move {t t' : TTN} {g g' : LegMap} {v v' : VNet R} {a b rid : Id} {bd : Nat} {node : NodeS} {q r : TTN.LegSpec} :
      t.N a = some node → TTN.canonSpecs node b = some (q, r) →
      SimRun dim e t g v [.split a q r a rid bd, .contract b rid b] t' g' v' →
      SimEvent dim e t g v (.move a b rid bd) t' g' v' none
  /-- `contract_and_split_with_parent` with an exact split -/
  | contractSplit {t t' : TTN} {g g' : LegMap} {v v' : VNet R} {a b ts : Id} {bd : Nat} {u w : TTN.LegSpec} :
      t.legsBeforeCombination a b = some (u, w) →
      SimRun dim e t g v [.contract a b ts, .split ts u w a b bd] t' g' v' →
      SimEvent dim e t g v (.contractSplit a b ts bd) t' g' v' none
  /-- one-site link update: exact QR split, the link tensor replaced, contraction into the next node -/
  | link {t t1 t' : TTN} {g g1 g' : LegMap} {v v1 v' : VNet R} {a b link : Id} {bd : Nat} {node : NodeS}
      {q r : TTN.LegSpec} {X' : Asg Nat → R} :
      t.N a = some node → TTN.tdvpSpecs node b = some (q, r) →
      SimRun dim e t g v [.split a q r a link bd] t1 g1 v1 → DependsOn (· ∈ v1.legs link) X' →
      SimRun dim e t1 g1 (setTens v1 link X') [.access link, .contract link b b] t' g' v' →
      SimEvent dim e t g v (.link a b link bd) t' g' v' (some (v1, link, X'))
  /-- two-site update: contraction, the two-site tensor replaced, exact split of the new tensor -/
  | twoSite {t t1 t' : TTN} {g g1 g' : LegMap} {v v1 v' : VNet R} {a b ts : Id} {bd : Nat} {u w : TTN.LegSpec}
      {X' : Asg Nat → R} :
      t.legsBeforeCombination a b = some (u, w) →
      SimRun dim e t g v [.contract a b ts] t1 g1 v1 → DependsOn (· ∈ v1.legs ts) X' →
      SimRun dim e t1 g1 (setTens v1 ts X') [.access ts, .split ts u w a b bd] t' g' v' →
      SimEvent dim e t g v (.twoSite a b ts bd) t' g' v' (some (v1, ts, X'))

/-- what one event does to the value: nothing (`none`), or exactly the recorded replacement -/
def UpdSpec (dim : Nat → Nat) (v v' : VNet R) : Option (Upd R) → Prop
  | none => ∀ σ, v'.value dim σ = v.value dim σ
  | some (w, k, X') => w.WF ∧ k ∈ w.ids ∧ DependsOn (· ∈ w.legs k) X' ∧ (∀ σ, w.value dim σ = v.value dim σ) ∧
      ∀ σ, v'.value dim σ = (setTens w k X').value dim σ

/-- **Soundness of one simulated event.** -/
theorem simevent_sound (dim : Nat → Nat) (e : Label → Nat) {t t' : TTN} {g g' : LegMap} {v v' : VNet R}
    {ev : TdvpEvent} {u : Option (Upd R)} (h : t.WF) (hl : t.LWF) (hv : v.WF) (hs : RSim dim e g t v)
    (hev : SimEvent dim e t g v ev t' g' v' u) :
    t.event ev = some t' ∧ t'.WF ∧ t'.LWF ∧ v'.WF ∧ RSim dim e g' t' v' ∧ UpdSpec dim v v' u := by
  cases hev with
  | access hstep hX =>
    obtain ⟨T, ha⟩ := step_access_eq hstep
    refine ⟨hstep, access_wf h ha, access_lwf hl ha, setTens_wf hv hX, (access_simulates dim e hs ha).setTens _ _,
      hv, access_node_mem hs hstep, hX, fun _ => rfl, fun _ => rfl⟩
  | move hn hsp hr =>
    obtain ⟨a1, a2, a3, a4, a5, a6⟩ := centre_move_preserves_value dim e h hl hv hs hn hsp hr
    exact ⟨a1, a2, a3, a4, a5, a6⟩
  | contractSplit hsp hr =>
    obtain ⟨a1, a2, a3, a4, a5, a6⟩ := contract_split_preserves_value dim e h hl hv hs hsp hr
    exact ⟨a1, a2, a3, a4, a5, a6⟩
  | link hn hsp hr1 hX hr2 =>
    obtain ⟨a1, a2, a3, a4, a5, a6, a7, a8, a9, _⟩ := link_update_value dim e h hl hv hs hn hsp hr1 hX hr2
    exact ⟨a1, a2, a3, a4, a5, a7, a6, hX, a8, a9⟩
  | twoSite hsp hr1 hX hr2 =>
    obtain ⟨a1, a2, a3, a4, a5, a6, a7, a8, a9, _⟩ := two_site_update_value dim e h hl hv hs hsp hr1 hX hr2
    exact ⟨a1, a2, a3, a4, a5, a7, a6, hX, a8, a9⟩

/-- a sequence of simulated events; the temporary identifier of every event is unused (`TdvpEvent.Fresh`, the
hypothesis of `TdvpRun`); the last index collects the recorded replacements in order -/
inductive SimTdvpRun (dim : Nat → Nat) (e : Label → Nat) :
    TTN → LegMap → VNet R → List TdvpEvent → TTN → LegMap → VNet R → List (Upd R) → Prop
  | nil (t : TTN) (g : LegMap) (v : VNet R) : SimTdvpRun dim e t g v [] t g v []
  | cons {t t1 t' : TTN} {g g1 g' : LegMap} {v v1 v' : VNet R} {ev : TdvpEvent} {es : List TdvpEvent}
      {u : Option (Upd R)} {us : List (Upd R)} :
      ev.Fresh t → SimEvent dim e t g v ev t1 g1 v1 u → SimTdvpRun dim e t1 g1 v1 es t' g' v' us →
      SimTdvpRun dim e t g v (ev :: es) t' g' v' (u.toList ++ us)

/-- **The shape of the change of the value**: from `v` the value stays constant up to the first recorded network `w`,
there exactly the tensor of node `k` is replaced, and so on; after the last replacement it stays constant up to `v'`. -/
inductive UpdTrace (dim : Nat → Nat) : VNet R → List (Upd R) → VNet R → Prop
  | nil {v v' : VNet R} : (∀ σ, v'.value dim σ = v.value dim σ) → UpdTrace dim v [] v'
  | cons {v w v' : VNet R} {k : Nat} {X' : Asg Nat → R} {us : List (Upd R)} :
      w.WF → k ∈ w.ids → DependsOn (· ∈ w.legs k) X' → (∀ σ, w.value dim σ = v.value dim σ) →
      UpdTrace dim (setTens w k X') us v' → UpdTrace dim v ((w, k, X') :: us) v'

theorem UpdTrace.of_eq {dim : Nat → Nat} {v0 v v' : VNet R} {us : List (Upd R)}
    (h0 : ∀ σ, v.value dim σ = v0.value dim σ) (ht : UpdTrace dim v us v') : UpdTrace dim v0 us v' := by
  cases ht with
  | nil hc => exact .nil (fun σ => (hc σ).trans (h0 σ))
  | cons a b c d tr => exact .cons a b c (fun σ => (d σ).trans (h0 σ)) tr

/-- no update recorded: the value is the same at both ends -/
theorem UpdTrace.const {dim : Nat → Nat} {v v' : VNet R} (ht : UpdTrace dim v [] v') :
    ∀ σ, v'.value dim σ = v.value dim σ := by
  cases ht with
  | nil hc => exact hc

/-- every recorded replacement puts back the tensor that was there: the value is the same at both ends -/
theorem UpdTrace.trivial_updates {dim : Nat → Nat} {v v' : VNet R} {us : List (Upd R)} (ht : UpdTrace dim v us v')
    (hid : ∀ u ∈ us, u.2.2 = u.1.tens u.2.1) : ∀ σ, v'.value dim σ = v.value dim σ := by
  induction ht with
  | nil hc => exact hc
  | @cons v w v' k X' us a b c d tr ih =>
    have hX : X' = w.tens k := hid (w, k, X') (by simp)
    intro σ
    rw [ih (fun u hu => hid u (List.mem_cons_of_mem _ hu)) σ, hX, setTens_self, d σ]

/-- **A TDVP step changes the value only by its local updates.**  Let `t` be a well-formed, label-consistent state of
the structural model, `v` a well-formed valued network related to it, and `es` ANY sequence of TDVP events (site updates,
link updates, two-site updates, centre moves, `contract_and_split_with_parent`s — the hypothesis of
`Ptn.C06.tdvp_step_structure`), each simulated with exact factorisations for its splits and an arbitrary new tensor for its
update.  Then `es` is a run of the structural model (`TdvpRun`, so `tdvp_step_structure` applies: tree, root, open legs
preserved), all invariants and the abstraction relation hold at the end, and the value changes only at the recorded
replacements — one per updating event, none for centre moves and contract-splits —: **between two updates it is
constant** (`UpdTrace`). -/
theorem tdvp_step_preserves_value_structure (dim : Nat → Nat) (e : Label → Nat) {t t' : TTN} {g g' : LegMap}
    {v v' : VNet R} {es : List TdvpEvent} {us : List (Upd R)} (h : t.WF) (hl : t.LWF) (hv : v.WF)
    (hs : RSim dim e g t v) (hr : SimTdvpRun dim e t g v es t' g' v' us) :
    TdvpRun t es t' ∧ t'.WF ∧ t'.LWF ∧ v'.WF ∧ RSim dim e g' t' v' ∧ UpdTrace dim v us v' ∧
    us.length ≤ es.length := by
  induction hr with
  | nil t g v => exact ⟨.nil _, h, hl, hv, hs, .nil (fun _ => rfl), Nat.le_refl _⟩
  | @cons t t1 t' g g1 g' v v1 v' ev es u us hf hev _ ih =>
    obtain ⟨hstep, w1, l1, vw1, s1, spec⟩ := simevent_sound dim e h hl hv hs hev
    obtain ⟨run, w2, l2, vw2, s2, tr, len⟩ := ih w1 l1 vw1 s1
    refine ⟨.cons hf hstep run, w2, l2, vw2, s2, ?_, ?_⟩
    · cases u with
      | none => exact tr.of_eq spec
      | some u =>
        obtain ⟨w, k, X'⟩ := u
        obtain ⟨a, b, c, d, f⟩ := spec
        exact .cons a b c d (tr.of_eq f)
    · cases u <;> simp <;> omega

/-- the events that record a replacement -/
def TdvpEvent.updates : TdvpEvent → Bool
  | .access _ => true
  | .link _ _ _ _ => true
  | .twoSite _ _ _ _ => true
  | .move _ _ _ _ => false
  | .contractSplit _ _ _ _ => false

theorem simevent_upd_none {dim : Nat → Nat} {e : Label → Nat} {t t' : TTN} {g g' : LegMap} {v v' : VNet R}
    {ev : TdvpEvent} {u : Option (Upd R)} (hev : SimEvent dim e t g v ev t' g' v' u) (hn : ev.updates = false) :
    u = none := by
  cases hev <;> simp [TdvpEvent.updates] at hn ⊢

theorem simtdvprun_no_updates {dim : Nat → Nat} {e : Label → Nat} {t t' : TTN} {g g' : LegMap} {v v' : VNet R}
    {es : List TdvpEvent} {us : List (Upd R)} (hr : SimTdvpRun dim e t g v es t' g' v' us)
    (hn : ∀ ev ∈ es, ev.updates = false) : us = [] := by
  induction hr with
  | nil => rfl
  | cons hf hev _ ih =>
    rw [simevent_upd_none hev (hn _ (by simp)), ih (fun ev hm => hn ev (List.mem_cons_of_mem _ hm))]
    rfl

/-- **Canonicalisation / orthogonality-centre moves preserve the value**: a sequence of centre moves and
contract-and-splits (exact factorisations) leaves the value of the network unchanged. -/
theorem moves_preserve_value (dim : Nat → Nat) (e : Label → Nat) {t t' : TTN} {g g' : LegMap}
    {v v' : VNet R} {es : List TdvpEvent} {us : List (Upd R)} (h : t.WF) (hl : t.LWF) (hv : v.WF)
    (hs : RSim dim e g t v) (hr : SimTdvpRun dim e t g v es t' g' v' us)
    (hn : ∀ ev ∈ es, ev.updates = false) :
    TdvpRun t es t' ∧ v'.WF ∧ RSim dim e g' t' v' ∧ ∀ σ, v'.value dim σ = v.value dim σ := by
  obtain ⟨run, _, _, vw, s, tr, _⟩ := tdvp_step_preserves_value_structure dim e h hl hv hs hr
  rw [simtdvprun_no_updates hr hn] at tr
  exact ⟨run, vw, s, tr.const⟩

end Ptn.C02
