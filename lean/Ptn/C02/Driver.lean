import Ptn.C02.Model
/-! Line-protocol handler for the C02 model (core Lean only). -/
namespace Ptn.C02
def handle (args : List String) : String := "bad-op"
end Ptn.C02
