import Ptn.C02.Model
import Ptn.C02.TTN
import Ptn.C02.Composite
/-! Line-protocol handler for the C02 model (core Lean only).

  nodeseq <op> <op> …      Node machine, starting from an unlinked node.  Answer: one field per op
                           separated by `;` – the state `perm|shape|parent|children` after the op or `err`
                           (after `err` the state is the one before the op).
    ops:  link:<shape>   reset   rt:<shape>:<perm|none>   o2p:<pid>:<k|none>   o2c:<cid>:<k>
          o2cs:<cid>=<k>,…   p2o   c2o:<cid>   cs2o:<cid>,…   xch:<a0>:<a1>:<b0>:<b1>   swap:<c1>:<c2>
    lists are comma separated, the empty list is `-`.

  hist <op> <op> …         TTN structural model, starting from the empty network.  Answer: one field per op
                           separated by `|`: the state after the op, or `err` (state unchanged), or for
                           `lbc` the two leg specifications `spec&spec`.
    state: `root=<id|->;T=<sorted tensor keys>;<id>:<parent|->:<children>:<open labels>:<shape>;…`
           (nodes sorted by identifier)
    ops:  root:<id>:<axes>   child:<id>:<axes>:<child_leg>:<parent_id>:<parent_leg>   acc:<id>
          contract:<id1>:<id2>:<new>   split:<id>:<outspec>:<inspec>:<out_id>:<in_id>:<bond_dim>
          ident:<child>:<parent>:<new>   rename:<new>:<old>   rtp:<id>:<perm|none>   lbc:<id1>:<id2>
    axes = `<label>.<dim>,…`; spec = `<parent|->/<children>/<open legs>/<r|n>`
    composite ops (same answer format, one state per op):
          link:<a>:<b>:<link_id>:<bond>       OneSiteTDVP._update_link(a, b)
          twosite:<a>:<b>:<two_site_id>:<bond> TwoSiteTDVP._update_two_site_nodes(a, b)
          move:<a>:<b>:<r_id>:<bond|auto>     split_qr_contract_r_to_neighbour(a, b) (canonical form / centre move);
                                              auto = min(product of a's other dimensions, old bond) (reduced QR)
          csplit:<a>:<b>:<contr_id>:<bond>    svd_truncation.contract_and_split_with_parent(a, b)
          rectrunc:<c>=<k>,…                  recursive_truncation between its canonicalisations; <k> = bond
                                              dimension kept on the edge above node <c> (default 1); temporary
                                              identifiers are chosen by the model (beyond all identifiers in use)

  rectrunc <op> <op> …     like `hist`, but only the state after the LAST op is returned (build the network with
                           root:/child: ops, optionally move:… for canonical_form, end with rectrunc:…)
-/
namespace Ptn.C02

def parseList (s : String) : Option (List Nat) :=
  if s = "-" then some [] else (s.splitOn ",").mapM (fun t => t.toNat?)

def showList (l : List Nat) : String :=
  if l.isEmpty then "-" else ",".intercalate (l.map toString)

def parsePairs (s : String) : Option (List (Nat × Nat)) :=
  if s = "-" then some [] else
    (s.splitOn ",").mapM fun t =>
      match t.splitOn "=" with
      | [a, b] => match a.toNat?, b.toNat? with
        | some x, some y => some (x, y)
        | _, _ => none
      | _ => none

def parseNodeOp (tok : String) : Option NodeOp :=
  match tok.splitOn ":" with
  | ["link", sh] => (parseList sh).map NodeOp.link
  | ["reset"] => some .reset
  | ["rt", sh, p] =>
    match parseList sh with
    | none => none
    | some sh' =>
      if p = "none" then some (.replaceTensor sh' none)
      else (parseList p).map (fun p' => .replaceTensor sh' (some p'))
  | ["o2p", pid, k] =>
    match pid.toNat? with
    | none => none
    | some pid' =>
      if k = "none" then some (.o2p pid' none) else k.toNat?.map (fun k' => .o2p pid' (some k'))
  | ["o2c", cid, k] =>
    match cid.toNat?, k.toNat? with
    | some c, some k' => some (.o2c c k')
    | _, _ => none
  | ["o2cs", d] => (parsePairs d).map NodeOp.o2cs
  | ["p2o"] => some .p2o
  | ["c2o", cid] => cid.toNat?.map NodeOp.c2o
  | ["cs2o", cs] => (parseList cs).map NodeOp.cs2o
  | ["xch", a0, a1, b0, b1] =>
    match a0.toNat?, a1.toNat?, b0.toNat?, b1.toNat? with
    | some a, some b, some c, some d => some (.xch a b c d)
    | _, _, _, _ => none
  | ["swap", c1, c2] =>
    match c1.toNat?, c2.toNat? with
    | some a, some b => some (.swap a b)
    | _, _ => none
  | _ => none

def showNode (s : NodeS) : String :=
  let par := match s.parent with
    | some p => toString p
    | none => "-"
  s!"{showList s.perm}|{showList s.shape}|{par}|{showList s.children}"

def runNodeSeq (ops : List NodeOp) : String :=
  let r := ops.foldl (fun (acc : NodeS × List String) op =>
    match acc.1.step op with
    | some s' => (s', showNode s' :: acc.2)
    | none => (acc.1, "err" :: acc.2)) (NodeS.empty, [])
  ";".intercalate r.2.reverse

/-! ### TTN histories -/

def parseAxes (s : String) : Option Tensor :=
  if s = "-" then some [] else
    (s.splitOn ",").mapM fun t =>
      match t.splitOn "." with
      | [a, b] => match a.toNat?, b.toNat? with
        | some x, some y => some ⟨x, y⟩
        | _, _ => none
      | _ => none

def parseOptId (s : String) : Option (Option Id) :=
  if s = "-" then some none else s.toNat?.map some

def parseSpec (s : String) : Option TTN.LegSpec :=
  match s.splitOn "/" with
  | [p, ch, op, r] =>
    match parseOptId p, parseList ch, parseList op with
    | some p', some ch', some op' =>
      if r = "r" then some ⟨p', ch', op', true⟩
      else if r = "n" then some ⟨p', ch', op', false⟩ else none
    | _, _, _ => none
  | _ => none

def showOptId : Option Id → String
  | some p => toString p
  | none => "-"

def showSpec (l : TTN.LegSpec) : String :=
  s!"{showOptId l.parentLeg}/{showList l.childLegs}/{showList l.openLegs}/{if l.isRoot then "r" else "n"}"

inductive HOp where
  | op (o : TOp)
  | lbc (a b : Id)
  | link (a b l bd : Nat)
  | twosite (a b ts bd : Nat)
  | move (a b r bd : Nat)
  | csplit (a b c bd : Nat)
  | rectrunc (ks : List (Nat × Nat))

def parse4 (a b c d : String) : Option (Nat × Nat × Nat × Nat) :=
  match a.toNat?, b.toNat?, c.toNat?, d.toNat? with
  | some w, some x, some y, some z => some (w, x, y, z)
  | _, _, _, _ => none

def parseHOp (tok : String) : Option HOp :=
  match tok.splitOn ":" with
  | ["root", id, ax] =>
    match id.toNat?, parseAxes ax with
    | some i, some t => some (.op (.root i t))
    | _, _ => none
  | ["child", id, ax, cl, pid, pl] =>
    match id.toNat?, parseAxes ax, cl.toNat?, pid.toNat?, pl.toNat? with
    | some i, some t, some c, some p, some l => some (.op (.child i t c p l))
    | _, _, _, _, _ => none
  | ["acc", id] => id.toNat?.map (fun i => .op (.access i))
  | ["contract", a, b, n] =>
    match a.toNat?, b.toNat?, n.toNat? with
    | some x, some y, some z => some (.op (.contract x y z))
    | _, _, _ => none
  | ["split", id, o, i, oid, iid, bd] =>
    match id.toNat?, parseSpec o, parseSpec i, oid.toNat?, iid.toNat?, bd.toNat? with
    | some x, some os, some is, some oi, some ii, some b => some (.op (.split x os is oi ii b))
    | _, _, _, _, _, _ => none
  | ["ident", c, p, n] =>
    match c.toNat?, p.toNat?, n.toNat? with
    | some x, some y, some z => some (.op (.ident x y z))
    | _, _, _ => none
  | ["rename", n, o] =>
    match n.toNat?, o.toNat? with
    | some x, some y => some (.op (.rename x y))
    | _, _ => none
  | ["rtp", id, p] =>
    match id.toNat? with
    | none => none
    | some i =>
      if p = "none" then some (.op (.rtp i none)) else (parseList p).map (fun q => .op (.rtp i (some q)))
  | ["lbc", a, b] =>
    match a.toNat?, b.toNat? with
    | some x, some y => some (.lbc x y)
    | _, _ => none
  | ["link", a, b, c, d] => (parse4 a b c d).map (fun q => .link q.1 q.2.1 q.2.2.1 q.2.2.2)
  | ["twosite", a, b, c, d] => (parse4 a b c d).map (fun q => .twosite q.1 q.2.1 q.2.2.1 q.2.2.2)
  | ["move", a, b, c, d] =>
    -- bond `auto` (encoded as 0, never a valid dimension): the reduced-QR dimension is computed
    if d = "auto" then (parse4 a b c "0").map (fun q => .move q.1 q.2.1 q.2.2.1 0)
    else if d.toNat? = some 0 then none
    else (parse4 a b c d).map (fun q => .move q.1 q.2.1 q.2.2.1 q.2.2.2)
  | ["csplit", a, b, c, d] => (parse4 a b c d).map (fun q => .csplit q.1 q.2.1 q.2.2.1 q.2.2.2)
  | ["rectrunc", ks] => (parsePairs ks).map HOp.rectrunc
  | _ => none

def showTTNNode (t : TTN) (e : Id × NodeS) : String :=
  let n := e.2
  match t.logical e.1 with
  | none => s!"{e.1}:ill-formed"
  | some ax =>
    let opens := (ax.drop n.nvirt).map (·.lab)
    s!"{e.1}:{showOptId n.parent}:{showList n.children}:{showList opens}:{showList n.shape}"

def showTTN (t : TTN) : String :=
  let ns := t.nodes.mergeSort (fun a b => a.1 ≤ b.1)
  let tk := (t.tensors.map (·.1)).mergeSort (fun a b => a ≤ b)
  ";".intercalate (s!"root={showOptId t.root}" :: s!"T={showList tk}" :: ns.map (showTTNNode t))

/-- Bond dimension of a reduced QR decomposition of node `a` towards its neighbour `b`:
    `min(product of the other leg dimensions, dimension of the leg to b)`. -/
def reducedBond (t : TTN) (a b : Id) : Option Nat := do
  let node ← dget t.nodes a
  let i ← node.neighbourIndex b
  let sh := node.shape
  let n ← sh[i]?
  let m := (sh.eraseIdx i).foldl (· * ·) 1
  some (min m n)

def runHist (ops : List HOp) : String :=
  let r := ops.foldl (fun (acc : TTN × List String) op =>
    match op with
    | .lbc a b =>
      match acc.1.legsBeforeCombination a b with
      | some (s1, s2) => (acc.1, s!"{showSpec s1}&{showSpec s2}" :: acc.2)
      | none => (acc.1, "err" :: acc.2)
    | .op o => stepWith acc (acc.1.step o)
    | .link a b l bd => stepWith acc (acc.1.linkUpdate a b l bd)
    | .twosite a b ts bd => stepWith acc (acc.1.twoSiteUpdate a b ts bd)
    | .move a b rr bd =>
      if bd = 0 then stepWith acc ((reducedBond acc.1 a b).bind (acc.1.centreMove a b rr))
      else stepWith acc (acc.1.centreMove a b rr bd)
    | .csplit a b c bd => stepWith acc (acc.1.contractSplit a b c bd)
    | .rectrunc ks =>
      stepWith acc (acc.1.recursiveTruncation (fun c =>
        match ks.find? (fun e => e.1 == c) with
        | some e => e.2
        | none => 1))) (TTN.empty, [])
  "|".intercalate r.2.reverse
where
  stepWith (acc : TTN × List String) (res : Option TTN) : TTN × List String :=
    match res with
    | some t' => (t', showTTN t' :: acc.2)
    | none => (acc.1, "err" :: acc.2)

def handle (args : List String) : String :=
  match args with
  | "nodeseq" :: toks =>
    match toks.mapM parseNodeOp with
    | some ops => if ops.isEmpty then "bad-op" else runNodeSeq ops
    | none => "bad-op"
  | "hist" :: toks =>
    match toks.mapM parseHOp with
    | some ops => if ops.isEmpty then "bad-op" else runHist ops
    | none => "bad-op"
  | "rectrunc" :: toks =>
    match toks.mapM parseHOp with
    | some ops =>
      if ops.isEmpty then "bad-op" else
        match ((runHist ops).splitOn "|").getLast? with
        | some l => l
        | none => "bad-op"
    | none => "bad-op"
  | _ => "bad-op"

end Ptn.C02
