import Ptn.C02.Model
import Ptn.C02.TTN
/-! Line-protocol handler for the C02 model (core Lean only).

  nodeseq <op> <op> …      Node machine, starting from an unlinked node.  Answer: one field per op
                           separated by `;` – the state `perm|shape|parent|children` after the op or `err`
                           (after `err` the state is the one before the op).
    ops:  link:<shape>   reset   rt:<shape>:<perm|none>   o2p:<pid>:<k|none>   o2c:<cid>:<k>
          o2cs:<cid>=<k>,…   p2o   c2o:<cid>   cs2o:<cid>,…   xch:<a0>:<a1>:<b0>:<b1>   swap:<c1>:<c2>
    lists are comma separated, the empty list is `-`.

  hist <op> <op> …         TTN structural model, starting from the empty network.  Answer: one field per op
                           separated by `|`: the state after the op, or `err` (state unchanged), or for
                           `lbc` the two leg specifications `spec&spec`.
    state: `root=<id|->;T=<sorted tensor keys>;<id>:<parent|->:<children>:<open labels>:<shape>;…`
           (nodes sorted by identifier)
    ops:  root:<id>:<axes>   child:<id>:<axes>:<child_leg>:<parent_id>:<parent_leg>   acc:<id>
          contract:<id1>:<id2>:<new>   split:<id>:<outspec>:<inspec>:<out_id>:<in_id>:<bond_dim>
          ident:<child>:<parent>:<new>   rename:<new>:<old>   rtp:<id>:<perm|none>   lbc:<id1>:<id2>
    axes = `<label>.<dim>,…`; spec = `<parent|->/<children>/<open legs>/<r|n>`
-/
namespace Ptn.C02

def parseList (s : String) : Option (List Nat) :=
  if s = "-" then some [] else (s.splitOn ",").mapM (fun t => t.toNat?)

def showList (l : List Nat) : String :=
  if l.isEmpty then "-" else ",".intercalate (l.map toString)

def parsePairs (s : String) : Option (List (Nat × Nat)) :=
  if s = "-" then some [] else
    (s.splitOn ",").mapM fun t =>
      match t.splitOn "=" with
      | [a, b] => match a.toNat?, b.toNat? with
        | some x, some y => some (x, y)
        | _, _ => none
      | _ => none

def parseNodeOp (tok : String) : Option NodeOp :=
  match tok.splitOn ":" with
  | ["link", sh] => (parseList sh).map NodeOp.link
  | ["reset"] => some .reset
  | ["rt", sh, p] =>
    match parseList sh with
    | none => none
    | some sh' =>
      if p = "none" then some (.replaceTensor sh' none)
      else (parseList p).map (fun p' => .replaceTensor sh' (some p'))
  | ["o2p", pid, k] =>
    match pid.toNat? with
    | none => none
    | some pid' =>
      if k = "none" then some (.o2p pid' none) else k.toNat?.map (fun k' => .o2p pid' (some k'))
  | ["o2c", cid, k] =>
    match cid.toNat?, k.toNat? with
    | some c, some k' => some (.o2c c k')
    | _, _ => none
  | ["o2cs", d] => (parsePairs d).map NodeOp.o2cs
  | ["p2o"] => some .p2o
  | ["c2o", cid] => cid.toNat?.map NodeOp.c2o
  | ["cs2o", cs] => (parseList cs).map NodeOp.cs2o
  | ["xch", a0, a1, b0, b1] =>
    match a0.toNat?, a1.toNat?, b0.toNat?, b1.toNat? with
    | some a, some b, some c, some d => some (.xch a b c d)
    | _, _, _, _ => none
  | ["swap", c1, c2] =>
    match c1.toNat?, c2.toNat? with
    | some a, some b => some (.swap a b)
    | _, _ => none
  | _ => none

def showNode (s : NodeS) : String :=
  let par := match s.parent with
    | some p => toString p
    | none => "-"
  s!"{showList s.perm}|{showList s.shape}|{par}|{showList s.children}"

def runNodeSeq (ops : List NodeOp) : String :=
  let r := ops.foldl (fun (acc : NodeS × List String) op =>
    match acc.1.step op with
    | some s' => (s', showNode s' :: acc.2)
    | none => (acc.1, "err" :: acc.2)) (NodeS.empty, [])
  ";".intercalate r.2.reverse

/-! ### TTN histories -/

def parseAxes (s : String) : Option Tensor :=
  if s = "-" then some [] else
    (s.splitOn ",").mapM fun t =>
      match t.splitOn "." with
      | [a, b] => match a.toNat?, b.toNat? with
        | some x, some y => some ⟨x, y⟩
        | _, _ => none
      | _ => none

def parseOptId (s : String) : Option (Option Id) :=
  if s = "-" then some none else s.toNat?.map some

def parseSpec (s : String) : Option TTN.LegSpec :=
  match s.splitOn "/" with
  | [p, ch, op, r] =>
    match parseOptId p, parseList ch, parseList op with
    | some p', some ch', some op' =>
      if r = "r" then some ⟨p', ch', op', true⟩
      else if r = "n" then some ⟨p', ch', op', false⟩ else none
    | _, _, _ => none
  | _ => none

def showOptId : Option Id → String
  | some p => toString p
  | none => "-"

def showSpec (l : TTN.LegSpec) : String :=
  s!"{showOptId l.parentLeg}/{showList l.childLegs}/{showList l.openLegs}/{if l.isRoot then "r" else "n"}"

inductive HOp where
  | op (o : TOp)
  | lbc (a b : Id)

def parseHOp (tok : String) : Option HOp :=
  match tok.splitOn ":" with
  | ["root", id, ax] =>
    match id.toNat?, parseAxes ax with
    | some i, some t => some (.op (.root i t))
    | _, _ => none
  | ["child", id, ax, cl, pid, pl] =>
    match id.toNat?, parseAxes ax, cl.toNat?, pid.toNat?, pl.toNat? with
    | some i, some t, some c, some p, some l => some (.op (.child i t c p l))
    | _, _, _, _, _ => none
  | ["acc", id] => id.toNat?.map (fun i => .op (.access i))
  | ["contract", a, b, n] =>
    match a.toNat?, b.toNat?, n.toNat? with
    | some x, some y, some z => some (.op (.contract x y z))
    | _, _, _ => none
  | ["split", id, o, i, oid, iid, bd] =>
    match id.toNat?, parseSpec o, parseSpec i, oid.toNat?, iid.toNat?, bd.toNat? with
    | some x, some os, some is, some oi, some ii, some b => some (.op (.split x os is oi ii b))
    | _, _, _, _, _, _ => none
  | ["ident", c, p, n] =>
    match c.toNat?, p.toNat?, n.toNat? with
    | some x, some y, some z => some (.op (.ident x y z))
    | _, _, _ => none
  | ["rename", n, o] =>
    match n.toNat?, o.toNat? with
    | some x, some y => some (.op (.rename x y))
    | _, _ => none
  | ["rtp", id, p] =>
    match id.toNat? with
    | none => none
    | some i =>
      if p = "none" then some (.op (.rtp i none)) else (parseList p).map (fun q => .op (.rtp i (some q)))
  | ["lbc", a, b] =>
    match a.toNat?, b.toNat? with
    | some x, some y => some (.lbc x y)
    | _, _ => none
  | _ => none

def showTTNNode (t : TTN) (e : Id × NodeS) : String :=
  let n := e.2
  match t.logical e.1 with
  | none => s!"{e.1}:ill-formed"
  | some ax =>
    let opens := (ax.drop n.nvirt).map (·.lab)
    s!"{e.1}:{showOptId n.parent}:{showList n.children}:{showList opens}:{showList n.shape}"

def showTTN (t : TTN) : String :=
  let ns := t.nodes.mergeSort (fun a b => a.1 ≤ b.1)
  let tk := (t.tensors.map (·.1)).mergeSort (fun a b => a ≤ b)
  ";".intercalate (s!"root={showOptId t.root}" :: s!"T={showList tk}" :: ns.map (showTTNNode t))

def runHist (ops : List HOp) : String :=
  let r := ops.foldl (fun (acc : TTN × List String) op =>
    match op with
    | .lbc a b =>
      match acc.1.legsBeforeCombination a b with
      | some (s1, s2) => (acc.1, s!"{showSpec s1}&{showSpec s2}" :: acc.2)
      | none => (acc.1, "err" :: acc.2)
    | .op o =>
      match acc.1.step o with
      | some t' => (t', showTTN t' :: acc.2)
      | none => (acc.1, "err" :: acc.2)) (TTN.empty, [])
  "|".intercalate r.2.reverse

def handle (args : List String) : String :=
  match args with
  | "nodeseq" :: toks =>
    match toks.mapM parseNodeOp with
    | some ops => if ops.isEmpty then "bad-op" else runNodeSeq ops
    | none => "bad-op"
  | "hist" :: toks =>
    match toks.mapM parseHOp with
    | some ops => if ops.isEmpty then "bad-op" else runHist ops
    | none => "bad-op"
  | _ => "bad-op"

end Ptn.C02
