import Ptn.C02.Model
/-! Line-protocol handler for the C02 model (core Lean only).

  nodeseq <op> <op> …      Node machine, starting from an unlinked node.  Answer: one field per op
                           separated by `;` – the state `perm|shape|parent|children` after the op or `err`
                           (after `err` the state is the one before the op).
    ops:  link:<shape>   reset   rt:<shape>:<perm|none>   o2p:<pid>:<k|none>   o2c:<cid>:<k>
          o2cs:<cid>=<k>,…   p2o   c2o:<cid>   cs2o:<cid>,…   xch:<a0>:<a1>:<b0>:<b1>   swap:<c1>:<c2>
    lists are comma separated, the empty list is `-`.
-/
namespace Ptn.C02

def parseList (s : String) : Option (List Nat) :=
  if s = "-" then some [] else (s.splitOn ",").mapM (fun t => t.toNat?)

def showList (l : List Nat) : String :=
  if l.isEmpty then "-" else ",".intercalate (l.map toString)

def parsePairs (s : String) : Option (List (Nat × Nat)) :=
  if s = "-" then some [] else
    (s.splitOn ",").mapM fun t =>
      match t.splitOn "=" with
      | [a, b] => match a.toNat?, b.toNat? with
        | some x, some y => some (x, y)
        | _, _ => none
      | _ => none

def parseNodeOp (tok : String) : Option NodeOp :=
  match tok.splitOn ":" with
  | ["link", sh] => (parseList sh).map NodeOp.link
  | ["reset"] => some .reset
  | ["rt", sh, p] =>
    match parseList sh with
    | none => none
    | some sh' =>
      if p = "none" then some (.replaceTensor sh' none)
      else (parseList p).map (fun p' => .replaceTensor sh' (some p'))
  | ["o2p", pid, k] =>
    match pid.toNat? with
    | none => none
    | some pid' =>
      if k = "none" then some (.o2p pid' none) else k.toNat?.map (fun k' => .o2p pid' (some k'))
  | ["o2c", cid, k] =>
    match cid.toNat?, k.toNat? with
    | some c, some k' => some (.o2c c k')
    | _, _ => none
  | ["o2cs", d] => (parsePairs d).map NodeOp.o2cs
  | ["p2o"] => some .p2o
  | ["c2o", cid] => cid.toNat?.map NodeOp.c2o
  | ["cs2o", cs] => (parseList cs).map NodeOp.cs2o
  | ["xch", a0, a1, b0, b1] =>
    match a0.toNat?, a1.toNat?, b0.toNat?, b1.toNat? with
    | some a, some b, some c, some d => some (.xch a b c d)
    | _, _, _, _ => none
  | ["swap", c1, c2] =>
    match c1.toNat?, c2.toNat? with
    | some a, some b => some (.swap a b)
    | _, _ => none
  | _ => none

def showNode (s : NodeS) : String :=
  let par := match s.parent with
    | some p => toString p
    | none => "-"
  s!"{showList s.perm}|{showList s.shape}|{par}|{showList s.children}"

def runNodeSeq (ops : List NodeOp) : String :=
  let r := ops.foldl (fun (acc : NodeS × List String) op =>
    match acc.1.step op with
    | some s' => (s', showNode s' :: acc.2)
    | none => (acc.1, "err" :: acc.2)) (NodeS.empty, [])
  ";".intercalate r.2.reverse

def handle (args : List String) : String :=
  match args with
  | "nodeseq" :: toks =>
    match toks.mapM parseNodeOp with
    | some ops => if ops.isEmpty then "bad-op" else runNodeSeq ops
    | none => "bad-op"
  | _ => "bad-op"

end Ptn.C02
