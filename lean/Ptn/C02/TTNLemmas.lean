import Ptn.C02.TTN
import Ptn.C02.Lemmas
import Ptn.C02.NodeSpec
/-! Helper lemmas for C02, part 2 (TTN level): dictionaries, enumerations, segments of `range n`. -/
namespace Ptn.C02

/-! ### enumerations and dictionaries -/

theorem enumFrom_map_fst (l : List Id) (a : Nat) : (TTN.enumFrom l a).map Prod.fst = l := by
  simp only [TTN.enumFrom, List.map_map]
  have : (Prod.fst ∘ fun (e : Id × Nat) => (e.1, e.2 + a)) = Prod.fst := by funext e; rfl
  rw [this]
  exact List.zipIdx_map_fst 0 l

theorem enumFrom_map_snd (l : List Id) (a : Nat) :
    (TTN.enumFrom l a).map Prod.snd = List.range' a l.length := by
  simp only [TTN.enumFrom, List.map_map]
  have : (Prod.snd ∘ fun (e : Id × Nat) => (e.1, e.2 + a)) = (fun i => i + a) ∘ Prod.snd := by
    funext e; rfl
  rw [this, ← List.map_map, List.zipIdx_map_snd]
  apply List.ext_getElem
  · simp
  · intro i h1 h2
    simp
    omega

theorem enumFrom_length (l : List Id) (a : Nat) : (TTN.enumFrom l a).length = l.length := by
  simp [TTN.enumFrom]

theorem dhas_eq_mem_keys {α : Type} (d : List (Id × α)) (k : Id) :
    dhas d k = true ↔ k ∈ d.map Prod.fst := by
  simp only [dhas, List.any_eq_true, beq_iff_eq, List.mem_map]

theorem dset_of_not_has {α : Type} (d : List (Id × α)) (k : Id) (v : α) (h : k ∉ d.map Prod.fst) :
    dset d k v = d ++ [(k, v)] := by
  unfold dset
  have : dhas d k = false := by
    cases hh : dhas d k with
    | false => rfl
    | true => exact absurd ((dhas_eq_mem_keys d k).mp hh) h
  simp [this]

/-- `d1.update(d2)` is concatenation when the keys of `d2` are new and distinct. -/
theorem dupdate_eq_append {α : Type} (d1 d2 : List (Id × α))
    (hnd : (d1.map Prod.fst ++ d2.map Prod.fst).Nodup) : dupdate d1 d2 = d1 ++ d2 := by
  unfold dupdate
  induction d2 generalizing d1 with
  | nil => simp
  | cons e d2 ih =>
    simp only [List.foldl_cons]
    have hk : e.1 ∉ d1.map Prod.fst := by
      intro hmem
      have := List.nodup_append.mp hnd
      exact this.2.2 e.1 hmem e.1 (by simp) rfl
    rw [dset_of_not_has d1 e.1 e.2 hk]
    have hnd' : ((d1 ++ [(e.1, e.2)]).map Prod.fst ++ d2.map Prod.fst).Nodup := by
      simpa [List.append_assoc] using hnd
    rw [ih (d1 ++ [(e.1, e.2)]) hnd']
    simp

/-! ### reading a segment of a list by consecutive positions -/

theorem map_getElem?_range' (A B C : List Nat) :
    (List.range' A.length B.length).map (fun i => (A ++ B ++ C)[i]?) = B.map some := by
  apply List.ext_getElem
  · simp
  · intro i h1 h2
    simp at h1
    simp only [List.getElem_map, List.getElem_range', Nat.one_mul]
    rw [List.append_assoc, List.getElem?_append_right (by omega)]
    have : A.length + i - A.length = i := by omega
    rw [this, List.getElem?_append_left h1]
    simp [h1]

/-- Keeping what is not in `S1 ++ S3` out of `S1 ++ S2 ++ S3 ++ S4` (all distinct) leaves `S2 ++ S4`. -/
theorem filter_segments (S1 S2 S3 S4 : List Nat) (hnd : (S1 ++ S2 ++ S3 ++ S4).Nodup) (vs : List Nat)
    (hvs : ∀ x, x ∈ vs ↔ (x ∈ S1 ∨ x ∈ S3)) :
    (S1 ++ S2 ++ S3 ++ S4).filter (fun x => !vs.contains x) = S2 ++ S4 := by
  have h := List.nodup_append.mp hnd
  have h123 := List.nodup_append.mp h.1
  have h12 := List.nodup_append.mp h123.1
  simp only [List.filter_append]
  have f1 : S1.filter (fun x => !vs.contains x) = [] := by
    rw [List.filter_eq_nil_iff]
    intro x hx
    simp [(hvs x).mpr (Or.inl hx)]
  have f3 : S3.filter (fun x => !vs.contains x) = [] := by
    rw [List.filter_eq_nil_iff]
    intro x hx
    simp [(hvs x).mpr (Or.inr hx)]
  have f2 : S2.filter (fun x => !vs.contains x) = S2 := by
    rw [List.filter_eq_self]
    intro x hx
    have n1 : x ∉ S1 := fun h1 => h12.2.2 x h1 x hx rfl
    have n3 : x ∉ S3 := fun h3 => h123.2.2 x (by simp [hx]) x h3 rfl
    have : x ∉ vs := fun hv => by rcases (hvs x).mp hv with a | a <;> contradiction
    simp [this]
  have f4 : S4.filter (fun x => !vs.contains x) = S4 := by
    rw [List.filter_eq_self]
    intro x hx
    have n1 : x ∉ S1 := fun h1 => h.2.2 x (by simp [h1]) x hx rfl
    have n3 : x ∉ S3 := fun h3 => h.2.2 x (by simp [h3]) x hx rfl
    have : x ∉ vs := fun hv => by rcases (hvs x).mp hv with a | a <;> contradiction
    simp [this]
  rw [f1, f2, f3, f4]
  simp

/-! ### transposition of an axis list by a concatenation of consecutive ranges -/

theorem map_getElem?_range'_gen {α : Type} (A B C : List α) :
    (List.range' A.length B.length).map (fun i => (A ++ B ++ C)[i]?) = B.map some := by
  apply List.ext_getElem
  · simp
  · intro i h1 h2
    simp at h1
    simp only [List.getElem_map, List.getElem_range', Nat.one_mul]
    rw [List.append_assoc, List.getElem?_append_right (by omega)]
    have : A.length + i - A.length = i := by omega
    rw [this, List.getElem?_append_left h1]
    simp [h1]

theorem mapM_eq_some_of_map {α β : Type} (f : α → Option β) (l : List α) (r : List β)
    (h : l.map f = r.map some) : l.mapM f = some r := by
  induction l generalizing r with
  | nil =>
    cases r with
    | nil => rfl
    | cons _ _ => simp at h
  | cons a l ih =>
    cases r with
    | nil => simp at h
    | cons b r =>
      simp only [List.map_cons, List.cons.injEq] at h
      rw [List.mapM_cons, h.1, ih r h.2]
      rfl

theorem range_five (a b c d e : Nat) :
    List.range (a + b + c + d + e) =
      List.range' 0 a ++ List.range' a b ++ List.range' (a + b) c ++ List.range' (a + b + c) d ++
        List.range' (a + b + c + d) e := by
  rw [List.range_eq_range']
  have h1 : List.range' 0 a ++ List.range' a b = List.range' 0 (a + b) := by
    have := List.range'_append_1 (s := 0) (m := a) (n := b)
    simpa using this
  have h2 : List.range' 0 (a + b) ++ List.range' (a + b) c = List.range' 0 (a + b + c) := by
    have := List.range'_append_1 (s := 0) (m := a + b) (n := c)
    simpa using this
  have h3 : List.range' 0 (a + b + c) ++ List.range' (a + b + c) d = List.range' 0 (a + b + c + d) := by
    have := List.range'_append_1 (s := 0) (m := a + b + c) (n := d)
    simpa using this
  have h4 : List.range' 0 (a + b + c + d) ++ List.range' (a + b + c + d) e =
      List.range' 0 (a + b + c + d + e) := by
    have := List.range'_append_1 (s := 0) (m := a + b + c + d) (n := e)
    simpa using this
  rw [h1, h2, h3, h4]

/-- The five consecutive index blocks of `T1 ++ … ++ T5` read the five pieces. -/
theorem five_blocks_read {α : Type} (T1 T2 T3 T4 T5 : List α) :
    let T := T1 ++ T2 ++ T3 ++ T4 ++ T5
    (List.range' 0 T1.length).map (fun i => T[i]?) = T1.map some ∧
    (List.range' T1.length T2.length).map (fun i => T[i]?) = T2.map some ∧
    (List.range' (T1.length + T2.length) T3.length).map (fun i => T[i]?) = T3.map some ∧
    (List.range' (T1.length + T2.length + T3.length) T4.length).map (fun i => T[i]?) = T4.map some ∧
    (List.range' (T1.length + T2.length + T3.length + T4.length) T5.length).map (fun i => T[i]?) = T5.map some := by
  intro T
  refine ⟨?_, ?_, ?_, ?_, ?_⟩
  · have := map_getElem?_range'_gen ([] : List α) T1 (T2 ++ T3 ++ T4 ++ T5)
    simpa [T] using this
  · have := map_getElem?_range'_gen T1 T2 (T3 ++ T4 ++ T5)
    simpa [T] using this
  · have := map_getElem?_range'_gen (T1 ++ T2) T3 (T4 ++ T5)
    simpa [T] using this
  · have := map_getElem?_range'_gen (T1 ++ T2 ++ T3) T4 T5
    simpa [T, Nat.add_assoc] using this
  · have := map_getElem?_range'_gen (T1 ++ T2 ++ T3 ++ T4) T5 []
    simpa [T, Nat.add_assoc] using this

theorem map_getElem?_range {α : Type} (T : List α) :
    (List.range T.length).map (fun i => T[i]?) = T.map some := by
  apply List.ext_getElem
  · simp
  · intro i h1 h2
    simp at h1
    simp [h1]

/-- Two concatenations of the same blocks in different order are permutations of each other. -/
syntax "perm_blocks" : tactic
macro_rules
  | `(tactic| perm_blocks) =>
    `(tactic| (rw [List.perm_iff_count]; intro a;
               simp only [List.range'_one, List.range'_zero, List.count_append, List.count_nil, List.append_nil,
                 List.count_cons]; omega))

end Ptn.C02
