import Ptn.C02.ContractWF
import Ptn.C02.SplitSpec
import Ptn.C02.SplitLogical
/-! `split_nodes` preserves well-formedness of the TTN model: refinement of the dictionary
manipulations to the pure graph operation `splitS`.  Core Lean only. -/
namespace Ptn.C02
open NodeS

/-- Admissible arguments of `split_nodes` for the node `id` (= `X`) of `t`: the child identifiers of
    the two specifications partition the children of `X`; exactly one side takes the parent (or, for the
    root, exactly one side is flagged `is_root`); each new identifier is `id` itself or unused. -/
structure SplitAdm (t : TTN) (id : Id) (X : NodeS) (outL inL : TTN.LegSpec) (outId inId : Id) : Prop where
  node : t.N id = some X
  outFresh : outId = id ∨ t.N outId = none
  inFresh : inId = id ∨ t.N inId = none
  children : (outL.childLegs ++ inL.childLegs).Perm X.children
  parent :
    (∃ p, X.parent = some p ∧ outL.isRoot = false ∧ inL.isRoot = false ∧
      ((outL.parentLeg = some p ∧ inL.parentLeg = none) ∨ (outL.parentLeg = none ∧ inL.parentLeg = some p))) ∨
    (X.parent = none ∧ outL.parentLeg = none ∧ inL.parentLeg = none ∧
      ((outL.isRoot = true ∧ inL.isRoot = false) ∨ (outL.isRoot = false ∧ inL.isRoot = true)))

/-- `n'` is `n` with its references renamed (`splitRen`) and the same array bookkeeping. -/
def SRel (x a b : Id) (aCh : List Id) (k : Id) (n n' : NodeS) : Prop :=
  n'.perm = n.perm ∧ n'.shp = n.shp ∧ structOf n' = splitRen x a b aCh k (structOf n)

theorem wfn_of_srel {x a b k : Id} {aCh : List Id} {n n' : NodeS} (hr : SRel x a b aCh k n n')
    (hw : WFN n) : WFN n' := by
  obtain ⟨e1, e2, e3⟩ := hr
  simp only [structOf, splitRen, Prod.mk.injEq] at e3
  have hnp : n'.nparents = n.nparents := by
    unfold nparents
    rw [e3.1]
    cases hp : n.parent with
    | none => simp
    | some p => simp only; split <;> simp
  have hnc : n'.children.length = n.children.length := by rw [e3.2]; simp
  refine ⟨?_, ?_, ?_⟩
  · rw [e1]; exact hw.perm
  · rw [e1, e2]; exact hw.shp
  · rw [e1]
    have := hw.virt
    simp only [nvirt_def, hnp, hnc] at this ⊢
    exact this

/-- How the neighbours of the split node `x` and the bystanders are edited. -/
theorem srel_cases {t : TTN} (h : t.WF) {x a b k : Id} {X n : NodeS} {aCh bCh : List Id}
    (hX : t.N x = some X) (hn : t.N k = some n) (hkx : k ≠ x)
    (hpart : ∀ c, c ∈ X.children ↔ (c ∈ aCh ∨ c ∈ bCh)) (hdisj : ∀ c, c ∈ aCh → c ∉ bCh) :
    (k ∈ aCh → ∃ n', TTN.replaceNeighbour n x a = some n' ∧ SRel x a b aCh k n n') ∧
    (k ∈ bCh → ∃ n', TTN.replaceNeighbour n x b = some n' ∧ SRel x a b aCh k n n') ∧
    (X.parent = some k → ∃ n', TTN.replaceNeighbour n x a = some n' ∧ SRel x a b aCh k n n') ∧
    (k ∉ aCh → k ∉ bCh → X.parent ≠ some k → SRel x a b aCh k n n) := by
  have hs := h.str
  have hSX := TTN.S_eq hX
  have hSk := TTN.S_eq hn
  -- parent of k is x  <->  k is a child of x
  have f1 : n.parent = some x ↔ k ∈ X.children := by
    constructor
    · intro e
      obtain ⟨pp, pch, e1, e2⟩ := hs.up k x n.children (by rw [hSk, e])
      rw [hSX] at e1; simp at e1; rw [e1.2]; exact e2
    · intro hm
      obtain ⟨cch, e1⟩ := hs.down x _ _ k hSX hm
      rw [hSk] at e1; simp at e1; exact e1.1
  -- x is a child of k  <->  k is the parent of x
  have f2 : x ∈ n.children ↔ X.parent = some k := by
    constructor
    · intro hm
      obtain ⟨cch, e1⟩ := hs.down k _ _ x hSk hm
      rw [hSX] at e1; simp at e1; exact e1.1
    · intro e
      obtain ⟨pp, pch, e1, e2⟩ := hs.up x k X.children (by rw [hSX, e])
      rw [hSk] at e1; simp at e1; rw [e1.2]; exact e2
  -- not both
  have f3 : n.parent = some x → ¬ X.parent = some k := by
    intro e1 e2
    exact hs.no_two_cycle (a := k) (b := x) (by rw [hSk, e1]) (by rw [hSX, e2])
  have child_case : ∀ new, (new = a ∧ k ∈ aCh ∨ new = b ∧ k ∈ bCh) → k ∈ X.children →
      ∃ n', TTN.replaceNeighbour n x new = some n' ∧ SRel x a b aCh k n n' := by
    intro new hnew hm
    have hp := f1.mpr hm
    have hxm : x ∉ n.children := fun hm' => f3 hp (f2.mp hm')
    refine ⟨{ n with parent := some new }, by simp [TTN.replaceNeighbour, hp], rfl, rfl, ?_⟩
    simp only [structOf, splitRen, hp, if_true, map_ite_of_not_mem _ _ _ hxm]
    rcases hnew with ⟨e, hk⟩ | ⟨e, hk⟩
    · simp [e, hk]
    · have : k ∉ aCh := fun h' => hdisj k h' hk
      simp [e, this]
  refine ⟨fun hk => child_case a (Or.inl ⟨rfl, hk⟩) ((hpart k).mpr (Or.inl hk)),
    fun hk => child_case b (Or.inr ⟨rfl, hk⟩) ((hpart k).mpr (Or.inr hk)), ?_, ?_⟩
  · intro hg
    have hxm := f2.mpr hg
    have hp : ¬ n.parent = some x := fun e => f3 e hg
    obtain ⟨n', hn'⟩ := replaceChild_some n x a hxm
    have hnd : n.children.Nodup := hs.nodup k _ _ hSk
    obtain ⟨_, e1, e2, e3, e4⟩ := replaceChild_eq hnd hn'
    refine ⟨n', by simp [TTN.replaceNeighbour, hp, hxm, hn'], e1, e2, ?_⟩
    simp only [structOf, splitRen, e3, e4]
    cases hpp : n.parent with
    | none => rfl
    | some p =>
      have : ¬ p = x := fun e => hp (by rw [hpp, e])
      simp [this]
  · intro h1 h2 h3
    refine ⟨rfl, rfl, ?_⟩
    have hxm : x ∉ n.children := fun hm' => h3 (f2.mp hm')
    have hp : ¬ n.parent = some x := by
      intro e
      rcases (hpart k).mp (f1.mp e) with h' | h'
      · exact h1 h'
      · exact h2 h'
    simp only [structOf, splitRen, map_ite_of_not_mem _ _ _ hxm]
    cases hpp : n.parent with
    | none => rfl
    | some p =>
      have : ¬ p = x := fun e => hp (by rw [hpp, e])
      simp [this]

theorem findLegValues_length {ls : TTN.LegSpec} {node : NodeS} {vals : List Nat}
    (h : ls.findLegValues node = some vals) :
    vals.length = (if ls.parentLeg.isSome then 1 else 0) + ls.childLegs.length + ls.openLegs.length := by
  unfold TTN.LegSpec.findLegValues at h
  simp only [bind, Option.bind] at h
  split at h
  · simp at h
  · rename_i cvals hc
    simp only [Option.some.injEq] at h
    subst h
    have := mapM_option_length _ _ _ hc
    simp only [List.length_append, this]
    split <;> simp

theorem splitAxes_eq {tensor outT inT : Tensor} {outInt inInt : List Nat} {bond : Axis}
    (h : TTN.splitAxes tensor outInt inInt bond = some (outT, inT)) :
    outT.length = outInt.length + 1 ∧ inT.length = 1 + inInt.length := by
  unfold TTN.splitAxes at h
  simp only [bind, Option.bind] at h
  split at h
  · simp at h
  · rename_i moved hm
    simp only [Option.some.injEq, Prod.mk.injEq] at h
    obtain ⟨rfl, rfl⟩ := h
    have := (transposeT_length hm).1
    simp only [List.length_append] at this
    simp only [List.length_append, List.length_take, List.length_cons, List.length_nil, List.length_drop]
    omega

theorem setRoot_eq {t t5 : TTN} {inL outL : TTN.LegSpec} {inId outId : Id}
    (h : t.setRootFromLegSpecs inL outL inId outId = some t5) :
    t5.nodes = t.nodes ∧ t5.tensors = t.tensors ∧
      t5.root = (if inL.isRoot then some inId else if outL.isRoot then some outId else t.root) := by
  unfold TTN.setRootFromLegSpecs at h
  by_cases h1 : inL.isRoot = true
  · by_cases h2 : outL.isRoot = true
    · simp [h1, h2] at h
    · simp only [h1, if_true, h2, Bool.false_eq_true, if_false, Option.some.injEq] at h
      subst h; simp [h1]
  · by_cases h2 : outL.isRoot = true
    · simp only [h1, Bool.false_eq_true, if_false, h2, if_true, Option.some.injEq] at h
      subst h; simp [h1, h2]
    · simp only [h1, Bool.false_eq_true, if_false, h2, Option.some.injEq] at h
      subst h; simp [h1, h2]

theorem mem_allNeighbourIds (ls : TTN.LegSpec) (k : Id) :
    k ∈ ls.allNeighbourIds ↔ (ls.parentLeg = some k ∨ k ∈ ls.childLegs) := by
  unfold TTN.LegSpec.allNeighbourIds
  cases hp : ls.parentLeg with
  | none => simp
  | some p =>
    simp only [List.mem_append, List.mem_cons, List.not_mem_nil, or_false, Option.some.injEq]
    constructor
    · rintro (e | e)
      · exact Or.inl e.symm
      · exact Or.inr e
    · rintro (e | e)
      · exact Or.inl e.symm
      · exact Or.inr e

theorem nodup_allNeighbourIds (ls : TTN.LegSpec) (hnd : ls.childLegs.Nodup)
    (hp : ∀ p, ls.parentLeg = some p → p ∉ ls.childLegs) : ls.allNeighbourIds.Nodup := by
  unfold TTN.LegSpec.allNeighbourIds
  cases hpl : ls.parentLeg with
  | none => simpa using hnd
  | some p =>
    simp only [List.singleton_append, List.nodup_cons]
    exact ⟨hp p hpl, hnd⟩

/-- The label-level description of the two nodes created by `split_nodes` (`a` keeps the parent or the
    root role, `b` is its new first child): their logical axes `La`, `Lb` in terms of the logical axes `L`
    of the split node – the new bond `⟨nextLabel, bd⟩` at both ends, every other virtual leg with the axis
    that led to that neighbour before, the open axes those selected by the leg specification, in its order. -/
def SplitLab (t : TTN) (id : Id) (X : NodeS) (outL inL : TTN.LegSpec) (outId : Id) (bd : Nat)
    (a b : Id) (aCh bCh : List Id) (na nb : NodeS) (Ta Tb : Tensor) : Prop :=
  ∃ L La Lb, t.logical id = some L ∧ transposeT Ta na.perm = some La ∧ transposeT Tb nb.perm = some Lb ∧
    (∀ x ax, (x, ax) ∈ na.neighbours.zip La ↔
      ((x = b ∧ ax = ⟨t.nextLabel, bd⟩) ∨ ((X.parent = some x ∨ x ∈ aCh) ∧ legAx X L x = some ax))) ∧
    (∀ x ax, (x, ax) ∈ nb.neighbours.zip Lb ↔
      ((x = a ∧ ax = ⟨t.nextLabel, bd⟩) ∨ (x ∈ bCh ∧ legAx X L x = some ax))) ∧
    La.drop na.nvirt = pick L (if a = outId then outL.openLegs else inL.openLegs) ∧
    Lb.drop nb.nvirt = pick L (if b = outId then outL.openLegs else inL.openLegs) ∧
    (outL.openLegs ++ inL.openLegs).Perm (List.range' X.nvirt (X.nlegs - X.nvirt))

theorem split_final {t t' : TTN} {id : Id} {X : NodeS} {outL inL : TTN.LegSpec} {outId inId : Id}
    {bd : Nat} (h : t.WF) (adm : SplitAdm t id X outL inL outId inId)
    (hs : t.splitNodes id outL inL outId inId bd = some t') :
    ∃ a b aCh bCh na nb Ta Tb,
      ((a = outId ∧ b = inId ∧ aCh = outL.childLegs ∧ bCh = inL.childLegs) ∨
       (a = inId ∧ b = outId ∧ aCh = inL.childLegs ∧ bCh = outL.childLegs)) ∧
      a ≠ b ∧
      t'.N a = some na ∧ t'.N b = some nb ∧
      na.parent = X.parent ∧ na.children = b :: aCh ∧ nb.parent = some a ∧ nb.children = bCh ∧
      WFN na ∧ WFN nb ∧ na.shp = shapeOf Ta ∧ nb.shp = shapeOf Tb ∧
      (id ≠ a → id ≠ b → t'.N id = none) ∧
      (∀ k, k ≠ a → k ≠ b → k ≠ id →
        (t.N k = none → t'.N k = none) ∧
        (∀ n, t.N k = some n → ∃ n', t'.N k = some n' ∧ SRel id a b aCh k n n')) ∧
      (∀ k, dget t'.tensors k = if k = a then some Ta else if k = b then some Tb
                                else if k = id then none else dget t.tensors k) ∧
      t'.root = (if X.parent = none then some a else t.root) ∧
      ((a = outId ∧ (outL.parentLeg.isSome = true ∨ outL.isRoot = true)) ∨
       (a = inId ∧ (inL.parentLeg.isSome = true ∨ inL.isRoot = true))) ∧
      SplitLab t id X outL inL outId bd a b aCh bCh na nb Ta Tb := by
  unfold TTN.splitNodes at hs
  by_cases hoi : outId = inId
  · simp [hoi, bind, Option.bind] at hs
  · simp only [hoi, if_false, bind, Option.bind] at hs
    cases hacc : t.access id with
    | none => simp [hacc] at hs
    | some r =>
      obtain ⟨t1, L⟩ := r
      simp only [hacc] at hs
      obtain ⟨X', Ts, e1, e2, e3, rfl⟩ := access_eq hacc
      have hXn := adm.node
      unfold TTN.N at hXn
      rw [hXn] at e1; simp at e1; subst e1
      simp only [dget_dset, if_true] at hs
      cases hoint : outL.findLegValues X.resetPermutation with
      | none => simp [hoint] at hs
      | some outInt =>
        cases hiint : inL.findLegValues X.resetPermutation with
        | none => simp [hoint, hiint] at hs
        | some inInt =>
          simp only [hoint, hiint] at hs
          cases hsa : TTN.splitAxes L outInt inInt ⟨t.nextLabel, bd⟩ with
          | none => simp [hsa] at hs
          | some r2 =>
            obtain ⟨outT, inT⟩ := r2
            simp only [hsa] at hs
            cases hbi : TTN.buildInNode inT inL outL outId with
            | none => simp [hbi] at hs
            | some inNode =>
              cases hbo : TTN.buildOutNode outT outL inL inId with
              | none => simp [hbi, hbo] at hs
              | some outNode =>
                simp only [hbi, hbo] at hs
                generalize ht2 : (TTN.mk _ _ _ _) = t2 at hs
                have hN2 : ∀ k, t2.N k = if k = outId then some outNode else if k = inId then some inNode
                    else if k = id then some X.resetPermutation else t.N k := by
                  intro k
                  rw [← ht2]
                  simp only [TTN.N, dget_dset]
                  by_cases h1 : k = outId
                  · simp [h1]
                  · by_cases h2 : k = inId
                    · simp [h1, h2]
                    · simp [h1, h2]
                have hT2 : ∀ k, dget t2.tensors k = if k = inId then some inT else if k = outId then some outT
                    else if k = id then some L else dget t.tensors k := by
                  intro k
                  rw [← ht2]
                  simp only [dget_dset]
                have hroot2 : t2.root = t.root := by rw [← ht2]
                clear ht2
                cases hr3 : t2.replaceNodeInSomeNeighbours outId id outL.allNeighbourIds with
                | none => simp [hr3] at hs
                | some t3 =>
                  cases hr4 : t3.replaceNodeInSomeNeighbours inId id inL.allNeighbourIds with
                  | none => simp [hr3, hr4] at hs
                  | some t4 =>
                    cases hr5 : t4.setRootFromLegSpecs inL outL inId outId with
                    | none => simp [hr3, hr4, hr5] at hs
                    | some t5 =>
                      simp only [hr3, hr4, hr5] at hs
                      -- general facts about X and its neighbours
                      have hstr := h.str
                      have hXN : t.N id = some X := adm.node
                      have hSX := TTN.S_eq hXN
                      have hchperm := adm.children
                      have hXnd : X.children.Nodup := hstr.nodup id _ _ hSX
                      have hcat_nd : (outL.childLegs ++ inL.childLegs).Nodup := hchperm.symm.nodup hXnd
                      have hond : outL.childLegs.Nodup := (List.nodup_append.mp hcat_nd).1
                      have hind : inL.childLegs.Nodup := (List.nodup_append.mp hcat_nd).2.1
                      have hdisj : ∀ c, c ∈ outL.childLegs → c ∉ inL.childLegs := fun c h1 h2 =>
                        (List.nodup_append.mp hcat_nd).2.2 c h1 c h2 rfl
                      have hmemX : ∀ c, c ∈ X.children ↔ (c ∈ outL.childLegs ∨ c ∈ inL.childLegs) := by
                        intro c; rw [← hchperm.mem_iff, List.mem_append]
                      have hnode_ne : ∀ k n, t.N k = some n → k ≠ id → k ≠ outId ∧ k ≠ inId := by
                        intro k n hk hkid
                        constructor
                        · intro e; subst e
                          rcases adm.outFresh with e' | e'
                          · exact hkid e'
                          · rw [hk] at e'; simp at e'
                        · intro e; subst e
                          rcases adm.inFresh with e' | e'
                          · exact hkid e'
                          · rw [hk] at e'; simp at e'
                      have hchild : ∀ c, c ∈ X.children → ∃ cn, t.N c = some cn ∧ c ≠ id ∧ c ≠ outId ∧ c ≠ inId := by
                        intro c hc
                        obtain ⟨cch, hcS⟩ := hstr.down id _ _ c hSX hc
                        obtain ⟨cn, hcn, _⟩ := TTN.N_of_S hcS
                        have hcid : c ≠ id := fun e => by rw [e] at hcS; exact hstr.parent_ne hcS rfl
                        exact ⟨cn, hcn, hcid, (hnode_ne c cn hcn hcid).1, (hnode_ne c cn hcn hcid).2⟩
                      have hgp : ∀ p, X.parent = some p → ∃ pn, t.N p = some pn ∧ p ≠ id ∧ p ≠ outId ∧ p ≠ inId ∧
                          p ∉ X.children := by
                        intro p hp
                        have hSX' : t.S id = some (some p, X.children) := by rw [hSX, hp]
                        obtain ⟨pp, pch, hpS, _⟩ := hstr.up id p _ hSX'
                        obtain ⟨pn, hpn, _⟩ := TTN.N_of_S hpS
                        have hpid : p ≠ id := hstr.parent_ne hSX'
                        refine ⟨pn, hpn, hpid, (hnode_ne p pn hpn hpid).1, (hnode_ne p pn hpn hpid).2, ?_⟩
                        intro hm
                        obtain ⟨cch, hcS⟩ := hstr.down id _ _ p hSX hm
                        exact hstr.no_two_cycle hSX' hcS
                      -- the closing argument, shared by the four configurations
                      have closing : ∀ (a b : Id) (aCh bCh : List Id) (na nb : NodeS) (Ta Tb : Tensor),
                          ((a = outId ∧ b = inId ∧ aCh = outL.childLegs ∧ bCh = inL.childLegs ∧
                              (∀ k, k ∈ outL.allNeighbourIds ↔ (X.parent = some k ∨ k ∈ aCh)) ∧
                              (∀ k, k ∈ inL.allNeighbourIds ↔ k ∈ bCh)) ∨
                           (a = inId ∧ b = outId ∧ aCh = inL.childLegs ∧ bCh = outL.childLegs ∧
                              (∀ k, k ∈ inL.allNeighbourIds ↔ (X.parent = some k ∨ k ∈ aCh)) ∧
                              (∀ k, k ∈ outL.allNeighbourIds ↔ k ∈ bCh))) →
                          t2.N a = some na → t2.N b = some nb →
                          dget t2.tensors a = some Ta → dget t2.tensors b = some Tb →
                          na.parent = X.parent → na.children = b :: aCh → nb.parent = some a → nb.children = bCh →
                          WFN na → WFN nb → na.shp = shapeOf Ta → nb.shp = shapeOf Tb →
                          outL.allNeighbourIds.Nodup → inL.allNeighbourIds.Nodup →
                          (if inL.isRoot then some inId else if outL.isRoot then some outId else t.root) =
                            (if X.parent = none then some a else t.root) →
                          ((a = outId ∧ (outL.parentLeg.isSome = true ∨ outL.isRoot = true)) ∨
                            (a = inId ∧ (inL.parentLeg.isSome = true ∨ inL.isRoot = true))) →
                          SplitLab t id X outL inL outId bd a b aCh bCh na nb Ta Tb →
                          ∃ a b aCh bCh na nb Ta Tb,
                            ((a = outId ∧ b = inId ∧ aCh = outL.childLegs ∧ bCh = inL.childLegs) ∨
                             (a = inId ∧ b = outId ∧ aCh = inL.childLegs ∧ bCh = outL.childLegs)) ∧
                            a ≠ b ∧
                            t'.N a = some na ∧ t'.N b = some nb ∧
                            na.parent = X.parent ∧ na.children = b :: aCh ∧ nb.parent = some a ∧ nb.children = bCh ∧
                            WFN na ∧ WFN nb ∧ na.shp = shapeOf Ta ∧ nb.shp = shapeOf Tb ∧
                            (id ≠ a → id ≠ b → t'.N id = none) ∧
                            (∀ k, k ≠ a → k ≠ b → k ≠ id →
                              (t.N k = none → t'.N k = none) ∧
                              (∀ n, t.N k = some n → ∃ n', t'.N k = some n' ∧ SRel id a b aCh k n n')) ∧
                            (∀ k, dget t'.tensors k = if k = a then some Ta else if k = b then some Tb
                                                      else if k = id then none else dget t.tensors k) ∧
                            t'.root = (if X.parent = none then some a else t.root) ∧
                            ((a = outId ∧ (outL.parentLeg.isSome = true ∨ outL.isRoot = true)) ∨
                              (a = inId ∧ (inL.parentLeg.isSome = true ∨ inL.isRoot = true))) ∧
                            SplitLab t id X outL inL outId bd a b aCh bCh na nb Ta Tb := by
                        intro a b aCh bCh na nb Ta Tb hcfg hNa hNb hTa hTb p1 p2 p3 p4 w1 w2 s1 s2 nd1 nd2 hroot5 hside hlab
                        obtain ⟨hN3, hten3, hroot3, _⟩ := rnisn_eq nd1 hr3
                        obtain ⟨hN4, hten4, hroot4, _⟩ := rnisn_eq nd2 hr4
                        obtain ⟨hnodes5, hten5, hroot5'⟩ := setRoot_eq hr5
                        rw [hroot4, hroot3, hroot2] at hroot5'
                        have hab : a ≠ b := by
                          rcases hcfg with ⟨e1, e2, _⟩ | ⟨e1, e2, _⟩
                          · rw [e1, e2]; exact hoi
                          · rw [e1, e2]; exact fun e => hoi e.symm
                        have hab_ids : (a = outId ∧ b = inId) ∨ (a = inId ∧ b = outId) := by
                          rcases hcfg with ⟨e1, e2, _⟩ | ⟨e1, e2, _⟩
                          · exact Or.inl ⟨e1, e2⟩
                          · exact Or.inr ⟨e1, e2⟩
                        -- neighbours are genuine other nodes
                        have hpartX : ∀ c, c ∈ X.children ↔ (c ∈ aCh ∨ c ∈ bCh) := by
                          intro c
                          rcases hcfg with ⟨_, _, e3, e4, _⟩ | ⟨_, _, e3, e4, _⟩
                          · rw [e3, e4]; exact hmemX c
                          · rw [e3, e4, hmemX c]; exact Or.comm
                        have hdisj' : ∀ c, c ∈ aCh → c ∉ bCh := by
                          intro c
                          rcases hcfg with ⟨_, _, e3, e4, _⟩ | ⟨_, _, e3, e4, _⟩
                          · rw [e3, e4]; exact hdisj c
                          · rw [e3, e4]; exact fun h1 h2 => hdisj c h2 h1
                        have hnb_node : ∀ k, (X.parent = some k ∨ k ∈ aCh ∨ k ∈ bCh) →
                            ∃ n, t.N k = some n ∧ k ≠ id ∧ k ≠ outId ∧ k ≠ inId := by
                          intro k hk
                          rcases hk with hk | hk | hk
                          · obtain ⟨pn, q1, q2, q3, q4, _⟩ := hgp k hk
                            exact ⟨pn, q1, q2, q3, q4⟩
                          · exact hchild k ((hpartX k).mpr (Or.inl hk))
                          · exact hchild k ((hpartX k).mpr (Or.inr hk))
                        -- membership in the two neighbour lists, in terms of a / b
                        have hInA : ∀ k, (X.parent = some k ∨ k ∈ aCh) →
                            ((a = outId ∧ k ∈ outL.allNeighbourIds ∧ k ∉ inL.allNeighbourIds) ∨
                             (a = inId ∧ k ∈ inL.allNeighbourIds ∧ k ∉ outL.allNeighbourIds)) := by
                          intro k hk
                          have hnotb : k ∉ bCh := by
                            rcases hk with hk | hk
                            · intro hm
                              obtain ⟨_, _, _, _, _, q⟩ := hgp k hk
                              exact q ((hpartX k).mpr (Or.inr hm))
                            · exact hdisj' k hk
                          rcases hcfg with ⟨e1, _, _, _, m1, m2⟩ | ⟨e1, _, _, _, m1, m2⟩
                          · exact Or.inl ⟨e1, (m1 k).mpr hk, fun h' => hnotb ((m2 k).mp h')⟩
                          · exact Or.inr ⟨e1, (m1 k).mpr hk, fun h' => hnotb ((m2 k).mp h')⟩
                        have hInB : ∀ k, k ∈ bCh →
                            ((b = outId ∧ k ∈ outL.allNeighbourIds ∧ k ∉ inL.allNeighbourIds) ∨
                             (b = inId ∧ k ∈ inL.allNeighbourIds ∧ k ∉ outL.allNeighbourIds)) := by
                          intro k hk
                          have hnota : ¬ (X.parent = some k ∨ k ∈ aCh) := by
                            rintro (h' | h')
                            · obtain ⟨_, _, _, _, _, q⟩ := hgp k h'
                              exact q ((hpartX k).mpr (Or.inr hk))
                            · exact hdisj' k h' hk
                          rcases hcfg with ⟨_, e2, _, _, m1, m2⟩ | ⟨_, e2, _, _, m1, m2⟩
                          · exact Or.inr ⟨e2, (m2 k).mpr hk, fun h' => hnota ((m1 k).mp h')⟩
                          · exact Or.inl ⟨e2, (m2 k).mpr hk, fun h' => hnota ((m1 k).mp h')⟩
                        have hInNone : ∀ k, ¬ X.parent = some k → k ∉ aCh → k ∉ bCh →
                            k ∉ outL.allNeighbourIds ∧ k ∉ inL.allNeighbourIds := by
                          intro k h1 h2 h3
                          rcases hcfg with ⟨_, _, _, _, m1, m2⟩ | ⟨_, _, _, _, m1, m2⟩
                          · exact ⟨fun h' => by rcases (m1 k).mp h' with q | q <;> contradiction,
                              fun h' => h3 ((m2 k).mp h')⟩
                          · exact ⟨fun h' => h3 ((m2 k).mp h'),
                              fun h' => by rcases (m1 k).mp h' with q | q <;> contradiction⟩
                        -- t4 on a key that is in neither list
                        have hN4_not : ∀ k, k ∉ outL.allNeighbourIds → k ∉ inL.allNeighbourIds → t4.N k = t2.N k := by
                          intro k h1 h2; rw [hN4, hN3]; simp [h1, h2]
                        have hids_not : ∀ k, (k = outId ∨ k = inId ∨ k = id) →
                            k ∉ outL.allNeighbourIds ∧ k ∉ inL.allNeighbourIds := by
                          intro k hk
                          have key : ∀ k', (X.parent = some k' ∨ k' ∈ aCh ∨ k' ∈ bCh) → k' ≠ k := by
                            intro k' hk' e
                            obtain ⟨_, _, q2, q3, q4⟩ := hnb_node k' hk'
                            rcases hk with hk | hk | hk
                            · exact q3 (e.trans hk)
                            · exact q4 (e.trans hk)
                            · exact q2 (e.trans hk)
                          rcases hcfg with ⟨_, _, _, _, m1, m2⟩ | ⟨_, _, _, _, m1, m2⟩
                          · exact ⟨fun h' => by
                              rcases (m1 k).mp h' with q | q
                              · exact key k (Or.inl q) rfl
                              · exact key k (Or.inr (Or.inl q)) rfl,
                              fun h' => key k (Or.inr (Or.inr ((m2 k).mp h'))) rfl⟩
                          · exact ⟨fun h' => key k (Or.inr (Or.inr ((m2 k).mp h'))) rfl,
                              fun h' => by
                              rcases (m1 k).mp h' with q | q
                              · exact key k (Or.inl q) rfl
                              · exact key k (Or.inr (Or.inl q)) rfl⟩
                        -- the last step: dropping the old identifier
                        have hfinal : (∀ k, t'.N k = if (id ≠ outId ∧ id ≠ inId) ∧ k = id then none else t4.N k) ∧
                            (∀ k, dget t'.tensors k =
                              if (id ≠ outId ∧ id ≠ inId) ∧ k = id then none else dget t2.tensors k) ∧
                            t'.root = t5.root := by
                          by_cases hdrop : id ≠ outId ∧ id ≠ inId
                          · rw [if_pos hdrop] at hs
                            cases hpop : t5.tensorsPop id with
                            | none => simp [hpop] at hs
                            | some t6 =>
                              simp only [hpop] at hs
                              cases hdp : dpop t6.nodes id with
                              | none => simp [hdp] at hs
                              | some ns =>
                                simp only [hdp, Option.some.injEq] at hs
                                subst hs
                                obtain ⟨n6, Ts6, T6, ts6, g1, g2, g3, g4, rfl⟩ := tensorsPop_eq hpop
                                obtain ⟨_, q1⟩ := dpop_eq_some _ _ _ hdp
                                obtain ⟨_, q2⟩ := dpop_eq_some _ _ _ g4
                                refine ⟨fun k => ?_, fun k => ?_, rfl⟩
                                · simp only [TTN.N, q1 k, dget_dset, hnodes5]
                                  by_cases hk : k = id <;> simp [hk, hdrop]
                                · simp only [q2 k, dget_dset, hten5, hten4, hten3]
                                  by_cases hk : k = id <;> simp [hk, hdrop]
                          · rw [if_neg hdrop] at hs
                            simp only [Option.some.injEq] at hs
                            subst hs
                            refine ⟨fun k => ?_, fun k => ?_, rfl⟩
                            · simp [TTN.N, hdrop, hnodes5]
                            · simp [hdrop, hten5, hten4, hten3]
                        obtain ⟨fN, fT, fR⟩ := hfinal
                        have hid_ab : ∀ k, (k = a ∨ k = b) → ¬ ((id ≠ outId ∧ id ≠ inId) ∧ k = id) := by
                          intro k hk hcon
                          obtain ⟨⟨c1, c2⟩, c3⟩ := hcon
                          rcases hab_ids with ⟨e1, e2⟩ | ⟨e1, e2⟩ <;> rcases hk with hk | hk
                          · exact c1 (c3.symm.trans (hk.trans e1))
                          · exact c2 (c3.symm.trans (hk.trans e2))
                          · exact c2 (c3.symm.trans (hk.trans e1))
                          · exact c1 (c3.symm.trans (hk.trans e2))
                        have ha_ids : a = outId ∨ a = inId := by
                          rcases hab_ids with ⟨e1, _⟩ | ⟨e1, _⟩
                          · exact Or.inl e1
                          · exact Or.inr e1
                        have hb_ids : b = outId ∨ b = inId := by
                          rcases hab_ids with ⟨_, e2⟩ | ⟨_, e2⟩
                          · exact Or.inr e2
                          · exact Or.inl e2
                        refine ⟨a, b, aCh, bCh, na, nb, Ta, Tb, ?_, hab, ?_, ?_, p1, p2, p3, p4, w1, w2, s1, s2, ?_, ?_, ?_, ?_, hside, hlab⟩
                        · rcases hcfg with ⟨e1, e2, e3, e4, _⟩ | ⟨e1, e2, e3, e4, _⟩
                          · exact Or.inl ⟨e1, e2, e3, e4⟩
                          · exact Or.inr ⟨e1, e2, e3, e4⟩
                        · rw [fN, if_neg (hid_ab a (Or.inl rfl))]
                          have := hids_not a (by rcases ha_ids with e | e <;> simp [e])
                          rw [hN4_not a this.1 this.2, hNa]
                        · rw [fN, if_neg (hid_ab b (Or.inr rfl))]
                          have := hids_not b (by rcases hb_ids with e | e <;> simp [e])
                          rw [hN4_not b this.1 this.2, hNb]
                        · intro h1 h2
                          have hdrop : id ≠ outId ∧ id ≠ inId := by
                            rcases hab_ids with ⟨e1, e2⟩ | ⟨e1, e2⟩
                            · exact ⟨e1 ▸ h1, e2 ▸ h2⟩
                            · exact ⟨e2 ▸ h2, e1 ▸ h1⟩
                          rw [fN]; simp [hdrop]
                        · intro k hka hkb hkid
                          have hko : k ≠ outId ∧ k ≠ inId := by
                            rcases hab_ids with ⟨e1, e2⟩ | ⟨e1, e2⟩
                            · exact ⟨e1 ▸ hka, e2 ▸ hkb⟩
                            · exact ⟨e2 ▸ hkb, e1 ▸ hka⟩
                          have hN2k : t2.N k = t.N k := by rw [hN2]; simp [hko.1, hko.2, hkid]
                          have hfk : t'.N k = t4.N k := by rw [fN]; simp [hkid]
                          rw [hfk, hN4, hN3, hN2k]
                          constructor
                          · intro hnone
                            simp [hnone]
                          · intro n hn
                            obtain ⟨c1, c2, c3, c4⟩ := srel_cases h (a := a) (b := b) hXN hn hkid hpartX hdisj'
                            by_cases hA : X.parent = some k ∨ k ∈ aCh
                            · have hrel : ∃ n', TTN.replaceNeighbour n id a = some n' ∧ SRel id a b aCh k n n' := by
                                rcases hA with hA | hA
                                · exact c3 hA
                                · exact c1 hA
                              obtain ⟨n', r1, r2⟩ := hrel
                              rcases hInA k hA with ⟨e, m1, m2⟩ | ⟨e, m1, m2⟩
                              · refine ⟨n', ?_, r2⟩
                                simp [m1, m2, hn, ← e, r1]
                              · refine ⟨n', ?_, r2⟩
                                simp [m1, m2, hn, ← e, r1]
                            · have hA1 : ¬ X.parent = some k := fun e => hA (Or.inl e)
                              have hA2 : k ∉ aCh := fun e => hA (Or.inr e)
                              by_cases hB : k ∈ bCh
                              · obtain ⟨n', r1, r2⟩ := c2 hB
                                rcases hInB k hB with ⟨e, m1, m2⟩ | ⟨e, m1, m2⟩
                                · refine ⟨n', ?_, r2⟩
                                  simp [m1, m2, hn, ← e, r1]
                                · refine ⟨n', ?_, r2⟩
                                  simp [m1, m2, hn, ← e, r1]
                              · obtain ⟨m1, m2⟩ := hInNone k hA1 hA2 hB
                                exact ⟨n, by simp [m1, m2, hn], c4 hA2 hB hA1⟩
                        · intro k
                          rw [fT, hT2]
                          by_cases hk1 : k = a
                          · have hnot := hid_ab k (Or.inl hk1)
                            rw [if_neg hnot, ← hT2, hk1, hTa]; simp
                          · by_cases hk2 : k = b
                            · have hnot := hid_ab k (Or.inr hk2)
                              have hba : ¬ b = a := fun e => hab e.symm
                              rw [if_neg hnot, ← hT2, hk2, hTb]; simp [hba]
                            · have hko : k ≠ outId ∧ k ≠ inId := by
                                rcases hab_ids with ⟨e1, e2⟩ | ⟨e1, e2⟩
                                · exact ⟨e1 ▸ hk1, e2 ▸ hk2⟩
                                · exact ⟨e2 ▸ hk2, e1 ▸ hk1⟩
                              simp only [hk1, hk2, hko.1, hko.2, if_false]
                              by_cases hk3 : k = id
                              · subst hk3
                                have hdrop : k ≠ outId ∧ k ≠ inId := hko
                                simp [hdrop]
                              · simp [hk3]
                        · rw [fR, hroot5', hroot5]
                      -- sizes of the two arrays
                      have hlo := findLegValues_length hoint
                      have hli := findLegValues_length hiint
                      obtain ⟨hlenO, hlenI⟩ := splitAxes_eq hsa
                      have hio : ¬ inId = outId := fun e => hoi e.symm
                      have hNout : t2.N outId = some outNode := by rw [hN2]; simp
                      have hNin : t2.N inId = some inNode := by rw [hN2]; simp [hio]
                      have hTout : dget t2.tensors outId = some outT := by rw [hT2]; simp [hoi]
                      have hTin : dget t2.tensors inId = some inT := by rw [hT2]; simp
                      have hout_notin : outId ∉ X.children := fun hm => by
                        obtain ⟨_, _, _, q, _⟩ := hchild outId hm; exact q rfl
                      have hin_notin : inId ∉ X.children := fun hm => by
                        obtain ⟨_, _, _, _, q⟩ := hchild inId hm; exact q rfl
                      have hnd_in_out : (inId :: outL.childLegs).Nodup :=
                        List.nodup_cons.mpr ⟨fun hm => hin_notin ((hmemX inId).mpr (Or.inl hm)), hond⟩
                      have hnd_out_in : (outId :: inL.childLegs).Nodup :=
                        List.nodup_cons.mpr ⟨fun hm => hout_notin ((hmemX outId).mpr (Or.inr hm)), hind⟩
                      -- the two arrays in blocks, the logical tensor of the split node
                      obtain ⟨Om, Im, hOm, hIm, houtT, hinT⟩ := splitAxes_blocks hsa
                      obtain ⟨PaO, Oc, Oo, cvO, hOmB, hPaO, hcvO, hOc, hOo⟩ := side_blocks hoint hOm
                      obtain ⟨PaI, Ic, Io, cvI, hImB, hPaI, hcvI, hIc, hIo⟩ := side_blocks hiint hIm
                      obtain ⟨hOcl, hOcm⟩ := zip_children_axes (L := L) hcvO hOc
                      obtain ⟨hIcl, hIcm⟩ := zip_children_axes (L := L) hcvI hIc
                      have hOcm' : ∀ x ax, (x, ax) ∈ outL.childLegs.zip Oc ↔
                          (x ∈ outL.childLegs ∧ legAx X L x = some ax) := hOcm
                      have hIcm' : ∀ x ax, (x, ax) ∈ inL.childLegs.zip Ic ↔
                          (x ∈ inL.childLegs ∧ legAx X L x = some ax) := hIcm
                      have hlogL : t.logical id = some L := by rw [logical_eq hXN e2]; exact e3
                      have hpickO : pick L outL.openLegs = Oo := pick_of_mapM hOo
                      have hpickI : pick L inL.openLegs = Io := pick_of_mapM hIo
                      have hopen : (outL.openLegs ++ inL.openLegs).Perm
                          (List.range' X.nvirt (X.nlegs - X.nvirt)) := by
                        obtain ⟨moved, hmoved⟩ := splitAxes_transpose hsa
                        refine split_open_perm (X := X) hXnd ?_ (transposeT_length e3).1 (h.node id X hXN).virt
                          hchperm ?_ hoint hiint hmoved
                        · intro c hc e
                          obtain ⟨_, _, _, _, _, q⟩ := hgp c e
                          exact q hc
                        · rcases adm.parent with ⟨p, hXp, _, _, hcase⟩ | ⟨hXp, hop, hip, _⟩
                          · exact Or.inl ⟨p, hXp, hcase⟩
                          · exact Or.inr ⟨hXp, hop, hip⟩
                      rcases adm.parent with ⟨p, hXp, hro, hri, hcase⟩ | ⟨hXp, hop, hip, hcase⟩
                      · obtain ⟨_, _, _, _, _, hp_notin⟩ := hgp p hXp
                        rcases hcase with ⟨hop, hip⟩ | ⟨hop, hip⟩
                        · -- out keeps the parent
                          obtain ⟨on, o1, o2, o3, o4, o5⟩ := out_node_parent_facts outT outL inL inId p
                            outL.openLegs.length hop hro hri hip (by rw [hlenO, hlo, hop]; simp <;> omega) hnd_in_out
                          rw [hbo] at o1; simp only [Option.some.injEq] at o1; subst o1
                          obtain ⟨inn, i1, i2, i3, i4, i5⟩ := in_node_child_facts inT inL outL outId
                            inL.openLegs.length hip hri (by rw [hlenI, hli, hip]; simp; omega) hind
                          rw [hbi] at i1; simp only [Option.some.injEq] at i1; subst i1
                          exact closing outId inId outL.childLegs inL.childLegs outNode inNode outT inT
                            (Or.inl ⟨rfl, rfl, rfl, rfl,
                              fun k => by rw [mem_allNeighbourIds, hop, hXp],
                              fun k => by rw [mem_allNeighbourIds, hip]; simp⟩)
                            hNout hNin hTout hTin (by rw [o4, hXp]) o5 i4 i5 o2 i2 o3 i3
                            (nodup_allNeighbourIds outL hond (fun q hq hm => by
                              rw [hop] at hq; simp at hq; subst hq
                              exact hp_notin ((hmemX p).mpr (Or.inl hm))))
                            (nodup_allNeighbourIds inL hind (fun q hq => by rw [hip] at hq; simp at hq))
                            (by simp [hri, hro, hXp])
                            (Or.inl ⟨rfl, Or.inl (by rw [hop]; rfl)⟩)
                            (by
                              obtain ⟨a0, q2, q3⟩ : ∃ a0, PaO = [a0] ∧ L[0]? = some a0 := by
                                rcases hPaO with ⟨q, _⟩ | ⟨p', a0, _, q2, q3⟩
                                · rw [hop] at q; simp at q
                                · exact ⟨a0, q2, q3⟩
                              have q4 : PaI = [] := by
                                rcases hPaI with ⟨_, q4⟩ | ⟨p'', _, q5, _⟩
                                · exact q4
                                · rw [hip] at q5; simp at q5
                              subst q2 q4
                              have houtT' : outT = a0 :: (Oc ++ Oo) ++ [⟨t.nextLabel, bd⟩] := by
                                rw [houtT, hOmB]; simp
                              have hinT' : inT = ⟨t.nextLabel, bd⟩ :: (Ic ++ Io) := by rw [hinT, hImB]; simp
                              obtain ⟨on', u1, _, _, u4, u5, u6⟩ := out_node_parent_logical outL inL inId p
                                ⟨t.nextLabel, bd⟩ a0 Oc Oo hop hro hri hip hOcl hnd_in_out
                              rw [← houtT', hbo] at u1; simp only [Option.some.injEq] at u1; subst u1
                              obtain ⟨in', v1, _, _, v4, v5, v6⟩ := in_node_child_logical inL outL outId
                                ⟨t.nextLabel, bd⟩ Ic Io hip hri hIcl hind
                              rw [← hinT', hbi] at v1; simp only [Option.some.injEq] at v1; subst v1
                              obtain ⟨k1, k2⟩ := keeper_legs (X := X) (L := L) (bond := ⟨t.nextLabel, bd⟩) (Ao := Oo)
                                (Pa := [a0]) (by rw [u4, hXp]) u5 (Or.inr ⟨p, a0, hXp, rfl, q3⟩) hOcl hOcm'
                                (by rw [hXp]; intro e; simp at e; obtain ⟨_, _, _, _, q, _⟩ := hgp p hXp; exact q e)
                              obtain ⟨m1, m2⟩ := other_legs (X := X) (L := L) (bond := ⟨t.nextLabel, bd⟩) (Bo := Io)
                                v4 v5 hIcl hIcm'
                              refine ⟨L, _, _, hlogL, by rw [houtT']; exact u6, by rw [hinT']; exact v6, k1, m1, ?_, ?_, hopen⟩
                              · rw [if_pos rfl, hpickO]; exact k2
                              · rw [if_neg hio, hpickI]; exact m2)
                        · -- in keeps the parent
                          obtain ⟨inn, i1, i2, i3, i4, i5⟩ := in_node_parent_facts inT inL outL outId p
                            inL.openLegs.length hip hri (by rw [hlenI, hli, hip]; simp; omega) hnd_out_in
                          rw [hbi] at i1; simp only [Option.some.injEq] at i1; subst i1
                          obtain ⟨on, o1, o2, o3, o4, o5⟩ := out_node_child_facts outT outL inL inId
                            outL.openLegs.length hop hro (Or.inr (by rw [hip]; rfl))
                            (by rw [hlenO, hlo, hop]; simp) hond
                          rw [hbo] at o1; simp only [Option.some.injEq] at o1; subst o1
                          exact closing inId outId inL.childLegs outL.childLegs inNode outNode inT outT
                            (Or.inr ⟨rfl, rfl, rfl, rfl,
                              fun k => by rw [mem_allNeighbourIds, hip, hXp],
                              fun k => by rw [mem_allNeighbourIds, hop]; simp⟩)
                            hNin hNout hTin hTout (by rw [i4, hXp]) i5 o4 o5 i2 o2 i3 o3
                            (nodup_allNeighbourIds outL hond (fun q hq => by rw [hop] at hq; simp at hq))
                            (nodup_allNeighbourIds inL hind (fun q hq hm => by
                              rw [hip] at hq; simp at hq; subst hq
                              exact hp_notin ((hmemX p).mpr (Or.inr hm))))
                            (by simp [hri, hro, hXp])
                            (Or.inr ⟨rfl, Or.inl (by rw [hip]; rfl)⟩)
                            (by
                              obtain ⟨a0, q4, q3⟩ : ∃ a0, PaI = [a0] ∧ L[0]? = some a0 := by
                                rcases hPaI with ⟨q, _⟩ | ⟨p', a0, _, q2, q3⟩
                                · rw [hip] at q; simp at q
                                · exact ⟨a0, q2, q3⟩
                              have q2 : PaO = [] := by
                                rcases hPaO with ⟨_, q⟩ | ⟨p', _, q5, _⟩
                                · exact q
                                · rw [hop] at q5; simp at q5
                              subst q2 q4
                              have houtT' : outT = Oc ++ Oo ++ [⟨t.nextLabel, bd⟩] := by
                                rw [houtT, hOmB]; simp
                              have hinT' : inT = ⟨t.nextLabel, bd⟩ :: a0 :: (Ic ++ Io) := by rw [hinT, hImB]; simp
                              obtain ⟨in', v1, _, _, v4, v5, v6⟩ := in_node_parent_logical inL outL outId p
                                ⟨t.nextLabel, bd⟩ a0 Ic Io hip hri hIcl hnd_out_in
                              rw [← hinT', hbi] at v1; simp only [Option.some.injEq] at v1; subst v1
                              obtain ⟨on', u1, _, _, u4, u5, u6⟩ := out_node_child_logical outL inL inId
                                ⟨t.nextLabel, bd⟩ Oc Oo hop hro (Or.inr (by rw [hip]; rfl)) hOcl hond
                              rw [← houtT', hbo] at u1; simp only [Option.some.injEq] at u1; subst u1
                              obtain ⟨k1, k2⟩ := keeper_legs (X := X) (L := L) (bond := ⟨t.nextLabel, bd⟩) (Ao := Io)
                                (Pa := [a0]) (by rw [v4, hXp]) v5 (Or.inr ⟨p, a0, hXp, rfl, q3⟩) hIcl hIcm'
                                (by rw [hXp]; intro e; simp at e; obtain ⟨_, _, _, q, _, _⟩ := hgp p hXp; exact q e)
                              obtain ⟨m1, m2⟩ := other_legs (X := X) (L := L) (bond := ⟨t.nextLabel, bd⟩) (Bo := Oo)
                                u4 u5 hOcl hOcm'
                              refine ⟨L, _, _, hlogL, by rw [hinT']; exact v6, by rw [houtT']; exact u6, k1, m1, ?_, ?_, hopen⟩
                              · rw [if_neg hio, hpickI]; exact k2
                              · rw [if_pos rfl, hpickO]; exact m2)
                      · rcases hcase with ⟨hro, hri⟩ | ⟨hro, hri⟩
                        · -- out becomes the root
                          obtain ⟨on, o1, o2, o3, o4, o5⟩ := out_node_root_facts outT outL inL inId
                            outL.openLegs.length hop hro hri hip (by rw [hlenO, hlo, hop]; simp) hnd_in_out
                          rw [hbo] at o1; simp only [Option.some.injEq] at o1; subst o1
                          obtain ⟨inn, i1, i2, i3, i4, i5⟩ := in_node_child_facts inT inL outL outId
                            inL.openLegs.length hip hri (by rw [hlenI, hli, hip]; simp; omega) hind
                          rw [hbi] at i1; simp only [Option.some.injEq] at i1; subst i1
                          exact closing outId inId outL.childLegs inL.childLegs outNode inNode outT inT
                            (Or.inl ⟨rfl, rfl, rfl, rfl,
                              fun k => by rw [mem_allNeighbourIds, hop, hXp],
                              fun k => by rw [mem_allNeighbourIds, hip]; simp⟩)
                            hNout hNin hTout hTin (by rw [o4, hXp]) o5 i4 i5 o2 i2 o3 i3
                            (nodup_allNeighbourIds outL hond (fun q hq => by rw [hop] at hq; simp at hq))
                            (nodup_allNeighbourIds inL hind (fun q hq => by rw [hip] at hq; simp at hq))
                            (by simp [hri, hro, hXp])
                            (Or.inl ⟨rfl, Or.inr hro⟩)
                            (by
                              have q2 : PaO = [] := by
                                rcases hPaO with ⟨_, q⟩ | ⟨p', _, q5, _⟩
                                · exact q
                                · rw [hop] at q5; simp at q5
                              have q4 : PaI = [] := by
                                rcases hPaI with ⟨_, q⟩ | ⟨p'', _, q5, _⟩
                                · exact q
                                · rw [hip] at q5; simp at q5
                              subst q2 q4
                              have houtT' : outT = Oc ++ Oo ++ [⟨t.nextLabel, bd⟩] := by
                                rw [houtT, hOmB]; simp
                              have hinT' : inT = ⟨t.nextLabel, bd⟩ :: (Ic ++ Io) := by rw [hinT, hImB]; simp
                              obtain ⟨on', u1, _, _, u4, u5, u6⟩ := out_node_root_logical outL inL inId
                                ⟨t.nextLabel, bd⟩ Oc Oo hop hro hri hip hOcl hnd_in_out
                              rw [← houtT', hbo] at u1; simp only [Option.some.injEq] at u1; subst u1
                              obtain ⟨in', v1, _, _, v4, v5, v6⟩ := in_node_child_logical inL outL outId
                                ⟨t.nextLabel, bd⟩ Ic Io hip hri hIcl hind
                              rw [← hinT', hbi] at v1; simp only [Option.some.injEq] at v1; subst v1
                              obtain ⟨k1, k2⟩ := keeper_legs (X := X) (L := L) (bond := ⟨t.nextLabel, bd⟩) (Ao := Oo)
                                (Pa := []) (by rw [u4, hXp]) u5 (Or.inl ⟨hXp, rfl⟩) hOcl hOcm'
                                (by rw [hXp]; simp)
                              obtain ⟨m1, m2⟩ := other_legs (X := X) (L := L) (bond := ⟨t.nextLabel, bd⟩) (Bo := Io)
                                v4 v5 hIcl hIcm'
                              refine ⟨L, _, _, hlogL, by rw [houtT']; exact u6, by rw [hinT']; exact v6, k1, m1, ?_, ?_, hopen⟩
                              · rw [if_pos rfl, hpickO]; exact k2
                              · rw [if_neg hio, hpickI]; exact m2)
                        · -- in becomes the root
                          obtain ⟨inn, i1, i2, i3, i4, i5⟩ := in_node_root_facts inT inL outL outId
                            inL.openLegs.length hip hri hop (by rw [hlenI, hli, hip]; simp; omega) hnd_out_in
                          rw [hbi] at i1; simp only [Option.some.injEq] at i1; subst i1
                          obtain ⟨on, o1, o2, o3, o4, o5⟩ := out_node_child_facts outT outL inL inId
                            outL.openLegs.length hop hro (Or.inl hri) (by rw [hlenO, hlo, hop]; simp) hond
                          rw [hbo] at o1; simp only [Option.some.injEq] at o1; subst o1
                          exact closing inId outId inL.childLegs outL.childLegs inNode outNode inT outT
                            (Or.inr ⟨rfl, rfl, rfl, rfl,
                              fun k => by rw [mem_allNeighbourIds, hip, hXp],
                              fun k => by rw [mem_allNeighbourIds, hop]; simp⟩)
                            hNin hNout hTin hTout (by rw [i4, hXp]) i5 o4 o5 i2 o2 i3 o3
                            (nodup_allNeighbourIds outL hond (fun q hq => by rw [hop] at hq; simp at hq))
                            (nodup_allNeighbourIds inL hind (fun q hq => by rw [hip] at hq; simp at hq))
                            (by simp [hri, hXp])
                            (Or.inr ⟨rfl, Or.inr hri⟩)
                            (by
                              have q2 : PaO = [] := by
                                rcases hPaO with ⟨_, q⟩ | ⟨p', _, q5, _⟩
                                · exact q
                                · rw [hop] at q5; simp at q5
                              have q4 : PaI = [] := by
                                rcases hPaI with ⟨_, q⟩ | ⟨p'', _, q5, _⟩
                                · exact q
                                · rw [hip] at q5; simp at q5
                              subst q2 q4
                              have houtT' : outT = Oc ++ Oo ++ [⟨t.nextLabel, bd⟩] := by
                                rw [houtT, hOmB]; simp
                              have hinT' : inT = ⟨t.nextLabel, bd⟩ :: (Ic ++ Io) := by rw [hinT, hImB]; simp
                              obtain ⟨in', v1, _, _, v4, v5, v6⟩ := in_node_root_logical inL outL outId
                                ⟨t.nextLabel, bd⟩ Ic Io hip hri hop hIcl hnd_out_in
                              rw [← hinT', hbi] at v1; simp only [Option.some.injEq] at v1; subst v1
                              obtain ⟨on', u1, _, _, u4, u5, u6⟩ := out_node_child_logical outL inL inId
                                ⟨t.nextLabel, bd⟩ Oc Oo hop hro (Or.inl hri) hOcl hond
                              rw [← houtT', hbo] at u1; simp only [Option.some.injEq] at u1; subst u1
                              obtain ⟨k1, k2⟩ := keeper_legs (X := X) (L := L) (bond := ⟨t.nextLabel, bd⟩) (Ao := Io)
                                (Pa := []) (by rw [v4, hXp]) v5 (Or.inl ⟨hXp, rfl⟩) hIcl hIcm'
                                (by rw [hXp]; simp)
                              obtain ⟨m1, m2⟩ := other_legs (X := X) (L := L) (bond := ⟨t.nextLabel, bd⟩) (Bo := Oo)
                                u4 u5 hOcl hOcm'
                              refine ⟨L, _, _, hlogL, by rw [hinT']; exact v6, by rw [houtT']; exact u6, k1, m1, ?_, ?_, hopen⟩
                              · rw [if_neg hio, hpickI]; exact k2
                              · rw [if_pos rfl, hpickO]; exact m2)

/-- **`split_nodes` keeps the network well-formed** (any splitting function, any admissible leg
    specifications and identifiers). -/
theorem split_nodes_wf_aux {t t' : TTN} {id : Id} {X : NodeS} {outL inL : TTN.LegSpec} {outId inId : Id}
    {bd : Nat} (h : t.WF) (adm : SplitAdm t id X outL inL outId inId)
    (hs : t.splitNodes id outL inL outId inId bd = some t') : t'.WF := by
  obtain ⟨a, b, aCh, bCh, na, nb, Ta, Tb, hcfg, hab, hNa, hNb, p1, p2, p3, p4, w1, w2, s1, s2, hid, hby, hT, hR, _, _⟩ :=
    split_final h adm hs
  have hXN := adm.node
  have hSX : t.S id = some (X.parent, X.children) := TTN.S_eq hXN
  have hXnd : X.children.Nodup := h.str.nodup id _ _ hSX
  have hcat_nd : (outL.childLegs ++ inL.childLegs).Nodup := adm.children.symm.nodup hXnd
  have hmemX : ∀ c, c ∈ X.children ↔ (c ∈ outL.childLegs ∨ c ∈ inL.childLegs) := by
    intro c; rw [← adm.children.mem_iff, List.mem_append]
  have hfr : ∀ k, (k = id ∨ t.N k = none) → (k = id ∨ t.S k = none) := by
    intro k hk
    rcases hk with e | e
    · exact Or.inl e
    · exact Or.inr (by simp [TTN.S, e])
  have hgraph : (a = id ∨ t.S a = none) ∧ (b = id ∨ t.S b = none) ∧
      (∀ c, c ∈ X.children ↔ (c ∈ aCh ∨ c ∈ bCh)) ∧ (∀ c, c ∈ aCh → c ∉ bCh) ∧ aCh.Nodup ∧ bCh.Nodup := by
    have d1 := (List.nodup_append.mp hcat_nd)
    rcases hcfg with ⟨e1, e2, e3, e4⟩ | ⟨e1, e2, e3, e4⟩
    · rw [e1, e2, e3, e4]
      exact ⟨hfr _ adm.outFresh, hfr _ adm.inFresh, hmemX, fun c h1 h2 => d1.2.2 c h1 c h2 rfl, d1.1, d1.2.1⟩
    · rw [e1, e2, e3, e4]
      exact ⟨hfr _ adm.inFresh, hfr _ adm.outFresh, fun c => by rw [hmemX c]; exact Or.comm,
        fun c h1 h2 => d1.2.2 c h2 c h1 rfl, d1.2.1, d1.1⟩
  obtain ⟨ga, gb, gpart, gdisj, gnda, gndb⟩ := hgraph
  have hS : t'.S = splitS t.S id a b X.parent aCh bCh := by
    funext k
    unfold splitS
    by_cases hka : k = a
    · subst hka; simp [TTN.S, hNa, structOf, p1, p2]
    · simp only [hka, if_false]
      by_cases hkb : k = b
      · subst hkb; simp [TTN.S, hNb, structOf, p3, p4]
      · simp only [hkb, if_false]
        by_cases hkid : k = id
        · subst hkid
          simp [TTN.S, hid hka hkb]
        · simp only [hkid, if_false]
          obtain ⟨b1, b2⟩ := hby k hka hkb hkid
          cases hn : t.N k with
          | none => simp [TTN.S, hn, b1 hn]
          | some n =>
            obtain ⟨n', q1, q2⟩ := b2 n hn
            simp [TTN.S, hn, q1, q2.2.2]
  have hTk : t'.hasT = fun k => k == a || k == b || (t.hasT k && k != id) := by
    funext k
    simp only [TTN.hasT, dhas_eq_isSome, hT k]
    by_cases hka : k = a
    · simp [hka]
    · have b1 : (k == a) = false := by simpa using hka
      by_cases hkb : k = b
      · subst hkb; simp [hka]
      · have b2 : (k == b) = false := by simpa using hkb
        by_cases hkid : k = id
        · subst hkid
          simp [hka, hkb, b1, b2]
        · have b3 : (k != id) = true := by simpa using hkid
          simp [hka, hkb, hkid, b1, b2, b3]
  refine ⟨?_, ?_, ?_⟩
  · rw [hS, hTk, hR]
    exact splitS_swf h.str id a b X.parent X.children aCh bCh hSX hab ga gb gpart gdisj gnda gndb
  · intro k n' hk
    by_cases hka : k = a
    · subst hka; rw [hNa] at hk; simp at hk; rw [← hk]; exact w1
    · by_cases hkb : k = b
      · subst hkb; rw [hNb] at hk; simp at hk; rw [← hk]; exact w2
      · by_cases hkid : k = id
        · subst hkid; rw [hid hka hkb] at hk; simp at hk
        · obtain ⟨b1, b2⟩ := hby k hka hkb hkid
          cases hn : t.N k with
          | none => rw [b1 hn] at hk; simp at hk
          | some n =>
            obtain ⟨n'', q1, q2⟩ := b2 n hn
            rw [q1] at hk; simp at hk; subst hk
            exact wfn_of_srel q2 (h.node k n hn)
  · intro k n' T' hk hT'
    rw [hT k] at hT'
    by_cases hka : k = a
    · subst hka
      rw [hNa] at hk; simp at hk; subst hk
      simp at hT'; subst hT'
      exact s1.symm
    · by_cases hkb : k = b
      · subst hkb
        rw [hNb] at hk; simp at hk; subst hk
        simp [hka] at hT'; subst hT'
        exact s2.symm
      · by_cases hkid : k = id
        · subst hkid; rw [hid hka hkb] at hk; simp at hk
        · simp only [hka, hkb, hkid, if_false] at hT'
          obtain ⟨b1, b2⟩ := hby k hka hkb hkid
          cases hn : t.N k with
          | none => rw [b1 hn] at hk; simp at hk
          | some n =>
            obtain ⟨n'', q1, q2⟩ := b2 n hn
            rw [q1] at hk; simp at hk; subst hk
            rw [q2.2.1]
            exact h.fit k n T' hn hT'

end Ptn.C02
