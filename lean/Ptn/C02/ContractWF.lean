import Ptn.C02.Graph
import Ptn.C02.ContractSpec
import Ptn.C02.Labels
/-! `contract_nodes` preserves well-formedness of the TTN model: refinement of the dictionary
manipulations to the pure graph operation `contractS`.  Core Lean only. -/
namespace Ptn.C02
open NodeS

/-! ### small facts -/

theorem structOf_setParent (new : Id) (n : NodeS) : structOf (setParent new n) = (some new, n.children) := rfl

theorem set_idxOf_eq_map (l : List Id) (a b : Id) (hnd : l.Nodup) :
    l.set (l.idxOf a) b = l.map (fun c => if c = a then b else c) := by
  induction l with
  | nil => simp
  | cons x l ih =>
    rw [List.nodup_cons] at hnd
    by_cases hx : x = a
    · subst hx
      have : ∀ c ∈ l, ¬ c = x := fun c hc e => hnd.1 (e ▸ hc)
      simp
      apply List.ext_getElem
      · simp
      · intro i h1 h2
        simp
        have := this l[i] (List.getElem_mem _)
        simp [this]
    · have hb : (x == a) = false := by simpa using hx
      simp [List.idxOf_cons, hb, hx, ih hnd.2]

theorem replaceChild_eq {n n' : NodeS} {old new : Id} (hnd : n.children.Nodup)
    (h : TTN.replaceChild n old new = some n') :
    old ∈ n.children ∧ n'.perm = n.perm ∧ n'.shp = n.shp ∧ n'.parent = n.parent ∧
      n'.children = n.children.map (fun c => if c = old then new else c) := by
  unfold TTN.replaceChild at h
  split at h
  · simp at h
  · rename_i hm
    have hm' : old ∈ n.children := by simpa using hm
    split at h
    · rename_i heq
      simp only [Option.some.injEq] at h
      subst h
      refine ⟨hm', rfl, rfl, rfl, ?_⟩
      subst heq
      have : (fun c => if c = old then old else c) = (id : Id → Id) := by
        funext c; by_cases hc : c = old <;> simp [hc]
      rw [this]; simp
    · simp only [Option.some.injEq] at h
      subst h
      exact ⟨hm', rfl, rfl, rfl, set_idxOf_eq_map _ _ _ hnd⟩

theorem determineParentage_eq {t : TTN} {id1 id2 pid cid : Id}
    (h : t.determineParentage id1 id2 = some (pid, cid)) :
    ∃ P C, t.N pid = some P ∧ t.N cid = some C ∧ C.parent = some pid ∧
      ((pid = id1 ∧ cid = id2) ∨ (pid = id2 ∧ cid = id1)) := by
  unfold TTN.determineParentage at h
  cases h1 : dget t.nodes id1 with
  | none => simp [h1, bind, Option.bind] at h
  | some n1 =>
    cases h2 : dget t.nodes id2 with
    | none => simp [h1, h2, bind, Option.bind] at h
    | some n2 =>
      simp only [h1, h2, bind, Option.bind] at h
      split at h
      · rename_i hp
        simp only [Option.some.injEq, Prod.mk.injEq] at h
        obtain ⟨rfl, rfl⟩ := h
        exact ⟨n1, n2, h1, h2, hp, Or.inl ⟨rfl, rfl⟩⟩
      · split at h
        · rename_i hp
          simp only [Option.some.injEq, Prod.mk.injEq] at h
          obtain ⟨rfl, rfl⟩ := h
          exact ⟨n2, n1, h2, h1, hp, Or.inr ⟨rfl, rfl⟩⟩
        · simp at h

theorem five_split {α : Type} (T : List α) (a b c d : Nat) (h : a + b + c + d ≤ T.length) :
    ∃ T1 T2 T3 T4 T5, T = T1 ++ T2 ++ T3 ++ T4 ++ T5 ∧ T1.length = a ∧ T2.length = b ∧
      T3.length = c ∧ T4.length = d := by
  refine ⟨T.take a, (T.drop a).take b, (T.drop (a + b)).take c, (T.drop (a + b + c)).take d,
    T.drop (a + b + c + d), ?_, ?_, ?_, ?_, ?_⟩
  · have e1 : T = T.take a ++ T.drop a := (List.take_append_drop a T).symm
    have e2 : T.drop a = (T.drop a).take b ++ T.drop (a + b) := by
      have := (List.take_append_drop b (T.drop a)).symm
      rw [List.drop_drop] at this; exact this
    have e3 : T.drop (a + b) = (T.drop (a + b)).take c ++ T.drop (a + b + c) := by
      have := (List.take_append_drop c (T.drop (a + b))).symm
      rw [List.drop_drop] at this; exact this
    have e4 : T.drop (a + b + c) = (T.drop (a + b + c)).take d ++ T.drop (a + b + c + d) := by
      have := (List.take_append_drop d (T.drop (a + b + c))).symm
      rw [List.drop_drop] at this; exact this
    conv => lhs; rw [e1, e2, e3, e4]
    simp [List.append_assoc]
  · simp; omega
  · simp; omega
  · simp; omega
  · simp; omega

theorem transposeT_length {T R : Tensor} {perm : List Nat} (h : transposeT T perm = some R) :
    R.length = perm.length ∧ perm.length = T.length := by
  unfold transposeT at h
  split at h
  · simp at h
  · rename_i hl
    split at h
    · simp at h
    · exact ⟨mapM_option_length _ _ _ h, by simpa using hl⟩

theorem tensordot1_length {A B R : Tensor} {i j : Nat} (h : tensordot1 A B i j = some R) :
    i < A.length ∧ j < B.length ∧ R.length = (A.length - 1) + (B.length - 1) := by
  unfold tensordot1 at h
  split at h
  · rename_i x y hx hy
    split at h
    · simp only [Option.some.injEq] at h
      subst h
      obtain ⟨h1, _⟩ := List.getElem?_eq_some_iff.mp hx
      obtain ⟨h2, _⟩ := List.getElem?_eq_some_iff.mp hy
      refine ⟨h1, h2, ?_⟩
      simp [List.length_eraseIdx, h1, h2]
    · simp at h
  · simp at h

/-! ### the contracted node inside a well-formed network -/

theorem reset_nparents (n : NodeS) : n.resetPermutation.nparents = n.nparents := nparents_congr rfl
theorem reset_nvirt (n : NodeS) : n.resetPermutation.nvirt = n.nvirt := nvirt_congr rfl rfl
theorem reset_nlegs (n : NodeS) : n.resetPermutation.nlegs = n.nlegs := by
  simp [nlegs, resetPermutation]

theorem contracted_node_facts {t t1 : TTN} (h : t.WF) {pid cid id1 : Id} {P C nn : NodeS}
    {LP LC newT : Tensor} {idx : Nat}
    (hP : t.N pid = some P) (hC : t.N cid = some C) (hCp : C.parent = some pid)
    (hP1 : t1.N pid = some P.resetPermutation) (hC1 : t1.N cid = some C.resetPermutation)
    (hLP : LP.length = P.perm.length) (hLC : LC.length = C.perm.length)
    (htd : tensordot1 LP LC idx 0 = some newT)
    (hcc : t1.createContractedNode newT pid cid id1 = some nn) :
    nn.parent = P.parent ∧ WFN nn ∧ nn.shp = shapeOf newT ∧ nn.children.Nodup ∧
      (∀ x, x ∈ nn.children ↔ ((x ∈ P.children ∧ x ≠ cid) ∨ x ∈ C.children)) ∧
      nn.children = (if id1 = pid then P.children.erase cid ++ C.children
                     else C.children ++ P.children.erase cid) := by
  have hstr := h.str
  have hSP := TTN.S_eq hP
  have hSC : t.S cid = some (some pid, C.children) := by rw [TTN.S_eq hC, hCp]
  -- cid is a child of P
  have hcidP : cid ∈ P.children := by
    obtain ⟨pp, pch, e1, e2⟩ := hstr.up cid pid C.children hSC
    rw [hSP] at e1; simp at e1; rw [e1.2]; exact e2
  have hPnd : P.children.Nodup := hstr.nodup pid _ _ hSP
  have hCnd : C.children.Nodup := hstr.nodup cid _ _ hSC
  obtain ⟨K1, K2, hK⟩ := List.append_of_mem hcidP
  have hK1 : cid ∉ K1 := by
    intro hm
    rw [hK] at hPnd
    have := List.nodup_append.mp hPnd
    exact this.2.2 cid hm cid (by simp) rfl
  have hK2 : cid ∉ K2 := by
    intro hm
    rw [hK] at hPnd
    have := (List.nodup_append.mp hPnd).2.1
    rw [List.nodup_cons] at this
    exact this.1 hm
  have hKnd : (K1 ++ K2 ++ C.children).Nodup := by
    rw [List.nodup_append]
    refine ⟨?_, hCnd, ?_⟩
    · rw [hK] at hPnd
      have h1 := List.nodup_append.mp hPnd
      have h2 := List.nodup_cons.mp h1.2.1
      rw [List.nodup_append]
      exact ⟨h1.1, h2.2, fun a ha b hb => h1.2.2 a ha b (List.mem_cons_of_mem _ hb)⟩
    · intro a ha b hb e
      subst e
      -- a is a child of P and of C: its parent is both pid and cid
      have haP : a ∈ P.children := by
        rw [hK]; rcases List.mem_append.mp ha with h' | h'
        · simp [h']
        · simp [h']
      obtain ⟨c1, e1⟩ := hstr.down pid _ _ a hSP haP
      obtain ⟨c2, e2⟩ := hstr.down cid _ _ a hSC hb
      rw [e1] at e2; simp at e2
      exact hstr.parent_ne hSC e2.1
  have hwP := h.node pid P hP
  have hwC := h.node cid C hC
  obtain ⟨hi, _, hlen⟩ := tensordot1_length htd
  have hnvP : P.nvirt = P.nparents + (K1.length + 1 + K2.length) := by
    simp [nvirt_def, hK]; omega
  have hnvC : C.nvirt = 1 + C.children.length := by
    simp [nvirt_def, nparents_some hCp]
  have hvP := hwP.virt
  have hvC := hwC.virt
  obtain ⟨Tp, Tc, To, Tcc, Tco, hT, l1, l2, l3, l4⟩ :=
    five_split newT P.nparents (K1.length + K2.length) (P.nlegs - P.nvirt) C.children.length (by
      rw [hlen, hLP, hLC]
      simp only [nlegs]
      omega)
  have haux := create_contracted_node_aux t1 pid cid id1 P.resetPermutation C.resetPermutation newT hP1 hC1
    K1 K2 hK hK1 hKnd Tp Tc To Tcc Tco hT (by rw [l1, reset_nparents]) l2
    (by rw [l3, reset_nvirt, reset_nlegs]; simp only [nlegs] at hvP ⊢; omega) l4
  obtain ⟨nn', e0, e1, e2, e3, e4, e5⟩ := haux
  rw [hcc] at e0
  simp only [Option.some.injEq] at e0
  subst e0
  have hmem : ∀ x, x ∈ K1 ++ K2 ↔ (x ∈ P.children ∧ x ≠ cid) := by
    intro x
    rw [hK]
    simp only [List.mem_append, List.mem_cons]
    constructor
    · rintro (h' | h')
      · exact ⟨Or.inl h', fun e => hK1 (e ▸ h')⟩
      · exact ⟨Or.inr (Or.inr h'), fun e => hK2 (e ▸ h')⟩
    · rintro ⟨h' | h' | h', hne⟩
      · exact Or.inl h'
      · exact absurd h' hne
      · exact Or.inr h'
  have herase : P.children.erase cid = K1 ++ K2 := by
    rw [hK, List.erase_append_right _ hK1, List.erase_cons_head]
  refine ⟨e1, e3, e2, ?_, ?_, ?_⟩
  rotate_left 2
  · by_cases hid : id1 = pid
    · rw [if_pos hid, herase]; exact (e4 hid).1
    · rw [if_neg hid, herase]; exact (e5 hid).1
  · by_cases hid : id1 = pid
    · rw [(e4 hid).1]; exact hKnd
    · rw [(e5 hid).1]
      exact (List.perm_append_comm.nodup_iff).mp hKnd
  · intro x
    by_cases hid : id1 = pid
    · rw [(e4 hid).1, List.mem_append, hmem]
      rfl
    · rw [(e5 hid).1, List.mem_append, hmem]
      exact Or.comm

/-- The legs of the contracted node: its virtual legs are those of the parent (without the one to the
    child) and of the child (without the one to the parent), each with the axis it had; its open axes are
    the open axes of `node_id1` followed by those of `node_id2`. -/
theorem contracted_node_legs {t t1 : TTN} (h : t.WF) {pid cid id1 : Id} {P C : NodeS}
    {LP LC newT : Tensor} {idx : Nat}
    (hP : t.N pid = some P) (hC : t.N cid = some C) (hCp : C.parent = some pid)
    (hP1 : t1.N pid = some P.resetPermutation) (hC1 : t1.N cid = some C.resetPermutation)
    (hLP : LP.length = P.perm.length) (hLC : LC.length = C.perm.length)
    (hidx : P.neighbourIndex cid = some idx)
    (htd : tensordot1 LP LC idx 0 = some newT) :
    ∃ nn Lnew, t1.createContractedNode newT pid cid id1 = some nn ∧ transposeT newT nn.perm = some Lnew ∧
      (∀ x ax, (x, ax) ∈ nn.neighbours.zip Lnew ↔
        (((x, ax) ∈ P.neighbours.zip LP ∧ x ≠ cid) ∨ ((x, ax) ∈ C.neighbours.zip LC ∧ x ≠ pid))) ∧
      Lnew.drop nn.nvirt = (if id1 = pid then LP.drop P.nvirt ++ LC.drop C.nvirt
                            else LC.drop C.nvirt ++ LP.drop P.nvirt) := by
  have hstr := h.str
  have hSP := TTN.S_eq hP
  have hSC : t.S cid = some (some pid, C.children) := by rw [TTN.S_eq hC, hCp]
  have hcidP : cid ∈ P.children := by
    obtain ⟨pp, pch, e1, e2⟩ := hstr.up cid pid C.children hSC
    rw [hSP] at e1; simp at e1; rw [e1.2]; exact e2
  have hPnd : P.children.Nodup := hstr.nodup pid _ _ hSP
  have hCnd : C.children.Nodup := hstr.nodup cid _ _ hSC
  have hgc : ¬ P.parent = some cid := by
    intro e
    exact hstr.no_two_cycle (a := pid) (b := cid) (by rw [hSP, e]) hSC
  have hpidC : pid ∉ C.children := by
    intro hm
    obtain ⟨cch, e1⟩ := hstr.down cid _ _ pid hSC hm
    rw [hSP] at e1; simp at e1
    exact hgc e1.1
  obtain ⟨K1, K2, hK⟩ := List.append_of_mem hcidP
  have hK1 : cid ∉ K1 := by
    intro hm
    rw [hK] at hPnd
    have := List.nodup_append.mp hPnd
    exact this.2.2 cid hm cid (by simp) rfl
  have hK2 : cid ∉ K2 := by
    intro hm
    rw [hK] at hPnd
    have := (List.nodup_append.mp hPnd).2.1
    rw [List.nodup_cons] at this
    exact this.1 hm
  have hKnd : (K1 ++ K2 ++ C.children).Nodup := by
    rw [List.nodup_append]
    refine ⟨?_, hCnd, ?_⟩
    · rw [hK] at hPnd
      have h1 := List.nodup_append.mp hPnd
      have h2 := List.nodup_cons.mp h1.2.1
      rw [List.nodup_append]
      exact ⟨h1.1, h2.2, fun a ha b hb => h1.2.2 a ha b (List.mem_cons_of_mem _ hb)⟩
    · intro a ha b hb e
      subst e
      have haP : a ∈ P.children := by
        rw [hK]; rcases List.mem_append.mp ha with h' | h'
        · simp [h']
        · simp [h']
      obtain ⟨c1, e1⟩ := hstr.down pid _ _ a hSP haP
      obtain ⟨c2, e2⟩ := hstr.down cid _ _ a hSC hb
      rw [e1] at e2; simp at e2
      exact hstr.parent_ne hSC e2.1
  have hwP := h.node pid P hP
  have hwC := h.node cid C hC
  have hnvP : P.nvirt = P.nparents + (K1.length + 1 + K2.length) := by
    simp [nvirt_def, hK]; omega
  have hnvC : C.nvirt = 1 + C.children.length := by
    simp [nvirt_def, nparents_some hCp]
  have hvP := hwP.virt
  have hvC := hwC.virt
  -- the index of the contracted leg
  have hidx' : idx = P.nparents + K1.length := by
    unfold neighbourIndex at hidx
    simp only [hgc, if_false, hcidP, if_true, Option.some.injEq] at hidx
    rw [← hidx, hK, idxOf_append_not_mem K1 K2 cid hK1]
    omega
  -- the blocks of the two logical tensors
  obtain ⟨Tp, Tc1, Tb, Tc2, To, hLPs, l1, l2, l3, l4⟩ :=
    five_split LP P.nparents K1.length 1 K2.length (by rw [hLP]; omega)
  obtain ⟨Tb', Tcc, Tco, T4, T5, hLCs, m1, m2, m3, m4⟩ :=
    five_split LC 1 C.children.length 0 0 (by rw [hLC]; omega)
  have hT4 : T4 = [] := List.eq_nil_of_length_eq_zero m4
  have hTco0 : Tco = [] := List.eq_nil_of_length_eq_zero m3
  obtain ⟨b, hb⟩ : ∃ b, Tb = [b] := by
    match Tb, l3 with
    | [b], _ => exact ⟨b, rfl⟩
  obtain ⟨bc, hbc⟩ : ∃ bc, Tb' = [bc] := by
    match Tb', m1 with
    | [bc], _ => exact ⟨bc, rfl⟩
  subst hb hbc hT4 hTco0
  have hLC' : LC = bc :: (Tcc ++ T5) := by rw [hLCs]; simp
  have hnewT : newT = Tp ++ (Tc1 ++ Tc2) ++ To ++ Tcc ++ T5 := by
    unfold tensordot1 at htd
    split at htd
    · split at htd
      · simp only [Option.some.injEq] at htd
        rw [← htd, hLPs, hLC', hidx']
        have e1 : Tp ++ Tc1 ++ [b] ++ Tc2 ++ To = (Tp ++ Tc1) ++ (b :: (Tc2 ++ To)) := by simp
        rw [e1, List.eraseIdx_append_of_length_le (by simp [l1, l2])]
        have e2 : P.nparents + K1.length - (Tp ++ Tc1).length = 0 := by simp [l1, l2]
        rw [e2]
        simp
      · simp at htd
    · simp at htd
  have haux := create_contracted_node_aux t1 pid cid id1 P.resetPermutation C.resetPermutation newT hP1 hC1
    K1 K2 hK hK1 hKnd Tp (Tc1 ++ Tc2) To Tcc T5 hnewT (by rw [l1, reset_nparents]) (by simp [l2, l4])
    (by
      rw [reset_nvirt, reset_nlegs]
      have : LP.length = Tp.length + Tc1.length + 1 + Tc2.length + To.length := by rw [hLPs]; simp; omega
      simp only [nlegs]
      omega) m2
  obtain ⟨nn, e0, e1, e2, e3, e4, e5⟩ := haux
  have hpar : nn.parent = P.parent := e1
  -- the neighbour lists
  have hPnb : P.neighbours.zip LP = P.parent.toList.zip Tp ++ (K1.zip Tc1 ++ (cid, b) :: K2.zip Tc2) := by
    unfold NodeS.neighbours
    rw [hK, hLPs]
    have e : Tp ++ Tc1 ++ [b] ++ Tc2 ++ To = Tp ++ (Tc1 ++ (b :: Tc2 ++ To)) := by simp
    rw [e, List.zip_append (by
      rw [l1]; unfold nparents; cases P.parent <;> simp)]
    congr 1
    rw [List.zip_append (by rw [l2])]
    congr 1
    have e' : b :: Tc2 ++ To = b :: (Tc2 ++ To) := rfl
    rw [e', List.zip_cons_cons]
    congr 1
    have : K2.zip (Tc2 ++ To) = K2.zip Tc2 ++ ([] : List Id).zip To := by
      rw [← List.zip_append (by rw [l4])]; simp
    rw [this]; simp
  have hCnb : C.neighbours.zip LC = (pid, bc) :: C.children.zip Tcc := by
    unfold NodeS.neighbours
    rw [hCp, hLC']
    simp only [Option.toList_some, List.singleton_append, List.zip_cons_cons]
    congr 1
    have : C.children.zip (Tcc ++ T5) = C.children.zip Tcc ++ ([] : List Id).zip T5 := by
      rw [← List.zip_append (by rw [m2])]; simp
    rw [this]; simp
  have hgpl : P.parent.toList.length = Tp.length := by
    rw [l1]; unfold nparents; cases P.parent <;> simp
  have memP : ∀ x ax, (x, ax) ∈ P.parent.toList.zip Tp → x ≠ cid ∧ x ≠ pid := by
    intro x ax hm
    have hx := (List.of_mem_zip hm).1
    cases hp : P.parent with
    | none => rw [hp] at hx; simp at hx
    | some g =>
      rw [hp] at hx
      simp at hx
      subst hx
      refine ⟨fun e => hgc (by rw [hp, e]), fun e => ?_⟩
      exact hstr.parent_ne (k := pid) (p := x) (by rw [hSP, hp]) e
  have memK1 : ∀ x ax, (x, ax) ∈ K1.zip Tc1 → x ≠ cid := fun x ax hm e =>
    hK1 (e ▸ (List.of_mem_zip hm).1)
  have memK2 : ∀ x ax, (x, ax) ∈ K2.zip Tc2 → x ≠ cid := fun x ax hm e =>
    hK2 (e ▸ (List.of_mem_zip hm).1)
  have memC : ∀ x ax, (x, ax) ∈ C.children.zip Tcc → x ≠ pid := fun x ax hm e =>
    hpidC (e ▸ (List.of_mem_zip hm).1)
  have hdropP : LP.drop P.nvirt = To := by
    rw [hLPs]
    exact List.drop_left' (by simp [l1, l2, l4, hnvP]; omega)
  have hdropC : LC.drop C.nvirt = T5 := by
    rw [hLC', hnvC]
    have : bc :: (Tcc ++ T5) = ([bc] ++ Tcc) ++ T5 := by simp
    rw [this]
    exact List.drop_left' (by simp [m2]; omega)
  have hnnv : nn.nvirt = P.nparents + nn.children.length := by
    rw [nvirt_def, nparents_congr hpar]
  by_cases hid : id1 = pid
  · obtain ⟨c1', c2⟩ := e4 hid
    have c1 : nn.children = K1 ++ K2 ++ C.children := c1'
    refine ⟨nn, _, e0, c2, ?_, ?_⟩
    · intro x ax
      have hnb : nn.neighbours.zip (Tp ++ (Tc1 ++ Tc2 ++ Tcc) ++ (To ++ T5)) =
          P.parent.toList.zip Tp ++ (K1.zip Tc1 ++ K2.zip Tc2 ++ C.children.zip Tcc) := by
        unfold NodeS.neighbours
        rw [hpar, c1]
        have e : Tp ++ (Tc1 ++ Tc2 ++ Tcc) ++ (To ++ T5) = Tp ++ ((Tc1 ++ Tc2 ++ Tcc) ++ (To ++ T5)) := by simp
        rw [e, List.zip_append hgpl]
        congr 1
        have e' : (K1 ++ K2 ++ C.children).zip ((Tc1 ++ Tc2 ++ Tcc) ++ (To ++ T5)) =
            (K1 ++ K2 ++ C.children).zip (Tc1 ++ Tc2 ++ Tcc) ++ ([] : List Id).zip (To ++ T5) := by
          rw [← List.zip_append (by simp [l2, l4, m2])]; simp
        rw [e']
        simp only [List.zip_nil_left, List.append_nil]
        rw [List.zip_append (by simp [l2, l4]), List.zip_append (by rw [l2])]
      rw [hnb, hPnb, hCnb]
      simp only [List.mem_append, List.mem_cons, Prod.mk.injEq]
      constructor
      · rintro (h' | (h' | h') | h')
        · exact Or.inl ⟨Or.inl h', (memP x ax h').1⟩
        · exact Or.inl ⟨Or.inr (Or.inl h'), memK1 x ax h'⟩
        · exact Or.inl ⟨Or.inr (Or.inr (Or.inr h')), memK2 x ax h'⟩
        · exact Or.inr ⟨Or.inr h', memC x ax h'⟩
      · rintro (⟨h' | h' | h' | h', hne⟩ | ⟨h' | h', hne⟩)
        · exact Or.inl h'
        · exact Or.inr (Or.inl (Or.inl h'))
        · exact absurd h'.1 hne
        · exact Or.inr (Or.inl (Or.inr h'))
        · exact absurd h'.1 hne
        · exact Or.inr (Or.inr h')
    · rw [if_pos hid, hdropP, hdropC]
      exact List.drop_left' (by rw [hnnv, c1]; simp [l1, l2, l4, m2])
  · obtain ⟨c1', c2⟩ := e5 hid
    have c1 : nn.children = C.children ++ (K1 ++ K2) := c1'
    refine ⟨nn, _, e0, c2, ?_, ?_⟩
    · intro x ax
      have hnb : nn.neighbours.zip (Tp ++ (Tcc ++ (Tc1 ++ Tc2)) ++ (T5 ++ To)) =
          P.parent.toList.zip Tp ++ (C.children.zip Tcc ++ (K1.zip Tc1 ++ K2.zip Tc2)) := by
        unfold NodeS.neighbours
        rw [hpar, c1]
        have e : Tp ++ (Tcc ++ (Tc1 ++ Tc2)) ++ (T5 ++ To) = Tp ++ ((Tcc ++ (Tc1 ++ Tc2)) ++ (T5 ++ To)) := by simp
        rw [e, List.zip_append hgpl]
        congr 1
        have e' : (C.children ++ (K1 ++ K2)).zip ((Tcc ++ (Tc1 ++ Tc2)) ++ (T5 ++ To)) =
            (C.children ++ (K1 ++ K2)).zip (Tcc ++ (Tc1 ++ Tc2)) ++ ([] : List Id).zip (T5 ++ To) := by
          rw [← List.zip_append (by simp [l2, l4, m2])]; simp
        rw [e']
        simp only [List.zip_nil_left, List.append_nil]
        rw [List.zip_append (by rw [m2]), List.zip_append (by rw [l2])]
      rw [hnb, hPnb, hCnb]
      simp only [List.mem_append, List.mem_cons, Prod.mk.injEq]
      constructor
      · rintro (h' | h' | h' | h')
        · exact Or.inl ⟨Or.inl h', (memP x ax h').1⟩
        · exact Or.inr ⟨Or.inr h', memC x ax h'⟩
        · exact Or.inl ⟨Or.inr (Or.inl h'), memK1 x ax h'⟩
        · exact Or.inl ⟨Or.inr (Or.inr (Or.inr h')), memK2 x ax h'⟩
      · rintro (⟨h' | h' | h' | h', hne⟩ | ⟨h' | h', hne⟩)
        · exact Or.inl h'
        · exact Or.inr (Or.inr (Or.inl h'))
        · exact absurd h'.1 hne
        · exact Or.inr (Or.inr (Or.inr h'))
        · exact absurd h'.1 hne
        · exact Or.inr (Or.inl h')
    · rw [if_neg hid, hdropP, hdropC]
      exact List.drop_left' (by rw [hnnv, c1]; simp [l1, l2, l4, m2])

/-! ### what happens to the other nodes -/

/-- `n'` is `n` with its references renamed (`contractRen`) and the same array bookkeeping. -/
def CRel (pid cid new : Id) (n n' : NodeS) : Prop :=
  n'.perm = n.perm ∧ n'.shp = n.shp ∧ structOf n' = contractRen pid cid new (structOf n)

theorem rnin_self (t : TTN) (x : Id) (d : Bool) : t.replaceNodeInNeighbours x x d = some t := by
  simp [TTN.replaceNodeInNeighbours]

theorem map_ite_of_not_mem (l : List Id) (a b : Id) (h : a ∉ l) :
    l.map (fun c => if c = a then b else c) = l := by
  induction l with
  | nil => rfl
  | cons x l ih =>
    have hx : ¬ x = a := fun e => h (by simp [e])
    have hl : a ∉ l := fun hm => h (List.mem_cons_of_mem _ hm)
    simp [hx, ih hl]

/-- Facts about a node `k ∉ {pid, cid}` of a well-formed network, relative to the edge `pid – cid`. -/
theorem other_node_facts {t : TTN} (h : t.WF) {pid cid k : Id} {P C n : NodeS}
    (hP : t.N pid = some P) (hC : t.N cid = some C) (hCp : C.parent = some pid)
    (hn : t.N k = some n) (hkp : k ≠ pid) (hkc : k ≠ cid) :
    (n.parent = some pid ↔ k ∈ P.children) ∧ (n.parent = some cid ↔ k ∈ C.children) ∧
    (pid ∈ n.children ↔ P.parent = some k) ∧ cid ∉ n.children ∧
    (P.parent = some k → k ∉ P.children ∧ k ∉ C.children) ∧ (k ∈ P.children → k ∉ C.children) := by
  have hs := h.str
  have hSP := TTN.S_eq hP
  have hSC : t.S cid = some (some pid, C.children) := by rw [TTN.S_eq hC, hCp]
  have hSk := TTN.S_eq hn
  have f1 : n.parent = some pid ↔ k ∈ P.children := by
    constructor
    · intro e
      obtain ⟨pp, pch, e1, e2⟩ := hs.up k pid n.children (by rw [hSk, e])
      rw [hSP] at e1; simp at e1; rw [e1.2]; exact e2
    · intro hm
      obtain ⟨cch, e1⟩ := hs.down pid _ _ k hSP hm
      rw [hSk] at e1; simp at e1; exact e1.1
  have f2 : n.parent = some cid ↔ k ∈ C.children := by
    constructor
    · intro e
      obtain ⟨pp, pch, e1, e2⟩ := hs.up k cid n.children (by rw [hSk, e])
      rw [hSC] at e1; simp at e1; rw [e1.2]; exact e2
    · intro hm
      obtain ⟨cch, e1⟩ := hs.down cid _ _ k hSC hm
      rw [hSk] at e1; simp at e1; exact e1.1
  have f3 : pid ∈ n.children ↔ P.parent = some k := by
    constructor
    · intro hm
      obtain ⟨cch, e1⟩ := hs.down k _ _ pid hSk hm
      rw [hSP] at e1; simp at e1; exact e1.1
    · intro e
      obtain ⟨pp, pch, e1, e2⟩ := hs.up pid k P.children (by rw [hSP, e])
      rw [hSk] at e1; simp at e1; rw [e1.2]; exact e2
  have f4 : cid ∉ n.children := by
    intro hm
    obtain ⟨cch, e1⟩ := hs.down k _ _ cid hSk hm
    rw [hSC] at e1; simp at e1; exact hkp e1.1.symm
  refine ⟨f1, f2, f3, f4, ?_, ?_⟩
  · intro e
    obtain ⟨dp, hd⟩ := hs.depth
    have d1 := hd pid k P.children (by rw [hSP, e])
    have d2 := hd cid pid C.children hSC
    constructor
    · intro hm
      have := f1.mpr hm
      have d3 := hd k pid n.children (by rw [hSk, this])
      omega
    · intro hm
      have := f2.mpr hm
      have d3 := hd k cid n.children (by rw [hSk, this])
      omega
  · intro hm hm2
    have e1 := f1.mpr hm
    have e2 := f2.mpr hm2
    rw [e1] at e2; simp at e2
    exact hs.parent_ne hSC e2

/-- The three ways a bystander node is edited all realise `contractRen`. -/
theorem crel_setParent {t : TTN} (h : t.WF) {pid cid new k : Id} {P C n : NodeS}
    (hP : t.N pid = some P) (hC : t.N cid = some C) (hCp : C.parent = some pid)
    (hn : t.N k = some n) (hkp : k ≠ pid) (hkc : k ≠ cid)
    (hm : k ∈ P.children ∨ k ∈ C.children) : CRel pid cid new n (setParent new n) := by
  obtain ⟨f1, f2, f3, f4, f5, f6⟩ := other_node_facts h hP hC hCp hn hkp hkc
  refine ⟨rfl, rfl, ?_⟩
  have hnp : ¬ P.parent = some k := by
    intro e
    rcases hm with hm | hm
    · exact (f5 e).1 hm
    · exact (f5 e).2 hm
  have hpm : pid ∉ n.children := fun hm' => hnp (f3.mp hm')
  have hpar : n.parent = some pid ∨ n.parent = some cid := by
    rcases hm with hm | hm
    · exact Or.inl (f1.mpr hm)
    · exact Or.inr (f2.mpr hm)
  simp only [structOf, contractRen, map_ite_of_not_mem _ _ _ hpm]
  rcases hpar with e | e <;> simp [e, setParent]

theorem crel_id {t : TTN} (h : t.WF) {pid cid new k : Id} {P C n : NodeS}
    (hP : t.N pid = some P) (hC : t.N cid = some C) (hCp : C.parent = some pid)
    (hn : t.N k = some n) (hkp : k ≠ pid) (hkc : k ≠ cid)
    (h1 : ¬ P.parent = some k ∨ new = pid) (h2 : k ∉ P.children ∨ new = pid) (h3 : k ∉ C.children ∨ new = cid) :
    CRel pid cid new n n := by
  obtain ⟨f1, f2, f3, f4, f5, f6⟩ := other_node_facts h hP hC hCp hn hkp hkc
  refine ⟨rfl, rfl, ?_⟩
  have hmap : n.children.map (fun c => if c = pid then new else c) = n.children := by
    rcases h1 with h1 | h1
    · exact map_ite_of_not_mem _ _ _ (fun hm' => h1 (f3.mp hm'))
    · subst h1
      have : (fun c => if c = new then new else c) = (id : Id → Id) := by
        funext c; by_cases hc : c = new <;> simp [hc]
      rw [this]; simp
  simp only [structOf, contractRen, hmap]
  cases hp : n.parent with
  | none => rfl
  | some p =>
    simp only
    by_cases hpp : p = pid
    · subst hpp
      rcases h2 with h2 | h2
      · exact absurd (f1.mp hp) h2
      · simp [h2]
    · by_cases hpc : p = cid
      · subst hpc
        rcases h3 with h3 | h3
        · exact absurd (f2.mp hp) h3
        · simp [h3]
      · simp [hpp, hpc]

theorem replaceChild_some (n : NodeS) (old new : Id) (hm : old ∈ n.children) :
    ∃ n', TTN.replaceChild n old new = some n' := by
  unfold TTN.replaceChild
  by_cases e : old = new
  · subst e; simp [hm]
  · simp [hm, e]

theorem crel_replaceChild {t : TTN} (h : t.WF) {pid cid new k : Id} {P C n n' : NodeS}
    (hP : t.N pid = some P) (hC : t.N cid = some C) (hCp : C.parent = some pid)
    (hn : t.N k = some n) (hkp : k ≠ pid) (hkc : k ≠ cid)
    (hg : P.parent = some k) (hr : TTN.replaceChild n pid new = some n') : CRel pid cid new n n' := by
  obtain ⟨f1, f2, f3, f4, f5, f6⟩ := other_node_facts h hP hC hCp hn hkp hkc
  have hnd : n.children.Nodup := h.str.nodup k _ _ (TTN.S_eq hn)
  obtain ⟨_, e1, e2, e3, e4⟩ := replaceChild_eq hnd hr
  refine ⟨e1, e2, ?_⟩
  have hp1 : ¬ n.parent = some pid := fun e => (f5 hg).1 (f1.mp e)
  have hp2 : ¬ n.parent = some cid := fun e => (f5 hg).2 (f2.mp e)
  simp only [structOf, contractRen, e3, e4]
  cases hp : n.parent with
  | none => rfl
  | some p =>
    have q1 : ¬ p = pid := fun e => hp1 (by rw [hp, e])
    have q2 : ¬ p = cid := fun e => hp2 (by rw [hp, e])
    simp [q1, q2]

/-! ### the network after `contract_nodes`, extensionally -/

theorem contract_final {t t' : TTN} {id1 id2 new : Id} (h : t.WF)
    (hnew : new = id1 ∨ new = id2 ∨ t.N new = none)
    (hc : t.contractNodes id1 id2 new = some t') :
    ∃ pid cid P C nn newT, t.N pid = some P ∧ t.N cid = some C ∧ C.parent = some pid ∧
      ((pid = id1 ∧ cid = id2) ∨ (pid = id2 ∧ cid = id1)) ∧
      (new = pid ∨ new = cid ∨ t.N new = none) ∧
      nn.parent = P.parent ∧ WFN nn ∧ nn.shp = shapeOf newT ∧ nn.children.Nodup ∧
      (∀ x, x ∈ nn.children ↔ ((x ∈ P.children ∧ x ≠ cid) ∨ x ∈ C.children)) ∧
      nn.children = (if id1 = pid then P.children.erase cid ++ C.children
                     else C.children ++ P.children.erase cid) ∧
      t'.N new = some nn ∧ (pid ≠ new → t'.N pid = none) ∧ (cid ≠ new → t'.N cid = none) ∧
      (∀ k, k ≠ new → k ≠ pid → k ≠ cid →
        (t.N k = none → t'.N k = none) ∧
        (∀ n, t.N k = some n → ∃ n', t'.N k = some n' ∧ CRel pid cid new n n')) ∧
      (∀ k, dget t'.tensors k = if k = new then some newT
                                else if k = pid ∨ k = cid then none else dget t.tensors k) ∧
      t'.root = (if P.parent = none then some new else t.root) ∧
      (∃ LP LC Lnew, t.logical pid = some LP ∧ t.logical cid = some LC ∧
        transposeT newT nn.perm = some Lnew ∧
        (∀ x ax, (x, ax) ∈ nn.neighbours.zip Lnew ↔
          (((x, ax) ∈ P.neighbours.zip LP ∧ x ≠ cid) ∨ ((x, ax) ∈ C.neighbours.zip LC ∧ x ≠ pid))) ∧
        Lnew.drop nn.nvirt = (if id1 = pid then LP.drop P.nvirt ++ LC.drop C.nvirt
                              else LC.drop C.nvirt ++ LP.drop P.nvirt)) := by
  unfold TTN.contractNodes at hc
  cases hdp : t.determineParentage id1 id2 with
  | none => simp [hdp, bind, Option.bind] at hc
  | some pc =>
    obtain ⟨pid, cid⟩ := pc
    simp only [hdp, bind, Option.bind] at hc
    obtain ⟨P, C, hP, hC, hCp, hids⟩ := determineParentage_eq hdp
    have hSC : t.S cid = some (some pid, C.children) := by rw [TTN.S_eq hC, hCp]
    have hpc : pid ≠ cid := h.str.parent_ne hSC
    have hnew' : new = pid ∨ new = cid ∨ t.N new = none := by
      rcases hids with ⟨e1, e2⟩ | ⟨e1, e2⟩
      · rw [e1, e2]; exact hnew
      · rw [e1, e2]
        rcases hnew with a | a | a
        · exact Or.inr (Or.inl a)
        · exact Or.inl a
        · exact Or.inr (Or.inr a)
    cases hdc : t.dataContraction pid cid new with
    | none => simp [hdc] at hc
    | some r =>
      obtain ⟨t1, newT⟩ := r
      simp only [hdc] at hc
      obtain ⟨P', C', TsP, TsC, LP, LC, idx, hP', hC', hTP, hTC, hLP, hLC, hidx, htd, hN1, hT1, hroot1, _⟩ :=
        dataContraction_eq hpc hdc
      rw [hP] at hP'; simp at hP'; subst hP'
      rw [hC] at hC'; simp at hC'; subst hC'
      cases hcc : t1.createContractedNode newT pid cid id1 with
      | none => simp [hcc] at hc
      | some nn =>
        simp only [hcc] at hc
        cases hr1 : t1.replaceNodeInNeighbours new pid with
        | none => simp [hr1] at hc
        | some t2 =>
          simp only [hr1] at hc
          cases hr2 : t2.replaceNodeInNeighbours new cid with
          | none => simp [hr2] at hc
          | some t3 =>
            simp only [hr2, Option.some.injEq] at hc
            subst hc
            have hP1 : t1.N pid = some P.resetPermutation := by rw [hN1]; simp [hpc]
            have hC1 : t1.N cid = some C.resetPermutation := by rw [hN1]; simp
            have hfacts := contracted_node_facts h hP hC hCp hP1 hC1
              (transposeT_length hLP).1 (transposeT_length hLC).1 htd hcc
            obtain ⟨n1, n2, n3, n4, n5, n6⟩ := hfacts
            obtain ⟨nn', Lnew, hcc', g1, g2, g3⟩ := contracted_node_legs (id1 := id1) h hP hC hCp hP1 hC1
              (transposeT_length hLP).1 (transposeT_length hLC).1 hidx htd
            rw [hcc] at hcc'
            simp only [Option.some.injEq] at hcc'
            subst hcc'
            refine ⟨pid, cid, P, C, nn, newT, hP, hC, hCp, hids, hnew', n1, n2, n3, n4, n5, n6, ?_⟩
            have hfin : ∀ k, TTN.N (⟨dset t3.nodes new nn, t3.tensors, t3.root, t3.nextLabel⟩ : TTN) k =
                if k = new then some nn else t3.N k := by
              intro k; simp [TTN.N, dget_dset]
            -- no two-cycle: the grandparent is not the child
            have hgc : ¬ P.parent = some cid := by
              intro e
              exact h.str.no_two_cycle (a := pid) (b := cid) (by rw [TTN.S_eq hP, e]) hSC
            have hcidP : cid ∈ P.children := by
              obtain ⟨pp, pch, e1, e2⟩ := h.str.up cid pid C.children hSC
              rw [TTN.S_eq hP] at e1; simp at e1; rw [e1.2]; exact e2
            have hpidC : pid ∉ C.children := by
              intro hm
              obtain ⟨cch, e1⟩ := h.str.down cid _ _ pid hSC hm
              rw [TTN.S_eq hP] at e1; simp at e1
              exact hgc e1.1
            have hroot_pid : P.parent = none → t.root = some pid := fun e =>
              h.str.root_uniq pid P.children (by rw [TTN.S_eq hP, e])
            have key : (∀ k, k ≠ new → (k = pid ∨ k = cid) → t3.N k = none) ∧
                (∀ k, k ≠ new → k ≠ pid → k ≠ cid →
                  (t.N k = none → t3.N k = none) ∧
                  (∀ n, t.N k = some n → ∃ n', t3.N k = some n' ∧ CRel pid cid new n n')) ∧
                t3.tensors = t1.tensors ∧ t3.root = (if P.parent = none then some new else t.root) := by
              by_cases e1 : new = pid
              · -- the new node reuses the parent's identifier
                subst e1
                rw [rnin_self] at hr1
                simp only [Option.some.injEq] at hr1
                subst hr1
                obtain ⟨O, hO, hN3, hroot3, hten3, _⟩ := rnin_eq hpc hr2
                rw [hC1] at hO; simp at hO; subst hO
                have hOp : C.resetPermutation.parent = some new := hCp
                have hOc : C.resetPermutation.children = C.children := rfl
                refine ⟨?_, ?_, hten3, ?_⟩
                · intro k hk hk2
                  rcases hk2 with e | e
                  · exact absurd e hk
                  · rw [hN3]; simp [e]
                · intro k hk _ hkc
                  have hN3k : t3.N k = if k ∈ C.children then (t.N k).map (setParent new) else t.N k := by
                    rw [hN3]
                    have : ¬ (new = k) := fun e => hk e.symm
                    simp [hkc, hOp, hOc, hk, this, hN1]
                  constructor
                  · intro hnone; rw [hN3k, hnone]; simp
                  · intro n hn
                    rw [hN3k, hn]
                    by_cases hm : k ∈ C.children
                    · exact ⟨setParent new n, by simp [hm], crel_setParent h hP hC hCp hn hk hkc (Or.inr hm)⟩
                    · exact ⟨n, by simp [hm], crel_id h hP hC hCp hn hk hkc (Or.inr rfl) (Or.inr rfl) (Or.inl hm)⟩
                · rw [hroot3, hOp, hroot1]
                  by_cases hpn : P.parent = none
                  · simp [hpn, hroot_pid hpn]
                  · simp [hpn]
              · obtain ⟨O, hO, hN2, hroot2, hten2, _⟩ := rnin_eq e1 hr1
                rw [hP1] at hO; simp at hO; subst hO
                have hOp : P.resetPermutation.parent = P.parent := rfl
                have hOc : P.resetPermutation.children = P.children := rfl
                -- t2 on a bystander
                have hN2k : ∀ k, k ≠ new → k ≠ pid → k ≠ cid → t2.N k =
                    if P.parent = some k then (t.N k).bind (fun pn => TTN.replaceChild pn pid new)
                    else if k ∈ P.children then (t.N k).map (setParent new) else t.N k := by
                  intro k hk hkp hkc
                  rw [hN2]
                  simp only [hOp, hOc, hN1, hkp, hkc, hk, if_false, ne_eq, not_false_eq_true, and_true,
                    Bool.true_eq_false, false_and, and_false]
                  by_cases hg : P.parent = some k
                  · have : k ∉ P.children := by
                      cases hn : t.N k with
                      | none =>
                        intro hm
                        obtain ⟨cch, e⟩ := h.str.down pid _ _ k (TTN.S_eq hP) hm
                        simp [TTN.S, hn] at e
                      | some n => exact ((other_node_facts h hP hC hCp hn hkp hkc).2.2.2.2.1 hg).1
                    simp [hg, this]
                  · simp [hg]
                have bystander2 : ∀ k, k ≠ new → k ≠ pid → k ≠ cid →
                    (t.N k = none → t2.N k = none) ∧
                    (∀ n, t.N k = some n → ∃ n', t2.N k = some n' ∧
                      ((P.parent = some k ∨ k ∈ P.children) → CRel pid cid new n n') ∧
                      (¬ P.parent = some k → k ∉ P.children → n' = n)) := by
                  intro k hk hkp hkc
                  rw [hN2k k hk hkp hkc]
                  constructor
                  · intro hnone; simp [hnone]
                  · intro n hn
                    obtain ⟨f1, f2, f3, f4, f5, f6⟩ := other_node_facts h hP hC hCp hn hkp hkc
                    rw [hn]
                    by_cases hg : P.parent = some k
                    · obtain ⟨n', hn'⟩ := replaceChild_some n pid new (f3.mpr hg)
                      refine ⟨n', by simp [hg, hn'], fun _ => crel_replaceChild h hP hC hCp hn hkp hkc hg hn',
                        fun hng => absurd hg hng⟩
                    · by_cases hm : k ∈ P.children
                      · exact ⟨setParent new n, by simp [hg, hm],
                          fun _ => crel_setParent h hP hC hCp hn hkp hkc (Or.inl hm), fun _ hnm => absurd hm hnm⟩
                      · refine ⟨n, by simp [hg, hm], fun hor => ?_, fun _ _ => rfl⟩
                        rcases hor with hor | hor <;> contradiction
                have hroot2' : t2.root = if P.parent = none then some new else t.root := by
                  rw [hroot2, hOp, hroot1]
                by_cases e2 : new = cid
                · -- the new node reuses the child's identifier
                  subst e2
                  rw [rnin_self] at hr2
                  simp only [Option.some.injEq] at hr2
                  subst hr2
                  refine ⟨?_, ?_, hten2, hroot2'⟩
                  · intro k hk hk2
                    rcases hk2 with e | e
                    · rw [hN2]; simp [e]
                    · exact absurd e hk
                  · intro k hk hkp _
                    obtain ⟨b1, b2⟩ := bystander2 k hk hkp hk
                    refine ⟨b1, fun n hn => ?_⟩
                    obtain ⟨n', q1, q2, q3⟩ := b2 n hn
                    refine ⟨n', q1, ?_⟩
                    by_cases hor : P.parent = some k ∨ k ∈ P.children
                    · exact q2 hor
                    · have h1 : ¬ P.parent = some k := fun e => hor (Or.inl e)
                      have h2 : k ∉ P.children := fun e => hor (Or.inr e)
                      rw [q3 h1 h2]
                      exact crel_id h hP hC hCp hn hkp hk (Or.inl h1) (Or.inl h2) (Or.inr rfl)
                · -- a fresh identifier
                  obtain ⟨O2, hO2, hN3, hroot3, hten3, _⟩ := rnin_eq e2 hr2
                  have hcn : cid ≠ new := fun e => e2 e.symm
                  have hpn : pid ≠ new := fun e => e1 e.symm
                  have ht2cid : t2.N cid = some (setParent new C.resetPermutation) := by
                    rw [hN2]
                    have : ¬ cid = pid := fun e => hpc e.symm
                    simp [this, hOp, hOc, hgc, hcidP, hcn, hN1, setParent]
                  rw [ht2cid] at hO2; simp at hO2; subst hO2
                  have hO2p : (setParent new C.resetPermutation).parent = some new := rfl
                  have hO2c : (setParent new C.resetPermutation).children = C.children := rfl
                  have hN3k : ∀ k, k ≠ new → t3.N k = if k = cid then none
                      else if k ∈ C.children then (t2.N k).map (setParent new) else t2.N k := by
                    intro k hk
                    rw [hN3]
                    have : ¬ new = k := fun e => hk e.symm
                    simp [hO2p, hO2c, hk, this]
                  refine ⟨?_, ?_, by rw [hten3, hten2], ?_⟩
                  · intro k hk hk2
                    rw [hN3k k hk]
                    rcases hk2 with e | e
                    · have : t2.N pid = none := by rw [hN2]; simp
                      have hne : ¬ pid = cid := hpc
                      simp [e, hne, this]
                    · simp [e]
                  · intro k hk hkp hkc
                    obtain ⟨b1, b2⟩ := bystander2 k hk hkp hkc
                    rw [hN3k k hk]
                    simp only [hkc, if_false]
                    constructor
                    · intro hnone
                      have := b1 hnone
                      by_cases hm : k ∈ C.children <;> simp [hm, this]
                    · intro n hn
                      obtain ⟨f1, f2, f3, f4, f5, f6⟩ := other_node_facts h hP hC hCp hn hkp hkc
                      obtain ⟨n', q1, q2, q3⟩ := b2 n hn
                      by_cases hm : k ∈ C.children
                      · -- child of the child: untouched by the first call, re-parented by the second
                        have h1 : ¬ P.parent = some k := fun e => (f5 e).2 hm
                        have h2 : k ∉ P.children := fun e => f6 e hm
                        have := q3 h1 h2
                        subst this
                        exact ⟨setParent new n', by simp [hm, q1], crel_setParent h hP hC hCp hn hkp hkc (Or.inr hm)⟩
                      · refine ⟨n', by simp [hm, q1], ?_⟩
                        by_cases hor : P.parent = some k ∨ k ∈ P.children
                        · exact q2 hor
                        · have h1 : ¬ P.parent = some k := fun e => hor (Or.inl e)
                          have h2 : k ∉ P.children := fun e => hor (Or.inr e)
                          rw [q3 h1 h2]
                          exact crel_id h hP hC hCp hn hkp hkc (Or.inl h1) (Or.inl h2) (Or.inl hm)
                  · rw [hroot3, hO2p]
                    simp [hroot2']
            obtain ⟨k1, k2, k3, k4⟩ := key
            refine ⟨by rw [hfin]; simp, ?_, ?_, ?_, ?_, k4, LP, LC, Lnew,
              by rw [logical_eq hP hTP]; exact hLP, by rw [logical_eq hC hTC]; exact hLC, g1, g2, g3⟩
            · intro hne; rw [hfin]; simp [hne, k1 pid hne (Or.inl rfl)]
            · intro hne; rw [hfin]; simp [hne, k1 cid hne (Or.inr rfl)]
            · intro k hk hkp hkc
              rw [hfin]
              simp only [hk, if_false]
              exact k2 k hk hkp hkc
            · intro k
              show dget t3.tensors k = _
              rw [k3, hT1]

theorem wfn_of_crel {pid cid new : Id} {n n' : NodeS} (hr : CRel pid cid new n n') (hw : WFN n) : WFN n' := by
  obtain ⟨e1, e2, e3⟩ := hr
  simp only [structOf, contractRen, Prod.mk.injEq] at e3
  have hnp : n'.nparents = n.nparents := by
    unfold nparents
    rw [e3.1]
    cases hp : n.parent with
    | none => simp
    | some p => simp only; split <;> simp
  have hnc : n'.children.length = n.children.length := by rw [e3.2]; simp
  refine ⟨?_, ?_, ?_⟩
  · rw [e1]; exact hw.perm
  · rw [e1, e2]; exact hw.shp
  · rw [e1]
    have := hw.virt
    simp only [nvirt_def, hnp, hnc] at this ⊢
    exact this

/-- **`contract_nodes` keeps the network well-formed** – for every well-formed network, both argument
    orders, and every admissible identifier (either operand's or an unused one). -/
theorem contract_nodes_wf_aux {t t' : TTN} {id1 id2 new : Id} (h : t.WF)
    (hnew : new = id1 ∨ new = id2 ∨ t.N new = none)
    (hc : t.contractNodes id1 id2 new = some t') : t'.WF := by
  obtain ⟨pid, cid, P, C, nn, newT, hP, hC, hCp, _, hnew', n1, n2, n3, n4, n5, _, a1, a2, a3, a4, a5, a6, _⟩ :=
    contract_final h hnew hc
  have hSP : t.S pid = some (P.parent, P.children) := TTN.S_eq hP
  have hSC : t.S cid = some (some pid, C.children) := by rw [TTN.S_eq hC, hCp]
  have hS : t'.S = contractS t.S pid cid new P.parent nn.children := by
    funext k
    unfold contractS
    by_cases hk : k = new
    · subst hk
      simp [TTN.S, a1, structOf, n1]
    · simp only [hk, if_false]
      by_cases hk2 : k = pid ∨ k = cid
      · simp only [hk2, if_true]
        rcases hk2 with e | e
        · subst e; simp [TTN.S, a2 hk]
        · subst e; simp [TTN.S, a3 hk]
      · have hkp : k ≠ pid := fun e => hk2 (Or.inl e)
        have hkc : k ≠ cid := fun e => hk2 (Or.inr e)
        simp only [hk2, if_false]
        obtain ⟨b1, b2⟩ := a4 k hk hkp hkc
        cases hn : t.N k with
        | none => simp [TTN.S, hn, b1 hn]
        | some n =>
          obtain ⟨n', q1, q2⟩ := b2 n hn
          simp [TTN.S, hn, q1, q2.2.2]
  have hT : t'.hasT = fun k => k == new || (t.hasT k && k != pid && k != cid) := by
    funext k
    simp only [TTN.hasT, dhas_eq_isSome, a5 k]
    by_cases hk : k = new
    · simp [hk]
    · have b0 : (k == new) = false := by simpa using hk
      by_cases hk2 : k = pid ∨ k = cid
      · simp only [hk, if_false, hk2, if_true, b0, Bool.false_or]
        rcases hk2 with e | e
        · have : (k != pid) = false := by simp [e]
          simp [this]
        · have : (k != cid) = false := by simp [e]
          simp [this]
      · have hkp : (k != pid) = true := by simpa using fun e => hk2 (Or.inl e)
        have hkc : (k != cid) = true := by simpa using fun e => hk2 (Or.inr e)
        simp [hk, hk2, hkp, hkc, b0]
  have hnewS : new = pid ∨ new = cid ∨ t.S new = none := by
    rcases hnew' with e | e | e
    · exact Or.inl e
    · exact Or.inr (Or.inl e)
    · exact Or.inr (Or.inr (by simp [TTN.S, e]))
  refine ⟨?_, ?_, ?_⟩
  · rw [hS, hT, a6]
    exact contractS_swf h.str pid cid new P.parent P.children C.children nn.children hSP hSC hnewS n5 n4
  · intro k n' hk
    by_cases hkn : k = new
    · subst hkn; rw [a1] at hk; simp at hk; rw [← hk]; exact n2
    · by_cases hkp : k = pid
      · subst hkp; rw [a2 hkn] at hk; simp at hk
      · by_cases hkc : k = cid
        · subst hkc; rw [a3 hkn] at hk; simp at hk
        · obtain ⟨b1, b2⟩ := a4 k hkn hkp hkc
          cases hn : t.N k with
          | none => rw [b1 hn] at hk; simp at hk
          | some n =>
            obtain ⟨n'', q1, q2⟩ := b2 n hn
            rw [q1] at hk; simp at hk; subst hk
            exact wfn_of_crel q2 (h.node k n hn)
  · intro k n' T' hk hT'
    rw [a5 k] at hT'
    by_cases hkn : k = new
    · subst hkn
      rw [a1] at hk; simp at hk; subst hk
      simp at hT'; subst hT'
      exact n3.symm
    · by_cases hk2 : k = pid ∨ k = cid
      · simp [hkn, hk2] at hT'
      · have hkp : k ≠ pid := fun e => hk2 (Or.inl e)
        have hkc : k ≠ cid := fun e => hk2 (Or.inr e)
        simp only [hkn, hk2, if_false] at hT'
        obtain ⟨b1, b2⟩ := a4 k hkn hkp hkc
        cases hn : t.N k with
        | none => rw [b1 hn] at hk; simp at hk
        | some n =>
          obtain ⟨n'', q1, q2⟩ := b2 n hn
          rw [q1] at hk; simp at hk; subst hk
          rw [q2.2.1]
          exact h.fit k n T' hn hT'

end Ptn.C02
