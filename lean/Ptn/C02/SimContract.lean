import Ptn.C02.Sim
/-! `contract_nodes` of the structural model is simulated by `contractStep` (+ a reordering of the legs of the new
node into the documented order). -/
namespace Ptn.C02
open NodeS Ptn.Ein Ptn.C03

set_option linter.unusedSectionVars false
variable {R : Type} [CommSemiring R]

/-! ### list facts -/

theorem map_erase_nodup {α β : Type} [DecidableEq α] [DecidableEq β] (f : α → β) (l : List α) (x : α)
    (hx : x ∈ l) (hnd : (l.map f).Nodup) : (l.erase x).map f = (l.map f).erase (f x) := by
  induction l with
  | nil => simp at hx
  | cons y l ih =>
    by_cases hyx : y = x
    · subst hyx; simp
    · have hxl : x ∈ l := by
        rcases List.mem_cons.1 hx with e | e
        · exact absurd e.symm hyx
        · exact e
      rw [List.map_cons, List.nodup_cons] at hnd
      have hne : f y ≠ f x := fun e => hnd.1 (e ▸ List.mem_map_of_mem hxl)
      rw [List.erase_cons_tail (by simpa using hyx), List.map_cons, List.map_cons,
        List.erase_cons_tail (by simpa using hne), ih hxl hnd.2]

theorem perm4 {α : Type} (A B C D : List α) : ((A ++ B) ++ (C ++ D)).Perm ((A ++ C) ++ (B ++ D)) := by
  simp only [List.append_assoc]
  exact List.Perm.append_left _ (List.perm_append_comm_assoc _ _ _)

theorem perm4' {α : Type} (A B C D : List α) : ((A ++ B) ++ (D ++ C)).Perm ((A ++ C) ++ (B ++ D)) :=
  (List.Perm.append_left _ List.perm_append_comm).trans (perm4 A B C D)

theorem map_fst_map_rho (l : List (Id × Axis)) (ρ : Id → Id) :
    (l.map (fun q => (ρ q.1, q.2))).map Prod.fst = (l.map Prod.fst).map ρ := by
  simp [List.map_map, Function.comp_def]

/-! ### the facts about the structural step, with one pair of witnesses -/

theorem contract_sim_facts {t t' : TTN} {id1 id2 new : Id} (h : t.WF)
    (hnew : new = id1 ∨ new = id2 ∨ t.N new = none)
    (hc : t.contractNodes id1 id2 new = some t') :
    ∃ pid cid, ((pid = id1 ∧ cid = id2) ∨ (pid = id2 ∧ cid = id1)) ∧ pid ≠ cid ∧
      cid ∈ t.nbs pid ∧ pid ∈ t.nbs cid ∧
      (new = pid ∨ new = cid ∨ t.N new = none) ∧
      t'.N new ≠ none ∧ (pid ≠ new → t'.N pid = none) ∧ (cid ≠ new → t'.N cid = none) ∧
      (∀ k, k ≠ new → k ≠ pid → k ≠ cid → (t'.N k = none ↔ t.N k = none)) ∧
      (∀ x, x ∈ t.nbs pid → x ∈ t.nbs cid → False) ∧
      (∀ x ax, t'.Leg new x ax ↔ ((t.Leg pid x ax ∧ x ≠ cid) ∨ (t.Leg cid x ax ∧ x ≠ pid))) ∧
      t'.openAxes new = t.openAxes id1 ++ t.openAxes id2 ∧
      (∀ k, k ≠ new → k ≠ pid → k ≠ cid →
        t'.legPairs k = (t.legPairs k).map (fun q => (contrRho pid cid new q.1, q.2)) ∧
        t'.openAxes k = t.openAxes k) ∧
      (∃ C, t.N cid = some C ∧ C.parent = some pid) := by
  obtain ⟨pid, cid, P, C, nn, newT, hP, hC, hCp, hids, hnew', n1, n2, n3, n4, n5, n6, a1, a2, a3, a4, a5, a6,
    LP, LC, Lnew, g1, g2, g3, g4, g5⟩ := contract_final h hnew hc
  have hSC : t.S cid = some (some pid, C.children) := by rw [TTN.S_eq hC, hCp]
  have hpc : pid ≠ cid := h.str.parent_ne hSC
  have hlognew : t'.logical new = some Lnew := by
    have hT : dget t'.tensors new = some newT := by rw [a5]; simp
    rw [logical_eq a1 hT]; exact g3
  have hpnb : pid ∈ t.nbs cid := by
    rw [nbs_eq h hC]; exact (mem_neighbours C pid).2 (Or.inl hCp)
  have hcnb : cid ∈ t.nbs pid := nbs_symm h hpnb
  refine ⟨pid, cid, hids, hpc, hcnb, hpnb, hnew', by rw [a1]; simp, a2, a3, ?_, ?_, ?_, ?_, ?_, ⟨C, hC, hCp⟩⟩
  · intro k hk hkp hkc
    obtain ⟨b1, b2⟩ := a4 k hk hkp hkc
    constructor
    · intro hn'
      cases hn : t.N k with
      | none => rfl
      | some n =>
        obtain ⟨n', q1, _⟩ := b2 n hn
        rw [q1] at hn'; simp at hn'
    · exact b1
  · intro x hxp hxc
    have hxpid : x ≠ pid := fun e => nbs_ne h hxp e.symm
    have hxcid : x ≠ cid := fun e => nbs_ne h hxc e.symm
    have hxn : t.N x ≠ none := nbs_node (nbs_symm h hxp)
    cases hn : t.N x with
    | none => exact hxn hn
    | some n =>
      obtain ⟨_, _, _, _, f5, f6⟩ := other_node_facts h hP hC hCp hn hxpid hxcid
      rw [nbs_eq h hP] at hxp
      rw [nbs_eq h hC] at hxc
      have hxCc : x ∈ C.children := by
        rcases (mem_neighbours C x).1 hxc with e | e
        · rw [hCp] at e; simp at e; exact absurd e.symm hxpid
        · exact e
      rcases (mem_neighbours P x).1 hxp with e | e
      · exact (f5 e).2 hxCc
      · exact f6 e hxCc
  · intro x ax
    unfold TTN.Leg
    rw [legPairs_eq a1 hlognew, legPairs_eq hP g1, legPairs_eq hC g2]
    exact g4 x ax
  · rw [openAxes_eq a1 hlognew, g5]
    rcases hids with ⟨e1, e2⟩ | ⟨e1, e2⟩
    · rw [if_pos e1.symm, ← e1, ← e2, openAxes_eq hP g1, openAxes_eq hC g2]
    · have : ¬ id1 = pid := by rw [← e2]; exact fun e => hpc e.symm
      rw [if_neg this, ← e1, ← e2, openAxes_eq hP g1, openAxes_eq hC g2]
  · intro k hk hkp hkc
    obtain ⟨b1, b2⟩ := a4 k hk hkp hkc
    cases hn : t.N k with
    | none =>
      have := b1 hn
      rw [legPairs_none this, legPairs_none hn, openAxes_none this, openAxes_none hn]
      exact ⟨rfl, rfl⟩
    | some n =>
      obtain ⟨n', q1, q2⟩ := b2 n hn
      have hcn : cid ∉ n.children := (other_node_facts h hP hC hCp hn hkp hkc).2.2.2.1
      have hT : dget t'.tensors k = dget t.tensors k := by
        rw [a5]; simp [hk, hkp, hkc]
      obtain ⟨_, r2, r3⟩ := labels_of_rename (contrRho pid cid new) hn q1 q2.1 (crel_neighbours q2 hcn) hT
      exact ⟨r2, r3⟩

/-- which of two adjacent nodes is the parent is determined -/
theorem parentage_unique {t : TTN} (h : t.WF) {id1 id2 pid cid pid' cid' : Id} {C C' : NodeS}
    (hC : t.N cid = some C) (hCp : C.parent = some pid) (hC' : t.N cid' = some C') (hCp' : C'.parent = some pid')
    (h1 : (pid = id1 ∧ cid = id2) ∨ (pid = id2 ∧ cid = id1))
    (h2 : (pid' = id1 ∧ cid' = id2) ∨ (pid' = id2 ∧ cid' = id1)) : pid' = pid ∧ cid' = cid := by
  have hS : t.S cid = some (some pid, C.children) := by rw [TTN.S_eq hC, hCp]
  have hS' : t.S cid' = some (some pid', C'.children) := by rw [TTN.S_eq hC', hCp']
  rcases h1 with ⟨e1, e2⟩ | ⟨e1, e2⟩ <;> rcases h2 with ⟨f1, f2⟩ | ⟨f1, f2⟩
  · exact ⟨f1.trans e1.symm, f2.trans e2.symm⟩
  · rw [e1, e2] at hS; rw [f1, f2] at hS'
    exact (h.str.no_two_cycle hS hS').elim
  · rw [e1, e2] at hS; rw [f1, f2] at hS'
    exact (h.str.no_two_cycle hS hS').elim
  · exact ⟨f1.trans e1.symm, f2.trans e2.symm⟩

/-! ### the simulation -/

/-- the leg map after `contract_nodes`: the new node inherits the labels of the legs of the two contracted nodes, the
other nodes keep theirs (their references to the contracted nodes now read `new`) -/
def contrG (t : TTN) (pid cid new : Id) (g : LegMap) : LegMap := fun k x =>
  if k = new then (if x ∈ t.nbs pid ∧ x ≠ cid then g pid x else g cid x)
  else if x = new then (if pid ∈ t.nbs k then g k pid else g k cid)
  else g k x

/-- the valued network after `contract_nodes`: `contractStep` over the bond `p` between `pid` and `cid`, then the legs
of every node in the axis order of the structural model -/
def simContract (dim : Nat → Nat) (e : Label → Nat) (g : LegMap) (t t1 : TTN) (v : VNet R) (pid cid new : Id)
    (p : Nat × Nat) : VNet R :=
  reLeg (contractStep dim v pid cid new p (g pid cid) (g cid pid)) (simLegs e (contrG t pid cid new g) t1)

theorem contract_sim_core (dim : Nat → Nat) (e : Label → Nat) {g : LegMap} {t t1 : TTN} {v : VNet R}
    {id1 id2 new pid cid : Id} {p : Nat × Nat} {C : NodeS}
    (h : t.WF) (hv : v.WF) (hs : RSim dim e g t v) (hnew : new = id1 ∨ new = id2 ∨ t.N new = none)
    (hc : t.contractNodes id1 id2 new = some t1)
    (hcfg : (pid = id1 ∧ cid = id2) ∨ (pid = id2 ∧ cid = id1)) (hC : t.N cid = some C) (hCp : C.parent = some pid)
    (hp : p ∈ v.bonds) (hpab : p = (g pid cid, g cid pid) ∨ p = (g cid pid, g pid cid)) :
    ContractAdm v pid cid new p (g pid cid) (g cid pid) ∧
    (∀ k ∈ (contractStep dim v pid cid new p (g pid cid) (g cid pid)).ids,
      (simLegs e (contrG t pid cid new g) t1 k).Perm
        ((contractStep dim v pid cid new p (g pid cid) (g cid pid)).legs k)) ∧
    RSim dim e (contrG t pid cid new g) t1 (simContract dim e g t t1 v pid cid new p) := by
  obtain ⟨pid', cid', hcfg', hpc, hcnb, hpnb, hnew', hNnew, hgoneP, hgoneC, hby, hdisj, c1, c2, c4, C', hC', hCp'⟩ :=
    contract_sim_facts h hnew hc
  obtain ⟨e1, e2⟩ := parentage_unique h hC hCp hC' hCp' hcfg hcfg'
  subst e1 e2
  have h1 : t1.WF := contract_nodes_wf_aux h hnew hc
  have hpid : pid' ∈ v.ids := hs.id_of_nbs hcnb
  have hcid : cid' ∈ v.ids := hs.id_of_nbs hpnb
  have hnewv : new = pid' ∨ new = cid' ∨ new ∉ v.ids := by
    rcases hnew' with e | e | e
    · exact Or.inl e
    · exact Or.inr (Or.inl e)
    · exact Or.inr (Or.inr (fun hm => (hs.ids new).1 hm e))
  have adm : ContractAdm v pid' cid' new p (g pid' cid') (g cid' pid') :=
    ⟨hpid, hcid, hpc, ⟨hp, hpab, hs.g_mem hcnb, hs.g_mem hpnb⟩, hnewv⟩
  have fresh : ∀ x, t.N x ≠ none → x ≠ pid' → x ≠ cid' → x ≠ new := by
    intro x hx h1 h2 e
    rcases hnew' with e' | e' | e'
    · exact h1 (e.trans e')
    · exact h2 (e.trans e')
    · rw [e] at hx; exact hx e'
  -- neighbours of the bystanders
  have hnbs_by : ∀ k, k ≠ new → k ≠ pid' → k ≠ cid' → t1.nbs k = (t.nbs k).map (contrRho pid' cid' new) := by
    intro k a b c
    unfold TTN.nbs
    rw [(c4 k a b c).1, map_fst_map_rho]
  -- the leg map on the renamed edges
  have GC : ∀ k x, x ∈ t.nbs k → ¬ (k = pid' ∧ x = cid') → ¬ (k = cid' ∧ x = pid') →
      contrG t pid' cid' new g (contrRho pid' cid' new k) (contrRho pid' cid' new x) = g k x := by
    intro k x hx n1 n2
    have hkx : k ≠ x := nbs_ne h hx
    have hxk : k ∈ t.nbs x := nbs_symm h hx
    by_cases hkp : k = pid'
    · subst hkp
      have hxc : x ≠ cid' := fun e => n1 ⟨rfl, e⟩
      have : contrRho k cid' new x = x := by simp [contrRho, Ne.symm hkx, hxc]
      rw [this]
      simp [contrRho, contrG, hx, hxc]
    · by_cases hkc : k = cid'
      · subst hkc
        have hxp : x ≠ pid' := fun e => n2 ⟨rfl, e⟩
        have : contrRho pid' k new x = x := by simp [contrRho, Ne.symm hkx, hxp]
        rw [this]
        have hnot : x ∉ t.nbs pid' := fun hm => hdisj x hm hx
        simp [contrRho, contrG, hnot]
      · have hkn : k ≠ new := fresh k (nbs_node hx) hkp hkc
        have hk' : contrRho pid' cid' new k = k := by simp [contrRho, hkp, hkc]
        rw [hk']
        by_cases hxp : x = pid'
        · subst hxp
          simp [contrRho, contrG, hkn, hx]
        · by_cases hxc : x = cid'
          · subst hxc
            have hnot : pid' ∉ t.nbs k := fun hm => hdisj k (nbs_symm h hm) hxk
            simp [contrRho, contrG, hkn, hnot]
          · have hxn : x ≠ new := fresh x (nbs_node hxk) hxp hxc
            simp [contrRho, contrG, hkn, hxp, hxc, hxn]
  -- edges of the new tree come from edges of the old one …
  have ECL : ∀ k' x' ax, t1.Leg k' x' ax → ∃ k x, t.Leg k x ax ∧ ¬ (k = pid' ∧ x = cid') ∧ ¬ (k = cid' ∧ x = pid') ∧
      k' = contrRho pid' cid' new k ∧ x' = contrRho pid' cid' new x := by
    intro k' x' ax hl
    by_cases hk : k' = new
    · subst hk
      rcases (c1 x' ax).1 hl with ⟨hl', hne⟩ | ⟨hl', hne⟩
      · have : x' ≠ pid' := fun e => leg_ne h hl' e.symm
        exact ⟨pid', x', hl', fun e => hne e.2, fun e => hpc e.1, by simp [contrRho], by simp [contrRho, this, hne]⟩
      · have : x' ≠ cid' := fun e => leg_ne h hl' e.symm
        exact ⟨cid', x', hl', fun e => hpc e.1.symm, fun e => hne e.2, by simp [contrRho], by simp [contrRho, this, hne]⟩
    · by_cases hkp : k' = pid'
      · exact absurd (hgoneP (fun e => hk (hkp.trans e))) (hkp ▸ leg_isNode hl)
      · by_cases hkc : k' = cid'
        · exact absurd (hgoneC (fun e => hk (hkc.trans e))) (hkc ▸ leg_isNode hl)
        · unfold TTN.Leg at hl
          rw [(c4 k' hk hkp hkc).1, List.mem_map] at hl
          obtain ⟨⟨x, ax'⟩, hm, he⟩ := hl
          simp only [Prod.mk.injEq] at he
          obtain ⟨he1, he2⟩ := he
          subst he2
          exact ⟨k', x, hm, fun e => hkp e.1, fun e => hkc e.1, by simp [contrRho, hkp, hkc], he1.symm⟩
  -- … and conversely
  have ECR : ∀ k x ax, t.Leg k x ax → ¬ (k = pid' ∧ x = cid') → ¬ (k = cid' ∧ x = pid') →
      t1.Leg (contrRho pid' cid' new k) (contrRho pid' cid' new x) ax := by
    intro k x ax hl n1 n2
    have hkx : k ≠ x := leg_ne h hl
    by_cases hkp : k = pid'
    · subst hkp
      have hxc : x ≠ cid' := fun e => n1 ⟨rfl, e⟩
      have e1 : contrRho k cid' new x = x := by simp [contrRho, Ne.symm hkx, hxc]
      have e2 : contrRho k cid' new k = new := by simp [contrRho]
      rw [e1, e2]
      exact (c1 x ax).2 (Or.inl ⟨hl, hxc⟩)
    · by_cases hkc : k = cid'
      · subst hkc
        have hxp : x ≠ pid' := fun e => n2 ⟨rfl, e⟩
        have e1 : contrRho pid' k new x = x := by simp [contrRho, Ne.symm hkx, hxp]
        have e2 : contrRho pid' k new k = new := by simp [contrRho]
        rw [e1, e2]
        exact (c1 x ax).2 (Or.inr ⟨hl, hxp⟩)
      · have hkn : k ≠ new := fresh k (leg_isNode hl) hkp hkc
        have hk' : contrRho pid' cid' new k = k := by simp [contrRho, hkp, hkc]
        rw [hk']
        unfold TTN.Leg
        rw [(c4 k hkn hkp hkc).1, List.mem_map]
        exact ⟨(x, ax), hl, rfl⟩
  -- the contracted bond is not one of the others
  have ne_p : ∀ k x, x ∈ t.nbs k → ¬ (k = pid' ∧ x = cid') → ¬ (k = cid' ∧ x = pid') →
      (g k x, g x k) ≠ p ∧ (g x k, g k x) ≠ p := by
    intro k x hx n1 n2
    have hxk := nbs_symm h hx
    constructor
    · intro e
      rcases hpab with e' | e'
      · rw [e'] at e; simp only [Prod.mk.injEq] at e
        exact n1 (hs.g_eq hv hx hcnb e.1)
      · rw [e'] at e; simp only [Prod.mk.injEq] at e
        exact n2 (hs.g_eq hv hx hpnb e.1)
    · intro e
      rcases hpab with e' | e'
      · rw [e'] at e; simp only [Prod.mk.injEq] at e
        exact n2 (hs.g_eq hv hx hpnb e.2)
      · rw [e'] at e; simp only [Prod.mk.injEq] at e
        exact n1 (hs.g_eq hv hx hcnb e.2)
  have hrestmem : ∀ k, k ∈ (v.ids.erase pid').erase cid' ↔ (k ∈ v.ids ∧ k ≠ pid' ∧ k ≠ cid') := by
    intro k
    rw [(hv.ids_nodup.erase pid').mem_erase_iff, hv.ids_nodup.mem_erase_iff]
    exact ⟨fun ⟨a, b, c⟩ => ⟨c, b, a⟩, fun ⟨a, b, c⟩ => ⟨c, b, a⟩⟩
  have hlegs_by : ∀ k, k ∈ v.ids → k ≠ new → k ≠ pid' → k ≠ cid' →
      simLegs e (contrG t pid' cid' new g) t1 k = simLegs e g t k := by
    intro k hk a b c
    unfold simLegs
    rw [hnbs_by k a b c, (c4 k a b c).2, List.map_map]
    congr 1
    apply List.map_congr_left
    intro x hx
    have := GC k x hx (fun e => b e.1) (fun e => c e.1)
    have hk' : contrRho pid' cid' new k = k := by simp [contrRho, b, c]
    rw [hk'] at this
    exact this
  refine ⟨adm, ?_, ?_⟩
  · -- the reordering is a permutation
    intro k hk
    have hk' : k = new ∨ k ∈ (v.ids.erase pid').erase cid' := by simpa [contractStep] using hk
    rcases hk' with rfl | hk'
    · have hl0 : (contractStep dim v pid' cid' k p (g pid' cid') (g cid' pid')).legs k =
          (v.legs pid').erase (g pid' cid') ++ (v.legs cid').erase (g cid' pid') := by simp [contractStep]
      rw [hl0, hs.legs pid' hpid, hs.legs cid' hcid]
      unfold simLegs
      rw [List.erase_append_left _ (List.mem_map_of_mem hcnb), List.erase_append_left _ (List.mem_map_of_mem hpnb)]
      have hndP : ((t.nbs pid').map (g pid')).Nodup := by
        have := hv.legs_nodup pid' hpid
        rw [hs.legs pid' hpid] at this
        exact (List.nodup_append.1 this).1
      have hndC : ((t.nbs cid').map (g cid')).Nodup := by
        have := hv.legs_nodup cid' hcid
        rw [hs.legs cid' hcid] at this
        exact (List.nodup_append.1 this).1
      rw [← map_erase_nodup (g pid') _ cid' hcnb hndP, ← map_erase_nodup (g cid') _ pid' hpnb hndC]
      have hperm : (t1.nbs k).Perm ((t.nbs pid').erase cid' ++ (t.nbs cid').erase pid') := by
        rw [List.perm_ext_iff_of_nodup (nbs_nodup h1 k)]
        · intro x
          rw [List.mem_append, (nbs_nodup h pid').mem_erase_iff, (nbs_nodup h cid').mem_erase_iff, mem_nbs]
          constructor
          · rintro ⟨ax, hl⟩
            rcases (c1 x ax).1 hl with ⟨hl', hne⟩ | ⟨hl', hne⟩
            · exact Or.inl ⟨hne, mem_nbs.2 ⟨ax, hl'⟩⟩
            · exact Or.inr ⟨hne, mem_nbs.2 ⟨ax, hl'⟩⟩
          · rintro (⟨hne, hm⟩ | ⟨hne, hm⟩)
            · obtain ⟨ax, hl'⟩ := mem_nbs.1 hm
              exact ⟨ax, (c1 x ax).2 (Or.inl ⟨hl', hne⟩)⟩
            · obtain ⟨ax, hl'⟩ := mem_nbs.1 hm
              exact ⟨ax, (c1 x ax).2 (Or.inr ⟨hl', hne⟩)⟩
        · rw [List.nodup_append]
          refine ⟨(nbs_nodup h pid').erase _, (nbs_nodup h cid').erase _, ?_⟩
          intro x hx y hy hxy
          subst hxy
          exact hdisj x (List.mem_of_mem_erase hx) (List.mem_of_mem_erase hy)
      have hmapP : ((t.nbs pid').erase cid').map (contrG t pid' cid' k g k) =
          ((t.nbs pid').erase cid').map (g pid') := by
        apply List.map_congr_left
        intro x hx
        have hx' := ((nbs_nodup h pid').mem_erase_iff).1 hx
        simp [contrG, hx'.1, hx'.2]
      have hmapC : ((t.nbs cid').erase pid').map (contrG t pid' cid' k g k) =
          ((t.nbs cid').erase pid').map (g cid') := by
        apply List.map_congr_left
        intro x hx
        have hx' := ((nbs_nodup h cid').mem_erase_iff).1 hx
        have hnot : x ∉ t.nbs pid' := fun hm => hdisj x hm hx'.2
        simp [contrG, hnot]
      have hstep : ((t1.nbs k).map (contrG t pid' cid' k g k)).Perm
          (((t.nbs pid').erase cid').map (g pid') ++ ((t.nbs cid').erase pid').map (g cid')) := by
        have := hperm.map (contrG t pid' cid' k g k)
        rw [List.map_append, hmapP, hmapC] at this
        exact this
      rw [c2]
      rcases hcfg' with ⟨f1, f2⟩ | ⟨f1, f2⟩
      · rw [← f1, ← f2, List.map_append]
        exact (List.Perm.append_right _ hstep).trans (perm4 _ _ _ _)
      · rw [← f1, ← f2, List.map_append]
        exact (List.Perm.append_right _ hstep).trans (perm4' _ _ _ _)
    · obtain ⟨g1, g2, g3⟩ := (hrestmem k).1 hk'
      have g4 : k ≠ new := rest_ne_new hv hnewv hk'
      have hl0 : (contractStep dim v pid' cid' new p (g pid' cid') (g cid' pid')).legs k = v.legs k := by
        simp [contractStep, g4]
      rw [hl0, hlegs_by k g1 g4 g2 g3, hs.legs k g1]
  · -- the abstraction relation after the step
    have hbonds : (simContract dim e g t t1 v pid' cid' new p).bonds = v.bonds.erase p := rfl
    have hidsv : ∀ k, k ∈ (simContract dim e g t t1 v pid' cid' new p).ids ↔
        (k = new ∨ k ∈ (v.ids.erase pid').erase cid') := by
      intro k; simp [simContract, reLeg, contractStep]
    refine ⟨?_, fun k _ => rfl, ?_, ?_, ?_, ?_⟩
    · intro k
      rw [hidsv k, hrestmem k]
      by_cases hk : k = new
      · subst hk; simp [hNnew]
      · by_cases hkp : k = pid'
        · subst hkp
          simp [hk, hgoneP hk]
        · by_cases hkc : k = cid'
          · subst hkc
            simp [hk, hgoneC hk]
          · rw [hs.ids k]
            have := hby k hk hkp hkc
            simp only [hk, hkp, hkc, false_or, ne_eq, not_false_eq_true, and_true]
            rw [not_iff_not]
            exact this.symm
    · intro k' x' ax hl
      obtain ⟨k, x, hl', n1, n2, rfl, rfl⟩ := ECL k' x' ax hl
      rw [GC k x (mem_nbs.2 ⟨ax, hl'⟩) n1 n2]
      exact hs.dimV k x ax hl'
    · intro k ax hax
      by_cases hk : k = new
      · subst hk
        rw [c2, List.mem_append] at hax
        rcases hax with hax | hax
        · exact hs.dimO _ ax hax
        · exact hs.dimO _ ax hax
      · by_cases hkp : k = pid'
        · rw [hkp, openAxes_none (hgoneP (fun e => hk (hkp.trans e)))] at hax
          simp at hax
        · by_cases hkc : k = cid'
          · rw [hkc, openAxes_none (hgoneC (fun e => hk (hkc.trans e)))] at hax
            simp at hax
          · rw [(c4 k hk hkp hkc).2] at hax
            exact hs.dimO k ax hax
    · intro k' x' hx'
      obtain ⟨ax, hl⟩ := mem_nbs.1 hx'
      obtain ⟨k, x, hl', n1, n2, rfl, rfl⟩ := ECL k' x' ax hl
      have hx : x ∈ t.nbs k := mem_nbs.2 ⟨ax, hl'⟩
      have hxk := nbs_symm h hx
      rw [GC k x hx n1 n2, GC x k hxk (fun e => n2 ⟨e.2, e.1⟩) (fun e => n1 ⟨e.2, e.1⟩), hbonds]
      obtain ⟨q1, q2⟩ := ne_p k x hx n1 n2
      rcases hs.bondsIn k x hx with hb | hb
      · exact Or.inl ((List.mem_erase_of_ne q1).2 hb)
      · exact Or.inr ((List.mem_erase_of_ne q2).2 hb)
    · intro p' hp'
      rw [hbonds] at hp'
      obtain ⟨hne, hp''⟩ := ((bonds_nodup_of_pairLegs hv.bonds_nodup).mem_erase_iff).1 hp'
      obtain ⟨k, x, hx, rfl⟩ := hs.bondsOut p' hp''
      have hxk := nbs_symm h hx
      have n1 : ¬ (k = pid' ∧ x = cid') := by
        rintro ⟨rfl, rfl⟩
        rcases hpab with e' | e'
        · exact hne e'.symm
        · rw [e'] at hp; exact bonds_no_swap hv.bonds_nodup hp'' hp
      have n2 : ¬ (k = cid' ∧ x = pid') := by
        rintro ⟨rfl, rfl⟩
        rcases hpab with e' | e'
        · rw [e'] at hp; exact bonds_no_swap hv.bonds_nodup hp'' hp
        · exact hne e'.symm
      obtain ⟨ax, hl⟩ := mem_nbs.1 hx
      refine ⟨contrRho pid' cid' new k, contrRho pid' cid' new x, mem_nbs.2 ⟨ax, ECR k x ax hl n1 n2⟩, ?_⟩
      rw [GC k x hx n1 n2, GC x k hxk (fun e => n2 ⟨e.2, e.1⟩) (fun e => n1 ⟨e.2, e.1⟩)]

/-- **`contract_nodes` of the structural model is simulated at the value level**: if `t` and `v` are related and
`contract_nodes(id1, id2, new)` takes `t` to `t1`, then the bond `p` between the two nodes is in the binding record of
`v`, and contracting it (`contractStep`) and putting the legs of the new node into the order of the structural model
(`(parent, node1-children, node2-children, node1-open, node2-open)`: a permutation) gives a valued network related to
`t1`; this is a run of value-level steps, so the network is still well-formed and has the same value. -/
theorem contract_nodes_simulates (dim : Nat → Nat) (e : Label → Nat) {g : LegMap} {t t1 : TTN} {v : VNet R}
    {id1 id2 new : Id} (h : t.WF) (hv : v.WF) (hs : RSim dim e g t v)
    (hnew : new = id1 ∨ new = id2 ∨ t.N new = none) (hc : t.contractNodes id1 id2 new = some t1) :
    ∃ pid cid p, ((pid = id1 ∧ cid = id2) ∨ (pid = id2 ∧ cid = id1)) ∧ (∃ C, t.N cid = some C ∧ C.parent = some pid) ∧
      p ∈ v.bonds ∧ (p = (g pid cid, g cid pid) ∨ p = (g cid pid, g pid cid)) ∧
      SRun dim v (simContract dim e g t t1 v pid cid new p) ∧
      RSim dim e (contrG t pid cid new g) t1 (simContract dim e g t t1 v pid cid new p) := by
  obtain ⟨pid, cid, hcfg, _, hcnb, _, _, _, _, _, _, _, _, _, _, C, hC, hCp⟩ := contract_sim_facts h hnew hc
  have hp : ∃ p, p ∈ v.bonds ∧ (p = (g pid cid, g cid pid) ∨ p = (g cid pid, g pid cid)) := by
    rcases hs.bondsIn pid cid hcnb with hb | hb
    · exact ⟨_, hb, Or.inl rfl⟩
    · exact ⟨_, hb, Or.inr rfl⟩
  obtain ⟨p, hp, hpab⟩ := hp
  obtain ⟨adm, hperm, hsim⟩ := contract_sim_core dim e h hv hs hnew hc hcfg hC hCp hp hpab
  exact ⟨pid, cid, p, hcfg, ⟨C, hC, hCp⟩, hp, hpab,
    .cons (.base (.contract adm)) (.cons (.releg hperm) (.nil _)), hsim⟩

end Ptn.C02
