import Ptn.C08.EinGate
import Ptn.C08.StepLemmas
/-! Value level for C08, part 3: a whole TEBD time step.

`tebd_step_legs` proves that the global binding record of `run_one_time_step` is the specification fold
`specRun`.  Here

* `actRun`         is the ordered product of the gates as a fold over the exponent list: operator number `g`
                   maps a state vector `φ` to `Σ_in G_g[out; in] · φ[…, in, …]` (`gateAct`), an operator
                   that names no site is skipped (`pass` in `_apply_one_trotter_step`);
* `record_value`   the flat network "old state + gate tensors" over the record `specRun` evaluates to
                   `actRun` of the old state (what the harness evaluates through `einrec`);
* `OpContract` / `StepChain`  the value-level contract of the library routines along a step (`tensordot`
                   identities, exact factorisation as hypothesis), `chain_value`: every chain of networks
                   related by these contracts ends in `actRun` of the first one. -/
namespace Ptn.C08

open Ptn.Ein

/-- global leg labels of a whole step: physical legs (initial / gate outputs), gate inputs, virtual legs -/
inductive SLeg where
  | ph (l : GLeg)
  | gin (g k : Nat)
  | virt (a b v : Nat)
  deriving DecidableEq, Repr

/-- the binding record as pairs of labels (physical leg, gate input) -/
def recPairs (rc : List Rec) : List (SLeg × SLeg) := rc.map fun r => (SLeg.ph r.1, SLeg.gin r.2.1 r.2.2)

/-- what the tensor of gate `g` reads: its outputs `ph (out g k)` and its inputs `gin g k` -/
def GateReadsS (g : Nat) : SLeg → Prop
  | .ph (.out g' _) => g' = g
  | .gin g' _ => g' = g
  | _ => False

section
variable {R : Type} [CommSemiring R]

/-- the action of operator number `g` on a state vector: `Σ_in G[out; in] · φ[…, in, …]` over the pairs the
specification prescribes (input `k` with the current physical leg of the `k`-th site); no site: skipped -/
def gateAct (dim : SLeg → Nat) (Gt : Asg SLeg → R) (cur : Nat → GLeg) (g : Nat) (op : List Nat)
    (φ : Asg SLeg → R) : Asg SLeg → R :=
  match op with
  | [] => φ
  | _ => fun σ => sumPairs dim (recPairs (specOp g (cur, []) 0 op).2) (fun τ => Gt τ * φ τ) σ

/-- the ordered product of the gates of a step, as a fold over the exponent list -/
def actRun (dim : SLeg → Nat) (G : Nat → Asg SLeg → R) :
    (Nat → GLeg) → Nat → List (List Nat) → (Asg SLeg → R) → Asg SLeg → R
  | _, _, [], φ => φ
  | cur, g, op :: ops, φ => actRun dim G (specOp g (cur, []) 0 op).1 (g + 1) ops (gateAct dim (G g) cur g op φ)

/-- the gate tensors of the operators that name at least one site, last operator first, in front of `acc` -/
def gateLeaves (G : Nat → Asg SLeg → R) : Nat → List (List Nat) → List (Asg SLeg → R) → List (Asg SLeg → R)
  | _, [], acc => acc
  | g, [] :: ops, acc => gateLeaves G (g + 1) ops acc
  | g, (_ :: _) :: ops, acc => gateLeaves G (g + 1) ops (G g :: acc)

end

/-! ### the record of one operator -/

theorem specOp_record (g : Nat) : ∀ (ss : List Nat) (cur : Nat → GLeg) (rc : List Rec) (k : Nat),
    specOp g (cur, rc) k ss = ((specOp g (cur, []) k ss).1, rc ++ (specOp g (cur, []) k ss).2)
  | [], cur, rc, k => by simp [specOp]
  | s :: ss, cur, rc, k => by
    simp only [specOp, List.nil_append]
    rw [specOp_record g ss _ (rc ++ [(cur s, g, k)]), specOp_record g ss _ [(cur s, g, k)]]
    simp

theorem specRun_cons (cur : Nat → GLeg) (rc : List Rec) (g : Nat) (op : List Nat) (ops : List (List Nat)) :
    specRun (cur, rc) g (op :: ops) =
      specRun ((specOp g (cur, []) 0 op).1, rc ++ (specOp g (cur, []) 0 op).2) (g + 1) ops := by
  simp only [specRun]
  rw [specOp_record]

/-- the three shapes of operator `_apply_one_trotter_step` accepts (two sites: distinct) -/
def OpForm (op : List Nat) : Prop := op = [] ∨ (∃ s, op = [s]) ∨ (∃ a b, a ≠ b ∧ op = [a, b])

/-- valid operators of a well-formed tree have one of the three shapes -/
theorem validOp_form {t : List TNode} (hwf : TreeWF t) : ∀ {op : List Nat}, ValidOp t op → OpForm op
  | [], _ => Or.inl rfl
  | [s], _ => Or.inr (Or.inl ⟨s, rfl⟩)
  | [a, b], h => by
    obtain ⟨x, hx, y, hy, hxa, hyb, hor⟩ := h
    obtain ⟨d, hd⟩ := hwf.depth
    refine Or.inr (Or.inr ⟨a, b, ?_, rfl⟩)
    intro e
    rcases hor with h1 | h1
    · have := hd y hy a h1; rw [hyb, e] at this; exact Nat.lt_irrefl _ this
    · have := hd x hx b h1; rw [hxa, e] at this; exact Nat.lt_irrefl _ this
  | _ :: _ :: _ :: _, h => h.elim

/-! ### invariant of the record -/

def GLeg.lt (g : Nat) : GLeg → Prop
  | .init _ => True
  | .out g' _ => g' < g

theorem GLeg.lt_mono {g : Nat} : ∀ {l : GLeg}, l.lt g → l.lt (g + 1)
  | .init _, _ => trivial
  | .out _ _, h => Nat.lt_succ_of_lt h

/-- structural part of the invariant: the current physical legs are pairwise distinct and not yet bound; no
leg is bound twice -/
structure RecStr (cur : Nat → GLeg) (rc : List Rec) : Prop where
  inj : ∀ s s', cur s = cur s' → s = s'
  free : ∀ s, ∀ r ∈ rc, r.1 ≠ cur s
  physNodup : (rc.map (·.1)).Nodup
  ginNodup : (rc.map (·.2)).Nodup

/-- the record so far involves only gates before `g`; the current physical legs were created before gate `g` -/
structure RecLt (cur : Nat → GLeg) (rc : List Rec) (g : Nat) : Prop where
  curLt : ∀ s, (cur s).lt g
  recLt : ∀ r ∈ rc, r.1.lt g ∧ r.2.1 < g

/-- invariant of the global binding record along a run -/
def RecInv (cur : Nat → GLeg) (rc : List Rec) (g : Nat) : Prop := RecStr cur rc ∧ RecLt cur rc g

theorem recInv_init : RecInv GLeg.init [] 0 :=
  ⟨⟨fun _ _ h => by cases h; rfl, by simp, by simp, by simp⟩, ⟨fun _ => trivial, by simp⟩⟩

theorem out_not_lt (g k : Nat) : ¬ (GLeg.out g k).lt g := by simp [GLeg.lt]

theorem ne_of_lt_out {g k : Nat} {l : GLeg} (h : l.lt g) : l ≠ GLeg.out g k := by
  intro e; subst e; exact out_not_lt g k h

/-- binding the current leg of site `s` to a fresh gate input and giving the site a fresh leg `o` -/
theorem RecStr.step {cur : Nat → GLeg} {rc : List Rec} (h : RecStr cur rc) (s : Nat) (o : GLeg)
    (gk : Nat × Nat) (ho1 : ∀ x, cur x ≠ o) (ho2 : ∀ r ∈ rc, r.1 ≠ o) (hgk : ∀ r ∈ rc, r.2 ≠ gk) :
    RecStr (setCur cur s o) (rc ++ [(cur s, gk)]) := by
  refine ⟨?_, ?_, ?_, ?_⟩
  · intro x y hxy
    simp only [setCur] at hxy
    by_cases hx : x = s <;> by_cases hy : y = s
    · rw [hx, hy]
    · simp only [hx, hy, if_true, if_false] at hxy
      exact absurd hxy.symm (ho1 y)
    · simp only [hx, hy, if_true, if_false] at hxy
      exact absurd hxy (ho1 x)
    · simp only [hx, hy, if_false] at hxy
      exact h.inj x y hxy
  · intro x r hr
    simp only [setCur]
    rcases List.mem_append.1 hr with hr | hr
    · by_cases hx : x = s
      · simp only [hx, if_true]; exact ho2 r hr
      · simp only [hx, if_false]; exact h.free x r hr
    · simp only [List.mem_singleton] at hr
      subst hr
      by_cases hx : x = s
      · simp only [hx, if_true]; exact ho1 s
      · simp only [hx, if_false]; exact fun e => hx (h.inj s x e).symm
  · rw [List.map_append, List.nodup_append]
    refine ⟨h.physNodup, by simp, ?_⟩
    intro a ha b hb hab
    simp only [List.map_cons, List.map_nil, List.mem_singleton] at hb
    obtain ⟨r, hr, rfl⟩ := List.mem_map.1 ha
    exact h.free s r hr (hab.trans hb)
  · rw [List.map_append, List.nodup_append]
    refine ⟨h.ginNodup, by simp, ?_⟩
    intro a ha b hb hab
    simp only [List.map_cons, List.map_nil, List.mem_singleton] at hb
    obtain ⟨r, hr, rfl⟩ := List.mem_map.1 ha
    exact hgk r hr (hab.trans hb)

theorem RecInv.step_one {cur : Nat → GLeg} {rc : List Rec} {g : Nat} (h : RecInv cur rc g) (s : Nat) :
    RecInv (setCur cur s (GLeg.out g 0)) (rc ++ [(cur s, g, 0)]) (g + 1) := by
  obtain ⟨hs, hl⟩ := h
  refine ⟨hs.step s _ (g, 0) (fun x => ne_of_lt_out (hl.curLt x)) (fun r hr => ne_of_lt_out (hl.recLt r hr).1)
    (fun r hr e => ?_), ?_, ?_⟩
  · have := (hl.recLt r hr).2; rw [e] at this; exact Nat.lt_irrefl g this
  · intro x
    simp only [setCur]
    by_cases hx : x = s
    · simp [hx, GLeg.lt]
    · simp only [hx, if_false]; exact GLeg.lt_mono (hl.curLt x)
  · intro r hr
    rcases List.mem_append.1 hr with hr | hr
    · exact ⟨GLeg.lt_mono (hl.recLt r hr).1, Nat.lt_succ_of_lt (hl.recLt r hr).2⟩
    · simp only [List.mem_singleton] at hr
      subst hr
      exact ⟨GLeg.lt_mono (hl.curLt s), Nat.lt_succ_self g⟩

theorem RecInv.step_two {cur : Nat → GLeg} {rc : List Rec} {g : Nat} (h : RecInv cur rc g) (a b : Nat)
    (hab : a ≠ b) :
    RecInv (setCur (setCur cur a (GLeg.out g 0)) b (GLeg.out g 1))
      (rc ++ [(cur a, g, 0), (cur b, g, 1)]) (g + 1) := by
  obtain ⟨hs, hl⟩ := h
  have h1 := hs.step a (GLeg.out g 0) (g, 0) (fun x => ne_of_lt_out (hl.curLt x))
    (fun r hr => ne_of_lt_out (hl.recLt r hr).1)
    (fun r hr e => by have := (hl.recLt r hr).2; rw [e] at this; exact Nat.lt_irrefl g this)
  have hcb : setCur cur a (GLeg.out g 0) b = cur b := by
    have hba : ¬ b = a := fun e => hab e.symm
    simp [setCur, hba]
  have h2 := h1.step b (GLeg.out g 1) (g, 1)
    (by
      intro x
      simp only [setCur]
      by_cases hx : x = a
      · simp [hx]
      · simp only [hx, if_false]; exact ne_of_lt_out (hl.curLt x))
    (by
      intro r hr
      rcases List.mem_append.1 hr with hr | hr
      · exact ne_of_lt_out (hl.recLt r hr).1
      · simp only [List.mem_singleton] at hr; subst hr; exact ne_of_lt_out (hl.curLt a))
    (by
      intro r hr e
      rcases List.mem_append.1 hr with hr | hr
      · have := (hl.recLt r hr).2; rw [e] at this; exact Nat.lt_irrefl g this
      · simp only [List.mem_singleton] at hr; subst hr; simp at e)
  rw [hcb, List.append_assoc] at h2
  refine ⟨h2, ?_, ?_⟩
  · intro x
    simp only [setCur]
    by_cases hx : x = b
    · simp [hx, GLeg.lt]
    · by_cases hx' : x = a
      · subst hx'; simp [hab, GLeg.lt]
      · simp only [hx, hx', if_false]; exact GLeg.lt_mono (hl.curLt x)
  · intro r hr
    rcases List.mem_append.1 hr with hr | hr
    · exact ⟨GLeg.lt_mono (hl.recLt r hr).1, Nat.lt_succ_of_lt (hl.recLt r hr).2⟩
    · simp only [List.mem_cons, List.not_mem_nil, or_false] at hr
      rcases hr with rfl | rfl
      · exact ⟨GLeg.lt_mono (hl.curLt a), Nat.lt_succ_self g⟩
      · exact ⟨GLeg.lt_mono (hl.curLt b), Nat.lt_succ_self g⟩

/-- one operator of the step keeps the invariant -/
theorem RecInv.step {cur : Nat → GLeg} {rc : List Rec} {g : Nat} (h : RecInv cur rc g) {op : List Nat}
    (hop : OpForm op) :
    RecInv (specOp g (cur, []) 0 op).1 (rc ++ (specOp g (cur, []) 0 op).2) (g + 1) := by
  rcases hop with rfl | ⟨s, rfl⟩ | ⟨a, b, hab, rfl⟩
  · simp only [specOp, List.append_nil]
    exact ⟨h.1, ⟨fun s => GLeg.lt_mono (h.2.curLt s),
      fun r hr => ⟨GLeg.lt_mono (h.2.recLt r hr).1, Nat.lt_succ_of_lt (h.2.recLt r hr).2⟩⟩⟩
  · rw [specOp_one]; exact h.step_one s
  · rw [specOp_two g cur [] a b hab]; exact h.step_two a b hab

/-! ### the labelled record: no leg bound twice, the new gate reads no bound leg -/

theorem pairLegs_recPairs (rc : List Rec) :
    Expr.pairLegs (recPairs rc) =
      (rc.map (·.1)).map SLeg.ph ++ (rc.map (·.2)).map (fun x => SLeg.gin x.1 x.2) := by
  simp [Expr.pairLegs, recPairs, List.map_map, Function.comp_def]

theorem RecStr.nodup {cur : Nat → GLeg} {rc : List Rec} (h : RecStr cur rc) :
    (Expr.pairLegs (recPairs rc)).Nodup := by
  rw [pairLegs_recPairs, List.nodup_append]
  refine ⟨h.physNodup.map (fun a b e => by cases e; rfl),
    h.ginNodup.map (fun a b e => by cases a; cases b; cases e; rfl), ?_⟩
  intro a ha b hb hab
  obtain ⟨x, _, rfl⟩ := List.mem_map.1 ha
  obtain ⟨y, _, rfl⟩ := List.mem_map.1 hb
  cases hab

theorem RecLt.gate_fresh {cur : Nat → GLeg} {rc : List Rec} {g : Nat} (h : RecLt cur rc g) :
    ∀ l ∈ Expr.pairLegs (recPairs rc), ¬ GateReadsS g l := by
  intro l hl
  rw [pairLegs_recPairs] at hl
  rcases List.mem_append.1 hl with hl | hl
  · obtain ⟨x, hx, rfl⟩ := List.mem_map.1 hl
    obtain ⟨r, hr, rfl⟩ := List.mem_map.1 hx
    have := (h.recLt r hr).1
    cases hr1 : r.1 with
    | init s => simp [GateReadsS]
    | out g' k =>
      rw [hr1] at this
      simp only [GateReadsS]
      exact fun e => Nat.lt_irrefl g (e ▸ this)
  · obtain ⟨x, hx, rfl⟩ := List.mem_map.1 hl
    obtain ⟨r, hr, rfl⟩ := List.mem_map.1 hx
    have := (h.recLt r hr).2
    simp only [GateReadsS]
    exact fun e => Nat.lt_irrefl g (e ▸ this)

/-! ### the record evaluates to the ordered product of the gates -/

section
variable {R : Type} [CommSemiring R]

theorem recPairs_append (a b : List Rec) : recPairs (a ++ b) = recPairs a ++ recPairs b := by
  simp [recPairs]

/-- adding the tensor of gate `g` and its bindings to the network applies the gate -/
theorem gateAct_record (dim : SLeg → Nat) (Gt : Asg SLeg → R) {cur : Nat → GLeg} {rc : List Rec} {g : Nat}
    (hG : DependsOn (GateReadsS g) Gt) (h : RecInv cur rc g) (s : Nat) (ss : List Nat)
    (hop : OpForm (s :: ss)) (leaves : List (Asg SLeg → R)) (σ : Asg SLeg) :
    netValue dim (recPairs (rc ++ (specOp g (cur, []) 0 (s :: ss)).2)) (Gt :: leaves) σ =
      gateAct dim Gt cur g (s :: ss) (netValue dim (recPairs rc) leaves) σ := by
  have hn := (h.step hop).1.nodup
  rw [recPairs_append] at hn ⊢
  exact apply_gate_value dim (recPairs rc) _ Gt leaves hG h.2.gate_fresh hn σ

/-- **The model's binding record evaluates to the ordered product of the gates.**  The flat network made of
the leaves of the old state (record `rc`) and the tensors of the gates, over the record the step produces
(`specRun`, by `tebd_step_legs` the record of the modelled loop), has the value `actRun` of the old state. -/
theorem record_value (dim : SLeg → Nat) (G : Nat → Asg SLeg → R)
    (hG : ∀ g, DependsOn (GateReadsS g) (G g)) :
    ∀ (ops : List (List Nat)), (∀ op ∈ ops, OpForm op) → ∀ (cur : Nat → GLeg) (rc : List Rec) (g : Nat),
      RecInv cur rc g → ∀ (leaves : List (Asg SLeg → R)) (σ : Asg SLeg),
      netValue dim (recPairs (specRun (cur, rc) g ops).2) (gateLeaves G g ops leaves) σ =
        actRun dim G cur g ops (netValue dim (recPairs rc) leaves) σ
  | [], _, cur, rc, g, _, leaves, σ => rfl
  | [] :: ops, hops, cur, rc, g, h, leaves, σ => by
    rw [specRun_cons]
    have h' := h.step (Or.inl rfl : OpForm [])
    have ih := record_value dim G hG ops (fun op hop => hops op (List.mem_cons_of_mem _ hop)) _ _ _ h' leaves σ
    simp only [gateLeaves, actRun, gateAct]
    simp only [specOp, List.append_nil] at ih ⊢
    exact ih
  | (s :: ss) :: ops, hops, cur, rc, g, h, leaves, σ => by
    rw [specRun_cons]
    have hop := hops (s :: ss) List.mem_cons_self
    have h' := h.step hop
    have ih := record_value dim G hG ops (fun op hop => hops op (List.mem_cons_of_mem _ hop)) _ _ _ h'
      (G g :: leaves) σ
    simp only [gateLeaves, actRun]
    rw [ih]
    congr 1
    funext τ
    exact gateAct_record dim (G g) (hG g) h s ss hop leaves τ

/-! ### the library routines along a step, as identities between tensors -/

/-- **Value-level contract of `_apply_one_trotter_step`** for one operator whose bindings are `gp`; the two
last arguments are the state vectors (values of the labelled networks) before and after.

* no site: `pass`;
* one site: `absorb_into_open_legs` — `A = Σ_gp G·T` (`tensordot`);
* two sites: `contract_nodes` — `C = Σ_bond T₁·T₂`; `absorb_into_open_legs` — `A = Σ_gp G·C`;
  `split_node_svd` with truncation disabled — `A = Σ_newbond U·V`, an exact factorisation (the contract of
  the SVD; with truncation enabled this identity does not hold and the theorems below do not apply).

The side conditions say that the labelled network is well formed: the rest of the network reads neither the
old / new bond nor the legs bound to the gate, the gate reads no bond, no leg is bound twice. -/
inductive OpContract (dim : SLeg → Nat) (Gt : Asg SLeg → R) (gp : List (SLeg × SLeg)) :
    List Nat → (Asg SLeg → R) → (Asg SLeg → R) → Prop
  | skip (ψ : Asg SLeg → R) : OpContract dim Gt gp [] ψ ψ
  | single (s : Nat) (bs : List (SLeg × SLeg)) (T A : Asg SLeg → R) (rest : List (Asg SLeg → R))
      (S SG : SLeg → Prop)
      (hA : ∀ τ, A τ = sumPairs dim gp (fun ρ => Gt ρ * T ρ) τ)
      (hrest : ∀ f ∈ rest, DependsOn S f) (hgp : ∀ l ∈ Expr.pairLegs gp, ¬ S l)
      (hG : DependsOn SG Gt) (hdis : ∀ l ∈ Expr.pairLegs bs, ¬ SG l)
      (hnd : (Expr.pairLegs (bs ++ gp)).Nodup) :
      OpContract dim Gt gp [s] (netValue dim bs (T :: rest)) (netValue dim bs (A :: rest))
  | two (a b : Nat) (bs : List (SLeg × SLeg)) (T₁ T₂ C A U V : Asg SLeg → R) (rest : List (Asg SLeg → R))
      (b₁ b₂ q r : SLeg) (S SG : SLeg → Prop)
      (hC : ∀ τ, C τ = sumPairs dim [(b₁, b₂)] (fun ρ => T₁ ρ * T₂ ρ) τ)
      (hA : ∀ τ, A τ = sumPairs dim gp (fun ρ => Gt ρ * C ρ) τ)
      (hUV : ∀ τ, A τ = sumPairs dim [(q, r)] (fun ρ => U ρ * V ρ) τ)
      (hrest : ∀ f ∈ rest, DependsOn S f)
      (hq : ¬ S q) (hr : ¬ S r) (hb₁ : ¬ S b₁) (hb₂ : ¬ S b₂) (hgp : ∀ l ∈ Expr.pairLegs gp, ¬ S l)
      (hG : DependsOn SG Gt) (hdis : ∀ l ∈ Expr.pairLegs bs, ¬ SG l)
      (hnd : (Expr.pairLegs (bs ++ gp)).Nodup) :
      OpContract dim Gt gp [a, b] (netValue dim (bs ++ [(b₁, b₂)]) (T₁ :: T₂ :: rest))
        (netValue dim (bs ++ [(q, r)]) (U :: V :: rest))

/-- The contract of a two-site operator is satisfiable for EVERY pair of tensors joined by a bond and every
gate: the absorbed tensor factorises exactly over a new bond of dimension one (`trivial_split`). -/
theorem OpContract.exists_two (dim : SLeg → Nat) (Gt : Asg SLeg → R) (gp : List (SLeg × SLeg)) (a b : Nat)
    (T₁ T₂ : Asg SLeg → R) (b₁ b₂ q r : SLeg) {S SG : SLeg → Prop}
    (hT₁ : DependsOn S T₁) (hT₂ : DependsOn S T₂) (hGS : DependsOn S Gt) (hq : ¬ S q) (hr : ¬ S r)
    (hd : dim q = 1) (hG : DependsOn SG Gt) (hnd : (Expr.pairLegs gp).Nodup) :
    OpContract dim Gt gp [a, b] (netValue dim ([] ++ [(b₁, b₂)]) [T₁, T₂])
      (netValue dim ([] ++ [(q, r)])
        [fun τ => sumPairs dim gp (fun ρ => Gt ρ * sumPairs dim [(b₁, b₂)] (fun ρ' => T₁ ρ' * T₂ ρ') ρ) τ,
         fun _ => 1]) :=
  OpContract.two a b [] T₁ T₂ (fun τ => sumPairs dim [(b₁, b₂)] (fun ρ' => T₁ ρ' * T₂ ρ') τ) _ _ _ []
    b₁ b₂ q r (fun _ => False) SG (fun _ => rfl) (fun _ => rfl)
    (fun τ => trivial_split dim _ q r
      (dependsOn_contract dim gp hGS (dependsOn_contract dim [(b₁, b₂)] hT₁ hT₂)) hq hr hd τ)
    (by simp) id id id id (fun _ _ => id) hG (by simp [Expr.pairLegs]) (by simpa using hnd)

/-- likewise for a one-site operator -/
theorem OpContract.exists_single (dim : SLeg → Nat) (Gt : Asg SLeg → R) (gp : List (SLeg × SLeg)) (s : Nat)
    (T : Asg SLeg → R) {SG : SLeg → Prop} (hG : DependsOn SG Gt) (hnd : (Expr.pairLegs gp).Nodup) :
    OpContract dim Gt gp [s] (netValue dim [] [T])
      (netValue dim [] [fun τ => sumPairs dim gp (fun ρ => Gt ρ * T ρ) τ]) :=
  OpContract.single s [] T _ [] (fun _ => False) SG (fun _ => rfl) (by simp) (fun _ _ => id) hG
    (by simp [Expr.pairLegs]) (by simpa using hnd)

/-- one operator application is the gate action -/
theorem OpContract.value {dim : SLeg → Nat} {Gt : Asg SLeg → R} {cur : Nat → GLeg} {g : Nat}
    {op : List Nat} {ψ ψ' : Asg SLeg → R}
    (h : OpContract dim Gt (recPairs (specOp g (cur, []) 0 op).2) op ψ ψ') :
    ψ' = gateAct dim Gt cur g op ψ := by
  cases h with
  | skip => rfl
  | single s bs T A rest S SG hA hrest hgp hG hdis hnd =>
    funext σ
    exact absorb_gate_value dim bs _ Gt T A rest hA hrest hgp hG hdis hnd σ
  | two a b bs T₁ T₂ C A U V rest b₁ b₂ q r S SG hC hA hUV hrest hq hr hb₁ hb₂ hgp hG hdis hnd =>
    funext σ
    exact gate_application_value dim bs _ Gt T₁ T₂ C A U V rest b₁ b₂ q r hC hA hUV hrest hq hr hb₁ hb₂
      hgp hG hdis hnd σ

/-- a run of `run_one_time_step` at value level: operator number `g` acts with the bindings the
specification fold prescribes at that moment -/
inductive StepChain (dim : SLeg → Nat) (G : Nat → Asg SLeg → R) :
    (Nat → GLeg) → Nat → List (List Nat) → (Asg SLeg → R) → (Asg SLeg → R) → Prop
  | nil (cur : Nat → GLeg) (g : Nat) (ψ : Asg SLeg → R) : StepChain dim G cur g [] ψ ψ
  | cons (cur : Nat → GLeg) (g : Nat) (op : List Nat) (ops : List (List Nat)) (ψ ψ' ψ'' : Asg SLeg → R)
      (h1 : OpContract dim (G g) (recPairs (specOp g (cur, []) 0 op).2) op ψ ψ')
      (h2 : StepChain dim G (specOp g (cur, []) 0 op).1 (g + 1) ops ψ' ψ'') :
      StepChain dim G cur g (op :: ops) ψ ψ''

/-- every chain of networks related by the contracts of the library routines ends in the ordered product of
the gates applied to the first one -/
theorem chain_value {dim : SLeg → Nat} {G : Nat → Asg SLeg → R} {cur : Nat → GLeg} {g : Nat}
    {ops : List (List Nat)} {ψ ψ'' : Asg SLeg → R} (h : StepChain dim G cur g ops ψ ψ'') :
    ψ'' = actRun dim G cur g ops ψ := by
  induction h with
  | nil => rfl
  | cons cur g op ops ψ ψ' ψ'' h1 _ ih => rw [ih, h1.value]; rfl

end

end Ptn.C08
