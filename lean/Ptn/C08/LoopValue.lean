import Ptn.C08.BuiltFns
import Ptn.C08.Value
import Ptn.C08.StepValue
/-! Value level for C08, provenance part: the model's OWN operation sequence for one gate
(`contractNodes`; `absorbIntoOpenLegs`) is the contraction program `tensordot(tensordot(P, C), G)` over the node
tensors and the gate tensor (helper file of `Props.lean`, section "loop value"). -/
namespace Ptn.C08

open Ptn.Ein

/-- the stages of `twoSite` that precede the split -/
theorem twoSite_stages {id1 id2 : Nat} {n1 n2 : MNode} {r : TwoSiteResult} (h : twoSite id1 n1 id2 n2 = some r) :
    contractNodes id1 n1 id2 n2 = some r.contr ∧
      absorbIntoOpenLegs r.contr (gateLegs r.contr.nopen) = some (r.absorbed, r.binds) := by
  unfold twoSite at h
  cases hs : legsBeforeCombination id1 n1 id2 n2 with
  | none => rw [hs] at h; simp at h
  | some ss =>
    rw [hs, Option.bind_some] at h
    cases hc : contractNodes id1 n1 id2 n2 with
    | none => simp only [hc] at h; simp at h
    | some cn =>
      simp only [hc, Option.bind_some] at h
      cases ha : absorbIntoOpenLegs cn (gateLegs cn.nopen) with
      | none => simp only [ha] at h; simp at h
      | some ab =>
        obtain ⟨a, b⟩ := ab
        simp only [ha, Option.bind_some] at h
        cases hsp : splitNode a ss.1 ss.2 id1 id2 with
        | none => simp only [hsp] at h; simp at h
        | some mm =>
          simp only [hsp, Option.bind_some, Option.some.injEq] at h
          subst h
          exact ⟨rfl, ha⟩

variable {R : Type}

/-- the program of one two-site gate up to the split: `tensordot(tensordot(P, C, bond), G, gp)` -/
def gateExpr (lP lC : List Leg) (bond : List (Leg × Leg)) (n : Nat) (gp : List (Leg × Leg))
    (TP TC G : Asg Leg → R) : Expr Leg R :=
  Expr.dot (Expr.dot (Expr.leaf lP TP) (Expr.leaf lC TC) bond) (Expr.leaf (gateLegs n) G) gp

/-- the program of one single-site gate: `tensordot(T, G, gp)` -/
def gateExpr1 (lT : List Leg) (n : Nat) (gp : List (Leg × Leg)) (T G : Asg Leg → R) : Expr Leg R :=
  Expr.dot (Expr.leaf lT T) (Expr.leaf (gateLegs n) G) gp

theorem nb_injective : Function.Injective Leg.nb := fun _ _ h => by cases h; rfl

/-- the labels of the two node tensors of a pair and of the gate tensor are pairwise distinct -/
theorem pair_labels_nodup {p c : Nat} {pp : Option Nat} {A B K : List Nat} (h : PairOK p c pp A B K)
    (oP oC n : Nat) :
    ((mkNode p pp (A ++ c :: B) oP).legs ++ (mkNode c (some p) K oC).legs ++ gateLegs n).Nodup := by
  have hnb : ((pp.toList ++ p :: c :: (A ++ (B ++ K))).map Leg.nb).Nodup := List.Nodup.map nb_injective h
  have hne : p ≠ c := h.p_notin.2.2.2
  have e1 : parentLegs pp = pp.toList.map Leg.nb := by cases pp <;> rfl
  have hperm : ((mkNode p pp (A ++ c :: B) oP).legs ++ (mkNode c (some p) K oC).legs ++ gateLegs n).Perm
      ((pp.toList ++ p :: c :: (A ++ (B ++ K))).map Leg.nb ++
        (physL p oP ++ (physL c oC ++ ((List.range n).map Leg.gout ++ (List.range n).map Leg.gin)))) := by
    have e3 : parentLegs (some p) = [Leg.nb p] := rfl
    simp only [mkNode, e3]
    rw [e1, List.perm_iff_count]
    intro a
    simp only [gateLegs, List.map_append, List.map_cons, List.count_append,
      List.count_cons, List.count_nil]
    omega
  refine hperm.nodup_iff.2 ?_
  rw [List.nodup_append]
  refine ⟨hnb, ?_, ?_⟩
  · rw [List.nodup_append]
    refine ⟨nodup_physL p oP, ?_, ?_⟩
    · rw [List.nodup_append]
      refine ⟨nodup_physL c oC, ?_, ?_⟩
      · rw [List.nodup_append]
        refine ⟨(List.nodup_range).map (fun a b h => by cases h; rfl),
          (List.nodup_range).map (fun a b h => by cases h; rfl), ?_⟩
        intro a ha b hb hab
        simp only [List.mem_map] at ha hb
        obtain ⟨i, _, rfl⟩ := ha
        obtain ⟨j, _, rfl⟩ := hb
        cases hab
      · intro a ha b hb hab
        simp only [physL, List.mem_map, List.mem_append] at ha hb
        obtain ⟨i, _, rfl⟩ := ha
        rcases hb with ⟨j, _, rfl⟩ | ⟨j, _, rfl⟩ <;> cases hab
    · intro a ha b hb hab
      simp only [physL, List.mem_map, List.mem_append] at ha hb
      obtain ⟨i, _, rfl⟩ := ha
      rcases hb with ⟨j, _, rfl⟩ | ⟨j, _, rfl⟩ | ⟨j, _, rfl⟩
      · cases hab; exact hne rfl
      · cases hab
      · cases hab
  · intro a ha b hb hab
    simp only [physL, List.mem_map, List.mem_append] at ha hb
    obtain ⟨i, _, rfl⟩ := ha
    rcases hb with ⟨j, _, rfl⟩ | ⟨j, _, rfl⟩ | ⟨j, _, rfl⟩ | ⟨j, _, rfl⟩ <;> cases hab

theorem single_labels_nodup (id : Nat) (par : Option Nat) (ch : List Nat) (hch : (par.toList ++ ch).Nodup)
    (o n : Nat) : ((mkNode id par ch o).legs ++ gateLegs n).Nodup := by
  have hnb : ((par.toList ++ ch).map Leg.nb).Nodup := List.Nodup.map nb_injective hch
  have e1 : parentLegs par = par.toList.map Leg.nb := by cases par <;> rfl
  have e2 : (mkNode id par ch o).legs ++ gateLegs n =
      (par.toList ++ ch).map Leg.nb ++ (physL id o ++ ((List.range n).map Leg.gout ++ (List.range n).map Leg.gin)) := by
    simp [mkNode, gateLegs, e1]
  rw [e2, List.nodup_append]
  refine ⟨hnb, ?_, ?_⟩
  · rw [List.nodup_append]
    refine ⟨nodup_physL id o, ?_, ?_⟩
    · rw [List.nodup_append]
      refine ⟨(List.nodup_range).map (fun a b h => by cases h; rfl),
        (List.nodup_range).map (fun a b h => by cases h; rfl), ?_⟩
      intro a ha b hb hab
      simp only [List.mem_map] at ha hb
      obtain ⟨i, _, rfl⟩ := ha
      obtain ⟨j, _, rfl⟩ := hb
      cases hab
    · intro a ha b hb hab
      simp only [physL, List.mem_map, List.mem_append] at ha hb
      obtain ⟨i, _, rfl⟩ := ha
      rcases hb with ⟨j, _, rfl⟩ | ⟨j, _, rfl⟩ <;> cases hab
  · intro a ha b hb hab
    simp only [physL, List.mem_map, List.mem_append] at ha hb
    obtain ⟨i, _, rfl⟩ := ha
    rcases hb with ⟨j, _, rfl⟩ | ⟨j, _, rfl⟩ | ⟨j, _, rfl⟩ <;> cases hab

/-- **The model's operation sequence for a pair `P` / `C` is `tensordot(tensordot(P, C), G)`**, whichever way
the pair was named, provided the contracted node's legs are a transposition of the raw `tensordot` legs (which
the two stage lemmas `contract_parentFirst` / `contract_childFirst` show). -/
theorem pair_loop_built {p c : Nat} {pp : Option Nat} {A B K : List Nat} (oP oC : Nat)
    {id1 id2 : Nat} {n1 n2 : MNode} {r : TwoSiteResult} (hr : twoSite id1 n1 id2 n2 = some r)
    (hcl : r.contr.legs.Perm (rawLegs p c pp A B K oP oC)) (TP TC G : Asg Leg → R) :
    Built r.absorbed.legs (gateExpr (mkNode p pp (A ++ c :: B) oP).legs (mkNode c (some p) K oC).legs
      [(Leg.nb c, Leg.nb p)] r.contr.nopen r.binds TP TC G) := by
  have hd : Built (rawLegs p c pp A B K oP oC)
      (Expr.dot (Expr.leaf (mkNode p pp (A ++ c :: B) oP).legs TP) (Expr.leaf (mkNode c (some p) K oC).legs TC)
        [(Leg.nb c, Leg.nb p)]) :=
    Built.dot (Built.fresh _ TP) (Built.fresh _ TC) (by simp) (by simp) (dataContraction oP oC)
  exact absorb_built G (Built.transpose hd hcl) (twoSite_stages hr).2

theorem contr_perm_parentFirst (p c : Nat) (pp : Option Nat) (A B K : List Nat) (oP oC : Nat) :
    (parentLegs pp ++ ((A ++ B).map Leg.nb ++ (K.map Leg.nb ++ (physL p oP ++ physL c oC)))).Perm
      (rawLegs p c pp A B K oP oC) := by
  unfold rawLegs
  rw [List.perm_iff_count]; intro a; simp only [List.count_append]; omega

theorem contr_perm_childFirst (p c : Nat) (pp : Option Nat) (A B K : List Nat) (oP oC : Nat) :
    (parentLegs pp ++ (K.map Leg.nb ++ ((A ++ B).map Leg.nb ++ (physL c oC ++ physL p oP)))).Perm
      (rawLegs p c pp A B K oP oC) := by
  unfold rawLegs
  rw [List.perm_iff_count]; intro a; simp only [List.count_append]; omega

section value
variable [CommSemiring R]

/-- the value of the program of one two-site gate, by definition of `eval` (and commutativity) -/
theorem gateExpr_eval (lP lC : List Leg) (bond : List (Leg × Leg)) (n : Nat) (gp : List (Leg × Leg))
    (TP TC G : Asg Leg → R) (dim : Leg → Nat) (σ : Asg Leg) :
    (gateExpr lP lC bond n gp TP TC G).eval dim σ =
      sumPairs dim gp (fun τ => G τ * sumPairs dim bond (fun ρ => TP ρ * TC ρ) τ) σ := by
  simp only [gateExpr, Expr.eval]
  exact sumPairs_congr dim gp (fun τ => mul_comm _ _) σ

theorem gateExpr1_eval (lT : List Leg) (n : Nat) (gp : List (Leg × Leg)) (T G : Asg Leg → R)
    (dim : Leg → Nat) (σ : Asg Leg) :
    (gateExpr1 lT n gp T G).eval dim σ = sumPairs dim gp (fun τ => G τ * T τ) σ := by
  simp only [gateExpr1, Expr.eval]
  exact sumPairs_congr dim gp (fun τ => mul_comm _ _) σ

/-! ### a whole step: contracts in which only the exact split is a hypothesis -/

/-- **Contract of `_apply_one_trotter_step` with the `tensordot` identities discharged**: the contracted and the
absorbed tensor ARE the values of the model's program (`gateExpr_eval`: `Σ_gp G · Σ_bond T₁·T₂`); the only
hypothesis about a library routine is the exact factorisation `hUV` of `split_node_svd`. -/
inductive LoopContract (dim : SLeg → Nat) (Gt : Asg SLeg → R) (gp : List (SLeg × SLeg)) :
    List Nat → (Asg SLeg → R) → (Asg SLeg → R) → Prop
  | skip (ψ : Asg SLeg → R) : LoopContract dim Gt gp [] ψ ψ
  | single (s : Nat) (bs : List (SLeg × SLeg)) (T : Asg SLeg → R) (rest : List (Asg SLeg → R))
      (S SG : SLeg → Prop)
      (hrest : ∀ f ∈ rest, DependsOn S f) (hgp : ∀ l ∈ Expr.pairLegs gp, ¬ S l)
      (hG : DependsOn SG Gt) (hdis : ∀ l ∈ Expr.pairLegs bs, ¬ SG l)
      (hnd : (Expr.pairLegs (bs ++ gp)).Nodup) :
      LoopContract dim Gt gp [s] (netValue dim bs (T :: rest))
        (netValue dim bs ((fun τ => sumPairs dim gp (fun ρ => Gt ρ * T ρ) τ) :: rest))
  | two (a b : Nat) (bs : List (SLeg × SLeg)) (T₁ T₂ U V : Asg SLeg → R) (rest : List (Asg SLeg → R))
      (b₁ b₂ q r : SLeg) (S SG : SLeg → Prop)
      (hUV : ∀ τ, sumPairs dim gp (fun ρ => Gt ρ * sumPairs dim [(b₁, b₂)] (fun ρ' => T₁ ρ' * T₂ ρ') ρ) τ =
        sumPairs dim [(q, r)] (fun ρ => U ρ * V ρ) τ)
      (hrest : ∀ f ∈ rest, DependsOn S f)
      (hq : ¬ S q) (hr : ¬ S r) (hb₁ : ¬ S b₁) (hb₂ : ¬ S b₂) (hgp : ∀ l ∈ Expr.pairLegs gp, ¬ S l)
      (hG : DependsOn SG Gt) (hdis : ∀ l ∈ Expr.pairLegs bs, ¬ SG l)
      (hnd : (Expr.pairLegs (bs ++ gp)).Nodup) :
      LoopContract dim Gt gp [a, b] (netValue dim (bs ++ [(b₁, b₂)]) (T₁ :: T₂ :: rest))
        (netValue dim (bs ++ [(q, r)]) (U :: V :: rest))

theorem LoopContract.toOp {dim : SLeg → Nat} {Gt : Asg SLeg → R} {gp : List (SLeg × SLeg)} {op : List Nat}
    {ψ ψ' : Asg SLeg → R} (h : LoopContract dim Gt gp op ψ ψ') : OpContract dim Gt gp op ψ ψ' := by
  cases h with
  | skip => exact OpContract.skip _
  | single s bs T rest S SG hrest hgp hG hdis hnd =>
    exact OpContract.single s bs T _ rest S SG (fun _ => rfl) hrest hgp hG hdis hnd
  | two a b bs T₁ T₂ U V rest b₁ b₂ q r S SG hUV hrest hq hr hb₁ hb₂ hgp hG hdis hnd =>
    exact OpContract.two a b bs T₁ T₂ (fun τ => sumPairs dim [(b₁, b₂)] (fun ρ' => T₁ ρ' * T₂ ρ') τ)
      (fun τ => sumPairs dim gp (fun ρ => Gt ρ * sumPairs dim [(b₁, b₂)] (fun ρ' => T₁ ρ' * T₂ ρ') ρ) τ)
      U V rest b₁ b₂ q r S SG (fun _ => rfl) (fun _ => rfl) hUV hrest hq hr hb₁ hb₂ hgp hG hdis hnd

/-- a run of `run_one_time_step` at value level in which only exact splits are assumed -/
inductive LoopChain (dim : SLeg → Nat) (G : Nat → Asg SLeg → R) :
    (Nat → GLeg) → Nat → List (List Nat) → (Asg SLeg → R) → (Asg SLeg → R) → Prop
  | nil (cur : Nat → GLeg) (g : Nat) (ψ : Asg SLeg → R) : LoopChain dim G cur g [] ψ ψ
  | cons (cur : Nat → GLeg) (g : Nat) (op : List Nat) (ops : List (List Nat)) (ψ ψ' ψ'' : Asg SLeg → R)
      (h1 : LoopContract dim (G g) (recPairs (specOp g (cur, []) 0 op).2) op ψ ψ')
      (h2 : LoopChain dim G (specOp g (cur, []) 0 op).1 (g + 1) ops ψ' ψ'') :
      LoopChain dim G cur g (op :: ops) ψ ψ''

theorem LoopChain.toStep {dim : SLeg → Nat} {G : Nat → Asg SLeg → R} {cur : Nat → GLeg} {g : Nat}
    {ops : List (List Nat)} {ψ ψ'' : Asg SLeg → R} (h : LoopChain dim G cur g ops ψ ψ'') :
    StepChain dim G cur g ops ψ ψ'' := by
  induction h with
  | nil cur g ψ => exact StepChain.nil cur g ψ
  | cons cur g op ops ψ ψ' ψ'' h1 _ ih => exact StepChain.cons cur g op ops ψ ψ' ψ'' h1.toOp ih

theorem loop_chain_value {dim : SLeg → Nat} {G : Nat → Asg SLeg → R} {cur : Nat → GLeg} {g : Nat}
    {ops : List (List Nat)} {ψ ψ'' : Asg SLeg → R} (h : LoopChain dim G cur g ops ψ ψ'') :
    ψ'' = actRun dim G cur g ops ψ :=
  chain_value h.toStep

/-- everything the provenance gives for one two-site gate, for either naming order -/
theorem pair_loop_core {p c : Nat} {pp : Option Nat} {A B K : List Nat} (h : PairOK p c pp A B K) (oP oC : Nat)
    {id1 id2 : Nat} {n1 n2 : MNode} {r : TwoSiteResult} (hr : twoSite id1 n1 id2 n2 = some r)
    (hcl : r.contr.legs.Perm (rawLegs p c pp A B K oP oC)) (TP TC G : Asg Leg → R) :
    Built r.absorbed.legs (gateExpr (mkNode p pp (A ++ c :: B) oP).legs (mkNode c (some p) K oC).legs
        [(Leg.nb c, Leg.nb p)] r.contr.nopen r.binds TP TC G) ∧
      (gateExpr (mkNode p pp (A ++ c :: B) oP).legs (mkNode c (some p) K oC).legs
        [(Leg.nb c, Leg.nb p)] r.contr.nopen r.binds TP TC G).labels.Nodup ∧
      r.absorbed.legs.Perm (gateExpr (mkNode p pp (A ++ c :: B) oP).legs (mkNode c (some p) K oC).legs
        [(Leg.nb c, Leg.nb p)] r.contr.nopen r.binds TP TC G).free ∧
      ((gateExpr (mkNode p pp (A ++ c :: B) oP).legs (mkNode c (some p) K oC).legs
        [(Leg.nb c, Leg.nb p)] r.contr.nopen r.binds TP TC G).LeavesLocal →
        (gateExpr (mkNode p pp (A ++ c :: B) oP).legs (mkNode c (some p) K oC).legs
          [(Leg.nb c, Leg.nb p)] r.contr.nopen r.binds TP TC G).SWF) ∧
      ∀ (dim : Leg → Nat) (σ : Asg Leg),
        (gateExpr (mkNode p pp (A ++ c :: B) oP).legs (mkNode c (some p) K oC).legs
          [(Leg.nb c, Leg.nb p)] r.contr.nopen r.binds TP TC G).eval dim σ =
        sumPairs dim r.binds (fun τ => G τ * sumPairs dim [(Leg.nb c, Leg.nb p)] (fun ρ => TP ρ * TC ρ) τ) σ := by
  have hb := pair_loop_built (R := R) oP oC hr hcl TP TC G
  have hnd : (gateExpr (mkNode p pp (A ++ c :: B) oP).legs (mkNode c (some p) K oC).legs
      [(Leg.nb c, Leg.nb p)] r.contr.nopen r.binds TP TC G).labels.Nodup := by
    simp only [gateExpr, Expr.labels]
    exact pair_labels_nodup h oP oC _
  exact ⟨hb, hnd, (hb.sound hnd).1, fun hloc => hb.swf hnd hloc, fun dim σ => gateExpr_eval _ _ _ _ _ _ _ _ dim σ⟩

/-- the exact-split-only contract of a two-site operator is satisfiable for every pair of tensors and every gate
(bond of dimension one) -/
theorem LoopContract.exists_two (dim : SLeg → Nat) (Gt : Asg SLeg → R) (gp : List (SLeg × SLeg)) (a b : Nat)
    (T₁ T₂ : Asg SLeg → R) (b₁ b₂ q r : SLeg) {S SG : SLeg → Prop}
    (hT₁ : DependsOn S T₁) (hT₂ : DependsOn S T₂) (hGS : DependsOn S Gt) (hq : ¬ S q) (hr : ¬ S r)
    (hd : dim q = 1) (hG : DependsOn SG Gt) (hnd : (Expr.pairLegs gp).Nodup) :
    LoopContract dim Gt gp [a, b] (netValue dim ([] ++ [(b₁, b₂)]) [T₁, T₂])
      (netValue dim ([] ++ [(q, r)])
        [fun τ => sumPairs dim gp (fun ρ => Gt ρ * sumPairs dim [(b₁, b₂)] (fun ρ' => T₁ ρ' * T₂ ρ') ρ) τ,
         fun _ => 1]) :=
  LoopContract.two a b [] T₁ T₂ _ _ [] b₁ b₂ q r (fun _ => False) SG
    (fun τ => trivial_split dim _ q r
      (dependsOn_contract dim gp hGS (dependsOn_contract dim [(b₁, b₂)] hT₁ hT₂)) hq hr hd τ)
    (by simp) id id id id (fun _ _ => id) hG (by simp [Expr.pairLegs]) (by simpa using hnd)

end value

end Ptn.C08
