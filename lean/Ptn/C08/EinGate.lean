import Ptn.Common.EinsumNet
/-! Value-level lemmas about gate applications on labelled tensor networks (generic in the label type `L`
and the commutative semiring `R`; helper file of `Ptn/C08/Value.lean`).

* `netValue_perm_leaves`     the network value does not depend on the order of the leaf tensors;
* `split_leaf_pairs_value`   `split_leaf_value` for a contraction over several pairs (`tensordot` over `k` axes);
* `apply_gate_value`         `apply_operator_value` for a gate with `k` input legs bound to `k` open legs;
* `absorb_gate_value`        `absorb_into_open_legs` on one node of a network applies the gate to the network;
* `gate_application_value`   contract two nodes, absorb a gate, split again by an exact factorisation:
                             the new network is the gate applied to the old one.
-/
namespace Ptn.Ein

open Finset

set_option linter.unusedSectionVars false
variable {L : Type} [DecidableEq L] {R : Type} [CommSemiring R]

theorem prodL_perm {xs ys : List R} (h : xs.Perm ys) : prodL xs = prodL ys := by
  induction h with
  | nil => rfl
  | cons x _ ih => simp only [prodL, ih]
  | swap x y l => simp only [prodL]; rw [← mul_assoc, ← mul_assoc, mul_comm y x]
  | trans _ _ ih1 ih2 => rw [ih1, ih2]

/-- the value of a flat network does not depend on the order in which its tensors are listed -/
theorem netValue_perm_leaves (dim : L → Nat) (binds : List (L × L)) {ls ls' : List (Asg L → R)}
    (h : ls.Perm ls') (σ : Asg L) : netValue dim binds ls σ = netValue dim binds ls' σ := by
  unfold netValue
  exact sumPairs_congr dim binds (fun τ => prodL_perm (h.map _)) σ

/-- **`tensordot` over several axes inside a network.**  If `A` is the contraction of `Q` and `Rm` over the
pairs `ps` and nothing else in the network reads the legs of `ps`, the network with `A` replaced by the two
factors and `ps` added to the binding record has the same value. -/
theorem split_leaf_pairs_value (dim : L → Nat) (binds ps : List (L × L)) (A Q Rm : Asg L → R)
    (rest : List (Asg L → R)) {S : L → Prop}
    (hA : ∀ τ, A τ = sumPairs dim ps (fun ρ => Q ρ * Rm ρ) τ)
    (hrest : ∀ f ∈ rest, DependsOn S f) (hps : ∀ l ∈ Expr.pairLegs ps, ¬ S l) (σ : Asg L) :
    netValue dim (binds ++ ps) (Q :: Rm :: rest) σ = netValue dim binds (A :: rest) σ := by
  unfold netValue
  rw [sumPairs_append]
  apply sumPairs_congr
  intro τ
  have hg := prodL_dependsOn rest hrest
  have := sumPairs_mul_right dim ps (fun ρ => Q ρ * Rm ρ) _ hg hps τ
  simp only [List.map_cons, prodL] at this ⊢
  rw [hA τ, ← this]
  exact sumPairs_congr dim _ (fun ρ => by rw [mul_assoc]) τ

/-- **Contracting a gate into `k` open legs multiplies the state vector by the gate.**  The network `ψ`
(leaf tensors `rest`, record `binds`) has the open legs `gp.map Prod.fst`; a gate tensor `G` is added and its
input legs `gp.map Prod.snd` are bound to them.  If the gate reads none of the legs bound inside `ψ` and no leg
is bound twice, the new network evaluates to `Σ_{gp} G · ψ`. -/
theorem apply_gate_value (dim : L → Nat) (binds gp : List (L × L)) (G : Asg L → R)
    (rest : List (Asg L → R)) {S : L → Prop}
    (hG : DependsOn S G) (hdis : ∀ l ∈ Expr.pairLegs binds, ¬ S l)
    (hnd : (Expr.pairLegs (binds ++ gp)).Nodup) (σ : Asg L) :
    netValue dim (binds ++ gp) (G :: rest) σ =
      sumPairs dim gp (fun τ => G τ * netValue dim binds rest τ) σ := by
  unfold netValue
  rw [sumPairs_perm dim (List.perm_append_comm) hnd, sumPairs_append]
  apply sumPairs_congr
  intro τ
  simp only [List.map_cons, prodL]
  exact sumPairs_mul_left dim binds _ G hG hdis τ

/-- **`absorb_into_open_legs` applies the gate to the whole network.**  `T` is one tensor of the network
(record `binds`, other tensors `rest`); `A` is `T` with the gate contracted into its open legs (`hA`, the
definition of `tensordot`).  If the rest of the network reads none of the legs of `gp`, the gate reads none
of the bound legs and no leg is bound twice, then the network with `A` in the place of `T` evaluates to
`Σ_{gp} G · ψ`, `ψ` the value of the old network. -/
theorem absorb_gate_value (dim : L → Nat) (binds gp : List (L × L)) (G T A : Asg L → R)
    (rest : List (Asg L → R)) {S SG : L → Prop}
    (hA : ∀ τ, A τ = sumPairs dim gp (fun ρ => G ρ * T ρ) τ)
    (hrest : ∀ f ∈ rest, DependsOn S f) (hgp : ∀ l ∈ Expr.pairLegs gp, ¬ S l)
    (hG : DependsOn SG G) (hdis : ∀ l ∈ Expr.pairLegs binds, ¬ SG l)
    (hnd : (Expr.pairLegs (binds ++ gp)).Nodup) (σ : Asg L) :
    netValue dim binds (A :: rest) σ =
      sumPairs dim gp (fun τ => G τ * netValue dim binds (T :: rest) τ) σ := by
  rw [← split_leaf_pairs_value dim binds gp A G T rest hA hrest hgp σ]
  exact apply_gate_value dim binds gp G (T :: rest) hG hdis hnd σ

/-- **One two-site gate application (value level).**  The network consists of the tensors `T₁, T₂` joined
by the bond `(b₁, b₂)`, further tensors `rest` and further bonds `bs`.  GIVEN

* `hC`  `C = Σ_{(b₁,b₂)} T₁·T₂`            (what `contract_nodes` computes: one `tensordot`),
* `hA`  `A = Σ_{gp} G·C`                    (what `absorb_into_open_legs` computes: one `tensordot`),
* `hUV` `A = Σ_{(q,r)} U·V`                 (the contract of `split_node_svd` with truncation disabled:
                                             an exact factorisation over a new bond),

and the side conditions that make the labelled network well formed (the rest of the network reads neither
the old nor the new bond nor the legs of `gp`; the gate reads no other bond; no leg of `bs`, `gp` is bound twice), the network in
which `T₁, T₂` are replaced by `U, V` and the bond by `(q, r)` has, for every assignment of the open legs,
the value `Σ_{gp} G · ψ` where `ψ` is the value of the old network. -/
theorem gate_application_value (dim : L → Nat) (bs gp : List (L × L)) (G T₁ T₂ C A U V : Asg L → R)
    (rest : List (Asg L → R)) (b₁ b₂ q r : L) {S SG : L → Prop}
    (hC : ∀ τ, C τ = sumPairs dim [(b₁, b₂)] (fun ρ => T₁ ρ * T₂ ρ) τ)
    (hA : ∀ τ, A τ = sumPairs dim gp (fun ρ => G ρ * C ρ) τ)
    (hUV : ∀ τ, A τ = sumPairs dim [(q, r)] (fun ρ => U ρ * V ρ) τ)
    (hrest : ∀ f ∈ rest, DependsOn S f)
    (hq : ¬ S q) (hr : ¬ S r) (hb₁ : ¬ S b₁) (hb₂ : ¬ S b₂) (hgp : ∀ l ∈ Expr.pairLegs gp, ¬ S l)
    (hG : DependsOn SG G) (hdis : ∀ l ∈ Expr.pairLegs bs, ¬ SG l)
    (hnd : (Expr.pairLegs (bs ++ gp)).Nodup) (σ : Asg L) :
    netValue dim (bs ++ [(q, r)]) (U :: V :: rest) σ =
      sumPairs dim gp (fun τ => G τ * netValue dim (bs ++ [(b₁, b₂)]) (T₁ :: T₂ :: rest) τ) σ := by
  -- the exact split does not change the network
  rw [split_leaf_value dim bs A U V rest q r hUV hrest hq hr σ]
  -- `A` is the gate absorbed into `C`
  rw [absorb_gate_value dim bs gp G C A rest hA hrest hgp hG hdis hnd σ]
  -- `C` is the contraction of the two nodes: inside the sum over `gp`
  apply sumPairs_congr
  intro τ
  congr 1
  exact (split_leaf_value dim bs C T₁ T₂ rest b₁ b₂ hC hrest hb₁ hb₂ τ).symm

/-! ### an exact factorisation that always exists (used by the non-vacuity examples): bond dimension one -/

/-- every tensor that does not read the two new bond legs factorises exactly over a bond of dimension one -/
theorem trivial_split (dim : L → Nat) (A : Asg L → R) (q r : L) {S : L → Prop} (hA : DependsOn S A)
    (hq : ¬ S q) (hr : ¬ S r) (hd : dim q = 1) (τ : Asg L) :
    A τ = sumPairs dim [(q, r)] (fun ρ => A ρ * (fun _ => (1 : R)) ρ) τ := by
  simp only [sumPairs, sumR_eq, hd, Finset.sum_range_one, mul_one]
  apply hA
  intro l hl
  have h1 : l ≠ q := fun e => hq (e ▸ hl)
  have h2 : l ≠ r := fun e => hr (e ▸ hl)
  simp [upd, h1, h2]

/-- a contraction of two tensors reads at most what they read -/
theorem dependsOn_contract (dim : L → Nat) (ps : List (L × L)) {S : L → Prop} {f g : Asg L → R}
    (hf : DependsOn S f) (hg : DependsOn S g) : DependsOn S (fun τ => sumPairs dim ps (fun ρ => f ρ * g ρ) τ) :=
  (sumPairs_dependsOn dim ps (hf.mul hg)).mono (fun _ hl => hl.1)

end Ptn.Ein
