import Ptn.Common.EinsumRename
import Ptn.C08.LoopValue
/-! Value level for C08, one label space (helper file of `Props.lean`, section "global").

`two_site_gate_loop_value` speaks about the program of the local model in the local labels `Leg` and about the
network in the global labels `VLeg`.  Here the two are joined by the relabelling theorem
(`Ptn/Common/EinsumRename.lean`): `pairGlob p c K` is the injection `Leg → VLeg` the tree-level picture uses
(`glob p` on the legs of `P`, `glob c` on the legs of `C`, gate and physical legs shared), the renamed program
`E.rn_map (pairGlob p c K)` IS the explicit program in global labels over the pairs `gatePairs r.binds` and the
bond `(glob p (nb c), glob c (nb p))`, and its value is the tensor the network-level statement splits. -/
namespace Ptn.C08

open Ptn.Ein

/-- the injection of the local labels of the program of the pair `P = p`, `C = c` (children of `C`: `K`) into
the global labels: a virtual leg toward `p` or toward a child of `c` is a leg of `C`, every other virtual leg a
leg of `P`; physical and gate legs are shared (the local `bond` label, which no program before the split carries,
is sent to the unused `shared bond`, away from the new bond legs `glob n bond` of the network) -/
def pairGlob (p c : Nat) (K : List Nat) : Leg → VLeg
  | .nb x => if x = p ∨ x ∈ K then .own c (.nb x) else .own p (.nb x)
  | l => .shared l

/-- forget the owner -/
def unglob : VLeg → Leg
  | .own _ l => l
  | .shared l => l

theorem unglob_pairGlob (p c : Nat) (K : List Nat) (l : Leg) : unglob (pairGlob p c K l) = l := by
  cases l with
  | nb x => simp only [pairGlob]; split <;> rfl
  | _ => rfl

theorem pairGlob_injective (p c : Nat) (K : List Nat) : Function.Injective (pairGlob p c K) := by
  intro a b h
  have := congrArg unglob h
  rwa [unglob_pairGlob, unglob_pairGlob] at this

theorem unglob_glob (n : Nat) (l : Leg) : unglob (glob n l) = l := by cases l <;> rfl

theorem glob_injective (n : Nat) : Function.Injective (glob n) := by
  intro a b h
  have := congrArg unglob h
  rwa [unglob_glob, unglob_glob] at this

theorem PairOK.sep {p c : Nat} {pp : Option Nat} {A B K : List Nat} (h : PairOK p c pp A B K) :
    ∀ x, x ∈ pp.toList ++ (A ++ c :: B) → x ≠ p ∧ x ∉ K := by
  unfold PairOK at h
  intro x hx
  simp only [List.nodup_append, List.nodup_cons, List.mem_append, List.mem_cons] at h hx
  grind

theorem mem_mkNode_nb {id : Nat} {par : Option Nat} {ch : List Nat} {o x : Nat}
    (h : Leg.nb x ∈ (mkNode id par ch o).legs) : x ∈ par.toList ++ ch := by
  cases par <;> simp [mkNode, parentLegs, physL] at h ⊢ <;> exact h

theorem bond_notin_mkNode (id : Nat) (par : Option Nat) (ch : List Nat) (o : Nat) :
    Leg.bond ∉ (mkNode id par ch o).legs := by
  cases par <;> simp [mkNode, parentLegs, physL]

/-- on the legs of `P` the injection is `glob p` -/
theorem pairGlob_map_P {p c : Nat} {pp : Option Nat} {A B K : List Nat} (h : PairOK p c pp A B K) (oP : Nat) :
    (mkNode p pp (A ++ c :: B) oP).legs.map (pairGlob p c K) = (mkNode p pp (A ++ c :: B) oP).legs.map (glob p) := by
  apply List.map_congr_left
  intro l hl
  cases l with
  | nb x =>
    have := h.sep x (mem_mkNode_nb hl)
    simp [pairGlob, glob, this.1, this.2]
  | bond => exact absurd hl (bond_notin_mkNode _ _ _ _)
  | _ => rfl

/-- on the legs of `C` the injection is `glob c` -/
theorem pairGlob_map_C (p c : Nat) (K : List Nat) (oC : Nat) :
    (mkNode c (some p) K oC).legs.map (pairGlob p c K) = (mkNode c (some p) K oC).legs.map (glob c) := by
  apply List.map_congr_left
  intro l hl
  cases l with
  | nb x =>
    have := mem_mkNode_nb hl
    simp only [Option.toList, List.cons_append, List.nil_append, List.mem_cons] at this
    simp [pairGlob, glob, this]
  | bond => exact absurd hl (bond_notin_mkNode _ _ _ _)
  | _ => rfl

theorem pairGlob_map_gate (p c : Nat) (K : List Nat) (n : Nat) :
    (gateLegs n).map (pairGlob p c K) = (gateLegs n).map VLeg.shared := by
  apply List.map_congr_left
  intro l hl
  simp only [gateLegs, List.mem_append, List.mem_map] at hl
  rcases hl with ⟨k, _, rfl⟩ | ⟨k, _, rfl⟩ <;> rfl

theorem pairGlob_bondP {p c : Nat} {pp : Option Nat} {A B K : List Nat} (h : PairOK p c pp A B K) :
    pairGlob p c K (Leg.nb c) = glob p (Leg.nb c) := by
  have := h.sep c (by simp)
  simp [pairGlob, glob, this.1, this.2]

theorem pairGlob_bondC (p c : Nat) (K : List Nat) : pairGlob p c K (Leg.nb p) = glob c (Leg.nb p) := by
  simp [pairGlob, glob]

/-- pairs of physical legs with gate inputs are renamed to `gatePairs` -/
theorem pairGlob_gatePairs (p c : Nat) (K : List Nat) (xs : List Leg) (n : Nat)
    (hxs : ∀ l ∈ xs, ∃ a k, l = Leg.phys a k) :
    rn_pairs (pairGlob p c K) (xs.zip ((List.range n).map Leg.gin)) =
      gatePairs (xs.zip ((List.range n).map Leg.gin)) := by
  unfold rn_pairs gatePairs
  apply List.map_congr_left
  intro b hb
  have h1 := (List.of_mem_zip hb).1
  have h2 := (List.of_mem_zip hb).2
  obtain ⟨a, k, e1⟩ := hxs _ h1
  obtain ⟨j, _, e2⟩ := List.mem_map.1 h2
  obtain ⟨b1, b2⟩ := b
  simp only at e1 e2
  subst e1; subst e2
  rfl

theorem physL_phys (a o : Nat) : ∀ l ∈ physL a o, ∃ a' k, l = Leg.phys a' k := by
  intro l hl
  simp only [physL, List.mem_map] at hl
  obtain ⟨k, _, rfl⟩ := hl
  exact ⟨a, k, rfl⟩

theorem physL2_phys (a o a' o' : Nat) : ∀ l ∈ physL a o ++ physL a' o', ∃ x k, l = Leg.phys x k := by
  intro l hl
  rcases List.mem_append.1 hl with h | h
  · exact physL_phys a o l h
  · exact physL_phys a' o' l h

theorem gateLegs_gateReads (p c : Nat) (K : List Nat) (n : Nat) :
    ∀ l, l ∈ gateLegs n → GateReads (pairGlob p c K l) := by
  intro l hl
  simp only [gateLegs, List.mem_append, List.mem_map] at hl
  rcases hl with ⟨k, _, rfl⟩ | ⟨k, _, rfl⟩ <;> exact trivial

variable {R : Type} [CommSemiring R]

/-- **What the relabelling gives for one two-site gate** (naming order `(x, y)`, result `r` of the model):
for ALL values `TP`, `TC`, `G` of the three tensors in the local labels, with `E` the program of the local model
and `f = pairGlob p c K`,

1. `E` builds the absorbed node's legs (provenance, `Built`);
2. the renamed program `E.rn_map f` IS the program in global labels over the legs `glob p` of `P`, `glob c` of
   `C`, the shared gate legs, the bond `(glob p (nb c), glob c (nb p))` and the pairs `gatePairs r.binds` -
   exactly the labels and pairs of the network-level statement; its binding record is those pairs;
3. its labels are pairwise distinct, its free legs are the absorbed node's legs (renamed), and it is strongly
   well-formed when the three tensors read only their own legs;
4. its value at `σ'` is the local value at `σ' ∘ f` (relabelling theorem) and is `Σ_gp G'·Σ_bond TP'·TC'` with
   the pulled tensors;
5. network level, in the SAME labels: if the value of the renamed program factorises exactly over the new bond
   into `U`, `V` (contract of `split_node_svd`, truncation disabled), the rest of the network reads neither bond
   nor the legs bound to the gate and the gate tensor reads only its own legs, then the network with `U`, `V` in
   the place of the leaves `TP'`, `TC'` of the renamed program has the value `Σ_in G'[out; in] · ψ[…, in, …]`. -/
def PairGlobalClause (R : Type) [CommSemiring R] (p c : Nat) (pp : Option Nat) (A B K : List Nat) (oP oC : Nat)
    (x y : Nat) (r : TwoSiteResult) : Prop :=
  ∀ (TP TC G : Asg Leg → R),
    Built r.absorbed.legs (gateExpr (mkNode p pp (A ++ c :: B) oP).legs (mkNode c (some p) K oC).legs
      [(Leg.nb c, Leg.nb p)] r.contr.nopen r.binds TP TC G) ∧
    ((gateExpr (mkNode p pp (A ++ c :: B) oP).legs (mkNode c (some p) K oC).legs
        [(Leg.nb c, Leg.nb p)] r.contr.nopen r.binds TP TC G).rn_map (pairGlob p c K) =
      Expr.dot (Expr.dot
          (Expr.leaf ((mkNode p pp (A ++ c :: B) oP).legs.map (glob p)) (rn_pull (pairGlob p c K) TP))
          (Expr.leaf ((mkNode c (some p) K oC).legs.map (glob c)) (rn_pull (pairGlob p c K) TC))
          [(glob p (Leg.nb c), glob c (Leg.nb p))])
        (Expr.leaf ((gateLegs r.contr.nopen).map VLeg.shared) (rn_pull (pairGlob p c K) G))
        (gatePairs r.binds)) ∧
    ((gateExpr (mkNode p pp (A ++ c :: B) oP).legs (mkNode c (some p) K oC).legs
        [(Leg.nb c, Leg.nb p)] r.contr.nopen r.binds TP TC G).rn_map (pairGlob p c K)).binds =
      gatePairs r.binds ++ [(glob p (Leg.nb c), glob c (Leg.nb p))] ∧
    ((gateExpr (mkNode p pp (A ++ c :: B) oP).legs (mkNode c (some p) K oC).legs
        [(Leg.nb c, Leg.nb p)] r.contr.nopen r.binds TP TC G).rn_map (pairGlob p c K)).labels.Nodup ∧
    (r.absorbed.legs.map (pairGlob p c K)).Perm
      ((gateExpr (mkNode p pp (A ++ c :: B) oP).legs (mkNode c (some p) K oC).legs
        [(Leg.nb c, Leg.nb p)] r.contr.nopen r.binds TP TC G).rn_map (pairGlob p c K)).free ∧
    ((gateExpr (mkNode p pp (A ++ c :: B) oP).legs (mkNode c (some p) K oC).legs
        [(Leg.nb c, Leg.nb p)] r.contr.nopen r.binds TP TC G).LeavesLocal →
      ((gateExpr (mkNode p pp (A ++ c :: B) oP).legs (mkNode c (some p) K oC).legs
        [(Leg.nb c, Leg.nb p)] r.contr.nopen r.binds TP TC G).rn_map (pairGlob p c K)).SWF) ∧
    ∀ (dim : VLeg → Nat),
      (∀ σ, ((gateExpr (mkNode p pp (A ++ c :: B) oP).legs (mkNode c (some p) K oC).legs
          [(Leg.nb c, Leg.nb p)] r.contr.nopen r.binds TP TC G).rn_map (pairGlob p c K)).eval dim σ =
        (gateExpr (mkNode p pp (A ++ c :: B) oP).legs (mkNode c (some p) K oC).legs
          [(Leg.nb c, Leg.nb p)] r.contr.nopen r.binds TP TC G).eval (fun l => dim (pairGlob p c K l))
          (fun l => σ (pairGlob p c K l))) ∧
      (∀ σ, ((gateExpr (mkNode p pp (A ++ c :: B) oP).legs (mkNode c (some p) K oC).legs
          [(Leg.nb c, Leg.nb p)] r.contr.nopen r.binds TP TC G).rn_map (pairGlob p c K)).eval dim σ =
        sumPairs dim (gatePairs r.binds) (fun τ => rn_pull (pairGlob p c K) G τ *
          sumPairs dim [(glob p (Leg.nb c), glob c (Leg.nb p))]
            (fun ρ => rn_pull (pairGlob p c K) TP ρ * rn_pull (pairGlob p c K) TC ρ) τ) σ) ∧
      ∀ (bs : List (VLeg × VLeg)) (U V : Asg VLeg → R) (rest : List (Asg VLeg → R)),
        (Expr.pairLegs bs).Nodup → (∀ l ∈ Expr.pairLegs bs, l.isOwn) →
        (∀ τ, ((gateExpr (mkNode p pp (A ++ c :: B) oP).legs (mkNode c (some p) K oC).legs
            [(Leg.nb c, Leg.nb p)] r.contr.nopen r.binds TP TC G).rn_map (pairGlob p c K)).eval dim τ =
          sumPairs dim [(glob x Leg.bond, glob y Leg.bond)] (fun ρ => U ρ * V ρ) τ) →
        (∀ f ∈ rest, DependsOn (EnvReads (glob p (Leg.nb c)) (glob c (Leg.nb p)) (glob x Leg.bond)
          (glob y Leg.bond) (gatePairs r.binds)) f) →
        DependsOn (· ∈ gateLegs r.contr.nopen) G →
        ∀ σ, netValue dim (bs ++ [(glob x Leg.bond, glob y Leg.bond)]) (U :: V :: rest) σ =
          sumPairs dim (gatePairs r.binds) (fun τ => rn_pull (pairGlob p c K) G τ *
            netValue dim (bs ++ [(glob p (Leg.nb c), glob c (Leg.nb p))])
              (rn_pull (pairGlob p c K) TP :: rn_pull (pairGlob p c K) TC :: rest) τ) σ

theorem pair_global_core {p c : Nat} {pp : Option Nat} {A B K : List Nat} (h : PairOK p c pp A B K) (oP oC : Nat)
    {id1 id2 : Nat} {n1 n2 : MNode} {r : TwoSiteResult} (hr : twoSite id1 n1 id2 n2 = some r)
    (hcl : r.contr.legs.Perm (rawLegs p c pp A B K oP oC)) (x y : Nat)
    (hgp : rn_pairs (pairGlob p c K) r.binds = gatePairs r.binds)
    (hgp1 : (Expr.pairLegs (gatePairs r.binds)).Nodup) :
    PairGlobalClause R p c pp A B K oP oC x y r := by
  intro TP TC G
  obtain ⟨hb, hnd, hfree, hswf, _⟩ := pair_loop_core (R := R) h oP oC hr hcl TP TC G
  have hinj := pairGlob_injective p c K
  have hexp : (gateExpr (mkNode p pp (A ++ c :: B) oP).legs (mkNode c (some p) K oC).legs
        [(Leg.nb c, Leg.nb p)] r.contr.nopen r.binds TP TC G).rn_map (pairGlob p c K) =
      Expr.dot (Expr.dot
          (Expr.leaf ((mkNode p pp (A ++ c :: B) oP).legs.map (glob p)) (rn_pull (pairGlob p c K) TP))
          (Expr.leaf ((mkNode c (some p) K oC).legs.map (glob c)) (rn_pull (pairGlob p c K) TC))
          [(glob p (Leg.nb c), glob c (Leg.nb p))])
        (Expr.leaf ((gateLegs r.contr.nopen).map VLeg.shared) (rn_pull (pairGlob p c K) G))
        (gatePairs r.binds) := by
    simp only [gateExpr, Expr.rn_map, hgp, pairGlob_map_P h, pairGlob_map_C, pairGlob_map_gate]
    simp only [rn_pairs, List.map_cons, List.map_nil, pairGlob_bondP h, pairGlob_bondC]
  have hval : ∀ (dim : VLeg → Nat) (σ : Asg VLeg),
      ((gateExpr (mkNode p pp (A ++ c :: B) oP).legs (mkNode c (some p) K oC).legs
          [(Leg.nb c, Leg.nb p)] r.contr.nopen r.binds TP TC G).rn_map (pairGlob p c K)).eval dim σ =
        sumPairs dim (gatePairs r.binds) (fun τ => rn_pull (pairGlob p c K) G τ *
          sumPairs dim [(glob p (Leg.nb c), glob c (Leg.nb p))]
            (fun ρ => rn_pull (pairGlob p c K) TP ρ * rn_pull (pairGlob p c K) TC ρ) τ) σ := by
    intro dim σ
    rw [hexp]
    simp only [Expr.eval]
    exact sumPairs_congr dim _ (fun τ => mul_comm _ _) σ
  refine ⟨hb, hexp, ?_, ?_, ?_, ?_, ?_⟩
  · rw [hexp]; simp [Expr.binds]
  · rw [Expr.rn_labels_map]; exact hnd.map hinj
  · rw [Expr.rn_free_map _ hinj]; exact hfree.map _
  · intro hloc; exact Expr.rn_swf_map _ hinj _ (hswf hloc)
  · intro dim
    refine ⟨fun σ => Expr.rn_eval_map _ hinj _ dim (fun _ => rfl) _ σ, hval dim, ?_⟩
    intro bs U V rest hbs1 hbs2 hUV hrest hG σ
    exact two_site_value_core dim p c x y _ hgp1 (gatePairs_not_own _) bs _ _ _ _ _ U V rest hbs1 hbs2
      (fun _ => rfl) (fun _ => rfl) (fun τ => by rw [← hUV τ, hval dim τ])
      hrest (rn_pull_dependsOn _ (gateLegs_gateReads p c K _) hG) σ

theorem pairGlob_ne_bond (p c : Nat) (K : List Nat) (n : Nat) (l : Leg) : pairGlob p c K l ≠ glob n Leg.bond := by
  cases l with
  | nb x => simp only [pairGlob]; split <;> (intro e; cases e)
  | _ => intro e; cases e

/-- the exact-split hypothesis of `PairGlobalClause` is satisfiable for every program `e` renamed by `pairGlob`
(new bond of dimension one): the value of a renamed program reads only renamed labels, never a new bond leg -/
theorem pairGlob_split_exists (p c : Nat) (K : List Nat) (e : Expr Leg R) (dim : VLeg → Nat) (x y : Nat)
    (hd : dim (glob x Leg.bond) = 1) :
    ∃ U V : Asg VLeg → R, ∀ τ, (e.rn_map (pairGlob p c K)).eval dim τ =
      sumPairs dim [(glob x Leg.bond, glob y Leg.bond)] (fun ρ => U ρ * V ρ) τ := by
  refine ⟨(e.rn_map (pairGlob p c K)).eval dim, fun _ => 1, fun τ => ?_⟩
  have hdep : DependsOn (fun l' => ∃ l, pairGlob p c K l = l') ((e.rn_map (pairGlob p c K)).eval dim) := by
    rw [Expr.rn_eval_pull _ (pairGlob_injective p c K) (fun l => dim (pairGlob p c K l)) dim (fun _ => rfl)]
    exact rn_pull_dependsOn (S := fun _ => True) _ (fun l _ => ⟨l, rfl⟩)
      (fun σ τ hst => by rw [show σ = τ from funext (fun l => hst l trivial)])
  exact trivial_split dim _ _ _ hdep (fun ⟨l, e⟩ => pairGlob_ne_bond p c K x l e)
    (fun ⟨l, e⟩ => pairGlob_ne_bond p c K y l e) hd τ

omit [CommSemiring R] in
/-- every tensor in the global labels that reads only renamed legs of the pair's program is the pull of a tensor
in the local labels: "for all local `TP`, `TC`, `G`" covers all global tensors on those legs -/
theorem pairGlob_pull_surj (p c : Nat) (K : List Nat) (legs : List Leg) (T' : Asg VLeg → R)
    (hT : DependsOn (· ∈ legs.map (pairGlob p c K)) T') :
    rn_pull (pairGlob p c K) (fun σ => T' (fun l' => σ (unglob l'))) = T' :=
  rn_pull_surj (pairGlob p c K) unglob (unglob_pairGlob p c K)
    (fun l' hl' => by obtain ⟨l, _, e⟩ := List.mem_map.1 hl'; exact ⟨l, e⟩) T' hT

end Ptn.C08
