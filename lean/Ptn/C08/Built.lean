import Ptn.Common.EinsumBuilt
import Ptn.C08.Stages
/-! Provenance for the C08 leg model: the leg lists that the model functions (`contractNodes`,
`absorbIntoOpenLegs`, …) compute are BUILT by `tensordot` calls from fresh tensors (the node tensors and the
gate tensor), and the expression recording the calls is a strongly well-formed value-level program.

`Built l e`: the leg list `l` of the leg model was obtained from fresh tensors by the nesting of `tensordot`
calls (`Ptn.C08.tensordot`, the model of `numpy.tensordot` on label lists) that `e` records, and any
transpositions (all the `pop` / `insert` bookkeeping of `Node` is a transposition).  `Built.sound`: with pairwise
distinct leaf labels, `l` is the list of free legs of `e` (up to order) and every pair of every call joins a free
leg of the left operand with one of the right operand; `Built.swf`: with local leaves `e` is strongly
well-formed.  The analogue of `Ptn/C04/Built.lean` over the C08 label type (the C08 model keeps leg lists and
returns the pairs of each `tensordot` instead of carrying a record in the tensor). -/
namespace Ptn.C08

open Ptn.Ein

/-! ### `pick` and `removeIdxs` on lists without repetition -/

theorem pick_length' (l : List Leg) : ∀ (is : List Nat) (xs : List Leg), pick l is = some xs → xs.length = is.length
  | [], xs, h => by simp [pick] at h; subst h; rfl
  | i :: is, xs, h => by
    simp only [pick] at h
    split at h
    · rename_i v vs _ hvs
      simp only [Option.some.injEq] at h
      subst h
      simp [pick_length' l is vs hvs]
    · simp at h

theorem mem_pick_iff (l : List Leg) (x : Leg) : ∀ (is : List Nat) (xs : List Leg), pick l is = some xs →
    (x ∈ xs ↔ ∃ i ∈ is, l[i]? = some x)
  | [], xs, h => by simp [pick] at h; subst h; simp
  | i :: is, xs, h => by
    simp only [pick] at h
    split at h
    · rename_i v vs hv hvs
      simp only [Option.some.injEq] at h
      subst h
      have ih := mem_pick_iff l x is vs hvs
      simp only [List.mem_cons, ih, exists_eq_or_imp, hv, Option.some.injEq]
      constructor
      · rintro (h | h)
        · exact Or.inl h.symm
        · exact Or.inr h
      · rintro (h | h)
        · exact Or.inl h.symm
        · exact Or.inr h
    · simp at h

theorem pick_sub (l : List Leg) (is : List Nat) (xs : List Leg) (h : pick l is = some xs) :
    ∀ x ∈ xs, x ∈ l := by
  intro x hx
  obtain ⟨i, _, hi⟩ := (mem_pick_iff l x is xs h).1 hx
  exact List.mem_of_getElem? hi

theorem pick_nodup (l : List Leg) (hl : l.Nodup) : ∀ (is : List Nat) (xs : List Leg), is.Nodup →
    pick l is = some xs → xs.Nodup
  | [], xs, _, h => by simp [pick] at h; subst h; simp
  | i :: is, xs, hnd, h => by
    simp only [pick] at h
    split at h
    · rename_i v vs hv hvs
      simp only [Option.some.injEq] at h
      subst h
      rw [List.nodup_cons] at hnd ⊢
      refine ⟨?_, pick_nodup l hl is vs hnd.2 hvs⟩
      intro hmem
      obtain ⟨j, hj, hjv⟩ := (mem_pick_iff l v is vs hvs).1 hmem
      have hi : i < l.length := by
        rcases Nat.lt_or_ge i l.length with h | h
        · exact h
        · rw [List.getElem?_eq_none h] at hv; simp at hv
      have : i = j := (List.getElem?_inj hi hl).1 (hv.trans hjv.symm)
      exact hnd.1 (this ▸ hj)
    · simp at h

/-- on a list without repetition removing the picked POSITIONS is removing the picked LABELS -/
theorem removeIdxs_eq_filter (l : List Leg) (hl : l.Nodup) (is : List Nat) (xs : List Leg)
    (h : pick l is = some xs) : removeIdxs is 0 l = l.filter (fun x => !xs.contains x) := by
  have key : ∀ (suf : List Leg) (k : Nat), (∀ j, j < suf.length → l[k + j]? = suf[j]?) →
      removeIdxs is k suf = suf.filter (fun x => !xs.contains x) := by
    intro suf
    induction suf with
    | nil => intro k _; rfl
    | cons x rest ih =>
      intro k hk
      have hx : l[k]? = some x := by simpa using hk 0 (by simp)
      have hrest := ih (k + 1) (fun j hj => by
        have := hk (j + 1) (by simpa using hj)
        simpa [Nat.add_assoc, Nat.add_comm 1 j] using this)
      have hiff : k ∈ is ↔ x ∈ xs := by
        rw [mem_pick_iff l x is xs h]
        constructor
        · intro hk'; exact ⟨k, hk', hx⟩
        · rintro ⟨i, hi, hix⟩
          have hkl : k < l.length := by
            rcases Nat.lt_or_ge k l.length with h | h
            · exact h
            · rw [List.getElem?_eq_none h] at hx; simp at hx
          have : k = i := (List.getElem?_inj hkl hl).1 (hx.trans hix.symm)
          exact this ▸ hi
      simp only [removeIdxs, List.filter_cons, hrest]
      by_cases hc : x ∈ xs
      · simp [hiff.2 hc, hc]
      · have : k ∉ is := fun hh => hc (hiff.1 hh)
        simp [this, hc]
  exact key l 0 (fun j _ => by simp)

theorem tensordot_some {la lb lc : List Leg} {axa axb : List Nat} {ps : List (Leg × Leg)}
    (h : tensordot la lb axa axb = some (lc, ps)) :
    axa.length = axb.length ∧ ∃ xa xb, pick la axa = some xa ∧ pick lb axb = some xb ∧
      lc = removeIdxs axa 0 la ++ removeIdxs axb 0 lb ∧ ps = xa.zip xb := by
  unfold tensordot at h
  split at h
  · simp at h
  · rename_i hlen
    split at h
    · rename_i xa xb hxa hxb
      simp only [Option.some.injEq, Prod.mk.injEq] at h
      exact ⟨by simpa using hlen, xa, xb, hxa, hxb, h.1.symm, h.2.symm⟩
    · simp at h

/-! ### built leg lists -/

variable {R : Type}

/-- `Built l e`: the leg list `l` of the model is the result of the nesting of `tensordot` calls `e` -/
inductive Built : List Leg → Expr Leg R → Prop
  /-- a fresh tensor (a node tensor, a gate tensor) is a leaf with any values -/
  | fresh (legs : List Leg) (v : Asg Leg → R) : Built legs (Expr.leaf legs v)
  /-- a successful `tensordot` (no axis named twice) of two built tensors: the remaining legs and the pairs are
  those the model function returns -/
  | dot {la lb lc : List Leg} {ea eb : Expr Leg R} {axa axb : List Nat} {ps : List (Leg × Leg)} :
      Built la ea → Built lb eb → axa.Nodup → axb.Nodup → tensordot la lb axa axb = some (lc, ps) →
      Built lc (Expr.dot ea eb ps)
  /-- a transposition of the legs keeps the expression -/
  | transpose {l l' : List Leg} {e : Expr Leg R} : Built l e → l'.Perm l → Built l' e

section sound
variable [CommSemiring R]

/-- **What a built leg list records.**  If the labels of the leaves are pairwise distinct then the legs are the
free legs of the expression and all pairs are admissible. -/
theorem Built.sound {l : List Leg} {e : Expr Leg R} (h : Built l e) (hnd : e.labels.Nodup) :
    l.Perm e.free ∧ e.PairsOK := by
  induction h with
  | fresh legs v => exact ⟨List.Perm.refl _, trivial⟩
  | @dot la lb lc ea eb axa axb ps _ _ hia hib htd iha ihb =>
    simp only [Expr.labels, List.nodup_append] at hnd
    obtain ⟨hfa, hpa⟩ := iha hnd.1
    obtain ⟨hfb, hpb⟩ := ihb hnd.2.1
    obtain ⟨hlen, xa, xb, hxa, hxb, hc, hps⟩ := tensordot_some htd
    subst hc; subst hps
    have hna : la.Nodup := hfa.nodup_iff.2 (Expr.free_nodup ea hnd.1)
    have hnb : lb.Nodup := hfb.nodup_iff.2 (Expr.free_nodup eb hnd.2.1)
    have hl : xa.length = xb.length := by
      rw [pick_length' _ _ _ hxa, pick_length' _ _ _ hxb, hlen]
    have hfst : (xa.zip xb).map Prod.fst = xa := List.map_fst_zip (Nat.le_of_eq hl)
    have hsnd : (xa.zip xb).map Prod.snd = xb := List.map_snd_zip (Nat.le_of_eq hl.symm)
    refine ⟨?_, hpa, hpb, ?_, ?_, ?_⟩
    · simp only [Expr.free, hfst, hsnd]
      rw [removeIdxs_eq_filter _ hna _ _ hxa, removeIdxs_eq_filter _ hnb _ _ hxb]
      exact List.Perm.append (hfa.filter _) (hfb.filter _)
    · intro p hp
      have h1 : p.1 ∈ xa := hfst ▸ List.mem_map.2 ⟨p, hp, rfl⟩
      have h2 : p.2 ∈ xb := hsnd ▸ List.mem_map.2 ⟨p, hp, rfl⟩
      exact ⟨hfa.mem_iff.1 (pick_sub _ _ _ hxa _ h1), hfb.mem_iff.1 (pick_sub _ _ _ hxb _ h2)⟩
    · rw [hfst]; exact pick_nodup _ hna _ _ hia hxa
    · rw [hsnd]; exact pick_nodup _ hnb _ _ hib hxb
  | transpose _ hperm ih =>
    obtain ⟨h1, h2⟩ := ih hnd
    exact ⟨hperm.trans h1, h2⟩

/-- a built expression over pairwise distinct labels whose leaves read only their own legs is strongly
well-formed -/
theorem Built.swf {l : List Leg} {e : Expr Leg R} (h : Built l e) (hnd : e.labels.Nodup) (hloc : e.LeavesLocal) :
    e.SWF :=
  Expr.swf_of_clean e hnd hloc (h.sound hnd).2

/-- **The value of a built leg list is well defined**: two programs that build it from the same leaf tensors
with the same binding record (in any order) evaluate to the same value. -/
theorem Built.value_unique {l : List Leg} {e₁ e₂ : Expr Leg R} (h₁ : Built l e₁) (h₂ : Built l e₂)
    (hb : e₁.binds.Perm e₂.binds) (hl : e₁.leaves.Perm e₂.leaves) (hnd : e₁.labels.Nodup) (hloc : e₁.LeavesLocal)
    (dim : Leg → Nat) (σ : Asg Leg) : e₁.eval dim σ = e₂.eval dim σ := by
  have hnd₂ : e₂.labels.Nodup := by
    rw [Expr.labels_eq_leaves] at hnd ⊢
    exact (hl.flatMap_right _).nodup_iff.1 hnd
  have hloc₂ : e₂.LeavesLocal := fun lf h => hloc lf (hl.mem_iff.2 h)
  exact Expr.eval_unique dim e₁ e₂ (h₁.swf hnd hloc) (h₂.swf hnd₂ hloc₂) hb hl σ

end sound

end Ptn.C08
