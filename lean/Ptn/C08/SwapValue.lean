import Ptn.C08.EinGate
import Ptn.C08.Lemmas
/-! Value level for C08, part 2: the SWAP gate.  `swap_gate_spec` gives the entries of the matrix built by
the double loop of `swap_gate`; here the matrix, reshaped to a gate tensor (`NumericOperator.to_tensor`: row
index `o₀·d + o₁`, column index `i₀·d + i₁`), is applied to a state vector. -/
namespace Ptn.C08

open Ptn.Ein Finset

variable {L : Type} [DecidableEq L] {R : Type} [CommSemiring R]

/-- the gate tensor of `swap_gate(d)`: entry of the modelled matrix at row `(go₀, go₁)`, column `(gi₀, gi₁)` -/
def swapTensor (d : Nat) (go0 go1 gi0 gi1 : L) : Asg L → R :=
  fun τ => (((entry (swapGate d) (τ go0 * d + τ go1) (τ gi0 * d + τ gi1)).getD 0 : Nat) : R)

theorem entry_swap_eq (d a b a' b' : Nat) (ha : a < d) (hb : b < d) (ha' : a' < d) (hb' : b' < d) :
    entry (swapGate d) (a * d + b) (a' * d + b') = some (if a = b' ∧ b = a' then 1 else 0) := by
  rw [entry_swapGate]
  have h1 := index_lt ha hb
  have h2 := index_lt ha' hb'
  simp only [h1, h2, and_self, if_true]
  have d1 := digits_of_index (a := a) hb
  have d2 := digits_of_index (a := a') hb'
  have hc : swapCond d (a * d + b) (a' * d + b') = true ↔ (a = b' ∧ b = a') := by
    rw [swapCond_iff, d1.1, d1.2, d2.1, d2.2]
    constructor
    · intro h; exact ⟨h.1, h.2.symm⟩
    · intro h; exact ⟨h.1, h.2.symm⟩
  by_cases h : a = b' ∧ b = a'
  · rw [if_pos h, if_pos (hc.mpr h)]
  · have : ¬ swapCond d (a * d + b) (a' * d + b') = true := fun x => h (hc.mp x)
    rw [if_neg h, if_neg this]

/-- core of `swap_gate_value` -/
theorem swap_apply (dim : L → Nat) (d : Nat) (p0 p1 go0 go1 gi0 gi1 : L)
    (hnd : [p0, p1, gi0, gi1, go0, go1].Nodup) (hd0 : dim p0 = d) (hd1 : dim p1 = d)
    (ψ : Asg L → R) {S : L → Prop} (hψ : DependsOn S ψ) (h0 : ¬ S gi0) (h1 : ¬ S gi1)
    (σ : Asg L) (ho0 : σ go0 < d) (ho1 : σ go1 < d) :
    sumPairs dim [(p0, gi0), (p1, gi1)] (fun τ => swapTensor d go0 go1 gi0 gi1 τ * ψ τ) σ =
      ψ (upd (upd σ p0 (σ go1)) p1 (σ go0)) := by
  simp only [List.nodup_cons, List.mem_cons, List.not_mem_nil, or_false, not_or, List.nodup_nil,
    and_true, not_false_eq_true] at hnd
  obtain ⟨⟨n01, n02, n03, n04, n05⟩, ⟨n12, n13, n14, n15⟩, ⟨n23, n24, n25⟩, ⟨n34, n35⟩, n45⟩ := hnd
  simp only [sumPairs, sumR_eq, hd0, hd1]
  have key : ∀ i ∈ range d, ∀ j ∈ range d,
      swapTensor (R := R) d go0 go1 gi0 gi1 (upd (upd (upd (upd σ p0 i) gi0 i) p1 j) gi1 j) *
        ψ (upd (upd (upd (upd σ p0 i) gi0 i) p1 j) gi1 j) =
      if σ go0 = j ∧ σ go1 = i then ψ (upd (upd σ p0 i) p1 j) else 0 := by
    intro i hi j hj
    have hi' := mem_range.1 hi
    have hj' := mem_range.1 hj
    have e1 : (upd (upd (upd (upd σ p0 i) gi0 i) p1 j) gi1 j) go0 = σ go0 := by
      simp [upd, Ne.symm n04, Ne.symm n24, Ne.symm n14, Ne.symm n34]
    have e2 : (upd (upd (upd (upd σ p0 i) gi0 i) p1 j) gi1 j) go1 = σ go1 := by
      simp [upd, Ne.symm n05, Ne.symm n25, Ne.symm n15, Ne.symm n35]
    have e3 : (upd (upd (upd (upd σ p0 i) gi0 i) p1 j) gi1 j) gi0 = i := by
      simp [upd, n23, Ne.symm n12]
    have e4 : (upd (upd (upd (upd σ p0 i) gi0 i) p1 j) gi1 j) gi1 = j := by
      simp [upd]
    have hψ' : ψ (upd (upd (upd (upd σ p0 i) gi0 i) p1 j) gi1 j) = ψ (upd (upd σ p0 i) p1 j) := by
      apply hψ
      intro l hl
      have l0 : l ≠ gi0 := fun e => h0 (e ▸ hl)
      have l1 : l ≠ gi1 := fun e => h1 (e ▸ hl)
      simp [upd, l0, l1]
    unfold swapTensor
    rw [e1, e2, e3, e4, entry_swap_eq d _ _ _ _ ho0 ho1 hi' hj', hψ']
    by_cases hc : σ go0 = j ∧ σ go1 = i
    · simp [hc]
    · simp [hc]
  rw [sum_congr rfl (fun i hi => sum_congr rfl (fun j hj => key i hi j hj))]
  rw [sum_eq_single (σ go1)]
  · rw [sum_eq_single (σ go0)]
    · simp
    · intro j _ hj; simp [Ne.symm hj]
    · intro hj; exact absurd (mem_range.2 ho0) hj
  · intro i _ hi
    apply sum_eq_zero
    intro j _
    simp [Ne.symm hi]
  · intro hi; exact absurd (mem_range.2 ho1) hi

end Ptn.C08
