import Ptn.C08.Stages
/-! Lemmas for a whole TEBD time step (C08, core Lean only): well-formed trees, the relation "same
identifiers and parents, children permuted", evaluation of one operator of the step. -/
namespace Ptn.C08

/-! ### trees -/

/-- A rooted forest given as a node table: distinct identifiers, duplicate-free child lists, the
    children and parent fields agree, no cycles (parents have smaller depth). -/
structure TreeWF (t : List TNode) : Prop where
  ids : (t.map (·.id)).Nodup
  kidsNodup : ∀ x ∈ t, x.children.Nodup
  childParent : ∀ x ∈ t, ∀ k ∈ x.children, ∃ y ∈ t, y.id = k ∧ y.parent = some x.id
  parentChild : ∀ y ∈ t, ∀ q, y.parent = some q → ∃ x ∈ t, x.id = q ∧ y.id ∈ x.children
  depth : ∃ d : Nat → Nat, ∀ y ∈ t, ∀ q, y.parent = some q → d q < d y.id

/-- Same identifier, same parent, children permuted. -/
def NodeSim (x y : TNode) : Prop :=
  y.id = x.id ∧ y.parent = x.parent ∧ y.children.Perm x.children

/-- Node tables that agree entry by entry up to child order. -/
def Sim : List TNode → List TNode → Prop
  | [], [] => True
  | x :: xs, y :: ys => NodeSim x y ∧ Sim xs ys
  | _, _ => False

theorem NodeSim.refl (x : TNode) : NodeSim x x := ⟨rfl, rfl, List.Perm.refl _⟩

theorem NodeSim.trans {x y z : TNode} (h1 : NodeSim x y) (h2 : NodeSim y z) : NodeSim x z :=
  ⟨h2.1.trans h1.1, h2.2.1.trans h1.2.1, h2.2.2.trans h1.2.2⟩

theorem Sim.refl : ∀ t : List TNode, Sim t t
  | [] => trivial
  | x :: xs => ⟨NodeSim.refl x, Sim.refl xs⟩

theorem Sim.trans : ∀ {a b c : List TNode}, Sim a b → Sim b c → Sim a c
  | [], [], [], _, _ => trivial
  | x :: xs, y :: ys, z :: zs, h1, h2 => ⟨h1.1.trans h2.1, Sim.trans h1.2 h2.2⟩
  | [], [], _ :: _, _, h2 => h2.elim
  | [], _ :: _, _, h1, _ => h1.elim
  | _ :: _, [], _, h1, _ => h1.elim
  | _ :: _, _ :: _, [], _, h2 => h2.elim

theorem sim_map (f : TNode → TNode) : ∀ t : List TNode, (∀ x ∈ t, NodeSim x (f x)) → Sim t (t.map f)
  | [], _ => trivial
  | x :: xs, h => ⟨h x List.mem_cons_self, sim_map f xs fun y hy => h y (List.mem_cons_of_mem _ hy)⟩

theorem Sim.mem_right : ∀ {t t' : List TNode}, Sim t t' → ∀ y ∈ t', ∃ x ∈ t, NodeSim x y
  | [], [], _, y, hy => by simp at hy
  | x :: xs, y' :: ys, h, y, hy => by
    rcases List.mem_cons.mp hy with rfl | hy
    · exact ⟨x, List.mem_cons_self, h.1⟩
    · obtain ⟨x', hx', hs⟩ := Sim.mem_right h.2 y hy
      exact ⟨x', List.mem_cons_of_mem _ hx', hs⟩
  | [], _ :: _, h, _, _ => h.elim
  | _ :: _, [], h, _, _ => h.elim

theorem Sim.mem_left : ∀ {t t' : List TNode}, Sim t t' → ∀ x ∈ t, ∃ y ∈ t', NodeSim x y
  | [], [], _, x, hx => by simp at hx
  | x' :: xs, y :: ys, h, x, hx => by
    rcases List.mem_cons.mp hx with rfl | hx
    · exact ⟨y, List.mem_cons_self, h.1⟩
    · obtain ⟨y', hy', hs⟩ := Sim.mem_left h.2 x hx
      exact ⟨y', List.mem_cons_of_mem _ hy', hs⟩
  | [], _ :: _, h, _, _ => h.elim
  | _ :: _, [], h, _, _ => h.elim

theorem Sim.ids : ∀ {t t' : List TNode}, Sim t t' → t'.map (·.id) = t.map (·.id)
  | [], [], _ => rfl
  | x :: xs, y :: ys, h => by
    simp only [List.map_cons]
    rw [h.1.1, Sim.ids h.2]
  | [], _ :: _, h => h.elim
  | _ :: _, [], h => h.elim

theorem Sim.parents : ∀ {t t' : List TNode}, Sim t t' → t'.map (·.parent) = t.map (·.parent)
  | [], [], _ => rfl
  | x :: xs, y :: ys, h => by
    simp only [List.map_cons]
    rw [h.1.2.1, Sim.parents h.2]
  | [], _ :: _, h => h.elim
  | _ :: _, [], h => h.elim

/-- Well-formedness only speaks about identifiers, parents and child *sets*. -/
theorem TreeWF.sim {t t' : List TNode} (hwf : TreeWF t) (hs : Sim t t') : TreeWF t' := by
  refine ⟨?_, ?_, ?_, ?_, ?_⟩
  · rw [hs.ids]; exact hwf.ids
  · intro y hy
    obtain ⟨x, hx, hxy⟩ := hs.mem_right y hy
    exact (hxy.2.2.nodup_iff).mpr (hwf.kidsNodup x hx)
  · intro y hy k hk
    obtain ⟨x, hx, hxy⟩ := hs.mem_right y hy
    have hk' : k ∈ x.children := (hxy.2.2.mem_iff).mp hk
    obtain ⟨z, hz, hzid, hzp⟩ := hwf.childParent x hx k hk'
    obtain ⟨z', hz', hzz⟩ := hs.mem_left z hz
    exact ⟨z', hz', by rw [hzz.1, hzid], by rw [hzz.2.1, hzp, hxy.1]⟩
  · intro y hy q hq
    obtain ⟨x, hx, hxy⟩ := hs.mem_right y hy
    have hq' : x.parent = some q := by rw [← hxy.2.1]; exact hq
    obtain ⟨z, hz, hzid, hzm⟩ := hwf.parentChild x hx q hq'
    obtain ⟨z', hz', hzz⟩ := hs.mem_left z hz
    refine ⟨z', hz', by rw [hzz.1, hzid], ?_⟩
    rw [hxy.1]
    exact (hzz.2.2.mem_iff).mpr hzm
  · obtain ⟨d, hd⟩ := hwf.depth
    refine ⟨d, ?_⟩
    intro y hy q hq
    obtain ⟨x, hx, hxy⟩ := hs.mem_right y hy
    rw [hxy.1]
    exact hd x hx q (by rw [← hxy.2.1]; exact hq)

/-- Which operators a step may contain: nothing, one existing site, or two tree-adjacent sites in
    either naming order. -/
def ValidOp (t : List TNode) : List Nat → Prop
  | [] => True
  | [s] => ∃ x ∈ t, x.id = s
  | [a, b] => ∃ x ∈ t, ∃ y ∈ t, x.id = a ∧ y.id = b ∧ (y.parent = some a ∨ x.parent = some b)
  | _ => False

theorem ValidOp.sim {t t' : List TNode} (hs : Sim t t') : ∀ op, ValidOp t op → ValidOp t' op
  | [], _ => trivial
  | [s], h => by
    obtain ⟨x, hx, hid⟩ := h
    obtain ⟨x', hx', hxx⟩ := hs.mem_left x hx
    exact ⟨x', hx', by rw [hxx.1, hid]⟩
  | [a, b], h => by
    obtain ⟨x, hx, y, hy, hxa, hyb, hor⟩ := h
    obtain ⟨x', hx', hxx⟩ := hs.mem_left x hx
    obtain ⟨y', hy', hyy⟩ := hs.mem_left y hy
    refine ⟨x', hx', y', hy', by rw [hxx.1, hxa], by rw [hyy.1, hyb], ?_⟩
    rcases hor with h1 | h1
    · exact Or.inl (by rw [hyy.2.1, h1])
    · exact Or.inr (by rw [hxx.2.1, h1])
  | _ :: _ :: _ :: _, h => h.elim


/-! ### an adjacent pair in a well-formed tree is in canonical position -/

theorem TreeWF.eq_of_id {t : List TNode} (hwf : TreeWF t) {x y : TNode} (hx : x ∈ t) (hy : y ∈ t)
    (h : x.id = y.id) : x = y :=
  eq_of_mem_of_id t y x hwf.ids hy hx h

theorem pair_canonical {t : List TNode} (hwf : TreeWF t) {y : TNode} (hy : y ∈ t) {p : Nat}
    (hp : y.parent = some p) :
    ∃ pp A B, (⟨p, pp, A ++ y.id :: B⟩ : TNode) ∈ t ∧ PairOK p y.id pp A B y.children := by
  obtain ⟨d, hd⟩ := hwf.depth
  obtain ⟨x, hx, hxid, hmem⟩ := hwf.parentChild y hy p hp
  obtain ⟨A, B, hAB⟩ := List.append_of_mem hmem
  have hxeq : x = ⟨p, x.parent, A ++ y.id :: B⟩ := by
    cases x; simp only at hxid hAB; subst hxid; subst hAB; rfl
  refine ⟨x.parent, A, B, by rw [← hxeq]; exact hx, ?_⟩
  -- depth facts
  have dpc : d p < d y.id := hd y hy p hp
  have dkid : ∀ z ∈ t, ∀ k ∈ z.children, d z.id < d k := by
    intro z hz k hk
    obtain ⟨w, hw, hwid, hwp⟩ := hwf.childParent z hz k hk
    have := hd w hw z.id hwp
    rw [hwid] at this; exact this
  have dAB : ∀ k ∈ A ++ B, d p < d k := by
    intro k hk
    have : k ∈ x.children := by
      rw [hAB]; simp only [List.mem_append, List.mem_cons] at hk ⊢
      rcases hk with h | h
      · exact Or.inl h
      · exact Or.inr (Or.inr h)
    have := dkid x hx k this
    rw [hxid] at this; exact this
  have dK : ∀ k ∈ y.children, d y.id < d k := dkid y hy
  have hnx : (A ++ y.id :: B).Nodup := by rw [← hAB]; exact hwf.kidsNodup x hx
  have hnK : y.children.Nodup := hwf.kidsNodup y hy
  have hnAB : (A ++ B).Nodup := by
    rw [List.nodup_append] at hnx ⊢
    refine ⟨hnx.1, (List.nodup_cons.mp hnx.2.1).2, ?_⟩
    intro a ha b hb
    exact hnx.2.2 a ha b (List.mem_cons_of_mem _ hb)
  have hcAB : y.id ∉ A ++ B := by
    rw [List.nodup_append] at hnx
    intro hm
    rcases List.mem_append.mp hm with h | h
    · exact hnx.2.2 _ h _ List.mem_cons_self rfl
    · exact (List.nodup_cons.mp hnx.2.1).1 h
  -- a child of p is not a child of c
  have hdisj : ∀ k ∈ A ++ B, k ∉ y.children := by
    intro k hk hk'
    have hkx : k ∈ x.children := by
      rw [hAB]; simp only [List.mem_append, List.mem_cons] at hk ⊢
      rcases hk with h | h
      · exact Or.inl h
      · exact Or.inr (Or.inr h)
    obtain ⟨w, hw, hwid, hwp⟩ := hwf.childParent x hx k hkx
    obtain ⟨w', hw', hwid', hwp'⟩ := hwf.childParent y hy k hk'
    have : w = w' := hwf.eq_of_id hw hw' (by rw [hwid, hwid'])
    subst this
    rw [hwp] at hwp'
    have : x.id = y.id := Option.some.inj hwp'
    rw [hxid] at this
    rw [this] at dpc
    exact Nat.lt_irrefl _ dpc
  have hkids : (A ++ (B ++ y.children)).Nodup := by
    rw [← List.append_assoc, List.nodup_append]
    exact ⟨hnAB, hnK, fun a ha b hb e => hdisj a ha (e ▸ hb)⟩
  have hall : ∀ k ∈ A ++ (B ++ y.children), d p < d k := by
    intro k hk
    rw [← List.append_assoc] at hk
    rcases List.mem_append.mp hk with h | h
    · exact dAB k h
    · exact Nat.lt_trans dpc (dK k h)
  unfold PairOK
  have hrest : (p :: y.id :: (A ++ (B ++ y.children))).Nodup := by
    rw [List.nodup_cons, List.nodup_cons]
    refine ⟨?_, ?_, hkids⟩
    · intro hm
      rcases List.mem_cons.mp hm with h | h
      · rw [← h] at dpc; exact Nat.lt_irrefl _ dpc
      · exact Nat.lt_irrefl _ (hall p h)
    · intro hm
      rw [← List.append_assoc] at hm
      rcases List.mem_append.mp hm with h | h
      · exact hcAB h
      · exact Nat.lt_irrefl _ (dK _ h)
  cases hpp : x.parent with
  | none => simpa using hrest
  | some q =>
    have dq : d q < d p := by
      have := hd x hx q hpp
      rw [hxid] at this; exact this
    simp only [Option.toList_some, List.singleton_append]
    rw [List.nodup_cons]
    refine ⟨?_, hrest⟩
    intro hm
    rcases List.mem_cons.mp hm with h | h
    · rw [h] at dq; exact Nat.lt_irrefl _ dq
    · rcases List.mem_cons.mp h with h | h
      · rw [h] at dq; exact Nat.lt_irrefl _ (Nat.lt_trans dq dpc)
      · exact Nat.lt_irrefl _ (Nat.lt_trans dq (hall q h))


/-! ### one operator of the step -/

theorem goutL_one (s : Nat) : goutL s 1 = [Leg.gout s] := by simp [goutL]

theorem openOut_of (n : MNode) (V : List Leg) (s : Nat) (hl : n.legs = V ++ [Leg.gout s])
    (hv : n.nvirt = V.length) : openOut n = some s := by
  unfold openOut
  rw [hl, hv, List.drop_left]

theorem openOut_parent (pp : Option Nat) (cid : Nat) (AB : List Nat) (s : Nat) :
    openOut ⟨pp, cid :: AB, parentLegs pp ++ (Leg.bond :: (AB.map Leg.nb ++ goutL s 1))⟩ = some s := by
  apply openOut_of _ (parentLegs pp ++ (Leg.bond :: AB.map Leg.nb))
  · simp [goutL_one]
  · simp [MNode.nvirt, nparents_eq] <;> omega

theorem openOut_child (pid : Nat) (K : List Nat) (s : Nat) :
    openOut ⟨some pid, K, Leg.bond :: (K.map Leg.nb ++ goutL s 1)⟩ = some s := by
  apply openOut_of _ (Leg.bond :: K.map Leg.nb)
  · simp [goutL_one]
  · simp [MNode.nvirt, MNode.nparents] <;> omega

theorem openOut_single (par : Option Nat) (ch : List Nat) :
    openOut ⟨par, ch, parentLegs par ++ (ch.map Leg.nb ++ goutL 0 1)⟩ = some 0 := by
  apply openOut_of _ (parentLegs par ++ ch.map Leg.nb)
  · simp [goutL_one]
  · simp [MNode.nvirt, nparents_eq]

theorem binds_two (cur : Nat → GLeg) (g a b : Nat) :
    bindsToGlobal cur g ((physL a 1 ++ physL b 1).zip ((List.range (1 + 1)).map Leg.gin)) =
      some [(cur a, g, 0), (cur b, g, 1)] := by
  simp [physL, List.range_succ, bindsToGlobal]

theorem binds_one (cur : Nat → GLeg) (g s : Nat) :
    bindsToGlobal cur g ((physL s 1).zip ((List.range 1).map Leg.gin)) = some [(cur s, g, 0)] := by
  simp [physL, List.range_succ, bindsToGlobal]

theorem stepSingle_eval (t : List TNode) (cur : Nat → GLeg) (rc : List Rec) (g : Nat) (x : TNode)
    (hnd : (t.map (·.id)).Nodup) (hx : x ∈ t) :
    stepSingle ⟨t, cur, rc⟩ g x.id =
      some ⟨t, setCur cur x.id (GLeg.out g 0), rc ++ [(cur x.id, g, 0)]⟩ := by
  unfold stepSingle
  simp only [findNode_of_mem t x hnd hx, Option.bind_some, singleSite_mkNode, binds_one,
    openOut_single]

theorem stepTwo_eval (t : List TNode) (cur : Nat → GLeg) (rc : List Rec) (g p c : Nat)
    (pp : Option Nat) (A B K : List Nat) (hnd : (t.map (·.id)).Nodup)
    (hP : (⟨p, pp, A ++ c :: B⟩ : TNode) ∈ t) (hC : (⟨c, some p, K⟩ : TNode) ∈ t)
    (h : PairOK p c pp A B K) :
    stepTwo ⟨t, cur, rc⟩ g p c =
      some ⟨afterPair t p c A B, setCur (setCur cur p (GLeg.out g 0)) c (GLeg.out g 1),
            rc ++ [(cur p, g, 0), (cur c, g, 1)]⟩ ∧
    stepTwo ⟨t, cur, rc⟩ g c p =
      some ⟨afterPair t p c A B, setCur (setCur cur c (GLeg.out g 0)) p (GLeg.out g 1),
            rc ++ [(cur c, g, 0), (cur p, g, 1)]⟩ := by
  have hne : p ≠ c := h.p_notin.2.2.2
  have hne' : c ≠ p := fun e => hne e.symm
  have fP := findNode_of_mem t ⟨p, pp, A ++ c :: B⟩ hnd hP
  have fC := findNode_of_mem t ⟨c, some p, K⟩ hnd hC
  simp only at fP fC
  have hu := updateNodes_eq t p c pp A B K
  constructor
  · unfold stepTwo
    simp only [fP, fC, Option.bind_some, hne, if_false, twoSite_parentFirst 1 1 h, binds_two,
      openOut_parent, openOut_child]
    rw [(hu _ _ hnd hP hC hne).1]
  · unfold stepTwo
    simp only [fP, fC, Option.bind_some, hne', if_false, twoSite_childFirst 1 1 h, binds_two,
      openOut_parent, openOut_child]
    rw [(hu _ _ hnd hP hC hne).2]

theorem afterPair_sim (t : List TNode) (p c : Nat) (pp : Option Nat) (A B : List Nat)
    (hnd : (t.map (·.id)).Nodup) (hP : (⟨p, pp, A ++ c :: B⟩ : TNode) ∈ t) :
    Sim t (afterPair t p c A B) := by
  unfold afterPair
  apply sim_map
  intro x hx
  by_cases h1 : x.id = p
  · have := eq_of_mem_of_id t ⟨p, pp, A ++ c :: B⟩ x hnd hP hx h1
    subst this
    simp only [if_true]
    exact ⟨rfl, rfl, List.perm_middle.symm⟩
  · simp only [h1, if_false]
    exact NodeSim.refl x


theorem specOp_two (g : Nat) (cur : Nat → GLeg) (rc : List Rec) (a b : Nat) (hne : a ≠ b) :
    specOp g (cur, rc) 0 [a, b] =
      (setCur (setCur cur a (GLeg.out g 0)) b (GLeg.out g 1), rc ++ [(cur a, g, 0), (cur b, g, 1)]) := by
  have : setCur cur a (GLeg.out g 0) b = cur b := by
    have hb : ¬ b = a := fun e => hne e.symm
    simp [setCur, hb]
  simp [specOp, this]

theorem specOp_one (g : Nat) (cur : Nat → GLeg) (rc : List Rec) (s : Nat) :
    specOp g (cur, rc) 0 [s] = (setCur cur s (GLeg.out g 0), rc ++ [(cur s, g, 0)]) := by
  simp [specOp]

/-- One operator: the model completes, agrees with the specification, and the tree keeps its
    identifiers and parents (children permuted). -/
theorem applyOp_spec {t : List TNode} (hwf : TreeWF t) (cur : Nat → GLeg) (rc : List Rec) (g : Nat) :
    ∀ op, ValidOp t op →
      ∃ t', applyOp ⟨t, cur, rc⟩ g op =
          some ⟨t', (specOp g (cur, rc) 0 op).1, (specOp g (cur, rc) 0 op).2⟩ ∧ Sim t t'
  | [], _ => ⟨t, rfl, Sim.refl t⟩
  | [s], h => by
    obtain ⟨x, hx, hid⟩ := h
    subst hid
    refine ⟨t, ?_, Sim.refl t⟩
    rw [specOp_one]
    exact stepSingle_eval t cur rc g x hwf.ids hx
  | [a, b], h => by
    obtain ⟨x, hx, y, hy, hxa, hyb, hor⟩ := h
    rcases hor with hpar | hpar
    · -- a is the parent of b
      obtain ⟨pp, A, B, hP, hok⟩ := pair_canonical hwf hy hpar
      have hyeq : y = ⟨b, some a, y.children⟩ := by
        cases y; simp only at hyb hpar; subst hyb; subst hpar; rfl
      rw [hyb] at hP hok
      have hC : (⟨b, some a, y.children⟩ : TNode) ∈ t := by rw [← hyeq]; exact hy
      have hne : a ≠ b := hok.p_notin.2.2.2
      refine ⟨afterPair t a b A B, ?_, afterPair_sim t a b pp A B hwf.ids hP⟩
      rw [specOp_two g cur rc a b hne]
      exact (stepTwo_eval t cur rc g a b pp A B y.children hwf.ids hP hC hok).1
    · -- b is the parent of a
      obtain ⟨pp, A, B, hP, hok⟩ := pair_canonical hwf hx hpar
      have hxeq : x = ⟨a, some b, x.children⟩ := by
        cases x; simp only at hxa hpar; subst hxa; subst hpar; rfl
      rw [hxa] at hP hok
      have hC : (⟨a, some b, x.children⟩ : TNode) ∈ t := by rw [← hxeq]; exact hx
      have hne : a ≠ b := fun e => hok.p_notin.2.2.2 e.symm
      refine ⟨afterPair t b a A B, ?_, afterPair_sim t b a pp A B hwf.ids hP⟩
      rw [specOp_two g cur rc a b hne]
      exact (stepTwo_eval t cur rc g b a pp A B x.children hwf.ids hP hC hok).2
  | _ :: _ :: _ :: _, h => h.elim

/-- A whole list of operators. -/
theorem runOps_spec : ∀ (ops : List (List Nat)) {t : List TNode}, TreeWF t →
    (∀ op ∈ ops, ValidOp t op) → ∀ (cur : Nat → GLeg) (rc : List Rec) (g : Nat),
      ∃ t', runOps ⟨t, cur, rc⟩ g ops =
          some ⟨t', (specRun (cur, rc) g ops).1, (specRun (cur, rc) g ops).2⟩ ∧ Sim t t'
  | [], t, _, _, cur, rc, g => ⟨t, rfl, Sim.refl t⟩
  | op :: ops, t, hwf, hv, cur, rc, g => by
    obtain ⟨t1, h1, hs1⟩ := applyOp_spec hwf cur rc g op (hv op List.mem_cons_self)
    have hwf1 := hwf.sim hs1
    have hv1 : ∀ o ∈ ops, ValidOp t1 o := fun o ho =>
      ValidOp.sim hs1 o (hv o (List.mem_cons_of_mem _ ho))
    obtain ⟨t2, h2, hs2⟩ := runOps_spec ops hwf1 hv1 (specOp g (cur, rc) 0 op).1
      (specOp g (cur, rc) 0 op).2 (g + 1)
    refine ⟨t2, ?_, hs1.trans hs2⟩
    simp only [runOps, h1, Option.bind_some, specRun]
    exact h2

theorem runOps_append (l1 l2 : List (List Nat)) : ∀ (st : GState) (g : Nat),
    runOps st g (l1 ++ l2) = (runOps st g l1).bind fun st' => runOps st' (g + l1.length) l2 := by
  induction l1 with
  | nil => intro st g; simp [runOps]
  | cons op ops ih =>
    intro st g
    simp only [List.cons_append, runOps, List.length_cons]
    cases applyOp st g op with
    | none => simp
    | some st' =>
      simp only [Option.bind_some, ih]
      have : g + 1 + ops.length = g + (ops.length + 1) := by omega
      rw [this]

theorem runSteps_eq (ops : List (List Nat)) : ∀ (k : Nat) (st : GState) (g : Nat),
    runSteps ops st g k = runOps st g (List.replicate k ops).flatten := by
  intro k
  induction k with
  | zero => intro st g; simp [runSteps, runOps]
  | succ k ih =>
    intro st g
    simp only [runSteps, List.replicate_succ, List.flatten_cons, runOps_append]
    cases runOps st g ops with
    | none => simp
    | some st' => simp [ih]


theorem swapSites_eq (l : List (Nat × Nat)) : swapSites l = l.map fun pr => [pr.1, pr.2] := by
  unfold swapSites
  have : ∀ acc : List (List Nat),
      l.foldl (fun acc pr => acc ++ [[pr.1, pr.2]]) acc = acc ++ l.map fun pr => [pr.1, pr.2] := by
    induction l with
    | nil => intro acc; simp
    | cons p ps ih => intro acc; simp [ih]
  simpa using this []

end Ptn.C08
