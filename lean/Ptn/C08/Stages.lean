import Ptn.C08.LegLemmas
namespace Ptn.C08

/-! Stage lemmas for the two-site application (C08): each library call evaluated on a pair of
nodes in canonical layout, for both argument orders. -/

/-! ### nodes in canonical layout -/

theorem nparents_eq (par : Option Nat) (ch : List Nat) (l : List Leg) :
    (⟨par, ch, l⟩ : MNode).nparents = (parentLegs par).length := by
  cases par <;> simp [MNode.nparents, parentLegs]

@[simp] theorem mkNode_parent (id : Nat) (par : Option Nat) (ch : List Nat) (o : Nat) :
    (mkNode id par ch o).parent = par := rfl
@[simp] theorem mkNode_children (id : Nat) (par : Option Nat) (ch : List Nat) (o : Nat) :
    (mkNode id par ch o).children = ch := rfl
@[simp] theorem mkNode_legs (id : Nat) (par : Option Nat) (ch : List Nat) (o : Nat) :
    (mkNode id par ch o).legs = parentLegs par ++ (ch.map Leg.nb ++ physL id o) := rfl

@[simp] theorem physL_length (id o : Nat) : (physL id o).length = o := by simp [physL]
@[simp] theorem goutL_length (s n : Nat) : (goutL s n).length = n := by simp [goutL]

@[simp] theorem mkNode_nparents (id : Nat) (par : Option Nat) (ch : List Nat) (o : Nat) :
    (mkNode id par ch o).nparents = (parentLegs par).length := nparents_eq _ _ _

@[simp] theorem mkNode_nvirt (id : Nat) (par : Option Nat) (ch : List Nat) (o : Nat) :
    (mkNode id par ch o).nvirt = (parentLegs par).length + ch.length := by
  simp [MNode.nvirt]

@[simp] theorem mkNode_nlegs (id : Nat) (par : Option Nat) (ch : List Nat) (o : Nat) :
    (mkNode id par ch o).nlegs = (parentLegs par).length + (ch.length + o) := by
  simp [MNode.nlegs]

@[simp] theorem mkNode_nopen (id : Nat) (par : Option Nat) (ch : List Nat) (o : Nat) :
    (mkNode id par ch o).nopen = o := by
  simp only [MNode.nopen, mkNode_nlegs, mkNode_nvirt]; omega

/-- All identifiers around the pair are distinct (they are nodes of one tree). -/
def PairOK (p c : Nat) (pp : Option Nat) (A B K : List Nat) : Prop :=
  (pp.toList ++ p :: c :: (A ++ (B ++ K))).Nodup

namespace PairOK
variable {p c : Nat} {pp : Option Nat} {A B K : List Nat}

theorem kids (h : PairOK p c pp A B K) : (A ++ (B ++ K)).Nodup := by
  unfold PairOK at h
  rw [List.nodup_append] at h
  have := h.2.1
  simp only [List.nodup_cons] at this
  exact this.2.2

theorem c_notin (h : PairOK p c pp A B K) : c ∉ A ∧ c ∉ B ∧ c ∉ K := by
  unfold PairOK at h
  rw [List.nodup_append] at h
  have := h.2.1
  simp only [List.nodup_cons, List.mem_append, List.mem_cons] at this
  have h2 := this.2.1
  refine ⟨fun x => h2 (Or.inl x), fun x => h2 (Or.inr (Or.inl x)), fun x => h2 (Or.inr (Or.inr x))⟩

theorem p_notin (h : PairOK p c pp A B K) : p ∉ A ∧ p ∉ B ∧ p ∉ K ∧ p ≠ c := by
  unfold PairOK at h
  rw [List.nodup_append] at h
  have := h.2.1
  simp only [List.nodup_cons, List.mem_append, List.mem_cons] at this
  have h2 := this.1
  refine ⟨fun x => h2 (Or.inr (Or.inl x)), fun x => h2 (Or.inr (Or.inr (Or.inl x))),
    fun x => h2 (Or.inr (Or.inr (Or.inr x))), fun x => h2 (Or.inl x)⟩

theorem pp_ne (h : PairOK p c pp A B K) :
    pp ≠ some p ∧ pp ≠ some c ∧ ∀ k, k ∈ A ++ (B ++ K) → pp ≠ some k := by
  unfold PairOK at h
  rw [List.nodup_append] at h
  have h3 := h.2.2
  refine ⟨?_, ?_, ?_⟩
  · intro e; exact h3 p (by simp [e]) p (by simp) rfl
  · intro e; exact h3 c (by simp [e]) c (by simp) rfl
  · intro k hk e; exact h3 k (by simp [e]) k (by simp [List.mem_append] at hk ⊢; exact Or.inr (Or.inr hk)) rfl

end PairOK

/-! ### stage 1: `legs_before_combination` -/

theorem erase_child (A B : List Nat) (c : Nat) (h : c ∉ A) : (A ++ c :: B).erase c = A ++ B := by
  rw [List.erase_append_right _ h, List.erase_cons_head]

theorem legsBefore_parentFirst {p c : Nat} {pp : Option Nat} {A B K : List Nat} (oP oC : Nat)
    (h : PairOK p c pp A B K) :
    legsBeforeCombination p (mkNode p pp (A ++ c :: B) oP) c (mkNode c (some p) K oC) =
      some (⟨pp, A ++ B,
              List.range' ((parentLegs pp).length + (A.length + (B.length + K.length))) oP,
              pp.isNone⟩,
            ⟨none, K,
              List.range' ((parentLegs pp).length + (A.length + (B.length + K.length)) + oP) oC,
              false⟩) := by
  have hp := h.p_notin
  have hc := h.c_notin
  unfold legsBeforeCombination
  simp only [mkNode_children, mkNode_parent, mkNode_nvirt, mkNode_nlegs, mkNode_nopen,
    hp.2.2.1, if_false, erase_child A B c hc.1]
  have hmem : c ∈ A ++ c :: B := by simp
  simp only [hmem, if_true, Option.map_some]
  have e1 : (parentLegs pp).length + (A ++ c :: B).length + ((parentLegs (some p)).length + K.length) - 2
      = (parentLegs pp).length + (A.length + (B.length + K.length)) := by
    simp [parentLegs]; omega
  have e2 : (parentLegs pp).length + ((A ++ c :: B).length + oP) +
      ((parentLegs (some p)).length + (K.length + oC)) - 2 -
      ((parentLegs pp).length + (A.length + (B.length + K.length)) + oP) = oC := by
    simp [parentLegs]; omega
  rw [e1, e2]
  cases pp <;> simp

theorem legsBefore_childFirst {p c : Nat} {pp : Option Nat} {A B K : List Nat} (oP oC : Nat)
    (h : PairOK p c pp A B K) :
    legsBeforeCombination c (mkNode c (some p) K oC) p (mkNode p pp (A ++ c :: B) oP) =
      some (⟨none, K,
              List.range' ((parentLegs pp).length + (A.length + (B.length + K.length))) oC,
              false⟩,
            ⟨pp, A ++ B,
              List.range' ((parentLegs pp).length + (A.length + (B.length + K.length)) + oC) oP,
              pp.isNone⟩) := by
  have hc := h.c_notin
  unfold legsBeforeCombination
  have hmem : c ∈ A ++ c :: B := by simp
  simp only [mkNode_children, mkNode_parent, mkNode_nvirt, mkNode_nlegs, mkNode_nopen,
    hmem, if_true, erase_child A B c hc.1, Option.map_some]
  have e1 : (parentLegs (some p)).length + K.length + ((parentLegs pp).length + (A ++ c :: B).length) - 2
      = (parentLegs pp).length + (A.length + (B.length + K.length)) := by
    simp [parentLegs]; omega
  have e2 : (parentLegs (some p)).length + (K.length + oC) +
      ((parentLegs pp).length + ((A ++ c :: B).length + oP)) - 2 -
      ((parentLegs pp).length + (A.length + (B.length + K.length)) + oC) = oP := by
    simp [parentLegs]; omega
  rw [e1, e2]
  cases pp <;> simp


theorem openLegToParent_head (x : Leg) (rest : List Leg) (pid : Nat) :
    (⟨none, [], x :: rest⟩ : MNode).openLegToParent pid 0 = some ⟨some pid, [], x :: rest⟩ := by
  simp [MNode.openLegToParent, MNode.nopen, MNode.nlegs, MNode.nvirt, MNode.nparents, dropAt,
    pyInsert]

/-- Wrapper of `childLoop_move` for a whole `open_legs_to_children` call. -/
theorem openLegsToChildren_move (m : MNode) (dict : List (Nat × Nat))
    (es : List (Nat × Nat × Leg)) (X M Y : List Leg)
    (hlook : MNode.lookupLegs m.legs dict = some es)
    (hl : m.legs = X ++ (M ++ (es.map (·.2.2) ++ Y)))
    (hnv : m.nvirt = X.length)
    (hpos : ∀ e ∈ es, X.length ≤ e.2.1)
    (hnot : ∀ e ∈ es, e.2.2 ∉ X ∧ e.2.2 ∉ M)
    (hnd : (es.map (·.2.2)).Nodup) :
    m.openLegsToChildren dict =
      some ⟨m.parent, m.children ++ es.map (·.1), X ++ (es.map (·.2.2) ++ (M ++ Y))⟩ := by
  unfold MNode.openLegsToChildren
  rw [hlook, Option.bind_some, hnv]
  exact childLoop_move X.length M Y es X m hl hnv hpos hnot hnd

theorem nb_notin_parentLegs (pp : Option Nat) (k : Nat) (h : pp ≠ some k) :
    Leg.nb k ∉ parentLegs pp := by
  cases pp with
  | none => simp [parentLegs]
  | some x =>
    simp only [parentLegs, List.mem_singleton, Leg.nb.injEq]
    intro e; exact h (by rw [e])

theorem nb_mem_map (k : Nat) (L : List Nat) : Leg.nb k ∈ L.map Leg.nb ↔ k ∈ L := by
  simp

theorem nb_notin_physL (k id o : Nat) : Leg.nb k ∉ physL id o := by simp [physL]
theorem nb_notin_goutL (k s n : Nat) : Leg.nb k ∉ goutL s n := by simp [goutL]

theorem nodup_map_nb (L : List Nat) (h : L.Nodup) : (L.map Leg.nb).Nodup := by
  unfold List.Nodup at h ⊢
  exact List.Pairwise.map Leg.nb (fun a b hab e => hab (Leg.nb.inj e)) h


/-- Two blocks of children: the first already in place behind `X`, the second behind `M`. -/
theorem openLegsToChildren_two (m : MNode) (d1 d2 : List (Nat × Nat))
    (es1 es2 : List (Nat × Nat × Leg)) (X M Y : List Leg)
    (hlook1 : MNode.lookupLegs m.legs d1 = some es1)
    (hlook2 : MNode.lookupLegs m.legs d2 = some es2)
    (hl : m.legs = X ++ (es1.map (·.2.2) ++ (M ++ (es2.map (·.2.2) ++ Y))))
    (hnv : m.nvirt = X.length)
    (hpos : ∀ e ∈ es1 ++ es2, X.length ≤ e.2.1)
    (hnotX : ∀ e ∈ es1 ++ es2, e.2.2 ∉ X)
    (hnotM : ∀ e ∈ es2, e.2.2 ∉ M)
    (hnd : ((es1 ++ es2).map (·.2.2)).Nodup) :
    m.openLegsToChildren (d1 ++ d2) =
      some ⟨m.parent, m.children ++ (es1.map (·.1) ++ es2.map (·.1)),
        X ++ (es1.map (·.2.2) ++ (es2.map (·.2.2) ++ (M ++ Y)))⟩ := by
  unfold MNode.openLegsToChildren
  rw [lookupLegs_append _ _ _ _ _ hlook1 hlook2, Option.bind_some, childLoop_append, hnv]
  rw [List.map_append, List.nodup_append] at hnd
  have step1 := childLoop_move X.length [] (M ++ (es2.map (·.2.2) ++ Y)) es1 X m
    (by rw [hl]; simp) hnv
    (fun e he => hpos e (List.mem_append_left _ he))
    (fun e he => ⟨hnotX e (List.mem_append_left _ he), by simp⟩)
    hnd.1
  rw [step1, Option.bind_some]
  have step2 := childLoop_move X.length M Y es2 (X ++ es1.map (·.2.2))
    ⟨m.parent, m.children ++ es1.map (·.1), X ++ (es1.map (·.2.2) ++ ([] ++ (M ++ (es2.map (·.2.2) ++ Y))))⟩
    (by simp)
    (by
      simp only [MNode.nvirt, MNode.nparents, List.length_append, List.length_map] at hnv ⊢
      omega)
    (fun e he => hpos e (List.mem_append_right _ he))
    (fun e he => by
      refine ⟨?_, hnotM e he⟩
      simp only [List.mem_append, not_or]
      refine ⟨hnotX e (List.mem_append_right _ he), ?_⟩
      intro hmem
      exact hnd.2.2 _ hmem _ (List.mem_map_of_mem he) rfl)
    hnd.2.1
  rw [step2]
  simp

/-- The same two blocks when the dictionary lists the second block first. -/
theorem openLegsToChildren_two_rev (m : MNode) (d1 d2 : List (Nat × Nat))
    (es1 es2 : List (Nat × Nat × Leg)) (X M Y : List Leg)
    (hlook1 : MNode.lookupLegs m.legs d1 = some es1)
    (hlook2 : MNode.lookupLegs m.legs d2 = some es2)
    (hl : m.legs = X ++ (es1.map (·.2.2) ++ (M ++ (es2.map (·.2.2) ++ Y))))
    (hnv : m.nvirt = X.length)
    (hpos : ∀ e ∈ es1 ++ es2, X.length ≤ e.2.1)
    (hnotX : ∀ e ∈ es1 ++ es2, e.2.2 ∉ X)
    (hnotM : ∀ e ∈ es2, e.2.2 ∉ M)
    (hnd : ((es1 ++ es2).map (·.2.2)).Nodup) :
    m.openLegsToChildren (d2 ++ d1) =
      some ⟨m.parent, m.children ++ (es2.map (·.1) ++ es1.map (·.1)),
        X ++ (es2.map (·.2.2) ++ (es1.map (·.2.2) ++ (M ++ Y)))⟩ := by
  unfold MNode.openLegsToChildren
  rw [lookupLegs_append _ _ _ _ _ hlook2 hlook1, Option.bind_some, childLoop_append, hnv]
  rw [List.map_append, List.nodup_append] at hnd
  have step1 := childLoop_move X.length (es1.map (·.2.2) ++ M) Y es2 X m
    (by rw [hl]; simp) hnv
    (fun e he => hpos e (List.mem_append_right _ he))
    (fun e he => by
      refine ⟨hnotX e (List.mem_append_right _ he), ?_⟩
      simp only [List.mem_append, not_or]
      refine ⟨?_, hnotM e he⟩
      intro hmem
      exact hnd.2.2 _ hmem _ (List.mem_map_of_mem he) rfl)
    hnd.2.1
  rw [step1, Option.bind_some]
  have step2 := childLoop_move X.length [] (M ++ Y) es1 (X ++ es2.map (·.2.2))
    ⟨m.parent, m.children ++ es2.map (·.1), X ++ (es2.map (·.2.2) ++ ((es1.map (·.2.2) ++ M) ++ Y))⟩
    (by simp)
    (by
      simp only [MNode.nvirt, MNode.nparents, List.length_append, List.length_map] at hnv ⊢
      omega)
    (fun e he => hpos e (List.mem_append_left _ he))
    (fun e he => by
      refine ⟨?_, by simp⟩
      simp only [List.mem_append, not_or]
      refine ⟨hnotX e (List.mem_append_left _ he), ?_⟩
      intro hmem
      exact hnd.2.2 _ (List.mem_map_of_mem he) _ hmem rfl)
    hnd.1
  rw [step2]
  simp


/-! ### stage 2: `contract_nodes` -/

/-- `_data_contraction`: the raw legs of the contracted tensor. -/
theorem dataContraction {p c : Nat} {pp : Option Nat} {A B K : List Nat} (oP oC : Nat) :
    tensordot (mkNode p pp (A ++ c :: B) oP).legs (mkNode c (some p) K oC).legs
        [A.length + (parentLegs pp).length] [0] =
      some (parentLegs pp ++ ((A ++ B).map Leg.nb ++ (physL p oP ++ (K.map Leg.nb ++ physL c oC))),
            [(Leg.nb c, Leg.nb p)]) := by
  have hP : (mkNode p pp (A ++ c :: B) oP).legs =
      (parentLegs pp ++ A.map Leg.nb) ++ Leg.nb c :: (B.map Leg.nb ++ physL p oP) := by simp
  have hC : (mkNode c (some p) K oC).legs = [] ++ Leg.nb p :: (K.map Leg.nb ++ physL c oC) := by
    simp [parentLegs]
  have hlen : A.length + (parentLegs pp).length = (parentLegs pp ++ A.map Leg.nb).length := by
    simp; omega
  have hpk1 : pick ((parentLegs pp ++ A.map Leg.nb) ++ Leg.nb c :: (B.map Leg.nb ++ physL p oP))
      [(parentLegs pp ++ A.map Leg.nb).length] = some [Leg.nb c] :=
    pick_singleton _ _ _ (getElem?_mid _ _ _)
  have hpk2 : pick ([] ++ Leg.nb p :: (K.map Leg.nb ++ physL c oC)) [0] = some [Leg.nb p] :=
    pick_singleton _ _ _ (by simp)
  have hr2 : removeIdxs [0] 0 ([] ++ Leg.nb p :: (K.map Leg.nb ++ physL c oC)) =
      [] ++ (K.map Leg.nb ++ physL c oC) := removeIdxs_single [] _ _
  unfold tensordot
  rw [hlen, hP, hC, hpk1, hpk2, removeIdxs_single, hr2]
  simp

/-- The raw legs after `_data_contraction`. -/
def rawLegs (p c : Nat) (pp : Option Nat) (A B K : List Nat) (oP oC : Nat) : List Leg :=
  parentLegs pp ++ ((A ++ B).map Leg.nb ++ (physL p oP ++ (K.map Leg.nb ++ physL c oC)))

theorem attachParent_raw (p c : Nat) (pp : Option Nat) (A B K : List Nat) (oP oC : Nat) :
    attachParent (⟨none, [], rawLegs p c pp A B K oP oC⟩ : MNode) pp =
      some ⟨pp, [], rawLegs p c pp A B K oP oC⟩ := by
  cases pp with
  | none => rfl
  | some x =>
    simp only [rawLegs, parentLegs, List.singleton_append, attachParent]
    exact openLegToParent_head _ _ _

/-- The two orders of the child dictionary in `_create_contracted_node`. -/
theorem contract_children {p c : Nat} {pp : Option Nat} {A B K : List Nat} (oP oC : Nat)
    (h : PairOK p c pp A B K) :
    (⟨pp, [], rawLegs p c pp A B K oP oC⟩ : MNode).openLegsToChildren
        (enumFrom (parentLegs pp).length (A ++ B) ++
          enumFrom ((parentLegs pp).length + ((A ++ c :: B).length + oP) - 1) K) =
      some ⟨pp, (A ++ B) ++ K,
        parentLegs pp ++ ((A ++ B).map Leg.nb ++ (K.map Leg.nb ++ (physL p oP ++ physL c oC)))⟩ ∧
    (⟨pp, [], rawLegs p c pp A B K oP oC⟩ : MNode).openLegsToChildren
        (enumFrom ((parentLegs pp).length + ((A ++ c :: B).length + oP) - 1) K ++
          enumFrom (parentLegs pp).length (A ++ B)) =
      some ⟨pp, K ++ (A ++ B),
        parentLegs pp ++ (K.map Leg.nb ++ ((A ++ B).map Leg.nb ++ (physL p oP ++ physL c oC)))⟩ := by
  have hpp := h.pp_ne
  have hk := h.kids
  rw [← List.append_assoc] at hk
  have hk2 : (parentLegs pp).length + ((A ++ c :: B).length + oP) - 1 =
      (parentLegs pp ++ ((A ++ B).map Leg.nb ++ physL p oP)).length := by
    simp; omega
  have hl1 := lookupLegs_block (rawLegs p c pp A B K oP oC) (A ++ B)
    (physL p oP ++ (K.map Leg.nb ++ physL c oC)) (parentLegs pp) rfl
  have hl2 := lookupLegs_block (rawLegs p c pp A B K oP oC) K (physL c oC)
    (parentLegs pp ++ ((A ++ B).map Leg.nb ++ physL p oP)) (by simp [rawLegs])
  rw [← hk2] at hl2
  have hl : (⟨pp, [], rawLegs p c pp A B K oP oC⟩ : MNode).legs = parentLegs pp ++
      ((entriesOf (parentLegs pp).length (A ++ B)).map (·.2.2) ++ (physL p oP ++
        ((entriesOf ((parentLegs pp).length + ((A ++ c :: B).length + oP) - 1) K).map (·.2.2) ++
          physL c oC))) := by
    simp [rawLegs, entriesOf_labels]
  have hnv : (⟨pp, [], rawLegs p c pp A B K oP oC⟩ : MNode).nvirt = (parentLegs pp).length := by
    simp [MNode.nvirt, nparents_eq]
  have hpos : ∀ e ∈ entriesOf (parentLegs pp).length (A ++ B) ++
      entriesOf ((parentLegs pp).length + ((A ++ c :: B).length + oP) - 1) K,
      (parentLegs pp).length ≤ e.2.1 := by
    intro e he
    rcases List.mem_append.mp he with he | he
    · exact entriesOf_pos _ _ e he
    · have := entriesOf_pos _ _ e he
      rw [hk2] at this
      simp only [List.length_append] at this
      omega
  have hnotX : ∀ e ∈ entriesOf (parentLegs pp).length (A ++ B) ++
      entriesOf ((parentLegs pp).length + ((A ++ c :: B).length + oP) - 1) K,
      e.2.2 ∉ parentLegs pp := by
    intro e he
    rcases List.mem_append.mp he with he | he
    · have := entriesOf_label_mem _ _ e he
      rw [this.1]
      apply nb_notin_parentLegs
      apply hpp.2.2
      have h2 := this.2
      simp only [List.mem_append] at h2 ⊢
      rcases h2 with h2 | h2
      · exact Or.inl h2
      · exact Or.inr (Or.inl h2)
    · have := entriesOf_label_mem _ _ e he
      rw [this.1]
      apply nb_notin_parentLegs
      apply hpp.2.2
      simp only [List.mem_append]
      exact Or.inr (Or.inr this.2)
  have hnotM : ∀ e ∈ entriesOf ((parentLegs pp).length + ((A ++ c :: B).length + oP) - 1) K,
      e.2.2 ∉ physL p oP := by
    intro e he
    have := entriesOf_label_mem _ _ e he
    rw [this.1]
    exact nb_notin_physL _ _ _
  have hnd : ((entriesOf (parentLegs pp).length (A ++ B) ++
      entriesOf ((parentLegs pp).length + ((A ++ c :: B).length + oP) - 1) K).map (·.2.2)).Nodup := by
    rw [List.map_append, entriesOf_labels, entriesOf_labels, ← List.map_append]
    exact nodup_map_nb _ hk
  constructor
  · have := openLegsToChildren_two _ _ _ _ _ _ _ _ hl1 hl2 hl hnv hpos hnotX hnotM hnd
    rw [this]
    simp [entriesOf_ids, entriesOf_labels]
  · have := openLegsToChildren_two_rev _ _ _ _ _ _ _ _ hl1 hl2 hl hnv hpos hnotX hnotM hnd
    rw [this]
    simp [entriesOf_ids, entriesOf_labels]

theorem neighbourIndex_child {p c : Nat} {pp : Option Nat} {A B K : List Nat} (oP : Nat)
    (h : PairOK p c pp A B K) :
    (mkNode p pp (A ++ c :: B) oP).neighbourIndex c = some (A.length + (parentLegs pp).length) := by
  have hc := h.c_notin
  have hpp := h.pp_ne
  unfold MNode.neighbourIndex
  have hm : c ∈ A ++ c :: B := by simp
  simp only [mkNode_parent, hpp.2.1, if_false, mkNode_children, hm, if_true, mkNode_nparents]
  rw [List.idxOf_append]
  simp [hc.1]

theorem contract_parentFirst {p c : Nat} {pp : Option Nat} {A B K : List Nat} (oP oC : Nat)
    (h : PairOK p c pp A B K) :
    contractNodes p (mkNode p pp (A ++ c :: B) oP) c (mkNode c (some p) K oC) =
      some ⟨pp, (A ++ B) ++ K,
        parentLegs pp ++ ((A ++ B).map Leg.nb ++ (K.map Leg.nb ++ (physL p oP ++ physL c oC)))⟩ := by
  have hc := h.c_notin
  unfold contractNodes
  simp only [mkNode_parent, if_true, Option.bind_some, neighbourIndex_child oP h, dataContraction]
  have := attachParent_raw p c pp A B K oP oC
  unfold rawLegs at this
  rw [this, Option.bind_some]
  simp only [erase_child A B c hc.1, mkNode_nparents, mkNode_nlegs, mkNode_children,
    mkNode_nopen]
  have h2 := (contract_children oP oC h).1
  unfold rawLegs at h2
  rw [h2, Option.bind_some]
  simp

theorem contract_childFirst {p c : Nat} {pp : Option Nat} {A B K : List Nat} (oP oC : Nat)
    (h : PairOK p c pp A B K) :
    contractNodes c (mkNode c (some p) K oC) p (mkNode p pp (A ++ c :: B) oP) =
      some ⟨pp, K ++ (A ++ B),
        parentLegs pp ++ (K.map Leg.nb ++ ((A ++ B).map Leg.nb ++ (physL c oC ++ physL p oP)))⟩ := by
  have hc := h.c_notin
  have hpp := h.pp_ne
  have hp := h.p_notin
  unfold contractNodes
  have hne : p ≠ c := hp.2.2.2
  have hne' : c ≠ p := fun e => hne e.symm
  simp only [mkNode_parent, hpp.2.1, if_false, if_true, Option.bind_some,
    neighbourIndex_child oP h, dataContraction]
  have := attachParent_raw p c pp A B K oP oC
  unfold rawLegs at this
  rw [this, Option.bind_some]
  simp only [hne, if_false, erase_child A B c hc.1, mkNode_nparents, mkNode_nlegs, mkNode_children,
    mkNode_nopen]
  have h2 := (contract_children oP oC h).2
  unfold rawLegs at h2
  rw [h2, Option.bind_some]
  simp only [ne_eq, hne', not_false_eq_true, if_true]
  have hx := exchangeRanges_blocks (parentLegs pp ++ (K.map Leg.nb ++ (A ++ B).map Leg.nb))
    (physL p oP) (physL c oC)
  have hnv : (⟨pp, K ++ (A ++ B), parentLegs pp ++ (K.map Leg.nb ++ ((A ++ B).map Leg.nb ++
      (physL p oP ++ physL c oC)))⟩ : MNode).nvirt =
      (parentLegs pp ++ (K.map Leg.nb ++ (A ++ B).map Leg.nb)).length := by
    simp [MNode.nvirt, nparents_eq]
  have hleg : parentLegs pp ++ (K.map Leg.nb ++ ((A ++ B).map Leg.nb ++ (physL p oP ++ physL c oC))) =
      (parentLegs pp ++ (K.map Leg.nb ++ (A ++ B).map Leg.nb)) ++ (physL p oP ++ physL c oC) := by
    simp
  rw [hnv]
  simp only [MNode.nlegs]
  rw [hleg]
  have hlen : (physL p oP).length = oP := physL_length _ _
  rw [hlen] at hx
  rw [hx]
  simp


/-! ### stage 3: `absorb_into_open_legs` -/

theorem gateLegs_length (k : Nat) : (gateLegs k).length = 2 * k := by
  simp [gateLegs]; omega

theorem absorb_general (n : MNode) (V O : List Leg) (hl : n.legs = V ++ O)
    (hnv : n.nvirt = V.length) :
    absorbIntoOpenLegs n (gateLegs n.nopen) =
      some (⟨n.parent, n.children, V ++ (List.range O.length).map Leg.gout⟩,
            O.zip ((List.range O.length).map Leg.gin)) := by
  have hno : n.nopen = O.length := by
    simp only [MNode.nopen, MNode.nlegs, hl, hnv, List.length_append]; omega
  unfold absorbIntoOpenLegs
  rw [hno]
  have h1 : ¬ ((gateLegs O.length).length ≠ 2 * O.length) := by simp [gateLegs_length]
  simp only [h1, if_false]
  have hopen : n.openLegs = List.range' V.length O.length := by
    simp only [MNode.openLegs, MNode.nlegs, hl, hnv, List.length_append]
    congr 1; omega
  rw [hopen, map_add_range, hl]
  unfold tensordot
  have h2 : ¬ ((List.range' V.length O.length).length ≠ (List.range' O.length O.length).length) := by
    simp
  simp only [h2, if_false]
  have hp1 : pick (V ++ O) (List.range' V.length O.length) = some O := by
    have := pick_range' O [] V
    simpa using this
  have hp2 : pick (gateLegs O.length) (List.range' O.length O.length) =
      some ((List.range O.length).map Leg.gin) := by
    have := pick_range' ((List.range O.length).map Leg.gin) [] ((List.range O.length).map Leg.gout)
    simpa [gateLegs] using this
  have hr1 : removeIdxs (List.range' V.length O.length) 0 (V ++ O) = V := removeIdxs_suffix V O
  have hr2 : removeIdxs (List.range' O.length O.length) 0 (gateLegs O.length) =
      (List.range O.length).map Leg.gout := by
    have := removeIdxs_suffix ((List.range O.length).map Leg.gout) ((List.range O.length).map Leg.gin)
    simpa [gateLegs] using this
  rw [hp1, hp2, hr1, hr2]
  rfl

theorem range_map_gout (a b : Nat) :
    (List.range (a + b)).map Leg.gout = goutL 0 a ++ goutL a b := by
  unfold goutL
  rw [← List.map_append, List.range_eq_range']
  congr 1
  have := @List.range'_append 0 a b 1
  simp at this
  exact this.symm


/-! ### stage 4: `split_nodes` -/

/-- `find_leg_values` of a recorded specification relative to the absorbed node, and the legs it
    selects: the block `ks` of children and the block `Gs` of open legs. -/
theorem spec_values (n : MNode) (pp pl : Option Nat) (L1 ks L2 : List Nat) (G0 Gs G3 : List Leg)
    (r : Bool) (s : Nat)
    (hpar : n.parent = pp) (hch : n.children = L1 ++ (ks ++ L2))
    (hlegs : n.legs = parentLegs pp ++ ((L1 ++ (ks ++ L2)).map Leg.nb ++ (G0 ++ (Gs ++ G3))))
    (hs : s = (parentLegs pp ++ ((L1 ++ (ks ++ L2)).map Leg.nb ++ G0)).length)
    (hnd : (L1 ++ ks).Nodup) (hpp : ∀ k ∈ ks, pp ≠ some k) :
    (⟨pl, ks, List.range' s Gs.length, r⟩ : LegSpec).findLegValues n =
        some ((if pl.isSome then [0] else []) ++
          List.range' ((parentLegs pp).length + L1.length) ks.length ++ List.range' s Gs.length) ∧
    pick n.legs (List.range' ((parentLegs pp).length + L1.length) ks.length ++ List.range' s Gs.length) =
        some (ks.map Leg.nb ++ Gs) := by
  constructor
  · unfold LegSpec.findLegValues
    have := neighbourIndices_block n ks L2 L1 hch hnd (by rw [hpar]; exact hpp)
    have hnp : n.nparents = (parentLegs pp).length := by
      cases n; simp only at hpar; subst hpar; exact nparents_eq _ _ _
    rw [this, hnp]
    rfl
  · apply pick_append
    · have h1 : n.legs = (parentLegs pp ++ L1.map Leg.nb) ++ (ks.map Leg.nb ++
          (L2.map Leg.nb ++ (G0 ++ (Gs ++ G3)))) := by rw [hlegs]; simp
      have := pick_range' (ks.map Leg.nb) (L2.map Leg.nb ++ (G0 ++ (Gs ++ G3)))
        (parentLegs pp ++ L1.map Leg.nb)
      rw [h1]
      simpa using this
    · have h1 : n.legs = (parentLegs pp ++ ((L1 ++ (ks ++ L2)).map Leg.nb ++ G0)) ++ (Gs ++ G3) := by
        rw [hlegs]; simp
      have := pick_range' Gs G3 (parentLegs pp ++ ((L1 ++ (ks ++ L2)).map Leg.nb ++ G0))
      rw [h1, hs]
      exact this

theorem openLegToParent_last (Y : List Leg) (x : Leg) (pid : Nat) :
    (⟨none, [], Y ++ [x]⟩ : MNode).openLegToParent pid ((⟨none, [], Y ++ [x]⟩ : MNode).nlegs - 1) =
      some ⟨some pid, [], x :: Y⟩ := by
  have h1 : (⟨none, [], Y ++ [x]⟩ : MNode).nlegs - 1 = Y.length := by simp [MNode.nlegs]
  rw [h1]
  unfold MNode.openLegToParent
  have h2 : (Y ++ [x])[Y.length]? = some x := by simp
  simp only [MNode.nopen, MNode.nlegs, MNode.nvirt, MNode.nparents, h2]
  simp only [dropAt_mid, pyInsert_zero]
  simp

theorem openLegToParent_second (b x : Leg) (rest : List Leg) (pid : Nat) :
    (⟨none, [], b :: x :: rest⟩ : MNode).openLegToParent pid 1 = some ⟨some pid, [], x :: b :: rest⟩ := by
  simp [MNode.openLegToParent, MNode.nopen, MNode.nlegs, MNode.nvirt, MNode.nparents, dropAt,
    pyInsert]

/-- The child node after the split: the new bond is its parent leg, children in recorded order. -/
theorem childNode_children (pid : Nat) (K : List Nat) (G : List Leg) (hK : K.Nodup) :
    (⟨some pid, [], Leg.bond :: (K.map Leg.nb ++ G)⟩ : MNode).openLegsToChildren (enumFrom 1 K) =
      some ⟨some pid, K, Leg.bond :: (K.map Leg.nb ++ G)⟩ := by
  have hl := lookupLegs_block (Leg.bond :: (K.map Leg.nb ++ G)) K G [Leg.bond] rfl
  have := openLegsToChildren_move ⟨some pid, [], Leg.bond :: (K.map Leg.nb ++ G)⟩ (enumFrom 1 K)
    (entriesOf 1 K) [Leg.bond] [] G hl (by simp [entriesOf_labels])
    (by simp [MNode.nvirt, MNode.nparents])
    (entriesOf_pos _ _)
    (by
      intro e he
      have := entriesOf_label_mem _ _ e he
      rw [this.1]; simp)
    (by rw [entriesOf_labels]; exact nodup_map_nb _ hK)
  rw [this]
  simp [entriesOf_ids, entriesOf_labels]

theorem bond_notin_parentLegs (pp : Option Nat) : Leg.bond ∉ parentLegs pp := by
  cases pp <;> simp [parentLegs]

/-- The parent node after the split when it is the out (U) node: the bond, created last, becomes
    the first child leg. -/
theorem parentNode_out (pp : Option Nat) (cid pos : Nat) (AB : List Nat) (G : List Leg)
    (hAB : AB.Nodup) (hpp : ∀ k ∈ AB, pp ≠ some k) (hbG : Leg.bond ∉ G)
    (hpos : pos = (parentLegs pp ++ (AB.map Leg.nb ++ G)).length) :
    (⟨pp, [], (parentLegs pp ++ (AB.map Leg.nb ++ G)) ++ [Leg.bond]⟩ : MNode).openLegsToChildren
        ([(cid, pos)] ++ enumFrom (parentLegs pp).length AB) =
      some ⟨pp, cid :: AB, parentLegs pp ++ (Leg.bond :: (AB.map Leg.nb ++ G))⟩ := by
  have hl2 : MNode.lookupLegs ((parentLegs pp ++ (AB.map Leg.nb ++ G)) ++ [Leg.bond]) [(cid, pos)] =
      some [(cid, pos, Leg.bond)] := by
    apply lookupLegs_single
    rw [hpos]
    exact getElem?_mid _ _ _
  have hl1 : MNode.lookupLegs ((parentLegs pp ++ (AB.map Leg.nb ++ G)) ++ [Leg.bond])
      (enumFrom (parentLegs pp).length AB) = some (entriesOf (parentLegs pp).length AB) :=
    lookupLegs_block _ AB (G ++ [Leg.bond]) (parentLegs pp) (by simp)
  have := openLegsToChildren_two_rev
    ⟨pp, [], (parentLegs pp ++ (AB.map Leg.nb ++ G)) ++ [Leg.bond]⟩ _ _ _ _ (parentLegs pp) G []
    hl1 hl2
    (by simp [entriesOf_labels])
    (by simp [MNode.nvirt, nparents_eq])
    (by
      intro e he
      rcases List.mem_append.mp he with he | he
      · exact entriesOf_pos _ _ e he
      · simp only [List.mem_singleton] at he
        subst he
        simp only [hpos, List.length_append]
        omega)
    (by
      intro e he
      rcases List.mem_append.mp he with he | he
      · have := entriesOf_label_mem _ _ e he
        rw [this.1]
        exact nb_notin_parentLegs _ _ (hpp _ this.2)
      · simp only [List.mem_singleton] at he
        subst he
        exact bond_notin_parentLegs pp)
    (by
      intro e he
      simp only [List.mem_singleton] at he
      subst he
      exact hbG)
    (by
      rw [List.map_append, entriesOf_labels, List.nodup_append]
      refine ⟨nodup_map_nb _ hAB, by simp, ?_⟩
      intro a ha b hb
      simp only [List.map_cons, List.map_nil, List.mem_singleton] at hb
      subst hb
      intro e
      subst e
      simp at ha)
  rw [this]
  simp [entriesOf_ids, entriesOf_labels]

/-- The parent node after the split when it is the in (V) node: the bond, created first, stays the
    first child leg. -/
theorem parentNode_in (pp : Option Nat) (cid : Nat) (AB : List Nat) (G : List Leg)
    (hAB : AB.Nodup) (hpp : ∀ k ∈ AB, pp ≠ some k) :
    (⟨pp, [], parentLegs pp ++ (Leg.bond :: (AB.map Leg.nb ++ G))⟩ : MNode).openLegsToChildren
        ([(cid, (parentLegs pp).length)] ++ enumFrom ((parentLegs pp).length + 1) AB) =
      some ⟨pp, cid :: AB, parentLegs pp ++ (Leg.bond :: (AB.map Leg.nb ++ G))⟩ := by
  have hl1 : MNode.lookupLegs (parentLegs pp ++ (Leg.bond :: (AB.map Leg.nb ++ G)))
      [(cid, (parentLegs pp).length)] = some [(cid, (parentLegs pp).length, Leg.bond)] := by
    apply lookupLegs_single
    exact getElem?_mid _ _ _
  have hl2 : MNode.lookupLegs (parentLegs pp ++ (Leg.bond :: (AB.map Leg.nb ++ G)))
      (enumFrom ((parentLegs pp).length + 1) AB) = some (entriesOf ((parentLegs pp).length + 1) AB) := by
    have := lookupLegs_block (parentLegs pp ++ (Leg.bond :: (AB.map Leg.nb ++ G))) AB G
      (parentLegs pp ++ [Leg.bond]) (by simp)
    simpa using this
  have := openLegsToChildren_two
    ⟨pp, [], parentLegs pp ++ (Leg.bond :: (AB.map Leg.nb ++ G))⟩ _ _ _ _ (parentLegs pp) [] G
    hl1 hl2
    (by simp [entriesOf_labels])
    (by simp [MNode.nvirt, nparents_eq])
    (by
      intro e he
      rcases List.mem_append.mp he with he | he
      · simp only [List.mem_singleton] at he
        subst he
        simp
      · have := entriesOf_pos _ _ e he
        omega)
    (by
      intro e he
      rcases List.mem_append.mp he with he | he
      · simp only [List.mem_singleton] at he
        subst he
        exact bond_notin_parentLegs pp
      · have := entriesOf_label_mem _ _ e he
        rw [this.1]
        exact nb_notin_parentLegs _ _ (hpp _ this.2))
    (by intro e _; simp)
    (by
      rw [List.map_append, entriesOf_labels, List.nodup_append]
      refine ⟨by simp, nodup_map_nb _ hAB, ?_⟩
      intro a ha b hb
      simp only [List.map_cons, List.map_nil, List.mem_singleton] at ha
      subst ha
      intro e
      subst e
      simp at hb)
  rw [this]
  simp [entriesOf_ids, entriesOf_labels]


theorem nodup_ranges5 (np a k o1 o2 s1 s2 : Nat) (h1 : s1 = np + a + k) (h2 : s2 = s1 + o1) :
    ((List.range' 0 np ++ List.range' np a ++ List.range' s1 o1) ++
      (List.range' (np + a) k ++ List.range' s2 o2)).Nodup := by
  subst h1 h2
  simp only [List.nodup_append, List.mem_append, List.mem_range'_1]
  refine ⟨⟨⟨List.nodup_range', List.nodup_range', ?_⟩, List.nodup_range', ?_⟩,
    ⟨List.nodup_range', List.nodup_range', ?_⟩, ?_⟩
  all_goals (intro x hx y hy; omega)

theorem nodup_ranges5' (np a k o1 o2 s1 s2 : Nat) (h1 : s1 = np + k + a) (h2 : s2 = s1 + o1) :
    ((List.range' np k ++ List.range' s1 o1) ++
      (List.range' 0 np ++ List.range' (np + k) a ++ List.range' s2 o2)).Nodup := by
  subst h1 h2
  simp only [List.nodup_append, List.mem_append, List.mem_range'_1]
  refine ⟨⟨List.nodup_range', List.nodup_range', ?_⟩,
    ⟨⟨List.nodup_range', List.nodup_range', ?_⟩, List.nodup_range', ?_⟩, ?_⟩
  all_goals (intro x hx y hy; omega)


theorem bond_notin_goutL (s n : Nat) : Leg.bond ∉ goutL s n := by simp [goutL]

theorem parentIdx_pick (pp : Option Nat) (rest : List Leg) :
    pick (parentLegs pp ++ rest) (if pp.isSome then [0] else []) = some (parentLegs pp) := by
  cases pp <;> simp [parentLegs, pick]

theorem parentIdx_eq (pp : Option Nat) :
    (if pp.isSome then [0] else []) = List.range' 0 (parentLegs pp).length := by
  cases pp <;> simp [parentLegs]

/-- The absorbed node, parent-first order. -/
def absP (pp : Option Nat) (A B K : List Nat) (oP oC : Nat) : MNode :=
  ⟨pp, (A ++ B) ++ K,
    parentLegs pp ++ ((A ++ B).map Leg.nb ++ (K.map Leg.nb ++ (goutL 0 oP ++ goutL oP oC)))⟩

theorem split_parentFirst {p c : Nat} {pp : Option Nat} {A B K : List Nat} (oP oC : Nat)
    (h : PairOK p c pp A B K) :
    splitNode (absP pp A B K oP oC)
      ⟨pp, A ++ B, List.range' ((parentLegs pp).length + (A.length + (B.length + K.length))) oP, pp.isNone⟩
      ⟨none, K, List.range' ((parentLegs pp).length + (A.length + (B.length + K.length)) + oP) oC, false⟩
      p c =
    some (⟨pp, c :: (A ++ B), parentLegs pp ++ (Leg.bond :: ((A ++ B).map Leg.nb ++ goutL 0 oP))⟩,
          ⟨some p, K, Leg.bond :: (K.map Leg.nb ++ goutL oP oC)⟩) := by
  have hk := h.kids
  rw [← List.append_assoc] at hk
  have hpp := h.pp_ne
  have hAB : (A ++ B).Nodup := (List.nodup_append.mp hk).1
  have hK : K.Nodup := (List.nodup_append.mp hk).2.1
  have hppAB : ∀ k ∈ A ++ B, pp ≠ some k := by
    intro k hk'
    apply hpp.2.2
    simp only [List.mem_append] at hk' ⊢
    rcases hk' with h1 | h1
    · exact Or.inl h1
    · exact Or.inr (Or.inl h1)
  have hppK : ∀ k ∈ K, pp ≠ some k := by
    intro k hk'
    apply hpp.2.2
    simp only [List.mem_append]
    exact Or.inr (Or.inr hk')
  -- the two specifications
  have ho := spec_values (absP pp A B K oP oC) pp pp [] (A ++ B) K [] (goutL 0 oP) (goutL oP oC)
    pp.isNone ((parentLegs pp).length + (A.length + (B.length + K.length)))
    rfl (by simp [absP]) (by simp [absP]) (by simp <;> omega) (by simpa using hAB) hppAB
  have hi := spec_values (absP pp A B K oP oC) pp none (A ++ B) K [] (goutL 0 oP) (goutL oP oC) []
    false ((parentLegs pp).length + (A.length + (B.length + K.length)) + oP)
    rfl (by simp [absP]) (by simp [absP]) (by simp <;> omega) (by simpa using hk) hppK
  simp only [goutL_length, List.length_nil, Nat.add_zero, List.length_append] at ho hi
  unfold splitNode
  rw [ho.1, hi.1]
  simp only [Option.bind_some, Option.isSome_none, Bool.false_eq_true, if_false, List.nil_append]
  -- the transposition is a permutation of all legs
  have hcheck : ¬ (((if pp.isSome = true then [0] else []) ++
        List.range' (parentLegs pp).length (A.length + B.length) ++
        List.range' ((parentLegs pp).length + (A.length + (B.length + K.length))) oP ++
      (List.range' ((parentLegs pp).length + (A.length + B.length)) K.length ++
        List.range' ((parentLegs pp).length + (A.length + (B.length + K.length)) + oP) oC)).length ≠
        (absP pp A B K oP oC).nlegs ∨
      ¬ ((if pp.isSome = true then [0] else []) ++
        List.range' (parentLegs pp).length (A.length + B.length) ++
        List.range' ((parentLegs pp).length + (A.length + (B.length + K.length))) oP ++
      (List.range' ((parentLegs pp).length + (A.length + B.length)) K.length ++
        List.range' ((parentLegs pp).length + (A.length + (B.length + K.length)) + oP) oC)).Nodup) := by
    rw [parentIdx_eq]
    intro hor
    rcases hor with hlen | hnd
    · apply hlen
      simp [absP, MNode.nlegs]
      omega
    · apply hnd
      exact nodup_ranges5 _ _ _ _ _ _ _ (by omega) rfl
  rw [if_neg hcheck]
  -- the legs of the two new tensors
  have hol : pick (absP pp A B K oP oC).legs
      ((if pp.isSome = true then [0] else []) ++
        List.range' (parentLegs pp).length (A.length + B.length) ++
        List.range' ((parentLegs pp).length + (A.length + (B.length + K.length))) oP) =
      some (parentLegs pp ++ ((A ++ B).map Leg.nb ++ goutL 0 oP)) := by
    rw [List.append_assoc]
    exact pick_append _ _ _ _ _ (parentIdx_pick pp _) ho.2
  rw [hol, hi.2]
  simp only [Option.bind_some]
  rw [openLegToParent_head, Option.bind_some, childNode_children p K (goutL oP oC) hK,
    Option.bind_some]
  have hbG : Leg.bond ∉ goutL 0 oP := bond_notin_goutL _ _
  cases pp with
  | none =>
    simp only [parentLegs, List.nil_append, Option.isNone_none, if_true, Option.bind_some,
      Bool.or_self, Bool.false_eq_true, if_false, Option.isSome_none]
    have := parentNode_out none c
      ((⟨none, [], (A ++ B).map Leg.nb ++ goutL 0 oP ++ [Leg.bond]⟩ : MNode).nlegs - 1) (A ++ B)
      (goutL 0 oP) hAB hppAB hbG (by simp [MNode.nlegs, parentLegs] <;> omega)
    simp [parentLegs, MNode.nlegs] at this ⊢
    simp [this]
  | some x =>
    simp only [parentLegs, List.singleton_append, List.cons_append, Option.isNone_some,
      Bool.false_eq_true, if_false, Bool.or_self, Option.isSome_some, if_true]
    rw [openLegToParent_head, Option.bind_some, Option.bind_some]
    have := parentNode_out (some x) c
      ((⟨some x, [], Leg.nb x :: ((A ++ B).map Leg.nb ++ goutL 0 oP ++ [Leg.bond])⟩ : MNode).nlegs - 1)
      (A ++ B) (goutL 0 oP) hAB hppAB hbG (by simp [MNode.nlegs, parentLegs] <;> omega)
    simp [parentLegs, MNode.nlegs] at this ⊢
    simp [this]


theorem nodup_append_swap {α : Type} {l1 l2 : List α} (h : (l1 ++ l2).Nodup) : (l2 ++ l1).Nodup := by
  rw [List.nodup_append] at h ⊢
  exact ⟨h.2.1, h.1, fun a ha b hb e => h.2.2 b hb a ha e.symm⟩

/-- The absorbed node, child-first order. -/
def absC (pp : Option Nat) (A B K : List Nat) (oP oC : Nat) : MNode :=
  ⟨pp, K ++ (A ++ B),
    parentLegs pp ++ (K.map Leg.nb ++ ((A ++ B).map Leg.nb ++ (goutL 0 oC ++ goutL oC oP)))⟩

theorem split_childFirst {p c : Nat} {pp : Option Nat} {A B K : List Nat} (oP oC : Nat)
    (h : PairOK p c pp A B K) :
    splitNode (absC pp A B K oP oC)
      ⟨none, K, List.range' ((parentLegs pp).length + (A.length + (B.length + K.length))) oC, false⟩
      ⟨pp, A ++ B, List.range' ((parentLegs pp).length + (A.length + (B.length + K.length)) + oC) oP, pp.isNone⟩
      c p =
    some (⟨some p, K, Leg.bond :: (K.map Leg.nb ++ goutL 0 oC)⟩,
          ⟨pp, c :: (A ++ B), parentLegs pp ++ (Leg.bond :: ((A ++ B).map Leg.nb ++ goutL oC oP))⟩) := by
  have hk := h.kids
  rw [← List.append_assoc] at hk
  have hpp := h.pp_ne
  have hAB : (A ++ B).Nodup := (List.nodup_append.mp hk).1
  have hK : K.Nodup := (List.nodup_append.mp hk).2.1
  have hk' : (K ++ (A ++ B)).Nodup := nodup_append_swap hk
  have hppAB : ∀ k ∈ A ++ B, pp ≠ some k := by
    intro k hk'
    apply hpp.2.2
    simp only [List.mem_append] at hk' ⊢
    rcases hk' with h1 | h1
    · exact Or.inl h1
    · exact Or.inr (Or.inl h1)
  have hppK : ∀ k ∈ K, pp ≠ some k := by
    intro k hk'
    apply hpp.2.2
    simp only [List.mem_append]
    exact Or.inr (Or.inr hk')
  have ho := spec_values (absC pp A B K oP oC) pp none [] K (A ++ B) [] (goutL 0 oC) (goutL oC oP)
    false ((parentLegs pp).length + (A.length + (B.length + K.length)))
    rfl (by simp [absC]) (by simp [absC]) (by simp <;> omega) (by simpa using hK) hppK
  have hi := spec_values (absC pp A B K oP oC) pp pp K (A ++ B) [] (goutL 0 oC) (goutL oC oP) []
    pp.isNone ((parentLegs pp).length + (A.length + (B.length + K.length)) + oC)
    rfl (by simp [absC]) (by simp [absC]) (by simp <;> omega) hk' hppAB
  simp only [goutL_length, List.length_nil, Nat.add_zero, List.length_append] at ho hi
  unfold splitNode
  rw [ho.1, hi.1]
  simp only [Option.bind_some, Option.isSome_none, Bool.false_eq_true, if_false, List.nil_append]
  have hcheck : ¬ ((List.range' (parentLegs pp).length K.length ++
        List.range' ((parentLegs pp).length + (A.length + (B.length + K.length))) oC ++
      ((if pp.isSome = true then [0] else []) ++
        List.range' ((parentLegs pp).length + K.length) (A.length + B.length) ++
        List.range' ((parentLegs pp).length + (A.length + (B.length + K.length)) + oC) oP)).length ≠
        (absC pp A B K oP oC).nlegs ∨
      ¬ (List.range' (parentLegs pp).length K.length ++
        List.range' ((parentLegs pp).length + (A.length + (B.length + K.length))) oC ++
      ((if pp.isSome = true then [0] else []) ++
        List.range' ((parentLegs pp).length + K.length) (A.length + B.length) ++
        List.range' ((parentLegs pp).length + (A.length + (B.length + K.length)) + oC) oP)).Nodup) := by
    rw [parentIdx_eq]
    intro hor
    rcases hor with hlen | hnd
    · apply hlen
      simp [absC, MNode.nlegs]
      omega
    · apply hnd
      exact nodup_ranges5' _ _ _ _ _ _ _ (by omega) rfl
  rw [if_neg hcheck]
  have hil : pick (absC pp A B K oP oC).legs
      ((if pp.isSome = true then [0] else []) ++
        List.range' ((parentLegs pp).length + K.length) (A.length + B.length) ++
        List.range' ((parentLegs pp).length + (A.length + (B.length + K.length)) + oC) oP) =
      some (parentLegs pp ++ ((A ++ B).map Leg.nb ++ goutL oC oP)) := by
    rw [List.append_assoc]
    exact pick_append _ _ _ _ _ (parentIdx_pick pp _) hi.2
  rw [ho.2, hil]
  simp only [Option.bind_some]
  rw [openLegToParent_last]
  cases pp with
  | none =>
    simp only [parentLegs, List.nil_append, Option.isNone_none, if_true, Option.bind_some,
      Bool.true_or]
    rw [childNode_children p K (goutL 0 oC) hK]
    have := parentNode_in none c (A ++ B) (goutL oC oP) hAB hppAB
    simp [parentLegs] at this ⊢
    simp [this]
  | some x =>
    simp only [parentLegs, List.singleton_append, Option.isNone_some, Bool.false_eq_true, if_false,
      Option.isSome_some, if_true, Bool.false_or, Option.bind_some]
    rw [openLegToParent_second]
    simp only [Option.bind_some]
    rw [childNode_children p K (goutL 0 oC) hK]
    have := parentNode_in (some x) c (A ++ B) (goutL oC oP) hAB hppAB
    simp [parentLegs] at this ⊢
    simp [this]


/-! ### the whole two-site application -/

theorem twoSite_parentFirst {p c : Nat} {pp : Option Nat} {A B K : List Nat} (oP oC : Nat)
    (h : PairOK p c pp A B K) :
    twoSite p (mkNode p pp (A ++ c :: B) oP) c (mkNode c (some p) K oC) =
      some ⟨⟨pp, A ++ B, List.range' ((parentLegs pp).length + (A.length + (B.length + K.length))) oP, pp.isNone⟩,
            ⟨none, K, List.range' ((parentLegs pp).length + (A.length + (B.length + K.length)) + oP) oC, false⟩,
            ⟨pp, (A ++ B) ++ K,
              parentLegs pp ++ ((A ++ B).map Leg.nb ++ (K.map Leg.nb ++ (physL p oP ++ physL c oC)))⟩,
            absP pp A B K oP oC,
            (physL p oP ++ physL c oC).zip ((List.range (oP + oC)).map Leg.gin),
            ⟨pp, c :: (A ++ B), parentLegs pp ++ (Leg.bond :: ((A ++ B).map Leg.nb ++ goutL 0 oP))⟩,
            ⟨some p, K, Leg.bond :: (K.map Leg.nb ++ goutL oP oC)⟩⟩ := by
  unfold twoSite
  simp only [legsBefore_parentFirst oP oC h, contract_parentFirst oP oC h, Option.bind_some]
  have ha := absorb_general
    ⟨pp, (A ++ B) ++ K, parentLegs pp ++ ((A ++ B).map Leg.nb ++ (K.map Leg.nb ++ (physL p oP ++ physL c oC)))⟩
    (parentLegs pp ++ ((A ++ B).map Leg.nb ++ K.map Leg.nb)) (physL p oP ++ physL c oC)
    (by simp) (by simp [MNode.nvirt, nparents_eq])
  have hlen : (physL p oP ++ physL c oC).length = oP + oC := by simp
  rw [hlen, range_map_gout] at ha
  simp only [ha, Option.bind_some]
  have hab : (⟨pp, (A ++ B) ++ K, (parentLegs pp ++ ((A ++ B).map Leg.nb ++ K.map Leg.nb)) ++
      (goutL 0 oP ++ goutL oP oC)⟩ : MNode) = absP pp A B K oP oC := by
    simp [absP]
  simp only [hab, split_parentFirst oP oC h, Option.bind_some]

theorem twoSite_childFirst {p c : Nat} {pp : Option Nat} {A B K : List Nat} (oP oC : Nat)
    (h : PairOK p c pp A B K) :
    twoSite c (mkNode c (some p) K oC) p (mkNode p pp (A ++ c :: B) oP) =
      some ⟨⟨none, K, List.range' ((parentLegs pp).length + (A.length + (B.length + K.length))) oC, false⟩,
            ⟨pp, A ++ B, List.range' ((parentLegs pp).length + (A.length + (B.length + K.length)) + oC) oP, pp.isNone⟩,
            ⟨pp, K ++ (A ++ B),
              parentLegs pp ++ (K.map Leg.nb ++ ((A ++ B).map Leg.nb ++ (physL c oC ++ physL p oP)))⟩,
            absC pp A B K oP oC,
            (physL c oC ++ physL p oP).zip ((List.range (oC + oP)).map Leg.gin),
            ⟨some p, K, Leg.bond :: (K.map Leg.nb ++ goutL 0 oC)⟩,
            ⟨pp, c :: (A ++ B), parentLegs pp ++ (Leg.bond :: ((A ++ B).map Leg.nb ++ goutL oC oP))⟩⟩ := by
  unfold twoSite
  simp only [legsBefore_childFirst oP oC h, contract_childFirst oP oC h, Option.bind_some]
  have ha := absorb_general
    ⟨pp, K ++ (A ++ B), parentLegs pp ++ (K.map Leg.nb ++ ((A ++ B).map Leg.nb ++ (physL c oC ++ physL p oP)))⟩
    (parentLegs pp ++ (K.map Leg.nb ++ (A ++ B).map Leg.nb)) (physL c oC ++ physL p oP)
    (by simp) (by simp [MNode.nvirt, nparents_eq])
  have hlen : (physL c oC ++ physL p oP).length = oC + oP := by simp
  rw [hlen, range_map_gout] at ha
  simp only [ha, Option.bind_some]
  have hab : (⟨pp, K ++ (A ++ B), (parentLegs pp ++ (K.map Leg.nb ++ (A ++ B).map Leg.nb)) ++
      (goutL 0 oC ++ goutL oC oP)⟩ : MNode) = absC pp A B K oP oC := by
    simp [absC]
  simp only [hab, split_childFirst oP oC h, Option.bind_some]

theorem singleSite_mkNode (id : Nat) (par : Option Nat) (ch : List Nat) (o : Nat) :
    singleSite (mkNode id par ch o) =
      some (⟨par, ch, parentLegs par ++ (ch.map Leg.nb ++ goutL 0 o)⟩,
            (physL id o).zip ((List.range o).map Leg.gin)) := by
  unfold singleSite
  have ha := absorb_general (mkNode id par ch o) (parentLegs par ++ ch.map Leg.nb) (physL id o)
    (by simp) (by simp)
  have hlen : (physL id o).length = o := by simp
  rw [hlen] at ha
  rw [ha]
  have : (List.range o).map Leg.gout = goutL 0 o := by
    have := range_map_gout o 0
    simpa [goutL] using this
  simp [this]


/-! ### tree level -/

theorem findNode_of_mem (t : List TNode) (n : TNode) (hnd : (t.map (·.id)).Nodup) (hm : n ∈ t) :
    findNode t n.id = some n := by
  induction t with
  | nil => simp at hm
  | cons x xs ih =>
    simp only [List.map_cons, List.nodup_cons] at hnd
    unfold findNode
    rw [List.find?_cons]
    rcases List.mem_cons.mp hm with rfl | hm'
    · simp
    · have hne : x.id ≠ n.id := by
        intro e
        apply hnd.1
        rw [e]
        exact List.mem_map_of_mem hm'
      have : (x.id == n.id) = false := by simp [hne]
      rw [this]
      exact ih hnd.2 hm'

theorem eq_of_mem_of_id (t : List TNode) (n x : TNode) (hnd : (t.map (·.id)).Nodup)
    (hn : n ∈ t) (hx : x ∈ t) (hid : x.id = n.id) : x = n := by
  have h1 := findNode_of_mem t n hnd hn
  have h2 := findNode_of_mem t x hnd hx
  rw [hid, h1] at h2
  exact (Option.some.inj h2).symm

/-- What a two-site gate on the pair does to the tree: the pair's child moves to the front of its
    parent's child list, nothing else changes (in particular every identifier and every parent). -/
def afterPair (t : List TNode) (p c : Nat) (A B : List Nat) : List TNode :=
  t.map fun x => if x.id = p then { x with children := c :: (A ++ B) } else x

theorem updateNodes_eq (t : List TNode) (p c : Nat) (pp : Option Nat) (A B K : List Nat)
    (l1 l2 : List Leg)
    (hnd : (t.map (·.id)).Nodup)
    (hP : (⟨p, pp, A ++ c :: B⟩ : TNode) ∈ t) (hC : (⟨c, some p, K⟩ : TNode) ∈ t) (hne : p ≠ c) :
    updateNode (updateNode t p ⟨pp, c :: (A ++ B), l1⟩) c ⟨some p, K, l2⟩ = afterPair t p c A B ∧
    updateNode (updateNode t c ⟨some p, K, l2⟩) p ⟨pp, c :: (A ++ B), l1⟩ = afterPair t p c A B := by
  unfold updateNode afterPair
  simp only [List.map_map]
  constructor
  · apply List.map_congr_left
    intro x hx
    simp only [Function.comp]
    by_cases h1 : x.id = p
    · have := eq_of_mem_of_id t ⟨p, pp, A ++ c :: B⟩ x hnd hP hx h1
      subst this
      simp [hne]
    · by_cases h2 : x.id = c
      · have := eq_of_mem_of_id t ⟨c, some p, K⟩ x hnd hC hx h2
        subst this
        simp [h1]
      · simp [h1, h2]
  · apply List.map_congr_left
    intro x hx
    simp only [Function.comp]
    by_cases h1 : x.id = p
    · have := eq_of_mem_of_id t ⟨p, pp, A ++ c :: B⟩ x hnd hP hx h1
      subst this
      simp [hne]
    · by_cases h2 : x.id = c
      · have := eq_of_mem_of_id t ⟨c, some p, K⟩ x hnd hC hx h2
        subst this
        simp [h1]
      · simp [h1, h2]

theorem applyPair_both (t : List TNode) (p c : Nat) (pp : Option Nat) (A B K : List Nat)
    (hnd : (t.map (·.id)).Nodup)
    (hP : (⟨p, pp, A ++ c :: B⟩ : TNode) ∈ t) (hC : (⟨c, some p, K⟩ : TNode) ∈ t)
    (h : PairOK p c pp A B K) :
    applyPair t p c = some (afterPair t p c A B) ∧ applyPair t c p = some (afterPair t p c A B) := by
  have hne : p ≠ c := h.p_notin.2.2.2
  have hne' : c ≠ p := fun e => hne e.symm
  have fP := findNode_of_mem t ⟨p, pp, A ++ c :: B⟩ hnd hP
  have fC := findNode_of_mem t ⟨c, some p, K⟩ hnd hC
  simp only at fP fC
  have hu := updateNodes_eq t p c pp A B K
  constructor
  · unfold applyPair
    simp only [fP, fC, Option.bind_some, hne, if_false, twoSite_parentFirst 1 1 h, Option.map_some]
    rw [(hu _ _ hnd hP hC hne).1]
  · unfold applyPair
    simp only [fP, fC, Option.bind_some, hne', if_false, twoSite_childFirst 1 1 h, Option.map_some]
    rw [(hu _ _ hnd hP hC hne).2]


theorem afterPair_structure (t : List TNode) (p c : Nat) (pp : Option Nat) (A B : List Nat)
    (hnd : (t.map (·.id)).Nodup) (hP : (⟨p, pp, A ++ c :: B⟩ : TNode) ∈ t) :
    (afterPair t p c A B).map (·.id) = t.map (·.id) ∧
    (afterPair t p c A B).map (·.parent) = t.map (·.parent) ∧
    (∀ y ∈ afterPair t p c A B, ∃ x ∈ t, x.id = y.id ∧ x.parent = y.parent ∧
        y.children.Perm x.children) := by
  unfold afterPair
  refine ⟨?_, ?_, ?_⟩
  · rw [List.map_map]
    apply List.map_congr_left
    intro x _
    simp only [Function.comp]
    split <;> rfl
  · rw [List.map_map]
    apply List.map_congr_left
    intro x _
    simp only [Function.comp]
    split <;> rfl
  · intro y hy
    rw [List.mem_map] at hy
    obtain ⟨x, hx, rfl⟩ := hy
    refine ⟨x, hx, ?_⟩
    by_cases h1 : x.id = p
    · have := eq_of_mem_of_id t ⟨p, pp, A ++ c :: B⟩ x hnd hP hx h1
      subst this
      simp only [if_true, true_and]
      exact List.perm_middle.symm
    · simp [h1]

end Ptn.C08
