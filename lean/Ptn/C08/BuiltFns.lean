import Ptn.C08.Built
/-! Provenance, one lemma per model function of the C08 leg model ("inputs built ⟹ output built").

The `Node` bookkeeping (`open_leg_to_parent`, `open_legs_to_children`, `exchange_open_leg_ranges`) only
transposes; `contract_nodes` is ONE `tensordot` of the parent's legs with the child's legs over
`[neighbour_index(child)]`, `[0]` followed by transpositions; `absorb_into_open_legs` is ONE `tensordot` of the
node with the operator tensor over the node's open legs and the second half of the operator's legs. -/
namespace Ptn.C08

open Ptn.Ein

/-! ### the bookkeeping functions transpose -/

theorem pyInsert_perm {α : Type} (l : List α) (i : Nat) (x : α) : (pyInsert l i x).Perm (x :: l) := by
  unfold pyInsert
  refine List.perm_middle.trans (List.Perm.cons _ ?_)
  rw [List.take_append_drop]

theorem dropAt_perm {α : Type} (l : List α) (i : Nat) (x : α) (h : l[i]? = some x) :
    (x :: dropAt l i).Perm l := by
  unfold dropAt
  have hi : i < l.length := by
    rcases Nat.lt_or_ge i l.length with h' | h'
    · exact h'
    · rw [List.getElem?_eq_none h'] at h; simp at h
  have hx : l[i] = x := by
    rw [List.getElem?_eq_getElem hi] at h; simpa using h
  have hd : l.drop i = x :: l.drop (i + 1) := by
    rw [← hx]; exact List.drop_eq_getElem_cons hi
  have : l = l.take i ++ (x :: l.drop (i + 1)) := by rw [← hd, List.take_append_drop]
  exact (List.perm_middle.symm.trans (by rw [← this]))

theorem openLegToParent_perm {n m : MNode} {pid i : Nat} (h : n.openLegToParent pid i = some m) :
    m.legs.Perm n.legs := by
  unfold MNode.openLegToParent at h
  split at h
  · simp at h
  · split at h
    · simp at h
    · split at h
      · simp at h
      · split at h
        · simp at h
        · rename_i x hx
          simp only [Option.some.injEq] at h
          subst h
          exact (pyInsert_perm _ _ _).trans (dropAt_perm _ _ _ hx)

theorem attachParent_perm {n m : MNode} {pp : Option Nat} (h : attachParent n pp = some m) :
    m.legs.Perm n.legs := by
  cases pp with
  | none => simp only [attachParent, Option.some.injEq] at h; subst h; exact List.Perm.refl _
  | some x => exact openLegToParent_perm h

theorem childStep_perm {orig : Nat} {m m' : MNode} {e : Nat × Nat × Leg} (h : MNode.childStep orig m e = some m') :
    m'.legs.Perm m.legs := by
  unfold MNode.childStep at h
  split at h
  · simp at h
  · split at h
    · rename_i hmem
      simp only [Option.some.injEq] at h
      subst h
      exact (pyInsert_perm _ _ _).trans (List.perm_cons_erase hmem).symm
    · simp at h

theorem childLoop_perm {orig : Nat} : ∀ (es : List (Nat × Nat × Leg)) {m m' : MNode},
    MNode.childLoop orig m es = some m' → m'.legs.Perm m.legs
  | [], m, m', h => by simp only [MNode.childLoop, Option.some.injEq] at h; subst h; exact List.Perm.refl _
  | e :: es, m, m', h => by
    simp only [MNode.childLoop] at h
    cases h1 : MNode.childStep orig m e with
    | none => rw [h1] at h; simp at h
    | some m1 =>
      rw [h1, Option.bind_some] at h
      exact (childLoop_perm es h).trans (childStep_perm h1)

theorem openLegsToChildren_perm {n m : MNode} {dict : List (Nat × Nat)} (h : n.openLegsToChildren dict = some m) :
    m.legs.Perm n.legs := by
  unfold MNode.openLegsToChildren at h
  cases h1 : MNode.lookupLegs n.legs dict with
  | none => rw [h1] at h; simp at h
  | some es =>
    rw [h1, Option.bind_some] at h
    exact childLoop_perm es h

theorem take_drop_take_perm {α : Type} [DecidableEq α] (l : List α) (s n : Nat) :
    ((l.drop s).take n ++ (l.take s ++ l.drop (s + n))).Perm l := by
  have h1 : l = l.take s ++ ((l.drop s).take n ++ (l.drop s).drop n) := by
    rw [List.take_append_drop, List.take_append_drop]
  have h2 : (l.drop s).drop n = l.drop (s + n) := by rw [List.drop_drop]
  rw [h2] at h1
  have : ((l.drop s).take n ++ (l.take s ++ l.drop (s + n))).Perm
      (l.take s ++ ((l.drop s).take n ++ l.drop (s + n))) := by
    rw [List.perm_iff_count]; intro a; simp only [List.count_append]; omega
  exact this.trans (by rw [← h1])

/-- the core of `exchange_open_leg_ranges` (after the two ranges were ordered) transposes -/
theorem exchangeCore_perm (l : List Leg) (s1 s2 len1 len2 np : Nat) :
    let values2 := (l.drop s2).take len2
    let l1 := l.take s2 ++ l.drop (s2 + len2)
    let values1 := (l1.drop s1).take len1
    let l2 := l1.take s1 ++ l1.drop (s1 + len1)
    let l3 := l2.take s1 ++ values2 ++ l2.drop s1
    (l3.take np ++ values1 ++ l3.drop np).Perm l := by
  intro values2 l1 values1 l2 l3
  have p1 : (values2 ++ l1).Perm l := take_drop_take_perm l s2 len2
  have p2 : (values1 ++ l2).Perm l1 := take_drop_take_perm l1 s1 len1
  have p3 : l3.Perm (values2 ++ l2) := by
    have : l2 = l2.take s1 ++ l2.drop s1 := (List.take_append_drop _ _).symm
    have h : (values2 ++ l2).Perm (values2 ++ (l2.take s1 ++ l2.drop s1)) := by rw [← this]
    refine List.Perm.trans ?_ h.symm
    rw [List.perm_iff_count]; intro a; simp only [l3, List.count_append]; omega
  have p4 : (l3.take np ++ values1 ++ l3.drop np).Perm (values1 ++ l3) := by
    have : l3 = l3.take np ++ l3.drop np := (List.take_append_drop _ _).symm
    have h : (values1 ++ l3).Perm (values1 ++ (l3.take np ++ l3.drop np)) := by rw [← this]
    refine List.Perm.trans ?_ h.symm
    rw [List.perm_iff_count]; intro a; simp only [List.count_append]; omega
  refine p4.trans (((p3.append_left values1).trans ?_).trans p1)
  refine List.Perm.trans ?_ (p2.append_left values2)
  rw [List.perm_iff_count]; intro a; simp only [List.count_append]; omega

theorem exchangeRanges_perm {l l' : List Leg} {s1 e1 s2 e2 : Nat} (h : exchangeRanges l s1 e1 s2 e2 = some l') :
    l'.Perm l := by
  unfold exchangeRanges at h
  by_cases hs : s2 < s1
  · simp only [hs, if_true] at h
    split at h
    · simp at h
    · split at h
      · simp at h
      · simp only [Option.some.injEq] at h
        subst h
        exact exchangeCore_perm l s2 s1 (e2 - s2) (e1 - s1) _
  · simp only [hs, if_false] at h
    split at h
    · simp at h
    · split at h
      · simp at h
      · simp only [Option.some.injEq] at h
        subst h
        exact exchangeCore_perm l s1 s2 (e1 - s1) (e2 - s2) _

/-! ### `contract_nodes` -/

/-- **`contract_nodes` is one `tensordot` followed by transpositions.**  Whenever the model function succeeds,
one of the two nodes (`P`) is the parent of the other (`C`), and the new node's legs are a permutation of
`tensordot(P, C, axes=([neighbour_index(C)], [0]))`. -/
theorem contractNodes_tensordot {id1 id2 : Nat} {n1 n2 m : MNode} (h : contractNodes id1 n1 id2 n2 = some m) :
    ∃ (P C : MNode) (cid ci : Nat) (raw : List Leg) (ps : List (Leg × Leg)),
      ((P = n1 ∧ C = n2 ∧ cid = id2 ∧ n2.parent = some id1) ∨ (P = n2 ∧ C = n1 ∧ cid = id1 ∧ n1.parent = some id2)) ∧
      P.neighbourIndex cid = some ci ∧
      tensordot P.legs C.legs [ci] [0] = some (raw, ps) ∧ m.legs.Perm raw := by
  unfold contractNodes at h
  have key : ∀ (pid cid : Nat) (P C : MNode),
      ((P.neighbourIndex cid).bind fun ci =>
        (tensordot P.legs C.legs [ci] [0]).bind fun (raw, _) =>
        let new0 : MNode := ⟨none, [], raw⟩
        (attachParent new0 P.parent).bind fun new1 =>
        let parentChildren := P.children.erase cid
        let parentChildDict := enumFrom P.nparents parentChildren
        let childChildrenDict := enumFrom (P.nlegs - 1) C.children
        let dict := if pid = id1 then parentChildDict ++ childChildrenDict
                    else childChildrenDict ++ parentChildDict
        (new1.openLegsToChildren dict).bind fun new2 =>
        if id1 ≠ pid then
          let nv := new2.nvirt
          (exchangeRanges new2.legs nv (nv + P.nopen) (nv + P.nopen) new2.nlegs).map
            fun l => { new2 with legs := l }
        else some new2) = some m →
      ∃ (ci : Nat) (raw : List Leg) (ps : List (Leg × Leg)), P.neighbourIndex cid = some ci ∧
        tensordot P.legs C.legs [ci] [0] = some (raw, ps) ∧ m.legs.Perm raw := by
    intro pid cid P C hk
    cases hci : P.neighbourIndex cid with
    | none => rw [hci] at hk; simp at hk
    | some ci =>
      rw [hci, Option.bind_some] at hk
      cases htd : tensordot P.legs C.legs [ci] [0] with
      | none => rw [htd] at hk; simp at hk
      | some rp =>
        obtain ⟨raw, ps⟩ := rp
        rw [htd, Option.bind_some] at hk
        refine ⟨ci, raw, ps, rfl, htd, ?_⟩
        simp only at hk
        cases h1 : attachParent (⟨none, [], raw⟩ : MNode) P.parent with
        | none => rw [h1] at hk; simp at hk
        | some new1 =>
          rw [h1, Option.bind_some] at hk
          have q1 : new1.legs.Perm raw := attachParent_perm h1
          generalize hd : (if pid = id1 then enumFrom P.nparents (P.children.erase cid) ++ enumFrom (P.nlegs - 1) C.children
              else enumFrom (P.nlegs - 1) C.children ++ enumFrom P.nparents (P.children.erase cid)) = dict at hk
          cases h2 : new1.openLegsToChildren dict with
          | none => rw [h2] at hk; simp at hk
          | some new2 =>
            rw [h2, Option.bind_some] at hk
            have q2 : new2.legs.Perm new1.legs := openLegsToChildren_perm h2
            split at hk
            · cases h3 : exchangeRanges new2.legs new2.nvirt (new2.nvirt + P.nopen) (new2.nvirt + P.nopen) new2.nlegs with
              | none => rw [h3] at hk; simp at hk
              | some l =>
                rw [h3] at hk
                simp only [Option.map_some, Option.some.injEq] at hk
                subst hk
                exact (exchangeRanges_perm h3).trans (q2.trans q1)
            · simp only [Option.some.injEq] at hk
              subst hk
              exact q2.trans q1
  by_cases c1 : n2.parent = some id1
  · rw [if_pos c1, Option.bind_some] at h
    obtain ⟨ci, raw, ps, a, b, c⟩ := key id1 id2 n1 n2 h
    exact ⟨n1, n2, id2, ci, raw, ps, Or.inl ⟨rfl, rfl, rfl, c1⟩, a, b, c⟩
  · by_cases c2 : n1.parent = some id2
    · rw [if_neg c1, if_pos c2, Option.bind_some] at h
      obtain ⟨ci, raw, ps, a, b, c⟩ := key id2 id1 n2 n1 h
      exact ⟨n2, n1, id1, ci, raw, ps, Or.inr ⟨rfl, rfl, rfl, c2⟩, a, b, c⟩
    · simp [c1, c2] at h

variable {R : Type}

/-- **`contract_nodes`: inputs built ⟹ output built**, by one `tensordot` of the parent's program with the
child's program. -/
theorem contractNodes_built {id1 id2 : Nat} {n1 n2 m : MNode} {e1 e2 : Expr Leg R}
    (h1 : Built n1.legs e1) (h2 : Built n2.legs e2) (h : contractNodes id1 n1 id2 n2 = some m) :
    ∃ ps, (n2.parent = some id1 ∧ Built m.legs (Expr.dot e1 e2 ps)) ∨
          (n1.parent = some id2 ∧ Built m.legs (Expr.dot e2 e1 ps)) := by
  obtain ⟨P, C, cid, ci, raw, ps, hpc, _, htd, hperm⟩ := contractNodes_tensordot h
  refine ⟨ps, ?_⟩
  rcases hpc with ⟨rfl, rfl, _, hp⟩ | ⟨rfl, rfl, _, hp⟩
  · exact Or.inl ⟨hp, Built.transpose (Built.dot h1 h2 (by simp) (by simp) htd) hperm⟩
  · exact Or.inr ⟨hp, Built.transpose (Built.dot h2 h1 (by simp) (by simp) htd) hperm⟩

/-! ### `absorb_into_open_legs` -/

/-- **`absorb_into_open_legs`: inputs built ⟹ output built**: one `tensordot` of the node's program with the
operator tensor; the pairs are the ones the model function returns. -/
theorem absorb_built {n m : MNode} {op : List Leg} {b : List (Leg × Leg)} {e : Expr Leg R} (G : Asg Leg → R)
    (h1 : Built n.legs e) (h : absorbIntoOpenLegs n op = some (m, b)) :
    Built m.legs (Expr.dot e (Expr.leaf op G) b) := by
  simp only [absorbIntoOpenLegs] at h
  split at h
  · simp at h
  · cases htd : tensordot n.legs op n.openLegs ((List.range n.nopen).map (· + n.nopen)) with
    | none => simp only [htd] at h; simp at h
    | some lb =>
      obtain ⟨l, b'⟩ := lb
      simp only [htd, Option.map_some, Option.some.injEq, Prod.mk.injEq] at h
      obtain ⟨hm, hb⟩ := h
      subst hm; subst hb
      refine Built.dot h1 (Built.fresh op G) ?_ ?_ htd
      · unfold MNode.openLegs; exact List.nodup_range'
      · exact (List.nodup_range).map (fun a b h => by simpa using h)

/-- `_apply_one_trotter_step_single_site` -/
theorem singleSite_built {n m : MNode} {b : List (Leg × Leg)} {e : Expr Leg R} (G : Asg Leg → R)
    (h1 : Built n.legs e) (h : singleSite n = some (m, b)) :
    Built m.legs (Expr.dot e (Expr.leaf (gateLegs n.nopen) G) b) :=
  absorb_built G h1 h

/-- **`_apply_one_trotter_step_two_site` up to (not including) the split**: the absorbed node is built from the
two node programs and the gate tensor: `tensordot(tensordot(P, C), G)`. -/
theorem twoSite_built {id1 id2 : Nat} {n1 n2 : MNode} {r : TwoSiteResult} {e1 e2 : Expr Leg R} (G : Asg Leg → R)
    (h1 : Built n1.legs e1) (h2 : Built n2.legs e2) (h : twoSite id1 n1 id2 n2 = some r) :
    ∃ ps, (n2.parent = some id1 ∧
            Built r.absorbed.legs (Expr.dot (Expr.dot e1 e2 ps) (Expr.leaf (gateLegs r.contr.nopen) G) r.binds)) ∨
          (n1.parent = some id2 ∧
            Built r.absorbed.legs (Expr.dot (Expr.dot e2 e1 ps) (Expr.leaf (gateLegs r.contr.nopen) G) r.binds)) := by
  unfold twoSite at h
  cases hs : legsBeforeCombination id1 n1 id2 n2 with
  | none => rw [hs] at h; simp at h
  | some ss =>
    rw [hs, Option.bind_some] at h
    cases hc : contractNodes id1 n1 id2 n2 with
    | none => simp only [hc] at h; simp at h
    | some cn =>
      simp only [hc, Option.bind_some] at h
      cases ha : absorbIntoOpenLegs cn (gateLegs cn.nopen) with
      | none => simp only [ha] at h; simp at h
      | some ab =>
        obtain ⟨a, b⟩ := ab
        simp only [ha, Option.bind_some] at h
        cases hsp : splitNode a ss.1 ss.2 id1 id2 with
        | none => simp only [hsp] at h; simp at h
        | some mm =>
          simp only [hsp, Option.bind_some, Option.some.injEq] at h
          subst h
          obtain ⟨ps, hps⟩ := contractNodes_built h1 h2 hc
          refine ⟨ps, ?_⟩
          rcases hps with ⟨hp, hb⟩ | ⟨hp, hb⟩
          · exact Or.inl ⟨hp, absorb_built G hb ha⟩
          · exact Or.inr ⟨hp, absorb_built G hb ha⟩

end Ptn.C08
