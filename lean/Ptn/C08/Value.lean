import Ptn.C08.EinGate
import Ptn.C08.StepLemmas
/-! Value level for C08, part 1: one gate application.

`two_site_gate_legs` / `single_site_gate_legs` (leg level, `Props.lean`) say WHICH legs the sequence
`contract_nodes; absorb_into_open_legs; split_node_svd` binds.  Here that record is given its VALUE
(`Ptn/Common/Einsum*.lean`, `EinGate.lean`): over every commutative semiring and for all dimensions the
network after the gate application is `Σ_in G[out; in] · ψ[…, in, …]`.

Labels.  The leg labels of the leg-level model are local to a node (`nb x`: "my leg toward `x`", `bond`:
"my new bond leg"); physical and gate legs already carry a global name.  `VLeg` makes the virtual ones
global by adding the owner. -/
namespace Ptn.C08

open Ptn.Ein

/-- global leg labels for the picture of one gate application -/
inductive VLeg where
  | own (node : Nat) (l : Leg)     -- the virtual leg `l` (`nb x` or `bond`) of the leg list of node `node`
  | shared (l : Leg)               -- physical legs `phys n k`, gate legs `gout k`, `gin k`
  deriving DecidableEq, Repr

/-- the global name of leg `l` in the leg list of node `node` -/
def glob (node : Nat) : Leg → VLeg
  | .nb x => .own node (.nb x)
  | .bond => .own node .bond
  | l => .shared l

/-- the pairs bound by `absorb_into_open_legs` (physical leg, gate input leg) in global names -/
def gatePairs (b : List (Leg × Leg)) : List (VLeg × VLeg) := b.map fun x => (VLeg.shared x.1, VLeg.shared x.2)

/-- what a gate tensor reads: its own output and input legs -/
def GateReads : VLeg → Prop
  | .shared (.gout _) => True
  | .shared (.gin _) => True
  | _ => False

def VLeg.isOwn : VLeg → Prop
  | .own _ _ => True
  | .shared _ => False

/-- what the rest of the network may read when a gate acts on the pair `(x, y)` joined by `(b₁, b₂)` and
rejoined by `(q, r)`: everything but the two bonds and the legs bound to the gate -/
def EnvReads (b₁ b₂ q r : VLeg) (gp : List (VLeg × VLeg)) (l : VLeg) : Prop :=
  l ≠ b₁ ∧ l ≠ b₂ ∧ l ≠ q ∧ l ≠ r ∧ l ∉ Expr.pairLegs gp

theorem pairLegs_gatePairs_zip (xs ys : List Leg) (h : xs.length = ys.length) :
    Expr.pairLegs (gatePairs (xs.zip ys)) = xs.map VLeg.shared ++ ys.map VLeg.shared := by
  simp only [Expr.pairLegs, gatePairs, List.map_map]
  have h1 : (xs.zip ys).map ((Prod.fst ∘ fun x : Leg × Leg => (VLeg.shared x.1, VLeg.shared x.2))) =
      xs.map VLeg.shared := by
    have : (Prod.fst ∘ fun x : Leg × Leg => (VLeg.shared x.1, VLeg.shared x.2)) = VLeg.shared ∘ Prod.fst := rfl
    rw [this, ← List.map_map, List.map_fst_zip (by omega)]
  have h2 : (xs.zip ys).map ((Prod.snd ∘ fun x : Leg × Leg => (VLeg.shared x.1, VLeg.shared x.2))) =
      ys.map VLeg.shared := by
    have : (Prod.snd ∘ fun x : Leg × Leg => (VLeg.shared x.1, VLeg.shared x.2)) = VLeg.shared ∘ Prod.snd := rfl
    rw [this, ← List.map_map, List.map_snd_zip (by omega)]
  rw [h1, h2]

theorem shared_injective : Function.Injective VLeg.shared := fun _ _ h => by cases h; rfl

theorem nodup_physL (id o : Nat) : (physL id o).Nodup := by
  unfold physL
  exact (List.nodup_range).map (fun a b h => by cases h; rfl)

/-- the legs bound by a gate on the nodes `x ≠ y` are pairwise distinct -/
theorem nodup_gate_legs (x y ox oy : Nat) (hxy : x ≠ y) :
    (Expr.pairLegs (gatePairs ((physL x ox ++ physL y oy).zip ((List.range (ox + oy)).map Leg.gin)))).Nodup := by
  rw [pairLegs_gatePairs_zip _ _ (by simp [physL])]
  rw [← List.map_append]
  apply List.Nodup.map shared_injective
  rw [List.nodup_append]
  refine ⟨?_, ?_, ?_⟩
  · rw [List.nodup_append]
    refine ⟨nodup_physL x ox, nodup_physL y oy, ?_⟩
    intro a ha b hb hab
    simp only [physL, List.mem_map] at ha hb
    obtain ⟨i, _, rfl⟩ := ha
    obtain ⟨j, _, h2⟩ := hb
    rw [← h2] at hab
    cases hab
    exact hxy rfl
  · exact (List.nodup_range).map (fun a b h => by cases h; rfl)
  · intro a ha b hb hab
    simp only [physL, List.mem_append, List.mem_map] at ha hb
    obtain ⟨j, _, rfl⟩ := hb
    rcases ha with ⟨i, _, h⟩ | ⟨i, _, h⟩ <;> (rw [hab] at h; cases h)

theorem nodup_gate_legs_single (x o : Nat) :
    (Expr.pairLegs (gatePairs ((physL x o).zip ((List.range o).map Leg.gin)))).Nodup := by
  rw [pairLegs_gatePairs_zip _ _ (by simp [physL])]
  rw [← List.map_append]
  apply List.Nodup.map shared_injective
  rw [List.nodup_append]
  refine ⟨nodup_physL x o, (List.nodup_range).map (fun a b h => by cases h; rfl), ?_⟩
  intro a ha b hb hab
  simp only [physL, List.mem_map] at ha hb
  obtain ⟨j, _, rfl⟩ := hb
  obtain ⟨i, _, h⟩ := ha
  rw [hab] at h; cases h

/-- bonds of the environment (virtual legs only, each bound once) together with the gate pairs: no leg
is bound twice -/
theorem nodup_env_gate (bs gp : List (VLeg × VLeg)) (h1 : (Expr.pairLegs bs).Nodup)
    (h2 : ∀ l ∈ Expr.pairLegs bs, l.isOwn) (h3 : (Expr.pairLegs gp).Nodup)
    (h4 : ∀ l ∈ Expr.pairLegs gp, ¬ l.isOwn) : (Expr.pairLegs (bs ++ gp)).Nodup := by
  rw [(Expr.pairLegs_append bs gp).nodup_iff, List.nodup_append]
  exact ⟨h1, h3, fun a ha b hb hab => h4 b hb (hab ▸ h2 a ha)⟩

theorem gatePairs_not_own (b : List (Leg × Leg)) : ∀ l ∈ Expr.pairLegs (gatePairs b), ¬ l.isOwn := by
  intro l hl
  simp only [Expr.pairLegs, gatePairs, List.map_map, List.mem_append, List.mem_map, Function.comp] at hl
  rcases hl with ⟨x, _, rfl⟩ | ⟨x, _, rfl⟩ <;> exact fun h => h

theorem own_not_gateReads : ∀ l : VLeg, l.isOwn → ¬ GateReads l
  | .own _ _, _ => fun h => h
  | .shared _, h => h.elim

/-- core of `two_site_gate_value`, for any naming order `(x, y)` of the pair -/
theorem two_site_value_core {R : Type} [CommSemiring R] (dim : VLeg → Nat) (p c x y : Nat)
    (gp : List (VLeg × VLeg)) (hgp1 : (Expr.pairLegs gp).Nodup) (hgp2 : ∀ l ∈ Expr.pairLegs gp, ¬ l.isOwn)
    (bs : List (VLeg × VLeg)) (G TP TC C A' U V : Asg VLeg → R) (rest : List (Asg VLeg → R))
    (hbs1 : (Expr.pairLegs bs).Nodup) (hbs2 : ∀ l ∈ Expr.pairLegs bs, l.isOwn)
    (hC : ∀ τ, C τ = sumPairs dim [(glob p (Leg.nb c), glob c (Leg.nb p))] (fun ρ => TP ρ * TC ρ) τ)
    (hA : ∀ τ, A' τ = sumPairs dim gp (fun ρ => G ρ * C ρ) τ)
    (hUV : ∀ τ, A' τ = sumPairs dim [(glob x Leg.bond, glob y Leg.bond)] (fun ρ => U ρ * V ρ) τ)
    (hrest : ∀ f ∈ rest, DependsOn
      (EnvReads (glob p (Leg.nb c)) (glob c (Leg.nb p)) (glob x Leg.bond) (glob y Leg.bond) gp) f)
    (hG : DependsOn GateReads G) (σ : Asg VLeg) :
    netValue dim (bs ++ [(glob x Leg.bond, glob y Leg.bond)]) (U :: V :: rest) σ =
      sumPairs dim gp (fun τ => G τ *
        netValue dim (bs ++ [(glob p (Leg.nb c), glob c (Leg.nb p))]) (TP :: TC :: rest) τ) σ := by
  apply gate_application_value dim bs gp G TP TC C A' U V rest _ _ _ _ hC hA hUV hrest
  · exact fun h => h.2.2.1 rfl
  · exact fun h => h.2.2.2.1 rfl
  · exact fun h => h.1 rfl
  · exact fun h => h.2.1 rfl
  · exact fun l hl h => h.2.2.2.2 hl
  · exact hG
  · exact fun l hl => own_not_gateReads l (hbs2 l hl)
  · exact nodup_env_gate bs gp hbs1 hbs2 hgp1 hgp2

end Ptn.C08
