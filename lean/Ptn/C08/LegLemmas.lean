import Ptn.C08.Model
/-! Helper lemmas for the leg bookkeeping of C08 (core Lean only): list surgery, the loops of
`open_legs_to_children`, `tensordot` on label lists. -/
namespace Ptn.C08

/-! ### list surgery -/

theorem getElem?_mid {α : Type} (X : List α) (x : α) (Y : List α) :
    (X ++ x :: Y)[X.length]? = some x := by simp

theorem dropAt_mid {α : Type} (X : List α) (x : α) (Y : List α) :
    dropAt (X ++ x :: Y) X.length = X ++ Y := by
  unfold dropAt
  rw [List.take_left, List.drop_length_add_append]
  simp

theorem pyInsert_mid {α : Type} (X Y : List α) (x : α) :
    pyInsert (X ++ Y) X.length x = X ++ x :: Y := by
  unfold pyInsert
  rw [List.take_left, List.drop_left]

theorem pyInsert_zero {α : Type} (Y : List α) (x : α) : pyInsert Y 0 x = x :: Y := by
  simp [pyInsert]

theorem erase_mid (X : List Leg) (x : Leg) (Y : List Leg) (h : x ∉ X) :
    (X ++ x :: Y).erase x = X ++ Y := by
  rw [List.erase_append_right _ h, List.erase_cons_head]

/-! ### `lookupLegs` -/

/-- The looked-up entries for a block of children `ks` whose legs start at position `k`. -/
def entriesOf : Nat → List Nat → List (Nat × Nat × Leg)
  | _, [] => []
  | k, x :: xs => (x, k, Leg.nb x) :: entriesOf (k + 1) xs

theorem entriesOf_ids (k : Nat) (ks : List Nat) : (entriesOf k ks).map (·.1) = ks := by
  induction ks generalizing k with
  | nil => rfl
  | cons x xs ih => simp [entriesOf, ih]

theorem entriesOf_labels (k : Nat) (ks : List Nat) :
    (entriesOf k ks).map (·.2.2) = ks.map Leg.nb := by
  induction ks generalizing k with
  | nil => rfl
  | cons x xs ih => simp [entriesOf, ih]

theorem entriesOf_pos (k : Nat) (ks : List Nat) : ∀ e ∈ entriesOf k ks, k ≤ e.2.1 := by
  induction ks generalizing k with
  | nil => simp [entriesOf]
  | cons x xs ih =>
    intro e he
    simp only [entriesOf, List.mem_cons] at he
    rcases he with rfl | he
    · simp
    · have := ih (k + 1) e he
      omega

theorem entriesOf_label_mem (k : Nat) (ks : List Nat) :
    ∀ e ∈ entriesOf k ks, e.2.2 = Leg.nb e.1 ∧ e.1 ∈ ks := by
  induction ks generalizing k with
  | nil => simp [entriesOf]
  | cons x xs ih =>
    intro e he
    simp only [entriesOf, List.mem_cons] at he
    rcases he with rfl | he
    · simp
    · have := ih (k + 1) e he
      exact ⟨this.1, List.mem_cons_of_mem _ this.2⟩

theorem lookupLegs_block (legs : List Leg) (ks : List Nat) (Y : List Leg) :
    ∀ X : List Leg, legs = X ++ (ks.map Leg.nb ++ Y) →
      MNode.lookupLegs legs (enumFrom X.length ks) = some (entriesOf X.length ks) := by
  induction ks with
  | nil => intro X _; rfl
  | cons k ks ih =>
    intro X h
    have h1 : legs[X.length]? = some (Leg.nb k) := by
      rw [h]; simp
    have h2 : legs = (X ++ [Leg.nb k]) ++ (ks.map Leg.nb ++ Y) := by
      rw [h]; simp
    have := ih (X ++ [Leg.nb k]) h2
    simp only [List.length_append, List.length_cons, List.length_nil, Nat.zero_add] at this
    simp only [enumFrom, MNode.lookupLegs, entriesOf, h1, this]

theorem lookupLegs_append (legs : List Leg) (d1 d2 : List (Nat × Nat))
    (e1 e2 : List (Nat × Nat × Leg))
    (h1 : MNode.lookupLegs legs d1 = some e1) (h2 : MNode.lookupLegs legs d2 = some e2) :
    MNode.lookupLegs legs (d1 ++ d2) = some (e1 ++ e2) := by
  induction d1 generalizing e1 with
  | nil =>
    simp only [MNode.lookupLegs] at h1
    cases h1
    simpa using h2
  | cons d ds ih =>
    obtain ⟨cid, pos⟩ := d
    simp only [MNode.lookupLegs] at h1
    cases hx : legs[pos]? with
    | none => simp [hx] at h1
    | some x =>
      cases hr : MNode.lookupLegs legs ds with
      | none => simp [hx, hr] at h1
      | some r =>
        simp only [hx, hr, Option.some.injEq] at h1
        subst h1
        have := ih r hr
        simp only [List.cons_append, MNode.lookupLegs, hx, this]

theorem lookupLegs_single (legs : List Leg) (cid pos : Nat) (x : Leg) (h : legs[pos]? = some x) :
    MNode.lookupLegs legs [(cid, pos)] = some [(cid, pos, x)] := by
  simp [MNode.lookupLegs, h]

/-! ### the loop of `open_legs_to_children` -/

theorem childLoop_append (orig : Nat) (m : MNode) (e1 e2 : List (Nat × Nat × Leg)) :
    MNode.childLoop orig m (e1 ++ e2) =
      (MNode.childLoop orig m e1).bind (fun m' => MNode.childLoop orig m' e2) := by
  induction e1 generalizing m with
  | nil => simp [MNode.childLoop]
  | cons e es ih =>
    simp only [List.cons_append, MNode.childLoop]
    cases MNode.childStep orig m e with
    | none => simp
    | some m' => simp [ih]

/-- The legs named by `es` sit behind the blocks `X` (already virtual) and `M`; the loop moves them,
    in order, in front of `M` and registers the children. -/
theorem childLoop_move (orig : Nat) (M Y : List Leg) (es : List (Nat × Nat × Leg)) :
    ∀ (X : List Leg) (m : MNode),
      m.legs = X ++ (M ++ (es.map (·.2.2) ++ Y)) →
      m.nvirt = X.length →
      (∀ e ∈ es, orig ≤ e.2.1) →
      (∀ e ∈ es, e.2.2 ∉ X ∧ e.2.2 ∉ M) →
      (es.map (·.2.2)).Nodup →
      MNode.childLoop orig m es =
        some ⟨m.parent, m.children ++ es.map (·.1), X ++ (es.map (·.2.2) ++ (M ++ Y))⟩ := by
  induction es with
  | nil =>
    intro X m hl _ _ _ _
    simp only [MNode.childLoop, List.map_nil, List.append_nil, List.nil_append] at hl ⊢
    cases m
    simp_all
  | cons e es ih =>
    intro X m hl hnv hpos hnot hnd
    obtain ⟨cid, pos, lbl⟩ := e
    have hp : orig ≤ pos := hpos (cid, pos, lbl) (List.mem_cons_self)
    have hn := hnot (cid, pos, lbl) (List.mem_cons_self)
    simp only at hn
    simp only [List.map_cons, List.nodup_cons] at hnd
    have hl' : m.legs = (X ++ M) ++ lbl :: (es.map (·.2.2) ++ Y) := by
      rw [hl]; simp
    have hmem : lbl ∈ m.legs := by rw [hl']; simp
    have hnXM : lbl ∉ X ++ M := by simp [hn.1, hn.2]
    have hstep : MNode.childStep orig m (cid, pos, lbl) =
        some ⟨m.parent, m.children ++ [cid], (X ++ [lbl]) ++ (M ++ (es.map (·.2.2) ++ Y))⟩ := by
      unfold MNode.childStep
      have : ¬ pos < orig := by omega
      simp only [this, if_false, hmem, if_true]
      have he : m.legs.erase lbl = X ++ (M ++ (es.map (·.2.2) ++ Y)) := by
        rw [hl', erase_mid _ _ _ hnXM]; simp
      rw [he, hnv, pyInsert_mid]
      simp
    simp only [MNode.childLoop, hstep, Option.bind_some]
    have hnv' : (⟨m.parent, m.children ++ [cid],
        (X ++ [lbl]) ++ (M ++ (es.map (·.2.2) ++ Y))⟩ : MNode).nvirt = (X ++ [lbl]).length := by
      simp only [MNode.nvirt, MNode.nparents, List.length_append, List.length_cons,
        List.length_nil] at hnv ⊢
      omega
    have hnot' : ∀ e ∈ es, e.2.2 ∉ X ++ [lbl] ∧ e.2.2 ∉ M := by
      intro e he
      have h1 := hnot e (List.mem_cons_of_mem _ he)
      refine ⟨?_, h1.2⟩
      intro hmem
      simp only [List.mem_append, List.mem_cons, List.not_mem_nil, or_false] at hmem
      rcases hmem with hX | heq
      · exact h1.1 hX
      · apply hnd.1
        rw [← heq]
        exact List.mem_map_of_mem he
    have := ih (X ++ [lbl]) _ rfl hnv' (fun e he => hpos e (List.mem_cons_of_mem _ he)) hnot' hnd.2
    rw [this]
    simp


/-! ### `pick` and `removeIdxs` -/

theorem pick_append {α : Type} (l : List α) (a b : List Nat) (xa xb : List α)
    (ha : pick l a = some xa) (hb : pick l b = some xb) : pick l (a ++ b) = some (xa ++ xb) := by
  induction a generalizing xa with
  | nil =>
    simp only [pick] at ha
    cases ha
    simpa using hb
  | cons i is ih =>
    simp only [pick] at ha
    cases hx : l[i]? with
    | none => simp [hx] at ha
    | some x =>
      cases hr : pick l is with
      | none => simp [hx, hr] at ha
      | some r =>
        simp only [hx, hr, Option.some.injEq] at ha
        subst ha
        simp only [List.cons_append, pick, hx, ih r hr]

theorem pick_range' {α : Type} (Y Z : List α) :
    ∀ X : List α, pick (X ++ (Y ++ Z)) (List.range' X.length Y.length) = some Y := by
  induction Y with
  | nil => intro X; simp [pick]
  | cons y Y ih =>
    intro X
    have h1 : (X ++ (y :: Y ++ Z))[X.length]? = some y := by simp
    have h2 : X ++ (y :: Y ++ Z) = (X ++ [y]) ++ (Y ++ Z) := by simp
    have := ih (X ++ [y])
    simp only [List.length_append, List.length_cons, List.length_nil, Nat.zero_add] at this
    rw [← h2] at this
    simp only [List.length_cons, List.range'_succ, pick, h1, this]

theorem pick_singleton {α : Type} (l : List α) (i : Nat) (x : α) (h : l[i]? = some x) :
    pick l [i] = some [x] := by
  simp [pick, h]

theorem removeIdxs_append {α : Type} (idx : List Nat) (a b : List α) :
    ∀ k, removeIdxs idx k (a ++ b) = removeIdxs idx k a ++ removeIdxs idx (k + a.length) b := by
  induction a with
  | nil => intro k; simp [removeIdxs]
  | cons x xs ih =>
    intro k
    simp only [List.cons_append, removeIdxs, ih, List.length_cons]
    have : k + 1 + xs.length = k + (xs.length + 1) := by omega
    rw [this]
    split <;> simp

theorem removeIdxs_none {α : Type} (idx : List Nat) (l : List α) :
    ∀ k, (∀ j, k ≤ j → j < k + l.length → j ∉ idx) → removeIdxs idx k l = l := by
  induction l with
  | nil => intro k _; rfl
  | cons x xs ih =>
    intro k h
    have hk : k ∉ idx := h k (Nat.le_refl _) (by simp)
    simp only [removeIdxs, hk, if_false]
    rw [ih (k + 1)]
    intro j h1 h2
    apply h j (by omega)
    simp only [List.length_cons]; omega

theorem removeIdxs_all {α : Type} (idx : List Nat) (l : List α) :
    ∀ k, (∀ j, k ≤ j → j < k + l.length → j ∈ idx) → removeIdxs idx k l = [] := by
  induction l with
  | nil => intro k _; rfl
  | cons x xs ih =>
    intro k h
    have hk : k ∈ idx := h k (Nat.le_refl _) (by simp)
    simp only [removeIdxs, hk, if_true]
    apply ih (k + 1)
    intro j h1 h2
    apply h j (by omega)
    simp only [List.length_cons]; omega

/-- Removing one position. -/
theorem removeIdxs_single {α : Type} (X : List α) (x : α) (Y : List α) :
    removeIdxs [X.length] 0 (X ++ x :: Y) = X ++ Y := by
  rw [removeIdxs_append]
  rw [removeIdxs_none [X.length] X 0 (by intro j _ h2; simp; omega)]
  simp only [Nat.zero_add, removeIdxs, List.mem_singleton, if_true]
  rw [removeIdxs_none]
  intro j h1 _
  simp; omega

/-- Removing a trailing block of positions. -/
theorem removeIdxs_suffix {α : Type} (V O : List α) :
    removeIdxs (List.range' V.length O.length) 0 (V ++ O) = V := by
  rw [removeIdxs_append]
  rw [removeIdxs_none _ V 0 (by intro j _ h2; simp; omega)]
  rw [removeIdxs_all]
  · simp
  · intro j h1 h2
    simp; omega

theorem map_add_range (n : Nat) : (List.range n).map (· + n) = List.range' n n := by
  rw [List.range'_eq_map_range]
  apply List.map_congr_left
  intro a _
  omega


/-! ### `exchange_open_leg_ranges` -/

theorem exchangeRanges_blocks (X O1 O2 : List Leg) :
    exchangeRanges (X ++ (O1 ++ O2)) X.length (X.length + O1.length) (X.length + O1.length)
      (X ++ (O1 ++ O2)).length = some (X ++ (O2 ++ O1)) := by
  unfold exchangeRanges
  have h0 : ¬ (X.length + O1.length < X.length) := by omega
  simp only [h0, if_false]
  have h1 : ¬ (X.length + O1.length < X.length + O1.length) := by omega
  have hlen : (X ++ (O1 ++ O2)).length - (X.length + O1.length) = O2.length := by
    simp only [List.length_append]; omega
  have h2 : ¬ ((X ++ (O1 ++ O2)).length < X.length + O1.length + O2.length) := by
    simp only [List.length_append]; omega
  simp only [h1, if_false, hlen, h2]
  have e1 : X.length + O1.length - X.length = O1.length := by omega
  have d2 : List.drop (X.length + O1.length) (X ++ (O1 ++ O2)) = O2 := by
    rw [← List.append_assoc]
    exact List.drop_left' (by simp)
  have t2 : List.take (X.length + O1.length) (X ++ (O1 ++ O2)) = X ++ O1 := by
    rw [← List.append_assoc]
    exact List.take_left' (by simp)
  have d3 : List.drop (X.length + O1.length + O2.length) (X ++ (O1 ++ O2)) = [] := by
    apply List.drop_eq_nil_of_le
    simp only [List.length_append]; omega
  simp only [e1, d2, t2, d3, List.append_nil, List.take_left, List.drop_left, Nat.sub_self,
    Nat.add_zero]
  have t4 : List.take O2.length O2 = O2 := List.take_length
  have d5 : List.drop (X.length + O1.length) (X ++ O1) = [] := by
    apply List.drop_eq_nil_of_le
    simp
  have t6 : List.take O1.length O1 = O1 := List.take_length
  simp only [t4, d5, t6, List.append_nil]
  have t7 : List.take (X.length + O2.length) (X ++ O2) = X ++ O2 := by
    apply List.take_of_length_le; simp
  have d8 : List.drop (X.length + O2.length) (X ++ O2) = [] := by
    apply List.drop_eq_nil_of_le; simp
  simp [t7, d8]

/-! ### `neighbour_index` over a block of children -/

theorem neighbourIndices_block (n : MNode) (ks L2 : List Nat) :
    ∀ L1 : List Nat, n.children = L1 ++ (ks ++ L2) → (L1 ++ ks).Nodup →
      (∀ k ∈ ks, n.parent ≠ some k) →
      neighbourIndices n ks = some (List.range' (n.nparents + L1.length) ks.length) := by
  induction ks with
  | nil => intro L1 _ _ _; rfl
  | cons k ks ih =>
    intro L1 hc hnd hpar
    have hk1 : k ∉ L1 := by
      intro hmem
      rw [List.nodup_append] at hnd
      exact hnd.2.2 k hmem k (List.mem_cons_self) rfl
    have hidx : n.neighbourIndex k = some (n.nparents + L1.length) := by
      unfold MNode.neighbourIndex
      have h1 : n.parent ≠ some k := hpar k (List.mem_cons_self)
      have h2 : k ∈ n.children := by rw [hc]; simp
      simp only [h1, if_false, h2, if_true]
      rw [hc, List.idxOf_append]
      simp only [hk1, if_false, List.cons_append, List.idxOf_cons_self]
      congr 1; omega
    have hc' : n.children = (L1 ++ [k]) ++ (ks ++ L2) := by rw [hc]; simp
    have hnd' : ((L1 ++ [k]) ++ ks).Nodup := by simpa using hnd
    have := ih (L1 ++ [k]) hc' hnd' (fun k' hk' => hpar k' (List.mem_cons_of_mem _ hk'))
    simp only [List.length_append, List.length_cons, List.length_nil, Nat.zero_add] at this
    simp only [neighbourIndices, hidx, this, List.length_cons, List.range'_succ]
    congr 2

end Ptn.C08
