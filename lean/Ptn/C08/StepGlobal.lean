import Ptn.C08.GlobalValue
/-! Value level for C08, one label space for a WHOLE STEP (helper file of `Props.lean`, section "step global").

`stepGlob cur g p c K ver : Leg → SLeg` is the injection of the local labels of the program of one gate (number
`g`, pair `P = p`, `C = c`, children of `C`: `K`) into the labels `SLeg` of a whole step: the open leg of site
`n` is the CURRENT physical leg `ph (cur n)`, gate output `k` is `ph (out g k)`, gate input `k` is `gin g k`, a
virtual leg toward `x` is `virt owner x (ver owner x + 2)` (owner as in `pairGlob`; `ver` = current version of
that bond leg, arbitrary), the legs no program of a step carries (higher physical legs, the local `bond`) go to
`virt _ _ 1`, `virt 0 0 0`.  It is injective by the record invariant `RecInv` (`cur` injective, every current
leg older than gate `g`). -/
namespace Ptn.C08

open Ptn.Ein

/-- owner of the virtual leg toward `x` in the pair `P = p`, `C = c` (children of `C`: `K`) -/
def pairOwner (p c : Nat) (K : List Nat) (x : Nat) : Nat := if x = p ∨ x ∈ K then c else p

def stepGlob (cur : Nat → GLeg) (g p c : Nat) (K : List Nat) (ver : Nat → Nat → Nat) : Leg → SLeg
  | .nb x => .virt (pairOwner p c K x) x (ver (pairOwner p c K x) x + 2)
  | .phys n 0 => .ph (cur n)
  | .phys n (k + 1) => .virt n k 1
  | .gout k => .ph (.out g k)
  | .gin k => .gin g k
  | .bond => .virt 0 0 0

theorem stepGlob_injective {cur : Nat → GLeg} {g : Nat} (p c : Nat) (K : List Nat) (ver : Nat → Nat → Nat)
    (hinj : ∀ s s', cur s = cur s' → s = s') (hlt : ∀ s, (cur s).lt g) :
    Function.Injective (stepGlob cur g p c K ver) := by
  intro a b h
  rcases a with x | ⟨n, _ | k⟩ | k | k | _ <;> rcases b with x' | ⟨n', _ | k'⟩ | k' | k' | _ <;>
    simp only [stepGlob, SLeg.virt.injEq, SLeg.ph.injEq, SLeg.gin.injEq, GLeg.out.injEq, reduceCtorEq] at h
  all_goals first
    | rfl
    | (exfalso; omega)
    | exact h.2.2.elim
    | (obtain ⟨rfl, rfl, _⟩ := h; rfl)
    | (exact absurd h (ne_of_lt_out (hlt _)))
    | (exact absurd h.symm (ne_of_lt_out (hlt _)))
    | (rw [hinj _ _ h])
    | (obtain ⟨_, rfl, _⟩ := h; rfl)
    | (obtain ⟨rfl, rfl⟩ := h; rfl)
    | (subst h; rfl)
    | (obtain ⟨_, rfl⟩ := h; rfl)

theorem RecInv.forget {cur : Nat → GLeg} {rc : List Rec} {g : Nat} (h : RecInv cur rc g) : RecInv cur [] g :=
  ⟨⟨h.1.inj, by simp, by simp, by simp⟩, ⟨h.2.curLt, by simp⟩⟩

theorem RecInv.stepGlob_injective {cur : Nat → GLeg} {rc : List Rec} {g : Nat} (h : RecInv cur rc g)
    (p c : Nat) (K : List Nat) (ver : Nat → Nat → Nat) : Function.Injective (stepGlob cur g p c K ver) :=
  Ptn.C08.stepGlob_injective p c K ver h.1.inj h.2.curLt

/-- **the pairs the model returns for a two-site gate (one open leg per node, naming order `x`, `y`), renamed,
are the pairs the specification fold prescribes at that moment** -/
theorem stepGlob_binds_two (cur : Nat → GLeg) (g p c : Nat) (K : List Nat) (ver : Nat → Nat → Nat) (x y : Nat)
    (hxy : x ≠ y) :
    rn_pairs (stepGlob cur g p c K ver) ((physL x 1 ++ physL y 1).zip ((List.range (1 + 1)).map Leg.gin)) =
      recPairs (specOp g (cur, []) 0 [x, y]).2 := by
  rw [specOp_two g cur [] x y hxy]
  rfl

theorem stepGlob_binds_one (cur : Nat → GLeg) (g p c : Nat) (K : List Nat) (ver : Nat → Nat → Nat) (s : Nat) :
    rn_pairs (stepGlob cur g p c K ver) ((physL s 1).zip ((List.range 1).map Leg.gin)) =
      recPairs (specOp g (cur, []) 0 [s]).2 := by
  rw [specOp_one]
  rfl

def SLeg.isVirt : SLeg → Prop
  | .virt _ _ _ => True
  | _ => False

theorem isVirt_not_gateReadsS (g : Nat) : ∀ l : SLeg, l.isVirt → ¬ GateReadsS g l
  | .virt _ _ _, _ => id
  | .ph _, h => h.elim
  | .gin _ _, h => h.elim

theorem recPairs_not_virt (rc : List Rec) : ∀ l ∈ Expr.pairLegs (recPairs rc), ¬ l.isVirt := by
  intro l hl
  rw [pairLegs_recPairs] at hl
  rcases List.mem_append.1 hl with hl | hl
  · obtain ⟨x, _, rfl⟩ := List.mem_map.1 hl; exact id
  · obtain ⟨x, _, rfl⟩ := List.mem_map.1 hl; exact id

theorem nodup_bonds_rec (bs : List (SLeg × SLeg)) (rc : List Rec) (h1 : (Expr.pairLegs bs).Nodup)
    (h2 : ∀ l ∈ Expr.pairLegs bs, l.isVirt) (h3 : (Expr.pairLegs (recPairs rc)).Nodup) :
    (Expr.pairLegs (bs ++ recPairs rc)).Nodup := by
  rw [(Expr.pairLegs_append bs (recPairs rc)).nodup_iff, List.nodup_append]
  exact ⟨h1, h3, fun a ha b hb hab => recPairs_not_virt rc b hb (hab ▸ h2 a ha)⟩

variable {R : Type} [CommSemiring R]

/-- value of the renamed program of a two-site gate -/
theorem rn_gateExpr_eval {L' : Type} [DecidableEq L'] (f : Leg → L') (lP lC : List Leg) (bond : List (Leg × Leg))
    (n : Nat) (gp : List (Leg × Leg)) (TP TC G : Asg Leg → R) (dim : L' → Nat) (σ : Asg L') :
    ((gateExpr lP lC bond n gp TP TC G).rn_map f).eval dim σ =
      sumPairs dim (rn_pairs f gp) (fun τ => rn_pull f G τ *
        sumPairs dim (rn_pairs f bond) (fun ρ => rn_pull f TP ρ * rn_pull f TC ρ) τ) σ := by
  simp only [gateExpr, Expr.rn_map, Expr.eval]
  exact sumPairs_congr dim _ (fun τ => mul_comm _ _) σ

/-- value of the renamed program of a single-site gate -/
theorem rn_gateExpr1_eval {L' : Type} [DecidableEq L'] (f : Leg → L') (lT : List Leg) (n : Nat)
    (gp : List (Leg × Leg)) (T G : Asg Leg → R) (dim : L' → Nat) (σ : Asg L') :
    ((gateExpr1 lT n gp T G).rn_map f).eval dim σ =
      sumPairs dim (rn_pairs f gp) (fun τ => rn_pull f G τ * rn_pull f T τ) σ := by
  simp only [gateExpr1, Expr.rn_map, Expr.eval]
  exact sumPairs_congr dim _ (fun τ => mul_comm _ _) σ

/-- **Contract of `_apply_one_trotter_step` in ONE label space.**  Operator number `g` of a step, current
physical legs `cur`, gate tensor `Gt` (in the step labels).  The tensors of the touched nodes are the pulls of
LOCAL tensors along `stepGlob`, the absorbed tensor IS the value of the model's own program (`gateExpr1` /
`gateExpr` over the pairs `binds` / `r.binds` the model function returns), renamed by `stepGlob`:

* no site: `pass`;
* one site `s` (canonical node `mkNode s par ch 1`, `singleSite` returns `binds`): the new node tensor is the value
  of the renamed program `tensordot(T, G, binds)` - no hypothesis about a routine;
* two sites, naming order `(x, y) = (p, c)` or `(c, p)` of a pair `PairOK`, `twoSite` returns `r`: the only
  hypothesis about a routine is the exact split `hUV` OF THE VALUE OF THE RENAMED PROGRAM
  `tensordot(tensordot(P, C, bond), G, r.binds)` over a new bond `(q, r')`.

Side conditions = the labelled network is well formed: the rest reads `S`, which contains neither bond nor a leg
bound to the gate; the other bonds `bs` are virtual legs, no leg twice. -/
inductive GlobalLoopContract (dim : SLeg → Nat) (cur : Nat → GLeg) (g : Nat) (Gt : Asg SLeg → R) :
    List Nat → (Asg SLeg → R) → (Asg SLeg → R) → Prop
  | skip (ψ : Asg SLeg → R) : GlobalLoopContract dim cur g Gt [] ψ ψ
  | single (s : Nat) (par : Option Nat) (ch : List Nat) (ver : Nat → Nat → Nat) (n' : MNode)
      (binds : List (Leg × Leg)) (hs : singleSite (mkNode s par ch 1) = some (n', binds))
      (T G : Asg Leg → R) (hGt : Gt = rn_pull (stepGlob cur g s s [] ver) G)
      (bs : List (SLeg × SLeg)) (rest : List (Asg SLeg → R)) (S : SLeg → Prop)
      (hrest : ∀ f ∈ rest, DependsOn S f)
      (hgp : ∀ l ∈ Expr.pairLegs (rn_pairs (stepGlob cur g s s [] ver) binds), ¬ S l)
      (hbs1 : (Expr.pairLegs bs).Nodup) (hbs2 : ∀ l ∈ Expr.pairLegs bs, l.isVirt) :
      GlobalLoopContract dim cur g Gt [s]
        (netValue dim bs (rn_pull (stepGlob cur g s s [] ver) T :: rest))
        (netValue dim bs (((gateExpr1 (mkNode s par ch 1).legs (mkNode s par ch 1).nopen binds T G).rn_map
          (stepGlob cur g s s [] ver)).eval dim :: rest))
  | two (p c : Nat) (pp : Option Nat) (A B K : List Nat) (hpair : PairOK p c pp A B K) (ver : Nat → Nat → Nat)
      (x y : Nat) (r : TwoSiteResult)
      (hr : (x = p ∧ y = c ∧ twoSite p (mkNode p pp (A ++ c :: B) 1) c (mkNode c (some p) K 1) = some r) ∨
        (x = c ∧ y = p ∧ twoSite c (mkNode c (some p) K 1) p (mkNode p pp (A ++ c :: B) 1) = some r))
      (TP TC G : Asg Leg → R) (hGt : Gt = rn_pull (stepGlob cur g p c K ver) G)
      (bs : List (SLeg × SLeg)) (U V : Asg SLeg → R) (rest : List (Asg SLeg → R)) (q r' : SLeg) (S : SLeg → Prop)
      (hUV : ∀ τ, ((gateExpr (mkNode p pp (A ++ c :: B) 1).legs (mkNode c (some p) K 1).legs
          [(Leg.nb c, Leg.nb p)] r.contr.nopen r.binds TP TC G).rn_map (stepGlob cur g p c K ver)).eval dim τ =
        sumPairs dim [(q, r')] (fun ρ => U ρ * V ρ) τ)
      (hrest : ∀ f ∈ rest, DependsOn S f) (hq : ¬ S q) (hr' : ¬ S r')
      (hb₁ : ¬ S (stepGlob cur g p c K ver (Leg.nb c))) (hb₂ : ¬ S (stepGlob cur g p c K ver (Leg.nb p)))
      (hgp : ∀ l ∈ Expr.pairLegs (rn_pairs (stepGlob cur g p c K ver) r.binds), ¬ S l)
      (hbs1 : (Expr.pairLegs bs).Nodup) (hbs2 : ∀ l ∈ Expr.pairLegs bs, l.isVirt) :
      GlobalLoopContract dim cur g Gt [x, y]
        (netValue dim (bs ++ [(stepGlob cur g p c K ver (Leg.nb c), stepGlob cur g p c K ver (Leg.nb p))])
          (rn_pull (stepGlob cur g p c K ver) TP :: rn_pull (stepGlob cur g p c K ver) TC :: rest))
        (netValue dim (bs ++ [(q, r')]) (U :: V :: rest))

/-- the pairs of the model for either naming order, renamed, are the pairs of the specification -/
theorem two_binds_spec {p c : Nat} {pp : Option Nat} {A B K : List Nat} (hpair : PairOK p c pp A B K)
    (cur : Nat → GLeg) (g : Nat) (ver : Nat → Nat → Nat) {x y : Nat} {r : TwoSiteResult}
    (hr : (x = p ∧ y = c ∧ twoSite p (mkNode p pp (A ++ c :: B) 1) c (mkNode c (some p) K 1) = some r) ∨
      (x = c ∧ y = p ∧ twoSite c (mkNode c (some p) K 1) p (mkNode p pp (A ++ c :: B) 1) = some r)) :
    x ≠ y ∧ rn_pairs (stepGlob cur g p c K ver) r.binds = recPairs (specOp g (cur, []) 0 [x, y]).2 := by
  have hne : p ≠ c := hpair.p_notin.2.2.2
  rcases hr with ⟨rfl, rfl, hr⟩ | ⟨rfl, rfl, hr⟩
  · rw [twoSite_parentFirst 1 1 hpair] at hr
    cases hr
    exact ⟨hne, stepGlob_binds_two cur g _ _ K ver _ _ hne⟩
  · rw [twoSite_childFirst 1 1 hpair] at hr
    cases hr
    exact ⟨fun e => hne e.symm, stepGlob_binds_two cur g _ _ K ver _ _ (fun e => hne e.symm)⟩

/-- **the one-label-space contract implies the exact-split-only contract over the pairs of the specification** -/
theorem GlobalLoopContract.toLoop {dim : SLeg → Nat} {cur : Nat → GLeg} {rc : List Rec} {g : Nat}
    {Gt : Asg SLeg → R} {op : List Nat} {ψ ψ' : Asg SLeg → R} (hinv : RecInv cur rc g)
    (hG : DependsOn (GateReadsS g) Gt) (h : GlobalLoopContract dim cur g Gt op ψ ψ') :
    OpForm op ∧ LoopContract dim Gt (recPairs (specOp g (cur, []) 0 op).2) op ψ ψ' := by
  cases h with
  | skip => exact ⟨Or.inl rfl, LoopContract.skip _⟩
  | single s par ch ver n' binds hs T G hGt bs rest S hrest hgp hbs1 hbs2 =>
    have hop : OpForm [s] := Or.inr (Or.inl ⟨s, rfl⟩)
    refine ⟨hop, ?_⟩
    rw [singleSite_mkNode] at hs
    cases hs
    have hb := stepGlob_binds_one cur g s s [] ver s
    have e : ((gateExpr1 (mkNode s par ch 1).legs (mkNode s par ch 1).nopen
          ((physL s 1).zip ((List.range 1).map Leg.gin)) T G).rn_map (stepGlob cur g s s [] ver)).eval dim =
        fun τ => sumPairs dim (recPairs (specOp g (cur, []) 0 [s]).2)
          (fun ρ => Gt ρ * rn_pull (stepGlob cur g s s [] ver) T ρ) τ := by
      funext τ
      rw [rn_gateExpr1_eval, hb, hGt]
    rw [e]
    have hn := (hinv.forget.step hop).1.nodup
    rw [List.nil_append] at hn
    exact LoopContract.single s bs _ rest S (GateReadsS g) hrest (hb ▸ hgp) hG
      (fun l hl => isVirt_not_gateReadsS g l (hbs2 l hl)) (nodup_bonds_rec bs _ hbs1 hbs2 hn)
  | two p c pp A B K hpair ver x y r hr TP TC G hGt bs U V rest q r' S hUV hrest hq hr' hb₁ hb₂ hgp hbs1 hbs2 =>
    obtain ⟨hxy, hb⟩ := two_binds_spec hpair cur g ver hr
    have hop : OpForm [x, y] := Or.inr (Or.inr ⟨x, y, hxy, rfl⟩)
    refine ⟨hop, ?_⟩
    have hn := (hinv.forget.step hop).1.nodup
    rw [List.nil_append] at hn
    refine LoopContract.two x y bs _ _ U V rest _ _ q r' S (GateReadsS g) (fun τ => ?_) hrest hq hr' hb₁ hb₂
      (hb ▸ hgp) hG (fun l hl => isVirt_not_gateReadsS g l (hbs2 l hl)) (nodup_bonds_rec bs _ hbs1 hbs2 hn)
    rw [← hUV τ, rn_gateExpr_eval, hb, hGt]
    rfl

/-- a run of `run_one_time_step` at value level, all networks and programs in the step labels `SLeg` -/
inductive GlobalLoopChain (dim : SLeg → Nat) (G : Nat → Asg SLeg → R) :
    (Nat → GLeg) → Nat → List (List Nat) → (Asg SLeg → R) → (Asg SLeg → R) → Prop
  | nil (cur : Nat → GLeg) (g : Nat) (ψ : Asg SLeg → R) : GlobalLoopChain dim G cur g [] ψ ψ
  | cons (cur : Nat → GLeg) (g : Nat) (op : List Nat) (ops : List (List Nat)) (ψ ψ' ψ'' : Asg SLeg → R)
      (h1 : GlobalLoopContract dim cur g (G g) op ψ ψ')
      (h2 : GlobalLoopChain dim G (specOp g (cur, []) 0 op).1 (g + 1) ops ψ' ψ'') :
      GlobalLoopChain dim G cur g (op :: ops) ψ ψ''

theorem GlobalLoopChain.toLoop {dim : SLeg → Nat} {G : Nat → Asg SLeg → R}
    (hG : ∀ i, DependsOn (GateReadsS i) (G i)) {cur : Nat → GLeg} {g : Nat}
    {ops : List (List Nat)} {ψ ψ'' : Asg SLeg → R} (h : GlobalLoopChain dim G cur g ops ψ ψ'') :
    ∀ {rc : List Rec}, RecInv cur rc g → LoopChain dim G cur g ops ψ ψ'' := by
  induction h with
  | nil cur g ψ => intro _ _; exact LoopChain.nil cur g ψ
  | cons cur g op ops ψ ψ' ψ'' h1 _ ih =>
    intro rc hinv
    obtain ⟨hop, hl⟩ := h1.toLoop hinv (hG g)
    exact LoopChain.cons cur g op ops ψ ψ' ψ'' hl (ih (hinv.step hop))

/-- every chain of networks related by the one-label-space contracts ends in the ordered product of the gates -/
theorem global_loop_chain_value {dim : SLeg → Nat} {G : Nat → Asg SLeg → R}
    (hG : ∀ i, DependsOn (GateReadsS i) (G i)) {cur : Nat → GLeg} {rc : List Rec} {g : Nat}
    (hinv : RecInv cur rc g) {ops : List (List Nat)} {ψ ψ'' : Asg SLeg → R}
    (h : GlobalLoopChain dim G cur g ops ψ ψ'') : ψ'' = actRun dim G cur g ops ψ :=
  loop_chain_value (h.toLoop hG hinv)

/-- the exact-split hypothesis of `GlobalLoopContract.two` is satisfiable for every program renamed by an injective
`f` and every new bond outside the range of `f` (dimension one): the value of a renamed program reads only
renamed labels -/
theorem rn_split_exists_step (f : Leg → SLeg) (hf : Function.Injective f) (e : Expr Leg R) (dim : SLeg → Nat)
    (q r' : SLeg) (hq : ∀ l, f l ≠ q) (hr : ∀ l, f l ≠ r') (hd : dim q = 1) :
    ∃ U V : Asg SLeg → R, ∀ τ, (e.rn_map f).eval dim τ = sumPairs dim [(q, r')] (fun ρ => U ρ * V ρ) τ := by
  refine ⟨(e.rn_map f).eval dim, fun _ => 1, fun τ => ?_⟩
  have hdep : DependsOn (fun l' => ∃ l, f l = l') ((e.rn_map f).eval dim) := by
    rw [Expr.rn_eval_pull _ hf (fun l => dim (f l)) dim (fun _ => rfl)]
    exact rn_pull_dependsOn (S := fun _ => True) _ (fun l _ => ⟨l, rfl⟩)
      (fun σ τ hst => by rw [show σ = τ from funext (fun l => hst l trivial)])
  exact trivial_split dim _ _ _ hdep (fun ⟨l, e⟩ => hq l e) (fun ⟨l, e⟩ => hr l e) hd τ

/-- a new bond leg of a later version is outside the range of `stepGlob` -/
theorem stepGlob_ne_newbond (cur : Nat → GLeg) (g p c : Nat) (K : List Nat) (a b v : Nat) (l : Leg) :
    stepGlob cur g p c K (fun _ _ => v) l ≠ SLeg.virt a b (v + 3) := by
  rcases l with x | ⟨n, _ | k⟩ | k | k | _ <;> intro h <;>
    simp only [stepGlob, SLeg.virt.injEq, reduceCtorEq] at h <;>
    first | omega | exact h.2.2.elim

omit [CommSemiring R] in
/-- every gate tensor in the step labels that reads only the legs of gate `g` is the pull of a local gate tensor:
the hypothesis `hGt` of `GlobalLoopContract` loses nothing -/
theorem stepGlob_gate_surj (cur : Nat → GLeg) (g p c : Nat) (K : List Nat) (ver : Nat → Nat → Nat)
    (Gt : Asg SLeg → R) (hG : DependsOn (GateReadsS g) Gt) :
    ∃ G : Asg Leg → R, Gt = rn_pull (stepGlob cur g p c K ver) G := by
  refine ⟨fun σ => Gt (fun l' => match l' with
    | .ph (.out _ k) => σ (Leg.gout k)
    | .gin _ k => σ (Leg.gin k)
    | _ => 0), ?_⟩
  funext σ'
  apply hG
  intro l' hl'
  match l', hl' with
  | .ph (.out g' k), h => simp only [GateReadsS] at h; subst h; rfl
  | .gin g' k, h => simp only [GateReadsS] at h; subst h; rfl

end Ptn.C08
