import Ptn.C08.Model
/-! Property theorems for C08. Only property theorems and non-vacuity examples live here. -/
namespace Ptn.C08
end Ptn.C08
