import Ptn.C08.Model
import Ptn.C08.Lemmas
import Ptn.C08.Stages
import Ptn.C08.StepLemmas
/-! Property theorems for C08 (a TEBD step is the ordered product of its Trotter gates and SWAPs).
Only property theorems and non-vacuity examples live here; helper lemmas are in `Lemmas.lean`
(splitting, SWAP), `LegLemmas.lean` and `Stages.lean` (leg bookkeeping).

What is proved: (i) the list order of `exponentiate_splitting`, (ii) the index rule of `swap_gate` for
every dimension, (iii) the leg bookkeeping of the two-site (and single-site) gate application for
either orientation of the pair, any number of further neighbours and of physical legs.
Not proved here (decided per input by the dense oracle of the harness): that the numbers agree
(`expm`, SVD, dimensions) and the bond bound under truncation. -/
namespace Ptn.C08

/-! ### (i) order of the operators of one time step -/

/-- `exponentiate_splitting` returns, for the Trotter steps in their order, the swaps before, the
    exponentiated operator, the swaps after - concatenated. -/
theorem splitting_order {α : Type} (steps : List (TStep α)) :
    exponentiateSplitting steps =
      (steps.map fun s => s.before ++ [s.gate] ++ s.after).flatten := by
  unfold exponentiateSplitting
  rw [foldl_stepBody]
  rfl

/-- Consequently nothing is lost or duplicated: the number of operators is the sum over the steps. -/
theorem splitting_length {α : Type} (steps : List (TStep α)) :
    (exponentiateSplitting steps).length =
      (steps.map fun s => s.before.length + 1 + s.after.length).sum := by
  rw [splitting_order]
  induction steps with
  | nil => rfl
  | cons s ss ih =>
    simp only [List.map_cons, List.flatten_cons, List.length_append, List.sum_cons, ih,
      List.length_cons, List.length_nil]

example : exponentiateSplitting [⟨[3, 4], 0, [5]⟩, ⟨[], 1, []⟩, ⟨[6], 2, [7, 8]⟩] =
    [3, 4, 0, 5, 1, 6, 2, 7, 8] := by decide

/-! ### (ii) the SWAP matrix -/

/-- For every dimension `d` and all digits `a, b, a', b' < d`: the entry of `swap_gate(d)` in row
    `a*d + b` (outputs `(a, b)`) and column `a'*d + b'` (inputs `(a', b')`) is one exactly when the two
    digits are exchanged, `(a, b) = (b', a')`, and zero otherwise. -/
theorem swap_gate_spec (d a b a' b' : Nat) (ha : a < d) (hb : b < d) (ha' : a' < d) (hb' : b' < d) :
    entry (swapGate d) (a * d + b) (a' * d + b') = some (if a = b' ∧ b = a' then 1 else 0) := by
  rw [entry_swapGate]
  have h1 := index_lt ha hb
  have h2 := index_lt ha' hb'
  simp only [h1, h2, and_self, if_true]
  have d1 := digits_of_index (a := a) hb
  have d2 := digits_of_index (a := a') hb'
  have hc : swapCond d (a * d + b) (a' * d + b') = true ↔ (a = b' ∧ b = a') := by
    rw [swapCond_iff, d1.1, d1.2, d2.1, d2.2]
    constructor
    · intro h; exact ⟨h.1, h.2.symm⟩
    · intro h; exact ⟨h.1, h.2.symm⟩
  by_cases h : a = b' ∧ b = a'
  · rw [if_pos h, if_pos (hc.mpr h)]
  · have : ¬ swapCond d (a * d + b) (a' * d + b') = true := fun x => h (hc.mp x)
    rw [if_neg h, if_neg this]

/-- The matrix is `d² × d²`: exactly the index pairs below `d²` carry an entry. -/
theorem swap_gate_shape (d i j : Nat) :
    (entry (swapGate d) i j).isSome ↔ (i < d * d ∧ j < d * d) := by
  rw [entry_swapGate]
  by_cases h : i < d * d ∧ j < d * d
  · simp [h]
  · simp [h]

/-- Exchanging the digits twice is the identity; the exchanged index is again an index; row `i` of the
    SWAP matrix has its single one in column `digitSwap d i`. -/
theorem swap_gate_involutive (d i : Nat) (hi : i < d * d) :
    digitSwap d (digitSwap d i) = i ∧ digitSwap d i < d * d ∧
      ∀ j, j < d * d → (entry (swapGate d) i j = some 1 ↔ j = digitSwap d i) := by
  have hd : 0 < d := by
    cases d with
    | zero => simp at hi
    | succ n => omega
  have hq : i / d < d := div_lt_of_lt_sq hi
  have hr : i % d < d := Nat.mod_lt _ hd
  have dg := digits_of_index (a := i % d) hq
  refine ⟨?_, ?_, ?_⟩
  · unfold digitSwap
    rw [dg.1, dg.2, Nat.mul_comm]
    exact Nat.div_add_mod i d
  · exact index_lt hr hq
  · intro j hj
    rw [entry_swapGate]
    simp only [hi, hj, and_self, if_true, Option.some.injEq]
    have hjq : j / d < d := div_lt_of_lt_sq hj
    constructor
    · intro h
      have hc : swapCond d i j = true := by
        by_cases hc : swapCond d i j = true
        · exact hc
        · simp [hc] at h
      rw [swapCond_iff] at hc
      unfold digitSwap
      rw [← hc.2, hc.1, Nat.mul_comm]
      exact (Nat.div_add_mod j d).symm
    · intro h
      have hc : swapCond d i j = true := by
        rw [swapCond_iff, h]
        unfold digitSwap
        rw [dg.1, dg.2]
        exact ⟨rfl, rfl⟩
      simp [hc]

example : (swapGate 2) = [[1, 0, 0, 0], [0, 0, 1, 0], [0, 1, 0, 0], [0, 0, 0, 1]] := by decide
example : onesOf (swapGate 3) =
    [(0, 0), (1, 3), (2, 6), (3, 1), (4, 4), (5, 7), (6, 2), (7, 5), (8, 8)] := by decide
example : entry (swapGate 3) (1 * 3 + 2) (2 * 3 + 1) = some 1 := by decide   -- |1,2⟩⟨2,1|

/-- Mixed dimensions: the row (column) index `a * dB + b` of `numpy.kron(A, B)` is split by the
    C-order `reshape` of `NumericOperator.to_tensor` into the digits `(a, b)`: the first tensor leg of
    the gate belongs to the first dictionary key, the second leg to the second key. -/
theorem kron_index_digits (dB a b : Nat) (hb : b < dB) :
    (a * dB + b) / dB = a ∧ (a * dB + b) % dB = b :=
  digits_of_index hb

/-! ### (iii) leg bookkeeping of a gate application -/

/-- **Two-site gate.**  `P` (identifier `p`, parent `pp` or root, children `A ++ c :: B`, `oP` physical
    legs) is the parent of `C` (identifier `c`, children `K`, `oC` physical legs); all identifiers are
    distinct.  For either order in which the operator names the two nodes, the sequence
    `legs_before_combination; contract_nodes; absorb_into_open_legs; split_node_svd` completes and

    * the gate's `k`-th input leg is contracted with the `k`-th physical leg in the order (legs of the
      first-named node, legs of the second-named node);
    * each node comes back with its parent, with its children (the pair's child now first among the
      parent's children), and with the gate's output legs where its physical legs were: outputs
      `0 … o₁-1` on the first-named node, `o₁ … o₁+o₂-1` on the second-named one. -/
theorem two_site_gate_legs (p c : Nat) (pp : Option Nat) (A B K : List Nat) (oP oC : Nat)
    (h : PairOK p c pp A B K) :
    (∃ r, twoSite p (mkNode p pp (A ++ c :: B) oP) c (mkNode c (some p) K oC) = some r ∧
      r.binds = (physL p oP ++ physL c oC).zip ((List.range (oP + oC)).map Leg.gin) ∧
      r.node1 = ⟨pp, c :: (A ++ B), parentLegs pp ++ (Leg.bond :: ((A ++ B).map Leg.nb ++ goutL 0 oP))⟩ ∧
      r.node2 = ⟨some p, K, Leg.bond :: (K.map Leg.nb ++ goutL oP oC)⟩) ∧
    (∃ r, twoSite c (mkNode c (some p) K oC) p (mkNode p pp (A ++ c :: B) oP) = some r ∧
      r.binds = (physL c oC ++ physL p oP).zip ((List.range (oC + oP)).map Leg.gin) ∧
      r.node1 = ⟨some p, K, Leg.bond :: (K.map Leg.nb ++ goutL 0 oC)⟩ ∧
      r.node2 = ⟨pp, c :: (A ++ B), parentLegs pp ++ (Leg.bond :: ((A ++ B).map Leg.nb ++ goutL oC oP))⟩) := by
  exact ⟨⟨_, twoSite_parentFirst oP oC h, rfl, rfl, rfl⟩, ⟨_, twoSite_childFirst oP oC h, rfl, rfl, rfl⟩⟩

/-- The case TEBD uses (one physical leg per node), spelled out: input leg 0 meets the physical leg of
    the first-named node, input leg 1 that of the second-named node, whichever of them is the parent. -/
theorem two_site_gate_binding (p c : Nat) (pp : Option Nat) (A B K : List Nat)
    (h : PairOK p c pp A B K) :
    (twoSite p (mkNode p pp (A ++ c :: B) 1) c (mkNode c (some p) K 1)).map (·.binds) =
      some [(Leg.phys p 0, Leg.gin 0), (Leg.phys c 0, Leg.gin 1)] ∧
    (twoSite c (mkNode c (some p) K 1) p (mkNode p pp (A ++ c :: B) 1)).map (·.binds) =
      some [(Leg.phys c 0, Leg.gin 0), (Leg.phys p 0, Leg.gin 1)] := by
  rw [twoSite_parentFirst 1 1 h, twoSite_childFirst 1 1 h]
  exact ⟨rfl, rfl⟩

/-- Identifiers and parent/child relations of the pair are unchanged by a two-site gate: same parents,
    the children lists are permutations of the old ones (the parent's list gets the pair's child in
    front). -/
theorem two_site_structure (p c : Nat) (pp : Option Nat) (A B K : List Nat) (oP oC : Nat)
    (h : PairOK p c pp A B K) :
    (∃ r, twoSite p (mkNode p pp (A ++ c :: B) oP) c (mkNode c (some p) K oC) = some r ∧
      r.node1.parent = pp ∧ r.node1.children.Perm (A ++ c :: B) ∧
      r.node2.parent = some p ∧ r.node2.children = K) ∧
    (∃ r, twoSite c (mkNode c (some p) K oC) p (mkNode p pp (A ++ c :: B) oP) = some r ∧
      r.node1.parent = some p ∧ r.node1.children = K ∧
      r.node2.parent = pp ∧ r.node2.children.Perm (A ++ c :: B)) := by
  have hperm : (c :: (A ++ B)).Perm (A ++ c :: B) := List.perm_middle.symm
  exact ⟨⟨_, twoSite_parentFirst oP oC h, rfl, hperm, rfl, rfl⟩,
         ⟨_, twoSite_childFirst oP oC h, rfl, rfl, rfl, hperm⟩⟩

/-- **Single-site gate**: `absorb_into_open_legs` binds input leg `k` to physical leg `k` and leaves the
    outputs in their places; nothing else changes. -/
theorem single_site_gate_legs (id : Nat) (par : Option Nat) (ch : List Nat) (o : Nat) :
    singleSite (mkNode id par ch o) =
      some (⟨par, ch, parentLegs par ++ (ch.map Leg.nb ++ goutL 0 o)⟩,
            (physL id o).zip ((List.range o).map Leg.gin)) :=
  singleSite_mkNode id par ch o

/-- **Tree level** (every node carries one physical leg, as under TEBD): in a tree with distinct
    identifiers that contains `p` with children `A ++ c :: B` and its child `c`, a two-site gate on the
    pair - named in either order - completes, keeps every identifier and every parent, and permutes
    child lists only (the pair's child moves to the front of `p`'s list). -/
theorem two_site_tree_structure (t : List TNode) (p c : Nat) (pp : Option Nat) (A B K : List Nat)
    (hnd : (t.map (·.id)).Nodup)
    (hP : (⟨p, pp, A ++ c :: B⟩ : TNode) ∈ t) (hC : (⟨c, some p, K⟩ : TNode) ∈ t)
    (h : PairOK p c pp A B K) :
    applyPair t p c = some (afterPair t p c A B) ∧
    applyPair t c p = some (afterPair t p c A B) ∧
    (afterPair t p c A B).map (·.id) = t.map (·.id) ∧
    (afterPair t p c A B).map (·.parent) = t.map (·.parent) ∧
    (∀ y ∈ afterPair t p c A B, ∃ x ∈ t, x.id = y.id ∧ x.parent = y.parent ∧
        y.children.Perm x.children) := by
  have h1 := applyPair_both t p c pp A B K hnd hP hC h
  have h2 := afterPair_structure t p c pp A B hnd hP
  exact ⟨h1.1, h1.2, h2.1, h2.2.1, h2.2.2⟩

/-! ### (iv) a whole time step, several time steps, and the operators of the splitting -/

/-- **One TEBD time step.**  For every well-formed tree (distinct identifiers, consistent parent and
    children fields, acyclic; one physical leg per node) and every list of operators - no site, one
    existing site, or two tree-adjacent sites in either naming order (SWAPs are such two-site
    operators) - the loop of `run_one_time_step` completes in the model; the tree keeps every identifier
    and every parent, child lists are permuted only; and the physical-leg table and the global binding
    record read off the leg-level model gate by gate equal the *composition in list order*
    (`specRun`): input `k` of operator number `g` is bound to the then current physical leg of its
    `k`-th named site, and output `k` becomes that site's physical leg. -/
theorem tebd_step_legs (t : List TNode) (hwf : TreeWF t) (ops : List (List Nat))
    (hv : ∀ op ∈ ops, ValidOp t op) (cur : Nat → GLeg) (rc : List Rec) (g : Nat) :
    ∃ t', runOps ⟨t, cur, rc⟩ g ops =
        some ⟨t', (specRun (cur, rc) g ops).1, (specRun (cur, rc) g ops).2⟩ ∧
      t'.map (·.id) = t.map (·.id) ∧ t'.map (·.parent) = t.map (·.parent) ∧
      (∀ y ∈ t', ∃ x ∈ t, y.id = x.id ∧ y.parent = x.parent ∧ y.children.Perm x.children) ∧
      TreeWF t' := by
  obtain ⟨t', h1, hs⟩ := runOps_spec ops hwf hv cur rc g
  exact ⟨t', h1, hs.ids, hs.parents, fun y hy => hs.mem_right y hy, hwf.sim hs⟩

/-- **Several time steps** are the step list repeated: `k` runs of `run_one_time_step` equal one run
    over the `k`-fold concatenation of the exponent list (gates numbered consecutively); hence, by
    `tebd_step_legs`, they complete and realise the composition over the concatenated list. -/
theorem tebd_steps_compose (ops : List (List Nat)) (k : Nat) (st : GState) (g : Nat) :
    runSteps ops st g k = runOps st g (List.replicate k ops).flatten :=
  runSteps_eq ops k st g

theorem tebd_steps_legs (t : List TNode) (hwf : TreeWF t) (ops : List (List Nat))
    (hv : ∀ op ∈ ops, ValidOp t op) (k : Nat) (cur : Nat → GLeg) (rc : List Rec) (g : Nat) :
    ∃ t', runSteps ops ⟨t, cur, rc⟩ g k =
        some ⟨t', (specRun (cur, rc) g (List.replicate k ops).flatten).1,
                  (specRun (cur, rc) g (List.replicate k ops).flatten).2⟩ ∧
      t'.map (·.id) = t.map (·.id) ∧ t'.map (·.parent) = t.map (·.parent) ∧
      (∀ y ∈ t', ∃ x ∈ t, y.id = x.id ∧ y.parent = x.parent ∧ y.children.Perm x.children) ∧
      TreeWF t' := by
  rw [tebd_steps_compose]
  apply tebd_step_legs t hwf
  intro op hop
  rw [List.mem_flatten] at hop
  obtain ⟨l, hl, hol⟩ := hop
  rw [(List.mem_replicate.mp hl).2] at hol
  exact hv op hol

/-- **The operators of the splitting.**  `TEBD.exponents` names, in order, for every Trotter step: the
    pairs of `swaps_before` (each as `[first, second]`), the keys of the step's `TensorProduct` in
    dictionary order, the pairs of `swaps_after` - whether the swaps were given as `None`, as a
    `SWAPlist` or (after the repair F-C08a) as a plain list of pairs. -/
theorem exponents_match_splitting (steps : List SiteStep) :
    exponentSites steps =
      (steps.map fun s =>
        (s.before.norm.map fun pr => [pr.1, pr.2]) ++ [s.keys] ++
          (s.after.norm.map fun pr => [pr.1, pr.2])).flatten := by
  unfold exponentSites
  rw [splitting_order, List.map_map]
  congr 1
  apply List.map_congr_left
  intro s _
  simp [swapSites_eq]

/-- A plain list of pairs and the same pairs wrapped in a `SWAPlist` give the same operators. -/
theorem exponents_plain_list (keys : List Nat) (b a : List (Nat × Nat)) (rest : List SiteStep) :
    exponentSites (⟨keys, .plain b, .plain a⟩ :: rest) =
      exponentSites (⟨keys, .swaplist b, .swaplist a⟩ :: rest) := by
  rw [exponents_match_splitting, exponents_match_splitting]
  rfl

/-! ### non-vacuity -/

-- the tree 0 - {1 - {3}, 2}
example : TreeWF [⟨0, none, [1, 2]⟩, ⟨1, some 0, [3]⟩, ⟨2, some 0, []⟩, ⟨3, some 1, []⟩] := by
  refine ⟨by decide, by decide, by decide, by decide, ⟨fun n => if n = 0 then 0 else if n = 3 then 2 else 1, by decide⟩⟩

example : ValidOp [⟨0, none, [1, 2]⟩, ⟨1, some 0, [3]⟩, ⟨2, some 0, []⟩, ⟨3, some 1, []⟩] [3, 1] :=
  ⟨⟨3, some 1, []⟩, by decide, ⟨1, some 0, [3]⟩, by decide, rfl, rfl, Or.inr rfl⟩

-- SWAP(0,2); gate on (3,1) (child first); single-site gate on 1; gate on (1,0): the record composes
example : (runOps ⟨[⟨0, none, [1, 2]⟩, ⟨1, some 0, [3]⟩, ⟨2, some 0, []⟩, ⟨3, some 1, []⟩],
      GLeg.init, []⟩ 0 [[0, 2], [3, 1], [1], [1, 0]]).map (fun st => (st.tree, st.record)) =
    some ([⟨0, none, [1, 2]⟩, ⟨1, some 0, [3]⟩, ⟨2, some 0, []⟩, ⟨3, some 1, []⟩],
          [(GLeg.init 0, 0, 0), (GLeg.init 2, 0, 1), (GLeg.init 3, 1, 0), (GLeg.init 1, 1, 1),
           (GLeg.out 1 1, 2, 0), (GLeg.out 2 0, 3, 0), (GLeg.out 0 0, 3, 1)]) := by decide

example : exponentSites [⟨[5, 4], .plain [(4, 5)], .none⟩, ⟨[7], .swaplist [(1, 2), (2, 1)], .plain [(3, 4)]⟩] =
    [[4, 5], [5, 4], [1, 2], [2, 1], [7], [3, 4]] := by decide


-- a four-node tree 0 - {1 - {3}, 2}: gates on (0,2) then (3,1) (child named first)
example : applyPairs [⟨0, none, [1, 2]⟩, ⟨1, some 0, [3]⟩, ⟨2, some 0, []⟩, ⟨3, some 1, []⟩]
    [(0, 2), (3, 1)] =
    some [⟨0, none, [2, 1]⟩, ⟨1, some 0, [3]⟩, ⟨2, some 0, []⟩, ⟨3, some 1, []⟩] := by decide


example : PairOK 1 2 (some 0) [5] [6] [7] := by unfold PairOK; decide
example : PairOK 1 2 none [] [] [] := by unfold PairOK; decide

-- child named first, parent has a parent and two more children, child has a child
example : (twoSite 2 (mkNode 2 (some 1) [7] 1) 1 (mkNode 1 (some 0) [5, 2, 6] 1)).map
    (fun r => (r.binds, r.node1, r.node2)) =
    some ([(Leg.phys 2 0, Leg.gin 0), (Leg.phys 1 0, Leg.gin 1)],
          ⟨some 1, [7], [Leg.bond, Leg.nb 7, Leg.gout 0]⟩,
          ⟨some 0, [2, 5, 6], [Leg.nb 0, Leg.bond, Leg.nb 5, Leg.nb 6, Leg.gout 1]⟩) := by decide

-- nodes that are not adjacent: the model raises, as the library does
example : twoSite 1 (mkNode 1 none [3] 1) 2 (mkNode 2 (some 4) [] 1) = none := by decide

end Ptn.C08
