import Ptn.C08.Model
import Ptn.C08.Lemmas
import Ptn.C08.Stages
import Ptn.C08.StepLemmas
import Ptn.C08.Value
import Ptn.C08.SwapValue
import Ptn.C08.StepValue
import Ptn.C08.LoopValue
import Ptn.C08.GlobalValue
import Ptn.C08.StepGlobal
/-! Property theorems for C08 (a TEBD step is the ordered product of its Trotter gates and SWAPs).
Only property theorems and non-vacuity examples live here; helper lemmas are in `Lemmas.lean`
(splitting, SWAP), `LegLemmas.lean` and `Stages.lean` (leg bookkeeping).

What is proved: (i) the list order of `exponentiate_splitting`, (ii) the index rule of `swap_gate` for
every dimension, (iii) the leg bookkeeping of the two-site (and single-site) gate application for
either orientation of the pair, any number of further neighbours and of physical legs.
Not proved here (decided per input by the dense oracle of the harness): that the numbers agree
(`expm`, SVD, dimensions) and the bond bound under truncation. -/
namespace Ptn.C08

/-! ### (i) order of the operators of one time step -/

/-- `exponentiate_splitting` returns, for the Trotter steps in their order, the swaps before, the
    exponentiated operator, the swaps after - concatenated. -/
theorem splitting_order {α : Type} (steps : List (TStep α)) :
    exponentiateSplitting steps =
      (steps.map fun s => s.before ++ [s.gate] ++ s.after).flatten := by
  unfold exponentiateSplitting
  rw [foldl_stepBody]
  rfl

/-- Consequently nothing is lost or duplicated: the number of operators is the sum over the steps. -/
theorem splitting_length {α : Type} (steps : List (TStep α)) :
    (exponentiateSplitting steps).length =
      (steps.map fun s => s.before.length + 1 + s.after.length).sum := by
  rw [splitting_order]
  induction steps with
  | nil => rfl
  | cons s ss ih =>
    simp only [List.map_cons, List.flatten_cons, List.length_append, List.sum_cons, ih,
      List.length_cons, List.length_nil]

example : exponentiateSplitting [⟨[3, 4], 0, [5]⟩, ⟨[], 1, []⟩, ⟨[6], 2, [7, 8]⟩] =
    [3, 4, 0, 5, 1, 6, 2, 7, 8] := by decide

/-! ### (ii) the SWAP matrix -/

/-- For every dimension `d` and all digits `a, b, a', b' < d`: the entry of `swap_gate(d)` in row
    `a*d + b` (outputs `(a, b)`) and column `a'*d + b'` (inputs `(a', b')`) is one exactly when the two
    digits are exchanged, `(a, b) = (b', a')`, and zero otherwise. -/
theorem swap_gate_spec (d a b a' b' : Nat) (ha : a < d) (hb : b < d) (ha' : a' < d) (hb' : b' < d) :
    entry (swapGate d) (a * d + b) (a' * d + b') = some (if a = b' ∧ b = a' then 1 else 0) := by
  rw [entry_swapGate]
  have h1 := index_lt ha hb
  have h2 := index_lt ha' hb'
  simp only [h1, h2, and_self, if_true]
  have d1 := digits_of_index (a := a) hb
  have d2 := digits_of_index (a := a') hb'
  have hc : swapCond d (a * d + b) (a' * d + b') = true ↔ (a = b' ∧ b = a') := by
    rw [swapCond_iff, d1.1, d1.2, d2.1, d2.2]
    constructor
    · intro h; exact ⟨h.1, h.2.symm⟩
    · intro h; exact ⟨h.1, h.2.symm⟩
  by_cases h : a = b' ∧ b = a'
  · rw [if_pos h, if_pos (hc.mpr h)]
  · have : ¬ swapCond d (a * d + b) (a' * d + b') = true := fun x => h (hc.mp x)
    rw [if_neg h, if_neg this]

/-- The matrix is `d² × d²`: exactly the index pairs below `d²` carry an entry. -/
theorem swap_gate_shape (d i j : Nat) :
    (entry (swapGate d) i j).isSome ↔ (i < d * d ∧ j < d * d) := by
  rw [entry_swapGate]
  by_cases h : i < d * d ∧ j < d * d
  · simp [h]
  · simp [h]

/-- Exchanging the digits twice is the identity; the exchanged index is again an index; row `i` of the
    SWAP matrix has its single one in column `digitSwap d i`. -/
theorem swap_gate_involutive (d i : Nat) (hi : i < d * d) :
    digitSwap d (digitSwap d i) = i ∧ digitSwap d i < d * d ∧
      ∀ j, j < d * d → (entry (swapGate d) i j = some 1 ↔ j = digitSwap d i) := by
  have hd : 0 < d := by
    cases d with
    | zero => simp at hi
    | succ n => omega
  have hq : i / d < d := div_lt_of_lt_sq hi
  have hr : i % d < d := Nat.mod_lt _ hd
  have dg := digits_of_index (a := i % d) hq
  refine ⟨?_, ?_, ?_⟩
  · unfold digitSwap
    rw [dg.1, dg.2, Nat.mul_comm]
    exact Nat.div_add_mod i d
  · exact index_lt hr hq
  · intro j hj
    rw [entry_swapGate]
    simp only [hi, hj, and_self, if_true, Option.some.injEq]
    have hjq : j / d < d := div_lt_of_lt_sq hj
    constructor
    · intro h
      have hc : swapCond d i j = true := by
        by_cases hc : swapCond d i j = true
        · exact hc
        · simp [hc] at h
      rw [swapCond_iff] at hc
      unfold digitSwap
      rw [← hc.2, hc.1, Nat.mul_comm]
      exact (Nat.div_add_mod j d).symm
    · intro h
      have hc : swapCond d i j = true := by
        rw [swapCond_iff, h]
        unfold digitSwap
        rw [dg.1, dg.2]
        exact ⟨rfl, rfl⟩
      simp [hc]

example : (swapGate 2) = [[1, 0, 0, 0], [0, 0, 1, 0], [0, 1, 0, 0], [0, 0, 0, 1]] := by decide
example : onesOf (swapGate 3) =
    [(0, 0), (1, 3), (2, 6), (3, 1), (4, 4), (5, 7), (6, 2), (7, 5), (8, 8)] := by decide
example : entry (swapGate 3) (1 * 3 + 2) (2 * 3 + 1) = some 1 := by decide   -- |1,2⟩⟨2,1|

/-- Mixed dimensions: the row (column) index `a * dB + b` of `numpy.kron(A, B)` is split by the
    C-order `reshape` of `NumericOperator.to_tensor` into the digits `(a, b)`: the first tensor leg of
    the gate belongs to the first dictionary key, the second leg to the second key. -/
theorem kron_index_digits (dB a b : Nat) (hb : b < dB) :
    (a * dB + b) / dB = a ∧ (a * dB + b) % dB = b :=
  digits_of_index hb

/-! ### (iii) leg bookkeeping of a gate application -/

/-- **Two-site gate.**  `P` (identifier `p`, parent `pp` or root, children `A ++ c :: B`, `oP` physical
    legs) is the parent of `C` (identifier `c`, children `K`, `oC` physical legs); all identifiers are
    distinct.  For either order in which the operator names the two nodes, the sequence
    `legs_before_combination; contract_nodes; absorb_into_open_legs; split_node_svd` completes and

    * the gate's `k`-th input leg is contracted with the `k`-th physical leg in the order (legs of the
      first-named node, legs of the second-named node);
    * each node comes back with its parent, with its children (the pair's child now first among the
      parent's children), and with the gate's output legs where its physical legs were: outputs
      `0 … o₁-1` on the first-named node, `o₁ … o₁+o₂-1` on the second-named one. -/
theorem two_site_gate_legs (p c : Nat) (pp : Option Nat) (A B K : List Nat) (oP oC : Nat)
    (h : PairOK p c pp A B K) :
    (∃ r, twoSite p (mkNode p pp (A ++ c :: B) oP) c (mkNode c (some p) K oC) = some r ∧
      r.binds = (physL p oP ++ physL c oC).zip ((List.range (oP + oC)).map Leg.gin) ∧
      r.node1 = ⟨pp, c :: (A ++ B), parentLegs pp ++ (Leg.bond :: ((A ++ B).map Leg.nb ++ goutL 0 oP))⟩ ∧
      r.node2 = ⟨some p, K, Leg.bond :: (K.map Leg.nb ++ goutL oP oC)⟩) ∧
    (∃ r, twoSite c (mkNode c (some p) K oC) p (mkNode p pp (A ++ c :: B) oP) = some r ∧
      r.binds = (physL c oC ++ physL p oP).zip ((List.range (oC + oP)).map Leg.gin) ∧
      r.node1 = ⟨some p, K, Leg.bond :: (K.map Leg.nb ++ goutL 0 oC)⟩ ∧
      r.node2 = ⟨pp, c :: (A ++ B), parentLegs pp ++ (Leg.bond :: ((A ++ B).map Leg.nb ++ goutL oC oP))⟩) := by
  exact ⟨⟨_, twoSite_parentFirst oP oC h, rfl, rfl, rfl⟩, ⟨_, twoSite_childFirst oP oC h, rfl, rfl, rfl⟩⟩

/-- The case TEBD uses (one physical leg per node), spelled out: input leg 0 meets the physical leg of
    the first-named node, input leg 1 that of the second-named node, whichever of them is the parent. -/
theorem two_site_gate_binding (p c : Nat) (pp : Option Nat) (A B K : List Nat)
    (h : PairOK p c pp A B K) :
    (twoSite p (mkNode p pp (A ++ c :: B) 1) c (mkNode c (some p) K 1)).map (·.binds) =
      some [(Leg.phys p 0, Leg.gin 0), (Leg.phys c 0, Leg.gin 1)] ∧
    (twoSite c (mkNode c (some p) K 1) p (mkNode p pp (A ++ c :: B) 1)).map (·.binds) =
      some [(Leg.phys c 0, Leg.gin 0), (Leg.phys p 0, Leg.gin 1)] := by
  rw [twoSite_parentFirst 1 1 h, twoSite_childFirst 1 1 h]
  exact ⟨rfl, rfl⟩

/-- Identifiers and parent/child relations of the pair are unchanged by a two-site gate: same parents,
    the children lists are permutations of the old ones (the parent's list gets the pair's child in
    front). -/
theorem two_site_structure (p c : Nat) (pp : Option Nat) (A B K : List Nat) (oP oC : Nat)
    (h : PairOK p c pp A B K) :
    (∃ r, twoSite p (mkNode p pp (A ++ c :: B) oP) c (mkNode c (some p) K oC) = some r ∧
      r.node1.parent = pp ∧ r.node1.children.Perm (A ++ c :: B) ∧
      r.node2.parent = some p ∧ r.node2.children = K) ∧
    (∃ r, twoSite c (mkNode c (some p) K oC) p (mkNode p pp (A ++ c :: B) oP) = some r ∧
      r.node1.parent = some p ∧ r.node1.children = K ∧
      r.node2.parent = pp ∧ r.node2.children.Perm (A ++ c :: B)) := by
  have hperm : (c :: (A ++ B)).Perm (A ++ c :: B) := List.perm_middle.symm
  exact ⟨⟨_, twoSite_parentFirst oP oC h, rfl, hperm, rfl, rfl⟩,
         ⟨_, twoSite_childFirst oP oC h, rfl, rfl, rfl, hperm⟩⟩

/-- **Single-site gate**: `absorb_into_open_legs` binds input leg `k` to physical leg `k` and leaves the
    outputs in their places; nothing else changes. -/
theorem single_site_gate_legs (id : Nat) (par : Option Nat) (ch : List Nat) (o : Nat) :
    singleSite (mkNode id par ch o) =
      some (⟨par, ch, parentLegs par ++ (ch.map Leg.nb ++ goutL 0 o)⟩,
            (physL id o).zip ((List.range o).map Leg.gin)) :=
  singleSite_mkNode id par ch o

/-- **Tree level** (every node carries one physical leg, as under TEBD): in a tree with distinct
    identifiers that contains `p` with children `A ++ c :: B` and its child `c`, a two-site gate on the
    pair - named in either order - completes, keeps every identifier and every parent, and permutes
    child lists only (the pair's child moves to the front of `p`'s list). -/
theorem two_site_tree_structure (t : List TNode) (p c : Nat) (pp : Option Nat) (A B K : List Nat)
    (hnd : (t.map (·.id)).Nodup)
    (hP : (⟨p, pp, A ++ c :: B⟩ : TNode) ∈ t) (hC : (⟨c, some p, K⟩ : TNode) ∈ t)
    (h : PairOK p c pp A B K) :
    applyPair t p c = some (afterPair t p c A B) ∧
    applyPair t c p = some (afterPair t p c A B) ∧
    (afterPair t p c A B).map (·.id) = t.map (·.id) ∧
    (afterPair t p c A B).map (·.parent) = t.map (·.parent) ∧
    (∀ y ∈ afterPair t p c A B, ∃ x ∈ t, x.id = y.id ∧ x.parent = y.parent ∧
        y.children.Perm x.children) := by
  have h1 := applyPair_both t p c pp A B K hnd hP hC h
  have h2 := afterPair_structure t p c pp A B hnd hP
  exact ⟨h1.1, h1.2, h2.1, h2.2.1, h2.2.2⟩

/-! ### (iv) a whole time step, several time steps, and the operators of the splitting -/

/-- **One TEBD time step.**  For every well-formed tree (distinct identifiers, consistent parent and
    children fields, acyclic; one physical leg per node) and every list of operators - no site, one
    existing site, or two tree-adjacent sites in either naming order (SWAPs are such two-site
    operators) - the loop of `run_one_time_step` completes in the model; the tree keeps every identifier
    and every parent, child lists are permuted only; and the physical-leg table and the global binding
    record read off the leg-level model gate by gate equal the *composition in list order*
    (`specRun`): input `k` of operator number `g` is bound to the then current physical leg of its
    `k`-th named site, and output `k` becomes that site's physical leg. -/
theorem tebd_step_legs (t : List TNode) (hwf : TreeWF t) (ops : List (List Nat))
    (hv : ∀ op ∈ ops, ValidOp t op) (cur : Nat → GLeg) (rc : List Rec) (g : Nat) :
    ∃ t', runOps ⟨t, cur, rc⟩ g ops =
        some ⟨t', (specRun (cur, rc) g ops).1, (specRun (cur, rc) g ops).2⟩ ∧
      t'.map (·.id) = t.map (·.id) ∧ t'.map (·.parent) = t.map (·.parent) ∧
      (∀ y ∈ t', ∃ x ∈ t, y.id = x.id ∧ y.parent = x.parent ∧ y.children.Perm x.children) ∧
      TreeWF t' := by
  obtain ⟨t', h1, hs⟩ := runOps_spec ops hwf hv cur rc g
  exact ⟨t', h1, hs.ids, hs.parents, fun y hy => hs.mem_right y hy, hwf.sim hs⟩

/-- **Several time steps** are the step list repeated: `k` runs of `run_one_time_step` equal one run
    over the `k`-fold concatenation of the exponent list (gates numbered consecutively); hence, by
    `tebd_step_legs`, they complete and realise the composition over the concatenated list. -/
theorem tebd_steps_compose (ops : List (List Nat)) (k : Nat) (st : GState) (g : Nat) :
    runSteps ops st g k = runOps st g (List.replicate k ops).flatten :=
  runSteps_eq ops k st g

theorem tebd_steps_legs (t : List TNode) (hwf : TreeWF t) (ops : List (List Nat))
    (hv : ∀ op ∈ ops, ValidOp t op) (k : Nat) (cur : Nat → GLeg) (rc : List Rec) (g : Nat) :
    ∃ t', runSteps ops ⟨t, cur, rc⟩ g k =
        some ⟨t', (specRun (cur, rc) g (List.replicate k ops).flatten).1,
                  (specRun (cur, rc) g (List.replicate k ops).flatten).2⟩ ∧
      t'.map (·.id) = t.map (·.id) ∧ t'.map (·.parent) = t.map (·.parent) ∧
      (∀ y ∈ t', ∃ x ∈ t, y.id = x.id ∧ y.parent = x.parent ∧ y.children.Perm x.children) ∧
      TreeWF t' := by
  rw [tebd_steps_compose]
  apply tebd_step_legs t hwf
  intro op hop
  rw [List.mem_flatten] at hop
  obtain ⟨l, hl, hol⟩ := hop
  rw [(List.mem_replicate.mp hl).2] at hol
  exact hv op hol

/-- **The operators of the splitting.**  `TEBD.exponents` names, in order, for every Trotter step: the
    pairs of `swaps_before` (each as `[first, second]`), the keys of the step's `TensorProduct` in
    dictionary order, the pairs of `swaps_after` - whether the swaps were given as `None`, as a
    `SWAPlist` or (after the repair F-C08a) as a plain list of pairs. -/
theorem exponents_match_splitting (steps : List SiteStep) :
    exponentSites steps =
      (steps.map fun s =>
        (s.before.norm.map fun pr => [pr.1, pr.2]) ++ [s.keys] ++
          (s.after.norm.map fun pr => [pr.1, pr.2])).flatten := by
  unfold exponentSites
  rw [splitting_order, List.map_map]
  congr 1
  apply List.map_congr_left
  intro s _
  simp [swapSites_eq]

/-- A plain list of pairs and the same pairs wrapped in a `SWAPlist` give the same operators. -/
theorem exponents_plain_list (keys : List Nat) (b a : List (Nat × Nat)) (rest : List SiteStep) :
    exponentSites (⟨keys, .plain b, .plain a⟩ :: rest) =
      exponentSites (⟨keys, .swaplist b, .swaplist a⟩ :: rest) := by
  rw [exponents_match_splitting, exponents_match_splitting]
  rfl


/-! ### (v) value level: one gate application

The theorems above say WHICH legs are bound; the following say WHAT is computed (`Ptn/Common/Einsum*.lean`:
a tensor is a function of index assignments, a bound pair is a sum over a common index), over every
commutative semiring of scalars and for all dimensions (`dim` is arbitrary: mixed physical dimensions). -/

open Ptn.Ein in
/-- **Two-site gate, value level.**  Pair `P` / `C` as in `two_site_gate_legs`, either naming order.  The
model completes with a result `r` and, for every commutative semiring, all dimensions and every labelled
network consisting of the tensors `TP`, `TC` of the pair joined by their bond, further tensors `rest` and
further bonds `bs` (virtual legs, each bound once): GIVEN the identities the three library routines compute,

* `C  = Σ_bond TP·TC`            (`contract_nodes`: `tensordot` over the pair's bond),
* `A' = Σ_{r.binds} G·C`         (`absorb_into_open_legs`: `tensordot` over the pairs PROVED by the leg theorem:
                                   gate input `k` with the `k`-th physical leg in naming order),
* `A' = Σ_newbond U·V`           (contract of `split_node_svd`, truncation disabled: an exact factorisation),

a gate that reads only gate legs and a rest of the network that reads neither of the two bonds nor the legs
bound to the gate, the new network (`U` = first-named node, `V` = second-named node, new bond between their
`Leg.bond` legs) has for every assignment of the open legs the value
`Σ_in G[out; in] · ψ[…, in, …]`, `ψ` the value of the old network. -/
theorem two_site_gate_value {R : Type} [CommSemiring R] (p c : Nat) (pp : Option Nat) (A B K : List Nat)
    (oP oC : Nat) (h : PairOK p c pp A B K) :
    (∃ r, twoSite p (mkNode p pp (A ++ c :: B) oP) c (mkNode c (some p) K oC) = some r ∧
      ∀ (dim : VLeg → Nat) (bs : List (VLeg × VLeg)) (G TP TC C A' U V : Asg VLeg → R)
        (rest : List (Asg VLeg → R)),
        (Expr.pairLegs bs).Nodup → (∀ l ∈ Expr.pairLegs bs, l.isOwn) →
        (∀ τ, C τ = sumPairs dim [(glob p (Leg.nb c), glob c (Leg.nb p))] (fun ρ => TP ρ * TC ρ) τ) →
        (∀ τ, A' τ = sumPairs dim (gatePairs r.binds) (fun ρ => G ρ * C ρ) τ) →
        (∀ τ, A' τ = sumPairs dim [(glob p Leg.bond, glob c Leg.bond)] (fun ρ => U ρ * V ρ) τ) →
        (∀ f ∈ rest, DependsOn (EnvReads (glob p (Leg.nb c)) (glob c (Leg.nb p)) (glob p Leg.bond)
          (glob c Leg.bond) (gatePairs r.binds)) f) →
        DependsOn GateReads G →
        ∀ σ, netValue dim (bs ++ [(glob p Leg.bond, glob c Leg.bond)]) (U :: V :: rest) σ =
          sumPairs dim (gatePairs r.binds) (fun τ => G τ *
            netValue dim (bs ++ [(glob p (Leg.nb c), glob c (Leg.nb p))]) (TP :: TC :: rest) τ) σ) ∧
    (∃ r, twoSite c (mkNode c (some p) K oC) p (mkNode p pp (A ++ c :: B) oP) = some r ∧
      ∀ (dim : VLeg → Nat) (bs : List (VLeg × VLeg)) (G TP TC C A' U V : Asg VLeg → R)
        (rest : List (Asg VLeg → R)),
        (Expr.pairLegs bs).Nodup → (∀ l ∈ Expr.pairLegs bs, l.isOwn) →
        (∀ τ, C τ = sumPairs dim [(glob p (Leg.nb c), glob c (Leg.nb p))] (fun ρ => TP ρ * TC ρ) τ) →
        (∀ τ, A' τ = sumPairs dim (gatePairs r.binds) (fun ρ => G ρ * C ρ) τ) →
        (∀ τ, A' τ = sumPairs dim [(glob c Leg.bond, glob p Leg.bond)] (fun ρ => U ρ * V ρ) τ) →
        (∀ f ∈ rest, DependsOn (EnvReads (glob p (Leg.nb c)) (glob c (Leg.nb p)) (glob c Leg.bond)
          (glob p Leg.bond) (gatePairs r.binds)) f) →
        DependsOn GateReads G →
        ∀ σ, netValue dim (bs ++ [(glob c Leg.bond, glob p Leg.bond)]) (U :: V :: rest) σ =
          sumPairs dim (gatePairs r.binds) (fun τ => G τ *
            netValue dim (bs ++ [(glob p (Leg.nb c), glob c (Leg.nb p))]) (TP :: TC :: rest) τ) σ) := by
  have hne : p ≠ c := h.p_notin.2.2.2
  refine ⟨⟨_, twoSite_parentFirst oP oC h, ?_⟩, ⟨_, twoSite_childFirst oP oC h, ?_⟩⟩
  · intro dim bs G TP TC C A' U V rest hbs1 hbs2 hC hA hUV hrest hG σ
    exact two_site_value_core dim p c p c _ (nodup_gate_legs p c oP oC hne) (gatePairs_not_own _)
      bs G TP TC C A' U V rest hbs1 hbs2 hC hA hUV hrest hG σ
  · intro dim bs G TP TC C A' U V rest hbs1 hbs2 hC hA hUV hrest hG σ
    exact two_site_value_core dim p c c p _ (nodup_gate_legs c p oC oP (fun e => hne e.symm))
      (gatePairs_not_own _) bs G TP TC C A' U V rest hbs1 hbs2 hC hA hUV hrest hG σ

open Ptn.Ein in
/-- **Single-site gate, value level.**  `absorb_into_open_legs` on the node `id` of a labelled network (its
tensor `T`, further tensors `rest`, bonds `bs`): GIVEN `A' = Σ_{binds} G·T` (one `tensordot` over the pairs
proved by `single_site_gate_legs`), the network with `A'` in the place of `T` has the value
`Σ_in G[out; in] · ψ[…, in, …]`. -/
theorem single_site_gate_value {R : Type} [CommSemiring R] (id : Nat) (par : Option Nat) (ch : List Nat)
    (o : Nat) :
    ∃ n' binds, singleSite (mkNode id par ch o) = some (n', binds) ∧
      ∀ (dim : VLeg → Nat) (bs : List (VLeg × VLeg)) (G T A' : Asg VLeg → R) (rest : List (Asg VLeg → R)),
        (Expr.pairLegs bs).Nodup → (∀ l ∈ Expr.pairLegs bs, l.isOwn) →
        (∀ τ, A' τ = sumPairs dim (gatePairs binds) (fun ρ => G ρ * T ρ) τ) →
        (∀ f ∈ rest, DependsOn (fun l => l ∉ Expr.pairLegs (gatePairs binds)) f) →
        DependsOn GateReads G →
        ∀ σ, netValue dim bs (A' :: rest) σ =
          sumPairs dim (gatePairs binds) (fun τ => G τ * netValue dim bs (T :: rest) τ) σ := by
  refine ⟨_, _, singleSite_mkNode id par ch o, ?_⟩
  intro dim bs G T A' rest hbs1 hbs2 hA hrest hG σ
  exact absorb_gate_value dim bs _ G T A' rest hA hrest (fun l hl h => h hl) hG
    (fun l hl => own_not_gateReads l (hbs2 l hl))
    (nodup_env_gate bs _ hbs1 hbs2 (nodup_gate_legs_single id o) (gatePairs_not_own _)) σ


/-! ### (vi) value level: the SWAP gate -/

open Ptn.Ein in
/-- **Applying the SWAP gate exchanges the two physical indices.**  The matrix built by the double loop of
`swap_gate(d)` (entries by `swap_gate_spec`), read as a gate tensor with output legs `go₀, go₁` and input legs
`gi₀, gi₁` and contracted into the physical legs `p₀, p₁` (both of dimension `d`) of ANY state vector `ψ`
that does not read the gate's input legs, gives the vector with the two indices exchanged:
`(SWAP ψ)[…, go₀ = x, go₁ = y, …] = ψ[…, p₀ = y, p₁ = x, …]` — every `d`, every commutative semiring. -/
theorem swap_gate_value {L : Type} [DecidableEq L] {R : Type} [CommSemiring R] (dim : L → Nat) (d : Nat)
    (p0 p1 go0 go1 gi0 gi1 : L) (hnd : [p0, p1, gi0, gi1, go0, go1].Nodup)
    (hd0 : dim p0 = d) (hd1 : dim p1 = d) (ψ : Asg L → R) {S : L → Prop} (hψ : DependsOn S ψ)
    (h0 : ¬ S gi0) (h1 : ¬ S gi1) (σ : Asg L) (ho0 : σ go0 < d) (ho1 : σ go1 < d) :
    sumPairs dim [(p0, gi0), (p1, gi1)] (fun τ => swapTensor d go0 go1 gi0 gi1 τ * ψ τ) σ =
      ψ (upd (upd σ p0 (σ go1)) p1 (σ go0)) :=
  swap_apply dim d p0 p1 go0 go1 gi0 gi1 hnd hd0 hd1 ψ hψ h0 h1 σ ho0 ho1

open Ptn.Ein in
/-- The same inside a TEBD step: operator number `g` on the sites `(a, b)` with the SWAP tensor acts on a
state vector by exchanging the indices of the two sites' current physical legs. -/
theorem swap_gate_act {R : Type} [CommSemiring R] (dim : SLeg → Nat) (d g a b : Nat) (cur : Nat → GLeg)
    (hab : cur a ≠ cur b) (hla : (cur a).lt g) (hlb : (cur b).lt g)
    (hd0 : dim (SLeg.ph (cur a)) = d) (hd1 : dim (SLeg.ph (cur b)) = d)
    (φ : Asg SLeg → R) {S : SLeg → Prop} (hφ : DependsOn S φ)
    (h0 : ¬ S (SLeg.gin g 0)) (h1 : ¬ S (SLeg.gin g 1)) (σ : Asg SLeg)
    (ho0 : σ (SLeg.ph (GLeg.out g 0)) < d) (ho1 : σ (SLeg.ph (GLeg.out g 1)) < d) :
    gateAct dim (swapTensor d (SLeg.ph (GLeg.out g 0)) (SLeg.ph (GLeg.out g 1)) (SLeg.gin g 0) (SLeg.gin g 1))
        cur g [a, b] φ σ =
      φ (upd (upd σ (SLeg.ph (cur a)) (σ (SLeg.ph (GLeg.out g 1)))) (SLeg.ph (cur b))
        (σ (SLeg.ph (GLeg.out g 0)))) := by
  have hne : a ≠ b := fun e => hab (e ▸ rfl)
  have e : recPairs (specOp g (cur, []) 0 [a, b]).2 =
      [(SLeg.ph (cur a), SLeg.gin g 0), (SLeg.ph (cur b), SLeg.gin g 1)] := by
    rw [specOp_two g cur [] a b hne]; rfl
  simp only [gateAct, e]
  apply swap_apply dim d _ _ _ _ _ _ _ hd0 hd1 φ hφ h0 h1 σ ho0 ho1
  have n1 : cur a ≠ GLeg.out g 0 := ne_of_lt_out hla
  have n2 : cur a ≠ GLeg.out g 1 := ne_of_lt_out hla
  have n3 : cur b ≠ GLeg.out g 0 := ne_of_lt_out hlb
  have n4 : cur b ≠ GLeg.out g 1 := ne_of_lt_out hlb
  simp [hab, n1, n2, n3, n4]

/-! ### (vii) value level: a whole time step, several time steps -/

open Ptn.Ein in
/-- **One TEBD time step, value level.**  For every well-formed tree and every list of valid operators the
modelled loop completes and its global binding record `rec'` is the specification fold (`tebd_step_legs`);
for every commutative semiring, all dimensions and all gate tensors `G g` (gate `g` reads only its own
output and input legs):

* (record) the flat network "leaves of the old state + gate tensors of the operators that name a site" over
  the model's record `rec'` evaluates to `actRun`: the fold over the exponent list of the gate action
  `φ ↦ Σ_in G_g[out; in] · φ[…, in, …]` applied to the old state — the ordered product of the gates (an
  operator naming no site is skipped, as the code does);
* (networks) for every chain of labelled networks `ψ = ψ₀, ψ₁, …, ψ_m = ψ'` in which consecutive ones are
  related by the contracts of the library routines for that operator (`OpContract`: `tensordot` identities of
  `contract_nodes` / `absorb_into_open_legs` over the pairs of the record, exact factorisation of
  `split_node_svd` as hypothesis), the state vector after the step is the ordered product of the gates applied
  to the state vector before: `ψ' = actRun … ψ`. -/
theorem tebd_step_value {R : Type} [CommSemiring R] (t : List TNode) (hwf : TreeWF t) (ops : List (List Nat))
    (hv : ∀ op ∈ ops, ValidOp t op) (cur : Nat → GLeg) (rc : List Rec) (g : Nat) (hinv : RecInv cur rc g) :
    ∃ t' rec', runOps ⟨t, cur, rc⟩ g ops = some ⟨t', (specRun (cur, rc) g ops).1, rec'⟩ ∧
      ∀ (dim : SLeg → Nat) (G : Nat → Asg SLeg → R), (∀ i, DependsOn (GateReadsS i) (G i)) →
        (∀ (leaves : List (Asg SLeg → R)) (σ : Asg SLeg),
          netValue dim (recPairs rec') (gateLeaves G g ops leaves) σ =
            actRun dim G cur g ops (netValue dim (recPairs rc) leaves) σ) ∧
        (∀ ψ ψ' : Asg SLeg → R, StepChain dim G cur g ops ψ ψ' → ψ' = actRun dim G cur g ops ψ) := by
  obtain ⟨t', h1, _⟩ := tebd_step_legs t hwf ops hv cur rc g
  refine ⟨t', _, h1, ?_⟩
  intro dim G hG
  exact ⟨fun leaves σ => record_value dim G hG ops (fun op hop => validOp_form hwf (hv op hop)) cur rc g hinv
    leaves σ, fun ψ ψ' h => chain_value h⟩

open Ptn.Ein in
/-- **`k` time steps, value level**: the same with the exponent list repeated `k` times (gates numbered
consecutively): the state after `k` steps is the ordered product of all `k · |ops|` gates. -/
theorem tebd_steps_value {R : Type} [CommSemiring R] (t : List TNode) (hwf : TreeWF t) (ops : List (List Nat))
    (hv : ∀ op ∈ ops, ValidOp t op) (k : Nat) (cur : Nat → GLeg) (rc : List Rec) (g : Nat)
    (hinv : RecInv cur rc g) :
    ∃ t' rec', runSteps ops ⟨t, cur, rc⟩ g k =
        some ⟨t', (specRun (cur, rc) g (List.replicate k ops).flatten).1, rec'⟩ ∧
      ∀ (dim : SLeg → Nat) (G : Nat → Asg SLeg → R), (∀ i, DependsOn (GateReadsS i) (G i)) →
        (∀ (leaves : List (Asg SLeg → R)) (σ : Asg SLeg),
          netValue dim (recPairs rec') (gateLeaves G g (List.replicate k ops).flatten leaves) σ =
            actRun dim G cur g (List.replicate k ops).flatten (netValue dim (recPairs rc) leaves) σ) ∧
        (∀ ψ ψ' : Asg SLeg → R, StepChain dim G cur g (List.replicate k ops).flatten ψ ψ' →
          ψ' = actRun dim G cur g (List.replicate k ops).flatten ψ) := by
  rw [tebd_steps_compose]
  apply tebd_step_value t hwf _ _ cur rc g hinv
  intro op hop
  rw [List.mem_flatten] at hop
  obtain ⟨l, hl, hol⟩ := hop
  rw [(List.mem_replicate.mp hl).2] at hol
  exact hv op hol

/-! ### (viii) value level with provenance: the model's own operation sequence ("loop value")

In (v) and (vii) the `tensordot` identities of `contract_nodes` / `absorb_into_open_legs` are hypotheses.  Here
they are discharged: the leg lists the MODEL FUNCTIONS compute are `Built` (`Built.lean`, `BuiltFns.lean`: one
lemma per model function) by the contraction program `tensordot(tensordot(P, C, bond), G, binds)` over the node
tensors and the gate tensor, the program is strongly well-formed, and its value is `Σ_in G·Σ_bond TP·TC` for all
tensor values.  The only hypothesis about a library routine that remains is the exact split. -/

open Ptn.Ein in
/-- **Two-site gate: the model's operation sequence up to the split, value level.**  Pair `P` / `C` as in
`two_site_gate_legs`, either naming order.  The model completes with a result `r`, and for ALL values `TP`, `TC`
of the two node tensors and `G` of the gate tensor (legs `gateLegs r.contr.nopen`, what the model hands over),
the program `E = tensordot(tensordot(P, C, [(nb c, nb p)]), G, r.binds)`

* builds the legs of the absorbed node (`Built`: the model's `tensordot` calls and transpositions, nothing else),
* has pairwise distinct labels, the absorbed node's legs as its free legs, and is strongly well-formed as soon
  as the three tensors read only their own legs,
* evaluates to `Σ_{r.binds} G · (Σ_bond TP·TC)`: gate input `k` against the `k`-th physical leg in naming order.

Network level (global labels as in `two_site_gate_value`, but WITHOUT the two `tensordot` identities): if that
value factorises exactly over the new bond into `U`, `V` (contract of `split_node_svd`, truncation disabled),
the network with `U`, `V` in the place of `TP`, `TC` has the value `Σ_in G[out; in] · ψ[…, in, …]`. -/
theorem two_site_gate_loop_value {R : Type} [CommSemiring R] (p c : Nat) (pp : Option Nat) (A B K : List Nat)
    (oP oC : Nat) (h : PairOK p c pp A B K) :
    (∃ r, twoSite p (mkNode p pp (A ++ c :: B) oP) c (mkNode c (some p) K oC) = some r ∧
      (∀ (TP TC G : Asg Leg → R),
        Built r.absorbed.legs (gateExpr (mkNode p pp (A ++ c :: B) oP).legs (mkNode c (some p) K oC).legs
            [(Leg.nb c, Leg.nb p)] r.contr.nopen r.binds TP TC G) ∧
        (gateExpr (mkNode p pp (A ++ c :: B) oP).legs (mkNode c (some p) K oC).legs
            [(Leg.nb c, Leg.nb p)] r.contr.nopen r.binds TP TC G).labels.Nodup ∧
        r.absorbed.legs.Perm (gateExpr (mkNode p pp (A ++ c :: B) oP).legs (mkNode c (some p) K oC).legs
            [(Leg.nb c, Leg.nb p)] r.contr.nopen r.binds TP TC G).free ∧
        ((gateExpr (mkNode p pp (A ++ c :: B) oP).legs (mkNode c (some p) K oC).legs
            [(Leg.nb c, Leg.nb p)] r.contr.nopen r.binds TP TC G).LeavesLocal →
          (gateExpr (mkNode p pp (A ++ c :: B) oP).legs (mkNode c (some p) K oC).legs
            [(Leg.nb c, Leg.nb p)] r.contr.nopen r.binds TP TC G).SWF) ∧
        ∀ (dim : Leg → Nat) (σ : Asg Leg),
          (gateExpr (mkNode p pp (A ++ c :: B) oP).legs (mkNode c (some p) K oC).legs
            [(Leg.nb c, Leg.nb p)] r.contr.nopen r.binds TP TC G).eval dim σ =
          sumPairs dim r.binds (fun τ => G τ * sumPairs dim [(Leg.nb c, Leg.nb p)] (fun ρ => TP ρ * TC ρ) τ) σ) ∧
      ∀ (dim : VLeg → Nat) (bs : List (VLeg × VLeg)) (G TP TC U V : Asg VLeg → R) (rest : List (Asg VLeg → R)),
        (Expr.pairLegs bs).Nodup → (∀ l ∈ Expr.pairLegs bs, l.isOwn) →
        (∀ τ, sumPairs dim (gatePairs r.binds) (fun ρ => G ρ *
            sumPairs dim [(glob p (Leg.nb c), glob c (Leg.nb p))] (fun ρ' => TP ρ' * TC ρ') ρ) τ =
          sumPairs dim [(glob p Leg.bond, glob c Leg.bond)] (fun ρ => U ρ * V ρ) τ) →
        (∀ f ∈ rest, DependsOn (EnvReads (glob p (Leg.nb c)) (glob c (Leg.nb p)) (glob p Leg.bond)
          (glob c Leg.bond) (gatePairs r.binds)) f) →
        DependsOn GateReads G →
        ∀ σ, netValue dim (bs ++ [(glob p Leg.bond, glob c Leg.bond)]) (U :: V :: rest) σ =
          sumPairs dim (gatePairs r.binds) (fun τ => G τ *
            netValue dim (bs ++ [(glob p (Leg.nb c), glob c (Leg.nb p))]) (TP :: TC :: rest) τ) σ) ∧
    (∃ r, twoSite c (mkNode c (some p) K oC) p (mkNode p pp (A ++ c :: B) oP) = some r ∧
      (∀ (TP TC G : Asg Leg → R),
        Built r.absorbed.legs (gateExpr (mkNode p pp (A ++ c :: B) oP).legs (mkNode c (some p) K oC).legs
            [(Leg.nb c, Leg.nb p)] r.contr.nopen r.binds TP TC G) ∧
        (gateExpr (mkNode p pp (A ++ c :: B) oP).legs (mkNode c (some p) K oC).legs
            [(Leg.nb c, Leg.nb p)] r.contr.nopen r.binds TP TC G).labels.Nodup ∧
        r.absorbed.legs.Perm (gateExpr (mkNode p pp (A ++ c :: B) oP).legs (mkNode c (some p) K oC).legs
            [(Leg.nb c, Leg.nb p)] r.contr.nopen r.binds TP TC G).free ∧
        ((gateExpr (mkNode p pp (A ++ c :: B) oP).legs (mkNode c (some p) K oC).legs
            [(Leg.nb c, Leg.nb p)] r.contr.nopen r.binds TP TC G).LeavesLocal →
          (gateExpr (mkNode p pp (A ++ c :: B) oP).legs (mkNode c (some p) K oC).legs
            [(Leg.nb c, Leg.nb p)] r.contr.nopen r.binds TP TC G).SWF) ∧
        ∀ (dim : Leg → Nat) (σ : Asg Leg),
          (gateExpr (mkNode p pp (A ++ c :: B) oP).legs (mkNode c (some p) K oC).legs
            [(Leg.nb c, Leg.nb p)] r.contr.nopen r.binds TP TC G).eval dim σ =
          sumPairs dim r.binds (fun τ => G τ * sumPairs dim [(Leg.nb c, Leg.nb p)] (fun ρ => TP ρ * TC ρ) τ) σ) ∧
      ∀ (dim : VLeg → Nat) (bs : List (VLeg × VLeg)) (G TP TC U V : Asg VLeg → R) (rest : List (Asg VLeg → R)),
        (Expr.pairLegs bs).Nodup → (∀ l ∈ Expr.pairLegs bs, l.isOwn) →
        (∀ τ, sumPairs dim (gatePairs r.binds) (fun ρ => G ρ *
            sumPairs dim [(glob p (Leg.nb c), glob c (Leg.nb p))] (fun ρ' => TP ρ' * TC ρ') ρ) τ =
          sumPairs dim [(glob c Leg.bond, glob p Leg.bond)] (fun ρ => U ρ * V ρ) τ) →
        (∀ f ∈ rest, DependsOn (EnvReads (glob p (Leg.nb c)) (glob c (Leg.nb p)) (glob c Leg.bond)
          (glob p Leg.bond) (gatePairs r.binds)) f) →
        DependsOn GateReads G →
        ∀ σ, netValue dim (bs ++ [(glob c Leg.bond, glob p Leg.bond)]) (U :: V :: rest) σ =
          sumPairs dim (gatePairs r.binds) (fun τ => G τ *
            netValue dim (bs ++ [(glob p (Leg.nb c), glob c (Leg.nb p))]) (TP :: TC :: rest) τ) σ) := by
  have hne : p ≠ c := h.p_notin.2.2.2
  refine ⟨⟨_, twoSite_parentFirst oP oC h, ?_, ?_⟩, ⟨_, twoSite_childFirst oP oC h, ?_, ?_⟩⟩
  · intro TP TC G
    exact pair_loop_core h oP oC (twoSite_parentFirst oP oC h) (contr_perm_parentFirst p c pp A B K oP oC) TP TC G
  · intro dim bs G TP TC U V rest hbs1 hbs2 hUV hrest hG σ
    exact two_site_value_core dim p c p c _ (nodup_gate_legs p c oP oC hne) (gatePairs_not_own _)
      bs G TP TC _ _ U V rest hbs1 hbs2 (fun _ => rfl) (fun _ => rfl) hUV hrest hG σ
  · intro TP TC G
    exact pair_loop_core h oP oC (twoSite_childFirst oP oC h) (contr_perm_childFirst p c pp A B K oP oC) TP TC G
  · intro dim bs G TP TC U V rest hbs1 hbs2 hUV hrest hG σ
    exact two_site_value_core dim p c c p _ (nodup_gate_legs c p oC oP (fun e => hne e.symm))
      (gatePairs_not_own _) bs G TP TC _ _ U V rest hbs1 hbs2 (fun _ => rfl) (fun _ => rfl) hUV hrest hG σ

open Ptn.Ein in
/-- **Single-site gate: the model's operation, value level.**  `absorb_into_open_legs` on a node whose
neighbours are pairwise distinct: for all values `T` of the node tensor and `G` of the gate tensor the program
`tensordot(T, G, binds)` builds the legs of the new node, is strongly well-formed for local tensors, and
evaluates to `Σ_{binds} G·T`; at network level the network with that tensor in the place of `T` has the value
`Σ_in G[out; in] · ψ[…, in, …]` - no hypothesis about a library routine is left. -/
theorem single_site_gate_loop_value {R : Type} [CommSemiring R] (id : Nat) (par : Option Nat) (ch : List Nat)
    (o : Nat) (hch : (par.toList ++ ch).Nodup) :
    ∃ n' binds, singleSite (mkNode id par ch o) = some (n', binds) ∧
      (∀ (T G : Asg Leg → R),
        Built n'.legs (gateExpr1 (mkNode id par ch o).legs (mkNode id par ch o).nopen binds T G) ∧
        (gateExpr1 (mkNode id par ch o).legs (mkNode id par ch o).nopen binds T G).labels.Nodup ∧
        n'.legs.Perm (gateExpr1 (mkNode id par ch o).legs (mkNode id par ch o).nopen binds T G).free ∧
        ((gateExpr1 (mkNode id par ch o).legs (mkNode id par ch o).nopen binds T G).LeavesLocal →
          (gateExpr1 (mkNode id par ch o).legs (mkNode id par ch o).nopen binds T G).SWF) ∧
        ∀ (dim : Leg → Nat) (σ : Asg Leg),
          (gateExpr1 (mkNode id par ch o).legs (mkNode id par ch o).nopen binds T G).eval dim σ =
            sumPairs dim binds (fun τ => G τ * T τ) σ) ∧
      ∀ (dim : VLeg → Nat) (bs : List (VLeg × VLeg)) (G T : Asg VLeg → R) (rest : List (Asg VLeg → R)),
        (Expr.pairLegs bs).Nodup → (∀ l ∈ Expr.pairLegs bs, l.isOwn) →
        (∀ f ∈ rest, DependsOn (fun l => l ∉ Expr.pairLegs (gatePairs binds)) f) →
        DependsOn GateReads G →
        ∀ σ, netValue dim bs ((fun τ => sumPairs dim (gatePairs binds) (fun ρ => G ρ * T ρ) τ) :: rest) σ =
          sumPairs dim (gatePairs binds) (fun τ => G τ * netValue dim bs (T :: rest) τ) σ := by
  refine ⟨_, _, singleSite_mkNode id par ch o, ?_, ?_⟩
  · intro T G
    have hb : Built _ (gateExpr1 (mkNode id par ch o).legs (mkNode id par ch o).nopen _ T G) :=
      singleSite_built G (Built.fresh (mkNode id par ch o).legs T) (singleSite_mkNode id par ch o)
    have hnd : (gateExpr1 (mkNode id par ch o).legs (mkNode id par ch o).nopen
        ((physL id o).zip ((List.range o).map Leg.gin)) T G).labels.Nodup := by
      simp only [gateExpr1, Expr.labels]
      exact single_labels_nodup id par ch hch o _
    exact ⟨hb, hnd, (hb.sound hnd).1, fun hloc => hb.swf hnd hloc, fun dim σ => gateExpr1_eval _ _ _ _ _ dim σ⟩
  · intro dim bs G T rest hbs1 hbs2 hrest hG σ
    exact absorb_gate_value dim bs _ G T _ rest (fun _ => rfl) hrest (fun l hl h => h hl) hG
      (fun l hl => own_not_gateReads l (hbs2 l hl))
      (nodup_env_gate bs _ hbs1 hbs2 (nodup_gate_legs_single id o) (gatePairs_not_own _)) σ

open Ptn.Ein in
/-- **One TEBD time step, value level, only exact splits assumed.**  As `tebd_step_value`, but the chain of
networks is a `LoopChain`: between consecutive networks the contracted and the absorbed tensor are the VALUES of
the model's program (`Σ_gp G·Σ_bond T₁·T₂`, `two_site_gate_loop_value`; `Σ_gp G·T`,
`single_site_gate_loop_value`) - no `tensordot` identity is a hypothesis - and the only contract of a library
routine is the exact factorisation of `split_node_svd` for the two-site operators.  Then the state vector after
the step is the ordered product of the gates applied to the state vector before: `ψ' = actRun … ψ`. -/
theorem tebd_step_loop_value {R : Type} [CommSemiring R] (t : List TNode) (hwf : TreeWF t) (ops : List (List Nat))
    (hv : ∀ op ∈ ops, ValidOp t op) (cur : Nat → GLeg) (rc : List Rec) (g : Nat) (hinv : RecInv cur rc g) :
    ∃ t' rec', runOps ⟨t, cur, rc⟩ g ops = some ⟨t', (specRun (cur, rc) g ops).1, rec'⟩ ∧
      ∀ (dim : SLeg → Nat) (G : Nat → Asg SLeg → R), (∀ i, DependsOn (GateReadsS i) (G i)) →
        (∀ (leaves : List (Asg SLeg → R)) (σ : Asg SLeg),
          netValue dim (recPairs rec') (gateLeaves G g ops leaves) σ =
            actRun dim G cur g ops (netValue dim (recPairs rc) leaves) σ) ∧
        (∀ ψ ψ' : Asg SLeg → R, LoopChain dim G cur g ops ψ ψ' → ψ' = actRun dim G cur g ops ψ) := by
  obtain ⟨t', rec', h1, h2⟩ := tebd_step_value (R := R) t hwf ops hv cur rc g hinv
  refine ⟨t', rec', h1, fun dim G hG => ⟨(h2 dim G hG).1, fun ψ ψ' h => loop_chain_value h⟩⟩


/-! ### (ix) value level in ONE label space: the local program renamed into the global labels

`two_site_gate_loop_value` states the program of the local model in the labels `Leg` and the network in the labels
`VLeg`.  With the relabelling theorem (`Ptn/Common/EinsumRename.lean`: `Expr.rn_eval_map`, `rn_sumPairs_map`,
`Expr.rn_swf_map` for an injective renaming that keeps the dimensions) both are statements about ONE program in
the global labels. -/

open Ptn.Ein in
/-- **Two-site gate, program and network in one label space.**  Pair `P` / `C` as in `two_site_gate_legs`, either
naming order.  `pairGlob p c K : Leg → VLeg` (legs of `P` owned by `p`, legs of `C` owned by `c`, physical and gate
legs shared) is injective, the model completes with `r`, and `PairGlobalClause` holds (spelled out at its
definition in `GlobalValue.lean`): for ALL local tensor values `TP`, `TC`, `G` the program `E` of the local model
(`Built`: the model's own `tensordot` calls) renamed by `pairGlob` IS the explicit program over
`legs(P).map (glob p)`, `legs(C).map (glob c)`, the shared gate legs, the bond `(glob p (nb c), glob c (nb p))`
and the pairs `gatePairs r.binds` - the labels and pairs of the network-level statement; it has pairwise distinct
labels, the (renamed) absorbed legs as free legs, is strongly well-formed for local tensors, evaluates at `σ'` to
the local value at `σ' ∘ pairGlob` and to `Σ_gp G'·Σ_bond TP'·TC'`; and if THE VALUE OF THIS PROGRAM factorises
exactly over the new bond into `U`, `V` (contract of `split_node_svd`, truncation disabled) the network with `U`,
`V` in the place of the program's leaves `TP'`, `TC'` has the value `Σ_in G'[out; in] · ψ[…, in, …]`.  By
`pairGlob_pull_surj` the pulled tensors `TP'`, `TC'`, `G'` range over all global tensors on the renamed legs. -/
theorem two_site_gate_loop_value_global {R : Type} [CommSemiring R] (p c : Nat) (pp : Option Nat)
    (A B K : List Nat) (oP oC : Nat) (h : PairOK p c pp A B K) :
    Function.Injective (pairGlob p c K) ∧
    (∃ r, twoSite p (mkNode p pp (A ++ c :: B) oP) c (mkNode c (some p) K oC) = some r ∧
      PairGlobalClause R p c pp A B K oP oC p c r) ∧
    (∃ r, twoSite c (mkNode c (some p) K oC) p (mkNode p pp (A ++ c :: B) oP) = some r ∧
      PairGlobalClause R p c pp A B K oP oC c p r) := by
  have hne : p ≠ c := h.p_notin.2.2.2
  refine ⟨pairGlob_injective p c K, ⟨_, twoSite_parentFirst oP oC h, ?_⟩, ⟨_, twoSite_childFirst oP oC h, ?_⟩⟩
  · exact pair_global_core h oP oC (twoSite_parentFirst oP oC h) (contr_perm_parentFirst p c pp A B K oP oC) p c
      (pairGlob_gatePairs p c K _ _ (physL2_phys p oP c oC)) (nodup_gate_legs p c oP oC hne)
  · exact pair_global_core h oP oC (twoSite_childFirst oP oC h) (contr_perm_childFirst p c pp A B K oP oC) c p
      (pairGlob_gatePairs p c K _ _ (physL2_phys c oC p oP)) (nodup_gate_legs c p oC oP (fun e => hne e.symm))

open Ptn.Ein in
/-- every global tensor that reads only renamed legs is the pull of a local one (so the quantifier over local
tensors in `PairGlobalClause` loses nothing) -/
theorem two_site_global_tensors_covered {R : Type} (p c : Nat) (K : List Nat) (legs : List Leg)
    (T' : Asg VLeg → R) (hT : DependsOn (· ∈ legs.map (pairGlob p c K)) T') :
    ∃ T : Asg Leg → R, rn_pull (pairGlob p c K) T = T' :=
  ⟨_, pairGlob_pull_surj p c K legs T' hT⟩

open Ptn.Ein in
/-- non-vacuity of the exact-split hypothesis of `PairGlobalClause`: for EVERY program renamed by `pairGlob` and
every `dim` with a new bond of dimension one there are `U`, `V` with `value = Σ_newbond U·V` -/
example {R : Type} [CommSemiring R] (p c : Nat) (K : List Nat) (e : Expr Leg R) (dim : VLeg → Nat) (x y : Nat)
    (hd : dim (glob x Leg.bond) = 1) :
    ∃ U V : Asg VLeg → R, ∀ τ, (e.rn_map (pairGlob p c K)).eval dim τ =
      sumPairs dim [(glob x Leg.bond, glob y Leg.bond)] (fun ρ => U ρ * V ρ) τ :=
  pairGlob_split_exists p c K e dim x y hd

open Ptn.Ein in
/-- concrete renaming for the pair `1 — 2` (children of `2`: `[7]`): the bond and a gate pair in global labels -/
example : PairOK 1 2 (some 0) [5] [6] [7] ∧
    rn_pairs (pairGlob 1 2 [7]) [(Leg.nb 2, Leg.nb 1), (Leg.phys 1 0, Leg.gin 0), (Leg.nb 7, Leg.nb 5)] =
      [(VLeg.own 1 (.nb 2), VLeg.own 2 (.nb 1)), (.shared (.phys 1 0), .shared (.gin 0)),
       (VLeg.own 2 (.nb 7), VLeg.own 1 (.nb 5))] := by
  refine ⟨by unfold PairOK; decide, by decide⟩

/-! ### (x) value level in ONE label space: a whole time step

`tebd_step_loop_value` takes a `LoopChain`, whose two-site contract speaks about arbitrary tensors `T₁`, `T₂` and
bond legs in the step labels `SLeg` and about the pairs `recPairs (specOp …)`, not about the model's program.
With the injection `stepGlob cur g p c K ver : Leg → SLeg` (open leg of site `n` ↦ the CURRENT physical leg
`ph (cur n)`, gate output `k` ↦ `ph (out g k)`, gate input `k` ↦ `gin g k`, virtual legs ↦ `virt`; injective by
the record invariant `RecInv`) every contract of the chain is a statement about the value of THE MODEL'S OWN
PROGRAM for that operator, renamed into the step labels (`GlobalLoopContract`, `StepGlobal.lean`). -/

open Ptn.Ein in
/-- **One TEBD time step, value level, one label space, only exact splits assumed.**  As `tebd_step_loop_value`,
but the chain of networks is a `GlobalLoopChain`: for operator number `g` with current physical legs `cur`

* (one site `s`) the new node tensor IS the value of the renamed program `tensordot(T, G, binds)` of
  `singleSite` (`gateExpr1 … binds`, `binds` = what the model function returns) - no hypothesis about a routine;
* (two sites, either naming order of a pair `PairOK`) the old node tensors are the pulled leaves `TP'`, `TC'` of the
  renamed program `E = tensordot(tensordot(P, C, bond), G, r.binds)` of `twoSite`, the gate tensor `G g` is its
  pulled gate leaf, and the ONLY hypothesis about a library routine is the exact factorisation of THE VALUE OF
  THIS PROGRAM over the new bond, `(E.rn_map stepGlob).eval dim τ = Σ_newbond U·V` (contract of `split_node_svd`,
  truncation disabled);

that the renamed pairs of the model are the pairs the specification fold prescribes at that moment
(`rn_pairs stepGlob r.binds = recPairs (specOp g (cur, []) 0 [x, y]).2`) is PROVED (`two_binds_spec`), as is the
injectivity of `stepGlob` along the whole run (the invariant `RecInv` is carried through the chain).  Then the state
vector after the step is the ordered product of the gates applied to the state vector before. -/
theorem tebd_step_loop_value_global {R : Type} [CommSemiring R] (t : List TNode) (hwf : TreeWF t)
    (ops : List (List Nat)) (hv : ∀ op ∈ ops, ValidOp t op) (cur : Nat → GLeg) (rc : List Rec) (g : Nat)
    (hinv : RecInv cur rc g) :
    ∃ t' rec', runOps ⟨t, cur, rc⟩ g ops = some ⟨t', (specRun (cur, rc) g ops).1, rec'⟩ ∧
      ∀ (dim : SLeg → Nat) (G : Nat → Asg SLeg → R), (∀ i, DependsOn (GateReadsS i) (G i)) →
        (∀ (leaves : List (Asg SLeg → R)) (σ : Asg SLeg),
          netValue dim (recPairs rec') (gateLeaves G g ops leaves) σ =
            actRun dim G cur g ops (netValue dim (recPairs rc) leaves) σ) ∧
        (∀ ψ ψ' : Asg SLeg → R, GlobalLoopChain dim G cur g ops ψ ψ' → ψ' = actRun dim G cur g ops ψ) := by
  obtain ⟨t', rec', h1, h2⟩ := tebd_step_value (R := R) t hwf ops hv cur rc g hinv
  exact ⟨t', rec', h1, fun dim G hG => ⟨(h2 dim G hG).1, fun ψ ψ' h => global_loop_chain_value hG hinv h⟩⟩

open Ptn.Ein in
/-- **One operator inside the step, one label space** (the single-site and the two-site analogue at once): under
the record invariant, a `GlobalLoopContract` for operator number `g` has one of the three accepted shapes, and the
network after it is the gate action `Σ_in G[out; in] · ψ[…, in, …]` over the pairs of the specification. -/
theorem tebd_op_loop_value_global {R : Type} [CommSemiring R] (dim : SLeg → Nat) (cur : Nat → GLeg)
    (rc : List Rec) (g : Nat) (hinv : RecInv cur rc g) (Gt : Asg SLeg → R) (hG : DependsOn (GateReadsS g) Gt)
    (op : List Nat) (ψ ψ' : Asg SLeg → R) (h : GlobalLoopContract dim cur g Gt op ψ ψ') :
    OpForm op ∧ ψ' = gateAct dim Gt cur g op ψ :=
  ⟨(h.toLoop hinv hG).1, (h.toLoop hinv hG).2.toOp.value⟩

open Ptn.Ein in
/-- the injection is injective at every moment of a run (hypothesis of the relabelling theorems) -/
example (cur : Nat → GLeg) (rc : List Rec) (g : Nat) (hinv : RecInv cur rc g) (p c : Nat) (K : List Nat)
    (ver : Nat → Nat → Nat) : Function.Injective (stepGlob cur g p c K ver) :=
  hinv.stepGlob_injective p c K ver

open Ptn.Ein in
/-- non-vacuity of `hGt`: every gate tensor reading only the legs of gate `g` is the pull of a local gate tensor -/
example {R : Type} (cur : Nat → GLeg) (g p c : Nat) (K : List Nat) (ver : Nat → Nat → Nat)
    (Gt : Asg SLeg → R) (hG : DependsOn (GateReadsS g) Gt) :
    ∃ G : Asg Leg → R, Gt = rn_pull (stepGlob cur g p c K ver) G :=
  stepGlob_gate_surj cur g p c K ver Gt hG

open Ptn.Ein in
/-- non-vacuity of the exact-split hypothesis `hUV`: at every moment of a run, for EVERY local program and a new
bond `virt a b (v + 3)`, `virt b a (v + 3)` of dimension one (old bonds carry version `v`) the value of the renamed
program factorises exactly -/
example {R : Type} [CommSemiring R] (cur : Nat → GLeg) (rc : List Rec) (g : Nat) (hinv : RecInv cur rc g)
    (p c : Nat) (K : List Nat) (v a b : Nat) (e : Expr Leg R) (dim : SLeg → Nat)
    (hd : dim (SLeg.virt a b (v + 3)) = 1) :
    ∃ U V : Asg SLeg → R, ∀ τ, (e.rn_map (stepGlob cur g p c K (fun _ _ => v))).eval dim τ =
      sumPairs dim [(SLeg.virt a b (v + 3), SLeg.virt b a (v + 3))] (fun ρ => U ρ * V ρ) τ :=
  rn_split_exists_step _ (hinv.stepGlob_injective p c K _) e dim _ _
    (stepGlob_ne_newbond cur g p c K a b v) (stepGlob_ne_newbond cur g p c K b a v) hd

open Ptn.Ein in
/-- concrete renaming at the start of a run (gate `0`, pair `0 — 1`): the pairs of the model in the step labels -/
example : rn_pairs (stepGlob GLeg.init 0 0 1 [] (fun _ _ => 0))
      [(Leg.nb 1, Leg.nb 0), (Leg.phys 0 0, Leg.gin 0), (Leg.phys 1 0, Leg.gin 1)] =
    [(SLeg.virt 0 1 2, SLeg.virt 1 0 2), (.ph (.init 0), .gin 0 0), (.ph (.init 1), .gin 0 1)] := by decide

open Ptn.Ein in
/-- non-vacuity of the whole two-site contract: at every moment of a run, for EVERY pair `PairOK`, all local
tensors `TP`, `TC`, `G` and a new bond of dimension one there are `U`, `V` with a `GlobalLoopContract` (and hence,
by `tebd_op_loop_value_global`, the network after it is the gate action) -/
example {R : Type} [CommSemiring R] (cur : Nat → GLeg) (rc : List Rec) (g : Nat) (hinv : RecInv cur rc g)
    (p c : Nat) (pp : Option Nat) (A B K : List Nat) (hpair : PairOK p c pp A B K) (v : Nat)
    (TP TC G : Asg Leg → R) (dim : SLeg → Nat) (hd : dim (SLeg.virt p c (v + 3)) = 1) :
    ∃ U V : Asg SLeg → R, GlobalLoopContract dim cur g (rn_pull (stepGlob cur g p c K (fun _ _ => v)) G) [p, c]
      (netValue dim ([] ++ [(stepGlob cur g p c K (fun _ _ => v) (Leg.nb c),
          stepGlob cur g p c K (fun _ _ => v) (Leg.nb p))])
        [rn_pull (stepGlob cur g p c K (fun _ _ => v)) TP, rn_pull (stepGlob cur g p c K (fun _ _ => v)) TC])
      (netValue dim ([] ++ [(SLeg.virt p c (v + 3), SLeg.virt c p (v + 3))]) [U, V]) := by
  obtain ⟨U, V, hUV⟩ := rn_split_exists_step _ (hinv.stepGlob_injective p c K (fun _ _ => v))
    (gateExpr (mkNode p pp (A ++ c :: B) 1).legs (mkNode c (some p) K 1).legs [(Leg.nb c, Leg.nb p)]
      (1 + 1) ((physL p 1 ++ physL c 1).zip ((List.range (1 + 1)).map Leg.gin)) TP TC G) dim _ _
    (stepGlob_ne_newbond cur g p c K p c v) (stepGlob_ne_newbond cur g p c K c p v) hd
  exact ⟨U, V, GlobalLoopContract.two p c pp A B K hpair _ p c _
    (Or.inl ⟨rfl, rfl, twoSite_parentFirst 1 1 hpair⟩) TP TC G rfl [] U V [] _ _ (fun _ => False) hUV
    (by simp) id id id id (fun _ _ => id) (by simp [Expr.pairLegs]) (by simp [Expr.pairLegs])⟩

/-! ### non-vacuity -/

section ValueExamples
open Ptn.Ein

/-- integer tensors on the two-node network `0 — 1` (one physical leg each), a non-product, non-symmetric gate -/
def demoTP : Asg VLeg → Int := fun ρ => ρ (.own 0 (.nb 1)) + 2 * ρ (.shared (.phys 0 0)) + 1
def demoTC : Asg VLeg → Int := fun ρ => ρ (.own 1 (.nb 0)) * ρ (.shared (.phys 1 0)) + 3
def demoG : Asg VLeg → Int := fun ρ =>
  ρ (.shared (.gout 0)) + 2 * ρ (.shared (.gin 0)) + 3 * ρ (.shared (.gout 1)) * ρ (.shared (.gin 1)) + 1
/-- all dimensions two, the new bond of dimension one -/
def demoDim : VLeg → Nat := fun l => if l = .own 0 .bond then 1 else 2
def demoGP : List (VLeg × VLeg) := gatePairs [(Leg.phys 0 0, Leg.gin 0), (Leg.phys 1 0, Leg.gin 1)]
def demoC : Asg VLeg → Int := fun τ =>
  sumPairs demoDim [(glob 0 (Leg.nb 1), glob 1 (Leg.nb 0))] (fun ρ => demoTP ρ * demoTC ρ) τ
def demoA : Asg VLeg → Int := fun τ => sumPairs demoDim demoGP (fun ρ => demoG ρ * demoC ρ) τ

/-- what the demo tensors may read: everything but the two new bond legs -/
def demoS : VLeg → Prop := fun l => l ≠ glob 0 Leg.bond ∧ l ≠ glob 1 Leg.bond

theorem demoTP_dep : DependsOn demoS demoTP := by
  intro σ τ h
  simp only [demoTP]
  rw [h _ ⟨by decide, by decide⟩, h (.shared (.phys 0 0)) ⟨by decide, by decide⟩]

theorem demoTC_dep : DependsOn demoS demoTC := by
  intro σ τ h
  simp only [demoTC]
  rw [h _ ⟨by decide, by decide⟩, h (.shared (.phys 1 0)) ⟨by decide, by decide⟩]

theorem demoG_dep : DependsOn GateReads demoG := by
  intro σ τ h
  simp only [demoG]
  rw [h (.shared (.gout 0)) trivial, h (.shared (.gin 0)) trivial, h (.shared (.gout 1)) trivial,
    h (.shared (.gin 1)) trivial]

/-- the hypotheses of `two_site_gate_value` (parent named first; `r.binds` is the list below by
`two_site_gate_binding`) are satisfiable: the pair `0 — 1` with integer tensors, a generic gate, and the exact
factorisation of the absorbed tensor over a bond of dimension one -/
example : PairOK 0 1 none [] [] [] ∧
    (twoSite 0 (mkNode 0 none ([] ++ 1 :: []) 1) 1 (mkNode 1 (some 0) [] 1)).map (fun r => gatePairs r.binds)
      = some demoGP ∧
    (Expr.pairLegs ([] : List (VLeg × VLeg))).Nodup ∧
    (∀ τ, demoC τ = sumPairs demoDim [(glob 0 (Leg.nb 1), glob 1 (Leg.nb 0))] (fun ρ => demoTP ρ * demoTC ρ) τ) ∧
    (∀ τ, demoA τ = sumPairs demoDim demoGP (fun ρ => demoG ρ * demoC ρ) τ) ∧
    (∀ τ, demoA τ = sumPairs demoDim [(glob 0 Leg.bond, glob 1 Leg.bond)]
      (fun ρ => demoA ρ * (fun _ => (1 : Int)) ρ) τ) ∧
    DependsOn GateReads demoG := by
  refine ⟨by unfold PairOK; decide, by decide, by simp [Expr.pairLegs], fun _ => rfl, fun _ => rfl, ?_, demoG_dep⟩
  intro τ
  have hG : DependsOn demoS demoG := demoG_dep.mono (fun l hl => by
    cases l with
    | own n x => exact hl.elim
    | shared x => exact ⟨by simp [glob], by simp [glob]⟩)
  exact trivial_split demoDim demoA _ _
    (dependsOn_contract demoDim demoGP hG (dependsOn_contract demoDim _ demoTP_dep demoTC_dep))
    (fun h => h.1 rfl) (fun h => h.2 rfl) (by decide) τ

/-- … and the conclusion is not an empty identity: at the output assignment `(1, 0)` both sides are the
number 224 (the gate applied to the contracted pair). -/
example : sumPairs demoDim demoGP (fun τ => demoG τ *
      netValue demoDim ([] ++ [(glob 0 (Leg.nb 1), glob 1 (Leg.nb 0))]) [demoTP, demoTC] τ)
      (fun l => if l = .shared (.gout 0) then 1 else 0) = 224 := by decide

/-- the hypotheses of `single_site_gate_value`: the gate's input bound to the physical leg of node 0 -/
example : (singleSite (mkNode 0 none [1] 1)).map (fun r => gatePairs r.2) =
      some (gatePairs [(Leg.phys 0 0, Leg.gin 0)]) ∧
    DependsOn GateReads (fun ρ : Asg VLeg => (ρ (.shared (.gout 0)) + 2 * ρ (.shared (.gin 0)) : Int)) := by
  refine ⟨by decide, ?_⟩
  intro σ τ h
  show (σ _ + 2 * σ _ : Int) = τ _ + 2 * τ _
  rw [h (.shared (.gout 0)) trivial, h (.shared (.gin 0)) trivial]

/-- SWAP on two qutrits: the hypotheses of `swap_gate_value` hold for six distinct labels, and the value at the
output assignment `(2, 1)` of the vector `ψ[p₀, p₁] = 10·p₀ + p₁` is `ψ[1, 2] = 12` -/
example : sumPairs (fun _ : Nat => 3) [(0, 2), (1, 3)]
      (fun τ => swapTensor (R := Int) 3 4 5 2 3 τ * ((10 * τ 0 + τ 1 : Nat) : Int))
      (fun l => if l = 4 then 2 else if l = 5 then 1 else 0) = 12 := by decide

/-- the invariant of the record holds at the start of a run -/
example : RecInv GLeg.init [] 0 := recInv_init

/-- step-level demo tensors: the network `0 — 1` in the labels of a whole step -/
def sT0 : Asg SLeg → Int := fun ρ => ρ (.virt 0 1 0) + 2 * ρ (.ph (.init 0)) + 1
def sT1 : Asg SLeg → Int := fun ρ => ρ (.virt 1 0 0) * ρ (.ph (.init 1)) + 3
def sG : Nat → Asg SLeg → Int := fun g ρ =>
  ρ (.ph (.out g 0)) + 2 * ρ (.gin g 0) + 3 * ρ (.ph (.out g 1)) * ρ (.gin g 1) + 1
def sDim : SLeg → Nat := fun l => if l = .virt 0 1 1 then 1 else 2
def sS : SLeg → Prop := fun l => l ≠ .virt 0 1 1 ∧ l ≠ .virt 1 0 1

theorem sG_dep (g : Nat) : DependsOn (GateReadsS g) (sG g) := by
  intro σ τ h
  simp only [sG]
  rw [h (.ph (.out g 0)) rfl, h (.gin g 0) rfl, h (.ph (.out g 1)) rfl, h (.gin g 1) rfl]

/-- a chain of `tebd_step_value` exists: the step `[[0, 1], []]` (a two-site gate on `0 — 1`, then an operator
that names no site) on integer tensors, with the exact factorisation over a bond of dimension one; every gate
reads only its own legs -/
example : (∃ ψ', StepChain sDim sG GLeg.init 0 [[0, 1], []]
      (netValue sDim ([] ++ [(SLeg.virt 0 1 0, SLeg.virt 1 0 0)]) [sT0, sT1]) ψ') ∧
    ∀ g, DependsOn (GateReadsS g) (sG g) := by
  refine ⟨⟨_, StepChain.cons _ _ _ _ _ _ _
    (OpContract.exists_two sDim (sG 0) _ 0 1 sT0 sT1 _ _ (SLeg.virt 0 1 1) (SLeg.virt 1 0 1)
      (S := sS) ?_ ?_ ?_ (fun h => h.1 rfl) (fun h => h.2 rfl) (by decide) (sG_dep 0) (by decide))
    (StepChain.cons _ _ _ _ _ _ _ (OpContract.skip _) (StepChain.nil _ _ _))⟩, sG_dep⟩
  · intro σ τ h
    simp only [sT0]
    rw [h (.virt 0 1 0) ⟨by decide, by decide⟩, h (.ph (.init 0)) ⟨by decide, by decide⟩]
  · intro σ τ h
    simp only [sT1]
    rw [h (.virt 1 0 0) ⟨by decide, by decide⟩, h (.ph (.init 1)) ⟨by decide, by decide⟩]
  · exact (sG_dep 0).mono (fun l hl => by
      cases l with
      | ph x => exact ⟨by simp, by simp⟩
      | gin a b => exact ⟨by simp, by simp⟩
      | virt a b v => exact hl.elim)

/-- the exact-split-only chain of `tebd_step_loop_value` exists: the step `[[0, 1], []]` on integer tensors with
the exact factorisation over a bond of dimension one -/
example : ∃ ψ', LoopChain sDim sG GLeg.init 0 [[0, 1], []]
      (netValue sDim ([] ++ [(SLeg.virt 0 1 0, SLeg.virt 1 0 0)]) [sT0, sT1]) ψ' := by
  refine ⟨_, LoopChain.cons _ _ _ _ _ _ _
    (LoopContract.exists_two sDim (sG 0) _ 0 1 sT0 sT1 _ _ (SLeg.virt 0 1 1) (SLeg.virt 1 0 1)
      (S := sS) ?_ ?_ ?_ (fun h => h.1 rfl) (fun h => h.2 rfl) (by decide) (sG_dep 0) (by decide))
    (LoopChain.cons _ _ _ _ _ _ _ (LoopContract.skip _) (LoopChain.nil _ _ _))⟩
  · intro σ τ h
    simp only [sT0]
    rw [h (.virt 0 1 0) ⟨by decide, by decide⟩, h (.ph (.init 0)) ⟨by decide, by decide⟩]
  · intro σ τ h
    simp only [sT1]
    rw [h (.virt 1 0 0) ⟨by decide, by decide⟩, h (.ph (.init 1)) ⟨by decide, by decide⟩]
  · exact (sG_dep 0).mono (fun l hl => by
      cases l with
      | ph x => exact ⟨by simp, by simp⟩
      | gin a b => exact ⟨by simp, by simp⟩
      | virt a b v => exact hl.elim)

/-- `two_site_gate_loop_value` / `single_site_gate_loop_value`: the hypotheses hold for the pair `1 — 2` below a
parent with further children, and the program of the model is a concrete one: its binding record -/
example : PairOK 1 2 (some 0) [5] [6] [7] ∧ ((some 0).toList ++ [5, 2, 6]).Nodup ∧
    (twoSite 2 (mkNode 2 (some 1) [7] 1) 1 (mkNode 1 (some 0) [5, 2, 6] 1)).map (fun r =>
      (gateExpr (R := Int) (mkNode 1 (some 0) [5, 2, 6] 1).legs (mkNode 2 (some 1) [7] 1).legs
        [(Leg.nb 2, Leg.nb 1)] r.contr.nopen r.binds (fun _ => 1) (fun _ => 1) (fun _ => 1)).binds) =
      some [(Leg.phys 2 0, Leg.gin 0), (Leg.phys 1 0, Leg.gin 1), (Leg.nb 2, Leg.nb 1)] := by
  refine ⟨by unfold PairOK; decide, by decide, by decide⟩

end ValueExamples

-- the tree 0 - {1 - {3}, 2}
example : TreeWF [⟨0, none, [1, 2]⟩, ⟨1, some 0, [3]⟩, ⟨2, some 0, []⟩, ⟨3, some 1, []⟩] := by
  refine ⟨by decide, by decide, by decide, by decide, ⟨fun n => if n = 0 then 0 else if n = 3 then 2 else 1, by decide⟩⟩

example : ValidOp [⟨0, none, [1, 2]⟩, ⟨1, some 0, [3]⟩, ⟨2, some 0, []⟩, ⟨3, some 1, []⟩] [3, 1] :=
  ⟨⟨3, some 1, []⟩, by decide, ⟨1, some 0, [3]⟩, by decide, rfl, rfl, Or.inr rfl⟩

-- SWAP(0,2); gate on (3,1) (child first); single-site gate on 1; gate on (1,0): the record composes
example : (runOps ⟨[⟨0, none, [1, 2]⟩, ⟨1, some 0, [3]⟩, ⟨2, some 0, []⟩, ⟨3, some 1, []⟩],
      GLeg.init, []⟩ 0 [[0, 2], [3, 1], [1], [1, 0]]).map (fun st => (st.tree, st.record)) =
    some ([⟨0, none, [1, 2]⟩, ⟨1, some 0, [3]⟩, ⟨2, some 0, []⟩, ⟨3, some 1, []⟩],
          [(GLeg.init 0, 0, 0), (GLeg.init 2, 0, 1), (GLeg.init 3, 1, 0), (GLeg.init 1, 1, 1),
           (GLeg.out 1 1, 2, 0), (GLeg.out 2 0, 3, 0), (GLeg.out 0 0, 3, 1)]) := by decide

example : exponentSites [⟨[5, 4], .plain [(4, 5)], .none⟩, ⟨[7], .swaplist [(1, 2), (2, 1)], .plain [(3, 4)]⟩] =
    [[4, 5], [5, 4], [1, 2], [2, 1], [7], [3, 4]] := by decide


-- a four-node tree 0 - {1 - {3}, 2}: gates on (0,2) then (3,1) (child named first)
example : applyPairs [⟨0, none, [1, 2]⟩, ⟨1, some 0, [3]⟩, ⟨2, some 0, []⟩, ⟨3, some 1, []⟩]
    [(0, 2), (3, 1)] =
    some [⟨0, none, [2, 1]⟩, ⟨1, some 0, [3]⟩, ⟨2, some 0, []⟩, ⟨3, some 1, []⟩] := by decide


example : PairOK 1 2 (some 0) [5] [6] [7] := by unfold PairOK; decide
example : PairOK 1 2 none [] [] [] := by unfold PairOK; decide

-- child named first, parent has a parent and two more children, child has a child
example : (twoSite 2 (mkNode 2 (some 1) [7] 1) 1 (mkNode 1 (some 0) [5, 2, 6] 1)).map
    (fun r => (r.binds, r.node1, r.node2)) =
    some ([(Leg.phys 2 0, Leg.gin 0), (Leg.phys 1 0, Leg.gin 1)],
          ⟨some 1, [7], [Leg.bond, Leg.nb 7, Leg.gout 0]⟩,
          ⟨some 0, [2, 5, 6], [Leg.nb 0, Leg.bond, Leg.nb 5, Leg.nb 6, Leg.gout 1]⟩) := by decide

-- nodes that are not adjacent: the model raises, as the library does
example : twoSite 1 (mkNode 1 none [3] 1) 2 (mkNode 2 (some 4) [] 1) = none := by decide

end Ptn.C08
