import Ptn.C08.Model
/-! Line-protocol handler for the C08 model (core Lean only). -/
namespace Ptn.C08
def handle (args : List String) : String := "bad-op"
end Ptn.C08
