import Ptn.C08.Model
/-! Line-protocol handler for the C08 model (core Lean only).

  splitting <b1,b2:g:a1,…> …        → operator identifiers in the order of `exponentiateSplitting`
                                       (one token per Trotter step: swaps before `:` gate `:` swaps after)
  swap <d>                           → `<rows>;i,j i,j …` positions of the ones of `swapGate d`
                                       (row by row); `error` for `d = 0` (positivity_check raises)
  twosite <p|c> <P> <C> <pp|-> <kidsP> <kidsC|-> <oP> <oC>
                                     → the pair P (parent) / C (child), P's parent, both child lists, the
                                       numbers of open legs; `p`: the operator names P first, `c`: C first.
                                       `s1=…;s2=…;contr=…;abs=…;bind=…;n1=…;n2=…` (see `showResult`);
                                       `error` when the model raises
  seq <id:parent:kids> … / <a-b> …  → the tree after two-site gates on the pairs, same encoding
  steprec <id:parent:kids> … / <op> …→ operators `a` (one site) or `a-b` (two sites), gates numbered from 0:
                                       `<g>:<k>:<leg> … | <tree>` the global binding record of `runOps`
                                       (leg `s<site>` = initial physical leg, `o<g>.<k>` = output k of gate g)
                                       and the final tree; `error` when the model raises
  expsites <keys>/<before>/<after> … → site lists of `exponentSites`; keys `a` or `a,b`; swaps `n` (None),
                                       `s:<a-b,…>` (SWAPlist) or `p:<a-b,…>` (plain list)
-/
namespace Ptn.C08

def parseNatList (s : String) : Option (List Nat) :=
  if s = "" ∨ s = "-" then some [] else (s.splitOn ",").mapM String.toNat?

def parseOptNat (s : String) : Option (Option Nat) :=
  if s = "-" then some none else s.toNat?.map some

def showNats (l : List Nat) : String :=
  if l.isEmpty then "-" else ",".intercalate (l.map toString)

def showOpt : Option Nat → String
  | none => "-"
  | some x => toString x

def showLeg : Leg → String
  | .nb id => s!"v{id}"
  | .phys n k => s!"o{n}.{k}"
  | .gout k => s!"g{k}"
  | .gin k => s!"i{k}"
  | .bond => "b"

def showLegs (l : List Leg) : String :=
  if l.isEmpty then "-" else ",".intercalate (l.map showLeg)

def showSpec (s : LegSpec) : String :=
  s!"{showOpt s.parentLeg}|{showNats s.childLegs}|{showNats s.openLegs}|{if s.isRoot then "1" else "0"}"

def showNode (n : MNode) : String :=
  s!"{showOpt n.parent}|{showNats n.children}|{showLegs n.legs}"

def showBinds (b : List (Leg × Leg)) : String :=
  if b.isEmpty then "-" else ",".intercalate (b.map fun (x, y) => s!"{showLeg x}~{showLeg y}")

def showResult (r : TwoSiteResult) : String :=
  s!"s1={showSpec r.spec1};s2={showSpec r.spec2};contr={showNode r.contr};abs={showLegs r.absorbed.legs};" ++
  s!"bind={showBinds r.binds};n1={showNode r.node1};n2={showNode r.node2}"

def parseStep (tok : String) : Option (TStep Nat) :=
  match tok.splitOn ":" with
  | [b, g, a] =>
    match parseNatList b, g.toNat?, parseNatList a with
    | some b, some g, some a => some ⟨b, g, a⟩
    | _, _, _ => none
  | _ => none

def parseTNode (tok : String) : Option TNode :=
  match tok.splitOn ":" with
  | [i, p, k] =>
    match i.toNat?, parseOptNat p, parseNatList k with
    | some i, some p, some k => some ⟨i, p, k⟩
    | _, _, _ => none
  | _ => none

def parsePair (tok : String) : Option (Nat × Nat) :=
  match tok.splitOn "-" with
  | [a, b] =>
    match a.toNat?, b.toNat? with
    | some a, some b => some (a, b)
    | _, _ => none
  | _ => none

def showTNode (n : TNode) : String := s!"{n.id}:{showOpt n.parent}:{showNats n.children}"

def parseOp (tok : String) : Option (List Nat) :=
  (tok.splitOn "-").mapM String.toNat?

def showGLeg : GLeg → String
  | .init s => s!"s{s}"
  | .out g k => s!"o{g}.{k}"

def parsePairs (s : String) : Option (List (Nat × Nat)) :=
  if s = "" then some [] else (s.splitOn ",").mapM parsePair

def parseSwapArg (s : String) : Option SwapArg :=
  if s = "n" then some .none
  else if s.startsWith "s:" then (parsePairs (s.drop 2).toString).map .swaplist
  else if s.startsWith "p:" then (parsePairs (s.drop 2).toString).map .plain
  else none

def parseSiteStep (tok : String) : Option SiteStep :=
  match tok.splitOn "/" with
  | [k, b, a] =>
    match (k.splitOn ",").mapM String.toNat?, parseSwapArg b, parseSwapArg a with
    | some k, some b, some a => some ⟨k, b, a⟩
    | _, _, _ => none
  | _ => none

def showSites (l : List Nat) : String :=
  if l.isEmpty then "_" else "-".intercalate (l.map toString)

def handle (args : List String) : String :=
  match args with
  | "splitting" :: toks =>
    match toks.mapM parseStep with
    | some steps => " ".intercalate ((exponentiateSplitting steps).map toString)
    | none => "bad-op"
  | ["swap", d] =>
    match d.toNat? with
    | none => "bad-op"
    | some d =>
      match swapGate? d with
      | none => "error"
      | some M => s!"{M.length};" ++ " ".intercalate ((onesOf M).map fun (i, j) => s!"{i},{j}")
  | ["twosite", o, p, c, pp, kp, kc, op, oc] =>
    match p.toNat?, c.toNat?, parseOptNat pp, parseNatList kp, parseNatList kc, op.toNat?, oc.toNat? with
    | some p, some c, some pp, some kp, some kc, some op, some oc =>
      let P := mkNode p pp kp op
      let C := mkNode c (some p) kc oc
      let r := if o = "p" then some (twoSite p P c C) else if o = "c" then some (twoSite c C p P) else none
      match r with
      | none => "bad-op"
      | some none => "error"
      | some (some r) => showResult r
    | _, _, _, _, _, _, _ => "bad-op"
  | "seq" :: rest =>
    let treeToks := rest.takeWhile (· ≠ "/")
    let pairToks := (rest.dropWhile (· ≠ "/")).drop 1
    if ¬ rest.contains "/" then "bad-op" else
    match treeToks.mapM parseTNode, pairToks.mapM parsePair with
    | some t, some ps =>
      match applyPairs t ps with
      | some t' => " ".intercalate (t'.map showTNode)
      | none => "error"
    | _, _ => "bad-op"
  | "steprec" :: rest =>
    let treeToks := rest.takeWhile (· ≠ "/")
    let opToks := (rest.dropWhile (· ≠ "/")).drop 1
    if ¬ rest.contains "/" then "bad-op" else
    match treeToks.mapM parseTNode, opToks.mapM parseOp with
    | some t, some ops =>
      match runOps ⟨t, GLeg.init, []⟩ 0 ops with
      | some st =>
        " ".intercalate (st.record.map fun (l, g, k) => s!"{g}:{k}:{showGLeg l}") ++ " | " ++
          " ".intercalate (st.tree.map showTNode)
      | none => "error"
    | _, _ => "bad-op"
  | "expsites" :: toks =>
    match toks.mapM parseSiteStep with
    | some steps => " ".intercalate ((exponentSites steps).map showSites)
    | none => "bad-op"
  | _ => "bad-op"

end Ptn.C08
