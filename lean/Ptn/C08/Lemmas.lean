import Ptn.C08.Model
/-! Helper lemmas for C08 (core Lean only). -/
namespace Ptn.C08

/-! ## (i) splitting -/

/-- What one Trotter step contributes. -/
def stepOps {α : Type} (s : TStep α) : List α := s.before ++ [s.gate] ++ s.after

theorem foldl_stepBody {α : Type} (steps : List (TStep α)) (acc : List α) :
    steps.foldl stepBody acc = acc ++ (steps.map stepOps).flatten := by
  induction steps generalizing acc with
  | nil => simp
  | cons s ss ih =>
    simp only [List.foldl_cons, ih, List.map_cons, List.flatten_cons, stepBody, stepOps,
      List.append_assoc]

/-! ## (ii) SWAP -/

theorem entry_setEntry (M : Mat) (i j v i' j' : Nat) :
    entry (setEntry M i j v) i' j' =
      if i' = i ∧ j' = j then (entry M i j).map (fun _ => v) else entry M i' j' := by
  unfold entry setEntry
  by_cases hi : i' = i
  · subst hi
    cases h : M[i']? with
    | none => simp [h]
    | some row =>
      by_cases hj : j' = j
      · subst hj
        simp [h, List.getElem?_set]
        by_cases hl : j' < row.length
        · simp [hl]
        · simp [hl]
      · have hj' : j ≠ j' := fun h => hj h.symm
        simp [h, hj, List.getElem?_set_ne hj']
  · have hne : i ≠ i' := fun h => hi h.symm
    simp [List.getElem?_modify_ne _ _ hne, hi]

theorem entry_zeros (n m i j : Nat) :
    entry (zeros n m) i j = if i < n ∧ j < m then some 0 else none := by
  unfold entry zeros
  by_cases hi : i < n
  · by_cases hj : j < m
    · simp [hi, hj]
    · simp [hi, hj]
  · simp [hi]

/-- Effect of the inner loop over an arbitrary list of column indices. -/
theorem entry_rowLoop (c : Nat → Bool) (i : Nat) (js : List Nat) (M : Mat) (i' j' : Nat) :
    entry (js.foldl (fun M j => if c j then setEntry M i j 1 else M) M) i' j' =
      if i' = i ∧ j' ∈ js ∧ c j' = true then (entry M i' j').map (fun _ => 1) else entry M i' j' := by
  induction js generalizing M with
  | nil => simp
  | cons j js ih =>
    simp only [List.foldl_cons, ih, List.mem_cons]
    by_cases hc : c j = true
    · simp only [hc, if_true, entry_setEntry]
      by_cases hi : i' = i
      · subst hi
        by_cases hj : j' = j
        · subst hj
          simp [hc, Function.comp_def]
        · simp [hj]
      · simp [hi]
    · simp only [hc]
      by_cases hj : j' = j
      · subst hj
        simp [hc]
      · simp [hj]

theorem entry_swapRow (d i : Nat) (M : Mat) (i' j' : Nat) :
    entry (swapRow d i M) i' j' =
      if i' = i ∧ j' < d * d ∧ swapCond d i j' = true then (entry M i' j').map (fun _ => 1)
      else entry M i' j' := by
  unfold swapRow
  rw [entry_rowLoop (swapCond d i) i]
  simp [List.mem_range]

/-- Effect of the outer loop over an arbitrary list of row indices. -/
theorem entry_outerLoop (d : Nat) (is : List Nat) (M : Mat) (i' j' : Nat) :
    entry (is.foldl (fun M i => swapRow d i M) M) i' j' =
      if i' ∈ is ∧ j' < d * d ∧ swapCond d i' j' = true then (entry M i' j').map (fun _ => 1)
      else entry M i' j' := by
  induction is generalizing M with
  | nil => simp
  | cons i is ih =>
    simp only [List.foldl_cons, ih, entry_swapRow, List.mem_cons]
    by_cases hi : i' = i
    · subst hi
      by_cases h2 : j' < d * d ∧ swapCond d i' j' = true
      · simp [h2, Function.comp_def]
      · have : ¬ (j' < d * d ∧ swapCond d i' j' = true) := h2
        simp only [true_and, true_or]
        simp [this]
    · simp [hi]

/-- Complete description of the matrix built by the double loop. -/
theorem entry_swapGate (d i j : Nat) :
    entry (swapGate d) i j =
      if i < d * d ∧ j < d * d then some (if swapCond d i j then 1 else 0) else none := by
  unfold swapGate
  rw [entry_outerLoop, entry_zeros]
  by_cases hi : i < d * d
  · by_cases hj : j < d * d
    · by_cases hc : swapCond d i j = true
      · simp [hi, hj, hc, List.mem_range]
      · simp [hi, hj, hc, List.mem_range]
    · simp [hi, hj]
  · simp [hi, List.mem_range]

theorem swapCond_iff (d i j : Nat) :
    swapCond d i j = true ↔ (i / d = j % d ∧ j / d = i % d) := by
  simp [swapCond]

theorem digits_of_index {d a b : Nat} (hb : b < d) : (a * d + b) / d = a ∧ (a * d + b) % d = b := by
  have hd : 0 < d := by omega
  constructor
  · rw [Nat.mul_comm, Nat.mul_add_div hd, Nat.div_eq_of_lt hb, Nat.add_zero]
  · rw [Nat.mul_comm, Nat.mul_add_mod, Nat.mod_eq_of_lt hb]

theorem index_lt {d a b : Nat} (ha : a < d) (hb : b < d) : a * d + b < d * d := by
  have h1 : a * d + d ≤ d * d := by
    have : (a + 1) * d ≤ d * d := Nat.mul_le_mul_right d ha
    rw [Nat.add_mul, Nat.one_mul] at this
    exact this
  omega

theorem div_lt_of_lt_sq {d i : Nat} (h : i < d * d) : i / d < d :=
  Nat.div_lt_of_lt_mul h

end Ptn.C08
