/-! Model for property C08 (a TEBD step is the ordered product of its gates).  Core Lean only.

Three pieces of `/repo` are modelled, each as the code is written:

* (i)  `exponentiateSplitting` ↔ `TrotterSplitting.exponentiate_splitting`
       (`pytreenet/time_evolution/trotter.py`): the loop `extend(swaps_before); append(gate);
       extend(swaps_after)` over the Trotter steps, as a function on lists.
* (ii) `swapGate` ↔ `common_operators.swap_gate`: the double loop that writes a one at `(i, j)` when
       the base-`d` digits of `i` and `j` are exchanged (`int(i / d)` is the integer quotient for
       every index that fits a double exactly).
* (iii) the leg bookkeeping of `TEBD._apply_one_trotter_step_two_site`
       (`pytreenet/time_evolution/tebd.py`): `legsBeforeCombination` ↔
       `TreeTensorNetwork.legs_before_combination`, `contractNodes` ↔ `contract_nodes` (with
       `_data_contraction`, `_create_contracted_node`), `absorbIntoOpenLegs` ↔
       `absorb_into_open_legs`, `splitNode` ↔ `split_nodes` as used by `split_node_svd` (with
       `LegSpecification.find_leg_values`, `_set_in_parent_leg_after_split`, `_find_in_children`,
       `_set_out_parent_leg_after_split`, `_find_out_children`), on top of the `Node` methods
       `open_leg_to_parent`, `open_legs_to_children`, `exchange_open_leg_ranges`
       (`pytreenet/core/node.py`).

A node is modelled by its parent, its ordered children and the list of *leg labels* in the node's
own (permuted) order: the library stores a raw tensor plus `_leg_permutation`; every method above
pops / inserts entries of the permutation, which acts on the label list in exactly the same way
(labels are pairwise distinct, as permutation entries are).  `tensordot` returns the remaining legs of
the first operand followed by those of the second, and the pairs it binds - whatever they are.

Everything that raises in Python is `none` here.  Not modelled: the renaming of the pair in the
*neighbours'* parent/children fields (`replace_node_in_neighbours`), dimensions, numerical values
(`expm`, SVD): these are judged by the dense oracle of the harness. -/
namespace Ptn.C08

/-! ## (i) list order of the splitting -/

/-- One Trotter step after `realise_swaps` / `exponentiate_operator`: the operators it contributes. -/
structure TStep (α : Type) where
  before : List α
  gate : α
  after : List α

/-- Body of the loop in `exponentiate_splitting`: `extend`, `append`, `extend`. -/
def stepBody {α : Type} (acc : List α) (s : TStep α) : List α :=
  ((acc ++ s.before) ++ [s.gate]) ++ s.after

def exponentiateSplitting {α : Type} (steps : List (TStep α)) : List α :=
  steps.foldl stepBody []

/-! ## (ii) the SWAP matrix -/

abbrev Mat := List (List Nat)

def zeros (n m : Nat) : Mat := List.replicate n (List.replicate m 0)

/-- `M[i, j] = v` -/
def setEntry (M : Mat) (i j v : Nat) : Mat := M.modify i (fun row => row.set j v)

def entry (M : Mat) (i j : Nat) : Option Nat := (M[i]?).bind (·[j]?)

/-- The condition under which `swap_gate` writes a one. -/
def swapCond (d i j : Nat) : Bool :=
  let output_sys1 := i / d
  let output_sys2 := i % d
  let input_sys1 := j / d
  let input_sys2 := j % d
  output_sys1 == input_sys2 && input_sys1 == output_sys2

/-- Inner loop `for j in range(d**2)`. -/
def swapRow (d i : Nat) (M : Mat) : Mat :=
  (List.range (d * d)).foldl (fun M j => if swapCond d i j then setEntry M i j 1 else M) M

/-- `swap_gate(d)` for `d ≥ 1` (the zero matrix, then the double loop). -/
def swapGate (d : Nat) : Mat :=
  (List.range (d * d)).foldl (fun M i => swapRow d i M) (zeros (d * d) (d * d))

/-- With `positivity_check`. -/
def swapGate? (d : Nat) : Option Mat := if d = 0 then none else some (swapGate d)

/-- The digit exchange `(a, b) ↦ (b, a)` on indices `a * d + b`. -/
def digitSwap (d i : Nat) : Nat := (i % d) * d + i / d

/-- Positions of the ones, row by row. -/
def onesOf (M : Mat) : List (Nat × Nat) :=
  (M.zipIdx.map fun (row, i) => (row.zipIdx.filter (fun (v, _) => v == 1)).map fun (_, j) => (i, j)).flatten

/-! ## (iii) leg bookkeeping -/

inductive Leg where
  | nb (id : Nat)            -- virtual leg toward the neighbour `id`
  | phys (node k : Nat)      -- `k`-th open (physical) leg of node `node`
  | gout (k : Nat)           -- `k`-th output leg of the gate
  | gin (k : Nat)            -- `k`-th input leg of the gate
  | bond                     -- the leg created by the splitting
  deriving DecidableEq, Repr

/-- Python `list.insert(i, x)` (the position is clamped to the length). -/
def pyInsert {α : Type} (l : List α) (i : Nat) (x : α) : List α := l.take i ++ x :: l.drop i

/-- `l` without the entry at position `i` (the list part of `pop(i)`). -/
def dropAt {α : Type} (l : List α) (i : Nat) : List α := l.take i ++ l.drop (i + 1)

/-- `{id: leg_value + k for leg_value, id in enumerate(ids)}` as an ordered association list. -/
def enumFrom : Nat → List Nat → List (Nat × Nat)
  | _, [] => []
  | k, x :: xs => (x, k) :: enumFrom (k + 1) xs

structure MNode where
  parent : Option Nat
  children : List Nat
  legs : List Leg
  deriving DecidableEq, Repr

namespace MNode

def nparents (n : MNode) : Nat := if n.parent.isSome then 1 else 0
def nvirt (n : MNode) : Nat := n.nparents + n.children.length
def nlegs (n : MNode) : Nat := n.legs.length
def nopen (n : MNode) : Nat := n.nlegs - n.nvirt
/-- `list(range(nvirt_legs(), nlegs()))` -/
def openLegs (n : MNode) : List Nat := List.range' n.nvirt (n.nlegs - n.nvirt)

/-- `GraphNode.neighbour_index` -/
def neighbourIndex (n : MNode) (id : Nat) : Option Nat :=
  if n.parent = some id then some 0
  else if id ∈ n.children then some (n.children.idxOf id + n.nparents)
  else none

/-- `Node.open_leg_to_parent(parent_id, open_leg)` -/
def openLegToParent (n : MNode) (pid : Nat) (i : Nat) : Option MNode :=
  if n.parent.isSome then none                 -- "already has a parent"
  else if n.nopen = 0 then none                -- `_open_leg_checks`: no open legs
  else if i < n.nvirt then none                -- `_open_leg_checks`: the leg is not open
  else match n.legs[i]? with
    | none => none                             -- `pop`: IndexError
    | some x => some { n with parent := some pid, legs := pyInsert (dropAt n.legs i) 0 x }

/-- One round of the loop of `open_legs_to_children`: `remove(value)`, `insert(nvirt, value)`,
    `add_child`. -/
def childStep (orig : Nat) (m : MNode) (e : Nat × Nat × Leg) : Option MNode :=
  if e.2.1 < orig then none                    -- "is not open to connect to"
  else if e.2.2 ∈ m.legs then
    some { m with legs := pyInsert (m.legs.erase e.2.2) m.nvirt e.2.2, children := m.children ++ [e.1] }
  else none                                    -- `remove`: ValueError

/-- The loop of `open_legs_to_children` over the looked-up entries. -/
def childLoop (orig : Nat) : MNode → List (Nat × Nat × Leg) → Option MNode
  | m, [] => some m
  | m, e :: es => (childStep orig m e).bind (fun m' => childLoop orig m' es)

/-- `actual_value = {child_id: self._leg_permutation[open_leg] …}` -/
def lookupLegs (legs : List Leg) : List (Nat × Nat) → Option (List (Nat × Nat × Leg))
  | [] => some []
  | (cid, pos) :: ds =>
    match legs[pos]?, lookupLegs legs ds with
    | some l, some r => some ((cid, pos, l) :: r)
    | _, _ => none

/-- `Node.open_legs_to_children(child_dict)` (the dict as an ordered association list). -/
def openLegsToChildren (n : MNode) (dict : List (Nat × Nat)) : Option MNode :=
  (lookupLegs n.legs dict).bind (childLoop n.nvirt n)

end MNode

/-- `Node.exchange_open_leg_ranges(range(s1, e1), range(s2, e2))` on the permuted leg list. -/
def exchangeRanges (l : List Leg) (s1 e1 s2 e2 : Nat) : Option (List Leg) :=
  let (s1, e1, s2, e2) := if s2 < s1 then (s2, e2, s1, e1) else (s1, e1, s2, e2)
  let len1 := e1 - s1
  let len2 := e2 - s2
  if s2 < e1 then none                          -- assert open_1.stop <= open_2.start
  else if l.length < s2 + len2 then none        -- `pop`: IndexError
  else
    let values2 := (l.drop s2).take len2
    let l1 := l.take s2 ++ l.drop (s2 + len2)
    let values1 := (l1.drop s1).take len1
    let l2 := l1.take s1 ++ l1.drop (s1 + len1)
    let l3 := l2.take s1 ++ values2 ++ l2.drop s1
    let difference := s2 - e1
    let newPosition := s1 + len2 + difference
    some (l3.take newPosition ++ values1 ++ l3.drop newPosition)

structure LegSpec where
  parentLeg : Option Nat
  childLegs : List Nat
  openLegs : List Nat
  isRoot : Bool
  deriving DecidableEq, Repr

/-- `TreeTensorNetwork.legs_before_combination(node1_id, node2_id)` -/
def legsBeforeCombination (id1 : Nat) (n1 : MNode) (id2 : Nat) (n2 : MNode) :
    Option (LegSpec × LegSpec) :=
  let totNvirt := n1.nvirt + n2.nvirt - 2
  let totNlegs := n1.nlegs + n2.nlegs - 2
  let open1 := List.range' totNvirt n1.nopen
  let open2 := List.range' (totNvirt + n1.nopen) (totNlegs - (totNvirt + n1.nopen))
  let s1 : LegSpec := ⟨none, n1.children, open1, false⟩
  let s2 : LegSpec := ⟨none, n2.children, open2, false⟩
  let r : Option (LegSpec × LegSpec) :=
    if id1 ∈ n2.children then                    -- `node2.is_parent_of(node1_id)`: temp reversed
      some (s1, { s2 with parentLeg := n2.parent, childLegs := s2.childLegs.erase id1 })
    else if id2 ∈ n1.children then
      some ({ s1 with parentLeg := n1.parent, childLegs := s1.childLegs.erase id2 }, s2)
    else none                                    -- `remove`: ValueError
  r.map fun p =>
    if n1.parent.isNone then ({ p.1 with isRoot := true }, p.2)
    else if n2.parent.isNone then (p.1, { p.2 with isRoot := true })
    else p

/-- Entries of `l` whose position (counted from `k`) is not in `idx`. -/
def removeIdxs {α : Type} (idx : List Nat) : Nat → List α → List α
  | _, [] => []
  | k, x :: xs => if k ∈ idx then removeIdxs idx (k + 1) xs else x :: removeIdxs idx (k + 1) xs

/-- Labels at the given positions (`none` when one is out of range). -/
def pick {α : Type} (l : List α) : List Nat → Option (List α)
  | [] => some []
  | i :: is => match l[i]?, pick l is with
    | some x, some r => some (x :: r)
    | _, _ => none

/-- `numpy.tensordot(a, b, axes=(axa, axb))` on label lists: the legs that remain (those of `a`, then
    those of `b`) and the pairs that are summed over. -/
def tensordot (la lb : List Leg) (axa axb : List Nat) : Option (List Leg × List (Leg × Leg)) :=
  if axa.length ≠ axb.length then none
  else match pick la axa, pick lb axb with
    | some xa, some xb => some (removeIdxs axa 0 la ++ removeIdxs axb 0 lb, xa.zip xb)
    | _, _ => none

/-- `if not parent_node.is_root(): new_node.open_leg_to_parent(parent_node.parent, 0)` -/
def attachParent (n : MNode) : Option Nat → Option MNode
  | some pp => n.openLegToParent pp 0
  | none => some n

/-- `TreeTensorNetwork.contract_nodes(id1, id2, new_identifier)`: the new node. -/
def contractNodes (id1 : Nat) (n1 : MNode) (id2 : Nat) (n2 : MNode) : Option MNode :=
  -- determine_parentage
  let pc : Option (Nat × MNode × Nat × MNode) :=
    if n2.parent = some id1 then some (id1, n1, id2, n2)
    else if n1.parent = some id2 then some (id2, n2, id1, n1)
    else none
  pc.bind fun (pid, P, cid, C) =>
  (P.neighbourIndex cid).bind fun ci =>
  -- _data_contraction
  (tensordot P.legs C.legs [ci] [0]).bind fun (raw, _) =>
  -- _create_contracted_node
  let new0 : MNode := ⟨none, [], raw⟩
  (attachParent new0 P.parent).bind fun new1 =>
  let parentChildren := P.children.erase cid
  let parentChildDict := enumFrom P.nparents parentChildren
  let childChildrenDict := enumFrom (P.nlegs - 1) C.children
  let dict := if pid = id1 then parentChildDict ++ childChildrenDict
              else childChildrenDict ++ parentChildDict
  (new1.openLegsToChildren dict).bind fun new2 =>
  if id1 ≠ pid then
    let nv := new2.nvirt
    (exchangeRanges new2.legs nv (nv + P.nopen) (nv + P.nopen) new2.nlegs).map
      fun l => { new2 with legs := l }
  else some new2

/-- Legs of a gate tensor for `n` sites: outputs first (`NumericOperator.to_tensor`). -/
def gateLegs (n : Nat) : List Leg := (List.range n).map Leg.gout ++ (List.range n).map Leg.gin

/-- `TreeTensorNetwork.absorb_into_open_legs(node_id, tensor)`; `op` are the legs of `tensor`. -/
def absorbIntoOpenLegs (n : MNode) (op : List Leg) : Option (MNode × List (Leg × Leg)) :=
  let nopen := n.nopen
  if op.length ≠ 2 * nopen then none
  else
    let tensorLegs := (List.range nopen).map (· + nopen)
    (tensordot n.legs op n.openLegs tensorLegs).map fun (l, b) => ({ n with legs := l }, b)

/-- `[self.node.neighbour_index(child_leg) for child_leg in self.child_legs]` -/
def neighbourIndices (n : MNode) : List Nat → Option (List Nat)
  | [] => some []
  | k :: ks => match n.neighbourIndex k, neighbourIndices n ks with
    | some i, some r => some (i :: r)
    | _, _ => none

/-- `LegSpecification.find_leg_values()` relative to node `n`. -/
def LegSpec.findLegValues (s : LegSpec) (n : MNode) : Option (List Nat) :=
  (neighbourIndices n s.childLegs).map fun kids =>
    (if s.parentLeg.isSome then [0] else []) ++ kids ++ s.openLegs

/-- `split_nodes(node_id, out_legs, in_legs, splitting_function, out_identifier, in_identifier)`:
    the out (U) node and the in (V) node. -/
def splitNode (n : MNode) (outS inS : LegSpec) (outId inId : Nat) : Option (MNode × MNode) :=
  (outS.findLegValues n).bind fun ov =>
  (inS.findLegValues n).bind fun iv =>
  -- the matricisation transposes to `u_legs + v_legs`: must be a permutation of all legs
  if (ov ++ iv).length ≠ n.nlegs ∨ ¬ (ov ++ iv).Nodup then none else
  (pick n.legs ov).bind fun ol =>
  (pick n.legs iv).bind fun il =>
  let outN0 : MNode := ⟨none, [], ol ++ [Leg.bond]⟩
  let inN0 : MNode := ⟨none, [], Leg.bond :: il⟩
  -- _set_in_parent_leg_after_split
  (match inS.parentLeg with
    | some pp => inN0.openLegToParent pp 1
    | none => if inS.isRoot then some inN0 else inN0.openLegToParent outId 0).bind fun inN1 =>
  -- _find_in_children
  (if inS.isRoot then
      (if outS.parentLeg.isSome then none else some ([(outId, 0)] ++ enumFrom 1 inS.childLegs))
    else if inS.parentLeg.isSome then some ([(outId, 1)] ++ enumFrom 2 inS.childLegs)
    else some (enumFrom 1 inS.childLegs)).bind fun inDict =>
  (inN1.openLegsToChildren inDict).bind fun inN2 =>
  -- _set_out_parent_leg_after_split
  (match outS.parentLeg with
    | some pp => outN0.openLegToParent pp 0
    | none => if outS.isRoot then some outN0
              else outN0.openLegToParent inId (outN0.nlegs - 1)).bind fun outN1 =>
  -- _find_out_children
  (if inS.isRoot || inS.parentLeg.isSome then
      (if outS.parentLeg.isSome then none else some (enumFrom 1 outS.childLegs))
    else if outS.isRoot then some ([(inId, outN1.nlegs - 1)] ++ enumFrom 0 outS.childLegs)
    else (if outS.parentLeg.isSome then some ([(inId, outN1.nlegs - 1)] ++ enumFrom 1 outS.childLegs)
          else none)).bind fun outDict =>
  (outN1.openLegsToChildren outDict).bind fun outN2 =>
  some (outN2, inN2)

structure TwoSiteResult where
  spec1 : LegSpec
  spec2 : LegSpec
  contr : MNode
  absorbed : MNode
  binds : List (Leg × Leg)
  node1 : MNode
  node2 : MNode
  deriving Repr

/-- `TEBD._apply_one_trotter_step_two_site` for the operator acting on `(id1, id2)`. -/
def twoSite (id1 : Nat) (n1 : MNode) (id2 : Nat) (n2 : MNode) : Option TwoSiteResult :=
  (legsBeforeCombination id1 n1 id2 n2).bind fun (s1, s2) =>
  (contractNodes id1 n1 id2 n2).bind fun c =>
  (absorbIntoOpenLegs c (gateLegs c.nopen)).bind fun (a, b) =>
  (splitNode a s1 s2 id1 id2).bind fun (m1, m2) =>
  some ⟨s1, s2, c, a, b, m1, m2⟩

/-- `TEBD._apply_one_trotter_step_single_site`. -/
def singleSite (n : MNode) : Option (MNode × List (Leg × Leg)) :=
  absorbIntoOpenLegs n (gateLegs n.nopen)

/-- The leg toward the parent, if there is one. -/
def parentLegs : Option Nat → List Leg
  | some p => [Leg.nb p]
  | none => []

/-- The `o` physical legs of node `id`. -/
def physL (id o : Nat) : List Leg := (List.range o).map (Leg.phys id)

/-- Gate output legs number `s`, …, `s + n - 1`. -/
def goutL (s n : Nat) : List Leg := (List.range' s n).map Leg.gout

/-- A node in its canonical layout: parent leg, child legs, `o` physical legs. -/
def mkNode (id : Nat) (parent : Option Nat) (children : List Nat) (o : Nat) : MNode :=
  ⟨parent, children, parentLegs parent ++ (children.map Leg.nb ++ physL id o)⟩

/-! ### tree level: the child order after a sequence of two-site gates -/

structure TNode where
  id : Nat
  parent : Option Nat
  children : List Nat
  deriving DecidableEq, Repr

def findNode (t : List TNode) (id : Nat) : Option TNode := t.find? (·.id == id)

def updateNode (t : List TNode) (id : Nat) (m : MNode) : List TNode :=
  t.map fun x => if x.id == id then { x with parent := m.parent, children := m.children } else x

/-- One two-site gate on `(id1, id2)`, every node carrying one physical leg. -/
def applyPair (t : List TNode) (id1 id2 : Nat) : Option (List TNode) :=
  (findNode t id1).bind fun a =>
  (findNode t id2).bind fun b =>
  if id1 = id2 then none else
  (twoSite id1 (mkNode id1 a.parent a.children 1) id2 (mkNode id2 b.parent b.children 1)).map
    fun r => updateNode (updateNode t id1 r.node1) id2 r.node2

def applyPairs : List TNode → List (Nat × Nat) → Option (List TNode)
  | t, [] => some t
  | t, (a, b) :: ps => (applyPair t a b).bind (fun t' => applyPairs t' ps)

/-! ## (iv) a whole TEBD time step: global binding record

`TEBD.run_one_time_step` loops over `self.exponents`; `_apply_one_trotter_step` dispatches on the
number of named sites.  Every node carries one physical leg.  The state of the model is the tree
(identifier, parent, ordered children of every node) plus, for every site, the *global* name of its
current physical leg and the list of bindings made so far.  The bindings of one operator are read off
the leg-level model (`twoSite` / `singleSite`), not postulated. -/

/-- Global names of physical legs: the initial leg of a site, or output `k` of gate number `gate`. -/
inductive GLeg where
  | init (site : Nat)
  | out (gate k : Nat)
  deriving DecidableEq, Repr

/-- One binding: (physical leg, gate number, input index of that gate). -/
abbrev Rec := GLeg × Nat × Nat

structure GState where
  tree : List TNode
  cur : Nat → GLeg
  record : List Rec

def setCur (cur : Nat → GLeg) (s : Nat) (v : GLeg) : Nat → GLeg :=
  fun x => if x = s then v else cur x

/-- The local bindings `(phys s 0, gin k)` of gate `g` in global names. -/
def bindsToGlobal (cur : Nat → GLeg) (g : Nat) : List (Leg × Leg) → Option (List Rec)
  | [] => some []
  | (Leg.phys s 0, Leg.gin k) :: rest => (bindsToGlobal cur g rest).map ((cur s, g, k) :: ·)
  | _ => none

/-- The open legs of a node after a gate: exactly one gate output. -/
def openOut (n : MNode) : Option Nat :=
  match n.legs.drop n.nvirt with
  | [Leg.gout k] => some k
  | _ => none

/-- `_apply_one_trotter_step_single_site` (the node objects are not touched). -/
def stepSingle (st : GState) (g s : Nat) : Option GState :=
  (findNode st.tree s).bind fun x =>
  (singleSite (mkNode s x.parent x.children 1)).bind fun nb =>
  (bindsToGlobal st.cur g nb.2).bind fun r =>
  (openOut nb.1).bind fun o =>
  some ⟨st.tree, setCur st.cur s (GLeg.out g o), st.record ++ r⟩

/-- `_apply_one_trotter_step_two_site` -/
def stepTwo (st : GState) (g a b : Nat) : Option GState :=
  (findNode st.tree a).bind fun x =>
  (findNode st.tree b).bind fun y =>
  if a = b then none else
  (twoSite a (mkNode a x.parent x.children 1) b (mkNode b y.parent y.children 1)).bind fun r =>
  (bindsToGlobal st.cur g r.binds).bind fun rc =>
  (openOut r.node1).bind fun o1 =>
  (openOut r.node2).bind fun o2 =>
  some ⟨updateNode (updateNode st.tree a r.node1) b r.node2,
        setCur (setCur st.cur a (GLeg.out g o1)) b (GLeg.out g o2), st.record ++ rc⟩

/-- `_apply_one_trotter_step`: dispatch on `len(unitary.node_identifiers)`. -/
def applyOp (st : GState) (g : Nat) : List Nat → Option GState
  | [] => some st
  | [s] => stepSingle st g s
  | [a, b] => stepTwo st g a b
  | _ => none                                   -- NotImplementedError

/-- `run_one_time_step`: `for unitary in self.exponents`; gates are numbered from `g`. -/
def runOps : GState → Nat → List (List Nat) → Option GState
  | st, _, [] => some st
  | st, g, op :: ops => (applyOp st g op).bind fun st' => runOps st' (g + 1) ops

/-- `k` time steps of the driver loop. -/
def runSteps (ops : List (List Nat)) : GState → Nat → Nat → Option GState
  | st, _, 0 => some st
  | st, g, k + 1 => (runOps st g ops).bind fun st' => runSteps ops st' (g + ops.length) k

/-! ### the specification: composition in list order -/

/-- Operator number `g` on `sites`: input `k` binds the current physical leg of the `k`-th named site,
    output `k` becomes that site's physical leg. -/
def specOp (g : Nat) : (Nat → GLeg) × List Rec → Nat → List Nat → (Nat → GLeg) × List Rec
  | cr, _, [] => cr
  | cr, k, s :: ss => specOp g (setCur cr.1 s (GLeg.out g k), cr.2 ++ [(cr.1 s, g, k)]) (k + 1) ss

def specRun : (Nat → GLeg) × List Rec → Nat → List (List Nat) → (Nat → GLeg) × List Rec
  | cr, _, [] => cr
  | cr, g, op :: ops => specRun (specOp g cr 0 op) (g + 1) ops

/-! ### site identifiers of `TEBD.exponents` -/

/-- How the swaps of a `TrotterStep` may be handed over (after the repair of F-C08a a plain list of pairs
    is wrapped into a `SWAPlist`). -/
inductive SwapArg where
  | none
  | swaplist (l : List (Nat × Nat))
  | plain (l : List (Nat × Nat))

/-- `TrotterStep.__init__`: `None -> SWAPlist()`, a `SWAPlist` as it is, else `SWAPlist(list)`. -/
def SwapArg.norm : SwapArg → List (Nat × Nat)
  | .none => []
  | .swaplist l => l
  | .plain l => l

/-- `SWAPlist.into_operators`: `for swap_pair in self: … NumericOperator(swap_matrix, list(swap_pair))`;
    only the identifiers are kept. -/
def swapSites (l : List (Nat × Nat)) : List (List Nat) :=
  l.foldl (fun acc pr => acc ++ [[pr.1, pr.2]]) []

/-- A Trotter step: the keys of its `TensorProduct` in dictionary order, and its swaps. -/
structure SiteStep where
  keys : List Nat
  before : SwapArg
  after : SwapArg

/-- Site identifiers of `TEBD.exponents`: `into_operator` / `exp` / `to_tensor` keep
    `list(self.keys())`; the list order is that of `exponentiate_splitting`. -/
def exponentSites (steps : List SiteStep) : List (List Nat) :=
  exponentiateSplitting (steps.map fun s =>
    (⟨swapSites s.before.norm, s.keys, swapSites s.after.norm⟩ : TStep (List Nat)))

end Ptn.C08
