/-! Model for property C08 (core Lean only; no Mathlib). -/
namespace Ptn.C08
end Ptn.C08
