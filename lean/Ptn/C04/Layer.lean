import Ptn.C04.BuiltTree
/-! The canonical contraction of ONE layer (ket network, bra network, operator network) of a tree over its own
bonds — the dense state vector / operator of that layer — as a value-level expression, and the facts the
value theorems need: its leaves, its binding record, its free legs, strong well-formedness.  Also: the labels
of all node tensors of a tree with distinct identifiers are pairwise distinct. -/
namespace Ptn.C04

open Ptn.Ein

variable {R : Type}
set_option linter.unusedSectionVars false

/-- the node a global label belongs to -/
def legNode : Leg → Option Nat
  | .gKet i _ => some i | .gKetPhys i => some i
  | .gBra i _ => some i | .gBraPhys i => some i
  | .gOp i _ => some i | .gOpOut i => some i | .gOpIn i => some i
  | _ => none

/-- labels of a list of leaf tensors -/
abbrev labelsOf (ls : List (LeafT R)) : List Leg := ls.flatMap (·.1)

/-- the tensors of one node carry pairwise distinct labels that all belong to this node -/
def NodeOK (nl : Nat → Option Nat → List Nat → List (LeafT R)) (e : Nat × Option Nat × List Nat) : Prop :=
  (labelsOf (nl e.1 e.2.1 e.2.2)).Nodup ∧ ∀ l ∈ labelsOf (nl e.1 e.2.1 e.2.2), legNode l = some e.1

mutual
theorem treeLeaves_labels (nl : Nat → Option Nat → List Nat → List (LeafT R)) :
    ∀ (t : Tree) (p : Option Nat), t.ids.Nodup → (∀ e ∈ Tree.info p t, NodeOK nl e) →
      (labelsOf (treeLeaves nl p t)).Nodup ∧ ∀ l ∈ labelsOf (treeLeaves nl p t), ∃ j ∈ t.ids, legNode l = some j
  | .node i ks, p, hnd, hok => by
    simp only [Tree.ids, List.nodup_cons] at hnd
    obtain ⟨h1, h2⟩ := hok (i, p, ks.map Tree.id) (by simp [Tree.info])
    obtain ⟨f1, f2⟩ := treeLeavesL_labels nl ks i hnd.2 (fun e he => hok e (by simp [Tree.info, he]))
    simp only [treeLeaves, labelsOf, List.flatMap_append]
    refine ⟨?_, ?_⟩
    · rw [List.nodup_append]
      refine ⟨h1, f1, ?_⟩
      intro x hx y hy hxy
      subst hxy
      obtain ⟨j, hj, hjl⟩ := f2 x hy
      have := h2 x hx
      rw [this] at hjl
      simp only [Option.some.injEq] at hjl
      exact hnd.1 (hjl ▸ hj)
    · intro l hl
      rcases List.mem_append.1 hl with hl | hl
      · exact ⟨i, by simp [Tree.ids], h2 l hl⟩
      · obtain ⟨j, hj, hjl⟩ := f2 l hl
        exact ⟨j, by simp [Tree.ids, hj], hjl⟩
theorem treeLeavesL_labels (nl : Nat → Option Nat → List Nat → List (LeafT R)) :
    ∀ (ts : List Tree) (i : Nat), (Tree.idsL ts).Nodup → (∀ e ∈ Tree.infoL i ts, NodeOK nl e) →
      (labelsOf (treeLeavesL nl i ts)).Nodup ∧
        ∀ l ∈ labelsOf (treeLeavesL nl i ts), ∃ j ∈ Tree.idsL ts, legNode l = some j
  | [], _, _, _ => by simp [treeLeavesL, labelsOf]
  | c :: cs, i, hnd, hok => by
    simp only [Tree.idsL, List.nodup_append] at hnd
    obtain ⟨h1, h2⟩ := treeLeaves_labels nl c (some i) hnd.1 (fun e he => hok e (by simp [Tree.infoL, he]))
    obtain ⟨f1, f2⟩ := treeLeavesL_labels nl cs i hnd.2.1 (fun e he => hok e (by simp [Tree.infoL, he]))
    simp only [treeLeavesL, labelsOf, List.flatMap_append]
    refine ⟨?_, ?_⟩
    · rw [List.nodup_append]
      refine ⟨h1, f1, ?_⟩
      intro x hx y hy hxy
      subst hxy
      obtain ⟨j, hj, hjl⟩ := h2 x hx
      obtain ⟨j', hj', hjl'⟩ := f2 x hy
      rw [hjl] at hjl'
      simp only [Option.some.injEq] at hjl'
      exact hnd.2.2 j hj j' hj' hjl'
    · intro l hl
      rcases List.mem_append.1 hl with hl | hl
      · obtain ⟨j, hj, hjl⟩ := h2 l hl
        exact ⟨j, by simp [Tree.idsL, hj], hjl⟩
      · obtain ⟨j, hj, hjl⟩ := f2 l hl
        exact ⟨j, by simp [Tree.idsL, hj], hjl⟩
end

mutual
/-- the tensors of every node of the tree are among the leaves -/
theorem nodeLeaves_sub (nl : Nat → Option Nat → List Nat → List (LeafT R)) :
    ∀ (t : Tree) (p : Option Nat) (e : Nat × Option Nat × List Nat), e ∈ Tree.info p t →
      ∀ lf ∈ nl e.1 e.2.1 e.2.2, lf ∈ treeLeaves nl p t
  | .node i ks, p, e, he, lf, hlf => by
    simp only [Tree.info, List.mem_cons] at he
    simp only [treeLeaves, List.mem_append]
    rcases he with rfl | he
    · exact Or.inl hlf
    · exact Or.inr (nodeLeavesL_sub nl ks i e he lf hlf)
theorem nodeLeavesL_sub (nl : Nat → Option Nat → List Nat → List (LeafT R)) :
    ∀ (ts : List Tree) (i : Nat) (e : Nat × Option Nat × List Nat), e ∈ Tree.infoL i ts →
      ∀ lf ∈ nl e.1 e.2.1 e.2.2, lf ∈ treeLeavesL nl i ts
  | [], _, e, he, _, _ => by simp [Tree.infoL] at he
  | c :: cs, i, e, he, lf, hlf => by
    simp only [Tree.infoL, List.mem_append] at he
    simp only [treeLeavesL, List.mem_append]
    rcases he with he | he
    · exact Or.inl (nodeLeaves_sub nl c (some i) e he lf hlf)
    · exact Or.inr (nodeLeavesL_sub nl cs i e he lf hlf)
end

mutual
/-- in a tree with distinct identifiers the neighbours of every node (parent, then children) are distinct -/
theorem info_nbrs_nodup : ∀ (t : Tree) (p : Option Nat), t.ids.Nodup → (∀ q, p = some q → q ∉ t.ids) →
    ∀ e ∈ Tree.info p t, (e.2.1.toList ++ e.2.2).Nodup
  | .node i ks, p, hnd, hp, e, he => by
    simp only [Tree.ids, List.nodup_cons] at hnd
    simp only [Tree.info, List.mem_cons] at he
    rcases he with rfl | he
    · have hkn : (ks.map Tree.id).Nodup := Tree.nodup_kid_ids ks hnd.2
      cases p with
      | none => simpa using hkn
      | some q =>
        have hq := hp q rfl
        simp only [Tree.ids, List.mem_cons, not_or] at hq
        have : q ∉ ks.map Tree.id := fun hm => hq.2 (Tree.kid_id_mem ks q hm)
        simp only [Option.toList_some, List.singleton_append, List.nodup_cons]
        exact ⟨this, hkn⟩
    · exact infoL_nbrs_nodup ks i hnd.2 hnd.1 e he
theorem infoL_nbrs_nodup : ∀ (ts : List Tree) (i : Nat), (Tree.idsL ts).Nodup → i ∉ Tree.idsL ts →
    ∀ e ∈ Tree.infoL i ts, (e.2.1.toList ++ e.2.2).Nodup
  | [], _, _, _, e, he => by simp [Tree.infoL] at he
  | c :: cs, i, hnd, hi, e, he => by
    simp only [Tree.idsL, List.nodup_append] at hnd
    simp only [Tree.idsL, List.mem_append, not_or] at hi
    simp only [Tree.infoL, List.mem_append] at he
    rcases he with he | he
    · exact info_nbrs_nodup c (some i) hnd.1 (fun q hq => by
        simp only [Option.some.injEq] at hq; subst hq; exact hi.1) e he
    · exact infoL_nbrs_nodup cs i hnd.2.1 hi.2 e he
end

mutual
/-- every leaf is a tensor of some node of the tree -/
theorem treeLeaves_sub (nl : Nat → Option Nat → List Nat → List (LeafT R)) :
    ∀ (t : Tree) (p : Option Nat), ∀ lf ∈ treeLeaves nl p t, ∃ e ∈ Tree.info p t, lf ∈ nl e.1 e.2.1 e.2.2
  | .node i ks, p, lf, hlf => by
    simp only [treeLeaves, List.mem_append] at hlf
    rcases hlf with h | h
    · exact ⟨(i, p, ks.map Tree.id), by simp [Tree.info], h⟩
    · obtain ⟨e, he, h'⟩ := treeLeavesL_sub nl ks i lf h
      exact ⟨e, by simp [Tree.info, he], h'⟩
theorem treeLeavesL_sub (nl : Nat → Option Nat → List Nat → List (LeafT R)) :
    ∀ (ts : List Tree) (i : Nat), ∀ lf ∈ treeLeavesL nl i ts, ∃ e ∈ Tree.infoL i ts, lf ∈ nl e.1 e.2.1 e.2.2
  | [], _, lf, hlf => by simp [treeLeavesL] at hlf
  | c :: cs, i, lf, hlf => by
    simp only [treeLeavesL, List.mem_append] at hlf
    rcases hlf with h | h
    · obtain ⟨e, he, h'⟩ := treeLeaves_sub nl c (some i) lf h
      exact ⟨e, by simp [Tree.infoL, he], h'⟩
    · obtain ⟨e, he, h'⟩ := treeLeavesL_sub nl cs i lf h
      exact ⟨e, by simp [Tree.infoL, he], h'⟩
end

mutual
/-- the leaves of two families of node tensors, node by node, are the leaves of the one and of the other -/
theorem treeLeaves_append (f g : Nat → Option Nat → List Nat → List (LeafT R)) :
    ∀ (t : Tree) (p : Option Nat),
      (treeLeaves (fun i p k => f i p k ++ g i p k) p t).Perm (treeLeaves f p t ++ treeLeaves g p t)
  | .node i ks, p => by
    have ih := treeLeavesL_append f g ks i
    simp only [treeLeaves]
    refine (List.Perm.append_left _ ih).trans ?_
    simp only [List.append_assoc]
    refine List.Perm.append_left _ ?_
    rw [← List.append_assoc, ← List.append_assoc]
    exact List.Perm.append_right _ List.perm_append_comm
theorem treeLeavesL_append (f g : Nat → Option Nat → List Nat → List (LeafT R)) :
    ∀ (ts : List Tree) (i : Nat),
      (treeLeavesL (fun i p k => f i p k ++ g i p k) i ts).Perm (treeLeavesL f i ts ++ treeLeavesL g i ts)
  | [], _ => by simp [treeLeavesL]
  | c :: cs, i => by
    have h1 := treeLeaves_append f g c (some i)
    have h2 := treeLeavesL_append f g cs i
    simp only [treeLeavesL]
    refine (List.Perm.append h1 h2).trans ?_
    simp only [List.append_assoc]
    refine List.Perm.append_left _ ?_
    rw [← List.append_assoc, ← List.append_assoc]
    exact List.Perm.append_right _ List.perm_append_comm
end

/-! ### one layer -/

/-- one layer of a tree of tensors: `vleg i n` is the virtual leg of node `i` toward its neighbour `n`, `legs` the
axis order of node `i`'s tensor, `val` its values; `rev`: the bond `parent — child` is recorded as
`(child leg, parent leg)` (as the code binds bra and operator bonds) instead of `(parent leg, child leg)` -/
structure Layer (R : Type) where
  vleg : Nat → Nat → Leg
  legs : Nat → Option Nat → List Nat → List Leg
  val : Nat → Asg Leg → R
  rev : Bool

/-- contract `a` (the part of the layer seen so far) with `b` (the next subtree) over the bond `(x, y)` -/
def joinE (rev : Bool) (a b : Expr Leg R) (x y : Leg) : Expr Leg R :=
  if rev then Expr.dot b a [(y, x)] else Expr.dot a b [(x, y)]

def Layer.edge (Λ : Layer R) (i c : Nat) : Leg × Leg :=
  if Λ.rev then (Λ.vleg c i, Λ.vleg i c) else (Λ.vleg i c, Λ.vleg c i)

def Layer.nodeLeaves (Λ : Layer R) (i : Nat) (p : Option Nat) (kids : List Nat) : List (LeafT R) :=
  [(Λ.legs i p kids, Λ.val i)]

mutual
/-- the layer contracted over its bonds: every node absorbs its subtrees child by child -/
def layExpr (Λ : Layer R) (p : Option Nat) : Tree → Expr Leg R
  | .node i ks => layKids Λ i ks (Expr.leaf (Λ.legs i p (ks.map Tree.id)) (Λ.val i))
def layKids (Λ : Layer R) (i : Nat) : List Tree → Expr Leg R → Expr Leg R
  | [], acc => acc
  | c :: cs, acc => layKids Λ i cs (joinE Λ.rev acc (layExpr Λ (some i) c) (Λ.vleg i c.id) (Λ.vleg c.id i))
end

section
variable [CommSemiring R]

theorem joinE_leaves (rev : Bool) (a b : Expr Leg R) (x y : Leg) :
    (joinE rev a b x y).leaves.Perm (a.leaves ++ b.leaves) := by
  cases rev
  · exact List.Perm.refl _
  · exact List.perm_append_comm

theorem joinE_binds (rev : Bool) (a b : Expr Leg R) (x y : Leg) :
    (joinE rev a b x y).binds.Perm ((if rev then (y, x) else (x, y)) :: (a.binds ++ b.binds)) := by
  cases rev
  · exact List.Perm.refl _
  · show ((y, x) :: (b.binds ++ a.binds)).Perm ((y, x) :: (a.binds ++ b.binds))
    exact List.Perm.cons _ List.perm_append_comm

theorem mem_free_joinE (rev : Bool) (a b : Expr Leg R) (x y l : Leg) :
    l ∈ (joinE rev a b x y).free ↔ (l ∈ a.free ∧ l ≠ x) ∨ (l ∈ b.free ∧ l ≠ y) := by
  cases rev <;> simp [joinE, Expr.free, or_comm]

theorem pairsOK_joinE (rev : Bool) (a b : Expr Leg R) (x y : Leg) (ha : a.PairsOK) (hb : b.PairsOK)
    (hx : x ∈ a.free) (hy : y ∈ b.free) : (joinE rev a b x y).PairsOK := by
  cases rev
  · exact ⟨ha, hb, by simp [hx, hy], by simp, by simp⟩
  · exact ⟨hb, ha, by simp [hx, hy], by simp, by simp⟩

mutual
theorem layExpr_leaves (Λ : Layer R) : ∀ (t : Tree) (p : Option Nat),
    (layExpr Λ p t).leaves.Perm (treeLeaves Λ.nodeLeaves p t)
  | .node i ks, p => by
    have := layKids_leaves Λ i ks (Expr.leaf (Λ.legs i p (ks.map Tree.id)) (Λ.val i))
    simpa [layExpr, treeLeaves, Layer.nodeLeaves, Expr.leaves] using this
theorem layKids_leaves (Λ : Layer R) (i : Nat) : ∀ (cs : List Tree) (acc : Expr Leg R),
    (layKids Λ i cs acc).leaves.Perm (acc.leaves ++ treeLeavesL Λ.nodeLeaves i cs)
  | [], acc => by simp [layKids, treeLeavesL]
  | c :: cs, acc => by
    have h1 := layKids_leaves Λ i cs (joinE Λ.rev acc (layExpr Λ (some i) c) (Λ.vleg i c.id) (Λ.vleg c.id i))
    have h2 := layExpr_leaves Λ c (some i)
    simp only [layKids, treeLeavesL]
    refine h1.trans ?_
    rw [← List.append_assoc]
    exact List.Perm.append_right _ ((joinE_leaves _ _ _ _ _).trans (List.Perm.append_left _ h2))
end

mutual
theorem layExpr_binds (Λ : Layer R) : ∀ (t : Tree) (p : Option Nat),
    (layExpr Λ p t).binds.Perm (t.edges.map fun e => Λ.edge e.1 e.2)
  | .node i ks, p => by
    have := layKids_binds Λ i ks (Expr.leaf (Λ.legs i p (ks.map Tree.id)) (Λ.val i))
    simpa [layExpr, Tree.edges, Expr.binds] using this
theorem layKids_binds (Λ : Layer R) (i : Nat) : ∀ (cs : List Tree) (acc : Expr Leg R),
    (layKids Λ i cs acc).binds.Perm (acc.binds ++ (Tree.edgesL i cs).map fun e => Λ.edge e.1 e.2)
  | [], acc => by simp [layKids, Tree.edgesL]
  | c :: cs, acc => by
    have h1 := layKids_binds Λ i cs (joinE Λ.rev acc (layExpr Λ (some i) c) (Λ.vleg i c.id) (Λ.vleg c.id i))
    have h2 := layExpr_binds Λ c (some i)
    simp only [layKids, Tree.edgesL, List.map_cons, List.map_append]
    refine h1.trans ?_
    have h3 := (joinE_binds Λ.rev acc (layExpr Λ (some i) c) (Λ.vleg i c.id) (Λ.vleg c.id i)).trans
      (List.Perm.cons _ (List.Perm.append_left _ h2))
    refine (List.Perm.append_right _ h3).trans ?_
    have he : (if Λ.rev = true then (Λ.vleg c.id i, Λ.vleg i c.id) else (Λ.vleg i c.id, Λ.vleg c.id i)) = Λ.edge i c.id := rfl
    rw [he]
    simp only [List.cons_append, List.append_assoc]
    exact List.perm_middle.symm
end

/-- a leg of the part seen so far that is not the leg toward one of the remaining children stays free -/
theorem layKids_free_acc (Λ : Layer R) (i : Nat) (l : Leg) : ∀ (cs : List Tree) (acc : Expr Leg R),
    l ∈ acc.free → (∀ c ∈ cs, l ≠ Λ.vleg i c.id) → l ∈ (layKids Λ i cs acc).free
  | [], _, h, _ => h
  | c :: cs, acc, h, hne => by
    simp only [layKids]
    apply layKids_free_acc Λ i l cs _ _ (fun c' hc' => hne c' (by simp [hc']))
    rw [mem_free_joinE]
    exact Or.inl ⟨h, hne c (by simp)⟩

/-- a free leg of a child's subtree other than the bond leg stays free -/
theorem layKids_free_sub (Λ : Layer R) (i : Nat) (l : Leg) : ∀ (cs : List Tree) (acc : Expr Leg R) (c : Tree),
    c ∈ cs → l ∈ (layExpr Λ (some i) c).free → l ≠ Λ.vleg c.id i → (∀ c' ∈ cs, l ≠ Λ.vleg i c'.id) →
    l ∈ (layKids Λ i cs acc).free
  | [], _, _, hc, _, _, _ => by simp at hc
  | c0 :: cs, acc, c, hc, hl, hne, hne' => by
    simp only [layKids]
    rcases List.mem_cons.1 hc with h | hc
    · apply layKids_free_acc Λ i l cs _ _ (fun c' hc' => hne' c' (by simp [hc']))
      rw [mem_free_joinE]
      exact Or.inr ⟨h ▸ hl, h ▸ hne⟩
    · exact layKids_free_sub Λ i l cs _ c hc hl hne (fun c' hc' => hne' c' (by simp [hc']))

mutual
/-- a label that is not a virtual leg of the layer (a physical leg) stays free -/
theorem layExpr_free_phys (Λ : Layer R) (l : Leg) (hl : ∀ a b, l ≠ Λ.vleg a b) : ∀ (t : Tree) (p : Option Nat),
    l ∈ labelsOf (treeLeaves Λ.nodeLeaves p t) → l ∈ (layExpr Λ p t).free
  | .node i ks, p, h => by
    simp only [treeLeaves, labelsOf, List.flatMap_append, List.mem_append] at h
    simp only [layExpr]
    rcases h with h | h
    · apply layKids_free_acc Λ i l ks _ _ (fun c _ => hl _ _)
      simpa [Layer.nodeLeaves, Expr.free] using h
    · obtain ⟨c, hc, hcl⟩ := layExprL_free_phys Λ l hl ks i h
      exact layKids_free_sub Λ i l ks _ c hc hcl (hl _ _) (fun c' _ => hl _ _)
theorem layExprL_free_phys (Λ : Layer R) (l : Leg) (hl : ∀ a b, l ≠ Λ.vleg a b) : ∀ (ts : List Tree) (i : Nat),
    l ∈ labelsOf (treeLeavesL Λ.nodeLeaves i ts) → ∃ c ∈ ts, l ∈ (layExpr Λ (some i) c).free
  | [], _, h => by simp [treeLeavesL, labelsOf] at h
  | c :: cs, i, h => by
    simp only [treeLeavesL, labelsOf, List.flatMap_append, List.mem_append] at h
    rcases h with h | h
    · exact ⟨c, by simp, layExpr_free_phys Λ l hl c (some i) h⟩
    · obtain ⟨c', hc', h'⟩ := layExprL_free_phys Λ l hl cs i h
      exact ⟨c', by simp [hc'], h'⟩
end

/-- virtual legs are determined by (node, neighbour) -/
def Layer.Inj (Λ : Layer R) : Prop := ∀ a b a' b', Λ.vleg a b = Λ.vleg a' b' → a = a' ∧ b = b'

/-- the tensor of the node `e` has the virtual legs toward its parent and its children -/
def Layer.Has (Λ : Layer R) (e : Nat × Option Nat × List Nat) : Prop :=
  ∀ n ∈ e.2.1.toList ++ e.2.2, Λ.vleg e.1 n ∈ Λ.legs e.1 e.2.1 e.2.2

mutual
theorem layExpr_pairsOK (Λ : Layer R) (hs : Λ.Inj) : ∀ (t : Tree) (p : Option Nat), t.ids.Nodup →
    (∀ q, p = some q → q ∉ t.ids) → (∀ e ∈ Tree.info p t, Λ.Has e) → (layExpr Λ p t).PairsOK
  | .node i ks, p, hnd, hp, hh => by
    simp only [Tree.ids, List.nodup_cons] at hnd
    simp only [layExpr]
    apply layKids_pairsOK Λ hs i ks (Expr.leaf (Λ.legs i p (ks.map Tree.id)) (Λ.val i)) hnd.2 hnd.1
      (fun e he => hh e (by simp [Tree.info, he])) (by simp [Expr.PairsOK])
    intro c hc
    simp only [Expr.free]
    exact hh (i, p, ks.map Tree.id) (by simp [Tree.info]) _ (by simp [List.mem_map]; exact Or.inr ⟨c, hc, rfl⟩)
theorem layKids_pairsOK (Λ : Layer R) (hs : Λ.Inj) (i : Nat) : ∀ (cs : List Tree) (acc : Expr Leg R),
    (Tree.idsL cs).Nodup → i ∉ Tree.idsL cs → (∀ e ∈ Tree.infoL i cs, Λ.Has e) → acc.PairsOK →
    (∀ c ∈ cs, Λ.vleg i c.id ∈ acc.free) → (layKids Λ i cs acc).PairsOK
  | [], _, _, _, _, h, _ => h
  | c :: cs, acc, hnd, hi, hh, hacc, hfree => by
    simp only [Tree.idsL, List.nodup_append] at hnd
    simp only [Tree.idsL, List.mem_append, not_or] at hi
    simp only [layKids]
    have hsub := layExpr_pairsOK Λ hs c (some i) hnd.1 (fun q hq => by
      simp only [Option.some.injEq] at hq; subst hq; exact hi.1) (fun e he => hh e (by simp [Tree.infoL, he]))
    have hy : Λ.vleg c.id i ∈ (layExpr Λ (some i) c).free := by
      obtain ⟨j, ks⟩ := c
      simp only [layExpr, Tree.id]
      apply layKids_free_acc Λ j _ ks
      · simp only [Expr.free]
        exact hh (j, some i, ks.map Tree.id) (by simp [Tree.infoL, Tree.info]) _ (by simp)
      · intro c' hc' e
        have := (hs _ _ _ _ e).2
        have hm : c'.id ∈ Tree.idsL ks := Tree.kid_id_mem ks _ (List.mem_map.2 ⟨c', hc', rfl⟩)
        exact hi.1 (by simp [Tree.ids, this ▸ hm])
    apply layKids_pairsOK Λ hs i cs _ hnd.2.1 hi.2 (fun e he => hh e (by simp [Tree.infoL, he]))
      (pairsOK_joinE _ _ _ _ _ hacc hsub (hfree c (by simp)) hy)
    intro c' hc'
    rw [mem_free_joinE]
    refine Or.inl ⟨hfree c' (by simp [hc']), fun e => ?_⟩
    have := (hs _ _ _ _ e).2
    exact hnd.2.2 _ (Tree.id_mem_ids c) _ (Tree.kid_id_mem cs _ (List.mem_map.2 ⟨c', hc', rfl⟩)) this.symm
end


/-- **The canonical contraction of a layer is strongly well-formed.** -/
theorem layExpr_swf (Λ : Layer R) (hs : Λ.Inj) (t : Tree) (p : Option Nat) (hnd : t.ids.Nodup)
    (hp : ∀ q, p = some q → q ∉ t.ids) (hh : ∀ e ∈ Tree.info p t, Λ.Has e)
    (hok : ∀ e ∈ Tree.info p t, NodeOK Λ.nodeLeaves e)
    (hloc : ∀ e ∈ Tree.info p t, DependsOn (· ∈ Λ.legs e.1 e.2.1 e.2.2) (Λ.val e.1)) :
    (layExpr Λ p t).SWF := by
  apply Expr.swf_of_clean _ _ _ (layExpr_pairsOK Λ hs t p hnd hp hh)
  · rw [Expr.labels_eq_leaves]
    exact ((layExpr_leaves Λ t p).flatMap_right _).nodup_iff.2 (treeLeaves_labels _ t p hnd hok).1
  · intro lf hlf
    obtain ⟨e, he, h⟩ := treeLeaves_sub _ t p lf ((layExpr_leaves Λ t p).mem_iff.1 hlf)
    simp only [Layer.nodeLeaves, List.mem_singleton] at h
    subst h
    exact hloc e he

end

end Ptn.C04
