import Ptn.Common.EinsumNet
import Ptn.C04.Core
import Ptn.C04.Layer
/-! Value level for C04: what the binding records proved in `Core.lean` EVALUATE to.

`contract_two_ttns_graph` shows that the loop of `contract_two_ttns` binds exactly the specification graph
`ssSpec t`.  Here that record is given its value (`Ptn/Common/Einsum*.lean`): every strongly well-formed
contraction program over the node tensors of the two networks whose binding record is the one the loop
produces evaluates — over every commutative semiring, for all bond and physical dimensions — to
`Σ_phys ψ_ket(phys) · ψ_bra(phys)`, the sum over one common index per physical pair of the product of the
two dense state vectors (each the contraction of its own network over its own bonds). -/
namespace Ptn.C04

open Ptn.Ein

def isPhysPair : Leg × Leg → Bool
  | (Leg.gKetPhys _, Leg.gBraPhys _) => true
  | _ => false

def isKetEdge : Leg × Leg → Bool
  | (Leg.gKet _ _, Leg.gKet _ _) => true
  | _ => false

def isBraEdge : Leg × Leg → Bool
  | (Leg.gBra _ _, Leg.gBra _ _) => true
  | _ => false

/-- the physical pairs / ket bonds / bra bonds of the specification graph -/
def physPairs (t : Tree) : List (Leg × Leg) := (ssSpec t).filter isPhysPair
def ketBonds (t : Tree) : List (Leg × Leg) := (ssSpec t).filter isKetEdge
def braBonds (t : Tree) : List (Leg × Leg) := (ssSpec t).filter isBraEdge

theorem mem_physPairs (t : Tree) (x : Leg × Leg) : x ∈ physPairs t ↔ ∃ n ∈ t.ids, x = physPair n := by
  simp only [physPairs, List.mem_filter, ss_spec_graph]
  constructor
  · rintro ⟨h | ⟨e, _, rfl | rfl⟩, hp⟩
    · exact h
    · simp [ketEdge, isPhysPair] at hp
    · simp [braEdge, isPhysPair] at hp
  · rintro ⟨n, hn, rfl⟩
    exact ⟨Or.inl ⟨n, hn, rfl⟩, by simp [physPair, isPhysPair]⟩

theorem mem_ketBonds (t : Tree) (x : Leg × Leg) : x ∈ ketBonds t ↔ ∃ e ∈ t.edges, x = ketEdge e.1 e.2 := by
  simp only [ketBonds, List.mem_filter, ss_spec_graph]
  constructor
  · rintro ⟨⟨n, _, rfl⟩ | ⟨e, he, rfl | rfl⟩, hp⟩
    · simp [physPair, isKetEdge] at hp
    · exact ⟨e, he, rfl⟩
    · simp [braEdge, isKetEdge] at hp
  · rintro ⟨e, he, rfl⟩
    exact ⟨Or.inr ⟨e, he, Or.inl rfl⟩, by simp [ketEdge, isKetEdge]⟩

theorem mem_braBonds (t : Tree) (x : Leg × Leg) : x ∈ braBonds t ↔ ∃ e ∈ t.edges, x = braEdge e.1 e.2 := by
  simp only [braBonds, List.mem_filter, ss_spec_graph]
  constructor
  · rintro ⟨⟨n, _, rfl⟩ | ⟨e, he, rfl | rfl⟩, hp⟩
    · simp [physPair, isBraEdge] at hp
    · simp [ketEdge, isBraEdge] at hp
    · exact ⟨e, he, rfl⟩
  · rintro ⟨e, he, rfl⟩
    exact ⟨Or.inr ⟨e, he, Or.inr rfl⟩, by simp [braEdge, isBraEdge]⟩

/-- the specification graph splits into physical pairs, ket bonds and bra bonds -/
theorem ssSpec_split (t : Tree) : (ssSpec t).Perm (physPairs t ++ (ketBonds t ++ braBonds t)) := by
  have h1 := (List.filter_append_perm isPhysPair (ssSpec t)).symm
  refine h1.trans (List.Perm.append_left _ ?_)
  have h2 := (List.filter_append_perm isKetEdge ((ssSpec t).filter (fun x => !isPhysPair x))).symm
  refine h2.trans ?_
  have e1 : ((ssSpec t).filter (fun x => !isPhysPair x)).filter isKetEdge = ketBonds t := by
    rw [List.filter_filter, ketBonds]
    apply List.filter_congr
    intro x _
    rcases x with ⟨a, b⟩
    cases a <;> cases b <;> simp [isKetEdge, isPhysPair]
  have e2 : ((ssSpec t).filter (fun x => !isPhysPair x)).filter (fun x => !isKetEdge x) = braBonds t := by
    rw [List.filter_filter, braBonds]
    apply List.filter_congr
    intro x hx
    rcases (ss_spec_graph t x).1 hx with ⟨n, _, rfl⟩ | ⟨e, _, rfl | rfl⟩ <;>
      simp [physPair, ketEdge, braEdge, isKetEdge, isPhysPair, isBraEdge]
  rw [e1, e2]

/-- **`contract_two_ttns` computes the dense inner product (value level).**  For every tree with distinct
identifiers and every child order of the bra network the loop returns a closed tensor with some binding
record `binds` (that is `contract_two_ttns_graph`), and for every commutative semiring of scalars, all
dimensions, every strongly well-formed contraction program `e` over the node tensors with that record —
in particular the sequence of `tensordot` calls the loop performs — and ANY strongly well-formed
contractions `K`, `B` of the ket tensors over the ket bonds and of the bra tensors over the bra bonds
(the two dense state vectors, in any contraction order): `e` evaluates to the sum over one common index
per physical pair of `K · B`. -/
theorem scalar_product_value {R : Type} [CommSemiring R] (t : Tree) (hnd : t.ids.Nodup)
    (braKids : Nat → List Nat) (hperm : ∀ e ∈ Tree.info none t, (braKids e.1).Perm e.2.2) :
    ∃ binds, contractTwoTtns (netOf t (fun _ ks => ks) gKetT) (netOf t (fun i _ => braKids i) gBraT)
        = some ⟨[], binds⟩ ∧
      ∀ (dim : Leg → Nat) (e K B : Expr Leg R), e.SWF → K.SWF → B.SWF →
        (∀ l ∈ K.labels, l ∉ B.labels) →
        e.binds.Perm binds → K.binds.Perm (ketBonds t) → B.binds.Perm (braBonds t) →
        (∀ p ∈ physPairs t, p.1 ∈ K.free ∧ p.2 ∈ B.free) →
        (∀ σ, e.leafProd σ = K.leafProd σ * B.leafProd σ) →
        ∀ σ, e.eval dim σ = sumPairs dim (physPairs t) (fun τ => K.eval dim τ * B.eval dim τ) σ := by
  obtain ⟨binds, hrun, hb⟩ := contract_two_ttns_graph t hnd braKids hperm
  refine ⟨binds, hrun, ?_⟩
  intro dim e K B he hK hB hdis heb hKb hBb hfree hleaf σ
  apply Expr.inner_of_record dim e K B he hK hB hdis (physPairs t) hfree _ hleaf σ
  refine heb.trans (hb.trans ((ssSpec_split t).trans ?_))
  exact List.Perm.append_left _ (List.Perm.append hKb.symm hBb.symm)

/-! ## Provenance: the loop itself is such a program (`Built.lean`, `BuiltFns.lean`, `BuiltTree.lean`, `Layer.lean`) -/

section provenance
set_option linter.unusedSectionVars false
variable {R : Type} [CommSemiring R]

/-- the ket layer: virtual legs `gKet i n`, axis order of `gKetT`, bonds recorded `(parent leg, child leg)` -/
def ketLayer (kv : Nat → Asg Leg → R) : Layer R :=
  ⟨Leg.gKet, fun i p kids => (gKetT i ⟨p, kids⟩).legs, kv, false⟩
/-- the bra layer: axis order of `gBraT` with the bra's own child order, bonds recorded `(child leg, parent leg)` -/
def braLayer (bv : Nat → Asg Leg → R) (braKids : Nat → List Nat) : Layer R :=
  ⟨Leg.gBra, fun i p _ => (gBraT i ⟨p, braKids i⟩).legs, bv, true⟩

/-- **the dense ket vector**: the ket network contracted over its bonds, every node absorbing its subtrees child
by child -/
def ketExpr (kv : Nat → Asg Leg → R) (t : Tree) : Expr Leg R := layExpr (ketLayer kv) none t
/-- **the dense bra vector** -/
def braExpr (bv : Nat → Asg Leg → R) (braKids : Nat → List Nat) (t : Tree) : Expr Leg R :=
  layExpr (braLayer bv braKids) none t

mutual
theorem filter_ket_ssSpec : ∀ t : Tree, (ssSpec t).filter isKetEdge = t.edges.map fun e => ketEdge e.1 e.2
  | .node i ks => by
    simp only [ssSpec, Tree.edges, List.filter_cons]
    simpa [physPair, isKetEdge] using filter_ket_ssSpecL i ks
theorem filter_ket_ssSpecL (i : Nat) : ∀ ts : List Tree,
    (ssSpecL i ts).filter isKetEdge = (Tree.edgesL i ts).map fun e => ketEdge e.1 e.2
  | [] => rfl
  | c :: cs => by
    simp only [ssSpecL, Tree.edgesL, List.filter_cons, List.filter_append, List.map_cons, List.map_append,
      filter_ket_ssSpec c, filter_ket_ssSpecL i cs]
    simp [ketEdge, braEdge, isKetEdge]
end

mutual
theorem filter_bra_ssSpec : ∀ t : Tree, (ssSpec t).filter isBraEdge = t.edges.map fun e => braEdge e.1 e.2
  | .node i ks => by
    simp only [ssSpec, Tree.edges, List.filter_cons]
    simpa [physPair, isBraEdge] using filter_bra_ssSpecL i ks
theorem filter_bra_ssSpecL (i : Nat) : ∀ ts : List Tree,
    (ssSpecL i ts).filter isBraEdge = (Tree.edgesL i ts).map fun e => braEdge e.1 e.2
  | [] => rfl
  | c :: cs => by
    simp only [ssSpecL, Tree.edgesL, List.filter_cons, List.filter_append, List.map_cons, List.map_append,
      filter_bra_ssSpec c, filter_bra_ssSpecL i cs]
    simp [ketEdge, braEdge, isBraEdge]
end

theorem ssNodeLeaves_eq (kv bv : Nat → Asg Leg → R) (braKids : Nat → List Nat) :
    ssNodeLeaves braKids kv bv =
      fun i p k => (ketLayer kv).nodeLeaves i p k ++ (braLayer bv braKids).nodeLeaves i p k := rfl

theorem ketLayer_inj (kv : Nat → Asg Leg → R) : (ketLayer kv).Inj := by
  intro a b a' b' h
  simp only [ketLayer] at h
  injection h with h1 h2
  exact ⟨h1, h2⟩

theorem braLayer_inj (bv : Nat → Asg Leg → R) (braKids : Nat → List Nat) : (braLayer bv braKids).Inj := by
  intro a b a' b' h
  simp only [braLayer] at h
  injection h with h1 h2
  exact ⟨h1, h2⟩

/-- the hypotheses on the node tensors: each reads only its own legs -/
def KetLocal (kv : Nat → Asg Leg → R) (t : Tree) : Prop :=
  ∀ e ∈ Tree.info none t, DependsOn (· ∈ (gKetT e.1 ⟨e.2.1, e.2.2⟩).legs) (kv e.1)
def BraLocal (bv : Nat → Asg Leg → R) (braKids : Nat → List Nat) (t : Tree) : Prop :=
  ∀ e ∈ Tree.info none t, DependsOn (· ∈ (gBraT e.1 ⟨e.2.1, braKids e.1⟩).legs) (bv e.1)

theorem ss_nodeOK (kv bv : Nat → Asg Leg → R) (braKids : Nat → List Nat) (e : Nat × Option Nat × List Nat)
    (hn : (e.2.1.toList ++ e.2.2).Nodup) (hp : (braKids e.1).Perm e.2.2) :
    NodeOK (ssNodeLeaves braKids kv bv) e := by
  obtain ⟨i, p, kids⟩ := e
  simp only at hn hp
  have hn' : (p.toList ++ braKids i).Nodup := (List.Perm.append_left _ hp).nodup_iff.2 hn
  constructor
  · simp only [labelsOf, ssNodeLeaves, gKetT, gBraT, T.fresh, Node.nbrs, List.flatMap_cons, List.flatMap_nil,
      List.append_nil]
    rw [List.nodup_append]
    refine ⟨?_, ?_, ?_⟩
    · rw [List.nodup_append]
      refine ⟨?_, by simp, by
        intro x hx y hy hxy; simp only [List.mem_singleton] at hy; subst hy; subst hxy; simp at hx⟩
      exact nodup_map_of_inj_on _ _ hn (fun x _ y _ h => by injection h)
    · rw [List.nodup_append]
      refine ⟨?_, by simp, by
        intro x hx y hy hxy; simp only [List.mem_singleton] at hy; subst hy; subst hxy; simp at hx⟩
      exact nodup_map_of_inj_on _ _ hn' (fun x _ y _ h => by injection h)
    · intro x hx y hy hxy
      subst hxy
      simp only [List.mem_append, List.mem_map, List.mem_singleton] at hx hy
      rcases hx with ⟨_, _, rfl⟩ | rfl <;> rcases hy with ⟨_, _, h⟩ | h <;> simp at h
  · intro l hl
    simp only [labelsOf, ssNodeLeaves, gKetT, gBraT, T.fresh, Node.nbrs, List.flatMap_cons, List.flatMap_nil,
      List.append_nil, List.mem_append, List.mem_map, List.mem_singleton] at hl
    rcases hl with (⟨_, _, rfl⟩ | rfl) | (⟨_, _, rfl⟩ | rfl) <;> rfl

theorem nodeOK_left {f g : Nat → Option Nat → List Nat → List (LeafT R)} {e : Nat × Option Nat × List Nat}
    (h : NodeOK (fun i p k => f i p k ++ g i p k) e) : NodeOK f e := by
  obtain ⟨h1, h2⟩ := h
  simp only [labelsOf, List.flatMap_append] at h1 h2
  exact ⟨(List.nodup_append.1 h1).1, fun l hl => h2 l (List.mem_append.2 (Or.inl hl))⟩

theorem nodeOK_right {f g : Nat → Option Nat → List Nat → List (LeafT R)} {e : Nat × Option Nat × List Nat}
    (h : NodeOK (fun i p k => f i p k ++ g i p k) e) : NodeOK g e := by
  obtain ⟨h1, h2⟩ := h
  simp only [labelsOf, List.flatMap_append] at h1 h2
  exact ⟨(List.nodup_append.1 h1).2.1, fun l hl => h2 l (List.mem_append.2 (Or.inr hl))⟩

/-- **`contract_two_ttns` computes the dense inner product — unconditionally.**  For every tree with distinct
identifiers, every child order of the bra network, every commutative semiring, all dimensions and ALL values of
the node tensors (each reading only its own legs):

* the loop returns a closed tensor `⟨[], binds⟩`;
* that tensor is BUILT, by the `tensordot` calls the loop performs (`Built`, one lemma per function of the
  model), from an expression `e` whose leaves are exactly the ket and bra tensors of all nodes;
* EVERY expression `e` from which the result is built over these leaves is strongly well-formed, has the
  record `binds`, and evaluates to `Σ_phys K · B`, the sum over one common index per physical pair of the
  product of the dense ket vector `ketExpr` and the dense bra vector `braExpr` (each network contracted over its
  own bonds, child by child).

So the number the loop's own sequence of `tensordot` calls computes IS the dense inner product. -/
theorem contract_two_ttns_value (t : Tree) (hnd : t.ids.Nodup)
    (braKids : Nat → List Nat) (hperm : ∀ e ∈ Tree.info none t, (braKids e.1).Perm e.2.2)
    (kv bv : Nat → Asg Leg → R) (hkv : KetLocal kv t) (hbv : BraLocal bv braKids t) :
    ∃ binds, contractTwoTtns (netOf t (fun _ ks => ks) gKetT) (netOf t (fun i _ => braKids i) gBraT)
        = some ⟨[], binds⟩ ∧
      (∃ e : Expr Leg R, Built ⟨[], binds⟩ e ∧ e.leaves.Perm (ssLeaves braKids kv bv none t)) ∧
      ∀ e : Expr Leg R, Built ⟨[], binds⟩ e → e.leaves.Perm (ssLeaves braKids kv bv none t) →
        e.SWF ∧ e.binds.Perm binds ∧ e.free = [] ∧
        ∀ (dim : Leg → Nat) (σ : Asg Leg), e.eval dim σ =
          sumPairs dim (physPairs t)
            (fun τ => (ketExpr kv t).eval dim τ * (braExpr bv braKids t).eval dim τ) σ := by
  refine ⟨_, contractTwoTtns_eq t hnd braKids hperm, contractTwoTtns_built kv bv t hnd braKids hperm, ?_⟩
  intro e hbuilt hleaves
  have hnone : ∀ q, (none : Option Nat) = some q → q ∉ t.ids := fun q hq => by simp at hq
  have hnb := info_nbrs_nodup t none hnd hnone
  have hok : ∀ e ∈ Tree.info none t, NodeOK (ssNodeLeaves braKids kv bv) e :=
    fun e he => ss_nodeOK kv bv braKids e (hnb e he) (hperm e he)
  have hlab := treeLeaves_labels (ssNodeLeaves braKids kv bv) t none hnd hok
  -- the built expression
  have hend : e.labels.Nodup := by
    rw [Expr.labels_eq_leaves]
    exact (hleaves.flatMap_right _).nodup_iff.2 hlab.1
  have hloc : e.LeavesLocal := by
    intro lf hlf
    obtain ⟨x, hx, h⟩ := treeLeaves_sub _ t none lf (hleaves.mem_iff.1 hlf)
    simp only [ssNodeLeaves, List.mem_cons, List.not_mem_nil, or_false] at h
    rcases h with rfl | rfl
    · exact hkv x hx
    · exact hbv x hx
  have hswf := hbuilt.swf hend hloc
  obtain ⟨hbinds, hlegs, _⟩ := hbuilt.sound hend
  have hfree : e.free = [] := List.Perm.eq_nil (hlegs.symm)
  refine ⟨hswf, hbinds.symm, hfree, ?_⟩
  -- the two dense vectors
  have hokK : ∀ e ∈ Tree.info none t, NodeOK (ketLayer kv).nodeLeaves e := fun e he =>
    nodeOK_left (f := (ketLayer kv).nodeLeaves) (g := (braLayer bv braKids).nodeLeaves) (hok e he)
  have hokB : ∀ e ∈ Tree.info none t, NodeOK (braLayer bv braKids).nodeLeaves e := fun e he =>
    nodeOK_right (f := (ketLayer kv).nodeLeaves) (g := (braLayer bv braKids).nodeLeaves) (hok e he)
  have hK : (ketExpr kv t).SWF := layExpr_swf (ketLayer kv) (ketLayer_inj kv) t none hnd hnone
    (fun e _ n hn => by
      simp only [ketLayer, gKetT, T.fresh, Node.nbrs, List.mem_append, List.mem_map]
      exact Or.inl ⟨n, List.mem_append.1 hn, rfl⟩)
    hokK hkv
  have hB : (braExpr bv braKids t).SWF := layExpr_swf (braLayer bv braKids) (braLayer_inj bv braKids) t none hnd hnone
    (fun e he n hn => by
      simp only [braLayer, gBraT, T.fresh, Node.nbrs, List.mem_append, List.mem_map]
      refine Or.inl ⟨n, ?_, rfl⟩
      rcases List.mem_append.1 hn with h | h
      · exact Or.inl h
      · exact Or.inr ((hperm e he).mem_iff.2 h))
    hokB hbv
  have hLK := layExpr_leaves (ketLayer kv) t none
  have hLB := layExpr_leaves (braLayer bv braKids) t none
  have hsplit : (ssLeaves braKids kv bv none t).Perm ((ketExpr kv t).leaves ++ (braExpr bv braKids t).leaves) := by
    have := treeLeaves_append (ketLayer kv).nodeLeaves (braLayer bv braKids).nodeLeaves t none
    exact this.trans (List.Perm.append hLK.symm hLB.symm)
  have hdis : ∀ l ∈ (ketExpr kv t).labels, l ∉ (braExpr bv braKids t).labels := by
    have h1 : (labelsOf ((ketExpr kv t).leaves ++ (braExpr bv braKids t).leaves)).Nodup :=
      (hsplit.flatMap_right _).nodup_iff.1 hlab.1
    simp only [labelsOf, List.flatMap_append] at h1
    rw [← Expr.labels_eq_leaves, ← Expr.labels_eq_leaves] at h1
    intro l hl hl'
    exact (List.nodup_append.1 h1).2.2 l hl l hl' rfl
  have hfreeP : ∀ p ∈ physPairs t, p.1 ∈ (ketExpr kv t).free ∧ p.2 ∈ (braExpr bv braKids t).free := by
    intro p hp
    obtain ⟨n, hn, rfl⟩ := (mem_physPairs t p).1 hp
    rw [← Tree.info_keys none t] at hn
    obtain ⟨x, hx, rfl⟩ := List.mem_map.1 hn
    constructor
    · apply layExpr_free_phys (ketLayer kv) _ (fun a b => by simp [physPair, ketLayer]) t none
      simp only [labelsOf, List.mem_flatMap]
      exact ⟨_, nodeLeaves_sub _ t none x hx _ (List.mem_singleton.2 rfl), by simp [ketLayer, gKetT, T.fresh, physPair]⟩
    · apply layExpr_free_phys (braLayer bv braKids) _ (fun a b => by simp [physPair, braLayer]) t none
      simp only [labelsOf, List.mem_flatMap]
      exact ⟨_, nodeLeaves_sub _ t none x hx _ (List.mem_singleton.2 rfl), by simp [braLayer, gBraT, T.fresh, physPair]⟩
  have hKb : (ketExpr kv t).binds.Perm (ketBonds t) := by
    rw [ketBonds, filter_ket_ssSpec]
    have := layExpr_binds (ketLayer kv) t none
    simpa [Layer.edge, ketLayer, ketEdge, ketExpr] using this
  have hBb : (braExpr bv braKids t).binds.Perm (braBonds t) := by
    rw [braBonds, filter_bra_ssSpec]
    have := layExpr_binds (braLayer bv braKids) t none
    simpa [Layer.edge, braLayer, braEdge, braExpr] using this
  have hrec : e.binds.Perm (physPairs t ++ ((ketExpr kv t).binds ++ (braExpr bv braKids t).binds)) := by
    have hb := ssRootBinds_perm t (braKids t.id) (by
      have := hperm (t.id, none, t.kids.map Tree.id) (by cases t; simp [Tree.info, Tree.id, Tree.kids])
      simpa using this)
    refine hbinds.symm.trans (hb.trans ((ssSpec_split t).trans ?_))
    exact List.Perm.append_left _ (List.Perm.append hKb.symm hBb.symm)
  intro dim σ
  apply Expr.inner_of_record dim e _ _ hswf hK hB hdis (physPairs t) hfreeP hrec _ σ
  intro τ
  rw [Expr.leafProd_of_leaves e _ (hleaves.trans hsplit) τ, List.map_append, prodL_append]
  rfl

end provenance

end Ptn.C04
