import Ptn.Common.EinsumNet
import Ptn.C04.Core
/-! Value level for C04: what the binding records proved in `Core.lean` EVALUATE to.

`contract_two_ttns_graph` shows that the loop of `contract_two_ttns` binds exactly the specification graph
`ssSpec t`.  Here that record is given its value (`Ptn/Common/Einsum*.lean`): every strongly well-formed
contraction program over the node tensors of the two networks whose binding record is the one the loop
produces evaluates — over every commutative semiring, for all bond and physical dimensions — to
`Σ_phys ψ_ket(phys) · ψ_bra(phys)`, the sum over one common index per physical pair of the product of the
two dense state vectors (each the contraction of its own network over its own bonds). -/
namespace Ptn.C04

open Ptn.Ein

def isPhysPair : Leg × Leg → Bool
  | (Leg.gKetPhys _, Leg.gBraPhys _) => true
  | _ => false

def isKetEdge : Leg × Leg → Bool
  | (Leg.gKet _ _, Leg.gKet _ _) => true
  | _ => false

def isBraEdge : Leg × Leg → Bool
  | (Leg.gBra _ _, Leg.gBra _ _) => true
  | _ => false

/-- the physical pairs / ket bonds / bra bonds of the specification graph -/
def physPairs (t : Tree) : List (Leg × Leg) := (ssSpec t).filter isPhysPair
def ketBonds (t : Tree) : List (Leg × Leg) := (ssSpec t).filter isKetEdge
def braBonds (t : Tree) : List (Leg × Leg) := (ssSpec t).filter isBraEdge

theorem mem_physPairs (t : Tree) (x : Leg × Leg) : x ∈ physPairs t ↔ ∃ n ∈ t.ids, x = physPair n := by
  simp only [physPairs, List.mem_filter, ss_spec_graph]
  constructor
  · rintro ⟨h | ⟨e, _, rfl | rfl⟩, hp⟩
    · exact h
    · simp [ketEdge, isPhysPair] at hp
    · simp [braEdge, isPhysPair] at hp
  · rintro ⟨n, hn, rfl⟩
    exact ⟨Or.inl ⟨n, hn, rfl⟩, by simp [physPair, isPhysPair]⟩

theorem mem_ketBonds (t : Tree) (x : Leg × Leg) : x ∈ ketBonds t ↔ ∃ e ∈ t.edges, x = ketEdge e.1 e.2 := by
  simp only [ketBonds, List.mem_filter, ss_spec_graph]
  constructor
  · rintro ⟨⟨n, _, rfl⟩ | ⟨e, he, rfl | rfl⟩, hp⟩
    · simp [physPair, isKetEdge] at hp
    · exact ⟨e, he, rfl⟩
    · simp [braEdge, isKetEdge] at hp
  · rintro ⟨e, he, rfl⟩
    exact ⟨Or.inr ⟨e, he, Or.inl rfl⟩, by simp [ketEdge, isKetEdge]⟩

theorem mem_braBonds (t : Tree) (x : Leg × Leg) : x ∈ braBonds t ↔ ∃ e ∈ t.edges, x = braEdge e.1 e.2 := by
  simp only [braBonds, List.mem_filter, ss_spec_graph]
  constructor
  · rintro ⟨⟨n, _, rfl⟩ | ⟨e, he, rfl | rfl⟩, hp⟩
    · simp [physPair, isBraEdge] at hp
    · simp [ketEdge, isBraEdge] at hp
    · exact ⟨e, he, rfl⟩
  · rintro ⟨e, he, rfl⟩
    exact ⟨Or.inr ⟨e, he, Or.inr rfl⟩, by simp [braEdge, isBraEdge]⟩

/-- the specification graph splits into physical pairs, ket bonds and bra bonds -/
theorem ssSpec_split (t : Tree) : (ssSpec t).Perm (physPairs t ++ (ketBonds t ++ braBonds t)) := by
  have h1 := (List.filter_append_perm isPhysPair (ssSpec t)).symm
  refine h1.trans (List.Perm.append_left _ ?_)
  have h2 := (List.filter_append_perm isKetEdge ((ssSpec t).filter (fun x => !isPhysPair x))).symm
  refine h2.trans ?_
  have e1 : ((ssSpec t).filter (fun x => !isPhysPair x)).filter isKetEdge = ketBonds t := by
    rw [List.filter_filter, ketBonds]
    apply List.filter_congr
    intro x _
    rcases x with ⟨a, b⟩
    cases a <;> cases b <;> simp [isKetEdge, isPhysPair]
  have e2 : ((ssSpec t).filter (fun x => !isPhysPair x)).filter (fun x => !isKetEdge x) = braBonds t := by
    rw [List.filter_filter, braBonds]
    apply List.filter_congr
    intro x hx
    rcases (ss_spec_graph t x).1 hx with ⟨n, _, rfl⟩ | ⟨e, _, rfl | rfl⟩ <;>
      simp [physPair, ketEdge, braEdge, isKetEdge, isPhysPair, isBraEdge]
  rw [e1, e2]

/-- **`contract_two_ttns` computes the dense inner product (value level).**  For every tree with distinct
identifiers and every child order of the bra network the loop returns a closed tensor with some binding
record `binds` (that is `contract_two_ttns_graph`), and for every commutative semiring of scalars, all
dimensions, every strongly well-formed contraction program `e` over the node tensors with that record —
in particular the sequence of `tensordot` calls the loop performs — and ANY strongly well-formed
contractions `K`, `B` of the ket tensors over the ket bonds and of the bra tensors over the bra bonds
(the two dense state vectors, in any contraction order): `e` evaluates to the sum over one common index
per physical pair of `K · B`. -/
theorem scalar_product_value {R : Type} [CommSemiring R] (t : Tree) (hnd : t.ids.Nodup)
    (braKids : Nat → List Nat) (hperm : ∀ e ∈ Tree.info none t, (braKids e.1).Perm e.2.2) :
    ∃ binds, contractTwoTtns (netOf t (fun _ ks => ks) gKetT) (netOf t (fun i _ => braKids i) gBraT)
        = some ⟨[], binds⟩ ∧
      ∀ (dim : Leg → Nat) (e K B : Expr Leg R), e.SWF → K.SWF → B.SWF →
        (∀ l ∈ K.labels, l ∉ B.labels) →
        e.binds.Perm binds → K.binds.Perm (ketBonds t) → B.binds.Perm (braBonds t) →
        (∀ p ∈ physPairs t, p.1 ∈ K.free ∧ p.2 ∈ B.free) →
        (∀ σ, e.leafProd σ = K.leafProd σ * B.leafProd σ) →
        ∀ σ, e.eval dim σ = sumPairs dim (physPairs t) (fun τ => K.eval dim τ * B.eval dim τ) σ := by
  obtain ⟨binds, hrun, hb⟩ := contract_two_ttns_graph t hnd braKids hperm
  refine ⟨binds, hrun, ?_⟩
  intro dim e K B he hK hB hdis heb hKb hBb hfree hleaf σ
  apply Expr.inner_of_record dim e K B he hK hB hdis (physPairs t) hfree _ hleaf σ
  refine heb.trans (hb.trans ((ssSpec_split t).trans ?_))
  exact List.Perm.append_left _ (List.Perm.append hKb.symm hBb.symm)

end Ptn.C04
