import Ptn.C04.Bra
/-! `contract_bra_to_ket_and_blocks` (no ignored leg), `get_equivalent_legs`, `contract_leafs`. -/
namespace Ptn.C04

theorem pick_range' (pre l suf : List Leg) :
    pick (pre ++ l ++ suf) (List.range' pre.length l.length) = some l := by
  induction l generalizing pre with
  | nil => simp [pick]
  | cons x xs ih =>
    have h := ih (pre ++ [x])
    simp only [List.length_append, List.length_cons, List.length_nil, List.append_assoc, List.cons_append,
      List.nil_append, Nat.zero_add] at h
    simp only [List.length_cons, List.range'_succ, pick, List.append_assoc, List.cons_append]
    have hx : (pre ++ x :: (xs ++ suf))[pre.length]? = some x := by simp
    rw [hx, h]

theorem pick_range (l : List Leg) : pick l (List.range l.length) = some l := by
  have := pick_range' [] l []
  simpa [List.range_eq_range'] using this

theorem braAllLoop_eq (ketNode : Node) (seg : List Nat) (h : ∀ n ∈ seg, n ∈ ketNode.nbrs) :
    braAllLoop ketNode seg = some (seg.map (fun n => ketNode.nbrs.idxOf n + 1)) := by
  induction seg with
  | nil => rfl
  | cons n rest ih =>
    simp [braAllLoop, Node.neighbourIndex_of_mem _ _ (h n (by simp)), ih (fun m hm => h m (by simp [hm]))]

/-- `contract_bra_to_ket_and_blocks` on the tensor delivered by `contract_all_neighbour_blocks_to_ket`
(two-layer blocks) -/
theorem braAll_general (y z : Leg) (q mkB : Nat → Leg) (ketNode braNode : Node) (bs : List (Leg × Leg))
    (hK : ketNode.nbrs.Nodup) (hB : braNode.nbrs.Nodup) (hperm : braNode.nbrs.Perm ketNode.nbrs) :
    contractBraToKetAndBlocks (T.fresh (braNode.nbrs.map mkB ++ [z])) ⟨[y] ++ ketNode.nbrs.map q, bs⟩ braNode ketNode =
      some ⟨[], bs ++ (braNode.nbrs.map (fun n => (q n, mkB n)) ++ [(y, z)])⟩ := by
  have hmemK : ∀ n ∈ braNode.nbrs, n ∈ ketNode.nbrs := fun n hn => hperm.mem_iff.1 hn
  have hmemB : ∀ n ∈ ketNode.nbrs, n ∈ braNode.nbrs := fun n hn => hperm.mem_iff.2 hn
  have hlen : braNode.nbrs.length = ketNode.nbrs.length := hperm.length_eq
  simp only [contractBraToKetAndBlocks, braAllLoop_eq ketNode braNode.nbrs hmemK]
  generalize hKd : ketNode.nbrs = K at *
  generalize hBd : braNode.nbrs = Bn at *
  have pa : pick ([y] ++ K.map q) (Bn.map (fun n => K.idxOf n + 1) ++ [0])
      = some (Bn.map q ++ [y]) := by
    apply pick_append
    · apply pick_map
      intro n hn
      have := getElem?_map_idxOf q [] (hmemK n hn)
      simpa using this
    · exact pick_single _ _ _ (by simp)
  have pb : pick (T.fresh (Bn.map mkB ++ [z])).legs (List.range (braNode.nn + 1)) = some (T.fresh (Bn.map mkB ++ [z])).legs := by
    have := pick_range (T.fresh (Bn.map mkB ++ [z])).legs
    simpa [T.fresh, Node.nn_eq, hBd] using this
  have nda : (Bn.map (fun n => K.idxOf n + 1) ++ [0]).Nodup := by
    rw [List.nodup_append]
    refine ⟨nodup_map_of_inj_on _ _ hB (fun x hx y hy e => idxOf_inj (hmemK x hx) (hmemK y hy) (by omega)),
      by simp, ?_⟩
    intro a ha b hb
    simp only [List.mem_map] at ha
    obtain ⟨n, _, rfl⟩ := ha
    simp only [List.mem_singleton] at hb
    omega
  rw [tensordot_eq _ _ _ _ _ _ (by simp [Node.nn_eq, hBd]) nda List.nodup_range pa pb]
  have ra : remaining (Bn.map (fun n => K.idxOf n + 1) ++ [0]) 0 ([y] ++ K.map q) = [] := by
    apply remaining_all
    intro i hi
    simp only [Nat.zero_add, List.mem_append, List.mem_map, List.mem_singleton]
    cases i with
    | zero => exact Or.inr rfl
    | succ i =>
      left
      have hi2 : i < K.length := by simp at hi; omega
      exact ⟨K[i], hmemB _ (List.getElem_mem hi2), by rw [hK.idxOf_getElem]⟩
  have rb : remaining (List.range (braNode.nn + 1)) 0 (T.fresh (Bn.map mkB ++ [z])).legs = [] := by
    apply remaining_all
    intro i hi
    simp only [T.fresh, List.length_append, List.length_map, List.length_cons, List.length_nil] at hi
    simp [Node.nn_eq, hBd]
    omega
  rw [ra, rb]
  simp only [T.fresh, List.append_nil]
  rw [List.zip_append (by simp), zip_map_same]
  simp

/-- `get_equivalent_legs` -/
theorem equivLoop_eq (n1 n2 : Node) (ignore : List Nat) (f : Trafo) (seg : List Nat)
    (h : ∀ n ∈ seg, ignore.contains n = false → n ∈ n1.nbrs ∧ f n ∈ n2.nbrs) :
    equivLoop n1 n2 ignore f seg =
      some ((seg.filter (fun n => !ignore.contains n)).map (fun n => n1.nbrs.idxOf n),
            (seg.filter (fun n => !ignore.contains n)).map (fun n => n2.nbrs.idxOf (f n))) := by
  induction seg with
  | nil => simp [equivLoop]
  | cons n rest ih =>
    have ih' := ih (fun m hm => h m (by simp [hm]))
    simp only [equivLoop, ih']
    cases hc : ignore.contains n with
    | true =>
      have hc' : n ∈ ignore := by simpa using hc
      simp [hc']
    | false =>
      obtain ⟨h1, h2⟩ := h n (by simp) hc
      have hc' : n ∉ ignore := by simpa using hc
      simp [hc', Node.neighbourIndex_of_mem _ _ h1, Node.neighbourIndex_of_mem _ _ h2]

theorem flatMap_blockRest_false (l : List Nat) : l.flatMap (blockRest false) = l.map Leg.blkBra := by
  induction l with
  | nil => rfl
  | cons a as ih => simp [List.flatMap_cons, blockRest, ih]

theorem flatMap_blockRest_true (l : List Nat) :
    l.flatMap (blockRest true) = l.flatMap (fun n => [Leg.blkOp n, Leg.blkBra n]) := by
  induction l with
  | nil => rfl
  | cons a as ih => simp [List.flatMap_cons, blockRest, ih]

/-- `contract_leafs` -/
theorem contractLeafs_eq (p q : Nat) :
    contractLeafs ⟨some p, []⟩ ⟨some q, []⟩ (ketT ⟨some p, []⟩) (braT ⟨some q, []⟩) =
      some ⟨[Leg.ketNb p, Leg.braNb q], [(Leg.ketPhys, Leg.braPhys)]⟩ := by
  simp only [contractLeafs, Node.isLeaf, Node.nn, Node.nparents, ketT, braT, T.fresh, Node.nbrs]
  rw [tensordot_one _ _ _ _ Leg.ketPhys Leg.braPhys (by simp) (by simp)]
  simp

theorem contractLeafs_root :
    contractLeafs ⟨none, []⟩ ⟨none, []⟩ (ketT ⟨none, []⟩) (braT ⟨none, []⟩) =
      some ⟨[], [(Leg.ketPhys, Leg.braPhys)]⟩ := by
  simp only [contractLeafs, Node.isLeaf, Node.nn, Node.nparents, ketT, braT, T.fresh, Node.nbrs]
  rw [tensordot_one _ _ _ _ Leg.ketPhys Leg.braPhys (by simp) (by simp)]
  simp

end Ptn.C04
