import Ptn.C04.GraphSO
/-! `completely_contract_tree` and `TTNO.as_matrix` on labels. -/
namespace Ptn.C04

def openLegs (ids : List Nat) : List Leg := ids.flatMap (fun j => [Leg.gOpOut j, Leg.gOpIn j])

/-- the odd positions of interleaved two-leg groups -/
theorem pick_odds (pre : List Leg) (F : List Nat) (p q : Nat → Leg) (suf : List Leg) :
    pick (pre ++ F.flatMap (fun n => [p n, q n]) ++ suf) ((List.range F.length).map (fun k => 2 * k + 1 + pre.length))
      = some (F.map q) := by
  induction F generalizing pre with
  | nil => simp [pick]
  | cons n rest ih =>
    have h := ih (pre ++ [p n, q n])
    simp only [List.length_cons, List.range_succ_eq_map, List.map_cons, List.map_map, pick, Nat.mul_zero,
      Nat.zero_add, List.flatMap_cons, List.append_assoc, List.cons_append, List.nil_append]
    have hx : (pre ++ p n :: q n :: (rest.flatMap (fun n => [p n, q n]) ++ suf))[1 + pre.length]? = some (q n) := by
      have : 1 + pre.length = (pre ++ [p n]).length := by simp; omega
      rw [this]
      have := getElem?_append_mid (pre ++ [p n]) (rest.flatMap (fun n => [p n, q n]) ++ suf) (q n)
      simp at this
      simp
    rw [hx]
    have hfun : ((fun k => 2 * k + 1 + pre.length) ∘ Nat.succ) = fun k => 2 * k + 1 + (pre ++ [p n, q n]).length := by
      funext k; simp; omega
    rw [hfun]
    simp only [List.append_assoc, List.cons_append, List.nil_append] at h
    rw [h]

theorem nparents_eq (p : Option Nat) (c1 c2 : List Nat) : (Node.mk p c1).nparents = (Node.mk p c2).nparents := rfl

mutual
theorem ccTree_spec : ∀ (t : Tree) (p : Option Nat), t.ids.Nodup → (∀ j ∈ t.ids, p ≠ some j) →
    ccTree p t = some (t.ids, ⟨p.toList.map (Leg.gOp t.id) ++ openLegs t.ids, ccBinds t⟩)
  | .node i ks, p, hnd, hp => by
    simp only [Tree.ids, List.nodup_cons] at hnd
    have h := ccKids_spec ks i p [i] (p.toList.map (Leg.gOp i)) [Leg.gOpOut i, Leg.gOpIn i] [] hnd.2 hnd.1
      (fun j hj => hp j (by simp [Tree.ids, hj])) (by cases p <;> simp [Node.nparents])
    simp only [ccTree, gOpT, T.fresh, Node.nbrs, List.map_append, List.append_assoc, List.map_map]
    rw [h]
    simp [Tree.ids, Tree.id, ccBinds, openLegs, List.flatMap_cons]
theorem ccKids_spec : ∀ (cs : List Tree) (i : Nat) (p : Option Nat) (order : List Nat) (P opens : List Leg)
    (bs : List (Leg × Leg)), (Tree.idsL cs).Nodup → i ∉ Tree.idsL cs → (∀ j ∈ Tree.idsL cs, p ≠ some j) →
    P.length = (Node.mk p []).nparents →
    ccKids i p cs (cs.map Tree.id) order ⟨P ++ (cs.map (Leg.gOp i ∘ Tree.id) ++ opens), bs⟩ =
      some (order ++ Tree.idsL cs, ⟨P ++ (opens ++ openLegs (Tree.idsL cs)), bs ++ ccKidsBinds i cs⟩)
  | [], i, p, order, P, opens, bs, _, _, _, _ => by simp [ccKids, Tree.idsL, openLegs, ccKidsBinds]
  | c :: cs, i, p, order, P, opens, bs, hnd, hi, hp, hP => by
    simp only [Tree.idsL, List.nodup_append] at hnd
    obtain ⟨hnd1, hnd2, hdisj⟩ := hnd
    simp only [Tree.idsL, List.mem_append, not_or] at hi
    have hc := ccTree_spec c (some i) hnd1 (fun j hj e => hi.1 ((Option.some.inj e) ▸ hj))
    have hpc : p ≠ some c.id := hp c.id (by simp [Tree.idsL, Tree.id_mem_ids c])
    have hidx : (Node.mk p (c.id :: cs.map Tree.id)).neighbourIndex c.id = some P.length := by
      simp only [Node.neighbourIndex, hpc, if_false, List.mem_cons, true_or, if_true, List.idxOf_cons_self,
        Nat.zero_add, hP]
      rfl
    have htd : tensordot ⟨P ++ (Leg.gOp i c.id :: (cs.map (Leg.gOp i ∘ Tree.id) ++ opens)), bs⟩
        ⟨[Leg.gOp c.id i] ++ openLegs c.ids, ccBinds c⟩ [P.length] [0] =
        some ⟨P ++ (cs.map (Leg.gOp i ∘ Tree.id) ++ opens) ++ openLegs c.ids,
              bs ++ ccBinds c ++ [(Leg.gOp i c.id, Leg.gOp c.id i)]⟩ := by
      rw [tensordot_one _ _ _ _ (Leg.gOp i c.id) (Leg.gOp c.id i) (by simp) (by simp)]
      simp [eraseIdx_append_mid]
    have ih := ccKids_spec cs i p (order ++ c.ids) P (opens ++ openLegs c.ids)
      (bs ++ ccBinds c ++ [(Leg.gOp i c.id, Leg.gOp c.id i)]) hnd2 hi.2
      (fun j hj => hp j (by simp [Tree.idsL, hj])) hP
    simp only [ccKids, List.map_cons, Function.comp_apply, hc, Option.toList_some, List.map_nil, hidx,
      List.erase_cons_head, List.cons_append, List.nil_append]
    simp only [List.cons_append, List.nil_append] at htd
    rw [htd]
    simp only [List.append_assoc] at ih ⊢
    rw [ih]
    simp [Tree.idsL, openLegs, ccKidsBinds, List.flatMap_append]
end

theorem length_openLegs (ids : List Nat) : (openLegs ids).length = 2 * ids.length := by
  induction ids with
  | nil => rfl
  | cons a as ih => simp [openLegs, List.flatMap_cons] at ih ⊢; omega

theorem asMatrix_eq (t : Tree) (hnd : t.ids.Nodup) :
    asMatrix t = some (t.ids, t.ids.map Leg.gOpOut, t.ids.map Leg.gOpIn, ccBinds t) := by
  have h := ccTree_spec t none hnd (fun _ _ => by simp)
  simp only [Option.toList_none, List.map_nil, List.nil_append] at h
  have hlen := length_openLegs t.ids
  have hhalf : (openLegs t.ids).length / 2 = t.ids.length := by omega
  have p1 := pick_evens [] t.ids Leg.gOpOut Leg.gOpIn []
  have p2 := pick_odds [] t.ids Leg.gOpOut Leg.gOpIn []
  simp only [List.nil_append, List.append_nil, List.length_nil, Nat.add_zero] at p1 p2
  simp only [asMatrix, h, hhalf]
  unfold openLegs at hlen ⊢
  simp only [p1, p2, hlen, if_true]

mutual
theorem count_ccBinds (x : Leg × Leg) : ∀ t : Tree,
    (ccBinds t).count x = (t.edges.map fun e => (Leg.gOp e.1 e.2, Leg.gOp e.2 e.1)).count x
  | .node i ks => by simp only [ccBinds, Tree.edges, count_ccKidsBinds x i ks]
theorem count_ccKidsBinds (x : Leg × Leg) (i : Nat) : ∀ ts : List Tree,
    (ccKidsBinds i ts).count x = ((Tree.edgesL i ts).map fun e => (Leg.gOp e.1 e.2, Leg.gOp e.2 e.1)).count x
  | [] => by simp [ccKidsBinds, Tree.edgesL]
  | c :: cs => by
    have h1 := count_ccBinds x c
    have h2 := count_ccKidsBinds x i cs
    simp only [ccKidsBinds, Tree.edgesL, List.map_cons, List.map_append, List.count_append, List.count_cons,
      List.count_nil, h1, h2]
    omega
end

end Ptn.C04
