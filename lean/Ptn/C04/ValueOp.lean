import Ptn.C04.Value
/-! Value level for the operator routines of C04: `expectation_value` (three layers) and `TTNO.as_matrix`. -/
namespace Ptn.C04

open Ptn.Ein

set_option linter.unusedSectionVars false
variable {R : Type} [CommSemiring R]

/-! ### `<psi| O |psi>` -/

/-- **`expectation_value` computes the operator sandwich (value level).**  For every tree with distinct
identifiers and every child order of the operator network the loop returns a closed tensor with some binding
record `binds` (that is `expectation_value_graph`; the record agrees with the specification graph `soSpec t`
as a multiset of UNORDERED pairs — the root step binds the bra-side pairs the other way round).  For every
commutative semiring, all dimensions that give both legs of every pair of the specification graph the same
dimension (NumPy rejects anything else), every strongly well-formed contraction program `e` over the node
tensors with that record — in particular the loop's own sequence of `tensordot` calls — and ANY well-formed
contractions `K`, `O`, `B` of the ket, operator and bra tensors over their own bonds, with `ppIn` the pairs
(ket physical leg, operator input leg) and `ppOut` the pairs (operator output leg, bra physical leg):
`e` evaluates to `Σ_out (Σ_in K · O) · B`, the dense `<B| O |K>`. -/
theorem expectation_value_value (t : Tree) (hnd : t.ids.Nodup) (opKids : Nat → List Nat)
    (hperm : ∀ e ∈ Tree.info none t, (opKids e.1).Perm e.2.2) :
    ∃ binds, expectationValue (netOf t (fun _ ks => ks) gKetT) (netOf t (fun i _ => opKids i) gOpT) gBraT
        = some ⟨[], binds⟩ ∧
      ∀ (dim : Leg → Nat) (e K O B : Expr Leg R) (ppIn ppOut : List (Leg × Leg)),
        e.SWF → K.WF → O.WF → B.WF →
        (∀ l ∈ K.labels, l ∉ O.labels) → (∀ l ∈ K.labels, l ∉ B.labels) → (∀ l ∈ O.labels, l ∉ B.labels) →
        e.binds.Perm binds →
        (ppOut ++ ((ppIn ++ (K.binds ++ O.binds)) ++ B.binds)).Perm (soSpec t) →
        (∀ p ∈ ppIn, p.1 ∈ K.free ∧ p.2 ∈ O.free) →
        (∀ p ∈ ppOut, (p.1 ∈ O.free ∧ p.1 ∉ ppIn.map Prod.snd) ∧ p.2 ∈ B.free) →
        (∀ p ∈ soSpec t, dim p.1 = dim p.2) →
        (∀ σ, e.leafProd σ = K.leafProd σ * O.leafProd σ * B.leafProd σ) →
        ∀ σ, e.eval dim σ = sumPairs dim ppOut
          (fun τ => sumPairs dim ppIn (fun ρ => K.eval dim ρ * O.eval dim ρ) τ * B.eval dim τ) σ := by
  obtain ⟨binds, hrun, hb⟩ := expectation_value_graph t hnd opKids hperm
  refine ⟨binds, hrun, ?_⟩
  intro dim e K O B ppIn ppOut he hK hO hB hKO hKB hOB heb hspec hin hout hdim hleaf σ
  exact Expr.sandwich_of_record dim e K O B he hK hO hB hKO hKB hOB ppIn ppOut (soSpec t) hin hout hspec
    ((unordL_perm heb).trans hb) hdim hleaf σ

/-! ### `TTNO.as_matrix` -/

/-- the operator layer as `completely_contract_tree` sees it: bonds recorded `(parent leg, child leg)` -/
def opLayerCC (ov : Nat → Asg Leg → R) : Layer R :=
  ⟨Leg.gOp, fun i p kids => (gOpT i ⟨p, kids⟩).legs, ov, false⟩

/-- **the dense operator**: the operator network contracted over its bonds -/
def opExprCC (ov : Nat → Asg Leg → R) (t : Tree) : Expr Leg R := layExpr (opLayerCC ov) none t

def OpLocal (ov : Nat → Asg Leg → R) (t : Tree) : Prop :=
  ∀ e ∈ Tree.info none t, DependsOn (· ∈ (gOpT e.1 ⟨e.2.1, e.2.2⟩).legs) (ov e.1)

mutual
/-- `_completely_contract_tree_rec`: the contracted subtree is built from the operator tensors of the subtree -/
theorem ccTree_built (ov : Nat → Asg Leg → R) : ∀ (t : Tree) (p : Option Nat) (o : List Nat) (r : T),
    ccTree p t = some (o, r) → BuiltL r (treeLeaves (opLayerCC ov).nodeLeaves p t)
  | .node i ks, p, o, r, h => by
    simp only [ccTree] at h
    exact ccKids_built ov i p ks _ _ _ _ _ _ h (BuiltL.fresh _ _)
theorem ccKids_built (ov : Nat → Asg Leg → R) (i : Nat) (p : Option Nat) : ∀ (cs : List Tree) (rem order : List Nat)
    (cur : T) (o : List Nat) (r : T) (ls : List (LeafT R)), ccKids i p cs rem order cur = some (o, r) →
    BuiltL cur ls → BuiltL r (ls ++ treeLeavesL (opLayerCC ov).nodeLeaves i cs)
  | [], _, _, cur, o, r, ls, h, hc => by
    simp only [ccKids, Option.some.injEq, Prod.mk.injEq] at h
    obtain ⟨_, rfl⟩ := h
    simpa [treeLeavesL] using hc
  | c :: cs, rem, order, cur, o, r, ls, h, hc => by
    simp only [ccKids] at h
    split at h
    · simp at h
    · rename_i oc tc hcc
      split at h
      · simp at h
      · split at h
        · simp at h
        · rename_i cur' hcur'
          have h1 := ccTree_built ov c (some i) oc tc hcc
          have h2 := ccKids_built ov i p cs _ _ cur' o r _ h (BuiltL.dot hc h1 hcur')
          simpa [treeLeavesL, List.append_assoc] using h2
end

theorem openLegs_perm (ids : List Nat) : (ids.map Leg.gOpOut ++ ids.map Leg.gOpIn).Perm (openLegs ids) := by
  induction ids with
  | nil => exact List.Perm.refl _
  | cons a as ih =>
    simp only [openLegs, List.map_cons, List.flatMap_cons, List.cons_append, List.nil_append] at ih ⊢
    exact List.Perm.cons _ (List.perm_middle.trans (List.Perm.cons _ ih))

theorem op_nodeOK (ov : Nat → Asg Leg → R) (e : Nat × Option Nat × List Nat) (hn : (e.2.1.toList ++ e.2.2).Nodup) :
    NodeOK (opLayerCC ov).nodeLeaves e := by
  obtain ⟨i, p, kids⟩ := e
  simp only at hn
  constructor
  · simp only [labelsOf, Layer.nodeLeaves, opLayerCC, gOpT, T.fresh, Node.nbrs, List.flatMap_cons, List.flatMap_nil,
      List.append_nil]
    rw [List.nodup_append]
    refine ⟨nodup_map_of_inj_on _ _ hn (fun x _ y _ h => by injection h), by simp, ?_⟩
    intro x hx y hy hxy
    subst hxy
    simp only [List.mem_map] at hx
    obtain ⟨_, _, rfl⟩ := hx
    simp at hy
  · intro l hl
    simp only [labelsOf, Layer.nodeLeaves, opLayerCC, gOpT, T.fresh, Node.nbrs, List.flatMap_cons, List.flatMap_nil,
      List.append_nil, List.mem_append, List.mem_map, List.mem_cons, List.not_mem_nil, or_false] at hl
    rcases hl with ⟨_, _, rfl⟩ | rfl | rfl <;> rfl

/-- **`TTNO.as_matrix` returns the dense operator (value level).**  For every tree with distinct identifiers,
every commutative semiring, all dimensions and all values of the operator tensors (each reading only its own
legs): the tensor that `completely_contract_tree` produces, transposed to (all output legs, all input legs) —
the matrix before the final reshape —, is BUILT by the model's `tensordot` calls from exactly the operator
tensors of all nodes, and EVERY expression from which it is built over these leaves is strongly well-formed,
has the rows and columns as its free legs and evaluates to the operator network contracted over its bonds
(`opExprCC`), for every assignment of the open legs.  PARTIAL for the same reason as `as_matrix_graph_partial`:
`contract_nodes` is modelled by `_data_contraction`; the lazily stored leg permutation is not modelled (C02). -/
theorem as_matrix_value_partial (t : Tree) (hnd : t.ids.Nodup) (ov : Nat → Asg Leg → R) (hov : OpLocal ov t) :
    ∃ binds, asMatrix t = some (t.ids, t.ids.map Leg.gOpOut, t.ids.map Leg.gOpIn, binds) ∧
      (∃ e : Expr Leg R, Built ⟨t.ids.map Leg.gOpOut ++ t.ids.map Leg.gOpIn, binds⟩ e ∧
        e.leaves.Perm (treeLeaves (opLayerCC ov).nodeLeaves none t)) ∧
      ∀ e : Expr Leg R, Built ⟨t.ids.map Leg.gOpOut ++ t.ids.map Leg.gOpIn, binds⟩ e →
        e.leaves.Perm (treeLeaves (opLayerCC ov).nodeLeaves none t) →
        e.SWF ∧ e.binds.Perm binds ∧ e.free.Perm (t.ids.map Leg.gOpOut ++ t.ids.map Leg.gOpIn) ∧
        ∀ (dim : Leg → Nat) (σ : Asg Leg), e.eval dim σ = (opExprCC ov t).eval dim σ := by
  have hcc := ccTree_spec t none hnd (fun _ _ => by simp)
  simp only [Option.toList_none, List.map_nil, List.nil_append] at hcc
  have hb0 : BuiltL (⟨openLegs t.ids, ccBinds t⟩ : T) (treeLeaves (opLayerCC ov).nodeLeaves none t) :=
    ccTree_built ov t none _ _ hcc
  refine ⟨ccBinds t, asMatrix_eq t hnd, hb0.transpose (openLegs_perm t.ids), ?_⟩
  intro e hbuilt hleaves
  have hnone : ∀ q, (none : Option Nat) = some q → q ∉ t.ids := fun q hq => by simp at hq
  have hnb := info_nbrs_nodup t none hnd hnone
  have hok : ∀ e ∈ Tree.info none t, NodeOK (opLayerCC ov).nodeLeaves e := fun e he => op_nodeOK ov e (hnb e he)
  have hlab := treeLeaves_labels _ t none hnd hok
  have hend : e.labels.Nodup := by
    rw [Expr.labels_eq_leaves]
    exact (hleaves.flatMap_right _).nodup_iff.2 hlab.1
  have hloc : e.LeavesLocal := by
    intro lf hlf
    obtain ⟨x, hx, h⟩ := treeLeaves_sub _ t none lf (hleaves.mem_iff.1 hlf)
    simp only [Layer.nodeLeaves, List.mem_singleton] at h
    subst h
    exact hov x hx
  have hswf := hbuilt.swf hend hloc
  obtain ⟨hbinds, hlegs, _⟩ := hbuilt.sound hend
  refine ⟨hswf, hbinds.symm, hlegs.symm, ?_⟩
  have hO : (opExprCC ov t).SWF := layExpr_swf (opLayerCC ov)
    (fun a b a' b' h => by simp only [opLayerCC] at h; injection h with h1 h2; exact ⟨h1, h2⟩) t none hnd hnone
    (fun e _ n hn => by
      simp only [opLayerCC, gOpT, T.fresh, Node.nbrs, List.mem_append, List.mem_map]
      exact Or.inl ⟨n, List.mem_append.1 hn, rfl⟩)
    hok hov
  have hOb : (opExprCC ov t).binds.Perm (ccBinds t) := by
    have h1 := layExpr_binds (opLayerCC ov) t none
    have h2 : (ccBinds t).Perm (t.edges.map fun e => (Leg.gOp e.1 e.2, Leg.gOp e.2 e.1)) :=
      List.perm_iff_count.2 (fun x => count_ccBinds x t)
    refine List.Perm.trans ?_ h2.symm
    simpa [Layer.edge, opLayerCC, opExprCC] using h1
  intro dim σ
  exact Expr.eval_unique dim e _ hswf hO (hbinds.symm.trans hOb.symm)
    (hleaves.trans (layExpr_leaves (opLayerCC ov) t none).symm) σ

end Ptn.C04
