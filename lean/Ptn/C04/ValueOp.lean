import Ptn.C04.Value
/-! Value level for the operator routines of C04: `expectation_value` (three layers) and `TTNO.as_matrix`. -/
namespace Ptn.C04

open Ptn.Ein

set_option linter.unusedSectionVars false
variable {R : Type} [CommSemiring R]

/-! ### `<psi| O |psi>` -/

/-- **`expectation_value` computes the operator sandwich (value level).**  For every tree with distinct
identifiers and every child order of the operator network the loop returns a closed tensor with some binding
record `binds` (that is `expectation_value_graph`; the record agrees with the specification graph `soSpec t`
as a multiset of UNORDERED pairs — the root step binds the bra-side pairs the other way round).  For every
commutative semiring, all dimensions that give both legs of every pair of the specification graph the same
dimension (NumPy rejects anything else), every strongly well-formed contraction program `e` over the node
tensors with that record — in particular the loop's own sequence of `tensordot` calls — and ANY well-formed
contractions `K`, `O`, `B` of the ket, operator and bra tensors over their own bonds, with `ppIn` the pairs
(ket physical leg, operator input leg) and `ppOut` the pairs (operator output leg, bra physical leg):
`e` evaluates to `Σ_out (Σ_in K · O) · B`, the dense `<B| O |K>`. -/
theorem expectation_value_value (t : Tree) (hnd : t.ids.Nodup) (opKids : Nat → List Nat)
    (hperm : ∀ e ∈ Tree.info none t, (opKids e.1).Perm e.2.2) :
    ∃ binds, expectationValue (netOf t (fun _ ks => ks) gKetT) (netOf t (fun i _ => opKids i) gOpT) gBraT
        = some ⟨[], binds⟩ ∧
      ∀ (dim : Leg → Nat) (e K O B : Expr Leg R) (ppIn ppOut : List (Leg × Leg)),
        e.SWF → K.WF → O.WF → B.WF →
        (∀ l ∈ K.labels, l ∉ O.labels) → (∀ l ∈ K.labels, l ∉ B.labels) → (∀ l ∈ O.labels, l ∉ B.labels) →
        e.binds.Perm binds →
        (ppOut ++ ((ppIn ++ (K.binds ++ O.binds)) ++ B.binds)).Perm (soSpec t) →
        (∀ p ∈ ppIn, p.1 ∈ K.free ∧ p.2 ∈ O.free) →
        (∀ p ∈ ppOut, (p.1 ∈ O.free ∧ p.1 ∉ ppIn.map Prod.snd) ∧ p.2 ∈ B.free) →
        (∀ p ∈ soSpec t, dim p.1 = dim p.2) →
        (∀ σ, e.leafProd σ = K.leafProd σ * O.leafProd σ * B.leafProd σ) →
        ∀ σ, e.eval dim σ = sumPairs dim ppOut
          (fun τ => sumPairs dim ppIn (fun ρ => K.eval dim ρ * O.eval dim ρ) τ * B.eval dim τ) σ := by
  obtain ⟨binds, hrun, hb⟩ := expectation_value_graph t hnd opKids hperm
  refine ⟨binds, hrun, ?_⟩
  intro dim e K O B ppIn ppOut he hK hO hB hKO hKB hOB heb hspec hin hout hdim hleaf σ
  exact Expr.sandwich_of_record dim e K O B he hK hO hB hKO hKB hOB ppIn ppOut (soSpec t) hin hout hspec
    ((unordL_perm heb).trans hb) hdim hleaf σ

/-! ### `TTNO.as_matrix` -/

/-- the operator layer as `completely_contract_tree` sees it: bonds recorded `(parent leg, child leg)` -/
def opLayerCC (ov : Nat → Asg Leg → R) : Layer R :=
  ⟨Leg.gOp, fun i p kids => (gOpT i ⟨p, kids⟩).legs, ov, false⟩

/-- **the dense operator**: the operator network contracted over its bonds -/
def opExprCC (ov : Nat → Asg Leg → R) (t : Tree) : Expr Leg R := layExpr (opLayerCC ov) none t

def OpLocal (ov : Nat → Asg Leg → R) (t : Tree) : Prop :=
  ∀ e ∈ Tree.info none t, DependsOn (· ∈ (gOpT e.1 ⟨e.2.1, e.2.2⟩).legs) (ov e.1)

mutual
/-- `_completely_contract_tree_rec`: the contracted subtree is built from the operator tensors of the subtree -/
theorem ccTree_built (ov : Nat → Asg Leg → R) : ∀ (t : Tree) (p : Option Nat) (o : List Nat) (r : T),
    ccTree p t = some (o, r) → BuiltL r (treeLeaves (opLayerCC ov).nodeLeaves p t)
  | .node i ks, p, o, r, h => by
    simp only [ccTree] at h
    exact ccKids_built ov i p ks _ _ _ _ _ _ h (BuiltL.fresh _ _)
theorem ccKids_built (ov : Nat → Asg Leg → R) (i : Nat) (p : Option Nat) : ∀ (cs : List Tree) (rem order : List Nat)
    (cur : T) (o : List Nat) (r : T) (ls : List (LeafT R)), ccKids i p cs rem order cur = some (o, r) →
    BuiltL cur ls → BuiltL r (ls ++ treeLeavesL (opLayerCC ov).nodeLeaves i cs)
  | [], _, _, cur, o, r, ls, h, hc => by
    simp only [ccKids, Option.some.injEq, Prod.mk.injEq] at h
    obtain ⟨_, rfl⟩ := h
    simpa [treeLeavesL] using hc
  | c :: cs, rem, order, cur, o, r, ls, h, hc => by
    simp only [ccKids] at h
    split at h
    · simp at h
    · rename_i oc tc hcc
      split at h
      · simp at h
      · split at h
        · simp at h
        · rename_i cur' hcur'
          have h1 := ccTree_built ov c (some i) oc tc hcc
          have h2 := ccKids_built ov i p cs _ _ cur' o r _ h (BuiltL.dot hc h1 hcur')
          simpa [treeLeavesL, List.append_assoc] using h2
end

theorem openLegs_perm (ids : List Nat) : (ids.map Leg.gOpOut ++ ids.map Leg.gOpIn).Perm (openLegs ids) := by
  induction ids with
  | nil => exact List.Perm.refl _
  | cons a as ih =>
    simp only [openLegs, List.map_cons, List.flatMap_cons, List.cons_append, List.nil_append] at ih ⊢
    exact List.Perm.cons _ (List.perm_middle.trans (List.Perm.cons _ ih))

theorem op_nodeOK (ov : Nat → Asg Leg → R) (e : Nat × Option Nat × List Nat) (hn : (e.2.1.toList ++ e.2.2).Nodup) :
    NodeOK (opLayerCC ov).nodeLeaves e := by
  obtain ⟨i, p, kids⟩ := e
  simp only at hn
  constructor
  · simp only [labelsOf, Layer.nodeLeaves, opLayerCC, gOpT, T.fresh, Node.nbrs, List.flatMap_cons, List.flatMap_nil,
      List.append_nil]
    rw [List.nodup_append]
    refine ⟨nodup_map_of_inj_on _ _ hn (fun x _ y _ h => by injection h), by simp, ?_⟩
    intro x hx y hy hxy
    subst hxy
    simp only [List.mem_map] at hx
    obtain ⟨_, _, rfl⟩ := hx
    simp at hy
  · intro l hl
    simp only [labelsOf, Layer.nodeLeaves, opLayerCC, gOpT, T.fresh, Node.nbrs, List.flatMap_cons, List.flatMap_nil,
      List.append_nil, List.mem_append, List.mem_map, List.mem_cons, List.not_mem_nil, or_false] at hl
    rcases hl with ⟨_, _, rfl⟩ | rfl | rfl <;> rfl

/-- **`TTNO.as_matrix` returns the dense operator (value level).**  For every tree with distinct identifiers,
every commutative semiring, all dimensions and all values of the operator tensors (each reading only its own
legs): the tensor that `completely_contract_tree` produces, transposed to (all output legs, all input legs) —
the matrix before the final reshape —, is BUILT by the model's `tensordot` calls from exactly the operator
tensors of all nodes, and EVERY expression from which it is built over these leaves is strongly well-formed,
has the rows and columns as its free legs and evaluates to the operator network contracted over its bonds
(`opExprCC`), for every assignment of the open legs.  PARTIAL for the same reason as `as_matrix_graph_partial`:
`contract_nodes` is modelled by `_data_contraction`; the lazily stored leg permutation is not modelled (C02). -/
theorem as_matrix_value_partial (t : Tree) (hnd : t.ids.Nodup) (ov : Nat → Asg Leg → R) (hov : OpLocal ov t) :
    ∃ binds, asMatrix t = some (t.ids, t.ids.map Leg.gOpOut, t.ids.map Leg.gOpIn, binds) ∧
      (∃ e : Expr Leg R, Built ⟨t.ids.map Leg.gOpOut ++ t.ids.map Leg.gOpIn, binds⟩ e ∧
        e.leaves.Perm (treeLeaves (opLayerCC ov).nodeLeaves none t)) ∧
      ∀ e : Expr Leg R, Built ⟨t.ids.map Leg.gOpOut ++ t.ids.map Leg.gOpIn, binds⟩ e →
        e.leaves.Perm (treeLeaves (opLayerCC ov).nodeLeaves none t) →
        e.SWF ∧ e.binds.Perm binds ∧ e.free.Perm (t.ids.map Leg.gOpOut ++ t.ids.map Leg.gOpIn) ∧
        ∀ (dim : Leg → Nat) (σ : Asg Leg), e.eval dim σ = (opExprCC ov t).eval dim σ := by
  have hcc := ccTree_spec t none hnd (fun _ _ => by simp)
  simp only [Option.toList_none, List.map_nil, List.nil_append] at hcc
  have hb0 : BuiltL (⟨openLegs t.ids, ccBinds t⟩ : T) (treeLeaves (opLayerCC ov).nodeLeaves none t) :=
    ccTree_built ov t none _ _ hcc
  refine ⟨ccBinds t, asMatrix_eq t hnd, hb0.transpose (openLegs_perm t.ids), ?_⟩
  intro e hbuilt hleaves
  have hnone : ∀ q, (none : Option Nat) = some q → q ∉ t.ids := fun q hq => by simp at hq
  have hnb := info_nbrs_nodup t none hnd hnone
  have hok : ∀ e ∈ Tree.info none t, NodeOK (opLayerCC ov).nodeLeaves e := fun e he => op_nodeOK ov e (hnb e he)
  have hlab := treeLeaves_labels _ t none hnd hok
  have hend : e.labels.Nodup := by
    rw [Expr.labels_eq_leaves]
    exact (hleaves.flatMap_right _).nodup_iff.2 hlab.1
  have hloc : e.LeavesLocal := by
    intro lf hlf
    obtain ⟨x, hx, h⟩ := treeLeaves_sub _ t none lf (hleaves.mem_iff.1 hlf)
    simp only [Layer.nodeLeaves, List.mem_singleton] at h
    subst h
    exact hov x hx
  have hswf := hbuilt.swf hend hloc
  obtain ⟨hbinds, hlegs, _⟩ := hbuilt.sound hend
  refine ⟨hswf, hbinds.symm, hlegs.symm, ?_⟩
  have hO : (opExprCC ov t).SWF := layExpr_swf (opLayerCC ov)
    (fun a b a' b' h => by simp only [opLayerCC] at h; injection h with h1 h2; exact ⟨h1, h2⟩) t none hnd hnone
    (fun e _ n hn => by
      simp only [opLayerCC, gOpT, T.fresh, Node.nbrs, List.mem_append, List.mem_map]
      exact Or.inl ⟨n, List.mem_append.1 hn, rfl⟩)
    hok hov
  have hOb : (opExprCC ov t).binds.Perm (ccBinds t) := by
    have h1 := layExpr_binds (opLayerCC ov) t none
    have h2 : (ccBinds t).Perm (t.edges.map fun e => (Leg.gOp e.1 e.2, Leg.gOp e.2 e.1)) :=
      List.perm_iff_count.2 (fun x => count_ccBinds x t)
    refine List.Perm.trans ?_ h2.symm
    simpa [Layer.edge, opLayerCC, opExprCC] using h1
  intro dim σ
  exact Expr.eval_unique dim e _ hswf hO (hbinds.symm.trans hOb.symm)
    (hleaves.trans (layExpr_leaves (opLayerCC ov) t none).symm) σ

/-! ### `<psi| O |psi>`: provenance — the loop itself is such a program -/

/-- the operator layer of `expectation_value`: the operator's own child order, bonds recorded `(child, parent)` -/
def opLayer (ov : Nat → Asg Leg → R) (opKids : Nat → List Nat) : Layer R :=
  ⟨Leg.gOp, fun i p _ => (gOpT i ⟨p, opKids i⟩).legs, ov, true⟩
/-- the bra layer of `expectation_value`: the conjugated ket tensors, on the ket's nodes -/
def braLayerK (bv : Nat → Asg Leg → R) : Layer R :=
  ⟨Leg.gBra, fun i p kids => (gBraT i ⟨p, kids⟩).legs, bv, true⟩

def opExpr (ov : Nat → Asg Leg → R) (opKids : Nat → List Nat) (t : Tree) : Expr Leg R :=
  layExpr (opLayer ov opKids) none t
def braExprK (bv : Nat → Asg Leg → R) (t : Tree) : Expr Leg R := layExpr (braLayerK bv) none t

def OpLocalK (ov : Nat → Asg Leg → R) (opKids : Nat → List Nat) (t : Tree) : Prop :=
  ∀ e ∈ Tree.info none t, DependsOn (· ∈ (gOpT e.1 ⟨e.2.1, opKids e.1⟩).legs) (ov e.1)
def BraLocalK (bv : Nat → Asg Leg → R) (t : Tree) : Prop :=
  ∀ e ∈ Tree.info none t, DependsOn (· ∈ (gBraT e.1 ⟨e.2.1, e.2.2⟩).legs) (bv e.1)

mutual
theorem count_soSpec_split (x : Leg × Leg) : ∀ t : Tree, (soSpec t).count x =
    (t.ids.map physOut).count x + (t.ids.map physIn).count x + (t.edges.map fun e => ketEdge e.1 e.2).count x +
      (t.edges.map fun e => opEdge e.1 e.2).count x + (t.edges.map fun e => braEdge e.1 e.2).count x
  | .node i ks => by
    have := count_soSpecL_split x i ks
    simp only [soSpec, Tree.ids, Tree.edges, List.map_cons, List.count_cons] at this ⊢
    omega
theorem count_soSpecL_split (x : Leg × Leg) (i : Nat) : ∀ ts : List Tree, (soSpecL i ts).count x =
    ((Tree.idsL ts).map physOut).count x + ((Tree.idsL ts).map physIn).count x +
      ((Tree.edgesL i ts).map fun e => ketEdge e.1 e.2).count x +
      ((Tree.edgesL i ts).map fun e => opEdge e.1 e.2).count x +
      ((Tree.edgesL i ts).map fun e => braEdge e.1 e.2).count x
  | [] => by simp [soSpecL, Tree.idsL, Tree.edgesL]
  | c :: cs => by
    have h1 := count_soSpec_split x c
    have h2 := count_soSpecL_split x i cs
    simp only [soSpecL, Tree.idsL, Tree.edgesL, List.map_cons, List.map_append, List.count_cons, List.count_append]
      at h1 h2 ⊢
    omega
end

theorem so_nodeOK (kv ov bv : Nat → Asg Leg → R) (opKids : Nat → List Nat) (e : Nat × Option Nat × List Nat)
    (hn : (e.2.1.toList ++ e.2.2).Nodup) (hp : (opKids e.1).Perm e.2.2) :
    NodeOK (soNodeLeaves opKids kv ov bv) e := by
  obtain ⟨i, p, kids⟩ := e
  simp only at hn hp
  have hn' : (p.toList ++ opKids i).Nodup := (List.Perm.append_left _ hp).nodup_iff.2 hn
  have hk : (List.map (Leg.gKet i) (p.toList ++ kids) ++ [Leg.gKetPhys i]).Nodup := by
    rw [List.nodup_append]
    refine ⟨nodup_map_of_inj_on _ _ hn (fun x _ y _ h => by injection h), by simp, ?_⟩
    intro x hx y hy hxy; simp only [List.mem_singleton] at hy; subst hy; subst hxy; simp at hx
  have ho : (List.map (Leg.gOp i) (p.toList ++ opKids i) ++ [Leg.gOpOut i, Leg.gOpIn i]).Nodup := by
    rw [List.nodup_append]
    refine ⟨nodup_map_of_inj_on _ _ hn' (fun x _ y _ h => by injection h), by simp, ?_⟩
    intro x hx y hy hxy; subst hxy
    obtain ⟨_, _, rfl⟩ := List.mem_map.1 hx
    simp at hy
  have hb : (List.map (Leg.gBra i) (p.toList ++ kids) ++ [Leg.gBraPhys i]).Nodup := by
    rw [List.nodup_append]
    refine ⟨nodup_map_of_inj_on _ _ hn (fun x _ y _ h => by injection h), by simp, ?_⟩
    intro x hx y hy hxy; simp only [List.mem_singleton] at hy; subst hy; subst hxy; simp at hx
  constructor
  · simp only [labelsOf, soNodeLeaves, gKetT, gOpT, gBraT, T.fresh, Node.nbrs, List.flatMap_cons, List.flatMap_nil,
      List.append_nil]
    rw [List.nodup_append]
    refine ⟨hk, ?_, ?_⟩
    · rw [List.nodup_append]
      refine ⟨ho, hb, ?_⟩
      intro x hx y hy hxy
      subst hxy
      simp only [List.mem_append, List.mem_map, List.mem_cons, List.not_mem_nil, or_false] at hx hy
      rcases hx with ⟨_, _, rfl⟩ | rfl | rfl <;> rcases hy with ⟨_, _, h⟩ | h <;> simp at h
    · intro x hx y hy hxy
      subst hxy
      simp only [List.mem_append, List.mem_map, List.mem_cons, List.not_mem_nil, or_false] at hx hy
      rcases hx with ⟨_, _, rfl⟩ | rfl <;> rcases hy with (⟨_, _, h⟩ | h | h) | ⟨_, _, h⟩ | h <;> simp at h
  · intro l hl
    simp only [labelsOf, soNodeLeaves, gKetT, gOpT, gBraT, T.fresh, Node.nbrs, List.flatMap_cons, List.flatMap_nil,
      List.append_nil, List.mem_append, List.mem_map, List.mem_cons, List.not_mem_nil, or_false] at hl
    rcases hl with (⟨_, _, rfl⟩ | rfl) | (⟨_, _, rfl⟩ | rfl | rfl) | (⟨_, _, rfl⟩ | rfl) <;> rfl

theorem soNodeLeaves_eq (kv ov bv : Nat → Asg Leg → R) (opKids : Nat → List Nat) :
    soNodeLeaves opKids kv ov bv = fun i p k => (ketLayer kv).nodeLeaves i p k ++
      ((fun i p k => (opLayer ov opKids).nodeLeaves i p k ++ (braLayerK bv).nodeLeaves i p k) i p k) := rfl

/-- **`expectation_value` computes the dense `<psi| O |psi>` — the loop itself, unconditionally in the program.**
For every tree with distinct identifiers, every child order of the operator network, every commutative semiring
and ALL values of the node tensors (each reading only its own legs): the loop returns a closed tensor; it is
BUILT by the model's `tensordot` calls from exactly the ket, operator and bra tensors of all nodes; and EVERY
expression it is built from over these leaves is strongly well-formed and evaluates — for all dimensions that
give both legs of every pair of the specification graph the same dimension — to `Σ_out (Σ_in K·O)·B` with the
canonical dense ket `ketExpr`, dense operator `opExpr` and dense bra `braExprK`. -/
theorem expectation_value_loop_value (t : Tree) (hnd : t.ids.Nodup) (opKids : Nat → List Nat)
    (hperm : ∀ e ∈ Tree.info none t, (opKids e.1).Perm e.2.2)
    (kv ov bv : Nat → Asg Leg → R) (hkv : KetLocal kv t) (hov : OpLocalK ov opKids t) (hbv : BraLocalK bv t) :
    ∃ binds, expectationValue (netOf t (fun _ ks => ks) gKetT) (netOf t (fun i _ => opKids i) gOpT) gBraT
        = some ⟨[], binds⟩ ∧
      (∃ e : Expr Leg R, Built ⟨[], binds⟩ e ∧ e.leaves.Perm (soLeaves opKids kv ov bv none t)) ∧
      ∀ e : Expr Leg R, Built ⟨[], binds⟩ e → e.leaves.Perm (soLeaves opKids kv ov bv none t) →
        e.SWF ∧ e.binds.Perm binds ∧ e.free = [] ∧
        ∀ (dim : Leg → Nat), (∀ p ∈ soSpec t, dim p.1 = dim p.2) → ∀ σ : Asg Leg, e.eval dim σ =
          sumPairs dim (t.ids.map physOut)
            (fun τ => sumPairs dim (t.ids.map physIn)
              (fun ρ => (ketExpr kv t).eval dim ρ * (opExpr ov opKids t).eval dim ρ) τ *
              (braExprK bv t).eval dim τ) σ := by
  refine ⟨_, expectationValue_eq t hnd opKids hperm, expectationValue_built kv ov bv t hnd opKids hperm, ?_⟩
  intro e hbuilt hleaves
  have hnone : ∀ q, (none : Option Nat) = some q → q ∉ t.ids := fun q hq => by simp at hq
  have hnb := info_nbrs_nodup t none hnd hnone
  have hok : ∀ e ∈ Tree.info none t, NodeOK (soNodeLeaves opKids kv ov bv) e :=
    fun e he => so_nodeOK kv ov bv opKids e (hnb e he) (hperm e he)
  have hlab := treeLeaves_labels (soNodeLeaves opKids kv ov bv) t none hnd hok
  have hend : e.labels.Nodup := by
    rw [Expr.labels_eq_leaves]
    exact (hleaves.flatMap_right _).nodup_iff.2 hlab.1
  have hloc : e.LeavesLocal := by
    intro lf hlf
    obtain ⟨x, hx, h⟩ := treeLeaves_sub _ t none lf (hleaves.mem_iff.1 hlf)
    simp only [soNodeLeaves, List.mem_cons, List.not_mem_nil, or_false] at h
    rcases h with rfl | rfl | rfl
    · exact hkv x hx
    · exact hov x hx
    · exact hbv x hx
  have hswf := hbuilt.swf hend hloc
  obtain ⟨hbinds, hlegs, _⟩ := hbuilt.sound hend
  refine ⟨hswf, hbinds.symm, List.Perm.eq_nil hlegs.symm, ?_⟩
  -- the three dense layers
  let ΛO := opLayer ov opKids
  let ΛB := braLayerK bv
  have hokK : ∀ e ∈ Tree.info none t, NodeOK (ketLayer kv).nodeLeaves e := fun e he =>
    nodeOK_left (f := (ketLayer kv).nodeLeaves)
      (g := fun i p k => ΛO.nodeLeaves i p k ++ ΛB.nodeLeaves i p k) (hok e he)
  have hokOB : ∀ e ∈ Tree.info none t, NodeOK (fun i p k => ΛO.nodeLeaves i p k ++ ΛB.nodeLeaves i p k) e :=
    fun e he => nodeOK_right (f := (ketLayer kv).nodeLeaves)
      (g := fun i p k => ΛO.nodeLeaves i p k ++ ΛB.nodeLeaves i p k) (hok e he)
  have hokO : ∀ e ∈ Tree.info none t, NodeOK ΛO.nodeLeaves e := fun e he =>
    nodeOK_left (f := ΛO.nodeLeaves) (g := ΛB.nodeLeaves) (hokOB e he)
  have hokB : ∀ e ∈ Tree.info none t, NodeOK ΛB.nodeLeaves e := fun e he =>
    nodeOK_right (f := ΛO.nodeLeaves) (g := ΛB.nodeLeaves) (hokOB e he)
  have hK : (ketExpr kv t).SWF := layExpr_swf (ketLayer kv) (ketLayer_inj kv) t none hnd hnone
    (fun e _ n hn => by
      simp only [ketLayer, gKetT, T.fresh, Node.nbrs, List.mem_append, List.mem_map]
      exact Or.inl ⟨n, List.mem_append.1 hn, rfl⟩)
    hokK hkv
  have hO : (opExpr ov opKids t).SWF := layExpr_swf ΛO
    (fun a b a' b' h => by simp only [ΛO, opLayer] at h; injection h with h1 h2; exact ⟨h1, h2⟩) t none hnd hnone
    (fun e he n hn => by
      simp only [ΛO, opLayer, gOpT, T.fresh, Node.nbrs, List.mem_append, List.mem_map]
      refine Or.inl ⟨n, ?_, rfl⟩
      rcases List.mem_append.1 hn with h | h
      · exact Or.inl h
      · exact Or.inr ((hperm e he).mem_iff.2 h))
    hokO hov
  have hB : (braExprK bv t).SWF := layExpr_swf ΛB
    (fun a b a' b' h => by simp only [ΛB, braLayerK] at h; injection h with h1 h2; exact ⟨h1, h2⟩) t none hnd hnone
    (fun e _ n hn => by
      simp only [ΛB, braLayerK, gBraT, T.fresh, Node.nbrs, List.mem_append, List.mem_map]
      exact Or.inl ⟨n, List.mem_append.1 hn, rfl⟩)
    hokB hbv
  have hLK := layExpr_leaves (ketLayer kv) t none
  have hLO := layExpr_leaves ΛO t none
  have hLB := layExpr_leaves ΛB t none
  have hsplit : (soLeaves opKids kv ov bv none t).Perm
      ((ketExpr kv t).leaves ++ ((opExpr ov opKids t).leaves ++ (braExprK bv t).leaves)) := by
    have h1 := treeLeaves_append (ketLayer kv).nodeLeaves
      (fun i p k => ΛO.nodeLeaves i p k ++ ΛB.nodeLeaves i p k) t none
    have h2 := treeLeaves_append ΛO.nodeLeaves ΛB.nodeLeaves t none
    exact h1.trans (List.Perm.append hLK.symm (h2.trans (List.Perm.append hLO.symm hLB.symm)))
  have hndAll : ((ketExpr kv t).labels ++ ((opExpr ov opKids t).labels ++ (braExprK bv t).labels)).Nodup := by
    have h1 := (hsplit.flatMap_right (·.1)).nodup_iff.1 hlab.1
    simpa [List.flatMap_append, ← Expr.labels_eq_leaves] using h1
  rw [List.nodup_append] at hndAll
  obtain ⟨_, hndOB, hdisK⟩ := hndAll
  rw [List.nodup_append] at hndOB
  have hKO : ∀ l ∈ (ketExpr kv t).labels, l ∉ (opExpr ov opKids t).labels :=
    fun l hl hl' => hdisK l hl l (List.mem_append.2 (Or.inl hl')) rfl
  have hKB : ∀ l ∈ (ketExpr kv t).labels, l ∉ (braExprK bv t).labels :=
    fun l hl hl' => hdisK l hl l (List.mem_append.2 (Or.inr hl')) rfl
  have hOB : ∀ l ∈ (opExpr ov opKids t).labels, l ∉ (braExprK bv t).labels :=
    fun l hl hl' => hndOB.2.2 l hl l hl' rfl
  have hmemInfo : ∀ n ∈ t.ids, ∃ x ∈ Tree.info none t, x.1 = n := by
    intro n hn
    rw [← Tree.info_keys none t] at hn
    obtain ⟨x, hx, rfl⟩ := List.mem_map.1 hn
    exact ⟨x, hx, rfl⟩
  have hin : ∀ p ∈ t.ids.map physIn, p.1 ∈ (ketExpr kv t).free ∧ p.2 ∈ (opExpr ov opKids t).free := by
    intro p hp
    obtain ⟨n, hn, rfl⟩ := List.mem_map.1 hp
    obtain ⟨x, hx, rfl⟩ := hmemInfo n hn
    constructor
    · apply layExpr_free_phys (ketLayer kv) _ (fun a b => by simp [physIn, ketLayer]) t none
      simp only [labelsOf, List.mem_flatMap]
      exact ⟨_, nodeLeaves_sub _ t none x hx _ (List.mem_singleton.2 rfl), by simp [ketLayer, gKetT, T.fresh, physIn]⟩
    · apply layExpr_free_phys ΛO _ (fun a b => by simp [physIn, ΛO, opLayer]) t none
      simp only [labelsOf, List.mem_flatMap]
      exact ⟨_, nodeLeaves_sub _ t none x hx _ (List.mem_singleton.2 rfl), by simp [ΛO, opLayer, gOpT, T.fresh, physIn]⟩
  have hout : ∀ p ∈ t.ids.map physOut, (p.1 ∈ (opExpr ov opKids t).free ∧ p.1 ∉ (t.ids.map physIn).map Prod.snd) ∧
      p.2 ∈ (braExprK bv t).free := by
    intro p hp
    obtain ⟨n, hn, rfl⟩ := List.mem_map.1 hp
    obtain ⟨x, hx, rfl⟩ := hmemInfo n hn
    refine ⟨⟨?_, by simp [physOut, physIn]⟩, ?_⟩
    · apply layExpr_free_phys ΛO _ (fun a b => by simp [physOut, ΛO, opLayer]) t none
      simp only [labelsOf, List.mem_flatMap]
      exact ⟨_, nodeLeaves_sub _ t none x hx _ (List.mem_singleton.2 rfl), by simp [ΛO, opLayer, gOpT, T.fresh, physOut]⟩
    · apply layExpr_free_phys ΛB _ (fun a b => by simp [physOut, ΛB, braLayerK]) t none
      simp only [labelsOf, List.mem_flatMap]
      exact ⟨_, nodeLeaves_sub _ t none x hx _ (List.mem_singleton.2 rfl), by simp [ΛB, braLayerK, gBraT, T.fresh, physOut]⟩
  have hKb : (ketExpr kv t).binds.Perm (t.edges.map fun e => ketEdge e.1 e.2) := by
    have := layExpr_binds (ketLayer kv) t none
    simpa [Layer.edge, ketLayer, ketEdge, ketExpr] using this
  have hOb : (opExpr ov opKids t).binds.Perm (t.edges.map fun e => opEdge e.1 e.2) := by
    have := layExpr_binds ΛO t none
    simpa [Layer.edge, ΛO, opLayer, opEdge, opExpr] using this
  have hBb : (braExprK bv t).binds.Perm (t.edges.map fun e => braEdge e.1 e.2) := by
    have := layExpr_binds ΛB t none
    simpa [Layer.edge, ΛB, braLayerK, braEdge, braExprK] using this
  have hspec : (t.ids.map physOut ++ ((t.ids.map physIn ++ ((ketExpr kv t).binds ++ (opExpr ov opKids t).binds)) ++
      (braExprK bv t).binds)).Perm (soSpec t) := by
    refine (List.Perm.append_left _ (List.Perm.append (List.Perm.append_left _ (List.Perm.append hKb hOb)) hBb)).trans ?_
    rw [List.perm_iff_count]
    intro x
    have := count_soSpec_split x t
    simp only [List.count_append] at this ⊢
    omega
  have hrec : (unordL e.binds).Perm (unordL (soSpec t)) :=
    (unordL_perm hbinds.symm).trans (soRootBinds_perm t)
  intro dim hdim σ
  apply Expr.sandwich_of_record dim e _ _ _ hswf hK.wf hO.wf hB.wf hKO hKB hOB _ _ (soSpec t) hin hout hspec hrec hdim _ σ
  intro τ
  rw [Expr.leafProd_of_leaves e _ (hleaves.trans hsplit) τ, List.map_append, List.map_append, prodL_append,
    prodL_append, mul_assoc]
  rfl

end Ptn.C04
