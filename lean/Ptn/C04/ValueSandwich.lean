import Ptn.C04.ValueReroot
/-! Value level: the orthogonality-centre shortcut of `single_site_operator_expectation_value` (builder B64).

The two-layer network `ket, bra` of the loop with ONE operator tensor `O` (legs `gOpOut c`, `gOpIn c`) inserted between
the physical legs of the centre `c`: its record is the specification graph `ssSpec t` with the physical pair of `c`
replaced by `(gKetPhys c, gOpIn c)`, `(gOpOut c, gBraPhys c)` (`sandwichSpec`).  Given the per-edge isometry toward `c`
(`IsoKids` of a re-rooting of `t` at `c`) it evaluates to the centre-only sandwich `Σ C·O·Cc`.
Also: `BondDims dim t` follows from `IsoKids` of the re-rooted tree.
Helper lemmas only; the property theorems are in `Props.lean`. -/
namespace Ptn.C04

open Ptn.Ein

/-- the pairs that replace the physical pair of the centre: ket open leg - operator input, operator output - bra -/
def opPairs (c : Nat) : List (Leg × Leg) :=
  [(Leg.gKetPhys c, Leg.gOpIn c), (Leg.gOpOut c, Leg.gBraPhys c)]

/-- the record of the single-site sandwich: `ssSpec t` with the physical pair of `c` replaced by `opPairs c` -/
def sandwichSpec (c : Nat) (t : Tree) : List (Leg × Leg) := opPairs c ++ (ssSpec t).erase (physPair c)

def isOpLeg : Leg → Bool
  | .gOpOut _ => true
  | .gOpIn _ => true
  | _ => false

mutual
theorem c04_ssSpec_noOp : ∀ (t : Tree) (x : Leg × Leg), x ∈ ssSpec t → isOpLeg x.1 = false ∧ isOpLeg x.2 = false
  | .node i ks, x, hx => by
    simp only [ssSpec, List.mem_cons] at hx
    rcases hx with rfl | hx
    · simp [physPair, isOpLeg]
    · exact c04_ssSpecL_noOp i ks x hx
theorem c04_ssSpecL_noOp (i : Nat) : ∀ (ks : List Tree) (x : Leg × Leg), x ∈ ssSpecL i ks →
    isOpLeg x.1 = false ∧ isOpLeg x.2 = false
  | [], x, hx => by simp [ssSpecL] at hx
  | c :: cs, x, hx => by
    simp only [ssSpecL, List.mem_cons, List.mem_append] at hx
    rcases hx with rfl | rfl | hx | hx
    · simp [ketEdge, isOpLeg]
    · simp [braEdge, isOpLeg]
    · exact c04_ssSpec_noOp c x hx
    · exact c04_ssSpecL_noOp i cs x hx
end

theorem c04_pairLegs_noOp (t : Tree) (l : Leg) (hl : l ∈ Expr.pairLegs (ssSpec t)) : isOpLeg l = false := by
  simp only [Expr.pairLegs, List.mem_append, List.mem_map] at hl
  rcases hl with ⟨x, hx, rfl⟩ | ⟨x, hx, rfl⟩
  · exact (c04_ssSpec_noOp t x hx).1
  · exact (c04_ssSpec_noOp t x hx).2

theorem c04_pairLegs_erase_nodup {L : Type} [DecidableEq L] (l : List (L × L)) (p : L × L)
    (h : (Expr.pairLegs l).Nodup) : (Expr.pairLegs (l.erase p)).Nodup := by
  unfold Expr.pairLegs at h ⊢
  exact h.sublist (List.Sublist.append ((List.erase_sublist (a := p) (l := l)).map _)
    ((List.erase_sublist (a := p) (l := l)).map _))

section
set_option linter.unusedSectionVars false
variable {R : Type} [CommSemiring R]

/-! ### re-rooting with the physical pair of the centre taken out -/

theorem c04_reroot_value_erase (dim : Leg → Nat) {t t' : Tree} (h : Rerooted t t') (hd : BondDims dim t)
    (hnd : (Expr.pairLegs (ssSpec t)).Nodup) (c : Nat) (f : Asg Leg → R) (σ : Asg Leg) :
    sumPairs dim ((ssSpec t').erase (physPair c)) f σ = sumPairs dim ((ssSpec t).erase (physPair c)) f σ := by
  induction h generalizing σ with
  | refl => rfl
  | step r j pre post js hr ih =>
    have hd' := c04_reroot_dims dim hr hd (r, j) (by simp [Tree.edges, Tree.edgesL, c04_edgesL_append, Tree.id])
    have hnd' := c04_pairLegs_erase_nodup _ (physPair c) ((ssSpec_reroot_legs hr).nodup_iff.2 hnd)
    have h1 := (c04_step_spec_old r j pre post js).erase (physPair c)
    have h2 := (c04_step_spec_new r j pre post js).erase (physPair c)
    have e1 : ∀ rest : List (Leg × Leg), (ketEdge r j :: braEdge r j :: rest).erase (physPair c) =
        ketEdge r j :: braEdge r j :: rest.erase (physPair c) := by
      intro rest; simp [ketEdge, braEdge, physPair]
    have e2 : ∀ rest : List (Leg × Leg), ((ketEdge r j).swap :: (braEdge r j).swap :: rest).erase (physPair c) =
        (ketEdge r j).swap :: (braEdge r j).swap :: rest.erase (physPair c) := by
      intro rest; simp [ketEdge, braEdge, physPair]
    rw [e1] at h1
    rw [e2] at h2
    rw [c04_sumPairs_flip2 dim _ _ _ _ _ h1 h2 hnd' hd'.1 hd'.2.symm f σ]
    exact ih σ

/-! ### `BondDims` from the isometry hypothesis of the re-rooted tree -/

variable (kv bv : Nat → Asg Leg → R) (braKids : Nat → List Nat)

mutual
theorem c04_iso_bonds_sub (dim : Leg → Nat) (p : Nat) : ∀ t : Tree, IsoSub kv bv dim p t → BondDims dim t
  | .node i ks, hiso => c04_iso_bonds_kids dim i ks hiso.2.2
theorem c04_iso_bonds_kids (dim : Leg → Nat) (i : Nat) : ∀ ks : List Tree, IsoKids kv bv dim i ks →
    ∀ e ∈ Tree.edgesL i ks,
      dim (Leg.gKet e.1 e.2) = dim (Leg.gKet e.2 e.1) ∧ dim (Leg.gBra e.1 e.2) = dim (Leg.gBra e.2 e.1)
  | [], _, e, he => by simp [Tree.edgesL] at he
  | c :: cs, hiso, e, he => by
    obtain ⟨hd1, hd2, hs, hr⟩ := hiso
    simp only [Tree.edgesL, List.mem_cons, List.mem_append] at he
    rcases he with rfl | he | he
    · exact ⟨hd1, hd2⟩
    · exact c04_iso_bonds_sub dim i c hs e he
    · exact c04_iso_bonds_kids dim i cs hr e he
end

theorem c04_step_edges_rev (r j : Nat) (pre post js : List Tree) (e : Nat × Nat)
    (he : e ∈ Tree.edges (.node r (pre ++ .node j js :: post))) :
    e = (r, j) ∨ e ∈ Tree.edges (.node j (js ++ [.node r (pre ++ post)])) := by
  simp only [Tree.edges, Tree.edgesL, c04_edgesL_append, Tree.id, List.mem_append, List.mem_cons,
    List.not_mem_nil, or_false] at he ⊢
  tauto

theorem c04_reroot_dims_rev (dim : Leg → Nat) {t t' : Tree} (h : Rerooted t t') (hd : BondDims dim t') :
    BondDims dim t := by
  induction h with
  | refl => exact hd
  | step r j pre post js _ ih =>
    apply ih
    intro e he
    rcases c04_step_edges_rev r j pre post js e he with rfl | he'
    · have := hd (j, r) (by simp [Tree.edges, Tree.edgesL, c04_edgesL_append, Tree.id])
      exact ⟨this.1.symm, this.2.symm⟩
    · exact hd e he'

/-- **`BondDims` is implied by the isometry hypothesis of the re-rooted tree** -/
theorem c04_bondDims_of_isoKids (dim : Leg → Nat) (t : Tree) (c : Nat) (ks : List Tree)
    (hr : Rerooted t (.node c ks)) (hiso : IsoKids kv bv dim c ks) : BondDims dim t :=
  c04_reroot_dims_rev dim hr (c04_iso_bonds_kids kv bv dim c ks hiso)

/-! ### locality along a re-rooting, canonicity of the centre structure -/

theorem c04_reroot_local {t t' : Tree} (hr : Rerooted t t')
    (hloc : ∀ e ∈ Tree.info none t, NodeLocal kv bv braKids e)
    (tab : Nat → Option Nat × List Nat) (htab : ∀ e ∈ Tree.info none t', tab e.1 = e.2) :
    ∀ e ∈ Tree.info none t', NodeLocal kv bv (fun i => (tab i).2) e := by
  intro e' he'
  obtain ⟨e, he, hid, hn⟩ := c04_reroot_nbrs hr e' he'
  obtain ⟨h1, h2, h3⟩ := hloc e he
  have ht : (tab e'.1).2 = e'.2.2 := by rw [htab e' he']
  refine ⟨?_, ?_, by show ((tab e'.1).2).Perm _; rw [ht]⟩
  · rw [← hid]
    refine h1.mono ?_
    intro l hl
    simp only [gKetT, T.fresh, Node.nbrs, List.mem_append, List.mem_map, List.mem_singleton] at hl ⊢
    rcases hl with ⟨n, hn', rfl⟩ | rfl
    · exact Or.inl ⟨n, List.mem_append.1 ((hn n).2 (List.mem_append.2 hn')), rfl⟩
    · exact Or.inr rfl
  · simp only [ht]
    rw [← hid]
    refine h2.mono ?_
    intro l hl
    simp only [gBraT, T.fresh, Node.nbrs, List.mem_append, List.mem_map, List.mem_singleton] at hl ⊢
    rcases hl with ⟨n, hn', rfl⟩ | rfl
    · refine Or.inl ⟨n, List.mem_append.1 ((hn n).2 (List.mem_append.2 ?_)), rfl⟩
      rcases hn' with h | h
      · exact Or.inl h
      · exact Or.inr (h3.mem_iff.1 h)
    · exact Or.inr rfl

theorem c04_centre_canon (dim : Leg → Nat) (c : Nat) (ks : List Tree)
    (hloc : ∀ e ∈ Tree.info none (.node c ks), NodeLocal kv bv braKids e)
    (hiso : IsoKids kv bv dim c ks) : (c04CentreOf kv bv (.node c ks)).Canon dim := by
  obtain ⟨h1, h2, h3⟩ := hloc (c, none, ks.map Tree.id) (by simp [Tree.info])
  refine ⟨h1.mono ?_, h2.mono ?_, c04_kids_canon kv bv braKids dim c ks
    (fun e he => hloc e (by simp [Tree.info, he])) hiso⟩
  · intro l hl
    simp only [c04CentreOf, c04_kids_kd]
    simp only [gKetT, T.fresh, Node.nbrs, Option.toList, List.nil_append, List.mem_append, List.mem_map,
      List.mem_singleton] at hl
    simp only [List.mem_append, List.mem_map, physPair]
    rcases hl with ⟨n, hn, rfl⟩ | rfl
    · exact Or.inr ⟨n, by simpa using hn, rfl⟩
    · simp
  · intro l hl
    simp only [c04CentreOf, c04_kids_bd]
    simp only [gBraT, T.fresh, Node.nbrs, Option.toList, List.nil_append, List.mem_append, List.mem_map,
      List.mem_singleton] at hl
    simp only [List.mem_append, List.mem_map, physPair]
    rcases hl with ⟨n, hn, rfl⟩ | rfl
    · exact Or.inr ⟨n, by simpa using h3.mem_iff.1 hn, rfl⟩
    · simp

theorem c04_centre_labels_perm (t : Tree) :
    (c04CentreOf kv bv t).labels.Perm (Expr.pairLegs (ssSpec t)) := by
  have h1 : (c04CentreOf kv bv t).labels.Perm (Expr.pairLegs (c04CentreOf kv bv t).normBinds) := by
    unfold Centre.labels Centre.normBinds
    exact (List.Perm.append_left _ (Kids.labels_perm _)).trans (Expr.pairLegs_append _ _).symm
  rw [c04_centre_normBinds] at h1
  exact h1.trans (c04_pairLegs_flipIf _ _)

/-! ### the sandwich at the root -/

/-- **the single-site sandwich seen from the root**: every non-root node an isometry toward the root: the network
`ket, O, bra` (the operator bound to the open legs of the root, every other physical pair and every bond closed) has
the value of the three tensors of the root alone -/
theorem c04_root_sandwich_netValue (dim : Leg → Nat) (c : Nat) (ks : List Tree)
    (hloc : ∀ e ∈ Tree.info none (.node c ks), NodeLocal kv bv braKids e)
    (hiso : IsoKids kv bv dim c ks) (hnd : (Expr.pairLegs (ssSpec (.node c ks))).Nodup)
    (O : Asg Leg → R) (hO : DependsOn (· ∈ [Leg.gOpOut c, Leg.gOpIn c]) O) (σ : Asg Leg) :
    netValue dim (opPairs c ++ ssSpecL c ks)
        ([kv c, O, bv c] ++ (treeLeavesL (ssNodeLeaves braKids kv bv) c ks).map Prod.snd) σ =
      netValue dim (opPairs c ++ downPairs c ks) [kv c, O, bv c] σ := by
  have hc := c04_centre_canon kv bv braKids dim c ks hloc hiso
  have hndl := c04_centre_labels_nodup kv bv _ hnd
  obtain ⟨hC, hCc⟩ := c04_centre_C_outside dim _ hc hndl
  have hk : (c04KidsOf kv bv c ks).labels.Nodup := by
    have := hndl
    simp only [Centre.labels, List.nodup_append] at this
    exact this.2.1
  have hO' : DependsOn (· ∉ (c04KidsOf kv bv c ks).inner) O := by
    refine hO.mono ?_
    intro l hl hi
    have hl' : l ∈ (c04CentreOf kv bv (.node c ks)).labels := by
      simp only [Centre.labels, c04CentreOf, List.mem_append]
      exact Or.inr (Kids.inner_sub _ l hi)
    have := c04_pairLegs_noOp _ l ((c04_centre_labels_perm kv bv _).mem_iff.1 hl')
    simp only [List.mem_cons, List.not_mem_nil, or_false] at hl
    rcases hl with rfl | rfl <;> simp [isOpLeg] at this
  have key := c04_env_absorb dim (c04KidsOf kv bv c ks) hc.2.2 hk (opPairs c) [kv c, O, bv c] (by
    intro f hf
    simp only [List.mem_cons, List.not_mem_nil, or_false] at hf
    rcases hf with rfl | rfl | rfl
    · exact hC
    · exact hO'
    · exact hCc) σ
  rw [c04_kids_binds, c04_kids_leaves kv bv braKids, c04_kids_pairs] at key
  rw [← key]
  unfold netValue
  rw [sumPairs_append, sumPairs_append]
  apply sumPairs_congr
  intro τ
  exact (c04_sumPairs_flipIf dim isBraEdge _ (c04_iso_dims_kids kv bv dim c ks hiso) _ τ).symm

/-! ### the sandwich at any centre -/

/-- **the single-site sandwich of the loop's network, seen from any centre**: `node c ks` a re-rooting of `t`, every
other node an isometry toward `c`: the flat network of `sandwichSpec c t` over the operator tensor and the leaves of
the loop on `t` has the value `Σ C·O·Cc` of the three tensors at `c` alone -/
theorem c04_centre_sandwich_netValue (dim : Leg → Nat) (t : Tree) (hids : t.ids.Nodup) (c : Nat) (ks : List Tree)
    (hr : Rerooted t (.node c ks))
    (hloc : ∀ e ∈ Tree.info none t, NodeLocal kv bv braKids e)
    (hiso : IsoKids kv bv dim c ks) (hnd : (Expr.pairLegs (ssSpec t)).Nodup)
    (O : Asg Leg → R) (hO : DependsOn (· ∈ [Leg.gOpOut c, Leg.gOpIn c]) O) (σ : Asg Leg) :
    netValue dim (sandwichSpec c t) (O :: (ssLeaves braKids kv bv none t).map Prod.snd) σ =
      netValue dim (opPairs c ++ downPairs c ks) [kv c, O, bv c] σ := by
  have hd : BondDims dim t := c04_bondDims_of_isoKids kv bv dim t c ks hr hiso
  have hids' : (Tree.ids (.node c ks)).Nodup := (c04_reroot_ids hr).nodup_iff.2 hids
  obtain ⟨tab, htab⟩ := c04_table_fn (β := Option Nat × List Nat) (none, []) (Tree.info none (.node c ks))
    (by rw [Tree.info_keys]; exact hids')
  have hloc' := c04_reroot_local kv bv braKids hr hloc tab htab
  have hnd' := (ssSpec_reroot_legs hr).nodup_iff.2 hnd
  rw [← c04_root_sandwich_netValue kv bv (fun i => (tab i).2) dim c ks hloc' hiso hnd' O hO σ]
  have e1 : ssSpecL c ks = (ssSpec (.node c ks)).erase (physPair c) := by simp [ssSpec]
  unfold netValue sandwichSpec
  rw [sumPairs_append, sumPairs_append, e1]
  apply sumPairs_congr
  intro τ
  rw [c04_reroot_value_erase dim hr hd hnd c _ τ]
  apply sumPairs_congr
  intro ρ
  have hp := ssLeaves_reroot_perm kv bv braKids hr (fun i => (tab i).2)
  have hl : (ssLeaves (fun i => (tab i).2) kv bv none (.node c ks)).map Prod.snd =
      kv c :: bv c :: (treeLeavesL (ssNodeLeaves (fun i => (tab i).2) kv bv) c ks).map Prod.snd := by
    simp [ssLeaves, treeLeaves, ssNodeLeaves]
  rw [hl] at hp
  have := prodL_perm ((hp.map (fun f => f ρ)))
  simp only [List.map_cons, prodL, List.cons_append, List.nil_append] at this ⊢
  rw [← this]
  exact mul_left_comm _ _ _

end

end Ptn.C04
