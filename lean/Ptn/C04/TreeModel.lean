import Ptn.C04.Model
/-! Tree-level model for C04 (core Lean only): `contract_two_ttns` and `expectation_value` as they are
written — a loop over `linearise()` (children before parents, the root last) with the block dictionary
(`add_entry` / `delete_entry` / `get_entry`) and the root step — on top of the per-node helpers of
`Model.lean`, with GLOBAL leg labels (`gKet i n`: the leg of node `i`'s ket tensor toward neighbour `n`).
The result is the complete list of bound leg pairs of the whole contraction and the free legs left. -/
namespace Ptn.C04

inductive Tree where
  | node (id : Nat) (kids : List Tree)

namespace Tree

def id : Tree → Nat
  | node i _ => i

def kids : Tree → List Tree
  | node _ ks => ks

mutual
/-- identifiers in preorder -/
def ids : Tree → List Nat
  | node i ks => i :: idsL ks
def idsL : List Tree → List Nat
  | [] => []
  | t :: ts => ids t ++ idsL ts
end

mutual
/-- `linearise()`: every node after its children -/
def post : Tree → List Nat
  | node i ks => postL ks ++ [i]
def postL : List Tree → List Nat
  | [] => []
  | t :: ts => post t ++ postL ts
end

mutual
/-- every node with its parent and its ordered child identifiers -/
def info (p : Option Nat) : Tree → List (Nat × Option Nat × List Nat)
  | node i ks => (i, p, ks.map Tree.id) :: infoL i ks
def infoL (p : Nat) : List Tree → List (Nat × Option Nat × List Nat)
  | [] => []
  | t :: ts => info (some p) t ++ infoL p ts
end

end Tree

/-- what the contraction routines read of a network -/
structure Net where
  root : Nat
  node : Nat → Option Node          -- `ttn.nodes[id]` (none: KeyError)
  tensor : Nat → Option T           -- `ttn.tensors[id]`
  order : List Nat                  -- `ttn.linearise()`

/-- the network of a tree whose node `i` has the child order `kidsOf i` (a table read off the tree) and
whose tensors are `mkT i node` -/
def netOf (t : Tree) (childOrder : Nat → List Nat → List Nat) (mkT : Nat → Node → T) : Net :=
  let table := (Tree.info none t).map fun e => (e.1, (⟨e.2.1, childOrder e.1 e.2.2⟩ : Node))
  { root := t.id
    node := fun i => (table.find? (·.1 == i)).map (·.2)
    tensor := fun i => (table.find? (·.1 == i)).map (fun e => mkT i e.2)
    order := t.post }

def gKetT (i : Nat) (nd : Node) : T := T.fresh (nd.nbrs.map (Leg.gKet i) ++ [Leg.gKetPhys i])
def gBraT (i : Nat) (nd : Node) : T := T.fresh (nd.nbrs.map (Leg.gBra i) ++ [Leg.gBraPhys i])
def gOpT (i : Nat) (nd : Node) : T := T.fresh (nd.nbrs.map (Leg.gOp i) ++ [Leg.gOpOut i, Leg.gOpIn i])

/-! ### the block dictionary -/

abbrev Dict := Nat × Nat → Option T

def Dict.empty : Dict := fun _ => none
/-- `add_entry(node_id, next_node_id, tensor)` -/
def Dict.add (d : Dict) (k : Nat × Nat) (v : T) : Dict := fun k' => if k' = k then some v else d k'
/-- `delete_entry(node_id, next_node_id)`: `KeyError` when absent -/
def Dict.delete (d : Dict) (k : Nat × Nat) : Option Dict :=
  if (d k).isSome then some (fun k' => if k' = k then none else d k') else none

def Dict.deleteAll : Dict → List (Nat × Nat) → Option Dict
  | d, [] => some d
  | d, k :: ks =>
    match d.delete k with
    | none => none
    | some d1 => Dict.deleteAll d1 ks

/-- the cache as a node sees it: `get_entry(neighbour_id, node.identifier)` -/
def Dict.cacheOf (d : Dict) (i : Nat) : Cache := fun n => d (n, i)

/-! ### contract_two_ttns -/

/-- `state_state_contraction.contract_any` -/
def ssContractAny (nodeId next : Nat) (s1 s2 : Net) (d : Dict) : Option T :=
  match s1.node nodeId, s1.tensor nodeId, s2.node nodeId, s2.tensor nodeId with
  | some n1, some t1, some n2, some t2 => contractAnyNodes next n1 n2 t1 t2 (d.cacheOf nodeId) id
  | _, _, _, _ => none

/-- one iteration of the loop of `contract_two_ttns` -/
def ssStep (s1 s2 : Net) (d : Dict) (nodeId : Nat) : Option Dict :=
  match s1.node nodeId with
  | none => none
  | some node =>
    match node.parent with
    | none => none                      -- `next_node_id = None` is no neighbour
    | some parentId =>
      match ssContractAny nodeId parentId s1 s2 d with
      | none => none
      | some block => (d.add (nodeId, parentId) block).deleteAll (node.children.map (fun c => (c, nodeId)))

def ssLoop (s1 s2 : Net) : List Nat → Dict → Option Dict
  | [], d => some d
  | i :: rest, d =>
    match ssStep s1 s2 d i with
    | none => none
    | some d1 => ssLoop s1 s2 rest d1

/-- `contract_node_with_environment(node_id, state1, state2, dictionary)` -/
def ssContractNodeWithEnvironment (nodeId : Nat) (s1 s2 : Net) (d : Dict) : Option T :=
  match s1.node nodeId, s1.tensor nodeId, s2.node nodeId, s2.tensor nodeId with
  | some n1, some t1, some n2, some t2 => contractNodeWithEnvironmentNodes n1 t1 n2 t2 (d.cacheOf nodeId)
  | _, _, _, _ => none

/-- `contract_two_ttns(ttn1, ttn2)` -/
def contractTwoTtns (s1 s2 : Net) : Option T :=
  let order := s1.order
  if order.getLast? ≠ some s1.root ∨ order.getLast? ≠ some s2.root then none     -- the two asserts
  else
    match ssLoop s1 s2 order.dropLast Dict.empty with
    | none => none
    | some d => ssContractNodeWithEnvironment s1.root s1 s2 d

/-! ### expectation_value -/

/-- `state_operator_contraction.contract_any`: the bra is the conjugated ket tensor on the ket's node -/
def soContractAny (nodeId next : Nat) (state op : Net) (braOf : Nat → Node → T) (d : Dict) : Option T :=
  match state.node nodeId, state.tensor nodeId, op.node nodeId, op.tensor nodeId with
  | some n1, some t1, some n2, some t2 =>
    opContractAnyNodeEnvironmentButOne next n1 t1 n2 t2 (d.cacheOf nodeId) n1 (braOf nodeId n1) id id
  | _, _, _, _ => none

def soStep (state op : Net) (braOf : Nat → Node → T) (d : Dict) (nodeId : Nat) : Option Dict :=
  match state.node nodeId with
  | none => none
  | some node =>
    match node.parent with
    | none => none
    | some parentId =>
      match soContractAny nodeId parentId state op braOf d with
      | none => none
      | some block => (d.add (nodeId, parentId) block).deleteAll (node.children.map (fun c => (c, nodeId)))

def soLoop (state op : Net) (braOf : Nat → Node → T) : List Nat → Dict → Option Dict
  | [], d => some d
  | i :: rest, d =>
    match soStep state op braOf d i with
    | none => none
    | some d1 => soLoop state op braOf rest d1

def soContractNodeWithEnvironment (nodeId : Nat) (state op : Net) (braOf : Nat → Node → T) (d : Dict) :
    Option T :=
  match state.node nodeId, state.tensor nodeId, op.node nodeId, op.tensor nodeId with
  | some n1, some t1, some n2, some t2 =>
    opContractNodeWithEnvironment n1 t1 n2 t2 (braOf nodeId n1) (d.cacheOf nodeId)
  | _, _, _, _ => none

/-- `expectation_value(state, operator)` -/
def expectationValue (state op : Net) (braOf : Nat → Node → T) : Option T :=
  let order := state.order
  if order.getLast? ≠ some state.root ∨ order.getLast? ≠ some op.root then none
  else
    match soLoop state op braOf order.dropLast Dict.empty with
    | none => none
    | some d => soContractNodeWithEnvironment state.root state op braOf d

/-! ### the specification graph and the order in which the code produces it -/

/-- ket legs of the edge `p — c` -/
def ketEdge (p c : Nat) : Leg × Leg := (Leg.gKet p c, Leg.gKet c p)
/-- bra legs of the edge `p — c` (in the orientation in which the code binds them) -/
def braEdge (p c : Nat) : Leg × Leg := (Leg.gBra c p, Leg.gBra p c)
def physPair (i : Nat) : Leg × Leg := (Leg.gKetPhys i, Leg.gBraPhys i)

namespace Tree
mutual
/-- the edges `(parent, child)` of a tree -/
def edges : Tree → List (Nat × Nat)
  | node i ks => edgesL i ks
def edgesL (i : Nat) : List Tree → List (Nat × Nat)
  | [] => []
  | c :: cs => (i, c.id) :: (edges c ++ edgesL i cs)
end
end Tree

mutual
/-- SPECIFICATION GRAPH of `Σ ket·bra`: for every node its physical pair, for every edge its ket pair
and its bra pair -/
def ssSpec : Tree → List (Leg × Leg)
  | .node i ks => physPair i :: ssSpecL i ks
def ssSpecL (i : Nat) : List Tree → List (Leg × Leg)
  | [] => []
  | c :: cs => ketEdge i c.id :: braEdge i c.id :: (ssSpec c ++ ssSpecL i cs)
end

mutual
/-- the bindings carried by the block of a (non-root) subtree, in the order the code produces them -/
def ssBlockBinds : Tree → List (Leg × Leg)
  | .node i ks => ssKidsBinds i ks ++ ((ks.map fun c => braEdge i c.id) ++ [physPair i])
def ssKidsBinds (i : Nat) : List Tree → List (Leg × Leg)
  | [] => []
  | c :: cs => (ssBlockBinds c ++ [ketEdge i c.id]) ++ ssKidsBinds i cs
end

/-- the bindings of the whole contraction (the root step runs over the BRA's child order) -/
def ssRootBinds (t : Tree) (braRootKids : List Nat) : List (Leg × Leg) :=
  ssKidsBinds t.id t.kids ++ (braRootKids.map (braEdge t.id) ++ [physPair t.id])

/-- the cached block of subtree `c` toward its parent `i` -/
def ssBlock (c : Tree) (i : Nat) : T := ⟨[Leg.gKet c.id i, Leg.gBra c.id i], ssBlockBinds c⟩

/-! ### the same for `<psi|O|psi>` -/

/-- operator legs of the edge `p — c` -/
def opEdge (p c : Nat) : Leg × Leg := (Leg.gOp c p, Leg.gOp p c)
/-- the operator's INPUT leg meets the ket -/
def physIn (i : Nat) : Leg × Leg := (Leg.gKetPhys i, Leg.gOpIn i)
/-- the operator's OUTPUT leg meets the bra -/
def physOut (i : Nat) : Leg × Leg := (Leg.gOpOut i, Leg.gBraPhys i)

mutual
/-- SPECIFICATION GRAPH of `<psi|O|psi>` -/
def soSpec : Tree → List (Leg × Leg)
  | .node i ks => physIn i :: physOut i :: soSpecL i ks
def soSpecL (i : Nat) : List Tree → List (Leg × Leg)
  | [] => []
  | c :: cs => ketEdge i c.id :: opEdge i c.id :: braEdge i c.id :: (soSpec c ++ soSpecL i cs)
end

mutual
/-- the bindings carried by the block of a (non-root) subtree, in the order the code produces them
(`contract_leaf` for a leaf, `contract_subtrees_using_dictionary` otherwise) -/
def soBlockBinds : Tree → List (Leg × Leg)
  | .node i ks =>
    if ks.isEmpty then [physOut i, physIn i]
    else (soKidsBinds i ks ++ ((ks.map fun c => opEdge i c.id) ++ [physIn i])) ++
         ((ks.map fun c => braEdge i c.id) ++ [physOut i])
def soKidsBinds (i : Nat) : List Tree → List (Leg × Leg)
  | [] => []
  | c :: cs => (soBlockBinds c ++ [ketEdge i c.id]) ++ soKidsBinds i cs
end

/-- the bindings of the whole contraction; the root step binds bra-side pairs in the other orientation -/
def soRootBinds (t : Tree) : List (Leg × Leg) :=
  (soKidsBinds t.id t.kids ++ ((t.kids.map fun c => opEdge t.id c.id) ++ [physIn t.id])) ++
  ((t.kids.map fun c => (braEdge t.id c.id).swap) ++ [(physOut t.id).swap])

def soBlock (c : Tree) (i : Nat) : T := ⟨[Leg.gKet c.id i, Leg.gOp c.id i, Leg.gBra c.id i], soBlockBinds c⟩

/-! ### `TTNO.as_matrix` on top of `completely_contract_tree`

`_completely_contract_tree_rec` appends the current node to the contraction order and then, for every
child of a snapshot of its child list, contracts the child's whole subtree into the child and the child
into the current node (`contract_nodes`, i.e. `_data_contraction`: `tensordot(parent, child,
axes=(parent.neighbour_index(child), 0))`).  A child that is contracted into its parent has no children
left, so the tensordot order `(parent's remaining legs, child's open legs)` IS the documented leg order of
`contract_nodes`; the lazily stored permutation of the real implementation is not modelled (C02). -/

mutual
def ccTree (p : Option Nat) : Tree → Option (List Nat × T)
  | .node i ks => ccKids i p ks (ks.map Tree.id) [i] (gOpT i ⟨p, ks.map Tree.id⟩)
/-- the loop over the children; `remaining` = the current node's child list, `order` the contraction order -/
def ccKids (i : Nat) (p : Option Nat) : List Tree → List Nat → List Nat → T → Option (List Nat × T)
  | [], _, order, cur => some (order, cur)
  | c :: cs, remaining, order, cur =>
    match ccTree (some i) c with
    | none => none
    | some (oc, tc) =>
      match (Node.mk p remaining).neighbourIndex c.id with
      | none => none
      | some idx =>
        match tensordot cur tc [idx] [0] with
        | none => none
        | some cur' => ccKids i p cs (remaining.erase c.id) (order ++ oc) cur'
end

/-- `as_matrix`: `(order, row legs, column legs, bound pairs)`; the permutation
`range(0, ndim, 2) + range(1, ndim, 2)` followed by the reshape to `(dim, dim)` -/
def asMatrix (t : Tree) : Option (List Nat × List Leg × List Leg × List (Leg × Leg)) :=
  match ccTree none t with
  | none => none
  | some (order, ten) =>
    let half := ten.legs.length / 2
    match pick ten.legs ((List.range half).map (fun k => 2 * k)),
          pick ten.legs ((List.range half).map (fun k => 2 * k + 1)) with
    | some rows, some cols => if ten.legs.length = 2 * half then some (order, rows, cols, ten.binds) else none
    | _, _ => none

mutual
def ccBinds : Tree → List (Leg × Leg)
  | .node i ks => ccKidsBinds i ks
def ccKidsBinds (i : Nat) : List Tree → List (Leg × Leg)
  | [] => []
  | c :: cs => (ccBinds c ++ [(Leg.gOp i c.id, Leg.gOp c.id i)]) ++ ccKidsBinds i cs
end

end Ptn.C04
