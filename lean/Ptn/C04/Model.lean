/-! Model for property C04 (core Lean only; no Mathlib). -/
namespace Ptn.C04
end Ptn.C04
