/-! Model for property C04 (core Lean only): a LEG-LABEL CALCULUS for the index arithmetic of
`pytreenet/contractions/{contraction_util,state_state_contraction,state_operator_contraction}.py`.

A tensor is the list of the labels of its legs (in axis order) together with the list of label pairs
that have been bound (summed over) while it was built.  `tensordot a b ia ib` does what NumPy does to
the axes: it rejects index lists of unequal length, repeated or out-of-range indices, binds the
paired legs — whether or not the pairing is the intended one — and returns `a`'s remaining legs
followed by `b`'s remaining legs.  Dimensions are not modelled (the harness runs the real helpers on
pairwise distinct prime dimensions, so that a wrong pairing cannot even be executed there).

Ported literally (Python name ↔ Lean name):

 contraction_util
  determine_index_with_ignored_leg                   ↔ determineIndexWithIgnoredLeg
  get_equivalent_legs                                ↔ getEquivalentLegs
  contract_neighbour_block_to_ket                    ↔ contractNeighbourBlockToKet
  contract_neighbour_block_to_ket_ignore_one_leg     ↔ contractNeighbourBlockToKetIgnoreOneLeg
  contract_all_but_one_neighbour_block_to_ket        ↔ contractAllButOneNeighbourBlockToKet
  contract_all_neighbour_blocks_to_ket               ↔ contractAllNeighbourBlocksToKet
  …_to_hamiltonian (4 functions)                     ↔ …ToHamiltonian
 state_state_contraction
  contract_leafs                                     ↔ contractLeafs
  contract_bra_to_ket_and_blocks                     ↔ contractBraToKetAndBlocks
  contract_bra_to_ket_and_blocks_ignore_one_leg      ↔ contractBraToKetAndBlocksIgnoreOneLeg
  contract_subtrees_using_dictionary                 ↔ contractSubtreesUsingDictionary
  contract_any_nodes                                 ↔ contractAnyNodes
  contract_node_with_environment_nodes               ↔ contractNodeWithEnvironmentNodes
 state_operator_contraction
  contract_leaf                                      ↔ opContractLeaf
  contract_operator_tensor_ignoring_one_leg          ↔ contractOperatorTensorIgnoringOneLeg
  contract_bra_tensor_ignore_one_leg                 ↔ contractBraTensorIgnoreOneLeg
  contract_subtrees_using_dictionary                 ↔ opContractSubtreesUsingDictionary
  contract_any_node_environment_but_one              ↔ opContractAnyNodeEnvironmentButOne
  contract_node_with_environment                     ↔ opContractNodeWithEnvironment
-/
namespace Ptn.C04

/-- Leg labels.  `ketNb n`: the leg of the ket tensor toward neighbour `n`; `blkKet n` / `blkOp n` /
`blkBra n`: the legs of the cached block of the subtree behind neighbour `n` that belong to the ket /
operator / bra layer; `opOut`, `opIn`: output (first open) and input (second open) leg of an operator. -/
inductive Leg where
  | ketNb (n : Nat) | ketPhys
  | braNb (n : Nat) | braPhys
  | opNb (n : Nat) | opOut | opIn
  | blkKet (n : Nat) | blkOp (n : Nat) | blkBra (n : Nat)
  -- global labels (tree level): `gKet i n` = the leg of the ket tensor OF NODE `i` toward neighbour `n`, …
  | gKet (i n : Nat) | gKetPhys (i : Nat)
  | gBra (i n : Nat) | gBraPhys (i : Nat)
  | gOp (i n : Nat) | gOpOut (i : Nat) | gOpIn (i : Nat)
  deriving DecidableEq, Repr

structure T where
  legs : List Leg
  binds : List (Leg × Leg)
  deriving DecidableEq, Repr

def T.fresh (legs : List Leg) : T := ⟨legs, []⟩

/-- the legs at positions (counted from `k`) not listed in `idx`, in order: NumPy's `notin` -/
def remaining (idx : List Nat) : Nat → List Leg → List Leg
  | _, [] => []
  | k, x :: xs => if idx.contains k then remaining idx (k + 1) xs else x :: remaining idx (k + 1) xs

/-- the legs at the listed positions (`none`: an index is out of range) -/
def pick (l : List Leg) : List Nat → Option (List Leg)
  | [] => some []
  | i :: is =>
    match l[i]?, pick l is with
    | some x, some xs => some (x :: xs)
    | _, _ => none

/-- `numpy.tensordot(a, b, axes=(ia, ib))` on labels -/
def tensordot (a b : T) (ia ib : List Nat) : Option T :=
  if ia.length ≠ ib.length then none            -- "shape-mismatch for sum"
  else if ¬ ia.Nodup ∨ ¬ ib.Nodup then none    -- "repeated axis in transpose"
  else
    match pick a.legs ia, pick b.legs ib with   -- IndexError / AxisError
    | some la, some lb =>
      some ⟨remaining ia 0 a.legs ++ remaining ib 0 b.legs, a.binds ++ b.binds ++ la.zip lb⟩
    | _, _ => none

/-! ### nodes -/

structure Node where
  parent : Option Nat
  children : List Nat
  deriving DecidableEq, Repr

namespace Node

def nparents (nd : Node) : Nat := if nd.parent.isSome then 1 else 0
/-- `neighbouring_nodes()`: the parent (if any) first, then the children -/
def nbrs (nd : Node) : List Nat := nd.parent.toList ++ nd.children
/-- `nneighbours()` -/
def nn (nd : Node) : Nat := nd.children.length + nd.nparents
def isLeaf (nd : Node) : Bool := nd.children.isEmpty

/-- `neighbour_index`: 0 for the parent, `children.index(id) + nparents()` for a child, else
`NoConnectionException` -/
def neighbourIndex (nd : Node) (n : Nat) : Option Nat :=
  if nd.parent = some n then some 0
  else if n ∈ nd.children then some (nd.children.idxOf n + nd.nparents)
  else none

end Node

abbrev Cache := Nat → Option T      -- `partial_tree_cache.get_entry(neighbour_id, node.identifier)`
abbrev Trafo := Nat → Nat           -- `id_trafo` (the identity when `None`)

/-! ### contraction_util -/

def determineIndexWithIgnoredLeg (nd : Node) (neighbourId ignoringId : Nat) : Option Nat :=
  match nd.neighbourIndex neighbourId, nd.neighbourIndex ignoringId with
  | some ni, some ii =>
    if ii = ni then none                          -- assert
    else some (if ii < ni then 1 else 0)          -- int(ignoring_index < neighbour_index)
  | _, _ => none

/-- the loop of `get_equivalent_legs` over `node1.neighbouring_nodes()` -/
def equivLoop (n1 n2 : Node) (ignore : List Nat) (f : Trafo) : List Nat → Option (List Nat × List Nat)
  | [] => some ([], [])
  | n :: rest =>
    if ignore.contains n then equivLoop n1 n2 ignore f rest
    else
      match n1.neighbourIndex n, n2.neighbourIndex (f n), equivLoop n1 n2 ignore f rest with
      | some l1, some l2, some (r1, r2) => some (l1 :: r1, l2 :: r2)
      | _, _, _ => none

def getEquivalentLegs (n1 n2 : Node) (ignore : List Nat) (f : Trafo) : Option (List Nat × List Nat) :=
  equivLoop n1 n2 ignore f n1.nbrs

/-- `blockAxis` = 0: `contract_neighbour_block_to_ket`; = 1: `…_to_hamiltonian` -/
def contractNeighbourBlock (blockAxis : Nat) (t : T) (nd : Node) (neighbourId : Nat) (cache : Cache)
    (leg : Option Nat) : Option T :=
  match cache neighbourId with
  | none => none                                  -- KeyError
  | some blk =>
    match (match leg with | some l => some l | none => nd.neighbourIndex neighbourId) with
    | none => none
    | some l => tensordot t blk [l] [blockAxis]

def contractNeighbourBlockIgnoreOneLeg (blockAxis : Nat) (t : T) (nd : Node) (neighbourId ignoringId : Nat)
    (cache : Cache) : Option T :=
  match determineIndexWithIgnoredLeg nd neighbourId ignoringId with
  | none => none
  | some i => contractNeighbourBlock blockAxis t nd neighbourId cache (some i)

def allButOneLoop (blockAxis : Nat) (nd : Node) (next : Nat) (cache : Cache) : List Nat → T → Option T
  | [], t => some t
  | n :: rest, t =>
    if n ≠ next then
      match contractNeighbourBlockIgnoreOneLeg blockAxis t nd n next cache with
      | none => none
      | some t' => allButOneLoop blockAxis nd next cache rest t'
    else allButOneLoop blockAxis nd next cache rest t

def allLoop (blockAxis : Nat) (nd : Node) (cache : Cache) : List Nat → T → Option T
  | [], t => some t
  | n :: rest, t =>
    match contractNeighbourBlock blockAxis t nd n cache (some 0) with
    | none => none
    | some t' => allLoop blockAxis nd cache rest t'

def contractNeighbourBlockToKet := contractNeighbourBlock 0
def contractNeighbourBlockToKetIgnoreOneLeg := contractNeighbourBlockIgnoreOneLeg 0
def contractAllButOneNeighbourBlockToKet (ket : T) (nd : Node) (next : Nat) (cache : Cache) : Option T :=
  allButOneLoop 0 nd next cache nd.nbrs ket
def contractAllNeighbourBlocksToKet (ket : T) (nd : Node) (cache : Cache) : Option T :=
  allLoop 0 nd cache nd.nbrs ket

def contractNeighbourBlockToHamiltonian := contractNeighbourBlock 1
def contractNeighbourBlockToHamiltonianIgnoreOneLeg := contractNeighbourBlockIgnoreOneLeg 1
def contractAllButOneNeighbourBlockToHamiltonian (h : T) (nd : Node) (next : Nat) (cache : Cache) : Option T :=
  allButOneLoop 1 nd next cache nd.nbrs h
def contractAllNeighbourBlocksToHamiltonian (h : T) (nd : Node) (cache : Cache) : Option T :=
  allLoop 1 nd cache nd.nbrs h

/-! ### state_state_contraction -/

def contractLeafs (n1 n2 : Node) (t1 t2 : T) : Option T :=
  if ¬ (n1.isLeaf ∧ n2.isLeaf) then none                                        -- assert
  else if t1.legs.length ≠ n1.nn + 1 ∨ t2.legs.length ≠ n2.nn + 1 then none     -- assert: one open leg
  else tensordot t1 t2 [n1.nn] [n2.nn]                                          -- open_legs[0]

/-- the loop of `contract_bra_to_ket_and_blocks` over `bra_node.neighbouring_nodes()` -/
def braAllLoop (ketNode : Node) : List Nat → Option (List Nat)
  | [] => some []
  | n :: rest =>
    match ketNode.neighbourIndex n, braAllLoop ketNode rest with
    | some k, some r => some ((k + 1) :: r)
    | _, _ => none

def contractBraToKetAndBlocks (bra ketblock : T) (braNode ketNode : Node) : Option T :=
  match braAllLoop ketNode braNode.nbrs with
  | none => none
  | some legsBlock => tensordot ketblock bra (legsBlock ++ [0]) (List.range (braNode.nn + 1))

def braIgnoreLoop (braNode ketNode : Node) (next nextIdx : Nat) (f : Trafo) :
    List Nat → Option (List Nat × List Nat)
  | [] => some ([], [])
  | n :: rest =>
    if n ≠ next then
      match ketNode.neighbourIndex n, braNode.neighbourIndex (f n),
            braIgnoreLoop braNode ketNode next nextIdx f rest with
      | some ki, some bi, some (r1, r2) =>
        some ((ki + 1 + (if nextIdx > ki then 1 else 0)) :: r1, bi :: r2)
      | _, _, _ => none
    else braIgnoreLoop braNode ketNode next nextIdx f rest

def contractBraToKetAndBlocksIgnoreOneLeg (bra ketblock : T) (braNode ketNode : Node) (next : Nat)
    (f : Trafo) : Option T :=
  match ketNode.neighbourIndex next with
  | none => none
  | some nextIdx =>
    match braIgnoreLoop braNode ketNode next nextIdx f ketNode.nbrs with
    | none => none
    | some (legsBlock, legsBra) => tensordot ketblock bra (legsBlock ++ [1]) (legsBra ++ [braNode.nn])

def contractSubtreesUsingDictionary (next : Nat) (n1 n2 : Node) (t1 t2 : T) (cache : Cache) (f : Trafo) :
    Option T :=
  match contractAllButOneNeighbourBlockToKet t1 n1 next cache with
  | none => none
  | some ketblock => contractBraToKetAndBlocksIgnoreOneLeg t2 ketblock n2 n1 next f

def contractAnyNodes (next : Nat) (n1 n2 : Node) (t1 t2 : T) (cache : Cache) (f : Trafo) : Option T :=
  if n1.isLeaf then contractLeafs n1 n2 t1 t2
  else contractSubtreesUsingDictionary next n1 n2 t1 t2 cache f

def contractNodeWithEnvironmentNodes (ketNode : Node) (ket : T) (braNode : Node) (bra : T) (cache : Cache) :
    Option T :=
  match contractAllNeighbourBlocksToKet ket ketNode cache with
  | none => none
  | some ketblock => contractBraToKetAndBlocks bra ketblock braNode ketNode

/-! ### state_operator_contraction -/

def nodeStatePhysLeg (nd : Node) : Nat := nd.nn
def nodeOperatorInputLeg (nd : Node) : Nat := nd.nn + 1
def nodeOperatorOutputLeg (nd : Node) : Nat := nd.nn

/-- `contract_leaf` with the bra given explicitly (`bra_node=None` means `(state_node, state.conj())`) -/
def opContractLeaf (stateNode : Node) (state : T) (opNode : Node) (op : T) (braNode : Node) (bra : T) :
    Option T :=
  match tensordot op bra [nodeOperatorOutputLeg opNode] [nodeStatePhysLeg braNode] with
  | none => none
  | some braHam => tensordot state braHam [nodeStatePhysLeg stateNode] [nodeOperatorInputLeg opNode - 1]

def contractOperatorTensorIgnoringOneLeg (cur : T) (ketNode : Node) (op : T) (opNode : Node)
    (ignoringId : Nat) (f : Trafo) : Option T :=
  match getEquivalentLegs ketNode opNode [ignoringId] f with
  | none => none
  | some (_, opLegs) =>
    let tensorLegs := (List.range (ketNode.nn - 1)).map (fun k => 2 * k + 2)   -- range(2, 2*nn, 2)
    tensordot cur op (tensorLegs ++ [1]) (opLegs ++ [nodeOperatorInputLeg opNode])

def contractBraTensorIgnoreOneLeg (bra : T) (braNode : Node) (ketopblock : T) (ketNode : Node)
    (ignoringId : Nat) (f : Trafo) : Option T :=
  let nn := ketNode.nn
  let legsTensor := List.range' 1 (nn - 1) ++ [nn + 1]                         -- range(1, nn) + [nn+1]
  match getEquivalentLegs ketNode braNode [ignoringId] f with
  | none => none
  | some (_, legsBra) => tensordot ketopblock bra legsTensor (legsBra ++ [nodeStatePhysLeg braNode])

def opContractSubtreesUsingDictionary (ignoredId : Nat) (ketNode : Node) (ket : T) (opNode : Node) (op : T)
    (cache : Cache) (braNode : Node) (bra : T) (fOp fBra : Trafo) : Option T :=
  match contractAllButOneNeighbourBlockToKet ket ketNode ignoredId cache with
  | none => none
  | some t1 =>
    match contractOperatorTensorIgnoringOneLeg t1 ketNode op opNode ignoredId fOp with
    | none => none
    | some t2 => contractBraTensorIgnoreOneLeg bra braNode t2 ketNode ignoredId fBra

def opContractAnyNodeEnvironmentButOne (ignoredId : Nat) (ketNode : Node) (ket : T) (opNode : Node) (op : T)
    (cache : Cache) (braNode : Node) (bra : T) (fOp fBra : Trafo) : Option T :=
  if ketNode.isLeaf then opContractLeaf ketNode ket opNode op braNode bra
  else opContractSubtreesUsingDictionary ignoredId ketNode ket opNode op cache braNode bra fOp fBra

/-- `contract_node_with_environment`: the bra is the conjugated ket tensor on the ket's own node -/
def opContractNodeWithEnvironment (ketNode : Node) (ket : T) (opNode : Node) (op : T) (bra : T)
    (cache : Cache) : Option T :=
  match contractAllNeighbourBlocksToKet ket ketNode cache with
  | none => none
  | some ketNeighBlock =>
    match getEquivalentLegs ketNode opNode [] id with
    | none => none
    | some (stateLegs, hamLegs) =>
      let blockLegs := (List.range ketNode.nn).map (fun k => 2 * k + 1) ++ [0]   -- range(1, 2*nn, 2) + [0]
      match tensordot ketNeighBlock op blockLegs (hamLegs ++ [nodeOperatorInputLeg opNode]) with
      | none => none
      | some kethamblock =>
        let stateLegs' := stateLegs ++ [stateLegs.length]
        tensordot bra kethamblock stateLegs' stateLegs'

/-! ### the standard tensors the theorems and the driver speak about -/

def ketT (nd : Node) : T := T.fresh (nd.nbrs.map Leg.ketNb ++ [Leg.ketPhys])
def braT (nd : Node) : T := T.fresh (nd.nbrs.map Leg.braNb ++ [Leg.braPhys])
def opT (nd : Node) : T := T.fresh (nd.nbrs.map Leg.opNb ++ [Leg.opOut, Leg.opIn])

/-- the legs of a cached block after its ket leg (axis 0): two-layer (`false`) or three-layer (`true`) -/
def blockRest (three : Bool) (n : Nat) : List Leg :=
  if three then [Leg.blkOp n, Leg.blkBra n] else [Leg.blkBra n]
def block (three : Bool) (n : Nat) : T := T.fresh (Leg.blkKet n :: blockRest three n)

/-- the dictionary during the contraction toward `next`: a block for every neighbour but `next` -/
def cacheBut (three : Bool) (next : Nat) : Cache := fun n => if n = next then none else some (block three n)
def cacheAll (three : Bool) : Cache := fun n => some (block three n)

end Ptn.C04
