import Ptn.C04.OpRoot
import Ptn.C04.GraphSS
import Ptn.C04.GraphSO
import Ptn.C04.GraphCC
/-! Property theorems for C04 (leg-label calculus).  Only property theorems and non-vacuity examples.

Quantification: every node (optional parent, any number of children in any order, `nbrs` without
repetition), every `next` among its neighbours, every bra / operator node whose neighbour list is a
permutation of the (transformed) ket neighbour list — i.e. any relative child order of the networks. -/
namespace Ptn.C04

/-- `contract_all_but_one_neighbour_block_to_ket`: the result has the legs
`[ketNb next, ketPhys] ++ [block legs of n | n ≠ next]` (ket order) and binds exactly
`(ketNb n, blkKet n)` for every `n ≠ next`; the block of `next` is never looked up.  In particular the
axis `int(ignoring_index < neighbour_index)` is the right one at every iteration. -/
theorem all_but_one_legs (three : Bool) (nd : Node) (next : Nat) (hnd : nd.nbrs.Nodup)
    (hnext : next ∈ nd.nbrs) :
    contractAllButOneNeighbourBlockToKet (ketT nd) nd next (cacheBut three next) =
      some ⟨[Leg.ketNb next, Leg.ketPhys] ++ (nd.nbrs.filter (· ≠ next)).flatMap (blockRest three),
            (nd.nbrs.filter (· ≠ next)).map (fun n => (Leg.ketNb n, Leg.blkKet n))⟩ := by
  have := allButOne_general 0 Leg.ketNb (block three) Leg.blkKet [Leg.ketPhys] (cacheBut three next) nd next
    hnd hnext (fun n _ hne => ⟨by simp [cacheBut, hne], by simp [block, T.fresh]⟩)
  simpa [contractAllButOneNeighbourBlockToKet, ketT, block, T.fresh, flatMap_single] using this

example : contractAllButOneNeighbourBlockToKet (ketT ⟨some 7, [1, 2, 3]⟩) ⟨some 7, [1, 2, 3]⟩ 2 (cacheBut false 2) =
    some ⟨[.ketNb 2, .ketPhys, .blkBra 7, .blkBra 1, .blkBra 3],
          [(.ketNb 7, .blkKet 7), (.ketNb 1, .blkKet 1), (.ketNb 3, .blkKet 3)]⟩ := by decide

/-- the same loop on an operator node (`…_to_hamiltonian`, block axis 1) -/
theorem all_but_one_legs_hamiltonian (nd : Node) (next : Nat) (hnd : nd.nbrs.Nodup) (hnext : next ∈ nd.nbrs) :
    contractAllButOneNeighbourBlockToHamiltonian (opT nd) nd next (cacheBut true next) =
      some ⟨[Leg.opNb next, Leg.opOut, Leg.opIn] ++
              (nd.nbrs.filter (· ≠ next)).flatMap (fun n => [Leg.blkKet n, Leg.blkBra n]),
            (nd.nbrs.filter (· ≠ next)).map (fun n => (Leg.opNb n, Leg.blkOp n))⟩ := by
  have := allButOne_general 1 Leg.opNb (block true) Leg.blkOp [Leg.opOut, Leg.opIn] (cacheBut true next) nd next
    hnd hnext (fun n _ hne => ⟨by simp [cacheBut, hne], by simp [block, blockRest, T.fresh]⟩)
  simpa [contractAllButOneNeighbourBlockToHamiltonian, opT, block, blockRest, T.fresh, flatMap_single] using this

/-- `contract_all_neighbour_blocks_to_ket`: always axis 0 -/
theorem all_blocks_legs (three : Bool) (nd : Node) :
    contractAllNeighbourBlocksToKet (ketT nd) nd (cacheAll three) =
      some ⟨[Leg.ketPhys] ++ nd.nbrs.flatMap (blockRest three),
            nd.nbrs.map (fun n => (Leg.ketNb n, Leg.blkKet n))⟩ := by
  have := allLoop_general 0 Leg.ketNb (block three) Leg.blkKet (cacheAll three) nd nd.nbrs [Leg.ketPhys] []
    (fun n _ => ⟨rfl, by simp [block, T.fresh]⟩)
  simpa [contractAllNeighbourBlocksToKet, ketT, block, T.fresh, flatMap_single] using this

/-- `contract_all_neighbour_blocks_to_hamiltonian`: always axis 0 of the running tensor, block axis 1 (the
operator leg of a three-layer block): every neighbour leg of the operator tensor is bound to the operator leg
of that neighbour's block, the result has the legs `[opOut, opIn]` followed by the ket leg and the bra leg of
every block in neighbour order -/
theorem all_blocks_legs_hamiltonian (nd : Node) :
    contractAllNeighbourBlocksToHamiltonian (opT nd) nd (cacheAll true) =
      some ⟨[Leg.opOut, Leg.opIn] ++ nd.nbrs.flatMap (fun n => [Leg.blkKet n, Leg.blkBra n]),
            nd.nbrs.map (fun n => (Leg.opNb n, Leg.blkOp n))⟩ := by
  have := allLoop_general 1 Leg.opNb (block true) Leg.blkOp (cacheAll true) nd nd.nbrs [Leg.opOut, Leg.opIn] []
    (fun n _ => ⟨rfl, by simp [block, blockRest, T.fresh]⟩)
  simpa [contractAllNeighbourBlocksToHamiltonian, opT, block, blockRest, T.fresh, flatMap_single] using this

example : contractAllNeighbourBlocksToHamiltonian (opT ⟨some 7, [1, 2]⟩) ⟨some 7, [1, 2]⟩ (cacheAll true) =
    some ⟨[.opOut, .opIn, .blkKet 7, .blkBra 7, .blkKet 1, .blkBra 1, .blkKet 2, .blkBra 2],
          [(.opNb 7, .blkOp 7), (.opNb 1, .blkOp 1), (.opNb 2, .blkOp 2)]⟩ := by decide

/-- `contract_bra_to_ket_and_blocks_ignore_one_leg`: the final tensordot binds exactly
`(blkBra n, braNb (f n))` for every `n ≠ next` and `(ketPhys, braPhys)`, and leaves
`[ketNb next, braNb (f next)]` — for ANY relative order of the ket's and the bra's neighbours. -/
theorem bra_ignore_one_binds (ketNode braNode : Node) (next : Nat) (f : Trafo) (bs : List (Leg × Leg))
    (hK : ketNode.nbrs.Nodup) (hB : braNode.nbrs.Nodup) (hnext : next ∈ ketNode.nbrs)
    (hperm : braNode.nbrs.Perm (ketNode.nbrs.map f)) :
    contractBraToKetAndBlocksIgnoreOneLeg (braT braNode)
        ⟨[Leg.ketNb next, Leg.ketPhys] ++ (ketNode.nbrs.filter (· ≠ next)).map Leg.blkBra, bs⟩
        braNode ketNode next f =
      some ⟨[Leg.ketNb next, Leg.braNb (f next)],
            bs ++ ((ketNode.nbrs.filter (· ≠ next)).map (fun n => (Leg.blkBra n, Leg.braNb (f n)))
                    ++ [(Leg.ketPhys, Leg.braPhys)])⟩ :=
  braIgnore_general _ _ _ _ _ ketNode braNode next f bs hK hB hnext hperm

example : ([3, 7, 1, 2] : List Nat).Perm ([7, 1, 2, 3].map id) := by decide

/-- `contract_any_nodes` (leaf or not) for two nodes of the same tree position: the block handed to
`next` has the legs `[ketNb next, braNb (f next)]` and everything else is bound layer by layer. -/
theorem contract_any_nodes_spec (n1 n2 : Node) (next : Nat) (f : Trafo)
    (hK : n1.nbrs.Nodup) (hB : n2.nbrs.Nodup) (hnext : next ∈ n1.nbrs)
    (hperm : n2.nbrs.Perm (n1.nbrs.map f)) (hpar : n2.parent = n1.parent.map f) :
    contractAnyNodes next n1 n2 (ketT n1) (braT n2) (cacheBut false next) f =
      some ⟨[Leg.ketNb next, Leg.braNb (f next)],
            (n1.nbrs.filter (· ≠ next)).map (fun n => (Leg.ketNb n, Leg.blkKet n)) ++
            ((n1.nbrs.filter (· ≠ next)).map (fun n => (Leg.blkBra n, Leg.braNb (f n))) ++
              [(Leg.ketPhys, Leg.braPhys)])⟩ := by
  unfold contractAnyNodes
  by_cases hleaf : n1.isLeaf = true
  · -- a leaf: its only neighbour is the parent
    rw [if_pos hleaf]
    obtain ⟨p1, c1⟩ := n1
    obtain ⟨p2, c2⟩ := n2
    simp only [Node.isLeaf, List.isEmpty_iff] at hleaf
    subst hleaf
    cases p1 with
    | none => simp [Node.nbrs] at hnext
    | some p =>
      simp only [Node.nbrs, Option.toList_some, List.append_nil, List.mem_singleton] at hnext
      subst hnext
      simp only [Option.map_some] at hpar
      subst hpar
      have hc2 : c2 = [] := by
        have := hperm.length_eq
        simpa [Node.nbrs] using this
      subst hc2
      have := contractLeafs_eq next (f next)
      simpa [Node.nbrs] using this
  · rw [if_neg hleaf]
    simp only [contractSubtreesUsingDictionary, all_but_one_legs false n1 next hK hnext]
    rw [flatMap_blockRest_false]
    exact braIgnore_general _ _ _ _ _ n1 n2 next f _ hK hB hnext hperm

example : contractAnyNodes 2 ⟨some 7, [1, 2, 3]⟩ ⟨some 7, [3, 1, 2]⟩ (ketT ⟨some 7, [1, 2, 3]⟩)
    (braT ⟨some 7, [3, 1, 2]⟩) (cacheBut false 2) id =
    some ⟨[.ketNb 2, .braNb 2],
      [(.ketNb 7, .blkKet 7), (.ketNb 1, .blkKet 1), (.ketNb 3, .blkKet 3),
       (.blkBra 7, .braNb 7), (.blkBra 1, .braNb 1), (.blkBra 3, .braNb 3), (.ketPhys, .braPhys)]⟩ := by decide

/-- `contract_node_with_environment_nodes`: nothing is left open at the root, and every leg is bound to
its partner: ket leg ↔ block ket leg, block bra leg ↔ bra leg of the same neighbour, physical legs. -/
theorem root_contraction_closed (ketNode braNode : Node) (hK : ketNode.nbrs.Nodup) (hB : braNode.nbrs.Nodup)
    (hperm : braNode.nbrs.Perm ketNode.nbrs) :
    contractNodeWithEnvironmentNodes ketNode (ketT ketNode) braNode (braT braNode) (cacheAll false) =
      some ⟨[], ketNode.nbrs.map (fun n => (Leg.ketNb n, Leg.blkKet n)) ++
                (braNode.nbrs.map (fun n => (Leg.blkBra n, Leg.braNb n)) ++ [(Leg.ketPhys, Leg.braPhys)])⟩ := by
  simp only [contractNodeWithEnvironmentNodes, all_blocks_legs false ketNode]
  rw [flatMap_blockRest_false]
  exact braAll_general _ _ _ _ ketNode braNode _ hK hB hperm

example : contractNodeWithEnvironmentNodes ⟨none, [1, 2, 3]⟩ (ketT ⟨none, [1, 2, 3]⟩) ⟨none, [3, 1, 2]⟩
    (braT ⟨none, [3, 1, 2]⟩) (cacheAll false) =
    some ⟨[], [(.ketNb 1, .blkKet 1), (.ketNb 2, .blkKet 2), (.ketNb 3, .blkKet 3),
               (.blkBra 3, .braNb 3), (.blkBra 1, .braNb 1), (.blkBra 2, .braNb 2), (.ketPhys, .braPhys)]⟩ := by
  decide

/-- a single node (root and leaf at once): `contract_node_with_environment_nodes` binds the physical legs -/
example : contractNodeWithEnvironmentNodes ⟨none, []⟩ (ketT ⟨none, []⟩) ⟨none, []⟩ (braT ⟨none, []⟩)
    (cacheAll false) = some ⟨[], [(.ketPhys, .braPhys)]⟩ := by decide

/-- `get_equivalent_legs`: position `i` of both lists refers to the same neighbour (`n` in node 1,
`f n` in node 2), ignored neighbours do not occur, neither list repeats an index. -/
theorem equiv_legs_spec (n1 n2 : Node) (ignore : List Nat) (f : Trafo)
    (h1 : n1.nbrs.Nodup) (h2 : n2.nbrs.Nodup) (hperm : n2.nbrs.Perm (n1.nbrs.map f)) :
    ∃ l1 l2, getEquivalentLegs n1 n2 ignore f = some (l1, l2) ∧ l1.Nodup ∧ l2.Nodup ∧
      l1 = (n1.nbrs.filter (fun n => !ignore.contains n)).map (fun n => n1.nbrs.idxOf n) ∧
      l2 = (n1.nbrs.filter (fun n => !ignore.contains n)).map (fun n => n2.nbrs.idxOf (f n)) ∧
      ∀ n ∈ n1.nbrs, ¬ ignore.contains n →
        n1.nbrs[n1.nbrs.idxOf n]? = some n ∧ n2.nbrs[n2.nbrs.idxOf (f n)]? = some (f n) := by
  have hmemB : ∀ n ∈ n1.nbrs, f n ∈ n2.nbrs := fun n hn => hperm.mem_iff.2 (List.mem_map.2 ⟨n, hn, rfl⟩)
  have hinj := inj_on_of_nodup_map n1.nbrs f (hperm.nodup_iff.1 h2)
  have hFnd : (n1.nbrs.filter (fun n => !ignore.contains n)).Nodup := nodup_filter _ h1
  refine ⟨_, _, equivLoop_eq n1 n2 ignore f n1.nbrs (fun n hn _ => ⟨hn, hmemB n hn⟩), ?_, ?_, rfl, rfl, ?_⟩
  · exact nodup_map_of_inj_on _ _ hFnd (fun x hx y hy e =>
      idxOf_inj (List.mem_filter.1 hx).1 (List.mem_filter.1 hy).1 e)
  · exact nodup_map_of_inj_on _ _ hFnd (fun x hx y hy e =>
      hinj x (List.mem_filter.1 hx).1 y (List.mem_filter.1 hy).1
        (idxOf_inj (hmemB x (List.mem_filter.1 hx).1) (hmemB y (List.mem_filter.1 hy).1) e))
  · intro n hn _
    exact ⟨getElem?_idxOf hn, getElem?_idxOf (hmemB n hn)⟩

example : getEquivalentLegs ⟨some 7, [1, 2, 3]⟩ ⟨some 107, [103, 101, 102]⟩ [7] (· + 100) =
    some ([1, 2, 3], [2, 3, 1]) := by decide

/-- `state_operator_contraction.contract_subtrees_using_dictionary`: the operator's INPUT leg is bound to
the ket's physical leg and its OUTPUT leg to the bra's; every block leg is bound to the leg of its own
layer toward the same neighbour; the free legs are `[ketNb next, opNb (g next), braNb (f next)]` — for
any relative neighbour order of ket, operator and bra node. -/
theorem expectation_binds (ketNode opNode braNode : Node) (next : Nat) (g f : Trafo)
    (hK : ketNode.nbrs.Nodup) (hO : opNode.nbrs.Nodup) (hB : braNode.nbrs.Nodup) (hnext : next ∈ ketNode.nbrs)
    (hpermO : opNode.nbrs.Perm (ketNode.nbrs.map g)) (hpermB : braNode.nbrs.Perm (ketNode.nbrs.map f)) :
    opContractSubtreesUsingDictionary next ketNode (ketT ketNode) opNode (opT opNode) (cacheBut true next)
        braNode (braT braNode) g f =
      some ⟨[Leg.ketNb next, Leg.opNb (g next), Leg.braNb (f next)],
            ((ketNode.nbrs.filter (· ≠ next)).map (fun n => (Leg.ketNb n, Leg.blkKet n)) ++
              ((ketNode.nbrs.filter (· ≠ next)).map (fun n => (Leg.blkOp n, Leg.opNb (g n))) ++
                [(Leg.ketPhys, Leg.opIn)])) ++
            ((ketNode.nbrs.filter (· ≠ next)).map (fun n => (Leg.blkBra n, Leg.braNb (f n))) ++
              [(Leg.opOut, Leg.braPhys)])⟩ := by
  simp only [opContractSubtreesUsingDictionary, all_but_one_legs true ketNode next hK hnext,
    flatMap_blockRest_true, opT,
    opTensor_general (Leg.ketNb next) Leg.ketPhys Leg.opOut Leg.opIn Leg.blkOp Leg.blkBra Leg.opNb
      ketNode opNode next g _ hK hO hnext hpermO]
  exact braTensor_general (Leg.ketNb next) Leg.opOut Leg.braPhys Leg.blkBra Leg.braNb ketNode braNode next f _ _
    hK hB hnext hpermB

example : opContractSubtreesUsingDictionary 7 ⟨some 7, [1, 2]⟩ (ketT ⟨some 7, [1, 2]⟩) ⟨some 7, [2, 1]⟩
    (opT ⟨some 7, [2, 1]⟩) (cacheBut true 7) ⟨some 7, [1, 2]⟩ (braT ⟨some 7, [1, 2]⟩) id id =
    some ⟨[.ketNb 7, .opNb 7, .braNb 7],
      [(.ketNb 1, .blkKet 1), (.ketNb 2, .blkKet 2), (.blkOp 1, .opNb 1), (.blkOp 2, .opNb 2), (.ketPhys, .opIn),
       (.blkBra 1, .braNb 1), (.blkBra 2, .braNb 2), (.opOut, .braPhys)]⟩ := by decide

/-- `contract_leaf`: operator output leg (`nneighbours`) ↔ bra, operator input leg (`nneighbours+1`) ↔ ket -/
theorem expectation_leaf_binds (p p' p'' : Nat) :
    opContractLeaf ⟨some p, []⟩ (ketT ⟨some p, []⟩) ⟨some p', []⟩ (opT ⟨some p', []⟩)
        ⟨some p'', []⟩ (braT ⟨some p'', []⟩) =
      some ⟨[Leg.ketNb p, Leg.opNb p', Leg.braNb p''],
            [(Leg.opOut, Leg.braPhys), (Leg.ketPhys, Leg.opIn)]⟩ :=
  opContractLeaf_eq p p' p''

/-- the root step of `expectation_value` leaves no free leg; input leg ↔ ket, output leg ↔ conj(ket) -/
theorem expectation_root_closed (ketNode opNode : Node) (hK : ketNode.nbrs.Nodup) (hO : opNode.nbrs.Nodup)
    (hperm : opNode.nbrs.Perm ketNode.nbrs) :
    opContractNodeWithEnvironment ketNode (ketT ketNode) opNode (opT opNode) (braT ketNode) (cacheAll true) =
      some ⟨[], (ketNode.nbrs.map (fun n => (Leg.ketNb n, Leg.blkKet n)) ++
                  (ketNode.nbrs.map (fun n => (Leg.blkOp n, Leg.opNb n)) ++ [(Leg.ketPhys, Leg.opIn)])) ++
                (ketNode.nbrs.map (fun n => (Leg.braNb n, Leg.blkBra n)) ++ [(Leg.braPhys, Leg.opOut)])⟩ :=
  opRoot_general ketNode opNode hK hO hperm

example : opContractNodeWithEnvironment ⟨none, [1, 2]⟩ (ketT ⟨none, [1, 2]⟩) ⟨none, [2, 1]⟩ (opT ⟨none, [2, 1]⟩)
    (braT ⟨none, [1, 2]⟩) (cacheAll true) =
    some ⟨[], [(.ketNb 1, .blkKet 1), (.ketNb 2, .blkKet 2), (.blkOp 1, .opNb 1), (.blkOp 2, .opNb 2),
               (.ketPhys, .opIn), (.braNb 1, .blkBra 1), (.braNb 2, .blkBra 2), (.braPhys, .opOut)]⟩ := by decide

/-! ## Tree level: the per-node steps composed along `linearise()` with the block dictionary -/

/-- **`contract_two_ttns` computes the closed graph `Σ ket·bra`.**  For every tree with distinct
identifiers and for arbitrary, independent child orders of the bra network at every node
(`braKids i` any permutation of the ket's children of `i`), the loop over `linearise()` with the block
dictionary (`add_entry` / `delete_entry`, never a `KeyError`) followed by the root step returns a tensor
with NO free leg whose bound pairs are, up to order, exactly the specification graph: for every node
`(ketPhys n, braPhys n)`, for every edge `p — c` the two ket legs `(ket p→c, ket c→p)` and the two bra
legs `(bra c→p, bra p→c)` (`mem_ssSpec` below spells the list out).  The cached blocks are eliminated:
their legs are the legs of the subtree's own tensors (`ssLoop_subtree`: every block denotes its
subtree's sub-graph with free legs `[ket c→p, bra c→p]`). -/
theorem contract_two_ttns_graph (t : Tree) (hnd : t.ids.Nodup) (braKids : Nat → List Nat)
    (hperm : ∀ e ∈ Tree.info none t, (braKids e.1).Perm e.2.2) :
    ∃ binds, contractTwoTtns (netOf t (fun _ ks => ks) gKetT) (netOf t (fun i _ => braKids i) gBraT)
        = some ⟨[], binds⟩ ∧ binds.Perm (ssSpec t) := by
  refine ⟨_, contractTwoTtns_eq t hnd braKids hperm, ssRootBinds_perm t _ ?_⟩
  have := hperm (t.id, none, t.kids.map Tree.id) (by cases t; simp [Tree.info, Tree.id, Tree.kids])
  simpa using this

/-- the specification graph, spelled out: physical pairs of all nodes, ket and bra pairs of all edges -/
theorem ss_spec_graph (t : Tree) (x : Leg × Leg) :
    x ∈ ssSpec t ↔ (∃ n ∈ t.ids, x = physPair n) ∨
      (∃ e ∈ t.edges, x = ketEdge e.1 e.2 ∨ x = braEdge e.1 e.2) :=
  mem_ssSpec x t

example : contractTwoTtns
    (netOf (.node 0 [.node 1 [.node 3 []], .node 2 []]) (fun _ ks => ks) gKetT)
    (netOf (.node 0 [.node 1 [.node 3 []], .node 2 []]) (fun i _ => if i = 0 then [2, 1] else if i = 1 then [3] else [])
      gBraT) =
    some ⟨[], [physPair 3, ketEdge 1 3, braEdge 1 3, physPair 1, ketEdge 0 1, physPair 2, ketEdge 0 2,
               braEdge 0 2, braEdge 0 1, physPair 0]⟩ := by decide

/-- **`expectation_value` computes the closed graph `<psi|O|psi>`.**  For every tree and arbitrary,
independent child orders of the operator network at every node, the loop over `linearise()` with the
block dictionary followed by the root step leaves NO free leg, and the bound pairs are — as unordered
pairs, up to order — exactly the specification graph: for every node the operator's INPUT leg with the
ket's physical leg and its OUTPUT leg with the bra's, for every edge the two ket legs, the two operator
legs and the two bra legs (`so_spec_graph`).  The bra is the conjugated ket tensor on the ket's own node,
as in the code. -/
theorem expectation_value_graph (t : Tree) (hnd : t.ids.Nodup) (opKids : Nat → List Nat)
    (hperm : ∀ e ∈ Tree.info none t, (opKids e.1).Perm e.2.2) :
    ∃ binds, expectationValue (netOf t (fun _ ks => ks) gKetT) (netOf t (fun i _ => opKids i) gOpT) gBraT
        = some ⟨[], binds⟩ ∧ (unord binds).Perm (unord (soSpec t)) :=
  ⟨_, expectationValue_eq t hnd opKids hperm, soRootBinds_perm t⟩

theorem so_spec_graph (t : Tree) (x : Leg × Leg) :
    x ∈ soSpec t ↔ (∃ n ∈ t.ids, x = physIn n ∨ x = physOut n) ∨
      (∃ e ∈ t.edges, x = ketEdge e.1 e.2 ∨ x = opEdge e.1 e.2 ∨ x = braEdge e.1 e.2) :=
  mem_soSpec x t

example : expectationValue
    (netOf (.node 0 [.node 1 [], .node 2 []]) (fun _ ks => ks) gKetT)
    (netOf (.node 0 [.node 1 [], .node 2 []]) (fun i _ => if i = 0 then [2, 1] else []) gOpT) gBraT =
    some ⟨[], [physOut 1, physIn 1, ketEdge 0 1, physOut 2, physIn 2, ketEdge 0 2, opEdge 0 1, opEdge 0 2, physIn 0,
               (braEdge 0 1).swap, (braEdge 0 2).swap, (physOut 0).swap]⟩ := by decide

example : (Tree.node 0 [.node 1 [.node 3 []], .node 2 []]).ids.Nodup ∧
    ∀ e ∈ Tree.info none (Tree.node 0 [.node 1 [.node 3 []], .node 2 []]),
      ((fun i => if i = 0 then [2, 1] else if i = 1 then [3] else []) e.1).Perm e.2.2 := by decide

/-- **`TTNO.as_matrix`** on top of `completely_contract_tree`: the contraction order returned is the
preorder of the tree; the rows of the matrix are ALL OUTPUT legs and the columns ALL INPUT legs, both in
the returned node order; every tree edge is bound (operator leg parent→child with child→parent) and nothing
else.  PARTIAL: `contract_nodes` is modelled by `_data_contraction` (`tensordot(parent, child,
(neighbour_index(child), 0))`), whose leg order coincides with the documented leg order of `contract_nodes`
because a child that is contracted into its parent has no children left; the lazily stored leg permutation
of the implementation (property C02) is not modelled. -/
theorem as_matrix_graph_partial (t : Tree) (hnd : t.ids.Nodup) :
    ∃ binds, asMatrix t = some (t.ids, t.ids.map Leg.gOpOut, t.ids.map Leg.gOpIn, binds) ∧
      binds.Perm (t.edges.map fun e => (Leg.gOp e.1 e.2, Leg.gOp e.2 e.1)) :=
  ⟨_, asMatrix_eq t hnd, List.perm_iff_count.2 (fun x => count_ccBinds x t)⟩

example : asMatrix (.node 0 [.node 1 [.node 3 []], .node 2 []]) =
    some ([0, 1, 3, 2], [.gOpOut 0, .gOpOut 1, .gOpOut 3, .gOpOut 2], [.gOpIn 0, .gOpIn 1, .gOpIn 3, .gOpIn 2],
          [(.gOp 1 3, .gOp 3 1), (.gOp 0 1, .gOp 1 0), (.gOp 0 2, .gOp 2 0)]) := by decide

end Ptn.C04
