import Mathlib.Algebra.Ring.Hom.Defs
import Ptn.Common.EinsumIso
import Ptn.Common.EinsumBuilt
/-! Value level for the parts of C04 that are NOT the generic loops: the orthogonality-centre shortcuts of
`scalar_product` / `single_site_operator_expectation_value`, `apply_operator` (= `absorb_into_open_legs` on a
node) and `conjugate`.  Everything over an arbitrary commutative semiring, all sizes, labels of any type.
Helper lemmas only; the property theorems are in `Props.lean`. -/
namespace Ptn.C04

open Ptn.Ein

section
set_option linter.unusedSectionVars false
variable {L : Type} [DecidableEq L] {R : Type} [CommSemiring R]

/-! ### canonical environments drop out of ANY network they are linked into -/

/-- `X`: any tensors that read nothing inside the sub-trees `k` (the centre tensor, its conjugate, an operator
on the centre's open legs, …), `B`: any binding record among them.  If every node of `k` is canonical toward
the centre, the network `X ∪ k` summed over `B` and the whole record of `k` has the value of `X` alone summed
over `B` and one common index per pair `(d, d')` of centre legs facing a sub-tree. -/
theorem c04_env_absorb (dim : L → Nat) (k : Kids L R) (hk : k.Canon dim) (hnd : k.labels.Nodup)
    (B : List (L × L)) (X : List (Asg L → R)) (hX : ∀ f ∈ X, DependsOn (· ∉ k.inner) f) (σ : Asg L) :
    netValue dim (B ++ k.binds) (X ++ k.leaves) σ = netValue dim (B ++ k.pairs) X σ := by
  unfold netValue
  rw [sumPairs_append, sumPairs_append]
  apply sumPairs_congr
  intro τ
  have hf := prodL_dependsOn X hX
  rw [← Kids.absorb dim k hk hnd (· ∉ k.inner) _ hf (fun l hl h => h hl) τ]
  exact sumPairs_congr dim _ (fun ρ => by rw [List.map_append, prodL_append]) τ

/-- the centre's ket tensor reads nothing inside the sub-trees -/
theorem c04_centre_C_outside (dim : L → Nat) (c : Centre L R) (hc : c.Canon dim) (hnd : c.labels.Nodup) :
    DependsOn (· ∉ c.kids.inner) c.C ∧ DependsOn (· ∉ c.kids.inner) c.Cc := by
  obtain ⟨hC, hCc, _⟩ := hc
  simp only [Centre.labels, List.nodup_append] at hnd
  obtain ⟨_, hndk, hpk⟩ := hnd
  constructor
  · refine hC.mono ?_
    intro l hl hi
    have hi' := Kids.inner_sub c.kids l hi
    simp only [List.mem_append, List.mem_map] at hl
    rcases hl with ⟨p, hp, rfl⟩ | hl
    · exact hpk p.1 (by simp only [Expr.pairLegs, List.mem_append, List.mem_map]; exact Or.inl ⟨p, hp, rfl⟩) p.1 hi' rfl
    · exact Kids.kd_not_inner c.kids hndk l hl hi
  · refine hCc.mono ?_
    intro l hl hi
    have hi' := Kids.inner_sub c.kids l hi
    simp only [List.mem_append, List.mem_map] at hl
    rcases hl with ⟨p, hp, rfl⟩ | hl
    · exact hpk p.2 (by simp only [Expr.pairLegs, List.mem_append, List.mem_map]; exact Or.inr ⟨p, hp, rfl⟩) p.2 hi' rfl
    · exact Kids.bd_not_inner c.kids hndk l hl hi

/-- a program (any nesting of `tensordot` calls) evaluates to the flat network of its record and its leaves -/
theorem c04_eval_eq_netValue (dim : L → Nat) (e : Expr L R) (he : e.SWF) (bs : List (L × L))
    (ls : List (Asg L → R)) (hb : e.binds.Perm bs) (hl : (e.leaves.map Prod.snd).Perm ls) (σ : Asg L) :
    e.eval dim σ = netValue dim bs ls σ := by
  rw [Expr.eval_eq_full dim e he.wf σ, ← netValue_perm dim hb hl (Expr.binds_nodup e he) σ]
  unfold Expr.full netValue
  apply sumPairs_congr
  intro τ
  simp [Expr.leafProd, List.map_map, Function.comp_def]

/-! ### gates on several legs at once (`absorb_into_open_legs`) -/

/-- `Ptn.Ein.apply_operator_value` for an operator that is bound to several open legs at once: the new network
evaluates to `Σ_pp G · ψ`, one common index per pair (operator input leg, open leg). -/
theorem c04_apply_operator_pairs (dim : L → Nat) (binds : List (L × L)) (G : Asg L → R)
    (rest : List (Asg L → R)) (pp : List (L × L)) {S : L → Prop}
    (hG : DependsOn S G) (hdis : ∀ l ∈ Expr.pairLegs binds, ¬ S l)
    (hnd : (Expr.pairLegs (binds ++ pp)).Nodup) (σ : Asg L) :
    netValue dim (binds ++ pp) (G :: rest) σ =
      sumPairs dim pp (fun τ => G τ * netValue dim binds rest τ) σ := by
  unfold netValue
  rw [sumPairs_perm dim (List.perm_append_comm) hnd, sumPairs_append]
  apply sumPairs_congr
  intro τ
  simp only [List.map_cons, prodL]
  exact sumPairs_mul_left dim binds _ G hG hdis τ

/-! ### conjugation: ring homomorphisms commute with the big sum -/

variable {R' : Type} [CommSemiring R']

theorem c04_sumR_map (cj : R →+* R') (n : Nat) (f : Nat → R) :
    cj (sumR n f) = sumR n (fun i => cj (f i)) := by
  unfold sumR
  induction n with
  | zero => simp
  | succ n ih =>
    rw [List.range_succ, List.map_append, List.sum_append, map_add, ih, List.map_append, List.sum_append]
    simp

theorem c04_prodL_map (cj : R →+* R') (xs : List R) : cj (prodL xs) = prodL (xs.map cj) := by
  induction xs with
  | nil => simp [prodL]
  | cons x xs ih => simp [prodL, ih]

/-- **`sumPairs_map`**: a ring homomorphism goes through the sum over the binding record -/
theorem sumPairs_map (cj : R →+* R') (dim : L → Nat) (ps : List (L × L)) (f : Asg L → R) (σ : Asg L) :
    cj (sumPairs dim ps f σ) = sumPairs dim ps (fun τ => cj (f τ)) σ := by
  induction ps generalizing σ with
  | nil => rfl
  | cons p ps ih =>
    obtain ⟨a, b⟩ := p
    simp only [sumPairs]
    rw [c04_sumR_map]
    congr 1
    funext i
    exact ih _

/-- the conjugated program: every leaf tensor replaced by its image, same structure -/
def conjExpr (cj : R → R') : Expr L R → Expr L R'
  | .leaf legs v => .leaf legs (fun σ => cj (v σ))
  | .dot a b ps => .dot (conjExpr cj a) (conjExpr cj b) ps

theorem conjExpr_binds (cj : R → R') : ∀ e : Expr L R, (conjExpr cj e).binds = e.binds
  | .leaf _ _ => rfl
  | .dot a b ps => by simp [conjExpr, Expr.binds, conjExpr_binds cj a, conjExpr_binds cj b]

theorem conjExpr_free (cj : R → R') : ∀ e : Expr L R, (conjExpr cj e).free = e.free
  | .leaf _ _ => rfl
  | .dot a b ps => by simp [conjExpr, Expr.free, conjExpr_free cj a, conjExpr_free cj b]

theorem conjExpr_eval (cj : R →+* R') (dim : L → Nat) : ∀ (e : Expr L R) (σ : Asg L),
    (conjExpr cj e).eval dim σ = cj (e.eval dim σ)
  | .leaf _ _, _ => rfl
  | .dot a b ps, σ => by
    simp only [conjExpr, Expr.eval]
    rw [sumPairs_map]
    apply sumPairs_congr
    intro τ
    rw [map_mul, conjExpr_eval cj dim a τ, conjExpr_eval cj dim b τ]

end

end Ptn.C04
