import Ptn.C04.Built
/-! "Inputs built ⟹ output built" for every function of `Model.lean` that the tree-level loops use.  Each lemma
says: if the call succeeds and its tensor arguments (and the cache entries it may read) are built from given
leaf tensors, then the result is built — by the `tensordot` calls the function performs — from exactly the
leaves of the arguments it consumed. -/
namespace Ptn.C04

open Ptn.Ein

variable {R : Type}

theorem contractNeighbourBlock_built {ax : Nat} {t : T} {nd : Node} {n : Nat} {cache : Cache} {leg : Option Nat}
    {r : T} {ls : List (LeafT R)} {lv : Nat → List (LeafT R)}
    (h : contractNeighbourBlock ax t nd n cache leg = some r) (ht : BuiltL t ls)
    (hc : ∀ blk, cache n = some blk → BuiltL blk (lv n)) : BuiltL r (ls ++ lv n) := by
  unfold contractNeighbourBlock at h
  split at h
  · simp at h
  · rename_i blk hblk
    split at h
    · simp at h
    · exact BuiltL.dot ht (hc blk hblk) h

theorem contractNeighbourBlockIgnoreOneLeg_built {ax : Nat} {t : T} {nd : Node} {n ig : Nat} {cache : Cache}
    {r : T} {ls : List (LeafT R)} {lv : Nat → List (LeafT R)}
    (h : contractNeighbourBlockIgnoreOneLeg ax t nd n ig cache = some r) (ht : BuiltL t ls)
    (hc : ∀ blk, cache n = some blk → BuiltL blk (lv n)) : BuiltL r (ls ++ lv n) := by
  unfold contractNeighbourBlockIgnoreOneLeg at h
  split at h
  · simp at h
  · exact contractNeighbourBlock_built h ht hc

theorem allButOneLoop_built {ax : Nat} {nd : Node} {next : Nat} {cache : Cache} {lv : Nat → List (LeafT R)} :
    ∀ (ns : List Nat) (t r : T) (ls : List (LeafT R)), allButOneLoop ax nd next cache ns t = some r →
      BuiltL t ls → (∀ n ∈ ns, n ≠ next → ∀ blk, cache n = some blk → BuiltL blk (lv n)) →
      BuiltL r (ls ++ (ns.filter (· ≠ next)).flatMap lv)
  | [], t, r, ls, h, ht, _ => by
    simp only [allButOneLoop, Option.some.injEq] at h
    subst h
    simpa using ht
  | n :: rest, t, r, ls, h, ht, hc => by
    unfold allButOneLoop at h
    by_cases hn : n ≠ next
    · rw [if_pos hn] at h
      split at h
      · simp at h
      · rename_i t' ht'
        have h1 := contractNeighbourBlockIgnoreOneLeg_built (lv := lv) ht' ht (hc n (by simp) hn)
        have h2 := allButOneLoop_built rest t' r _ h h1 (fun m hm => hc m (by simp [hm]))
        have hf : (n :: rest).filter (· ≠ next) = n :: rest.filter (· ≠ next) := by
          simp [hn]
        rw [hf]
        simpa [List.flatMap_cons, List.append_assoc] using h2
    · rw [if_neg hn] at h
      have h2 := allButOneLoop_built rest t r ls h ht (fun m hm => hc m (by simp [hm]))
      have hf : (n :: rest).filter (· ≠ next) = rest.filter (· ≠ next) := by
        simp [hn]
      rw [hf]
      exact h2

theorem allLoop_built {ax : Nat} {nd : Node} {cache : Cache} {lv : Nat → List (LeafT R)} :
    ∀ (ns : List Nat) (t r : T) (ls : List (LeafT R)), allLoop ax nd cache ns t = some r →
      BuiltL t ls → (∀ n ∈ ns, ∀ blk, cache n = some blk → BuiltL blk (lv n)) →
      BuiltL r (ls ++ ns.flatMap lv)
  | [], t, r, ls, h, ht, _ => by
    simp only [allLoop, Option.some.injEq] at h
    subst h
    simpa using ht
  | n :: rest, t, r, ls, h, ht, hc => by
    unfold allLoop at h
    split at h
    · simp at h
    · rename_i t' ht'
      have h1 := contractNeighbourBlock_built (lv := lv) ht' ht (hc n (by simp))
      have h2 := allLoop_built rest t' r _ h h1 (fun m hm => hc m (by simp [hm]))
      simpa [List.flatMap_cons, List.append_assoc] using h2

/-! ### state_state_contraction -/

theorem contractLeafs_built {n1 n2 : Node} {t1 t2 r : T} {l1 l2 : List (LeafT R)}
    (h : contractLeafs n1 n2 t1 t2 = some r) (h1 : BuiltL t1 l1) (h2 : BuiltL t2 l2) : BuiltL r (l1 ++ l2) := by
  unfold contractLeafs at h
  split at h
  · simp at h
  · split at h
    · simp at h
    · exact BuiltL.dot h1 h2 h

theorem contractBraToKetAndBlocks_built {bra ketblock : T} {braNode ketNode : Node} {r : T}
    {lb lk : List (LeafT R)} (h : contractBraToKetAndBlocks bra ketblock braNode ketNode = some r)
    (hb : BuiltL bra lb) (hk : BuiltL ketblock lk) : BuiltL r (lk ++ lb) := by
  unfold contractBraToKetAndBlocks at h
  split at h
  · simp at h
  · exact BuiltL.dot hk hb h

theorem contractBraToKetAndBlocksIgnoreOneLeg_built {bra ketblock : T} {braNode ketNode : Node} {next : Nat}
    {f : Trafo} {r : T} {lb lk : List (LeafT R)}
    (h : contractBraToKetAndBlocksIgnoreOneLeg bra ketblock braNode ketNode next f = some r)
    (hb : BuiltL bra lb) (hk : BuiltL ketblock lk) : BuiltL r (lk ++ lb) := by
  unfold contractBraToKetAndBlocksIgnoreOneLeg at h
  split at h
  · simp at h
  · split at h
    · simp at h
    · exact BuiltL.dot hk hb h

theorem contractSubtreesUsingDictionary_built {next : Nat} {n1 n2 : Node} {t1 t2 : T} {cache : Cache} {f : Trafo}
    {r : T} {l1 l2 : List (LeafT R)} {lv : Nat → List (LeafT R)}
    (h : contractSubtreesUsingDictionary next n1 n2 t1 t2 cache f = some r)
    (h1 : BuiltL t1 l1) (h2 : BuiltL t2 l2)
    (hc : ∀ n ∈ n1.nbrs, n ≠ next → ∀ blk, cache n = some blk → BuiltL blk (lv n)) :
    BuiltL r ((l1 ++ (n1.nbrs.filter (· ≠ next)).flatMap lv) ++ l2) := by
  unfold contractSubtreesUsingDictionary at h
  split at h
  · simp at h
  · rename_i kb hkb
    exact contractBraToKetAndBlocksIgnoreOneLeg_built h h2 (allButOneLoop_built _ _ _ _ hkb h1 hc)

/-- `contract_any_nodes`: a leaf consumes no block -/
theorem contractAnyNodes_built {next : Nat} {n1 n2 : Node} {t1 t2 : T} {cache : Cache} {f : Trafo}
    {r : T} {l1 l2 : List (LeafT R)} {lv : Nat → List (LeafT R)}
    (h : contractAnyNodes next n1 n2 t1 t2 cache f = some r)
    (h1 : BuiltL t1 l1) (h2 : BuiltL t2 l2)
    (hc : ∀ n ∈ n1.nbrs, n ≠ next → ∀ blk, cache n = some blk → BuiltL blk (lv n)) :
    BuiltL r ((l1 ++ (if n1.isLeaf then [] else (n1.nbrs.filter (· ≠ next)).flatMap lv)) ++ l2) := by
  unfold contractAnyNodes at h
  by_cases hl : n1.isLeaf = true
  · rw [if_pos hl] at h
    rw [if_pos hl]
    simpa using contractLeafs_built h h1 h2
  · rw [if_neg hl] at h
    rw [if_neg hl]
    exact contractSubtreesUsingDictionary_built h h1 h2 hc

theorem contractNodeWithEnvironmentNodes_built {ketNode braNode : Node} {ket bra : T} {cache : Cache}
    {r : T} {lk lb : List (LeafT R)} {lv : Nat → List (LeafT R)}
    (h : contractNodeWithEnvironmentNodes ketNode ket braNode bra cache = some r)
    (hk : BuiltL ket lk) (hb : BuiltL bra lb)
    (hc : ∀ n ∈ ketNode.nbrs, ∀ blk, cache n = some blk → BuiltL blk (lv n)) :
    BuiltL r ((lk ++ ketNode.nbrs.flatMap lv) ++ lb) := by
  unfold contractNodeWithEnvironmentNodes at h
  split at h
  · simp at h
  · rename_i kb hkb
    exact contractBraToKetAndBlocks_built h hb (allLoop_built _ _ _ _ hkb hk hc)

/-! ### state_operator_contraction -/

theorem opContractLeaf_built {stateNode opNode braNode : Node} {state op bra r : T}
    {ls lo lb : List (LeafT R)} (h : opContractLeaf stateNode state opNode op braNode bra = some r)
    (hs : BuiltL state ls) (ho : BuiltL op lo) (hb : BuiltL bra lb) : BuiltL r (ls ++ (lo ++ lb)) := by
  unfold opContractLeaf at h
  split at h
  · simp at h
  · rename_i bh hbh
    exact BuiltL.dot hs (BuiltL.dot ho hb hbh) h

theorem contractOperatorTensorIgnoringOneLeg_built {cur op : T} {ketNode opNode : Node} {ig : Nat} {f : Trafo}
    {r : T} {lc lo : List (LeafT R)}
    (h : contractOperatorTensorIgnoringOneLeg cur ketNode op opNode ig f = some r)
    (hc : BuiltL cur lc) (ho : BuiltL op lo) : BuiltL r (lc ++ lo) := by
  unfold contractOperatorTensorIgnoringOneLeg at h
  split at h
  · simp at h
  · exact BuiltL.dot hc ho h

theorem contractBraTensorIgnoreOneLeg_built {bra kob : T} {braNode ketNode : Node} {ig : Nat} {f : Trafo}
    {r : T} {lb lk : List (LeafT R)}
    (h : contractBraTensorIgnoreOneLeg bra braNode kob ketNode ig f = some r)
    (hb : BuiltL bra lb) (hk : BuiltL kob lk) : BuiltL r (lk ++ lb) := by
  unfold contractBraTensorIgnoreOneLeg at h
  simp only at h
  split at h
  · simp at h
  · exact BuiltL.dot hk hb h

theorem opContractSubtreesUsingDictionary_built {ig : Nat} {ketNode opNode braNode : Node} {ket op bra : T}
    {cache : Cache} {fO fB : Trafo} {r : T} {ls lo lb : List (LeafT R)} {lv : Nat → List (LeafT R)}
    (h : opContractSubtreesUsingDictionary ig ketNode ket opNode op cache braNode bra fO fB = some r)
    (hs : BuiltL ket ls) (ho : BuiltL op lo) (hb : BuiltL bra lb)
    (hc : ∀ n ∈ ketNode.nbrs, n ≠ ig → ∀ blk, cache n = some blk → BuiltL blk (lv n)) :
    BuiltL r (((ls ++ (ketNode.nbrs.filter (· ≠ ig)).flatMap lv) ++ lo) ++ lb) := by
  unfold opContractSubtreesUsingDictionary at h
  split at h
  · simp at h
  · rename_i t1 ht1
    split at h
    · simp at h
    · rename_i t2 ht2
      exact contractBraTensorIgnoreOneLeg_built h hb
        (contractOperatorTensorIgnoringOneLeg_built ht2 (allButOneLoop_built _ _ _ _ ht1 hs hc) ho)

theorem opContractAnyNodeEnvironmentButOne_built {ig : Nat} {ketNode opNode braNode : Node} {ket op bra : T}
    {cache : Cache} {fO fB : Trafo} {r : T} {ls lo lb : List (LeafT R)} {lv : Nat → List (LeafT R)}
    (h : opContractAnyNodeEnvironmentButOne ig ketNode ket opNode op cache braNode bra fO fB = some r)
    (hs : BuiltL ket ls) (ho : BuiltL op lo) (hb : BuiltL bra lb)
    (hc : ∀ n ∈ ketNode.nbrs, n ≠ ig → ∀ blk, cache n = some blk → BuiltL blk (lv n)) :
    BuiltL r (((ls ++ (if ketNode.isLeaf then [] else (ketNode.nbrs.filter (· ≠ ig)).flatMap lv)) ++ lo) ++ lb) := by
  unfold opContractAnyNodeEnvironmentButOne at h
  by_cases hl : ketNode.isLeaf = true
  · rw [if_pos hl] at h
    rw [if_pos hl]
    simpa [List.append_assoc] using opContractLeaf_built h hs ho hb
  · rw [if_neg hl] at h
    rw [if_neg hl]
    exact opContractSubtreesUsingDictionary_built h hs ho hb hc

theorem opContractNodeWithEnvironment_built {ketNode opNode : Node} {ket op bra : T} {cache : Cache}
    {r : T} {ls lo lb : List (LeafT R)} {lv : Nat → List (LeafT R)}
    (h : opContractNodeWithEnvironment ketNode ket opNode op bra cache = some r)
    (hs : BuiltL ket ls) (ho : BuiltL op lo) (hb : BuiltL bra lb)
    (hc : ∀ n ∈ ketNode.nbrs, ∀ blk, cache n = some blk → BuiltL blk (lv n)) :
    BuiltL r (lb ++ ((ls ++ ketNode.nbrs.flatMap lv) ++ lo)) := by
  unfold opContractNodeWithEnvironment at h
  split at h
  · simp at h
  · rename_i kb hkb
    split at h
    · simp at h
    · simp only at h
      split at h
      · simp at h
      · rename_i khb hkhb
        exact BuiltL.dot hb (BuiltL.dot (allLoop_built _ _ _ _ hkb hs hc) ho hkhb) h

end Ptn.C04
