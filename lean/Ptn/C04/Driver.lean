import Ptn.C04.Model
import Ptn.C04.TreeModel
import Ptn.C05.HeffModel
import Ptn.Common.EinsumDriver
/-! Line-protocol handler for C04 (core Lean only).

A node is written `<parent|->/<child,child,…|->`; identifiers are natural numbers; an identifier
transformation is an offset (`id_trafo(n) = n + off`).  Answers are `legs <leg>… | binds <leg>~<leg>…`
(free legs in axis order, bound pairs in binding order) or `error` (the library would raise).
Leg tokens: kN<n> kP bN<n> bP oN<n> oO oI BK<n> BO<n> BB<n>.

  detidx <node> <neighbour> <ignored>                     → `<index>` | error
  equiv <node1> <node2> <ignore,…|-> <off>                → `<l1,…> | <l2,…>` | error
  allbut <axis> <three> <node> <next>                     → contract_all_but_one_neighbour_block_to_ket (axis 0)
                                                             / …_to_hamiltonian (axis 1) on the standard tensors
  all <axis> <three> <node>                               → contract_all_neighbour_blocks_to_ket / …_hamiltonian
  any <ketnode> <branode> <next> <off>                    → state_state contract_any_nodes
  root <ketnode> <branode>                                → contract_node_with_environment_nodes
  opany <ketnode> <opnode> <branode> <next> <offOp> <offBra> → contract_any_node_environment_but_one
  oproot <ketnode> <opnode>                               → state_operator contract_node_with_environment
  tree2 <root> <id>:<ket kids>;<bra kids> …               → contract_two_ttns on the whole tree (global labels
                                                             gK<i>_<n> gKP<i> gB<i>_<n> gBP<i>)
  tree3 <root> <id>:<ket kids>;<operator kids> …          → expectation_value on the whole tree (… gO<i>_<n>
                                                             gOO<i> gOI<i>; the bra is the conjugated ket)
  siteheff <i> <statenode> <hamnode>                      → get_effective_single_site_hamiltonian_nodes for node i:
                                                             `rows <legs> | cols <legs> | binds …` (blocks gK<n>_<i> gO<n>_<i> gB<n>_<i>)
  linkheff <linknode> <node> <next>                       → _get_effective_link_hamiltonian(node, next)
  twoheff <target> <next> <hamtarget> <hamnext> <twosite> → _get_effective_two_site_hamiltonian(target, next)
  asmat <root> <id>:<kids>;- …                            → TTNO.as_matrix: `order <ids> | rows <legs> | cols <legs> | binds …`
-/
namespace Ptn.C04

def parseList (s : String) : Option (List Nat) :=
  if s = "-" then some [] else (s.splitOn ",").mapM (·.toNat?)

def parseNode (s : String) : Option Node :=
  match s.splitOn "/" with
  | [p, c] =>
    match parseList c with
    | none => none
    | some cs =>
      if p = "-" then some ⟨none, cs⟩ else
        match p.toNat? with
        | some x => some ⟨some x, cs⟩
        | none => none
  | _ => none

def showLeg : Leg → String
  | .ketNb n => s!"kN{n}" | .ketPhys => "kP"
  | .braNb n => s!"bN{n}" | .braPhys => "bP"
  | .opNb n => s!"oN{n}" | .opOut => "oO" | .opIn => "oI"
  | .blkKet n => s!"BK{n}" | .blkOp n => s!"BO{n}" | .blkBra n => s!"BB{n}"
  | .gKet i n => s!"gK{i}_{n}" | .gKetPhys i => s!"gKP{i}"
  | .gBra i n => s!"gB{i}_{n}" | .gBraPhys i => s!"gBP{i}"
  | .gOp i n => s!"gO{i}_{n}" | .gOpOut i => s!"gOO{i}" | .gOpIn i => s!"gOI{i}"

def showT : Option T → String
  | none => "error"
  | some t =>
    ("legs " ++ " ".intercalate (t.legs.map showLeg)).trimAscii.toString ++ " | " ++
    ("binds " ++ " ".intercalate (t.binds.map fun p => showLeg p.1 ++ "~" ++ showLeg p.2)).trimAscii.toString

def showMat : Option Ptn.C05.Heff.Mat → String
  | none => "error"
  | some m =>
    ("rows " ++ " ".intercalate (m.rows.map showLeg)).trimAscii.toString ++ " | " ++
    ("cols " ++ " ".intercalate (m.cols.map showLeg)).trimAscii.toString ++ " | " ++
    ("binds " ++ " ".intercalate (m.binds.map fun p => showLeg p.1 ++ "~" ++ showLeg p.2)).trimAscii.toString

def showNats (l : List Nat) : String := if l.isEmpty then "-" else ",".intercalate (l.map toString)

def parseBool (s : String) : Option Bool :=
  if s = "0" then some false else if s = "1" then some true else none

def parseTreeEntry (s : String) : Option (Nat × List Nat × List Nat) :=
  match s.splitOn ":" with
  | [a, b] =>
    match a.toNat?, b.splitOn ";" with
    | some i, [k1, k2] =>
      match parseList k1, parseList k2 with
      | some l1, some l2 => some (i, l1, l2)
      | _, _ => none
    | _, _ => none
  | _ => none

/-- rebuild the ordered tree from the first child table (`none`: missing entry / not a finite tree) -/
def buildTree (tbl : List (Nat × List Nat × List Nat)) : Nat → Nat → Option Tree
  | 0, _ => none
  | fuel + 1, i =>
    match tbl.find? (·.1 == i) with
    | none => none
    | some (_, ks, _) =>
      match ks.mapM (buildTree tbl fuel) with
      | none => none
      | some ts => some (.node i ts)

def parseTreeCase (root : String) (entries : List String) : Option (Tree × (Nat → List Nat)) :=
  match root.toNat?, entries.mapM parseTreeEntry with
  | some r, some tbl =>
    if (tbl.map (·.1)).eraseDups.length ≠ tbl.length then none else
    match buildTree tbl (tbl.length + 1) r with
    | none => none
    | some t =>
      if t.ids.length ≠ tbl.length then none
      else some (t, fun i => ((tbl.find? (·.1 == i)).map (·.2.2)).getD [])
  | _, _ => none

def handle (args : List String) : String :=
  match args with
  | "ein" :: rest => Ptn.Ein.handleEin rest   -- value-level semantics (Ptn/Common/EinsumDriver.lean)
  | "einrec" :: rest => Ptn.Ein.handleEinRec rest
  | ["detidx", nd, a, b] =>
    match parseNode nd, a.toNat?, b.toNat? with
    | some nd, some a, some b =>
      match determineIndexWithIgnoredLeg nd a b with
      | some i => toString i
      | none => "error"
    | _, _, _ => "bad-op"
  | ["equiv", n1, n2, ign, off] =>
    match parseNode n1, parseNode n2, parseList ign, off.toNat? with
    | some n1, some n2, some ign, some off =>
      match getEquivalentLegs n1 n2 ign (· + off) with
      | some (a, b) => showNats a ++ " | " ++ showNats b
      | none => "error"
    | _, _, _, _ => "bad-op"
  | ["allbut", axis, three, nd, next] =>
    match parseBool axis, parseBool three, parseNode nd, next.toNat? with
    | some axis, some three, some nd, some next =>
      if axis then showT (contractAllButOneNeighbourBlockToHamiltonian (opT nd) nd next (cacheBut three next))
      else showT (contractAllButOneNeighbourBlockToKet (ketT nd) nd next (cacheBut three next))
    | _, _, _, _ => "bad-op"
  | ["all", axis, three, nd] =>
    match parseBool axis, parseBool three, parseNode nd with
    | some axis, some three, some nd =>
      if axis then showT (contractAllNeighbourBlocksToHamiltonian (opT nd) nd (cacheAll three))
      else showT (contractAllNeighbourBlocksToKet (ketT nd) nd (cacheAll three))
    | _, _, _ => "bad-op"
  | ["any", kn, bn, next, off] =>
    match parseNode kn, parseNode bn, next.toNat?, off.toNat? with
    | some kn, some bn, some next, some off =>
      showT (contractAnyNodes next kn bn (ketT kn) (braT bn) (cacheBut false next) (· + off))
    | _, _, _, _ => "bad-op"
  | ["root", kn, bn] =>
    match parseNode kn, parseNode bn with
    | some kn, some bn => showT (contractNodeWithEnvironmentNodes kn (ketT kn) bn (braT bn) (cacheAll false))
    | _, _ => "bad-op"
  | ["opany", kn, on, bn, next, offOp, offBra] =>
    match parseNode kn, parseNode on, parseNode bn, next.toNat?, offOp.toNat?, offBra.toNat? with
    | some kn, some on, some bn, some next, some offOp, some offBra =>
      showT (opContractAnyNodeEnvironmentButOne next kn (ketT kn) on (opT on) (cacheBut true next) bn (braT bn)
        (· + offOp) (· + offBra))
    | _, _, _, _, _, _ => "bad-op"
  | ["oproot", kn, on] =>
    match parseNode kn, parseNode on with
    | some kn, some on => showT (opContractNodeWithEnvironment kn (ketT kn) on (opT on) (braT kn) (cacheAll true))
    | _, _ => "bad-op"
  | "tree2" :: root :: entries =>
    match parseTreeCase root entries with
    | some (t, other) =>
      showT (contractTwoTtns (netOf t (fun _ ks => ks) gKetT) (netOf t (fun i _ => other i) gBraT))
    | none => "bad-op"
  | "tree3" :: root :: entries =>
    match parseTreeCase root entries with
    | some (t, other) =>
      showT (expectationValue (netOf t (fun _ ks => ks) gKetT) (netOf t (fun i _ => other i) gOpT) gBraT)
    | none => "bad-op"
  | ["siteheff", i, sn, hn] =>
    match i.toNat?, parseNode sn, parseNode hn with
    | some i, some sn, some hn =>
      showMat (Ptn.C05.Heff.getEffectiveSingleSiteHamiltonianNodes sn hn (gOpT i hn)
        (fun n => some (Ptn.C05.Heff.gBlock n i [])))
    | _, _, _ => "bad-op"
  | ["linkheff", ln, a, b] =>
    match parseNode ln, a.toNat?, b.toNat? with
    | some ln, some a, some b =>
      showMat (Ptn.C05.Heff.getEffectiveLinkHamiltonian ln a b (fun k =>
        if k = (a, b) then some (Ptn.C05.Heff.gBlock a b []) else if k = (b, a) then some (Ptn.C05.Heff.gBlock b a [])
        else none))
    | _, _, _ => "bad-op"
  | ["twoheff", t, x, ht, hx, ts] =>
    match t.toNat?, x.toNat?, parseNode ht, parseNode hx, parseNode ts with
    | some t, some x, some ht, some hx, some ts =>
      showMat (Ptn.C05.Heff.getEffectiveTwoSiteHamiltonian ht hx ts (gOpT t ht) (gOpT x hx) t x (fun k =>
        if (k.2 = t ∧ k.1 ∈ ht.nbrs ∧ k.1 ≠ x) ∨ (k.2 = x ∧ k.1 ∈ hx.nbrs ∧ k.1 ≠ t)
        then some (Ptn.C05.Heff.gBlock k.1 k.2 []) else none))
    | _, _, _, _, _ => "bad-op"
  | "asmat" :: root :: entries =>
    match parseTreeCase root entries with
    | some (t, _) =>
      match asMatrix t with
      | none => "error"
      | some (order, rows, cols, binds) =>
        "order " ++ showNats order ++ " | rows " ++ " ".intercalate (rows.map showLeg) ++ " | cols " ++
          " ".intercalate (cols.map showLeg) ++ " | " ++
          ("binds " ++ " ".intercalate (binds.map fun p => showLeg p.1 ++ "~" ++ showLeg p.2)).trimAscii.toString
    | none => "bad-op"
  | _ => "bad-op"

end Ptn.C04
