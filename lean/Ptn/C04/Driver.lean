import Ptn.C04.Model
/-! Line-protocol handler for the C04 model (core Lean only). -/
namespace Ptn.C04
def handle (args : List String) : String := "bad-op"
end Ptn.C04
