import Ptn.C04.Model
/-! Property theorems for C04. Only property theorems and non-vacuity examples live here. -/
namespace Ptn.C04
end Ptn.C04
