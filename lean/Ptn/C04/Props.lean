import Ptn.C04.Core
import Ptn.C04.Value
import Ptn.C04.ValueOp
/-! Property theorems for C04: the leg-graph theorems are in `Core.lean` (core Lean only), the value-level
theorem in `Value.lean` (over `Ptn/Common/Einsum*.lean`, single Mathlib modules).  This file only adds the
non-vacuity example of the value-level theorem. -/
namespace Ptn.C04

open Ptn.Ein

/-- a leaf tensor with integer entries that reads exactly the two given legs -/
def demoLeaf (a b : Leg) (k : Int) : Expr Leg Int :=
  Expr.leaf [a, b] (fun σ => (σ a : Int) + k * (σ b : Int) + 1)

theorem demoLeaf_swf (a b : Leg) (k : Int) (h : a ≠ b) : (demoLeaf a b k).SWF := by
  refine ⟨by simp [h], ?_⟩
  intro σ τ hst
  show (σ a : Int) + k * (σ b : Int) + 1 = (τ a : Int) + k * (τ b : Int) + 1
  rw [hst a (by simp), hst b (by simp)]

/-- the two-node tree `0 — 1` -/
def demoTree : Tree := .node 0 [.node 1 []]

def demoK : Expr Leg Int :=
  Expr.dot (demoLeaf (Leg.gKet 0 1) (Leg.gKetPhys 0) 2) (demoLeaf (Leg.gKet 1 0) (Leg.gKetPhys 1) 3) [ketEdge 0 1]
def demoB : Expr Leg Int :=
  Expr.dot (demoLeaf (Leg.gBra 1 0) (Leg.gBraPhys 1) 5) (demoLeaf (Leg.gBra 0 1) (Leg.gBraPhys 0) 7) [braEdge 0 1]
def demoE : Expr Leg Int := Expr.dot demoK demoB (physPairs demoTree)

/-- the hypotheses of `scalar_product_value` are satisfiable: on the two-node tree the program "contract
the ket network, contract the bra network, then sum over the physical pairs" meets every premise -/
example : demoE.SWF ∧ demoK.SWF ∧ demoB.SWF ∧ (∀ l ∈ demoK.labels, l ∉ demoB.labels) ∧
    demoK.binds.Perm (ketBonds demoTree) ∧ demoB.binds.Perm (braBonds demoTree) ∧
    (∀ p ∈ physPairs demoTree, p.1 ∈ demoK.free ∧ p.2 ∈ demoB.free) ∧
    (∀ σ, demoE.leafProd σ = demoK.leafProd σ * demoB.leafProd σ) ∧
    demoE.binds.Perm (physPairs demoTree ++ (ketBonds demoTree ++ braBonds demoTree)) := by
  have hK : demoK.SWF := by
    refine ⟨demoLeaf_swf _ _ _ (by decide), demoLeaf_swf _ _ _ (by decide), ?_, ?_, ?_, ?_⟩ <;>
      simp [demoLeaf, Expr.labels, Expr.free, ketEdge]
  have hB : demoB.SWF := by
    refine ⟨demoLeaf_swf _ _ _ (by decide), demoLeaf_swf _ _ _ (by decide), ?_, ?_, ?_, ?_⟩ <;>
      simp [demoLeaf, Expr.labels, Expr.free, braEdge]
  have hpp : physPairs demoTree = [physPair 0, physPair 1] := by decide
  have hkb : ketBonds demoTree = [ketEdge 0 1] := by decide
  have hbb : braBonds demoTree = [braEdge 0 1] := by decide
  have hdis : ∀ l ∈ demoK.labels, l ∉ demoB.labels := by
    simp [demoK, demoB, demoLeaf, Expr.labels]
  have hfree : ∀ p ∈ physPairs demoTree, p.1 ∈ demoK.free ∧ p.2 ∈ demoB.free := by
    rw [hpp]; simp [demoK, demoB, demoLeaf, Expr.free, physPair, ketEdge, braEdge]
  refine ⟨⟨hK, hB, hdis, hfree, ?_, ?_⟩, hK, hB, hdis, ?_, ?_, hfree, fun σ => Expr.leafProd_dot _ _ _ σ, ?_⟩
  · rw [hpp]; simp [physPair]
  · rw [hpp]; simp [physPair]
  · rw [hkb]; simp [demoK, demoLeaf, Expr.binds]
  · rw [hbb]; simp [demoB, demoLeaf, Expr.binds]
  · rw [hkb, hbb]; simp [demoE, demoK, demoB, demoLeaf, Expr.binds]

/-! ### `contract_two_ttns_value`: node tensors that read all their legs -/

/-- node tensor of the two-node tree that reads its bond leg and its physical leg -/
def demoKv (i : Nat) : Asg Leg → Int := fun σ => (σ (Leg.gKet i (1 - i)) : Int) + 2 * (σ (Leg.gKetPhys i) : Int) + 1
def demoBv (i : Nat) : Asg Leg → Int := fun σ => 3 * (σ (Leg.gBra i (1 - i)) : Int) + (σ (Leg.gBraPhys i) : Int) + 2
def demoBraKids (i : Nat) : List Nat := if i = 0 then [1] else []

/-- the hypotheses of `contract_two_ttns_value` are satisfiable by tensors that depend on every one of their
legs: distinct identifiers, a bra child order, locality of all four node tensors -/
example : demoTree.ids.Nodup ∧ (∀ e ∈ Tree.info none demoTree, (demoBraKids e.1).Perm e.2.2) ∧
    KetLocal demoKv demoTree ∧ BraLocal demoBv demoBraKids demoTree := by
  refine ⟨by decide, by decide, ?_, ?_⟩
  · intro e he
    have : e = (0, none, [1]) ∨ e = (1, some 0, []) := by simpa [demoTree, Tree.info, Tree.infoL, Tree.id] using he
    rcases this with rfl | rfl <;> intro σ τ h <;>
      simp only [demoKv] <;> rw [h _ (by simp [gKetT, T.fresh, Node.nbrs]), h _ (by simp [gKetT, T.fresh, Node.nbrs])]
  · intro e he
    have : e = (0, none, [1]) ∨ e = (1, some 0, []) := by simpa [demoTree, Tree.info, Tree.infoL, Tree.id] using he
    rcases this with rfl | rfl <;> intro σ τ h <;>
      simp only [demoBv] <;>
      rw [h _ (by simp [gBraT, T.fresh, Node.nbrs, demoBraKids]), h _ (by simp [gBraT, T.fresh, Node.nbrs, demoBraKids])]

/-- and the conclusion is about a real computation: on the two-node tree with all dimensions 2 the loop's value
is the dense inner product, here the integer 2062 -/
example : sumPairs (fun _ => 2) (physPairs demoTree)
    (fun τ => (ketExpr demoKv demoTree).eval (fun _ => 2) τ * (braExpr demoBv demoBraKids demoTree).eval (fun _ => 2) τ)
    (fun _ => 0) = 2062 := by decide

/-! ### `expectation_value_value`: the three layers on the two-node tree -/

/-- a leaf tensor with integer entries that reads exactly the three given legs -/
def demoLeaf3 (a b c : Leg) (k : Int) : Expr Leg Int :=
  Expr.leaf [a, b, c] (fun σ => (σ a : Int) + k * (σ b : Int) + (σ b : Int) * (σ c : Int) + 1)

theorem demoLeaf3_swf (a b c : Leg) (k : Int) (h : [a, b, c].Nodup) : (demoLeaf3 a b c k).SWF := by
  refine ⟨h, ?_⟩
  intro σ τ hst
  show (σ a : Int) + k * (σ b : Int) + (σ b : Int) * (σ c : Int) + 1 =
    (τ a : Int) + k * (τ b : Int) + (τ b : Int) * (τ c : Int) + 1
  rw [hst a (by simp), hst b (by simp), hst c (by simp)]

def demoO : Expr Leg Int :=
  Expr.dot (demoLeaf3 (Leg.gOp 1 0) (Leg.gOpOut 1) (Leg.gOpIn 1) 2) (demoLeaf3 (Leg.gOp 0 1) (Leg.gOpOut 0) (Leg.gOpIn 0) 3)
    [opEdge 0 1]
def demoIn : List (Leg × Leg) := [physIn 0, physIn 1]
def demoOut : List (Leg × Leg) := [physOut 0, physOut 1]
def demoE3 : Expr Leg Int := Expr.dot (Expr.dot demoK demoO demoIn) demoB demoOut

/-- the hypotheses of `expectation_value_value` are satisfiable: on the two-node tree the program "apply the
operator to the ket, then contract with the bra" meets every premise (all dimensions 2) -/
example : demoE3.SWF ∧ demoK.WF ∧ demoO.WF ∧ demoB.WF ∧
    (∀ l ∈ demoK.labels, l ∉ demoO.labels) ∧ (∀ l ∈ demoK.labels, l ∉ demoB.labels) ∧
    (∀ l ∈ demoO.labels, l ∉ demoB.labels) ∧
    (demoOut ++ ((demoIn ++ (demoK.binds ++ demoO.binds)) ++ demoB.binds)).Perm (soSpec demoTree) ∧
    (∀ p ∈ demoIn, p.1 ∈ demoK.free ∧ p.2 ∈ demoO.free) ∧
    (∀ p ∈ demoOut, (p.1 ∈ demoO.free ∧ p.1 ∉ demoIn.map Prod.snd) ∧ p.2 ∈ demoB.free) ∧
    (∀ p ∈ soSpec demoTree, (fun _ : Leg => 2) p.1 = (fun _ : Leg => 2) p.2) ∧
    (∀ σ, demoE3.leafProd σ = demoK.leafProd σ * demoO.leafProd σ * demoB.leafProd σ) := by
  have hK : demoK.SWF := by
    refine ⟨demoLeaf_swf _ _ _ (by decide), demoLeaf_swf _ _ _ (by decide), ?_, ?_, ?_, ?_⟩ <;>
      simp [demoLeaf, Expr.labels, Expr.free, ketEdge]
  have hB : demoB.SWF := by
    refine ⟨demoLeaf_swf _ _ _ (by decide), demoLeaf_swf _ _ _ (by decide), ?_, ?_, ?_, ?_⟩ <;>
      simp [demoLeaf, Expr.labels, Expr.free, braEdge]
  have hO : demoO.SWF := by
    refine ⟨demoLeaf3_swf _ _ _ _ (by decide), demoLeaf3_swf _ _ _ _ (by decide), ?_, ?_, ?_, ?_⟩ <;>
      simp [demoLeaf3, Expr.labels, Expr.free, opEdge]
  have hKO : ∀ l ∈ demoK.labels, l ∉ demoO.labels := by
    simp [demoK, demoO, demoLeaf, demoLeaf3, Expr.labels]
  have hKB : ∀ l ∈ demoK.labels, l ∉ demoB.labels := by
    simp [demoK, demoB, demoLeaf, Expr.labels]
  have hOB : ∀ l ∈ demoO.labels, l ∉ demoB.labels := by
    simp [demoO, demoB, demoLeaf, demoLeaf3, Expr.labels]
  have hin : ∀ p ∈ demoIn, p.1 ∈ demoK.free ∧ p.2 ∈ demoO.free := by
    simp [demoIn, demoK, demoO, demoLeaf, demoLeaf3, Expr.free, physIn, ketEdge, opEdge]
  have hout : ∀ p ∈ demoOut, (p.1 ∈ demoO.free ∧ p.1 ∉ demoIn.map Prod.snd) ∧ p.2 ∈ demoB.free := by
    simp [demoOut, demoIn, demoB, demoO, demoLeaf, demoLeaf3, Expr.free, physIn, physOut, braEdge, opEdge]
  have hKOswf : (Expr.dot demoK demoO demoIn).SWF := by
    refine ⟨hK, hO, hKO, hin, ?_, ?_⟩ <;> simp [demoIn, physIn]
  refine ⟨⟨hKOswf, hB, ?_, ?_, ?_, ?_⟩, hK.wf, hO.wf, hB.wf, hKO, hKB, hOB, by decide, hin, hout, fun _ _ => rfl, ?_⟩
  · intro l hl
    simp only [Expr.labels, List.mem_append] at hl
    rcases hl with hl | hl
    · exact hKB l hl
    · exact hOB l hl
  · intro p hp
    refine ⟨?_, (hout p hp).2⟩
    simp only [Expr.free, List.mem_append, List.mem_filter]
    exact Or.inr ⟨(hout p hp).1.1, by simpa using (hout p hp).1.2⟩
  · simp [demoOut, physOut]
  · simp [demoOut, physOut]
  · intro σ
    simp only [demoE3]
    rw [Expr.leafProd_dot, Expr.leafProd_dot]

/-! ### `as_matrix_value_partial` -/

/-- operator tensors of the two-node tree that read all their legs -/
def demoOv (i : Nat) : Asg Leg → Int :=
  fun σ => (σ (Leg.gOp i (1 - i)) : Int) + 2 * (σ (Leg.gOpOut i) : Int) + 3 * (σ (Leg.gOpIn i) : Int) + 1

example : demoTree.ids.Nodup ∧ OpLocal demoOv demoTree := by
  refine ⟨by decide, ?_⟩
  intro e he
  have : e = (0, none, [1]) ∨ e = (1, some 0, []) := by simpa [demoTree, Tree.info, Tree.infoL, Tree.id] using he
  rcases this with rfl | rfl <;> intro σ τ h <;>
    simp only [demoOv] <;>
    rw [h _ (by simp [gOpT, T.fresh, Node.nbrs]), h _ (by simp [gOpT, T.fresh, Node.nbrs]),
      h _ (by simp [gOpT, T.fresh, Node.nbrs])]

/-! ### `expectation_value_loop_value`: ket, operator and bra tensors that read all their legs -/

/-- the hypotheses of `expectation_value_loop_value` are satisfiable (operator child order = `demoBraKids`), and
with all dimensions 2 every pair of the specification graph joins legs of equal dimension -/
example : demoTree.ids.Nodup ∧ (∀ e ∈ Tree.info none demoTree, (demoBraKids e.1).Perm e.2.2) ∧
    KetLocal demoKv demoTree ∧ OpLocalK demoOv demoBraKids demoTree ∧ BraLocalK demoBv demoTree ∧
    (∀ p ∈ soSpec demoTree, (fun _ : Leg => 2) p.1 = (fun _ : Leg => 2) p.2) := by
  refine ⟨by decide, by decide, ?_, ?_, ?_, fun _ _ => rfl⟩
  · intro e he
    have : e = (0, none, [1]) ∨ e = (1, some 0, []) := by simpa [demoTree, Tree.info, Tree.infoL, Tree.id] using he
    rcases this with rfl | rfl <;> intro σ τ h <;>
      simp only [demoKv] <;> rw [h _ (by simp [gKetT, T.fresh, Node.nbrs]), h _ (by simp [gKetT, T.fresh, Node.nbrs])]
  · intro e he
    have : e = (0, none, [1]) ∨ e = (1, some 0, []) := by simpa [demoTree, Tree.info, Tree.infoL, Tree.id] using he
    rcases this with rfl | rfl <;> intro σ τ h <;>
      simp only [demoOv] <;>
      rw [h _ (by simp [gOpT, T.fresh, Node.nbrs, demoBraKids]), h _ (by simp [gOpT, T.fresh, Node.nbrs, demoBraKids]),
        h _ (by simp [gOpT, T.fresh, Node.nbrs, demoBraKids])]
  · intro e he
    have : e = (0, none, [1]) ∨ e = (1, some 0, []) := by simpa [demoTree, Tree.info, Tree.infoL, Tree.id] using he
    rcases this with rfl | rfl <;> intro σ τ h <;>
      simp only [demoBv] <;> rw [h _ (by simp [gBraT, T.fresh, Node.nbrs]), h _ (by simp [gBraT, T.fresh, Node.nbrs])]

end Ptn.C04
