import Ptn.C04.Core
import Ptn.C04.Value
import Ptn.C04.ValueOp
import Ptn.C04.ValueCentre
import Ptn.C04.CentreModel
import Ptn.C04.ValueShortcut
import Ptn.C04.ValueReroot
import Ptn.C04.ValueSandwich
import Ptn.C06.Demo
/-! Property theorems for C04: the leg-graph theorems are in `Core.lean` (core Lean only), the value-level
theorem in `Value.lean` (over `Ptn/Common/Einsum*.lean`, single Mathlib modules).  This file only adds the
non-vacuity example of the value-level theorem. -/
namespace Ptn.C04

open Ptn.Ein

/-- a leaf tensor with integer entries that reads exactly the two given legs -/
def demoLeaf (a b : Leg) (k : Int) : Expr Leg Int :=
  Expr.leaf [a, b] (fun σ => (σ a : Int) + k * (σ b : Int) + 1)

theorem demoLeaf_swf (a b : Leg) (k : Int) (h : a ≠ b) : (demoLeaf a b k).SWF := by
  refine ⟨by simp [h], ?_⟩
  intro σ τ hst
  show (σ a : Int) + k * (σ b : Int) + 1 = (τ a : Int) + k * (τ b : Int) + 1
  rw [hst a (by simp), hst b (by simp)]

/-- the two-node tree `0 — 1` -/
def demoTree : Tree := .node 0 [.node 1 []]

def demoK : Expr Leg Int :=
  Expr.dot (demoLeaf (Leg.gKet 0 1) (Leg.gKetPhys 0) 2) (demoLeaf (Leg.gKet 1 0) (Leg.gKetPhys 1) 3) [ketEdge 0 1]
def demoB : Expr Leg Int :=
  Expr.dot (demoLeaf (Leg.gBra 1 0) (Leg.gBraPhys 1) 5) (demoLeaf (Leg.gBra 0 1) (Leg.gBraPhys 0) 7) [braEdge 0 1]
def demoE : Expr Leg Int := Expr.dot demoK demoB (physPairs demoTree)

/-- the hypotheses of `scalar_product_value` are satisfiable: on the two-node tree the program "contract
the ket network, contract the bra network, then sum over the physical pairs" meets every premise -/
example : demoE.SWF ∧ demoK.SWF ∧ demoB.SWF ∧ (∀ l ∈ demoK.labels, l ∉ demoB.labels) ∧
    demoK.binds.Perm (ketBonds demoTree) ∧ demoB.binds.Perm (braBonds demoTree) ∧
    (∀ p ∈ physPairs demoTree, p.1 ∈ demoK.free ∧ p.2 ∈ demoB.free) ∧
    (∀ σ, demoE.leafProd σ = demoK.leafProd σ * demoB.leafProd σ) ∧
    demoE.binds.Perm (physPairs demoTree ++ (ketBonds demoTree ++ braBonds demoTree)) := by
  have hK : demoK.SWF := by
    refine ⟨demoLeaf_swf _ _ _ (by decide), demoLeaf_swf _ _ _ (by decide), ?_, ?_, ?_, ?_⟩ <;>
      simp [demoLeaf, Expr.labels, Expr.free, ketEdge]
  have hB : demoB.SWF := by
    refine ⟨demoLeaf_swf _ _ _ (by decide), demoLeaf_swf _ _ _ (by decide), ?_, ?_, ?_, ?_⟩ <;>
      simp [demoLeaf, Expr.labels, Expr.free, braEdge]
  have hpp : physPairs demoTree = [physPair 0, physPair 1] := by decide
  have hkb : ketBonds demoTree = [ketEdge 0 1] := by decide
  have hbb : braBonds demoTree = [braEdge 0 1] := by decide
  have hdis : ∀ l ∈ demoK.labels, l ∉ demoB.labels := by
    simp [demoK, demoB, demoLeaf, Expr.labels]
  have hfree : ∀ p ∈ physPairs demoTree, p.1 ∈ demoK.free ∧ p.2 ∈ demoB.free := by
    rw [hpp]; simp [demoK, demoB, demoLeaf, Expr.free, physPair, ketEdge, braEdge]
  refine ⟨⟨hK, hB, hdis, hfree, ?_, ?_⟩, hK, hB, hdis, ?_, ?_, hfree, fun σ => Expr.leafProd_dot _ _ _ σ, ?_⟩
  · rw [hpp]; simp [physPair]
  · rw [hpp]; simp [physPair]
  · rw [hkb]; simp [demoK, demoLeaf, Expr.binds]
  · rw [hbb]; simp [demoB, demoLeaf, Expr.binds]
  · rw [hkb, hbb]; simp [demoE, demoK, demoB, demoLeaf, Expr.binds]

/-! ### `contract_two_ttns_value`: node tensors that read all their legs -/

/-- node tensor of the two-node tree that reads its bond leg and its physical leg -/
def demoKv (i : Nat) : Asg Leg → Int := fun σ => (σ (Leg.gKet i (1 - i)) : Int) + 2 * (σ (Leg.gKetPhys i) : Int) + 1
def demoBv (i : Nat) : Asg Leg → Int := fun σ => 3 * (σ (Leg.gBra i (1 - i)) : Int) + (σ (Leg.gBraPhys i) : Int) + 2
def demoBraKids (i : Nat) : List Nat := if i = 0 then [1] else []

/-- the hypotheses of `contract_two_ttns_value` are satisfiable by tensors that depend on every one of their
legs: distinct identifiers, a bra child order, locality of all four node tensors -/
example : demoTree.ids.Nodup ∧ (∀ e ∈ Tree.info none demoTree, (demoBraKids e.1).Perm e.2.2) ∧
    KetLocal demoKv demoTree ∧ BraLocal demoBv demoBraKids demoTree := by
  refine ⟨by decide, by decide, ?_, ?_⟩
  · intro e he
    have : e = (0, none, [1]) ∨ e = (1, some 0, []) := by simpa [demoTree, Tree.info, Tree.infoL, Tree.id] using he
    rcases this with rfl | rfl <;> intro σ τ h <;>
      simp only [demoKv] <;> rw [h _ (by simp [gKetT, T.fresh, Node.nbrs]), h _ (by simp [gKetT, T.fresh, Node.nbrs])]
  · intro e he
    have : e = (0, none, [1]) ∨ e = (1, some 0, []) := by simpa [demoTree, Tree.info, Tree.infoL, Tree.id] using he
    rcases this with rfl | rfl <;> intro σ τ h <;>
      simp only [demoBv] <;>
      rw [h _ (by simp [gBraT, T.fresh, Node.nbrs, demoBraKids]), h _ (by simp [gBraT, T.fresh, Node.nbrs, demoBraKids])]

/-- and the conclusion is about a real computation: on the two-node tree with all dimensions 2 the loop's value
is the dense inner product, here the integer 2062 -/
example : sumPairs (fun _ => 2) (physPairs demoTree)
    (fun τ => (ketExpr demoKv demoTree).eval (fun _ => 2) τ * (braExpr demoBv demoBraKids demoTree).eval (fun _ => 2) τ)
    (fun _ => 0) = 2062 := by decide

/-! ### `expectation_value_value`: the three layers on the two-node tree -/

/-- a leaf tensor with integer entries that reads exactly the three given legs -/
def demoLeaf3 (a b c : Leg) (k : Int) : Expr Leg Int :=
  Expr.leaf [a, b, c] (fun σ => (σ a : Int) + k * (σ b : Int) + (σ b : Int) * (σ c : Int) + 1)

theorem demoLeaf3_swf (a b c : Leg) (k : Int) (h : [a, b, c].Nodup) : (demoLeaf3 a b c k).SWF := by
  refine ⟨h, ?_⟩
  intro σ τ hst
  show (σ a : Int) + k * (σ b : Int) + (σ b : Int) * (σ c : Int) + 1 =
    (τ a : Int) + k * (τ b : Int) + (τ b : Int) * (τ c : Int) + 1
  rw [hst a (by simp), hst b (by simp), hst c (by simp)]

def demoO : Expr Leg Int :=
  Expr.dot (demoLeaf3 (Leg.gOp 1 0) (Leg.gOpOut 1) (Leg.gOpIn 1) 2) (demoLeaf3 (Leg.gOp 0 1) (Leg.gOpOut 0) (Leg.gOpIn 0) 3)
    [opEdge 0 1]
def demoIn : List (Leg × Leg) := [physIn 0, physIn 1]
def demoOut : List (Leg × Leg) := [physOut 0, physOut 1]
def demoE3 : Expr Leg Int := Expr.dot (Expr.dot demoK demoO demoIn) demoB demoOut

/-- the hypotheses of `expectation_value_value` are satisfiable: on the two-node tree the program "apply the
operator to the ket, then contract with the bra" meets every premise (all dimensions 2) -/
example : demoE3.SWF ∧ demoK.WF ∧ demoO.WF ∧ demoB.WF ∧
    (∀ l ∈ demoK.labels, l ∉ demoO.labels) ∧ (∀ l ∈ demoK.labels, l ∉ demoB.labels) ∧
    (∀ l ∈ demoO.labels, l ∉ demoB.labels) ∧
    (demoOut ++ ((demoIn ++ (demoK.binds ++ demoO.binds)) ++ demoB.binds)).Perm (soSpec demoTree) ∧
    (∀ p ∈ demoIn, p.1 ∈ demoK.free ∧ p.2 ∈ demoO.free) ∧
    (∀ p ∈ demoOut, (p.1 ∈ demoO.free ∧ p.1 ∉ demoIn.map Prod.snd) ∧ p.2 ∈ demoB.free) ∧
    (∀ p ∈ soSpec demoTree, (fun _ : Leg => 2) p.1 = (fun _ : Leg => 2) p.2) ∧
    (∀ σ, demoE3.leafProd σ = demoK.leafProd σ * demoO.leafProd σ * demoB.leafProd σ) := by
  have hK : demoK.SWF := by
    refine ⟨demoLeaf_swf _ _ _ (by decide), demoLeaf_swf _ _ _ (by decide), ?_, ?_, ?_, ?_⟩ <;>
      simp [demoLeaf, Expr.labels, Expr.free, ketEdge]
  have hB : demoB.SWF := by
    refine ⟨demoLeaf_swf _ _ _ (by decide), demoLeaf_swf _ _ _ (by decide), ?_, ?_, ?_, ?_⟩ <;>
      simp [demoLeaf, Expr.labels, Expr.free, braEdge]
  have hO : demoO.SWF := by
    refine ⟨demoLeaf3_swf _ _ _ _ (by decide), demoLeaf3_swf _ _ _ _ (by decide), ?_, ?_, ?_, ?_⟩ <;>
      simp [demoLeaf3, Expr.labels, Expr.free, opEdge]
  have hKO : ∀ l ∈ demoK.labels, l ∉ demoO.labels := by
    simp [demoK, demoO, demoLeaf, demoLeaf3, Expr.labels]
  have hKB : ∀ l ∈ demoK.labels, l ∉ demoB.labels := by
    simp [demoK, demoB, demoLeaf, Expr.labels]
  have hOB : ∀ l ∈ demoO.labels, l ∉ demoB.labels := by
    simp [demoO, demoB, demoLeaf, demoLeaf3, Expr.labels]
  have hin : ∀ p ∈ demoIn, p.1 ∈ demoK.free ∧ p.2 ∈ demoO.free := by
    simp [demoIn, demoK, demoO, demoLeaf, demoLeaf3, Expr.free, physIn, ketEdge, opEdge]
  have hout : ∀ p ∈ demoOut, (p.1 ∈ demoO.free ∧ p.1 ∉ demoIn.map Prod.snd) ∧ p.2 ∈ demoB.free := by
    simp [demoOut, demoIn, demoB, demoO, demoLeaf, demoLeaf3, Expr.free, physIn, physOut, braEdge, opEdge]
  have hKOswf : (Expr.dot demoK demoO demoIn).SWF := by
    refine ⟨hK, hO, hKO, hin, ?_, ?_⟩ <;> simp [demoIn, physIn]
  refine ⟨⟨hKOswf, hB, ?_, ?_, ?_, ?_⟩, hK.wf, hO.wf, hB.wf, hKO, hKB, hOB, by decide, hin, hout, fun _ _ => rfl, ?_⟩
  · intro l hl
    simp only [Expr.labels, List.mem_append] at hl
    rcases hl with hl | hl
    · exact hKB l hl
    · exact hOB l hl
  · intro p hp
    refine ⟨?_, (hout p hp).2⟩
    simp only [Expr.free, List.mem_append, List.mem_filter]
    exact Or.inr ⟨(hout p hp).1.1, by simpa using (hout p hp).1.2⟩
  · simp [demoOut, physOut]
  · simp [demoOut, physOut]
  · intro σ
    simp only [demoE3]
    rw [Expr.leafProd_dot, Expr.leafProd_dot]

/-! ### `as_matrix_value_partial` -/

/-- operator tensors of the two-node tree that read all their legs -/
def demoOv (i : Nat) : Asg Leg → Int :=
  fun σ => (σ (Leg.gOp i (1 - i)) : Int) + 2 * (σ (Leg.gOpOut i) : Int) + 3 * (σ (Leg.gOpIn i) : Int) + 1

example : demoTree.ids.Nodup ∧ OpLocal demoOv demoTree := by
  refine ⟨by decide, ?_⟩
  intro e he
  have : e = (0, none, [1]) ∨ e = (1, some 0, []) := by simpa [demoTree, Tree.info, Tree.infoL, Tree.id] using he
  rcases this with rfl | rfl <;> intro σ τ h <;>
    simp only [demoOv] <;>
    rw [h _ (by simp [gOpT, T.fresh, Node.nbrs]), h _ (by simp [gOpT, T.fresh, Node.nbrs]),
      h _ (by simp [gOpT, T.fresh, Node.nbrs])]

/-! ### `expectation_value_loop_value`: ket, operator and bra tensors that read all their legs -/

/-- the hypotheses of `expectation_value_loop_value` are satisfiable (operator child order = `demoBraKids`), and
with all dimensions 2 every pair of the specification graph joins legs of equal dimension -/
example : demoTree.ids.Nodup ∧ (∀ e ∈ Tree.info none demoTree, (demoBraKids e.1).Perm e.2.2) ∧
    KetLocal demoKv demoTree ∧ OpLocalK demoOv demoBraKids demoTree ∧ BraLocalK demoBv demoTree ∧
    (∀ p ∈ soSpec demoTree, (fun _ : Leg => 2) p.1 = (fun _ : Leg => 2) p.2) := by
  refine ⟨by decide, by decide, ?_, ?_, ?_, fun _ _ => rfl⟩
  · intro e he
    have : e = (0, none, [1]) ∨ e = (1, some 0, []) := by simpa [demoTree, Tree.info, Tree.infoL, Tree.id] using he
    rcases this with rfl | rfl <;> intro σ τ h <;>
      simp only [demoKv] <;> rw [h _ (by simp [gKetT, T.fresh, Node.nbrs]), h _ (by simp [gKetT, T.fresh, Node.nbrs])]
  · intro e he
    have : e = (0, none, [1]) ∨ e = (1, some 0, []) := by simpa [demoTree, Tree.info, Tree.infoL, Tree.id] using he
    rcases this with rfl | rfl <;> intro σ τ h <;>
      simp only [demoOv] <;>
      rw [h _ (by simp [gOpT, T.fresh, Node.nbrs, demoBraKids]), h _ (by simp [gOpT, T.fresh, Node.nbrs, demoBraKids]),
        h _ (by simp [gOpT, T.fresh, Node.nbrs, demoBraKids])]
  · intro e he
    have : e = (0, none, [1]) ∨ e = (1, some 0, []) := by simpa [demoTree, Tree.info, Tree.infoL, Tree.id] using he
    rcases this with rfl | rfl <;> intro σ τ h <;>
      simp only [demoBv] <;> rw [h _ (by simp [gBraT, T.fresh, Node.nbrs]), h _ (by simp [gBraT, T.fresh, Node.nbrs])]


/-! ## Centre shortcuts, `apply_operator`, `conjugate` (helper lemmas: `ValueCentre.lean`, `CentreModel.lean`) -/

section centre
set_option linter.unusedSectionVars false
variable {L : Type} [DecidableEq L] {R : Type} [CommSemiring R]

/-- **The shortcut of `scalar_product()` is sound for canonical states.**  GIVEN the network is canonical with
centre `c` in index form (`Centre.Canon`: what C03 `canonical_form_centre_norm` establishes after
`canonical_form`), (1) the full norm network has the value of `Σ C · Cc` over one common index per leg of the
centre tensor — what `np.tensordot(tensor, tensor.conj(), axes=(legs, legs))` computes — and (2) EVERY strongly
well-formed contraction program over the tensors of the norm network with the norm network's record — by
`contract_two_ttns_value` the loop of `contract_two_ttns(self, self.conjugate())` is one — evaluates to that
shortcut value. -/
theorem centre_shortcut_value (dim : L → Nat) (c : Centre L R) (hc : c.Canon dim) (hnd : c.labels.Nodup) :
    (∀ σ, netValue dim c.normBinds c.normLeaves σ = netValue dim (c.phys ++ c.kids.pairs) [c.C, c.Cc] σ) ∧
    ∀ e : Expr L R, e.SWF → e.binds.Perm c.normBinds → (e.leaves.map Prod.snd).Perm c.normLeaves →
      ∀ σ, e.eval dim σ = netValue dim (c.phys ++ c.kids.pairs) [c.C, c.Cc] σ := by
  refine ⟨fun σ => centre_norm_eq_full_norm_value dim c hc hnd σ, ?_⟩
  intro e he hb hl σ
  rw [c04_eval_eq_netValue dim e he _ _ hb hl σ]
  exact centre_norm_eq_full_norm_value dim c hc hnd σ

/-- **The shortcut of `single_site_operator_expectation_value` is sound for canonical states** (environment =
identity ⟹ `⟨ψ|O_c|ψ⟩ = Σ C·O·Cc`).  `O`: an operator tensor reading only its own legs `ops` (pairs
`(out, in)`), which occur nowhere else; `B`: ANY binding record among `C`, `O`, `Cc` — for the library
`(ket open leg, in)` and `(out, bra open leg)`.  The full sandwich network (all tensors of all nodes, the
operator, all conjugated tensors; `B` and every bond of both copies and every pair of open legs of the other
nodes) has the value of the three-tensor network `C, O, Cc` summed over `B` and one common index per bond of the
centre; and every strongly well-formed program with that record evaluates to it. -/
theorem centre_operator_value (dim : L → Nat) (c : Centre L R) (hc : c.Canon dim) (O : Asg L → R)
    (ops : List (L × L)) (hO : DependsOn (· ∈ Expr.pairLegs ops) O)
    (hnd : (Expr.pairLegs ops ++ c.labels).Nodup) (B : List (L × L)) :
    (∀ σ, netValue dim (B ++ c.kids.binds) (c.C :: O :: c.Cc :: c.kids.leaves) σ =
        netValue dim (B ++ c.kids.pairs) [c.C, O, c.Cc] σ) ∧
    ∀ e : Expr L R, e.SWF → e.binds.Perm (B ++ c.kids.binds) →
      (e.leaves.map Prod.snd).Perm (c.C :: O :: c.Cc :: c.kids.leaves) →
      ∀ σ, e.eval dim σ = netValue dim (B ++ c.kids.pairs) [c.C, O, c.Cc] σ := by
  obtain ⟨hndo, hndc, hdis⟩ := List.nodup_append.1 hnd
  obtain ⟨hC, hCc⟩ := c04_centre_C_outside dim c hc hndc
  have hk : c.kids.labels.Nodup := by
    simp only [Centre.labels, List.nodup_append] at hndc
    exact hndc.2.1
  have hO' : DependsOn (· ∉ c.kids.inner) O := by
    refine hO.mono ?_
    intro l hl hi
    exact hdis l hl l (by simp [Centre.labels, Kids.inner_sub c.kids l hi]) rfl
  have main : ∀ σ, netValue dim (B ++ c.kids.binds) (c.C :: O :: c.Cc :: c.kids.leaves) σ =
      netValue dim (B ++ c.kids.pairs) [c.C, O, c.Cc] σ := by
    intro σ
    have := c04_env_absorb dim c.kids hc.2.2 hk B [c.C, O, c.Cc] (by
      intro f hf
      simp only [List.mem_cons, List.not_mem_nil, or_false] at hf
      rcases hf with rfl | rfl | rfl <;> assumption) σ
    simpa using this
  refine ⟨main, ?_⟩
  intro e he hb hl σ
  rw [c04_eval_eq_netValue dim e he _ _ hb hl σ]
  exact main σ

/-- **`apply_operator` on one node multiplies the state vector by the operator.**  `ψ`: the state network
(leaf tensors `rest`, record `binds`); `G`: the operator tensor, reading only legs `S` that are not bound in
`ψ`; `pp`: the pairs `absorb_into_open_legs` binds (`absorb_into_open_legs_legs`: every open leg of the node with
the operator's input leg of the same position).  The new network evaluates to `Σ_in G[out, in] · ψ[… in …]`. -/
theorem apply_operator_node_value (dim : L → Nat) (binds : List (L × L)) (G : Asg L → R)
    (rest : List (Asg L → R)) (pp : List (L × L)) {S : L → Prop}
    (hG : DependsOn S G) (hdis : ∀ l ∈ Expr.pairLegs binds, ¬ S l)
    (hnd : (Expr.pairLegs (binds ++ pp)).Nodup) (σ : Asg L) :
    netValue dim (binds ++ pp) (G :: rest) σ =
      sumPairs dim pp (fun τ => G τ * netValue dim binds rest τ) σ :=
  c04_apply_operator_pairs dim binds G rest pp hG hdis hnd σ

/-- **`conjugate()` conjugates the value.**  For every ring homomorphism `cj` (complex conjugation on `ℂ`):
the network with the same record in which every tensor is replaced entry-wise by its image has the value
`cj(ψ)`; and the same for every contraction program (`conjExpr`: same nesting, same pairs, images of the
leaves) — with no well-formedness hypothesis at all. -/
theorem conjugate_value {R' : Type} [CommSemiring R'] (cj : R →+* R') (dim : L → Nat) :
    (∀ (binds : List (L × L)) (leaves : List (Asg L → R)) (σ : Asg L),
      netValue dim binds (leaves.map (fun f τ => cj (f τ))) σ = cj (netValue dim binds leaves σ)) ∧
    ∀ (e : Expr L R) (σ : Asg L), (conjExpr cj e).eval dim σ = cj (e.eval dim σ) ∧
      (conjExpr cj e).binds = e.binds ∧ (conjExpr cj e).free = e.free := by
  refine ⟨?_, fun e σ => ⟨conjExpr_eval cj dim e σ, conjExpr_binds cj e, conjExpr_free cj e⟩⟩
  intro binds leaves σ
  unfold netValue
  rw [sumPairs_map]
  apply sumPairs_congr
  intro τ
  rw [c04_prodL_map, List.map_map, List.map_map]
  rfl

end centre

/-- **`absorb_into_open_legs` on labels.**  Node tensor with virtual legs `vs` then open legs `ps`, operator with
legs `outs ++ ins` (as many of each as the node has open legs): the call succeeds, binds every open leg to the
input leg of the same position, keeps the virtual legs in place and puts the output legs where the open legs
were. -/
theorem absorb_into_open_legs_legs (vs ps outs ins : List Leg) (bs bs' : List (Leg × Leg))
    (h1 : outs.length = ps.length) (h2 : ins.length = ps.length) :
    absorbIntoOpenLegs ⟨vs ++ ps, bs⟩ ⟨outs ++ ins, bs'⟩ vs.length =
      some ⟨vs ++ outs, bs ++ bs' ++ ps.zip ins⟩ :=
  absorbIntoOpenLegs_eq vs ps outs ins bs bs' h1 h2

example : absorbIntoOpenLegs ⟨[.gKet 0 1, .gKet 0 2, .gKetPhys 0], []⟩ ⟨[.gOpOut 0, .gOpIn 0], []⟩ 2 =
    some ⟨[.gKet 0 1, .gKet 0 2, .gOpOut 0], [(.gKetPhys 0, .gOpIn 0)]⟩ := by decide

/-- a tensor with the wrong number of legs is rejected (`assert tensor.ndim == 2 * nopen_legs`) -/
example : absorbIntoOpenLegs ⟨[.gKet 0 1, .gKetPhys 0], []⟩ ⟨[.gOpOut 0, .gOpIn 0, .gOpIn 1], []⟩ 1 = none := by
  decide

/-- **What `apply_operator` does to the recorded orthogonality centre (repair F-C04b, the code as it is now).**
After absorbing operators into the nodes `ns` the record is kept exactly if there was one and every touched node
is the centre itself; otherwise it is dropped. -/
theorem apply_operator_orth_centre (oc : Option Nat) (ns : List Nat) :
    applyOperatorOrthCentre oc ns =
      match oc with
      | none => none
      | some c => if ∀ n ∈ ns, n = c then some c else none := by
  induction ns generalizing oc with
  | nil => cases oc <;> simp [applyOperatorOrthCentre]
  | cons n rest ih =>
    cases oc with
    | none => simp [applyOperatorOrthCentre, absorbOrthCentre, ih]
    | some c =>
      by_cases h : c = n
      · subst h
        simp [applyOperatorOrthCentre, absorbOrthCentre, ih]
      · have h' : ¬ n = c := fun e => h e.symm
        simp [applyOperatorOrthCentre, absorbOrthCentre, ih, h, h']

example : applyOperatorOrthCentre (some 3) [3, 3] = some 3 ∧ applyOperatorOrthCentre (some 3) [3, 4] = none ∧
    applyOperatorOrthCentre none [3] = none := by decide

/-- the shortcuts on labels: all legs of the centre tensor are bound to the same positions of its conjugate; with
an operator the last leg goes through the operator (`axes=(-1, 1)`) -/
example : centreScalarProduct ⟨[.gKet 0 1, .gKetPhys 0], []⟩ ⟨[.gBra 0 1, .gBraPhys 0], []⟩ =
      some ⟨[], [(.gKet 0 1, .gBra 0 1), (.gKetPhys 0, .gBraPhys 0)]⟩ ∧
    centreSingleSite ⟨[.gKet 0 1, .gKetPhys 0], []⟩ ⟨[.gOpOut 0, .gOpIn 0], []⟩ ⟨[.gBra 0 1, .gBraPhys 0], []⟩ =
      some ⟨[], [(.gKetPhys 0, .gOpIn 0), (.gKet 0 1, .gBra 0 1), (.gOpOut 0, .gBraPhys 0)]⟩ := by decide

/-! ### non-vacuity: the canonical demo tree of `Ptn/C06/Demo.lean` (centre — B — A, centre — A2, over ℂ) -/

/-- the hypotheses of `centre_shortcut_value` hold for a concrete canonical network with non-trivial isometries -/
example : Ptn.C06.Demo.centre.Canon Ptn.C06.Demo.dim ∧ Ptn.C06.Demo.centre.labels.Nodup :=
  ⟨Ptn.C06.Demo.centre_canon, Ptn.C06.Demo.centre_nodup⟩

/-- an operator on the centre's open leg: legs 29 (out), 39 (in), reading both -/
def demoCentreOp : Asg Nat → ℂ := fun σ => (σ 29 : ℂ) + 2 * σ 39 + 1

/-- the hypotheses of `centre_operator_value` hold for the demo tree with that operator -/
example : DependsOn (· ∈ Expr.pairLegs [((29 : Nat), (39 : Nat))]) demoCentreOp ∧
    (Expr.pairLegs [((29 : Nat), (39 : Nat))] ++ Ptn.C06.Demo.centre.labels).Nodup := by
  constructor
  · intro σ τ h
    simp only [demoCentreOp]
    rw [h 29 (by simp [Expr.pairLegs]), h 39 (by simp [Expr.pairLegs])]
  · simp [Ptn.C06.Demo.centre, Centre.labels, Ptn.C06.Demo.kids, Ptn.C06.Demo.subB, Ptn.C06.Demo.subA,
      Ptn.C06.Demo.subA2, Sub.labels, Kids.labels, Expr.pairLegs]

/-- the hypotheses of `apply_operator_node_value`: a two-tensor state `ψ = Σ_b A[b, p]·B[b']`, gate on `p` -/
example : DependsOn (· ∈ [(10 : Nat), 11]) (fun σ : Asg Nat => ((σ 10 : Int) + 2 * σ 11 + 1)) ∧
    (∀ l ∈ Expr.pairLegs [((0 : Nat), (1 : Nat))], ¬ l ∈ [(10 : Nat), 11]) ∧
    (Expr.pairLegs ([((0 : Nat), (1 : Nat))] ++ [(11, 2)])).Nodup := by
  refine ⟨?_, by simp [Expr.pairLegs], by simp [Expr.pairLegs]⟩
  intro σ τ h
  show ((σ 10 : Int) + 2 * σ 11 + 1) = ((τ 10 : Int) + 2 * τ 11 + 1)
  rw [h 10 (by simp), h 11 (by simp)]

/-! ### the centre shortcut for the output of the loop (centre = root of the tree) -/

/-- **The loop of `contract_two_ttns` returns the centre-only contraction when the state is canonical toward the
root.**  For every tree `node c ks` with distinct identifiers, every child order of the bra network, every
commutative semiring, all dimensions, all node tensors `kv i` / `bv i` (each reading only its own legs; `bv` the
conjugated copies), GIVEN the index-form isometry of every non-root node toward the root in C04's own labels
(`IsoKids`: per edge `p — i`, `Σ_{phys, legs to children} kv i · bv i = δ(gKet i p, gBra i p)`, both ends of every
bond of equal dimension — what C03 `canonical_form` establishes): the loop returns a closed tensor, it is built
by its own `tensordot` calls from the tensors of all nodes, and EVERY expression from which it is built evaluates
to `Σ C · Cc` over one common index per leg of the root tensor (`np.tensordot(tensor, tensor.conj(), axes=(legs,
legs))`, the shortcut of `scalar_product`) — which therefore equals the dense inner product `Σ_phys ketExpr·braExpr`.

`_root_partial`: the centre is the ROOT of the tree handed to the loop; for a centre elsewhere the tree has to be
re-rooted first (the labels `gKet i n` do not depend on the rooting, the `Tree` does), which is not done here. -/
theorem scalar_product_centre_shortcut_root_partial {R : Type} [CommSemiring R] (c : Nat) (ks : List Tree)
    (hnd : (Tree.node c ks).ids.Nodup)
    (braKids : Nat → List Nat) (hperm : ∀ e ∈ Tree.info none (.node c ks), (braKids e.1).Perm e.2.2)
    (kv bv : Nat → Asg Leg → R) (hkv : KetLocal kv (.node c ks)) (hbv : BraLocal bv braKids (.node c ks))
    (dim : Leg → Nat) (hiso : IsoKids kv bv dim c ks) :
    ∃ binds, contractTwoTtns (netOf (.node c ks) (fun _ ks => ks) gKetT) (netOf (.node c ks) (fun i _ => braKids i) gBraT)
        = some ⟨[], binds⟩ ∧
      (∃ e : Expr Leg R, Built ⟨[], binds⟩ e ∧ e.leaves.Perm (ssLeaves braKids kv bv none (.node c ks))) ∧
      ∀ e : Expr Leg R, Built ⟨[], binds⟩ e → e.leaves.Perm (ssLeaves braKids kv bv none (.node c ks)) →
        ∀ σ : Asg Leg,
          e.eval dim σ = netValue dim (physPair c :: downPairs c ks) [kv c, bv c] σ ∧
          sumPairs dim (physPairs (.node c ks))
            (fun τ => (ketExpr kv (.node c ks)).eval dim τ * (braExpr bv braKids (.node c ks)).eval dim τ) σ =
            netValue dim (physPair c :: downPairs c ks) [kv c, bv c] σ := by
  obtain ⟨binds, hrun, hex, hall⟩ := contract_two_ttns_value (.node c ks) hnd braKids hperm kv bv hkv hbv
  refine ⟨binds, hrun, hex, ?_⟩
  intro e hb hl σ
  obtain ⟨hswf, hbinds, _, hval⟩ := hall e hb hl
  have hspec : binds.Perm (ssSpec (.node c ks)) := by
    obtain ⟨b', hrun', hb'⟩ := contract_two_ttns_graph (.node c ks) hnd braKids hperm
    rw [hrun] at hrun'
    injection hrun' with h
    injection h with _ h2
    rw [h2]; exact hb'
  have hrec := hbinds.trans hspec
  have hnd2 : (Expr.pairLegs (ssSpec (.node c ks))).Nodup := by
    have hp : (Expr.pairLegs e.binds).Perm (Expr.pairLegs (ssSpec (.node c ks))) :=
      List.Perm.append (hrec.map _) (hrec.map _)
    exact hp.nodup_iff.1 (Expr.binds_nodup e hswf)
  have key : e.eval dim σ = netValue dim (physPair c :: downPairs c ks) [kv c, bv c] σ := by
    rw [c04_eval_eq_netValue dim e hswf _ _ hrec (hl.map _) σ]
    exact c04_root_shortcut_netValue kv bv braKids dim c ks
      (fun x hx => ⟨hkv x hx, hbv x hx, hperm x hx⟩) hiso hnd2 σ
  exact ⟨key, by rw [← hval dim σ]; exact key⟩

/-- the hypotheses of `scalar_product_centre_shortcut_root_partial` hold for a concrete canonical state: the tree
`0 — 1`, all dimensions 2, node 1 the isometry `δ(bond, phys)` (and its copy), node 0 an arbitrary tensor -/
def demoIsoKv : Nat → Asg Leg → Int := fun i σ =>
  if i = 1 then (if σ (Leg.gKet 1 0) = σ (Leg.gKetPhys 1) then 1 else 0)
  else (σ (Leg.gKet 0 1) : Int) + 2 * σ (Leg.gKetPhys 0) + 1
def demoIsoBv : Nat → Asg Leg → Int := fun i σ =>
  if i = 1 then (if σ (Leg.gBra 1 0) = σ (Leg.gBraPhys 1) then 1 else 0)
  else (σ (Leg.gBra 0 1) : Int) + 2 * σ (Leg.gBraPhys 0) + 1

example : IsoKids demoIsoKv demoIsoBv (fun _ => 2) 0 [.node 1 []] := by
  refine ⟨rfl, rfl, ⟨rfl, ?_, trivial⟩, trivial⟩
  intro τ h1 h2
  simp only at h1 h2
  have h1' : τ (Leg.gKet 1 0) = 0 ∨ τ (Leg.gKet 1 0) = 1 := by omega
  have h2' : τ (Leg.gBra 1 0) = 0 ∨ τ (Leg.gBra 1 0) = 1 := by omega
  rcases h1' with h1' | h1' <;> rcases h2' with h2' | h2' <;>
    simp [downPairs, physPair, sumPairs, sumR, upd, demoIsoKv, demoIsoBv, List.range_succ, h1', h2']

example : KetLocal demoIsoKv (.node 0 [.node 1 []]) ∧ BraLocal demoIsoBv (fun i => if i = 0 then [1] else [])
    (.node 0 [.node 1 []]) := by
  constructor
  · intro e he
    simp only [Tree.info, Tree.infoL, List.map_cons, List.map_nil, Tree.id, List.append_nil, List.mem_cons,
      List.not_mem_nil, or_false] at he
    rcases he with rfl | rfl <;> intro σ τ h <;> simp only [demoIsoKv]
    · rw [h (Leg.gKet 0 1) (by simp [gKetT, T.fresh, Node.nbrs]), h (Leg.gKetPhys 0) (by simp [gKetT, T.fresh, Node.nbrs])]; simp
    · rw [h (Leg.gKet 1 0) (by simp [gKetT, T.fresh, Node.nbrs]), h (Leg.gKetPhys 1) (by simp [gKetT, T.fresh, Node.nbrs])]; simp
  · intro e he
    simp only [Tree.info, Tree.infoL, List.map_cons, List.map_nil, Tree.id, List.append_nil, List.mem_cons,
      List.not_mem_nil, or_false] at he
    rcases he with rfl | rfl <;> intro σ τ h <;> simp only [demoIsoBv]
    · rw [h (Leg.gBra 0 1) (by simp [gBraT, T.fresh, Node.nbrs]), h (Leg.gBraPhys 0) (by simp [gBraT, T.fresh, Node.nbrs])]; simp
    · rw [h (Leg.gBra 1 0) (by simp [gBraT, T.fresh, Node.nbrs]), h (Leg.gBraPhys 1) (by simp [gBraT, T.fresh, Node.nbrs])]; simp

/-! ### the centre shortcut for the output of the loop, EVERY centre (re-rooting, B50) -/

/-- **every node of the tree is the root of one of its re-rootings** (so `scalar_product_centre_shortcut` covers
every position of the orthogonality centre) -/
theorem reroot_exists (t : Tree) (c : Nat) (hc : c ∈ t.ids) : ∃ ks, Rerooted t (.node c ks) := by
  obtain ⟨t', hr, hid⟩ := c04_reroot_exists t c hc
  obtain ⟨c', ks⟩ := t'
  simp only [Tree.id] at hid
  subst hid
  exact ⟨ks, hr⟩

/-- **a re-rooting keeps the network**: the identifiers are permuted, the specification graph keeps its legs and -
both ends of every bond of equal dimension - its value as a summation record (it is permuted and the pairs of the
crossed edges are turned around), the node tensors are the same up to order. -/
theorem ssSpec_reroot_perm {R : Type} [CommSemiring R] (dim : Leg → Nat) {t t' : Tree} (h : Rerooted t t')
    (hd : BondDims dim t) (hnd : (Expr.pairLegs (ssSpec t)).Nodup)
    (kv bv : Nat → Asg Leg → R) (braKids braKids' : Nat → List Nat) :
    t'.ids.Perm t.ids ∧ (Expr.pairLegs (ssSpec t')).Perm (Expr.pairLegs (ssSpec t)) ∧
      (∀ (f : Asg Leg → R) σ, sumPairs dim (ssSpec t') f σ = sumPairs dim (ssSpec t) f σ) ∧
      ((ssLeaves braKids' kv bv none t').map Prod.snd).Perm ((ssLeaves braKids kv bv none t).map Prod.snd) :=
  ⟨c04_reroot_ids h, ssSpec_reroot_legs h, ssSpec_reroot_value dim h hd hnd,
    ssLeaves_reroot_perm kv bv braKids h braKids'⟩

/-- **The loop of `contract_two_ttns` returns the centre-only contraction for EVERY position of the orthogonality
centre.**  The loop runs on the tree `t` as it is rooted (distinct identifiers, any child order of the bra network,
any commutative semiring, all dimensions with both ends of every bond equal, node tensors reading only their own
legs).  `node c ks` is any re-rooting of `t` (`Rerooted`; by `reroot_exists` every node `c` has one), and every node
other than `c` is an isometry TOWARD `c` in index form (`IsoKids … c ks`: the edges oriented toward the centre - what
C03 `canonical_form` establishes).  Then the loop returns a closed tensor, it is built by its own `tensordot` calls
from the tensors of all nodes, and EVERY expression from which it is built evaluates to `Σ C · Cc` over one common
index per leg of the centre tensor (`np.tensordot(tensor, tensor.conj(), axes=(legs, legs))`, the shortcut of
`scalar_product`), which therefore equals the dense inner product `Σ_phys ketExpr·braExpr` of the tree as rooted. -/
theorem scalar_product_centre_shortcut {R : Type} [CommSemiring R] (t : Tree) (hnd : t.ids.Nodup)
    (braKids : Nat → List Nat) (hperm : ∀ e ∈ Tree.info none t, (braKids e.1).Perm e.2.2)
    (kv bv : Nat → Asg Leg → R) (hkv : KetLocal kv t) (hbv : BraLocal bv braKids t)
    (dim : Leg → Nat) (hd : BondDims dim t)
    (c : Nat) (ks : List Tree) (hr : Rerooted t (.node c ks)) (hiso : IsoKids kv bv dim c ks) :
    ∃ binds, contractTwoTtns (netOf t (fun _ ks => ks) gKetT) (netOf t (fun i _ => braKids i) gBraT)
        = some ⟨[], binds⟩ ∧
      (∃ e : Expr Leg R, Built ⟨[], binds⟩ e ∧ e.leaves.Perm (ssLeaves braKids kv bv none t)) ∧
      ∀ e : Expr Leg R, Built ⟨[], binds⟩ e → e.leaves.Perm (ssLeaves braKids kv bv none t) →
        ∀ σ : Asg Leg,
          e.eval dim σ = netValue dim (physPair c :: downPairs c ks) [kv c, bv c] σ ∧
          sumPairs dim (physPairs t)
            (fun τ => (ketExpr kv t).eval dim τ * (braExpr bv braKids t).eval dim τ) σ =
            netValue dim (physPair c :: downPairs c ks) [kv c, bv c] σ := by
  obtain ⟨binds, hrun, hex, hall⟩ := contract_two_ttns_value t hnd braKids hperm kv bv hkv hbv
  refine ⟨binds, hrun, hex, ?_⟩
  intro e hb hl σ
  obtain ⟨hswf, hbinds, _, hval⟩ := hall e hb hl
  have hspec : binds.Perm (ssSpec t) := by
    obtain ⟨b', hrun', hb'⟩ := contract_two_ttns_graph t hnd braKids hperm
    rw [hrun] at hrun'
    injection hrun' with h
    injection h with _ h2
    rw [h2]; exact hb'
  have hrec := hbinds.trans hspec
  have hnd2 : (Expr.pairLegs (ssSpec t)).Nodup := by
    have hp : (Expr.pairLegs e.binds).Perm (Expr.pairLegs (ssSpec t)) :=
      List.Perm.append (hrec.map _) (hrec.map _)
    exact hp.nodup_iff.1 (Expr.binds_nodup e hswf)
  have key : e.eval dim σ = netValue dim (physPair c :: downPairs c ks) [kv c, bv c] σ := by
    rw [c04_eval_eq_netValue dim e hswf _ _ hrec (hl.map _) σ]
    exact c04_centre_shortcut_netValue kv bv braKids dim t hnd c ks hr hd
      (fun x hx => ⟨hkv x hx, hbv x hx, hperm x hx⟩) hiso hnd2 σ
  exact ⟨key, by rw [← hval dim σ]; exact key⟩

/-- the hypotheses of `scalar_product_centre_shortcut` hold with the centre NOT at the root: the loop runs on the
tree `1 — 0` rooted at `1`, the centre is node `0` (tensors `demoIsoKv` / `demoIsoBv`: node 1 the isometry
`δ(bond, phys)`, node 0 reading both of its legs; `IsoKids … 0 [node 1 []]` is the example above) -/
example : Rerooted (.node 1 [.node 0 []]) (.node 0 [.node 1 []]) :=
  Rerooted.step 1 0 [] [] [] Rerooted.refl

example : BondDims (fun _ => 2) (.node 1 [.node 0 []]) := fun _ _ => ⟨rfl, rfl⟩

example : KetLocal demoIsoKv (.node 1 [.node 0 []]) ∧ BraLocal demoIsoBv (fun i => if i = 1 then [0] else [])
    (.node 1 [.node 0 []]) := by
  constructor
  · intro e he
    simp only [Tree.info, Tree.infoL, List.map_cons, List.map_nil, Tree.id, List.append_nil, List.mem_cons,
      List.not_mem_nil, or_false] at he
    rcases he with rfl | rfl <;> intro σ τ h <;> simp only [demoIsoKv]
    · rw [h (Leg.gKet 1 0) (by simp [gKetT, T.fresh, Node.nbrs]), h (Leg.gKetPhys 1) (by simp [gKetT, T.fresh, Node.nbrs])]; simp
    · rw [h (Leg.gKet 0 1) (by simp [gKetT, T.fresh, Node.nbrs]), h (Leg.gKetPhys 0) (by simp [gKetT, T.fresh, Node.nbrs])]; simp
  · intro e he
    simp only [Tree.info, Tree.infoL, List.map_cons, List.map_nil, Tree.id, List.append_nil, List.mem_cons,
      List.not_mem_nil, or_false] at he
    rcases he with rfl | rfl <;> intro σ τ h <;> simp only [demoIsoBv]
    · rw [h (Leg.gBra 1 0) (by simp [gBraT, T.fresh, Node.nbrs]), h (Leg.gBraPhys 1) (by simp [gBraT, T.fresh, Node.nbrs])]; simp
    · rw [h (Leg.gBra 0 1) (by simp [gBraT, T.fresh, Node.nbrs]), h (Leg.gBraPhys 0) (by simp [gBraT, T.fresh, Node.nbrs])]; simp

/-! ### the centre shortcut of `single_site_operator_expectation_value` (operator sandwich at the centre, B64) -/

/-- **`BondDims` follows from the isometry hypothesis of the re-rooted tree**: `IsoKids … c ks` contains, per edge,
the equality of the dimensions of both ends in both layers; the edges of `t` are those of its re-rooting, possibly
turned around. -/
theorem bond_dims_of_iso_kids {R : Type} [CommSemiring R] (kv bv : Nat → Asg Leg → R) (dim : Leg → Nat) (t : Tree)
    (c : Nat) (ks : List Tree) (hr : Rerooted t (.node c ks)) (hiso : IsoKids kv bv dim c ks) : BondDims dim t :=
  c04_bondDims_of_isoKids kv bv dim t c ks hr hiso

/-- `scalar_product_centre_shortcut` without the hypothesis `BondDims dim t` (it is `bond_dims_of_iso_kids`). -/
theorem scalar_product_centre_shortcut_iso {R : Type} [CommSemiring R] (t : Tree) (hnd : t.ids.Nodup)
    (braKids : Nat → List Nat) (hperm : ∀ e ∈ Tree.info none t, (braKids e.1).Perm e.2.2)
    (kv bv : Nat → Asg Leg → R) (hkv : KetLocal kv t) (hbv : BraLocal bv braKids t)
    (dim : Leg → Nat)
    (c : Nat) (ks : List Tree) (hr : Rerooted t (.node c ks)) (hiso : IsoKids kv bv dim c ks) :
    ∃ binds, contractTwoTtns (netOf t (fun _ ks => ks) gKetT) (netOf t (fun i _ => braKids i) gBraT)
        = some ⟨[], binds⟩ ∧
      (∃ e : Expr Leg R, Built ⟨[], binds⟩ e ∧ e.leaves.Perm (ssLeaves braKids kv bv none t)) ∧
      ∀ e : Expr Leg R, Built ⟨[], binds⟩ e → e.leaves.Perm (ssLeaves braKids kv bv none t) →
        ∀ σ : Asg Leg,
          e.eval dim σ = netValue dim (physPair c :: downPairs c ks) [kv c, bv c] σ ∧
          sumPairs dim (physPairs t)
            (fun τ => (ketExpr kv t).eval dim τ * (braExpr bv braKids t).eval dim τ) σ =
            netValue dim (physPair c :: downPairs c ks) [kv c, bv c] σ :=
  scalar_product_centre_shortcut t hnd braKids hperm kv bv hkv hbv dim
    (bond_dims_of_iso_kids kv bv dim t c ks hr hiso) c ks hr hiso

/-- **The single-site operator sandwich at the orthogonality centre is the centre-only contraction `Σ C·O·Cc`.**
For every tree `t` as rooted (distinct identifiers, any child order of the bra network, any commutative semiring, all
dimensions, node tensors `kv i` / `bv i` reading only their own legs), every node `c` (`node c ks` any re-rooting of
`t`, `reroot_exists`), every operator tensor `O` reading only its two legs `gOpOut c`, `gOpIn c`, GIVEN that every
node other than `c` is an isometry toward `c` in index form (`IsoKids … c ks`, what C03 `canonical_form` establishes):
the two-layer network of the loop with `O` inserted between the physical legs of `c` - record `sandwichSpec c t` =
`ssSpec t` with the physical pair of `c` replaced by `(gKetPhys c, gOpIn c)`, `(gOpOut c, gBraPhys c)`; tensors: `O`
and the tensors of all nodes of both layers - has the value of the three tensors `C = kv c`, `O`, `Cc = bv c` alone,
summed over those two pairs and one common index per bond of the centre:
`np.tensordot(np.tensordot(C, O, (phys, in)), C.conj(), (all, all))`, the shortcut of
`single_site_operator_expectation_value`.  And EVERY strongly well-formed program (any nesting of `tensordot` calls)
with that record and those tensors evaluates to it. -/
theorem single_site_expectation_centre_shortcut {R : Type} [CommSemiring R] (t : Tree) (hnd : t.ids.Nodup)
    (braKids : Nat → List Nat) (hperm : ∀ e ∈ Tree.info none t, (braKids e.1).Perm e.2.2)
    (kv bv : Nat → Asg Leg → R) (hkv : KetLocal kv t) (hbv : BraLocal bv braKids t)
    (dim : Leg → Nat)
    (c : Nat) (ks : List Tree) (hr : Rerooted t (.node c ks)) (hiso : IsoKids kv bv dim c ks)
    (O : Asg Leg → R) (hO : DependsOn (· ∈ [Leg.gOpOut c, Leg.gOpIn c]) O) :
    (∀ σ : Asg Leg, netValue dim (sandwichSpec c t) (O :: (ssLeaves braKids kv bv none t).map Prod.snd) σ =
        netValue dim (opPairs c ++ downPairs c ks) [kv c, O, bv c] σ) ∧
    ∀ e : Expr Leg R, e.SWF → e.binds.Perm (sandwichSpec c t) →
      (e.leaves.map Prod.snd).Perm (O :: (ssLeaves braKids kv bv none t).map Prod.snd) →
      ∀ σ : Asg Leg, e.eval dim σ = netValue dim (opPairs c ++ downPairs c ks) [kv c, O, bv c] σ := by
  have hnd2 : (Expr.pairLegs (ssSpec t)).Nodup := by
    obtain ⟨binds, hrun, ⟨e, hb, hl⟩, hall⟩ := contract_two_ttns_value t hnd braKids hperm kv bv hkv hbv
    obtain ⟨hswf, hbinds, _, _⟩ := hall e hb hl
    have hspec : binds.Perm (ssSpec t) := by
      obtain ⟨b', hrun', hb'⟩ := contract_two_ttns_graph t hnd braKids hperm
      rw [hrun] at hrun'
      injection hrun' with h
      injection h with _ h2
      rw [h2]; exact hb'
    have hrec := hbinds.trans hspec
    have hp : (Expr.pairLegs e.binds).Perm (Expr.pairLegs (ssSpec t)) :=
      List.Perm.append (hrec.map _) (hrec.map _)
    exact hp.nodup_iff.1 (Expr.binds_nodup e hswf)
  have main := c04_centre_sandwich_netValue kv bv braKids dim t hnd c ks hr
    (fun x hx => ⟨hkv x hx, hbv x hx, hperm x hx⟩) hiso hnd2 O hO
  refine ⟨main, ?_⟩
  intro e he hb hl σ
  rw [c04_eval_eq_netValue dim e he _ _ hb hl σ]
  exact main σ

/-- an operator on the open leg of the centre `0` that reads both of its legs; with the examples above
(`Rerooted (node 1 [node 0 []]) (node 0 [node 1 []])`, `IsoKids demoIsoKv demoIsoBv (fun _ => 2) 0 [node 1 []]`,
`KetLocal` / `BraLocal` on the tree rooted at 1) every hypothesis of `single_site_expectation_centre_shortcut` holds
with the centre NOT at the root -/
def demoSandwichOp : Asg Leg → Int := fun σ => (σ (Leg.gOpOut 0) : Int) + 2 * σ (Leg.gOpIn 0) + 1

example : DependsOn (· ∈ [Leg.gOpOut 0, Leg.gOpIn 0]) demoSandwichOp := by
  intro σ τ h
  simp only [demoSandwichOp]
  rw [h (Leg.gOpOut 0) (by simp), h (Leg.gOpIn 0) (by simp)]

/-- the record of the sandwich on the tree `1 - 0` (rooted at 1) with the centre 0 -/
example : sandwichSpec 0 (.node 1 [.node 0 []]) =
    [(Leg.gKetPhys 0, Leg.gOpIn 0), (Leg.gOpOut 0, Leg.gBraPhys 0), physPair 1, ketEdge 1 0, braEdge 1 0] := by
  decide

/-- both sides of `single_site_expectation_centre_shortcut` on that instance, computed: the full sandwich network and
the centre-only contraction are 160 (not a degenerate value) -/
example :
    netValue (fun _ => 2) (sandwichSpec 0 (.node 1 [.node 0 []]))
      (demoSandwichOp :: (ssLeaves (fun i => if i = 1 then [0] else []) demoIsoKv demoIsoBv none
        (.node 1 [.node 0 []])).map Prod.snd) (fun _ => 0) = 160 ∧
    netValue (fun _ => 2) (opPairs 0 ++ downPairs 0 [.node 1 []]) [demoIsoKv 0, demoSandwichOp, demoIsoBv 0]
      (fun _ => 0) = 160 := by
  decide +kernel

end Ptn.C04
