import Ptn.C04.Root
/-! The operator versions: `contract_operator_tensor_ignoring_one_leg`,
`contract_bra_tensor_ignore_one_leg`, `contract_leaf` of `state_operator_contraction.py`. -/
namespace Ptn.C04

theorem remaining_append (idx : List Nat) (k : Nat) (l1 l2 : List Leg) :
    remaining idx k (l1 ++ l2) = remaining idx k l1 ++ remaining idx (k + l1.length) l2 := by
  induction l1 generalizing k with
  | nil => simp [remaining]
  | cons x xs ih =>
    simp only [List.cons_append, remaining, ih (k + 1), List.length_cons]
    have : k + 1 + xs.length = k + (xs.length + 1) := by omega
    rw [this]
    split <;> simp

/-- legs of interleaved two-leg groups: the even positions -/
theorem pick_evens (pre : List Leg) (F : List Nat) (p q : Nat → Leg) (suf : List Leg) :
    pick (pre ++ F.flatMap (fun n => [p n, q n]) ++ suf) ((List.range F.length).map (fun k => 2 * k + pre.length))
      = some (F.map p) := by
  induction F generalizing pre with
  | nil => simp [pick]
  | cons n rest ih =>
    have h := ih (pre ++ [p n, q n])
    simp only [List.length_cons, List.range_succ_eq_map, List.map_cons, List.map_map, pick, Nat.mul_zero,
      Nat.zero_add, List.flatMap_cons, List.append_assoc, List.cons_append, List.nil_append]
    have hx : (pre ++ p n :: q n :: (rest.flatMap (fun n => [p n, q n]) ++ suf))[pre.length]? = some (p n) := by
      simp
    rw [hx]
    have hfun : ((fun k => 2 * k + pre.length) ∘ Nat.succ) = fun k => 2 * k + (pre ++ [p n, q n]).length := by
      funext k; simp; omega
    rw [hfun]
    simp only [List.append_assoc, List.cons_append, List.nil_append] at h
    rw [h]

/-- the odd positions survive when exactly the even ones are listed -/
theorem remaining_pairs (idx : List Nat) (k : Nat) (F : List Nat) (p q : Nat → Leg)
    (hin : ∀ i, i < F.length → k + 2 * i ∈ idx) (hout : ∀ i, i < F.length → k + 2 * i + 1 ∉ idx) :
    remaining idx k (F.flatMap (fun n => [p n, q n])) = F.map q := by
  induction F generalizing k with
  | nil => rfl
  | cons n rest ih =>
    have m0 : k ∈ idx := by simpa using hin 0 (by simp)
    have m1 : k + 1 ∉ idx := by simpa using hout 0 (by simp)
    have ihk := ih (k + 1 + 1)
      (fun i hi => by
        have := hin (i + 1) (by simpa using hi)
        have e : k + 1 + 1 + 2 * i = k + 2 * (i + 1) := by omega
        rw [e]; exact this)
      (fun i hi => by
        have := hout (i + 1) (by simpa using hi)
        have e : k + 1 + 1 + 2 * i + 1 = k + 2 * (i + 1) + 1 := by omega
        rw [e]; exact this)
    simp [remaining, m0, m1, ihk]

theorem remaining_one_keep (idx : List Nat) (k : Nat) (a : Leg) (h : k ∉ idx) : remaining idx k [a] = [a] := by
  simp [remaining, h]

theorem remaining_one_drop (idx : List Nat) (k : Nat) (a : Leg) (h : k ∈ idx) : remaining idx k [a] = [] := by
  simp [remaining, h]

theorem remaining_keep_drop (idx : List Nat) (k : Nat) (a b : Leg) (h0 : k ∉ idx) (h1 : k + 1 ∈ idx) :
    remaining idx k [a, b] = [a] := by
  have e : [a, b] = [a] ++ [b] := rfl
  rw [e, remaining_append, remaining_one_keep idx k a h0, remaining_one_drop idx _ b (by simpa using h1)]
  rfl

/-! ### the side of the other layer (operator or bra node): index list built by `get_equivalent_legs` -/

section side
variable (K N2 : List Nat) (next : Nat) (f : Trafo)
variable (hK : K.Nodup) (hN : N2.Nodup) (hnext : next ∈ K) (hperm : N2.Perm (K.map f))
include hK hN hnext hperm
set_option linter.unusedSectionVars false

theorem side_nodup (extra : Nat) (hextra : N2.length ≤ extra) :
    ((K.filter (· ≠ next)).map (fun n => N2.idxOf (f n)) ++ [extra]).Nodup := by
  have hmemB : ∀ n ∈ K, f n ∈ N2 := fun n hn => hperm.mem_iff.2 (List.mem_map.2 ⟨n, hn, rfl⟩)
  have hinj := inj_on_of_nodup_map K f (hperm.nodup_iff.1 hN)
  rw [List.nodup_append]
  refine ⟨nodup_map_of_inj_on _ _ (nodup_filter _ hK) (fun x hx y hy e => ?_), by simp, ?_⟩
  · have hx' := (List.mem_filter.1 hx).1
    have hy' := (List.mem_filter.1 hy).1
    exact hinj x hx' y hy' (idxOf_inj (hmemB x hx') (hmemB y hy') e)
  · intro a ha b hb
    simp only [List.mem_map] at ha
    obtain ⟨n, hn, rfl⟩ := ha
    simp only [List.mem_singleton] at hb
    have := List.idxOf_lt_length_of_mem (hmemB n (List.mem_filter.1 hn).1)
    omega

theorem side_pick (mk : Nat → Leg) (tail : List Leg) :
    pick (N2.map mk ++ tail) ((K.filter (· ≠ next)).map (fun n => N2.idxOf (f n)))
      = some ((K.filter (· ≠ next)).map (fun n => mk (f n))) := by
  have hmemB : ∀ n ∈ K, f n ∈ N2 := fun n hn => hperm.mem_iff.2 (List.mem_map.2 ⟨n, hn, rfl⟩)
  apply pick_map
  intro n hn
  exact getElem?_map_idxOf mk tail (hmemB n (List.mem_filter.1 hn).1)

theorem side_remaining (mk : Nat → Leg) (extra : Nat) (hextra : N2.length ≤ extra) :
    remaining ((K.filter (· ≠ next)).map (fun n => N2.idxOf (f n)) ++ [extra]) 0 (N2.map mk) = [mk (f next)] := by
  have hmemB : ∀ n ∈ K, f n ∈ N2 := fun n hn => hperm.mem_iff.2 (List.mem_map.2 ⟨n, hn, rfl⟩)
  have hsurj : ∀ b ∈ N2, ∃ n ∈ K, f n = b := fun b hb => List.mem_map.1 (hperm.mem_iff.1 hb)
  have hinj := inj_on_of_nodup_map K f (hperm.nodup_iff.1 hN)
  have hj := List.idxOf_lt_length_of_mem (hmemB next hnext)
  rw [remaining_singleton _ 0 _ (N2.idxOf (f next)) (by simpa using hj)]
  · have := getElem?_map_idxOf mk [] (hmemB next hnext)
    rw [List.append_nil, List.getElem?_eq_getElem (by simpa using hj)] at this
    simp at this
    simp
  · intro i hi hne
    simp only [Nat.zero_add, List.mem_append, List.mem_map, List.mem_singleton]
    left
    have hi2 : i < N2.length := by simpa using hi
    obtain ⟨n, hn, hfn⟩ := hsurj _ (List.getElem_mem hi2)
    have hidx : N2.idxOf (f n) = i := by rw [hfn]; exact hN.idxOf_getElem i hi2
    refine ⟨n, List.mem_filter.2 ⟨hn, ?_⟩, hidx⟩
    have : n ≠ next := fun e => hne (by rw [← hidx, e])
    simpa using this
  · simp only [Nat.zero_add, List.mem_append, List.mem_map, List.mem_singleton, not_or, not_exists, not_and]
    refine ⟨fun n hn e => ?_, by omega⟩
    have hn' := List.mem_filter.1 hn
    have hne : n ≠ next := by simpa using hn'.2
    exact hne (hinj n hn'.1 next hnext (idxOf_inj (hmemB n hn'.1) (hmemB next hnext) e))

end side

theorem filter_ignore_single (K : List Nat) (next : Nat) :
    K.filter (fun n => ![next].contains n) = K.filter (· ≠ next) := by
  apply List.filter_congr
  intro n _
  simp

theorem length_filter_ne (K : List Nat) (next : Nat) (hK : K.Nodup) (hnext : next ∈ K) :
    K.length = (K.filter (· ≠ next)).length + 1 := by
  obtain ⟨A, B, rfl⟩ := List.append_of_mem hnext
  obtain ⟨hxA, hxB, _, _, _⟩ := nodup_mid hK
  rw [filter_ne_mid A B next hxA hxB]
  simp
  omega

/-- `contract_operator_tensor_ignoring_one_leg` on the tensor delivered by
`contract_all_but_one_neighbour_block_to_ket` (three-layer blocks) -/
theorem opTensor_general (x y zo zi : Leg) (pO q mkO : Nat → Leg) (ketNode opNode : Node) (next : Nat) (g : Trafo)
    (bs : List (Leg × Leg))
    (hK : ketNode.nbrs.Nodup) (hO : opNode.nbrs.Nodup) (hnext : next ∈ ketNode.nbrs)
    (hperm : opNode.nbrs.Perm (ketNode.nbrs.map g)) :
    contractOperatorTensorIgnoringOneLeg
        ⟨[x, y] ++
          (ketNode.nbrs.filter (· ≠ next)).flatMap (fun n => [pO n, q n]), bs⟩
        ketNode (T.fresh (opNode.nbrs.map mkO ++ [zo, zi])) opNode next g =
      some ⟨[x] ++ (ketNode.nbrs.filter (· ≠ next)).map q ++ [mkO (g next), zo],
            bs ++ ((ketNode.nbrs.filter (· ≠ next)).map (fun n => (pO n, mkO (g n)))
                    ++ [(y, zi)])⟩ := by
  have hmemB : ∀ n ∈ ketNode.nbrs, g n ∈ opNode.nbrs := fun n hn =>
    hperm.mem_iff.2 (List.mem_map.2 ⟨n, hn, rfl⟩)
  have hlen := length_filter_ne ketNode.nbrs next hK hnext
  have heq := equivLoop_eq ketNode opNode [next] g ketNode.nbrs (fun n hn _ => ⟨hn, hmemB n hn⟩)
  rw [filter_ignore_single] at heq
  simp only [contractOperatorTensorIgnoringOneLeg, getEquivalentLegs, heq, nodeOperatorInputLeg, Node.nn_eq]
  have hnn : ketNode.nbrs.length - 1 = (ketNode.nbrs.filter (· ≠ next)).length := by omega
  rw [hnn]
  generalize hF : ketNode.nbrs.filter (· ≠ next) = F at *
  have pa : pick ([x, y] ++ F.flatMap (fun n => [pO n, q n]))
      ((List.range F.length).map (fun k => 2 * k + 2) ++ [1]) = some (F.map pO ++ [y]) := by
    apply pick_append
    · have := pick_evens [x, y] F pO q []
      simpa using this
    · exact pick_single _ _ _ (by simp)
  have pb : pick (T.fresh (opNode.nbrs.map mkO ++ [zo, zi])).legs (F.map (fun n => opNode.nbrs.idxOf (g n)) ++ [opNode.nbrs.length + 1])
      = some (F.map (fun n => mkO (g n)) ++ [zi]) := by
    apply pick_append
    · rw [← hF]
      exact side_pick ketNode.nbrs opNode.nbrs next g hK hO hnext hperm mkO [zo, zi]
    · apply pick_single
      simp [T.fresh]
  have nda : ((List.range F.length).map (fun k => 2 * k + 2) ++ [1]).Nodup := by
    rw [List.nodup_append]
    refine ⟨?_, by simp, ?_⟩
    · exact nodup_map_of_inj_on _ _ List.nodup_range (fun x _ y _ e => by omega)
    · intro a ha b hb
      simp only [List.mem_map] at ha
      obtain ⟨n, _, rfl⟩ := ha
      simp only [List.mem_singleton] at hb
      omega
  have ndb : (F.map (fun n => opNode.nbrs.idxOf (g n)) ++ [opNode.nbrs.length + 1]).Nodup := by
    rw [← hF]
    exact side_nodup ketNode.nbrs opNode.nbrs next g hK hO hnext hperm _ (by omega)
  rw [tensordot_eq _ _ _ _ _ _ (by simp) nda ndb pa pb]
  have ra : remaining ((List.range F.length).map (fun k => 2 * k + 2) ++ [1]) 0
      ([x, y] ++ F.flatMap (fun n => [pO n, q n]))
        = x :: F.map q := by
    have h0 : ((List.range F.length).map (fun k => 2 * k + 2) ++ [1]).contains 0 = false := by
      cases hc : ((List.range F.length).map (fun k => 2 * k + 2) ++ [1]).contains 0 with
      | false => rfl
      | true =>
        simp only [List.contains_iff_mem, List.mem_append, List.mem_map, List.mem_range, List.mem_singleton] at hc
        rcases hc with ⟨k, _, hk⟩ | hk <;> omega
    have h1 : ((List.range F.length).map (fun k => 2 * k + 2) ++ [1]).contains 1 = true := by simp
    simp only [List.cons_append, List.nil_append, remaining, h0, h1, if_true, Nat.zero_add]
    rw [remaining_pairs]
    · simp
    · intro i hi
      simp only [List.mem_append, List.mem_map, List.mem_range, List.mem_singleton]
      exact Or.inl ⟨i, hi, by omega⟩
    · intro i _ hc
      simp only [List.mem_append, List.mem_map, List.mem_range, List.mem_singleton] at hc
      rcases hc with ⟨k, _, hk⟩ | hk <;> omega
  have rb : remaining (F.map (fun n => opNode.nbrs.idxOf (g n)) ++ [opNode.nbrs.length + 1]) 0 (T.fresh (opNode.nbrs.map mkO ++ [zo, zi])).legs
      = [mkO (g next), zo] := by
    simp only [T.fresh]
    rw [remaining_append, ← hF,
      side_remaining ketNode.nbrs opNode.nbrs next g hK hO hnext hperm mkO _ (by omega)]
    rw [remaining_keep_drop]
    · simp
    · simp only [Nat.zero_add, List.length_map, List.mem_append, List.mem_map, List.mem_singleton, not_or,
        not_exists, not_and]
      refine ⟨fun n hn hk => ?_, by omega⟩
      have := List.idxOf_lt_length_of_mem (hmemB n (List.mem_filter.1 hn).1)
      omega
    · simp
  rw [ra, rb, List.zip_append (by simp), zip_map_same]
  simp [T.fresh]

/-- `contract_bra_tensor_ignore_one_leg` on the tensor delivered by
`contract_operator_tensor_ignoring_one_leg` -/
theorem braTensor_general (x0 v z : Leg) (q mkB : Nat → Leg) (ketNode braNode : Node) (next : Nat) (f : Trafo) (x : Leg)
    (bs : List (Leg × Leg))
    (hK : ketNode.nbrs.Nodup) (hB : braNode.nbrs.Nodup) (hnext : next ∈ ketNode.nbrs)
    (hperm : braNode.nbrs.Perm (ketNode.nbrs.map f)) :
    contractBraTensorIgnoreOneLeg (T.fresh (braNode.nbrs.map mkB ++ [z])) braNode
        ⟨[x0] ++ (ketNode.nbrs.filter (· ≠ next)).map q ++ [x, v], bs⟩
        ketNode next f =
      some ⟨[x0, x, mkB (f next)],
            bs ++ ((ketNode.nbrs.filter (· ≠ next)).map (fun n => (q n, mkB (f n)))
                    ++ [(v, z)])⟩ := by
  have hmemB : ∀ n ∈ ketNode.nbrs, f n ∈ braNode.nbrs := fun n hn =>
    hperm.mem_iff.2 (List.mem_map.2 ⟨n, hn, rfl⟩)
  have hlen := length_filter_ne ketNode.nbrs next hK hnext
  have heq := equivLoop_eq ketNode braNode [next] f ketNode.nbrs (fun n hn _ => ⟨hn, hmemB n hn⟩)
  rw [filter_ignore_single] at heq
  simp only [contractBraTensorIgnoreOneLeg, getEquivalentLegs, heq, nodeStatePhysLeg, Node.nn_eq]
  have hnn : ketNode.nbrs.length - 1 = (ketNode.nbrs.filter (· ≠ next)).length := by omega
  have hnn2 : ketNode.nbrs.length + 1 = (ketNode.nbrs.filter (· ≠ next)).length + 2 := by omega
  rw [hnn, hnn2]
  generalize hF : ketNode.nbrs.filter (· ≠ next) = F at *
  have pa : pick ([x0] ++ F.map q ++ [x, v])
      (List.range' 1 F.length ++ [F.length + 2]) = some (F.map q ++ [v]) := by
    apply pick_append
    · have := pick_range' [x0] (F.map q) [x, v]
      simpa using this
    · apply pick_single
      have : F.length + 2 = ([x0] ++ F.map q ++ [x]).length := by simp
      rw [this]
      simp
  have pb : pick (T.fresh (braNode.nbrs.map mkB ++ [z])).legs (F.map (fun n => braNode.nbrs.idxOf (f n)) ++ [braNode.nbrs.length])
      = some (F.map (fun n => mkB (f n)) ++ [z]) := by
    apply pick_append
    · rw [← hF]
      exact side_pick ketNode.nbrs braNode.nbrs next f hK hB hnext hperm mkB [z]
    · apply pick_single
      simp [T.fresh]
  have nda : (List.range' 1 F.length ++ [F.length + 2]).Nodup := by
    rw [List.nodup_append]
    refine ⟨List.nodup_range', by simp, ?_⟩
    intro a ha b hb
    simp only [List.mem_range'_1] at ha
    simp only [List.mem_singleton] at hb
    omega
  have ndb : (F.map (fun n => braNode.nbrs.idxOf (f n)) ++ [braNode.nbrs.length]).Nodup := by
    rw [← hF]
    exact side_nodup ketNode.nbrs braNode.nbrs next f hK hB hnext hperm _ (by omega)
  rw [tensordot_eq _ _ _ _ _ _ (by simp) nda ndb pa pb]
  have ra : remaining (List.range' 1 F.length ++ [F.length + 2]) 0
      ([x0] ++ F.map q ++ [x, v]) = [x0, x] := by
    rw [remaining_append, remaining_append]
    have h0 : remaining (List.range' 1 F.length ++ [F.length + 2]) 0 [x0] = [x0] := by
      apply remaining_one_keep
      simp only [List.mem_append, List.mem_range'_1, List.mem_singleton]
      omega
    have h1 : remaining (List.range' 1 F.length ++ [F.length + 2]) (0 + [x0].length) (F.map q)
        = [] := by
      apply remaining_all
      intro i hi
      simp only [List.length_map] at hi
      simp only [List.mem_append, List.mem_range'_1, List.mem_singleton, List.length_cons, List.length_nil]
      left; omega
    have h2 : remaining (List.range' 1 F.length ++ [F.length + 2])
        (0 + ([x0] ++ F.map q).length) [x, v] = [x] := by
      apply remaining_keep_drop
      · simp only [List.mem_append, List.mem_range'_1, List.mem_singleton, List.length_append, List.length_cons,
          List.length_nil, List.length_map]
        omega
      · simp only [List.mem_append, List.mem_range'_1, List.mem_singleton, List.length_append, List.length_cons,
          List.length_nil, List.length_map]
        omega
    rw [h0, h1, h2]
    simp
  have rb : remaining (F.map (fun n => braNode.nbrs.idxOf (f n)) ++ [braNode.nbrs.length]) 0 (T.fresh (braNode.nbrs.map mkB ++ [z])).legs
      = [mkB (f next)] := by
    simp only [T.fresh]
    rw [remaining_append, ← hF,
      side_remaining ketNode.nbrs braNode.nbrs next f hK hB hnext hperm mkB _ (by omega)]
    rw [remaining_one_drop _ _ _ (by simp)]
    simp
  rw [ra, rb, List.zip_append (by simp), zip_map_same]
  simp [T.fresh]

/-- `contract_leaf` (state, operator and bra nodes are leaves below `p`, `p'`, `p''`), arbitrary labels -/
theorem opContractLeaf_general (p p' p'' : Nat) (a y o zo zi b z : Leg) :
    opContractLeaf ⟨some p, []⟩ (T.fresh [a, y]) ⟨some p', []⟩ (T.fresh [o, zo, zi])
        ⟨some p'', []⟩ (T.fresh [b, z]) =
      some ⟨[a, o, b], [(zo, z), (y, zi)]⟩ := by
  simp only [opContractLeaf, nodeOperatorOutputLeg, nodeStatePhysLeg, nodeOperatorInputLeg, Node.nn,
    Node.nparents, T.fresh]
  rw [tensordot_one _ _ _ _ zo z (by simp) (by simp)]
  simp only [List.nil_append]
  rw [tensordot_one _ _ _ _ y zi (by simp) (by simp)]
  simp

theorem opContractLeaf_eq (p p' p'' : Nat) :
    opContractLeaf ⟨some p, []⟩ (ketT ⟨some p, []⟩) ⟨some p', []⟩ (opT ⟨some p', []⟩)
        ⟨some p'', []⟩ (braT ⟨some p'', []⟩) =
      some ⟨[Leg.ketNb p, Leg.opNb p', Leg.braNb p''],
            [(Leg.opOut, Leg.braPhys), (Leg.ketPhys, Leg.opIn)]⟩ := by
  have := opContractLeaf_general p p' p'' (Leg.ketNb p) Leg.ketPhys (Leg.opNb p') Leg.opOut Leg.opIn
    (Leg.braNb p'') Leg.braPhys
  simpa [ketT, opT, braT, T.fresh, Node.nbrs] using this

end Ptn.C04
