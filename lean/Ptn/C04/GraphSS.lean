import Ptn.C04.Graph
/-! `contract_two_ttns` along the whole tree: every cached block denotes its subtree. -/
namespace Ptn.C04

/-! ### small tree facts -/

theorem Tree.id_mem_ids : ∀ t : Tree, t.id ∈ t.ids
  | .node i ks => by simp [Tree.id, Tree.ids]

theorem Tree.kid_ids_sub : ∀ (ts : List Tree) (c : Tree), c ∈ ts → ∀ j ∈ c.ids, j ∈ Tree.idsL ts
  | [], _, hc, _, _ => by simp at hc
  | t :: ts, c, hc, j, hj => by
    simp only [List.mem_cons] at hc
    simp only [Tree.idsL, List.mem_append]
    rcases hc with rfl | hc
    · exact Or.inl hj
    · exact Or.inr (Tree.kid_ids_sub ts c hc j hj)

theorem Tree.kid_id_mem (ts : List Tree) (n : Nat) (hn : n ∈ ts.map Tree.id) : n ∈ Tree.idsL ts := by
  obtain ⟨c, hc, rfl⟩ := List.mem_map.1 hn
  exact Tree.kid_ids_sub ts c hc _ (Tree.id_mem_ids c)

theorem Tree.nodup_kid_ids : ∀ (ts : List Tree), (Tree.idsL ts).Nodup → (ts.map Tree.id).Nodup
  | [], _ => by simp
  | t :: ts, h => by
    simp only [Tree.idsL, List.nodup_append] at h
    simp only [List.map_cons, List.nodup_cons]
    refine ⟨fun hm => ?_, Tree.nodup_kid_ids ts h.2.1⟩
    exact h.2.2 _ (Tree.id_mem_ids t) _ (Tree.kid_id_mem ts _ hm) rfl

/-- the bindings of the block of the kid with identifier `n` -/
def bbOf (ts : List Tree) (n : Nat) : List (Leg × Leg) :=
  ((ts.find? (fun c => c.id == n)).map ssBlockBinds).getD []

/-- the entry of kid `k.1` of node `i` -/
def kidBlock (ts : List Tree) (i : Nat) (k : Nat × Nat) : Option T :=
  if k.2 = i then (ts.find? (fun c => c.id == k.1)).map (fun c => ssBlock c i) else none

theorem kidBlock_of_mem (ts : List Tree) (i n : Nat) (hn : n ∈ ts.map Tree.id) :
    kidBlock ts i (n, i) = some ⟨[Leg.gKet n i, Leg.gBra n i], bbOf ts n⟩ := by
  obtain ⟨c, hc, hcn⟩ := List.mem_map.1 hn
  have hsome : (ts.find? (fun c => c.id == n)).isSome := by
    rw [List.find?_isSome]; exact ⟨c, hc, by simp [hcn]⟩
  obtain ⟨c', hc'⟩ := Option.isSome_iff_exists.1 hsome
  have hid : c'.id = n := by simpa using List.find?_some hc'
  simp [kidBlock, bbOf, hc', ssBlock, hid]

theorem kidBlock_none (ts : List Tree) (i : Nat) (k : Nat × Nat) (h : k ∉ (ts.map Tree.id).map (fun c => (c, i))) :
    kidBlock ts i k = none := by
  unfold kidBlock
  by_cases h2 : k.2 = i
  · rw [if_pos h2]
    cases hf : ts.find? (fun c => c.id == k.1) with
    | none => rfl
    | some c =>
      exfalso
      apply h
      have hid : c.id = k.1 := by simpa using List.find?_some hf
      have hm := List.mem_of_find?_eq_some hf
      simp only [List.map_map, List.mem_map, Function.comp]
      exact ⟨c, hm, by rw [hid, ← h2]⟩
  · rw [if_neg h2]

theorem kidBlock_cons (c : Tree) (cs : List Tree) (i : Nat) (k : Nat × Nat) :
    kidBlock (c :: cs) i k = if k = (c.id, i) then some (ssBlock c i) else kidBlock cs i k := by
  obtain ⟨k1, k2⟩ := k
  unfold kidBlock
  by_cases h2 : k2 = i
  · by_cases h1 : c.id = k1
    · subst h1; subst h2; simp
    · have hb : (c.id == k1) = false := by simpa using h1
      have : ¬ ((k1, k2) = (c.id, i)) := by
        intro e; exact h1 (by simpa using (Prod.mk.inj e).1.symm)
      simp [h2, hb]
      intro e; exact absurd e.symm h1
  · have : ¬ ((k1, k2) = (c.id, i)) := fun e => h2 (Prod.mk.inj e).2
    simp [h2, this]

theorem flatMap_congr' {α β : Type} (l : List α) (f g : α → List β) (h : ∀ x ∈ l, f x = g x) :
    l.flatMap f = l.flatMap g := by
  induction l with
  | nil => rfl
  | cons a as ih => simp [List.flatMap_cons, h a (by simp), ih (fun x hx => h x (by simp [hx]))]

theorem kidsBinds_eq (i : Nat) : ∀ (ts : List Tree), (ts.map Tree.id).Nodup →
    (ts.map Tree.id).flatMap (fun n => bbOf ts n ++ [ketEdge i n]) = ssKidsBinds i ts
  | [], _ => by simp [ssKidsBinds]
  | c :: cs, hnd => by
    simp only [List.map_cons, List.nodup_cons] at hnd
    have ih := kidsBinds_eq i cs hnd.2
    have hhead : bbOf (c :: cs) c.id = ssBlockBinds c := by simp [bbOf]
    have htail : (cs.map Tree.id).flatMap (fun n => bbOf (c :: cs) n ++ [ketEdge i n])
        = (cs.map Tree.id).flatMap (fun n => bbOf cs n ++ [ketEdge i n]) := by
      apply flatMap_congr'
      intro n hn
      have hne : c.id ≠ n := fun e => hnd.1 (e ▸ hn)
      have hb : (c.id == n) = false := by simpa using hne
      simp [bbOf, hb]
    simp only [List.map_cons, List.flatMap_cons, hhead, htail, ih, ssKidsBinds]

/-! ### the loop -/

theorem ssLoop_append (s1 s2 : Net) (l1 l2 : List Nat) (d : Dict) :
    ssLoop s1 s2 (l1 ++ l2) d = (ssLoop s1 s2 l1 d).bind (fun d1 => ssLoop s1 s2 l2 d1) := by
  induction l1 generalizing d with
  | nil => simp [ssLoop]
  | cons i rest ih =>
    simp only [List.cons_append, ssLoop]
    cases ssStep s1 s2 d i with
    | none => simp
    | some d1 => simp [ih]

mutual
theorem Tree.info_sub_ids (p : Option Nat) :
    ∀ (t : Tree) (e : Nat × Option Nat × List Nat), e ∈ Tree.info p t → e.1 ∈ t.ids
  | .node i ks, e, he => by
    simp only [Tree.info, List.mem_cons] at he
    rcases he with rfl | he
    · simp [Tree.ids]
    · simp [Tree.ids, Tree.infoL_sub_ids i ks e he]
theorem Tree.infoL_sub_ids (p : Nat) :
    ∀ (ts : List Tree) (e : Nat × Option Nat × List Nat), e ∈ Tree.infoL p ts → e.1 ∈ Tree.idsL ts
  | [], e, he => by simp [Tree.infoL] at he
  | t :: ts, e, he => by
    simp only [Tree.infoL, List.mem_append] at he
    rcases he with he | he
    · simp [Tree.idsL, Tree.info_sub_ids (some p) t e he]
    · simp [Tree.idsL, Tree.infoL_sub_ids p ts e he]
end

/-- the two networks are the two labelled states on the same tree part: same parents, independent
child orders -/
def Rep (s1 s2 : Net) (braKids : Nat → List Nat) (info : List (Nat × Option Nat × List Nat)) : Prop :=
  ∀ e ∈ info,
    s1.node e.1 = some ⟨e.2.1, e.2.2⟩ ∧ s1.tensor e.1 = some (gKetT e.1 ⟨e.2.1, e.2.2⟩) ∧
    s2.node e.1 = some ⟨e.2.1, braKids e.1⟩ ∧ s2.tensor e.1 = some (gBraT e.1 ⟨e.2.1, braKids e.1⟩) ∧
    (braKids e.1).Perm e.2.2

section
variable (s1 s2 : Net) (braKids : Nat → List Nat)

/-- one node step, given that the blocks of all kids are in the dictionary -/
theorem ssStep_node (i p : Nat) (ks : List Tree) (d : Dict)
    (hnd : (Tree.node i ks).ids.Nodup) (hp : p ∉ (Tree.node i ks).ids)
    (hrep : Rep s1 s2 braKids [(i, some p, ks.map Tree.id)])
    (hd : ∀ n ∈ ks.map Tree.id, d (n, i) = kidBlock ks i (n, i)) :
    ∃ d', ssStep s1 s2 d i = some d' ∧
      ∀ k, d' k = if k ∈ (ks.map Tree.id).map (fun c => (c, i)) then none
                  else if k = (i, p) then some (ssBlock (Tree.node i ks) p) else d k := by
  obtain ⟨h1, h2, h3, h4, hperm⟩ := hrep (i, some p, ks.map Tree.id) (by simp)
  simp only at h1 h2 h3 h4 hperm
  simp only [Tree.ids, List.nodup_cons] at hnd
  simp only [Tree.ids, List.mem_cons, not_or] at hp
  have hkn : (ks.map Tree.id).Nodup := Tree.nodup_kid_ids ks hnd.2
  have hpk : p ∉ ks.map Tree.id := fun hm => hp.2 (Tree.kid_id_mem ks p hm)
  have hik : i ∉ ks.map Tree.id := fun hm => hnd.1 (Tree.kid_id_mem ks i hm)
  have hK : (Node.mk (some p) (ks.map Tree.id)).nbrs.Nodup := by
    simp [Node.nbrs, hpk, hkn]
  have hpermN : (Node.mk (some p) (braKids i)).nbrs.Perm ((Node.mk (some p) (ks.map Tree.id)).nbrs.map id) := by
    simp [Node.nbrs, hperm]
  have hB : (Node.mk (some p) (braKids i)).nbrs.Nodup := by
    have := hpermN
    simp only [List.map_id] at this
    exact this.nodup_iff.2 hK
  have hfilter : (Node.mk (some p) (ks.map Tree.id)).nbrs.filter (· ≠ p) = ks.map Tree.id := by
    have := filter_ne_mid [] (ks.map Tree.id) p (by simp) hpk
    simpa [Node.nbrs] using this
  have hany := contract_any_nodes_general (Leg.gKet i) (Leg.gBra i) (fun n => Leg.gKet n i) (fun n => Leg.gBra n i)
    (Leg.gKetPhys i) (Leg.gBraPhys i) (bbOf ks) (d.cacheOf i) ⟨some p, ks.map Tree.id⟩ ⟨some p, braKids i⟩ p id
    hK hB (by simp [Node.nbrs]) hpermN rfl
    (fun n hn hne => by
      have hn' : n ∈ ks.map Tree.id := by
        simp only [Node.nbrs, Option.toList_some, List.singleton_append, List.mem_cons] at hn
        rcases hn with e | hn
        · exact absurd e hne
        · exact hn
      simp only [Dict.cacheOf, hd n hn', kidBlock_of_mem ks i n hn'])
  have hkb := kidsBinds_eq i ks hkn
  simp only [ketEdge] at hkb
  rw [hfilter, hkb] at hany
  have hblock : ssContractAny i p s1 s2 d = some (ssBlock (Tree.node i ks) p) := by
    simp only [ssContractAny, h1, h2, h3, h4, gKetT, gBraT]
    rw [hany]
    simp [ssBlock, ssBlockBinds, Tree.id, braEdge, physPair, List.map_map, Function.comp]
  have hkeys : ((ks.map Tree.id).map (fun c => (c, i))).Nodup :=
    nodup_map_of_inj_on _ _ hkn (fun x _ y _ e => (Prod.mk.inj e).1)
  obtain ⟨d', hdel, hspec⟩ := Dict.deleteAll_spec (d.add (i, p) (ssBlock (Tree.node i ks) p))
    ((ks.map Tree.id).map (fun c => (c, i))) hkeys
    (fun k hk => by
      obtain ⟨n, hn, rfl⟩ := List.mem_map.1 hk
      have hne : ¬ ((n, i) = (i, p)) := fun e => hik ((Prod.mk.inj e).1 ▸ hn)
      simp only [Dict.add, hne, if_false, hd n hn, kidBlock_of_mem ks i n hn, Option.isSome_some])
  refine ⟨d', by simp only [ssStep, h1, hblock, hdel], fun k => ?_⟩
  rw [hspec k]
  by_cases hk : k ∈ (ks.map Tree.id).map (fun c => (c, i))
  · rw [if_pos hk, if_pos hk]
  · rw [if_neg hk, if_neg hk]
    rfl

mutual
theorem ssLoop_subtree :
    ∀ (t : Tree) (p : Nat) (d : Dict), t.ids.Nodup → p ∉ t.ids →
      Rep s1 s2 braKids (Tree.info (some p) t) → (∀ j ∈ t.ids, ∀ x, d (j, x) = none) →
      ∃ d', ssLoop s1 s2 t.post d = some d' ∧
        ∀ k, d' k = if k = (t.id, p) then some (ssBlock t p) else d k
  | .node i ks, p, d, hnd, hp, hrep, hfresh => by
    have hnd' := hnd
    simp only [Tree.ids, List.nodup_cons] at hnd'
    obtain ⟨df, hf1, hf2⟩ := ssLoop_forest ks i d hnd'.2 hnd'.1
      (fun e he => hrep e (by simp [Tree.info, he]))
      (fun j hj x => hfresh j (by simp [Tree.ids, hj]) x)
    have hik : i ∉ ks.map Tree.id := fun hm => hnd'.1 (Tree.kid_id_mem ks i hm)
    obtain ⟨d', hs1, hs2⟩ := ssStep_node s1 s2 braKids i p ks df hnd hp
      (fun e he => by
        simp only [List.mem_singleton] at he
        subst he
        exact hrep _ (by simp [Tree.info]))
      (fun n hn => by
        rw [hf2 (n, i), kidBlock_of_mem ks i n hn])
    refine ⟨d', by simp [Tree.post, ssLoop_append, hf1, ssLoop, hs1], ?_⟩
    show ∀ k, d' k = if k = (i, p) then some (ssBlock (Tree.node i ks) p) else d k
    intro k
    rw [hs2 k]
    by_cases hk : k ∈ (ks.map Tree.id).map (fun c => (c, i))
    · obtain ⟨n, hn, rfl⟩ := List.mem_map.1 hk
      have hne : ¬ ((n, i) = (i, p)) := fun e => hik ((Prod.mk.inj e).1 ▸ hn)
      rw [if_pos hk, if_neg hne]
      exact (hfresh n (by simp [Tree.ids, Tree.kid_id_mem ks n hn]) i).symm
    · rw [if_neg hk]
      by_cases hk2 : k = (i, p)
      · simp [hk2]
      · rw [if_neg hk2, if_neg hk2, hf2 k, kidBlock_none ks i k hk]
theorem ssLoop_forest :
    ∀ (ts : List Tree) (i : Nat) (d : Dict), (Tree.idsL ts).Nodup → i ∉ Tree.idsL ts →
      Rep s1 s2 braKids (Tree.infoL i ts) → (∀ j ∈ Tree.idsL ts, ∀ x, d (j, x) = none) →
      ∃ d', ssLoop s1 s2 (Tree.postL ts) d = some d' ∧
        ∀ k, d' k = match kidBlock ts i k with
                    | some b => some b
                    | none => d k
  | [], i, d, _, _, _, _ => ⟨d, by simp [Tree.postL, ssLoop], fun k => by simp [kidBlock]⟩
  | c :: cs, i, d, hnd, hi, hrep, hfresh => by
    simp only [Tree.idsL, List.nodup_append] at hnd
    simp only [Tree.idsL, List.mem_append, not_or] at hi
    obtain ⟨d1, h11, h12⟩ := ssLoop_subtree c i d hnd.1 hi.1
      (fun e he => hrep e (by simp [Tree.infoL, he]))
      (fun j hj x => hfresh j (by simp [Tree.idsL, hj]) x)
    obtain ⟨d2, h21, h22⟩ := ssLoop_forest cs i d1 hnd.2.1 hi.2
      (fun e he => hrep e (by simp [Tree.infoL, he]))
      (fun j hj x => by
        have hne : ¬ ((j, x) = (c.id, i)) := fun e =>
          hnd.2.2 _ (Tree.id_mem_ids c) _ hj (Prod.mk.inj e).1.symm
        rw [h12 (j, x), if_neg hne]
        exact hfresh j (by simp [Tree.idsL, hj]) x)
    refine ⟨d2, by simp [Tree.postL, ssLoop_append, h11, h21], fun k => ?_⟩
    rw [h22 k, kidBlock_cons]
    by_cases hk : k = (c.id, i)
    · have hnone : kidBlock cs i k = none := by
        apply kidBlock_none
        intro hm
        obtain ⟨n, hn, e⟩ := List.mem_map.1 hm
        rw [hk] at e
        have : n = c.id := (Prod.mk.inj e).1
        exact hnd.2.2 _ (Tree.id_mem_ids c) _ (Tree.kid_id_mem cs n hn) this.symm
      rw [hnone, if_pos hk, h12 k, if_pos hk]
    · rw [if_neg hk]
      cases hkb : kidBlock cs i k with
      | some b => rfl
      | none => simp only; rw [h12 k, if_neg hk]
end

end

/-! ### the whole contraction -/

theorem contractTwoTtns_eq (t : Tree) (hnd : t.ids.Nodup) (braKids : Nat → List Nat)
    (hperm : ∀ e ∈ Tree.info none t, (braKids e.1).Perm e.2.2) :
    contractTwoTtns (netOf t (fun _ ks => ks) gKetT) (netOf t (fun i _ => braKids i) gBraT) =
      some ⟨[], ssRootBinds t (braKids t.id)⟩ := by
  obtain ⟨r, ks⟩ := t
  have hrep : Rep (netOf (.node r ks) (fun _ ks => ks) gKetT) (netOf (.node r ks) (fun i _ => braKids i) gBraT)
      braKids (Tree.info none (.node r ks)) := by
    intro e he
    have h1 := netOf_node (.node r ks) (fun _ ks => ks) gKetT hnd e he
    have h2 := netOf_node (.node r ks) (fun i _ => braKids i) gBraT hnd e he
    exact ⟨h1.1, h1.2, h2.1, h2.2, hperm e he⟩
  have hnd' := hnd
  simp only [Tree.ids, List.nodup_cons] at hnd'
  obtain ⟨d, hl, hd⟩ := ssLoop_forest _ _ braKids ks r Dict.empty hnd'.2 hnd'.1
    (fun e he => hrep e (by simp [Tree.info, he])) (fun _ _ _ => rfl)
  obtain ⟨h1, h2, h3, h4, hp⟩ := hrep (r, none, ks.map Tree.id) (by simp [Tree.info])
  simp only at h1 h2 h3 h4 hp
  have hkn : (ks.map Tree.id).Nodup := Tree.nodup_kid_ids ks hnd'.2
  have hroot := contract_root_general (Leg.gKet r) (Leg.gBra r) (fun n => Leg.gKet n r) (fun n => Leg.gBra n r)
    (Leg.gKetPhys r) (Leg.gBraPhys r) (bbOf ks) (d.cacheOf r) ⟨none, ks.map Tree.id⟩ ⟨none, braKids r⟩
    (by simpa [Node.nbrs] using hkn) (by simpa [Node.nbrs] using hp.nodup_iff.2 hkn)
    (by simpa [Node.nbrs] using hp)
    (fun n hn => by
      have hn' : n ∈ ks.map Tree.id := by simpa [Node.nbrs] using hn
      simp only [Dict.cacheOf, hd (n, r), kidBlock_of_mem ks r n hn'])
  have hkb := kidsBinds_eq r ks hkn
  simp only [ketEdge] at hkb
  have hnb1 : (Node.mk none (ks.map Tree.id)).nbrs = ks.map Tree.id := by simp [Node.nbrs]
  have hnb2 : (Node.mk none (braKids r)).nbrs = braKids r := by simp [Node.nbrs]
  rw [hnb1, hnb2, hkb] at hroot
  have horder : (netOf (.node r ks) (fun _ ks => ks) gKetT).order = Tree.postL ks ++ [r] := rfl
  have hr1 : (netOf (.node r ks) (fun _ ks => ks) gKetT).root = r := rfl
  have hr2 : (netOf (.node r ks) (fun i _ => braKids i) gBraT).root = r := rfl
  simp only [contractTwoTtns, horder, hr1, hr2, List.getLast?_concat, List.dropLast_concat, ne_eq,
    not_true_eq_false, or_self, if_false, hl, ssContractNodeWithEnvironment, h1, h2, h3, h4, gKetT, gBraT,
    hnb1, hnb2]
  rw [hroot]
  simp [ssRootBinds, Tree.id, Tree.kids, braEdge, physPair]

mutual
theorem count_blockBinds (x : Leg × Leg) : ∀ t : Tree, (ssBlockBinds t).count x = (ssSpec t).count x
  | .node i ks => by
    have := count_kidsBinds x i ks
    simp only [ssBlockBinds, ssSpec, List.count_append, List.count_cons, List.count_nil]
    omega
theorem count_kidsBinds (x : Leg × Leg) (i : Nat) : ∀ ts : List Tree,
    (ssKidsBinds i ts).count x + (ts.map fun c => braEdge i c.id).count x = (ssSpecL i ts).count x
  | [] => by simp [ssKidsBinds, ssSpecL]
  | c :: cs => by
    have h1 := count_blockBinds x c
    have h2 := count_kidsBinds x i cs
    simp only [ssKidsBinds, ssSpecL, List.map_cons, List.count_append, List.count_cons, List.count_nil]
    omega
end

theorem ssRootBinds_perm (t : Tree) (bk : List Nat) (hp : bk.Perm (t.kids.map Tree.id)) :
    (ssRootBinds t bk).Perm (ssSpec t) := by
  rw [List.perm_iff_count]
  intro x
  obtain ⟨r, ks⟩ := t
  have h1 := count_kidsBinds x r ks
  have h2 : (bk.map (braEdge r)).count x = ((ks.map Tree.id).map (braEdge r)).count x :=
    (hp.map (braEdge r)).count_eq x
  simp only [List.map_map] at h2
  have h3 : (ks.map (braEdge r ∘ Tree.id)) = ks.map fun c => braEdge r c.id := rfl
  rw [h3] at h2
  simp only [ssRootBinds, ssSpec, Tree.id, Tree.kids, List.count_append, List.count_cons, List.count_nil]
  omega

mutual
theorem mem_ssSpec (x : Leg × Leg) : ∀ t : Tree,
    x ∈ ssSpec t ↔ (∃ n ∈ t.ids, x = physPair n) ∨ (∃ e ∈ t.edges, x = ketEdge e.1 e.2 ∨ x = braEdge e.1 e.2)
  | .node i ks => by
    simp only [ssSpec, Tree.ids, Tree.edges, List.mem_cons, mem_ssSpecL x i ks, exists_eq_or_imp]
    constructor
    · rintro (h | h | h)
      · exact Or.inl (Or.inl h)
      · exact Or.inl (Or.inr h)
      · exact Or.inr h
    · rintro ((h | h) | h)
      · exact Or.inl h
      · exact Or.inr (Or.inl h)
      · exact Or.inr (Or.inr h)
theorem mem_ssSpecL (x : Leg × Leg) (i : Nat) : ∀ ts : List Tree,
    x ∈ ssSpecL i ts ↔ (∃ n ∈ Tree.idsL ts, x = physPair n) ∨
      (∃ e ∈ Tree.edgesL i ts, x = ketEdge e.1 e.2 ∨ x = braEdge e.1 e.2)
  | [] => by simp [ssSpecL, Tree.idsL, Tree.edgesL]
  | c :: cs => by
    simp only [ssSpecL, Tree.idsL, Tree.edgesL, List.mem_cons, List.mem_append, mem_ssSpec x c,
      mem_ssSpecL x i cs, exists_eq_or_imp]
    constructor
    · rintro (h | h | (h | h) | (h | h))
      · exact Or.inr (Or.inl (Or.inl h))
      · exact Or.inr (Or.inl (Or.inr h))
      · obtain ⟨n, hn, e⟩ := h; exact Or.inl ⟨n, Or.inl hn, e⟩
      · obtain ⟨e, he, h⟩ := h; exact Or.inr (Or.inr ⟨e, Or.inl he, h⟩)
      · obtain ⟨n, hn, e⟩ := h; exact Or.inl ⟨n, Or.inr hn, e⟩
      · obtain ⟨e, he, h⟩ := h; exact Or.inr (Or.inr ⟨e, Or.inr he, h⟩)
    · rintro (⟨n, hn | hn, e⟩ | (h | h) | ⟨e, he | he, h⟩)
      · exact Or.inr (Or.inr (Or.inl (Or.inl ⟨n, hn, e⟩)))
      · exact Or.inr (Or.inr (Or.inr (Or.inl ⟨n, hn, e⟩)))
      · exact Or.inl h
      · exact Or.inr (Or.inl h)
      · exact Or.inr (Or.inr (Or.inl (Or.inr ⟨e, he, h⟩)))
      · exact Or.inr (Or.inr (Or.inr (Or.inr ⟨e, he, h⟩)))
end

end Ptn.C04
