import Ptn.C04.Lemmas
/-! The two loops of `contraction_util` over `neighbouring_nodes()`, for an arbitrary layer
(`mk = ketNb`, block axis 0: `…_to_ket`; `mk = opNb`, block axis 1: `…_to_hamiltonian`). -/
namespace Ptn.C04

theorem nodup_mid {A B : List Nat} {x : Nat} (h : (A ++ x :: B).Nodup) :
    x ∉ A ∧ x ∉ B ∧ A.Nodup ∧ B.Nodup ∧ (∀ a ∈ A, a ∉ B) := by
  rw [List.nodup_append] at h
  obtain ⟨hA, hxB, hd⟩ := h
  rw [List.nodup_cons] at hxB
  refine ⟨fun hx => hd x hx x (by simp) rfl, hxB.1, hA, hxB.2, fun a ha hb => hd a ha a (by simp [hb]) rfl⟩

theorem determineIndex_left (nd : Node) (A B : List Nat) (next n : Nat) (hL : nd.nbrs = A ++ next :: B)
    (hnd : nd.nbrs.Nodup) (hn : n ∈ A) : determineIndexWithIgnoredLeg nd n next = some 0 := by
  rw [hL] at hnd
  obtain ⟨hxA, _, _, _, _⟩ := nodup_mid hnd
  have hne : n ≠ next := fun e => hxA (e ▸ hn)
  have h1 : nd.neighbourIndex n = some (A.idxOf n) := by
    rw [Node.neighbourIndex_of_mem nd n (by simp [hL, hn]), hL]; simp [List.idxOf_append, hn]
  have h2 : nd.neighbourIndex next = some A.length := by
    rw [Node.neighbourIndex_of_mem nd next (by simp [hL]), hL, idxOf_append_mid A B next hxA]
  have hlt := List.idxOf_lt_length_of_mem hn
  simp only [determineIndexWithIgnoredLeg, h1, h2]
  have : ¬ A.length = A.idxOf n := by omega
  have h3 : ¬ A.length < A.idxOf n := by omega
  simp [this, h3]

theorem determineIndex_right (nd : Node) (A B : List Nat) (next n : Nat) (hL : nd.nbrs = A ++ next :: B)
    (hnd : nd.nbrs.Nodup) (hn : n ∈ B) : determineIndexWithIgnoredLeg nd n next = some 1 := by
  rw [hL] at hnd
  obtain ⟨hxA, hxB, _, _, hd⟩ := nodup_mid hnd
  have hne : n ≠ next := fun e => hxB (e ▸ hn)
  have hnA : n ∉ A := fun ha => hd n ha hn
  have h1 : nd.neighbourIndex n = some (B.idxOf n + 1 + A.length) := by
    rw [Node.neighbourIndex_of_mem nd n (by simp [hL, hn]), hL]
    have hb : (next == n) = false := by simpa using fun e => hne e.symm
    simp [List.idxOf_append, hnA, List.idxOf_cons, hb]
  have h2 : nd.neighbourIndex next = some A.length := by
    rw [Node.neighbourIndex_of_mem nd next (by simp [hL]), hL, idxOf_append_mid A B next hxA]
  simp only [determineIndexWithIgnoredLeg, h1, h2]
  have : ¬ A.length = B.idxOf n + 1 + A.length := by omega
  have h3 : A.length < B.idxOf n + 1 + A.length := by omega
  simp [h3]

/-- one loop iteration with a known tensor leg -/
theorem contractNeighbourBlock_step (axis : Nat) (mk : Nat → Leg) (blk : Nat → T) (bl : Nat → Leg)
    (cache : Cache) (nd : Node) (n : Nat) (P Q : List Leg) (bs : List (Leg × Leg))
    (hc : cache n = some (blk n)) (hb : (blk n).legs[axis]? = some (bl n)) :
    contractNeighbourBlock axis ⟨P ++ mk n :: Q, bs⟩ nd n cache (some P.length) =
      some ⟨P ++ Q ++ (blk n).legs.eraseIdx axis, bs ++ ((blk n).binds ++ [(mk n, bl n)])⟩ := by
  simp only [contractNeighbourBlock, hc]
  rw [tensordot_one _ _ _ _ (mk n) (bl n) (by simp) hb]
  simp [eraseIdx_append_mid]

theorem allButOneLoop_seg (axis : Nat) (mk : Nat → Leg) (blk : Nat → T) (bl : Nat → Leg)
    (cache : Cache) (nd : Node) (next : Nat) (P : List Leg) (seg : List Nat) (R : List Leg)
    (bs : List (Leg × Leg))
    (h : ∀ n ∈ seg, n ≠ next ∧ determineIndexWithIgnoredLeg nd n next = some P.length ∧
      cache n = some (blk n) ∧ (blk n).legs[axis]? = some (bl n)) :
    allButOneLoop axis nd next cache seg ⟨P ++ seg.map mk ++ R, bs⟩ =
      some ⟨P ++ R ++ seg.flatMap (fun n => (blk n).legs.eraseIdx axis),
            bs ++ seg.flatMap (fun n => (blk n).binds ++ [(mk n, bl n)])⟩ := by
  induction seg generalizing R bs with
  | nil => simp [allButOneLoop]
  | cons n rest ih =>
    obtain ⟨hne, hdet, hc, hb⟩ := h n (by simp)
    simp only [allButOneLoop, hne, ne_eq, not_false_eq_true, if_true, contractNeighbourBlockIgnoreOneLeg, hdet]
    have hstep := contractNeighbourBlock_step axis mk blk bl cache nd n P (rest.map mk ++ R) bs hc hb
    simp only [List.map_cons, List.cons_append, List.append_assoc] at hstep ⊢
    rw [hstep]
    have := ih (R ++ (blk n).legs.eraseIdx axis) (bs ++ ((blk n).binds ++ [(mk n, bl n)]))
      (fun m hm => h m (by simp [hm]))
    simp only [List.append_assoc] at this
    dsimp only
    rw [this]
    simp

theorem allButOneLoop_skip (axis : Nat) (nd : Node) (next : Nat) (cache : Cache) (rest : List Nat) (t : T) :
    allButOneLoop axis nd next cache (next :: rest) t = allButOneLoop axis nd next cache rest t := by
  simp [allButOneLoop]

theorem allButOneLoop_append (axis : Nat) (nd : Node) (next : Nat) (cache : Cache) (l1 l2 : List Nat) (t t' : T)
    (h : allButOneLoop axis nd next cache l1 t = some t') :
    allButOneLoop axis nd next cache (l1 ++ l2) t = allButOneLoop axis nd next cache l2 t' := by
  induction l1 generalizing t with
  | nil => simp [allButOneLoop] at h; subst h; rfl
  | cons n rest ih =>
    simp only [List.cons_append, allButOneLoop] at h ⊢
    by_cases hne : n ≠ next
    · rw [if_pos hne] at h ⊢
      cases hc : contractNeighbourBlockIgnoreOneLeg axis t nd n next cache with
      | none => rw [hc] at h; simp at h
      | some t1 => rw [hc] at h; exact ih t1 h
    · rw [if_neg hne] at h ⊢; exact ih t h

theorem filter_ne_mid (A B : List Nat) (x : Nat) (hA : x ∉ A) (hB : x ∉ B) :
    (A ++ x :: B).filter (· ≠ x) = A ++ B := by
  have h1 : A.filter (fun a => !decide (a = x)) = A :=
    List.filter_eq_self.2 (fun a ha => by have : a ≠ x := fun e => hA (e ▸ ha); simp [this])
  have h2 : B.filter (fun a => !decide (a = x)) = B :=
    List.filter_eq_self.2 (fun a ha => by have : a ≠ x := fun e => hB (e ▸ ha); simp [this])
  simp [List.filter_append, h1, h2]

/-- `contract_all_but_one_neighbour_block_to_{ket,hamiltonian}` in general form -/
theorem allButOne_general (axis : Nat) (mk : Nat → Leg) (blk : Nat → T) (bl : Nat → Leg) (tail : List Leg)
    (cache : Cache) (nd : Node) (next : Nat) (hnd : nd.nbrs.Nodup) (hnext : next ∈ nd.nbrs)
    (h : ∀ n ∈ nd.nbrs, n ≠ next →
      cache n = some (blk n) ∧ (blk n).legs[axis]? = some (bl n)) :
    allButOneLoop axis nd next cache nd.nbrs (T.fresh (nd.nbrs.map mk ++ tail)) =
      some ⟨mk next :: tail ++ (nd.nbrs.filter (· ≠ next)).flatMap (fun n => (blk n).legs.eraseIdx axis),
            (nd.nbrs.filter (· ≠ next)).flatMap (fun n => (blk n).binds ++ [(mk n, bl n)])⟩ := by
  obtain ⟨A, B, hL⟩ := List.append_of_mem hnext
  have hnd' := hnd
  rw [hL] at hnd'
  obtain ⟨hxA, hxB, _, _, _⟩ := nodup_mid hnd'
  have hA := allButOneLoop_seg axis mk blk bl cache nd next [] A (mk next :: B.map mk ++ tail) []
    (fun n hn => by
      have hne : n ≠ next := fun e => hxA (e ▸ hn)
      exact ⟨hne, determineIndex_left nd A B next n hL hnd hn, h n (by simp [hL, hn]) hne⟩)
  have hB := allButOneLoop_seg axis mk blk bl cache nd next [mk next] B
    (tail ++ A.flatMap (fun n => (blk n).legs.eraseIdx axis))
    (A.flatMap (fun n => (blk n).binds ++ [(mk n, bl n)]))
    (fun n hn => by
      have hne : n ≠ next := fun e => hxB (e ▸ hn)
      exact ⟨hne, determineIndex_right nd A B next n hL hnd hn, h n (by simp [hL, hn]) hne⟩)
  rw [hL, filter_ne_mid A B next hxA hxB]
  simp only [T.fresh, List.map_append, List.map_cons, List.append_assoc, List.nil_append, List.cons_append,
    List.flatMap_append] at hA hB ⊢
  rw [allButOneLoop_append axis nd next cache A (next :: B) _ _ hA, allButOneLoop_skip]
  try simp only [List.singleton_append, List.nil_append] at hB
  rw [hB]

theorem allLoop_general (axis : Nat) (mk : Nat → Leg) (blk : Nat → T) (bl : Nat → Leg)
    (cache : Cache) (nd : Node) (seg : List Nat) (R : List Leg) (bs : List (Leg × Leg))
    (h : ∀ n ∈ seg, cache n = some (blk n) ∧ (blk n).legs[axis]? = some (bl n)) :
    allLoop axis nd cache seg ⟨seg.map mk ++ R, bs⟩ =
      some ⟨R ++ seg.flatMap (fun n => (blk n).legs.eraseIdx axis),
            bs ++ seg.flatMap (fun n => (blk n).binds ++ [(mk n, bl n)])⟩ := by
  induction seg generalizing R bs with
  | nil => simp [allLoop]
  | cons n rest ih =>
    obtain ⟨hc, hb⟩ := h n (by simp)
    have hstep := contractNeighbourBlock_step axis mk blk bl cache nd n [] (rest.map mk ++ R) bs hc hb
    simp only [List.nil_append, List.length_nil] at hstep
    simp only [allLoop, List.map_cons, List.cons_append, hstep, List.append_assoc]
    have := ih (R ++ (blk n).legs.eraseIdx axis) (bs ++ ((blk n).binds ++ [(mk n, bl n)]))
      (fun m hm => h m (by simp [hm]))
    simp only [List.append_assoc] at this
    rw [this]
    simp

end Ptn.C04
