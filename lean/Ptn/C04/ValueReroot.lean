import Ptn.C04.ValueShortcut
/-! Value level: the orthogonality-centre shortcut of `scalar_product` for the output of the loop, EVERY centre
(builder B50).

`ValueShortcut.lean` (B44) treats the centre at the root of the `Tree` handed to the loop.  Here the tree is
re-rooted: `Rerooted t t'` (`t'` is obtained from `t` by moving the root along edges, one edge per step; the labels
`gKet i n` / `gBra i n` / phys do not depend on the rooting).  Along a re-rooting the identifiers are permuted
(`c04_reroot_ids`), the specification graph keeps its legs (`ssSpec_reroot_legs`) and its value — it is permuted and
the two pairs of the edge that is crossed are turned around (`ssSpec_reroot_value`) —, the node tensors are the same
up to order (`ssLeaves_reroot_perm`), every node keeps its set of neighbours (`c04_reroot_nbrs`).
Helper lemmas only; the property theorem is in `Props.lean`. -/
namespace Ptn.C04

open Ptn.Ein

/-- **`t'` is a re-rooting of `t`**: one step makes the child `j` of the root `r` the new root; `r` (with its other
children) becomes the last child of `j`. -/
inductive Rerooted (t : Tree) : Tree → Prop
  | refl : Rerooted t t
  | step (r j : Nat) (pre post js : List Tree) :
      Rerooted t (.node r (pre ++ .node j js :: post)) → Rerooted t (.node j (js ++ [.node r (pre ++ post)]))

/-! ### lists of children: append -/

theorem c04_ssSpecL_append (i : Nat) (a b : List Tree) : ssSpecL i (a ++ b) = ssSpecL i a ++ ssSpecL i b := by
  induction a with
  | nil => simp [ssSpecL]
  | cons c cs ih => simp [ssSpecL, ih]

theorem c04_idsL_append (a b : List Tree) : Tree.idsL (a ++ b) = Tree.idsL a ++ Tree.idsL b := by
  induction a with
  | nil => simp [Tree.idsL]
  | cons c cs ih => simp [Tree.idsL, ih]

theorem c04_infoL_append (i : Nat) (a b : List Tree) : Tree.infoL i (a ++ b) = Tree.infoL i a ++ Tree.infoL i b := by
  induction a with
  | nil => simp [Tree.infoL]
  | cons c cs ih => simp [Tree.infoL, ih]

theorem c04_edgesL_append (i : Nat) (a b : List Tree) : Tree.edgesL i (a ++ b) = Tree.edgesL i a ++ Tree.edgesL i b := by
  induction a with
  | nil => simp [Tree.edgesL]
  | cons c cs ih => simp [Tree.edgesL, ih]

/-! ### generic: two pairs turned around -/

section
set_option linter.unusedSectionVars false
variable {R : Type} [CommSemiring R]

theorem c04_pairLegs_swap2 {L : Type} [DecidableEq L] (a b : L × L) (rest : List (L × L)) :
    (Expr.pairLegs (a.swap :: b.swap :: rest)).Perm (Expr.pairLegs (a :: b :: rest)) := by
  rw [List.perm_iff_count]
  intro x
  simp only [Expr.pairLegs, List.map_cons, Prod.swap, List.count_append, List.count_cons]
  omega

theorem c04_pairLegs_flip2 {L : Type} [DecidableEq L] (a b : L × L) (rest l1 l2 : List (L × L))
    (h1 : l1.Perm (a :: b :: rest)) (h2 : l2.Perm (a.swap :: b.swap :: rest)) :
    (Expr.pairLegs l2).Perm (Expr.pairLegs l1) :=
  ((List.Perm.append (h2.map _) (h2.map _)).trans (c04_pairLegs_swap2 a b rest)).trans
    (List.Perm.append (h1.map _) (h1.map _)).symm

theorem c04_sumPairs_flip2 {L : Type} [DecidableEq L] (dim : L → Nat) (a b : L × L) (rest l1 l2 : List (L × L))
    (h1 : l1.Perm (a :: b :: rest)) (h2 : l2.Perm (a.swap :: b.swap :: rest))
    (hnd : (Expr.pairLegs l1).Nodup) (ha : dim a.1 = dim a.2) (hb : dim b.1 = dim b.2)
    (f : Asg L → R) (σ : Asg L) : sumPairs dim l2 f σ = sumPairs dim l1 f σ := by
  have hnd2 : (Expr.pairLegs l2).Nodup := (c04_pairLegs_flip2 a b rest l1 l2 h1 h2).nodup_iff.2 hnd
  rw [sumPairs_perm dim h1 hnd, sumPairs_perm dim h2 hnd2]
  have e1 : a.swap :: b.swap :: rest = [a, b].map Prod.swap ++ rest := rfl
  have e2 : a :: b :: rest = [a, b] ++ rest := rfl
  rw [e1, e2, sumPairs_append, sumPairs_append]
  exact sumPairs_orient dim [a, b] (by
    intro p hp
    simp only [List.mem_cons, List.not_mem_nil, or_false] at hp
    rcases hp with rfl | rfl
    · exact ha
    · exact hb) _ σ

/-! ### one step -/

theorem c04_step_spec_old (r j : Nat) (pre post js : List Tree) :
    (ssSpec (.node r (pre ++ .node j js :: post))).Perm
      (ketEdge r j :: braEdge r j :: physPair r :: physPair j :: (ssSpecL r pre ++ ssSpecL r post ++ ssSpecL j js)) := by
  rw [List.perm_iff_count]
  intro x
  simp only [ssSpec, ssSpecL, c04_ssSpecL_append, Tree.id, List.count_append, List.count_cons, List.cons_append]
  omega

theorem c04_step_spec_new (r j : Nat) (pre post js : List Tree) :
    (ssSpec (.node j (js ++ [.node r (pre ++ post)]))).Perm
      ((ketEdge r j).swap :: (braEdge r j).swap :: physPair r :: physPair j ::
        (ssSpecL r pre ++ ssSpecL r post ++ ssSpecL j js)) := by
  have e1 : (ketEdge r j).swap = ketEdge j r := rfl
  have e2 : (braEdge r j).swap = braEdge j r := rfl
  rw [e1, e2, List.perm_iff_count]
  intro x
  simp only [ssSpec, ssSpecL, c04_ssSpecL_append, Tree.id, List.count_append, List.count_cons, List.append_nil]
  omega

theorem c04_step_ids (r j : Nat) (pre post js : List Tree) :
    (Tree.ids (.node j (js ++ [.node r (pre ++ post)]))).Perm (Tree.ids (.node r (pre ++ .node j js :: post))) := by
  rw [List.perm_iff_count]
  intro x
  simp only [Tree.ids, Tree.idsL, c04_idsL_append, List.count_append, List.count_cons, List.count_nil]
  omega

theorem c04_step_edges (r j : Nat) (pre post js : List Tree) (e : Nat × Nat)
    (he : e ∈ Tree.edges (.node j (js ++ [.node r (pre ++ post)]))) :
    e = (j, r) ∨ e ∈ Tree.edges (.node r (pre ++ .node j js :: post)) := by
  simp only [Tree.edges, Tree.edgesL, c04_edgesL_append, Tree.id, List.mem_append, List.mem_cons,
    List.not_mem_nil, or_false] at he ⊢
  tauto

/-- two entries of `Tree.info` describe the same node with the same set of neighbours -/
def NbrEq (e' e : Nat × Option Nat × List Nat) : Prop :=
  e.1 = e'.1 ∧ ∀ n, n ∈ e'.2.1.toList ++ e'.2.2 ↔ n ∈ e.2.1.toList ++ e.2.2

theorem NbrEq.rfl' (e : Nat × Option Nat × List Nat) : NbrEq e e := ⟨rfl, fun _ => Iff.rfl⟩

theorem c04_step_nbrs (r j : Nat) (pre post js : List Tree) (e' : Nat × Option Nat × List Nat)
    (he : e' ∈ Tree.info none (.node j (js ++ [.node r (pre ++ post)]))) :
    ∃ e ∈ Tree.info none (.node r (pre ++ .node j js :: post)), NbrEq e' e := by
  simp only [Tree.info, Tree.infoL, c04_infoL_append, List.mem_append, List.mem_cons, List.append_nil] at he
  rcases he with rfl | he | rfl | he | he
  · refine ⟨(j, some r, js.map Tree.id), by simp [Tree.info, Tree.infoL, c04_infoL_append], rfl, ?_⟩
    intro n; simp [Tree.id]; exact or_comm
  · exact ⟨e', by simp [Tree.info, Tree.infoL, c04_infoL_append, he], NbrEq.rfl' _⟩
  · refine ⟨(r, none, (pre ++ .node j js :: post).map Tree.id), by simp [Tree.info], rfl, ?_⟩
    intro n; simp [Tree.id]; exact or_left_comm
  · exact ⟨e', by simp [Tree.info, Tree.infoL, c04_infoL_append, he], NbrEq.rfl' _⟩
  · exact ⟨e', by simp [Tree.info, Tree.infoL, c04_infoL_append, he], NbrEq.rfl' _⟩

/-! ### along a re-rooting -/

/-- both ends of every bond have the same dimension (in the ket and in the bra network) -/
def BondDims (dim : Leg → Nat) (t : Tree) : Prop :=
  ∀ e ∈ t.edges, dim (Leg.gKet e.1 e.2) = dim (Leg.gKet e.2 e.1) ∧ dim (Leg.gBra e.1 e.2) = dim (Leg.gBra e.2 e.1)

theorem c04_reroot_ids {t t' : Tree} (h : Rerooted t t') : t'.ids.Perm t.ids := by
  induction h with
  | refl => exact List.Perm.refl _
  | step r j pre post js _ ih => exact (c04_step_ids r j pre post js).trans ih

theorem c04_reroot_dims (dim : Leg → Nat) {t t' : Tree} (h : Rerooted t t') (hd : BondDims dim t) :
    BondDims dim t' := by
  induction h with
  | refl => exact hd
  | step r j pre post js _ ih =>
    intro e he
    rcases c04_step_edges r j pre post js e he with rfl | he'
    · have := ih (r, j) (by simp [Tree.edges, Tree.edgesL, c04_edgesL_append, Tree.id])
      exact ⟨this.1.symm, this.2.symm⟩
    · exact ih e he'

theorem c04_reroot_nbrs {t t' : Tree} (h : Rerooted t t') :
    ∀ e' ∈ Tree.info none t', ∃ e ∈ Tree.info none t, NbrEq e' e := by
  induction h with
  | refl => exact fun e' he => ⟨e', he, NbrEq.rfl' _⟩
  | step r j pre post js _ ih =>
    intro e' he
    obtain ⟨e1, he1, h1⟩ := c04_step_nbrs r j pre post js e' he
    obtain ⟨e, he0, h0⟩ := ih e1 he1
    exact ⟨e, he0, h0.1.trans h1.1, fun n => (h1.2 n).trans (h0.2 n)⟩

/-- **the specification graph of a re-rooted tree has the same legs** -/
theorem ssSpec_reroot_legs {t t' : Tree} (h : Rerooted t t') :
    (Expr.pairLegs (ssSpec t')).Perm (Expr.pairLegs (ssSpec t)) := by
  induction h with
  | refl => exact List.Perm.refl _
  | step r j pre post js _ ih =>
    exact (c04_pairLegs_flip2 _ _ _ _ _ (c04_step_spec_old r j pre post js)
      (c04_step_spec_new r j pre post js)).trans ih

/-- **the specification graph of a re-rooted tree is that of the tree up to the order of the pairs and the
orientation of the bonds**: summing over it gives the same value (both ends of every bond of equal dimension) -/
theorem ssSpec_reroot_value (dim : Leg → Nat) {t t' : Tree} (h : Rerooted t t') (hd : BondDims dim t)
    (hnd : (Expr.pairLegs (ssSpec t)).Nodup) (f : Asg Leg → R) (σ : Asg Leg) :
    sumPairs dim (ssSpec t') f σ = sumPairs dim (ssSpec t) f σ := by
  induction h generalizing σ with
  | refl => rfl
  | step r j pre post js hr ih =>
    have hd' := c04_reroot_dims dim hr hd (r, j) (by simp [Tree.edges, Tree.edgesL, c04_edgesL_append, Tree.id])
    have hnd' := (ssSpec_reroot_legs hr).nodup_iff.2 hnd
    rw [c04_sumPairs_flip2 dim _ _ _ _ _ (c04_step_spec_old r j pre post js)
      (c04_step_spec_new r j pre post js) hnd' hd'.1 hd'.2.symm f σ]
    exact ih σ

/-! ### the node tensors -/

variable (kv bv : Nat → Asg Leg → R) (braKids : Nat → List Nat)

mutual
theorem c04_ssLeaves_fns (p : Option Nat) : ∀ t : Tree,
    (ssLeaves braKids kv bv p t).map Prod.snd = t.ids.flatMap fun i => [kv i, bv i]
  | .node i ks => by
    have := c04_ssLeavesL_fns i ks
    simp only [ssLeaves] at this ⊢
    simp [treeLeaves, ssNodeLeaves, Tree.ids, this]
theorem c04_ssLeavesL_fns (i : Nat) : ∀ ks : List Tree,
    (treeLeavesL (ssNodeLeaves braKids kv bv) i ks).map Prod.snd = (Tree.idsL ks).flatMap fun i => [kv i, bv i]
  | [] => by simp [treeLeavesL, Tree.idsL]
  | c :: cs => by
    have h1 := c04_ssLeaves_fns (some i) c
    have h2 := c04_ssLeavesL_fns i cs
    simp only [ssLeaves] at h1
    simp [treeLeavesL, Tree.idsL, h1, h2]
end

/-- **the node tensors of a re-rooted tree are those of the tree, up to order** (whatever child orders the bra
network uses in either) -/
theorem ssLeaves_reroot_perm {t t' : Tree} (h : Rerooted t t') (braKids' : Nat → List Nat) :
    ((ssLeaves braKids' kv bv none t').map Prod.snd).Perm ((ssLeaves braKids kv bv none t).map Prod.snd) := by
  rw [c04_ssLeaves_fns, c04_ssLeaves_fns]
  exact (c04_reroot_ids h).flatMap_right _

/-- a table with distinct keys is a function -/
theorem c04_table_fn {β : Type} (d : β) : ∀ l : List (Nat × β), (l.map (·.1)).Nodup →
    ∃ f : Nat → β, ∀ e ∈ l, f e.1 = e.2
  | [], _ => ⟨fun _ => d, by simp⟩
  | x :: xs, hnd => by
    simp only [List.map_cons, List.nodup_cons] at hnd
    obtain ⟨f, hf⟩ := c04_table_fn d xs hnd.2
    refine ⟨fun i => if i = x.1 then x.2 else f i, ?_⟩
    intro e he
    simp only [List.mem_cons] at he
    rcases he with rfl | he
    · simp
    · have : e.1 ≠ x.1 := fun h => hnd.1 (h ▸ List.mem_map_of_mem (f := (·.1)) he)
      simp [this, hf e he]

/-- **the norm network of the loop, seen from any centre**: `t'` a re-rooting of `t` with root `c`, every other node
an isometry toward `c`: the flat network of `ssSpec t` over the leaves of the loop on `t` has the value of the two
tensors of `c` alone, summed over one common index per leg -/
theorem c04_centre_shortcut_netValue (dim : Leg → Nat) (t : Tree) (hids : t.ids.Nodup) (c : Nat) (ks : List Tree)
    (hr : Rerooted t (.node c ks)) (hd : BondDims dim t)
    (hloc : ∀ e ∈ Tree.info none t, NodeLocal kv bv braKids e)
    (hiso : IsoKids kv bv dim c ks) (hnd : (Expr.pairLegs (ssSpec t)).Nodup) (σ : Asg Leg) :
    netValue dim (ssSpec t) ((ssLeaves braKids kv bv none t).map Prod.snd) σ =
      netValue dim (physPair c :: downPairs c ks) [kv c, bv c] σ := by
  have hids' : (Tree.ids (.node c ks)).Nodup := (c04_reroot_ids hr).nodup_iff.2 hids
  obtain ⟨tab, htab⟩ := c04_table_fn (β := Option Nat × List Nat) (none, []) (Tree.info none (.node c ks))
    (by rw [Tree.info_keys]; exact hids')
  have hloc' : ∀ e ∈ Tree.info none (.node c ks), NodeLocal kv bv (fun i => (tab i).2) e := by
    intro e' he'
    obtain ⟨e, he, hid, hn⟩ := c04_reroot_nbrs hr e' he'
    obtain ⟨h1, h2, h3⟩ := hloc e he
    have ht : (tab e'.1).2 = e'.2.2 := by rw [htab e' he']
    refine ⟨?_, ?_, by show ((tab e'.1).2).Perm _; rw [ht]⟩
    · rw [← hid]
      refine h1.mono ?_
      intro l hl
      simp only [gKetT, T.fresh, Node.nbrs, List.mem_append, List.mem_map, List.mem_singleton] at hl ⊢
      rcases hl with ⟨n, hn', rfl⟩ | rfl
      · exact Or.inl ⟨n, List.mem_append.1 ((hn n).2 (List.mem_append.2 hn')), rfl⟩
      · exact Or.inr rfl
    · simp only [ht]
      rw [← hid]
      refine h2.mono ?_
      intro l hl
      simp only [gBraT, T.fresh, Node.nbrs, List.mem_append, List.mem_map, List.mem_singleton] at hl ⊢
      rcases hl with ⟨n, hn', rfl⟩ | rfl
      · refine Or.inl ⟨n, List.mem_append.1 ((hn n).2 (List.mem_append.2 ?_)), rfl⟩
        rcases hn' with h | h
        · exact Or.inl h
        · exact Or.inr (h3.mem_iff.1 h)
      · exact Or.inr rfl
  have hnd' := (ssSpec_reroot_legs hr).nodup_iff.2 hnd
  rw [← c04_root_shortcut_netValue kv bv (fun i => (tab i).2) dim c ks hloc' hiso hnd' σ]
  unfold netValue
  rw [ssSpec_reroot_value dim hr hd hnd]
  exact sumPairs_congr dim _ (fun τ => prodL_perm
    ((ssLeaves_reroot_perm kv bv braKids hr _).symm.map _)) σ

end

/-! ### every node is reachable -/

mutual
theorem c04_reroot_reach (T : Tree) : ∀ (t : Tree) (extra : List Tree) (c : Nat), c ∈ t.ids →
    Rerooted T (.node t.id (t.kids ++ extra)) → ∃ t', Rerooted T t' ∧ t'.id = c
  | .node r ks, extra, c, hc, hr => by
    simp only [Tree.ids, List.mem_cons] at hc
    by_cases h : c = r
    · exact ⟨_, hr, by simp [Tree.id, h]⟩
    · exact c04_reroot_reachL T r [] ks extra c (by tauto) (by simpa [Tree.id, Tree.kids] using hr)
theorem c04_reroot_reachL (T : Tree) (r : Nat) : ∀ (pre ks extra : List Tree) (c : Nat), c ∈ Tree.idsL ks →
    Rerooted T (.node r (pre ++ ks ++ extra)) → ∃ t', Rerooted T t' ∧ t'.id = c
  | _, [], _, c, hc, _ => by simp [Tree.idsL] at hc
  | pre, k :: ks, extra, c, hc, hr => by
    simp only [Tree.idsL, List.mem_append] at hc
    by_cases h : c ∈ k.ids
    · obtain ⟨j, js⟩ := k
      have hr' : Rerooted T (.node r (pre ++ .node j js :: (ks ++ extra))) := by simpa using hr
      exact c04_reroot_reach T (.node j js) [.node r (pre ++ (ks ++ extra))] c h
        (by simpa [Tree.id, Tree.kids] using Rerooted.step r j pre (ks ++ extra) js hr')
    · exact c04_reroot_reachL T r (pre ++ [k]) ks extra c (by tauto) (by simpa using hr)
end

/-- **every node of a tree is the root of one of its re-rootings** -/
theorem c04_reroot_exists (t : Tree) (c : Nat) (hc : c ∈ t.ids) : ∃ t', Rerooted t t' ∧ t'.id = c := by
  obtain ⟨r, ks⟩ := t
  exact c04_reroot_reach (.node r ks) (.node r ks) [] c hc (by simpa [Tree.id, Tree.kids] using Rerooted.refl)

end Ptn.C04
