import Ptn.Common.EinsumBuilt
import Ptn.C04.Lemmas
/-! Provenance: the tensors of the leg-label calculus (`Model.lean`) are BUILT by `tensordot` calls from fresh
tensors, and the expression that records the calls is a strongly well-formed value-level program.

`Built t e`: the model tensor `t` (legs + binding record) was obtained from fresh tensors by the nesting of
`tensordot` calls that `e` records (and any transpositions).  `Built.sound`: if the labels of the leaves are
pairwise distinct, then `e` has `t`'s binding record, `t`'s legs are `e`'s free legs, and every pair of every
call joins a free leg of the left operand with a free leg of the right one — so `e` is strongly well-formed as
soon as the leaves read only their own legs (`Built.swf`).  `BuiltL t ls`: `t` is built from exactly the leaf
tensors `ls` (in any order). -/
namespace Ptn.C04

open Ptn.Ein

/-! ### `pick` and `remaining` on lists without repetition -/

theorem pick_length (l : List Leg) : ∀ (is : List Nat) (xs : List Leg), pick l is = some xs → xs.length = is.length
  | [], xs, h => by simp [pick] at h; subst h; rfl
  | i :: is, xs, h => by
    simp only [pick] at h
    split at h
    · rename_i v vs _ hvs
      simp only [Option.some.injEq] at h
      subst h
      simp [pick_length l is vs hvs]
    · simp at h

theorem mem_pick_iff (l : List Leg) (x : Leg) : ∀ (is : List Nat) (xs : List Leg), pick l is = some xs →
    (x ∈ xs ↔ ∃ i ∈ is, l[i]? = some x)
  | [], xs, h => by simp [pick] at h; subst h; simp
  | i :: is, xs, h => by
    simp only [pick] at h
    split at h
    · rename_i v vs hv hvs
      simp only [Option.some.injEq] at h
      subst h
      have ih := mem_pick_iff l x is vs hvs
      simp only [List.mem_cons, ih, exists_eq_or_imp, hv, Option.some.injEq]
      constructor
      · rintro (h | h)
        · exact Or.inl h.symm
        · exact Or.inr h
      · rintro (h | h)
        · exact Or.inl h.symm
        · exact Or.inr h
    · simp at h

theorem pick_sub (l : List Leg) (is : List Nat) (xs : List Leg) (h : pick l is = some xs) :
    ∀ x ∈ xs, x ∈ l := by
  intro x hx
  obtain ⟨i, _, hi⟩ := (mem_pick_iff l x is xs h).1 hx
  exact List.mem_of_getElem? hi

theorem pick_nodup (l : List Leg) (hl : l.Nodup) : ∀ (is : List Nat) (xs : List Leg), is.Nodup →
    pick l is = some xs → xs.Nodup
  | [], xs, _, h => by simp [pick] at h; subst h; simp
  | i :: is, xs, hnd, h => by
    simp only [pick] at h
    split at h
    · rename_i v vs hv hvs
      simp only [Option.some.injEq] at h
      subst h
      rw [List.nodup_cons] at hnd ⊢
      refine ⟨?_, pick_nodup l hl is vs hnd.2 hvs⟩
      intro hmem
      obtain ⟨j, hj, hjv⟩ := (mem_pick_iff l v is vs hvs).1 hmem
      have hi : i < l.length := by
        rcases Nat.lt_or_ge i l.length with h | h
        · exact h
        · rw [List.getElem?_eq_none h] at hv; simp at hv
      have : i = j := (List.getElem?_inj hi hl).1 (hv.trans hjv.symm)
      exact hnd.1 (this ▸ hj)
    · simp at h

/-- on a list without repetition removing the picked POSITIONS is removing the picked LABELS -/
theorem remaining_eq_filter (l : List Leg) (hl : l.Nodup) (is : List Nat) (xs : List Leg)
    (h : pick l is = some xs) : remaining is 0 l = l.filter (fun x => !xs.contains x) := by
  have key : ∀ (suf : List Leg) (k : Nat), (∀ j, j < suf.length → l[k + j]? = suf[j]?) →
      remaining is k suf = suf.filter (fun x => !xs.contains x) := by
    intro suf
    induction suf with
    | nil => intro k _; rfl
    | cons x rest ih =>
      intro k hk
      have hx : l[k]? = some x := by simpa using hk 0 (by simp)
      have hrest := ih (k + 1) (fun j hj => by
        have := hk (j + 1) (by simpa using hj)
        simpa [Nat.add_assoc, Nat.add_comm 1 j] using this)
      have hiff : is.contains k = xs.contains x := by
        rw [Bool.eq_iff_iff]
        simp only [List.contains_eq_mem, decide_eq_true_eq]
        rw [mem_pick_iff l x is xs h]
        constructor
        · intro hk'; exact ⟨k, hk', hx⟩
        · rintro ⟨i, hi, hix⟩
          have hkl : k < l.length := by
            rcases Nat.lt_or_ge k l.length with h | h
            · exact h
            · rw [List.getElem?_eq_none h] at hx; simp at hx
          have : k = i := (List.getElem?_inj hkl hl).1 (hx.trans hix.symm)
          exact this ▸ hi
      simp only [remaining, List.filter_cons, hiff, hrest]
      cases xs.contains x <;> simp
  exact key l 0 (fun j _ => by simp)

/-! ### built tensors -/

variable {R : Type}

/-- `Built t e`: the tensor `t` of the calculus is the result of the nesting of `tensordot` calls `e` -/
inductive Built : T → Expr Leg R → Prop
  /-- a fresh tensor is a leaf with any values -/
  | fresh (legs : List Leg) (v : Asg Leg → R) : Built (T.fresh legs) (Expr.leaf legs v)
  /-- a successful `tensordot` of two built tensors: the pairs are the picked legs, in order -/
  | dot {a b c : T} {ea eb : Expr Leg R} {ia ib : List Nat} {la lb : List Leg} :
      Built a ea → Built b eb → tensordot a b ia ib = some c →
      pick a.legs ia = some la → pick b.legs ib = some lb → Built c (Expr.dot ea eb (la.zip lb))
  /-- a transposition of the legs keeps the expression -/
  | transpose {t : T} {e : Expr Leg R} {legs' : List Leg} :
      Built t e → legs'.Perm t.legs → Built ⟨legs', t.binds⟩ e

theorem tensordot_some {a b c : T} {ia ib : List Nat} (h : tensordot a b ia ib = some c) :
    ia.length = ib.length ∧ ia.Nodup ∧ ib.Nodup ∧ ∃ la lb, pick a.legs ia = some la ∧ pick b.legs ib = some lb ∧
      c = ⟨remaining ia 0 a.legs ++ remaining ib 0 b.legs, a.binds ++ b.binds ++ la.zip lb⟩ := by
  unfold tensordot at h
  split at h
  · simp at h
  · rename_i hlen
    split at h
    · simp at h
    · rename_i hnd
      split at h
      · rename_i la lb hla hlb
        simp only [Option.some.injEq] at h
        refine ⟨by simpa using hlen, ?_, ?_, la, lb, hla, hlb, h.symm⟩
        · exact Classical.not_not.1 (fun hh => hnd (Or.inl hh))
        · exact Classical.not_not.1 (fun hh => hnd (Or.inr hh))
      · simp at h

section sound
variable [CommSemiring R]

/-- **What a built tensor records.**  If the labels of the leaves are pairwise distinct then the binding record
of the tensor is the binding record of the expression, its legs are the free legs of the expression, and all
pairs are admissible. -/
theorem Built.sound {t : T} {e : Expr Leg R} (h : Built t e) (hnd : e.labels.Nodup) :
    t.binds.Perm e.binds ∧ t.legs.Perm e.free ∧ e.PairsOK := by
  induction h with
  | fresh legs v => exact ⟨List.Perm.refl _, List.Perm.refl _, trivial⟩
  | @dot a b c ea eb ia ib la lb _ _ htd hla hlb iha ihb =>
    simp only [Expr.labels, List.nodup_append] at hnd
    obtain ⟨hba, hfa, hpa⟩ := iha hnd.1
    obtain ⟨hbb, hfb, hpb⟩ := ihb hnd.2.1
    obtain ⟨hlen, hia, hib, la', lb', hla', hlb', hc⟩ := tensordot_some htd
    rw [hla] at hla'; rw [hlb] at hlb'
    simp only [Option.some.injEq] at hla' hlb'
    subst hla'; subst hlb'; subst hc
    have hna : a.legs.Nodup := hfa.nodup_iff.2 (Expr.free_nodup ea hnd.1)
    have hnb : b.legs.Nodup := hfb.nodup_iff.2 (Expr.free_nodup eb hnd.2.1)
    have hl : la.length = lb.length := by
      rw [pick_length _ _ _ hla, pick_length _ _ _ hlb, hlen]
    have hfst : (la.zip lb).map Prod.fst = la := List.map_fst_zip (Nat.le_of_eq hl)
    have hsnd : (la.zip lb).map Prod.snd = lb := List.map_snd_zip (Nat.le_of_eq hl.symm)
    refine ⟨?_, ?_, hpa, hpb, ?_, ?_, ?_⟩
    · simp only [Expr.binds]
      exact List.perm_append_comm.trans (List.Perm.append_left _ (List.Perm.append hba hbb))
    · simp only [Expr.free, hfst, hsnd]
      rw [remaining_eq_filter _ hna _ _ hla, remaining_eq_filter _ hnb _ _ hlb]
      exact List.Perm.append (hfa.filter _) (hfb.filter _)
    · intro p hp
      have h1 : p.1 ∈ la := hfst ▸ List.mem_map.2 ⟨p, hp, rfl⟩
      have h2 : p.2 ∈ lb := hsnd ▸ List.mem_map.2 ⟨p, hp, rfl⟩
      exact ⟨hfa.mem_iff.1 (pick_sub _ _ _ hla _ h1), hfb.mem_iff.1 (pick_sub _ _ _ hlb _ h2)⟩
    · rw [hfst]; exact pick_nodup _ hna _ _ hia hla
    · rw [hsnd]; exact pick_nodup _ hnb _ _ hib hlb
  | transpose _ hperm ih =>
    obtain ⟨h1, h2, h3⟩ := ih hnd
    exact ⟨h1, hperm.trans h2, h3⟩

/-- a built expression over pairwise distinct labels whose leaves read only their own legs is strongly
well-formed -/
theorem Built.swf {t : T} {e : Expr Leg R} (h : Built t e) (hnd : e.labels.Nodup) (hloc : e.LeavesLocal) :
    e.SWF :=
  Expr.swf_of_clean e hnd hloc (h.sound hnd).2.2

/-- **The value of a built tensor is well defined**: any two ways of building the same tensor from the same
leaf tensors (pairwise distinct labels, local leaves) evaluate to the same value. -/
theorem Built.value_unique {t : T} {e₁ e₂ : Expr Leg R} (h₁ : Built t e₁) (h₂ : Built t e₂)
    (hl : e₁.leaves.Perm e₂.leaves) (hnd : e₁.labels.Nodup) (hloc : e₁.LeavesLocal)
    (dim : Leg → Nat) (σ : Asg Leg) : e₁.eval dim σ = e₂.eval dim σ := by
  have hnd₂ : e₂.labels.Nodup := by
    rw [Expr.labels_eq_leaves] at hnd ⊢
    exact (hl.flatMap_right _).nodup_iff.1 hnd
  have hloc₂ : e₂.LeavesLocal := fun lf h => hloc lf (hl.mem_iff.2 h)
  exact Expr.eval_unique dim e₁ e₂ (h₁.swf hnd hloc) (h₂.swf hnd₂ hloc₂)
    ((h₁.sound hnd).1.symm.trans (h₂.sound hnd₂).1) hl σ

end sound

/-! ### built from given leaves -/

abbrev LeafT (R : Type) := List Leg × (Asg Leg → R)

/-- `t` is built by `tensordot` calls from exactly the leaf tensors `ls` (in any order) -/
def BuiltL (t : T) (ls : List (LeafT R)) : Prop := ∃ e : Expr Leg R, Built t e ∧ e.leaves.Perm ls

theorem BuiltL.fresh (legs : List Leg) (v : Asg Leg → R) : BuiltL (T.fresh legs) [(legs, v)] :=
  ⟨_, Built.fresh legs v, List.Perm.refl _⟩

theorem BuiltL.perm {t : T} {ls ls' : List (LeafT R)} (h : BuiltL t ls) (hp : ls.Perm ls') : BuiltL t ls' := by
  obtain ⟨e, he, hl⟩ := h
  exact ⟨e, he, hl.trans hp⟩

/-- `tensordot`: the result is built from the leaves of both operands -/
theorem BuiltL.dot {a b c : T} {la lb : List (LeafT R)} {ia ib : List Nat} (ha : BuiltL a la) (hb : BuiltL b lb)
    (h : tensordot a b ia ib = some c) : BuiltL c (la ++ lb) := by
  obtain ⟨ea, hea, hla⟩ := ha
  obtain ⟨eb, heb, hlb⟩ := hb
  obtain ⟨_, _, _, xa, xb, hxa, hxb, _⟩ := tensordot_some h
  exact ⟨_, Built.dot hea heb h hxa hxb, by simpa [Expr.leaves] using List.Perm.append hla hlb⟩

theorem BuiltL.transpose {t : T} {ls : List (LeafT R)} {legs' : List Leg} (h : BuiltL t ls)
    (hp : legs'.Perm t.legs) : BuiltL ⟨legs', t.binds⟩ ls := by
  obtain ⟨e, he, hl⟩ := h
  exact ⟨e, Built.transpose he hp, hl⟩

end Ptn.C04
