import Ptn.C04.Op
/-! `state_operator_contraction.contract_node_with_environment` (the root step of `expectation_value`). -/
namespace Ptn.C04

theorem map_idxOf_self (l : List Nat) (h : l.Nodup) : l.map (fun n => l.idxOf n) = List.range l.length := by
  apply List.ext_getElem
  · simp
  · intro i h1 h2
    simp only [List.getElem_map, List.getElem_range]
    exact h.idxOf_getElem i (by simpa using h1)

theorem filter_ignore_nil (K : List Nat) : K.filter (fun n => !([] : List Nat).contains n) = K := by
  apply List.filter_eq_self.2
  intro n _
  simp

theorem opRoot_labels (mkK mkO mkB a o b : Nat → Leg) (y zo zi z : Leg) (bb : Nat → List (Leg × Leg))
    (cache : Cache) (ketNode opNode : Node) (hK : ketNode.nbrs.Nodup) (hO : opNode.nbrs.Nodup)
    (hperm : opNode.nbrs.Perm ketNode.nbrs)
    (hcache : ∀ n ∈ ketNode.nbrs, cache n = some ⟨[a n, o n, b n], bb n⟩) :
    opContractNodeWithEnvironment ketNode (T.fresh (ketNode.nbrs.map mkK ++ [y])) opNode
        (T.fresh (opNode.nbrs.map mkO ++ [zo, zi])) (T.fresh (ketNode.nbrs.map mkB ++ [z])) cache =
      some ⟨[], (ketNode.nbrs.flatMap (fun n => bb n ++ [(mkK n, a n)]) ++
                  (ketNode.nbrs.map (fun n => (o n, mkO n)) ++ [(y, zi)])) ++
                (ketNode.nbrs.map (fun n => (mkB n, b n)) ++ [(z, zo)])⟩ := by
  have hmemO : ∀ n ∈ ketNode.nbrs, n ∈ opNode.nbrs := fun n hn => hperm.mem_iff.2 hn
  have hmemK : ∀ n ∈ opNode.nbrs, n ∈ ketNode.nbrs := fun n hn => hperm.mem_iff.1 hn
  have hlen : opNode.nbrs.length = ketNode.nbrs.length := hperm.length_eq
  have hall := allLoop_general 0 mkK (fun n => ⟨[a n, o n, b n], bb n⟩) a cache ketNode ketNode.nbrs
    [y] [] (fun n hn => ⟨hcache n hn, by simp⟩)
  have hall' : contractAllNeighbourBlocksToKet (T.fresh (ketNode.nbrs.map mkK ++ [y])) ketNode cache =
      some ⟨[y] ++ ketNode.nbrs.flatMap (fun n => [o n, b n]),
            ketNode.nbrs.flatMap (fun n => bb n ++ [(mkK n, a n)])⟩ := by
    simpa [contractAllNeighbourBlocksToKet, T.fresh] using hall
  have heq := equivLoop_eq ketNode opNode [] id ketNode.nbrs (fun n hn _ => ⟨hn, hmemO n hn⟩)
  rw [filter_ignore_nil, map_idxOf_self _ hK] at heq
  simp only [opContractNodeWithEnvironment, hall', getEquivalentLegs, heq, nodeOperatorInputLeg, Node.nn_eq, id]
  generalize hKd : ketNode.nbrs = K at *
  generalize hOd : opNode.nbrs = On at *
  -- first tensordot: blocks+ket with the operator
  have pa : pick ([y] ++ K.flatMap (fun n => [o n, b n]))
      ((List.range K.length).map (fun k => 2 * k + 1) ++ [0]) = some (K.map o ++ [y]) := by
    apply pick_append
    · have := pick_evens [y] K o b []
      simpa using this
    · exact pick_single _ _ _ (by simp)
  have pb : pick (T.fresh (On.map mkO ++ [zo, zi])).legs (K.map (fun n => On.idxOf n) ++ [On.length + 1])
      = some (K.map mkO ++ [zi]) := by
    apply pick_append
    · apply pick_map
      intro n hn
      simp only [T.fresh]
      exact getElem?_map_idxOf mkO [zo, zi] (hmemO n hn)
    · apply pick_single
      simp [T.fresh]
  have nda : ((List.range K.length).map (fun k => 2 * k + 1) ++ [0]).Nodup := by
    rw [List.nodup_append]
    refine ⟨nodup_map_of_inj_on _ _ List.nodup_range (fun x _ y _ e => by omega), by simp, ?_⟩
    intro a ha b hb
    simp only [List.mem_map] at ha
    obtain ⟨n, _, rfl⟩ := ha
    simp only [List.mem_singleton] at hb
    omega
  have ndb : (K.map (fun n => On.idxOf n) ++ [On.length + 1]).Nodup := by
    rw [List.nodup_append]
    refine ⟨nodup_map_of_inj_on _ _ hK (fun x hx y hy e => idxOf_inj (hmemO x hx) (hmemO y hy) e), by simp, ?_⟩
    intro a ha b hb
    simp only [List.mem_map] at ha
    obtain ⟨n, hn, rfl⟩ := ha
    simp only [List.mem_singleton] at hb
    have := List.idxOf_lt_length_of_mem (hmemO n hn)
    omega
  rw [tensordot_eq _ _ _ _ _ _ (by simp) nda ndb pa pb]
  have ra : remaining ((List.range K.length).map (fun k => 2 * k + 1) ++ [0]) 0
      ([y] ++ K.flatMap (fun n => [o n, b n])) = K.map b := by
    rw [remaining_append, remaining_one_drop _ _ _ (by simp), remaining_pairs]
    · simp
    · intro i hi
      simp only [List.mem_append, List.mem_map, List.mem_range, List.mem_singleton, List.length_cons,
        List.length_nil]
      exact Or.inl ⟨i, hi, by omega⟩
    · intro i _ hc
      simp only [List.mem_append, List.mem_map, List.mem_range, List.mem_singleton, List.length_cons,
        List.length_nil] at hc
      rcases hc with ⟨k, _, hk⟩ | hk <;> omega
  have rb : remaining (K.map (fun n => On.idxOf n) ++ [On.length + 1]) 0 (T.fresh (On.map mkO ++ [zo, zi])).legs = [zo] := by
    simp only [T.fresh]
    rw [remaining_append, remaining_all, remaining_keep_drop]
    · simp
    · simp only [Nat.zero_add, List.length_map, List.mem_append, List.mem_map, List.mem_singleton, not_or,
        not_exists, not_and]
      refine ⟨fun n hn hk => ?_, by omega⟩
      have := List.idxOf_lt_length_of_mem (hmemO n hn)
      omega
    · simp
    · intro i hi
      simp only [List.length_map] at hi
      simp only [Nat.zero_add, List.mem_append, List.mem_map, List.mem_singleton]
      exact Or.inl ⟨On[i], hmemK _ (List.getElem_mem hi), hO.idxOf_getElem i hi⟩
  rw [ra, rb]
  -- second tensordot: the conjugated ket tensor
  simp only [List.length_range, T.fresh]
  have hr : List.range K.length ++ [K.length] = List.range (K.length + 1) := by
    rw [List.range_succ]
  rw [hr]
  have p1 : pick (K.map mkB ++ [z]) (List.range (K.length + 1))
      = some (K.map mkB ++ [z]) := by
    have := pick_range (K.map mkB ++ [z])
    simpa using this
  have p2 : pick (K.map b ++ [zo]) (List.range (K.length + 1))
      = some (K.map b ++ [zo]) := by
    have := pick_range (K.map b ++ [zo])
    simpa using this
  rw [tensordot_eq _ _ _ _ _ _ rfl List.nodup_range List.nodup_range p1 p2]
  have r1 : remaining (List.range (K.length + 1)) 0 (K.map mkB ++ [z]) = [] := by
    apply remaining_all
    intro i hi
    simp at hi ⊢
    omega
  have r2 : remaining (List.range (K.length + 1)) 0 (K.map b ++ [zo]) = [] := by
    apply remaining_all
    intro i hi
    simp at hi ⊢
    omega
  simp only [r1, r2, List.append_nil]
  rw [List.zip_append (by simp), zip_map_same, List.zip_append (by simp), zip_map_same]
  simp


theorem opRoot_general (ketNode opNode : Node) (hK : ketNode.nbrs.Nodup) (hO : opNode.nbrs.Nodup)
    (hperm : opNode.nbrs.Perm ketNode.nbrs) :
    opContractNodeWithEnvironment ketNode (ketT ketNode) opNode (opT opNode) (braT ketNode) (cacheAll true) =
      some ⟨[], (ketNode.nbrs.map (fun n => (Leg.ketNb n, Leg.blkKet n)) ++
                  (ketNode.nbrs.map (fun n => (Leg.blkOp n, Leg.opNb n)) ++ [(Leg.ketPhys, Leg.opIn)])) ++
                (ketNode.nbrs.map (fun n => (Leg.braNb n, Leg.blkBra n)) ++ [(Leg.braPhys, Leg.opOut)])⟩ := by
  have := opRoot_labels Leg.ketNb Leg.opNb Leg.braNb Leg.blkKet Leg.blkOp Leg.blkBra Leg.ketPhys Leg.opOut Leg.opIn
    Leg.braPhys (fun _ => []) (cacheAll true) ketNode opNode hK hO hperm
    (fun n _ => by simp [cacheAll, block, blockRest, T.fresh])
  simpa [ketT, opT, braT, flatMap_single] using this

end Ptn.C04
