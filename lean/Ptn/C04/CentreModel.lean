import Ptn.C04.Bra
/-! Model (core Lean only) of the parts of `ttns.py` / `ttn.py` that are not the generic loops:

  TreeTensorNetwork.absorb_into_open_legs            ↔ absorbIntoOpenLegs (+ absorbOrthCentre: what happens to the
                                                        recorded orthogonality centre)
  TreeTensorNetworkState.apply_operator              ↔ applyOperator (loop over the dictionary of the TensorProduct)
  TreeTensorNetworkState.scalar_product (shortcut)   ↔ centreScalarProduct
  …single_site_operator_expectation_value (shortcut) ↔ centreSingleSite
  TreeTensorNetwork.conjugate                        ↔ no leg bookkeeping at all (same structure, every tensor
                                                        replaced entry-wise): value level only, `conjExpr`
-/
namespace Ptn.C04

/-- `absorb_into_open_legs(node_id, tensor)` on labels.  `nvirt` = `node.nvirt_legs()`; the open legs of a node
are the positions `nvirt, …, ndim-1` (`node.open_legs`).  `assert tensor.ndim == 2 * nopen_legs`;
`tensor_legs = [i + nopen_legs for i in range(nopen_legs)]`; `np.tensordot(node_tensor, tensor, axes=(open_legs,
tensor_legs))`.  (The second assertion compares SHAPES and has no counterpart on labels.) -/
def absorbIntoOpenLegs (node op : T) (nvirt : Nat) : Option T :=
  let nopen := node.legs.length - nvirt
  if op.legs.length ≠ 2 * nopen then none
  else tensordot node op ((List.range nopen).map (· + nvirt)) ((List.range nopen).map (· + nopen))

/-- the last three lines of `absorb_into_open_legs`: `if self.orthogonality_center_id not in (None, node_id):
self.orthogonality_center_id = None` — the record survives only if the node IS the centre -/
def absorbOrthCentre (oc : Option Nat) (node : Nat) : Option Nat :=
  match oc with
  | none => none
  | some c => if c = node then some c else none

/-- `apply_operator`: `for node_id, op in operator.items(): self.absorb_into_open_legs(node_id, op)` — the
recorded centre after the whole loop -/
def applyOperatorOrthCentre (oc : Option Nat) : List Nat → Option Nat
  | [] => oc
  | n :: rest => applyOperatorOrthCentre (absorbOrthCentre oc n) rest

/-- the shortcut of `scalar_product()`: `np.tensordot(tensor, tensor.conj(), axes=(legs, legs))` with
`legs = tuple(range(tensor.ndim))` -/
def centreScalarProduct (c cc : T) : Option T :=
  tensordot c cc (List.range c.legs.length) (List.range c.legs.length)

/-- the shortcut of `single_site_operator_expectation_value`: `tensor_op = np.tensordot(tensor, operator,
axes=(-1, 1))`, then `np.tensordot(tensor_op, tensor.conj(), axes=(legs, legs))` -/
def centreSingleSite (c op cc : T) : Option T :=
  if c.legs.length = 0 then none      -- axis -1 of a 0-dimensional array: AxisError
  else
    match tensordot c op [c.legs.length - 1] [1] with
    | none => none
    | some cop => tensordot cop cc (List.range c.legs.length) (List.range c.legs.length)

/-! ### lemmas about `pick` / `remaining` on a block of positions -/

theorem cm_remaining_append (idx : List Nat) (k : Nat) (a b : List Leg) :
    remaining idx k (a ++ b) = remaining idx k a ++ remaining idx (k + a.length) b := by
  induction a generalizing k with
  | nil => simp [remaining]
  | cons x xs ih =>
    simp only [List.cons_append, remaining, List.length_cons]
    have e : k + (xs.length + 1) = k + 1 + xs.length := by omega
    split <;> simp [ih, e]

theorem cm_remaining_notin (idx : List Nat) (k : Nat) (l : List Leg) (h : ∀ i, i < l.length → k + i ∉ idx) :
    remaining idx k l = l := by
  induction l generalizing k with
  | nil => rfl
  | cons x xs ih =>
    have hk : idx.contains k = false := by
      cases hc : idx.contains k with
      | false => rfl
      | true => exact absurd (by simpa using hc) (h 0 (by simp))
    simp only [remaining, hk]
    rw [ih (k + 1) (fun i hi => by
      have := h (i + 1) (by simpa using hi)
      simpa [Nat.add_assoc, Nat.add_comm 1 i] using this)]
    simp

theorem cm_pick_suffix (vs ps : List Leg) :
    pick (vs ++ ps) ((List.range ps.length).map (· + vs.length)) = some ps := by
  induction ps generalizing vs with
  | nil => rfl
  | cons x xs ih =>
    have h := ih (vs ++ [x])
    simp only [List.append_assoc, List.singleton_append] at h
    have e : (vs ++ x :: xs)[vs.length]? = some x := getElem?_append_mid vs xs x
    have e2 : (List.range xs.length).map ((· + vs.length) ∘ Nat.succ) =
        (List.range xs.length).map (· + (vs ++ [x]).length) := by
      apply List.map_congr_left
      intro i _
      simp only [Function.comp, List.length_append, List.length_singleton]
      omega
    simp only [List.length_cons, List.range_succ_eq_map, List.map_cons, List.map_map, pick, Nat.zero_add, e, e2, h]

theorem cm_pick_range (ps : List Leg) : pick ps (List.range ps.length) = some ps := by
  have := cm_pick_suffix [] ps
  simpa using this

theorem cm_nodup_range_add (n m : Nat) : ((List.range n).map (· + m)).Nodup := by
  exact nodup_map_of_inj_on _ _ List.nodup_range (fun x _ y _ h => by omega)

/-- `absorb_into_open_legs` on a node with virtual legs `vs` and open legs `ps`, operator legs
`outs ++ ins` (as many of each as open legs): every open leg is bound to the input leg of the same position,
the result keeps the virtual legs in place and has the operator's output legs where the open legs were —
"the leg ordering was not changed here" -/
theorem absorbIntoOpenLegs_eq (vs ps outs ins : List Leg) (bs bs' : List (Leg × Leg))
    (h1 : outs.length = ps.length) (h2 : ins.length = ps.length) :
    absorbIntoOpenLegs ⟨vs ++ ps, bs⟩ ⟨outs ++ ins, bs'⟩ vs.length =
      some ⟨vs ++ outs, bs ++ bs' ++ ps.zip ins⟩ := by
  have hn : (vs ++ ps).length - vs.length = ps.length := by simp
  have hlen : ¬ (outs ++ ins).length ≠ 2 * ps.length := by simp [h1, h2]; omega
  simp only [absorbIntoOpenLegs, hn, hlen, if_false]
  have pa := cm_pick_suffix vs ps
  have pb : pick (outs ++ ins) ((List.range ps.length).map (· + ps.length)) = some ins := by
    have := cm_pick_suffix outs ins
    rwa [h1, h2] at this
  rw [tensordot_eq _ _ _ _ ps ins (by simp) (cm_nodup_range_add _ _) (cm_nodup_range_add _ _) pa pb]
  have r1 : remaining ((List.range ps.length).map (· + vs.length)) 0 (vs ++ ps) = vs := by
    rw [cm_remaining_append, cm_remaining_notin _ 0 vs, remaining_all, List.append_nil]
    · intro i hi
      simp only [List.mem_map, List.mem_range]
      exact ⟨i, hi, by omega⟩
    · intro i hi hmem
      simp only [List.mem_map, List.mem_range] at hmem
      obtain ⟨j, _, hj⟩ := hmem
      omega
  have r2 : remaining ((List.range ps.length).map (· + ps.length)) 0 (outs ++ ins) = outs := by
    rw [cm_remaining_append, cm_remaining_notin _ 0 outs, remaining_all, List.append_nil]
    · intro i hi
      simp only [List.mem_map, List.mem_range]
      exact ⟨i, by omega, by omega⟩
    · intro i hi hmem
      simp only [List.mem_map, List.mem_range] at hmem
      obtain ⟨j, _, hj⟩ := hmem
      omega
  simp only [r1, r2]

end Ptn.C04
