import Ptn.C04.GraphSS
/-! `expectation_value` along the whole tree: every cached block denotes its subtree (three layers). -/
namespace Ptn.C04

/-- the bindings of the block of the kid with identifier `n` -/
def soBbOf (ts : List Tree) (n : Nat) : List (Leg × Leg) :=
  ((ts.find? (fun c => c.id == n)).map soBlockBinds).getD []

/-- the entry of kid `k.1` of node `i` -/
def soKidBlock (ts : List Tree) (i : Nat) (k : Nat × Nat) : Option T :=
  if k.2 = i then (ts.find? (fun c => c.id == k.1)).map (fun c => soBlock c i) else none

theorem soKidBlock_of_mem (ts : List Tree) (i n : Nat) (hn : n ∈ ts.map Tree.id) :
    soKidBlock ts i (n, i) = some ⟨[Leg.gKet n i, Leg.gOp n i, Leg.gBra n i], soBbOf ts n⟩ := by
  obtain ⟨c, hc, hcn⟩ := List.mem_map.1 hn
  have hsome : (ts.find? (fun c => c.id == n)).isSome := by
    rw [List.find?_isSome]; exact ⟨c, hc, by simp [hcn]⟩
  obtain ⟨c', hc'⟩ := Option.isSome_iff_exists.1 hsome
  have hid : c'.id = n := by simpa using List.find?_some hc'
  simp [soKidBlock, soBbOf, hc', soBlock, hid]

theorem soKidBlock_none (ts : List Tree) (i : Nat) (k : Nat × Nat) (h : k ∉ (ts.map Tree.id).map (fun c => (c, i))) :
    soKidBlock ts i k = none := by
  unfold soKidBlock
  by_cases h2 : k.2 = i
  · rw [if_pos h2]
    cases hf : ts.find? (fun c => c.id == k.1) with
    | none => rfl
    | some c =>
      exfalso
      apply h
      have hid : c.id = k.1 := by simpa using List.find?_some hf
      have hm := List.mem_of_find?_eq_some hf
      simp only [List.map_map, List.mem_map, Function.comp]
      exact ⟨c, hm, by rw [hid, ← h2]⟩
  · rw [if_neg h2]

theorem soKidBlock_cons (c : Tree) (cs : List Tree) (i : Nat) (k : Nat × Nat) :
    soKidBlock (c :: cs) i k = if k = (c.id, i) then some (soBlock c i) else soKidBlock cs i k := by
  obtain ⟨k1, k2⟩ := k
  unfold soKidBlock
  by_cases h2 : k2 = i
  · by_cases h1 : c.id = k1
    · subst h1; subst h2; simp
    · have hb : (c.id == k1) = false := by simpa using h1
      have : ¬ ((k1, k2) = (c.id, i)) := by
        intro e; exact h1 (by simpa using (Prod.mk.inj e).1.symm)
      simp [h2, hb]
      intro e; exact absurd e.symm h1
  · have : ¬ ((k1, k2) = (c.id, i)) := fun e => h2 (Prod.mk.inj e).2
    simp [h2, this]

theorem soKidsBinds_eq (i : Nat) : ∀ (ts : List Tree), (ts.map Tree.id).Nodup →
    (ts.map Tree.id).flatMap (fun n => soBbOf ts n ++ [ketEdge i n]) = soKidsBinds i ts
  | [], _ => by simp [soKidsBinds]
  | c :: cs, hnd => by
    simp only [List.map_cons, List.nodup_cons] at hnd
    have ih := soKidsBinds_eq i cs hnd.2
    have hhead : soBbOf (c :: cs) c.id = soBlockBinds c := by simp [soBbOf]
    have htail : (cs.map Tree.id).flatMap (fun n => soBbOf (c :: cs) n ++ [ketEdge i n])
        = (cs.map Tree.id).flatMap (fun n => soBbOf cs n ++ [ketEdge i n]) := by
      apply flatMap_congr'
      intro n hn
      have hne : c.id ≠ n := fun e => hnd.1 (e ▸ hn)
      have hb : (c.id == n) = false := by simpa using hne
      simp [soBbOf, hb]
    simp only [List.map_cons, List.flatMap_cons, hhead, htail, ih, soKidsBinds]

/-! ### the loop -/

theorem soLoop_append (s1 s2 : Net) (l1 l2 : List Nat) (d : Dict) :
    soLoop s1 s2 gBraT (l1 ++ l2) d = (soLoop s1 s2 gBraT l1 d).bind (fun d1 => soLoop s1 s2 gBraT l2 d1) := by
  induction l1 generalizing d with
  | nil => simp [soLoop]
  | cons i rest ih =>
    simp only [List.cons_append, soLoop]
    cases soStep s1 s2 gBraT d i with
    | none => simp
    | some d1 => simp [ih]

/-- the state and the operator network on the same tree part: same parents, independent child orders -/
def RepO (s1 s2 : Net) (opKids : Nat → List Nat) (info : List (Nat × Option Nat × List Nat)) : Prop :=
  ∀ e ∈ info,
    s1.node e.1 = some ⟨e.2.1, e.2.2⟩ ∧ s1.tensor e.1 = some (gKetT e.1 ⟨e.2.1, e.2.2⟩) ∧
    s2.node e.1 = some ⟨e.2.1, opKids e.1⟩ ∧ s2.tensor e.1 = some (gOpT e.1 ⟨e.2.1, opKids e.1⟩) ∧
    (opKids e.1).Perm e.2.2

section
variable (s1 s2 : Net) (opKids : Nat → List Nat)

/-- one node step, given that the blocks of all kids are in the dictionary -/
theorem soStep_node (i p : Nat) (ks : List Tree) (d : Dict)
    (hnd : (Tree.node i ks).ids.Nodup) (hp : p ∉ (Tree.node i ks).ids)
    (hrep : RepO s1 s2 opKids [(i, some p, ks.map Tree.id)])
    (hd : ∀ n ∈ ks.map Tree.id, d (n, i) = soKidBlock ks i (n, i)) :
    ∃ d', soStep s1 s2 gBraT d i = some d' ∧
      ∀ k, d' k = if k ∈ (ks.map Tree.id).map (fun c => (c, i)) then none
                  else if k = (i, p) then some (soBlock (Tree.node i ks) p) else d k := by
  obtain ⟨h1, h2, h3, h4, hperm⟩ := hrep (i, some p, ks.map Tree.id) (by simp)
  simp only at h1 h2 h3 h4 hperm
  simp only [Tree.ids, List.nodup_cons] at hnd
  simp only [Tree.ids, List.mem_cons, not_or] at hp
  have hkn : (ks.map Tree.id).Nodup := Tree.nodup_kid_ids ks hnd.2
  have hpk : p ∉ ks.map Tree.id := fun hm => hp.2 (Tree.kid_id_mem ks p hm)
  have hik : i ∉ ks.map Tree.id := fun hm => hnd.1 (Tree.kid_id_mem ks i hm)
  have hK : (Node.mk (some p) (ks.map Tree.id)).nbrs.Nodup := by
    simp [Node.nbrs, hpk, hkn]
  have hpermN : (Node.mk (some p) (opKids i)).nbrs.Perm ((Node.mk (some p) (ks.map Tree.id)).nbrs.map id) := by
    simp [Node.nbrs, hperm]
  have hB : (Node.mk (some p) (opKids i)).nbrs.Nodup := by
    have := hpermN
    simp only [List.map_id] at this
    exact this.nodup_iff.2 hK
  have hfilter : (Node.mk (some p) (ks.map Tree.id)).nbrs.filter (· ≠ p) = ks.map Tree.id := by
    have := filter_ne_mid [] (ks.map Tree.id) p (by simp) hpk
    simpa [Node.nbrs] using this
  have hany := op_any_general (Leg.gKet i) (Leg.gOp i) (Leg.gBra i) (fun n => Leg.gKet n i) (fun n => Leg.gOp n i)
    (fun n => Leg.gBra n i) (Leg.gKetPhys i) (Leg.gOpOut i) (Leg.gOpIn i) (Leg.gBraPhys i) (soBbOf ks) (d.cacheOf i)
    ⟨some p, ks.map Tree.id⟩ ⟨some p, opKids i⟩ ⟨some p, ks.map Tree.id⟩ p id id
    hK hB hK (by simp [Node.nbrs]) hpermN (by simp) rfl rfl
    (fun n hn hne => by
      have hn' : n ∈ ks.map Tree.id := by
        simp only [Node.nbrs, Option.toList_some, List.singleton_append, List.mem_cons] at hn
        rcases hn with e | hn
        · exact absurd e hne
        · exact hn
      simp only [Dict.cacheOf, hd n hn', soKidBlock_of_mem ks i n hn'])
  have hkb := soKidsBinds_eq i ks hkn
  simp only [ketEdge] at hkb
  rw [hfilter, hkb] at hany
  have hblock : soContractAny i p s1 s2 gBraT d = some (soBlock (Tree.node i ks) p) := by
    simp only [soContractAny, h1, h2, h3, h4, gKetT, gBraT, gOpT]
    rw [hany]
    cases ks with
    | nil => simp [soBlock, soBlockBinds, Tree.id, Node.isLeaf, physOut, physIn]
    | cons c cs =>
      have hid : (Tree.node i (c :: cs)).id = i := rfl
      simp [soBlock, soBlockBinds, hid, Node.isLeaf, braEdge, opEdge, physOut, physIn, List.map_map]
      rfl
  have hkeys : ((ks.map Tree.id).map (fun c => (c, i))).Nodup :=
    nodup_map_of_inj_on _ _ hkn (fun x _ y _ e => (Prod.mk.inj e).1)
  obtain ⟨d', hdel, hspec⟩ := Dict.deleteAll_spec (d.add (i, p) (soBlock (Tree.node i ks) p))
    ((ks.map Tree.id).map (fun c => (c, i))) hkeys
    (fun k hk => by
      obtain ⟨n, hn, rfl⟩ := List.mem_map.1 hk
      have hne : ¬ ((n, i) = (i, p)) := fun e => hik ((Prod.mk.inj e).1 ▸ hn)
      simp only [Dict.add, hne, if_false, hd n hn, soKidBlock_of_mem ks i n hn, Option.isSome_some])
  refine ⟨d', by simp only [soStep, h1, hblock, hdel], fun k => ?_⟩
  rw [hspec k]
  by_cases hk : k ∈ (ks.map Tree.id).map (fun c => (c, i))
  · rw [if_pos hk, if_pos hk]
  · rw [if_neg hk, if_neg hk]
    rfl

mutual
theorem soLoop_subtree :
    ∀ (t : Tree) (p : Nat) (d : Dict), t.ids.Nodup → p ∉ t.ids →
      RepO s1 s2 opKids (Tree.info (some p) t) → (∀ j ∈ t.ids, ∀ x, d (j, x) = none) →
      ∃ d', soLoop s1 s2 gBraT t.post d = some d' ∧
        ∀ k, d' k = if k = (t.id, p) then some (soBlock t p) else d k
  | .node i ks, p, d, hnd, hp, hrep, hfresh => by
    have hnd' := hnd
    simp only [Tree.ids, List.nodup_cons] at hnd'
    obtain ⟨df, hf1, hf2⟩ := soLoop_forest ks i d hnd'.2 hnd'.1
      (fun e he => hrep e (by simp [Tree.info, he]))
      (fun j hj x => hfresh j (by simp [Tree.ids, hj]) x)
    have hik : i ∉ ks.map Tree.id := fun hm => hnd'.1 (Tree.kid_id_mem ks i hm)
    obtain ⟨d', hs1, hs2⟩ := soStep_node s1 s2 opKids i p ks df hnd hp
      (fun e he => by
        simp only [List.mem_singleton] at he
        subst he
        exact hrep _ (by simp [Tree.info]))
      (fun n hn => by
        rw [hf2 (n, i), soKidBlock_of_mem ks i n hn])
    refine ⟨d', by simp [Tree.post, soLoop_append, hf1, soLoop, hs1], ?_⟩
    show ∀ k, d' k = if k = (i, p) then some (soBlock (Tree.node i ks) p) else d k
    intro k
    rw [hs2 k]
    by_cases hk : k ∈ (ks.map Tree.id).map (fun c => (c, i))
    · obtain ⟨n, hn, rfl⟩ := List.mem_map.1 hk
      have hne : ¬ ((n, i) = (i, p)) := fun e => hik ((Prod.mk.inj e).1 ▸ hn)
      rw [if_pos hk, if_neg hne]
      exact (hfresh n (by simp [Tree.ids, Tree.kid_id_mem ks n hn]) i).symm
    · rw [if_neg hk]
      by_cases hk2 : k = (i, p)
      · simp [hk2]
      · rw [if_neg hk2, if_neg hk2, hf2 k, soKidBlock_none ks i k hk]
theorem soLoop_forest :
    ∀ (ts : List Tree) (i : Nat) (d : Dict), (Tree.idsL ts).Nodup → i ∉ Tree.idsL ts →
      RepO s1 s2 opKids (Tree.infoL i ts) → (∀ j ∈ Tree.idsL ts, ∀ x, d (j, x) = none) →
      ∃ d', soLoop s1 s2 gBraT (Tree.postL ts) d = some d' ∧
        ∀ k, d' k = match soKidBlock ts i k with
                    | some b => some b
                    | none => d k
  | [], i, d, _, _, _, _ => ⟨d, by simp [Tree.postL, soLoop], fun k => by simp [soKidBlock]⟩
  | c :: cs, i, d, hnd, hi, hrep, hfresh => by
    simp only [Tree.idsL, List.nodup_append] at hnd
    simp only [Tree.idsL, List.mem_append, not_or] at hi
    obtain ⟨d1, h11, h12⟩ := soLoop_subtree c i d hnd.1 hi.1
      (fun e he => hrep e (by simp [Tree.infoL, he]))
      (fun j hj x => hfresh j (by simp [Tree.idsL, hj]) x)
    obtain ⟨d2, h21, h22⟩ := soLoop_forest cs i d1 hnd.2.1 hi.2
      (fun e he => hrep e (by simp [Tree.infoL, he]))
      (fun j hj x => by
        have hne : ¬ ((j, x) = (c.id, i)) := fun e =>
          hnd.2.2 _ (Tree.id_mem_ids c) _ hj (Prod.mk.inj e).1.symm
        rw [h12 (j, x), if_neg hne]
        exact hfresh j (by simp [Tree.idsL, hj]) x)
    refine ⟨d2, by simp [Tree.postL, soLoop_append, h11, h21], fun k => ?_⟩
    rw [h22 k, soKidBlock_cons]
    by_cases hk : k = (c.id, i)
    · have hnone : soKidBlock cs i k = none := by
        apply soKidBlock_none
        intro hm
        obtain ⟨n, hn, e⟩ := List.mem_map.1 hm
        rw [hk] at e
        have : n = c.id := (Prod.mk.inj e).1
        exact hnd.2.2 _ (Tree.id_mem_ids c) _ (Tree.kid_id_mem cs n hn) this.symm
      rw [hnone, if_pos hk, h12 k, if_pos hk]
    · rw [if_neg hk]
      cases hkb : soKidBlock cs i k with
      | some b => rfl
      | none => simp only; rw [h12 k, if_neg hk]
end

end


/-! ### the whole contraction -/

theorem expectationValue_eq (t : Tree) (hnd : t.ids.Nodup) (opKids : Nat → List Nat)
    (hperm : ∀ e ∈ Tree.info none t, (opKids e.1).Perm e.2.2) :
    expectationValue (netOf t (fun _ ks => ks) gKetT) (netOf t (fun i _ => opKids i) gOpT) gBraT =
      some ⟨[], soRootBinds t⟩ := by
  obtain ⟨r, ks⟩ := t
  have hrep : RepO (netOf (.node r ks) (fun _ ks => ks) gKetT) (netOf (.node r ks) (fun i _ => opKids i) gOpT)
      opKids (Tree.info none (.node r ks)) := by
    intro e he
    have h1 := netOf_node (.node r ks) (fun _ ks => ks) gKetT hnd e he
    have h2 := netOf_node (.node r ks) (fun i _ => opKids i) gOpT hnd e he
    exact ⟨h1.1, h1.2, h2.1, h2.2, hperm e he⟩
  have hnd' := hnd
  simp only [Tree.ids, List.nodup_cons] at hnd'
  obtain ⟨d, hl, hd⟩ := soLoop_forest _ _ opKids ks r Dict.empty hnd'.2 hnd'.1
    (fun e he => hrep e (by simp [Tree.info, he])) (fun _ _ _ => rfl)
  obtain ⟨h1, h2, h3, h4, hp⟩ := hrep (r, none, ks.map Tree.id) (by simp [Tree.info])
  simp only at h1 h2 h3 h4 hp
  have hkn : (ks.map Tree.id).Nodup := Tree.nodup_kid_ids ks hnd'.2
  have hroot := opRoot_labels (Leg.gKet r) (Leg.gOp r) (Leg.gBra r) (fun n => Leg.gKet n r) (fun n => Leg.gOp n r)
    (fun n => Leg.gBra n r) (Leg.gKetPhys r) (Leg.gOpOut r) (Leg.gOpIn r) (Leg.gBraPhys r) (soBbOf ks) (d.cacheOf r)
    ⟨none, ks.map Tree.id⟩ ⟨none, opKids r⟩
    (by simpa [Node.nbrs] using hkn) (by simpa [Node.nbrs] using hp.nodup_iff.2 hkn)
    (by simpa [Node.nbrs] using hp)
    (fun n hn => by
      have hn' : n ∈ ks.map Tree.id := by simpa [Node.nbrs] using hn
      simp only [Dict.cacheOf, hd (n, r), soKidBlock_of_mem ks r n hn'])
  have hkb := soKidsBinds_eq r ks hkn
  simp only [ketEdge] at hkb
  have hnb1 : (Node.mk none (ks.map Tree.id)).nbrs = ks.map Tree.id := by simp [Node.nbrs]
  have hnb2 : (Node.mk none (opKids r)).nbrs = opKids r := by simp [Node.nbrs]
  rw [hnb1, hnb2, hkb] at hroot
  have horder : (netOf (.node r ks) (fun _ ks => ks) gKetT).order = Tree.postL ks ++ [r] := rfl
  have hr1 : (netOf (.node r ks) (fun _ ks => ks) gKetT).root = r := rfl
  have hr2 : (netOf (.node r ks) (fun i _ => opKids i) gOpT).root = r := rfl
  simp only [expectationValue, horder, hr1, hr2, List.getLast?_concat, List.dropLast_concat, ne_eq,
    not_true_eq_false, or_self, if_false, hl, soContractNodeWithEnvironment, h1, h2, h3, h4, gKetT, gBraT, gOpT,
    hnb1, hnb2]
  rw [hroot]
  have hid : (Tree.node r ks).id = r := rfl
  have hkids : (Tree.node r ks).kids = ks := rfl
  simp [soRootBinds, hid, hkids, braEdge, opEdge, physIn, physOut, List.map_map]
  rfl

mutual
theorem count_soBlockBinds (x : Leg × Leg) : ∀ t : Tree, (soBlockBinds t).count x = (soSpec t).count x
  | .node i [] => by
    simp only [soBlockBinds, soSpec, soSpecL, List.isEmpty_nil, if_true, List.count_cons, List.count_nil]
    omega
  | .node i (c :: cs) => by
    have := count_soKidsBinds x i (c :: cs)
    simp only [soBlockBinds, soSpec, List.isEmpty_cons, Bool.false_eq_true, if_false, List.count_append,
      List.count_cons, List.count_nil] at this ⊢
    omega
theorem count_soKidsBinds (x : Leg × Leg) (i : Nat) : ∀ ts : List Tree,
    (soKidsBinds i ts).count x + (ts.map fun c => opEdge i c.id).count x + (ts.map fun c => braEdge i c.id).count x
      = (soSpecL i ts).count x
  | [] => by simp [soKidsBinds, soSpecL]
  | c :: cs => by
    have h1 := count_soBlockBinds x c
    have h2 := count_soKidsBinds x i cs
    simp only [soKidsBinds, soSpecL, List.map_cons, List.count_append, List.count_cons, List.count_nil]
    omega
end

/-- a list of bound pairs read as unordered pairs -/
def unord (l : List (Leg × Leg)) : List (Leg × Leg) := l ++ l.map Prod.swap

theorem count_map_swap (x : Leg × Leg) (l : List (Leg × Leg)) : (l.map Prod.swap).count x = l.count x.swap := by
  induction l with
  | nil => rfl
  | cons a as ih =>
    simp only [List.map_cons, List.count_cons, ih]
    have : (a.swap == x) = (a == x.swap) := by
      obtain ⟨a1, a2⟩ := a
      obtain ⟨x1, x2⟩ := x
      show ((a2 == x1) && (a1 == x2)) = ((a1 == x2) && (a2 == x1))
      exact Bool.and_comm _ _
    rw [this]

theorem unord_swap_part (A B spec : List (Leg × Leg)) (h : ∀ y, (A ++ B).count y = spec.count y) :
    (unord (A ++ B.map Prod.swap)).Perm (unord spec) := by
  rw [List.perm_iff_count]
  intro x
  have h1 := h x
  have h2 := h x.swap
  simp only [unord, List.count_append, count_map_swap, List.map_append, Prod.swap_swap] at h1 h2 ⊢
  omega

theorem soRootBinds_perm (t : Tree) : (unord (soRootBinds t)).Perm (unord (soSpec t)) := by
  obtain ⟨r, ks⟩ := t
  have hid : (Tree.node r ks).id = r := rfl
  have hkids : (Tree.node r ks).kids = ks := rfl
  have heq : soRootBinds (Tree.node r ks) =
      (soKidsBinds r ks ++ ((ks.map fun c => opEdge r c.id) ++ [physIn r])) ++
      (((ks.map fun c => braEdge r c.id) ++ [physOut r]).map Prod.swap) := by
    simp [soRootBinds, hid, hkids, List.map_map, Function.comp]
  rw [heq]
  apply unord_swap_part
  intro y
  have := count_soKidsBinds y r ks
  simp only [soSpec, List.count_append, List.count_cons, List.count_nil] at this ⊢
  omega

mutual
theorem mem_soSpec (x : Leg × Leg) : ∀ t : Tree,
    x ∈ soSpec t ↔ (∃ n ∈ t.ids, x = physIn n ∨ x = physOut n) ∨
      (∃ e ∈ t.edges, x = ketEdge e.1 e.2 ∨ x = opEdge e.1 e.2 ∨ x = braEdge e.1 e.2)
  | .node i ks => by
    simp only [soSpec, Tree.ids, Tree.edges, List.mem_cons, mem_soSpecL x i ks, exists_eq_or_imp]
    constructor
    · rintro (h | h | h | h)
      · exact Or.inl (Or.inl (Or.inl h))
      · exact Or.inl (Or.inl (Or.inr h))
      · exact Or.inl (Or.inr h)
      · exact Or.inr h
    · rintro (((h | h) | h) | h)
      · exact Or.inl h
      · exact Or.inr (Or.inl h)
      · exact Or.inr (Or.inr (Or.inl h))
      · exact Or.inr (Or.inr (Or.inr h))
theorem mem_soSpecL (x : Leg × Leg) (i : Nat) : ∀ ts : List Tree,
    x ∈ soSpecL i ts ↔ (∃ n ∈ Tree.idsL ts, x = physIn n ∨ x = physOut n) ∨
      (∃ e ∈ Tree.edgesL i ts, x = ketEdge e.1 e.2 ∨ x = opEdge e.1 e.2 ∨ x = braEdge e.1 e.2)
  | [] => by simp [soSpecL, Tree.idsL, Tree.edgesL]
  | c :: cs => by
    simp only [soSpecL, Tree.idsL, Tree.edgesL, List.mem_cons, List.mem_append, mem_soSpec x c,
      mem_soSpecL x i cs, exists_eq_or_imp]
    constructor
    · rintro (h | h | h | (h | h) | (h | h))
      · exact Or.inr (Or.inl (Or.inl h))
      · exact Or.inr (Or.inl (Or.inr (Or.inl h)))
      · exact Or.inr (Or.inl (Or.inr (Or.inr h)))
      · obtain ⟨n, hn, e⟩ := h; exact Or.inl ⟨n, Or.inl hn, e⟩
      · obtain ⟨e, he, h⟩ := h; exact Or.inr (Or.inr ⟨e, Or.inl he, h⟩)
      · obtain ⟨n, hn, e⟩ := h; exact Or.inl ⟨n, Or.inr hn, e⟩
      · obtain ⟨e, he, h⟩ := h; exact Or.inr (Or.inr ⟨e, Or.inr he, h⟩)
    · rintro (⟨n, hn | hn, e⟩ | (h | h | h) | ⟨e, he | he, h⟩)
      · exact Or.inr (Or.inr (Or.inr (Or.inl (Or.inl ⟨n, hn, e⟩))))
      · exact Or.inr (Or.inr (Or.inr (Or.inr (Or.inl ⟨n, hn, e⟩))))
      · exact Or.inl h
      · exact Or.inr (Or.inl h)
      · exact Or.inr (Or.inr (Or.inl h))
      · exact Or.inr (Or.inr (Or.inr (Or.inl (Or.inr ⟨e, he, h⟩))))
      · exact Or.inr (Or.inr (Or.inr (Or.inr (Or.inr ⟨e, he, h⟩))))
end

end Ptn.C04
