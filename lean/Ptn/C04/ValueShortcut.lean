import Ptn.C04.Value
import Ptn.C04.ValueCentre
/-! Value level: the orthogonality-centre shortcut of `scalar_product` for the OUTPUT OF THE LOOP (builder B44).

`centre_shortcut_value` (B39) speaks about a `Centre` / `Kids` structure of `Ptn/Common/EinsumIso.lean`.  Here that
structure is BUILT from a C04 `Tree` whose root is the centre, with the tree-level labels `gKet i n` / `gBra i n` /
`gKetPhys i` / `gBraPhys i` (`c04CentreOf`), its record is identified with the specification graph `ssSpec t` (up to
the orientation of the bra bonds: `c04_kids_binds`), its tensors with the leaves of the loop (`c04_centre_leaves`),
and the per-edge isometry hypothesis in C04's labels (`IsoKids`) with `Centre.Canon` (`c04_kids_canon`).
Helper lemmas only; the property theorem is in `Props.lean`. -/
namespace Ptn.C04

open Ptn.Ein

section
set_option linter.unusedSectionVars false
variable {R : Type} [CommSemiring R]

/-! ### orientation of selected pairs -/

/-- turn around the pairs selected by `b` -/
def flipIf {L : Type} (b : L × L → Bool) (p : L × L) : L × L := if b p then p.swap else p

theorem c04_sumPairs_flipIf {L : Type} [DecidableEq L] (dim : L → Nat) (b : L × L → Bool) (ps : List (L × L))
    (hd : ∀ p ∈ ps, b p = true → dim p.1 = dim p.2) (f : Asg L → R) (σ : Asg L) :
    sumPairs dim (ps.map (flipIf b)) f σ = sumPairs dim ps f σ := by
  induction ps generalizing σ with
  | nil => rfl
  | cons p ps ih =>
    obtain ⟨x, y⟩ := p
    have ih' : ∀ σ, sumPairs dim (ps.map (flipIf b)) f σ = sumPairs dim ps f σ :=
      fun σ => ih (fun p hp => hd p (by simp [hp])) σ
    by_cases hb : b (x, y) = true
    · have hab : dim x = dim y := hd (x, y) (by simp) hb
      simp only [List.map_cons, flipIf, hb, if_true, Prod.swap, sumPairs, hab]
      congr 1; funext i
      rw [upd_pair_swap, ih']
    · simp only [List.map_cons, flipIf, hb, sumPairs]
      congr 1; funext i
      simpa [flipIf] using ih' _

theorem c04_pairLegs_flipIf {L : Type} [DecidableEq L] (b : L × L → Bool) (ps : List (L × L)) :
    (Expr.pairLegs (ps.map (flipIf b))).Perm (Expr.pairLegs ps) := by
  rw [List.perm_iff_count]
  intro a
  induction ps with
  | nil => rfl
  | cons p ps ih =>
    obtain ⟨x, y⟩ := p
    rw [List.map_cons, count_pairLegs_cons, count_pairLegs_cons, ih]
    by_cases hb : b (x, y) = true
    · simp only [flipIf, hb, if_true, Prod.swap, List.count_cons, List.count_nil]; omega
    · simp [flipIf, hb]

/-! ### the `Centre` / `Kids` structure of a C04 tree rooted at the centre -/

variable (kv bv : Nat → Asg Leg → R)

mutual
/-- the doubled sub-tree of `t` hanging off the bond toward its parent `p`: tensors `kv i`, `bv i`, up-legs
`gKet i p`, `gBra i p`, one pair of open legs -/
def c04SubOf (p : Nat) : Tree → Sub Leg R
  | .node i ks => Sub.node (kv i) (bv i) (Leg.gKet i p) (Leg.gBra i p) [physPair i] (c04KidsOf i ks)
/-- the sub-trees below node `i`: legs `gKet i c`, `gBra i c` of node `i` facing the child `c` -/
def c04KidsOf (i : Nat) : List Tree → Kids Leg R
  | [] => Kids.nil
  | c :: cs => Kids.cons (Leg.gKet i c.id) (Leg.gBra i c.id) (c04SubOf i c) (c04KidsOf i cs)
end

/-- the norm network seen from the root of the tree -/
def c04CentreOf : Tree → Centre Leg R
  | .node c ks => ⟨kv c, bv c, [physPair c], c04KidsOf kv bv c ks⟩

/-- the pairs (ket leg, bra leg) of node `i` facing its children: the legs over which, together with the open
legs, the centre-only contraction and the isometry condition sum -/
def downPairs (i : Nat) (ks : List Tree) : List (Leg × Leg) :=
  ks.map fun c => (Leg.gKet i c.id, Leg.gBra i c.id)

theorem c04SubOf_u (p : Nat) (t : Tree) : (c04SubOf kv bv p t).u = Leg.gKet t.id p := by
  cases t; simp [c04SubOf, Sub.u, Tree.id]
theorem c04SubOf_u' (p : Nat) (t : Tree) : (c04SubOf kv bv p t).u' = Leg.gBra t.id p := by
  cases t; simp [c04SubOf, Sub.u', Tree.id]

theorem c04_kids_pairs (i : Nat) : ∀ ks : List Tree, (c04KidsOf kv bv i ks).pairs = downPairs i ks
  | [] => by simp [c04KidsOf, Kids.pairs, downPairs]
  | c :: cs => by
    have := c04_kids_pairs i cs
    simp only [downPairs] at this
    simp [c04KidsOf, Kids.pairs, downPairs, this]

theorem c04_kids_kd (i : Nat) : ∀ ks : List Tree, (c04KidsOf kv bv i ks).kd = (ks.map Tree.id).map (Leg.gKet i)
  | [] => by simp [c04KidsOf, Kids.kd]
  | c :: cs => by simp [c04KidsOf, Kids.kd, c04_kids_kd i cs]

theorem c04_kids_bd (i : Nat) : ∀ ks : List Tree, (c04KidsOf kv bv i ks).bd = (ks.map Tree.id).map (Leg.gBra i)
  | [] => by simp [c04KidsOf, Kids.bd]
  | c :: cs => by simp [c04KidsOf, Kids.bd, c04_kids_bd i cs]

/-! ### its record is the specification graph, bra bonds turned around -/

mutual
theorem c04_sub_binds (p : Nat) : ∀ t : Tree, (c04SubOf kv bv p t).binds = (ssSpec t).map (flipIf isBraEdge)
  | .node i ks => by
    simp only [c04SubOf, Sub.binds, ssSpec, List.map_cons, c04_kids_binds i ks]
    simp [flipIf, physPair, isBraEdge]
theorem c04_kids_binds (i : Nat) : ∀ ks : List Tree,
    (c04KidsOf kv bv i ks).binds = (ssSpecL i ks).map (flipIf isBraEdge)
  | [] => by simp [c04KidsOf, Kids.binds, ssSpecL]
  | c :: cs => by
    simp only [c04KidsOf, Kids.binds, ssSpecL, List.map_cons, List.map_append, c04_sub_binds i c,
      c04_kids_binds i cs, c04SubOf_u, c04SubOf_u']
    simp [flipIf, ketEdge, braEdge, isBraEdge]
end

theorem c04_centre_normBinds (t : Tree) : (c04CentreOf kv bv t).normBinds = (ssSpec t).map (flipIf isBraEdge) := by
  obtain ⟨c, ks⟩ := t
  simp only [c04CentreOf, Centre.normBinds, ssSpec, List.map_cons, c04_kids_binds]
  simp [flipIf, physPair, isBraEdge]

/-! ### its tensors are the leaves of the loop -/

variable (braKids : Nat → List Nat)

mutual
theorem c04_sub_leaves (p : Nat) : ∀ t : Tree,
    (c04SubOf kv bv p t).leaves = (ssLeaves braKids kv bv (some p) t).map Prod.snd
  | .node i ks => by
    have := c04_kids_leaves i ks
    simp only [ssLeaves] at this ⊢
    simp [c04SubOf, Sub.leaves, treeLeaves, ssNodeLeaves, this]
theorem c04_kids_leaves (i : Nat) : ∀ ks : List Tree,
    (c04KidsOf kv bv i ks).leaves = (treeLeavesL (ssNodeLeaves braKids kv bv) i ks).map Prod.snd
  | [] => by simp [c04KidsOf, Kids.leaves, treeLeavesL]
  | c :: cs => by
    have h1 := c04_sub_leaves i c
    have h2 := c04_kids_leaves i cs
    simp only [ssLeaves] at h1
    simp [c04KidsOf, Kids.leaves, treeLeavesL, h1, h2]
end

theorem c04_centre_leaves (t : Tree) :
    (c04CentreOf kv bv t).normLeaves = (ssLeaves braKids kv bv none t).map Prod.snd := by
  obtain ⟨c, ks⟩ := t
  have := c04_kids_leaves kv bv braKids c ks
  simp [c04CentreOf, Centre.normLeaves, ssLeaves, treeLeaves, ssNodeLeaves, this]

/-! ### its labels are distinct -/

theorem c04_centre_labels_nodup (t : Tree) (h : (Expr.pairLegs (ssSpec t)).Nodup) :
    (c04CentreOf kv bv t).labels.Nodup := by
  have h1 : (c04CentreOf kv bv t).labels.Perm (Expr.pairLegs (c04CentreOf kv bv t).normBinds) := by
    unfold Centre.labels Centre.normBinds
    exact (List.Perm.append_left _ (Kids.labels_perm _)).trans (Expr.pairLegs_append _ _).symm
  rw [c04_centre_normBinds] at h1
  exact (h1.trans (c04_pairLegs_flipIf _ _)).nodup_iff.2 h

/-! ### the per-edge isometry hypothesis in C04's labels gives `Centre.Canon` -/

variable (dim : Leg → Nat)

mutual
/-- **every node of the sub-tree `t` (parent `p`) is an isometry toward `p`, in index form**: the bra copy of the
up-leg has the dimension of the ket's; summing `kv i · bv i` over one common index for the open leg and for every
pair of legs facing a child gives `δ(gKet i p, gBra i p)` (for indices within the bond dimension) -/
def IsoSub (p : Nat) : Tree → Prop
  | .node i ks =>
    dim (Leg.gBra i p) = dim (Leg.gKet i p) ∧
    (∀ τ : Asg Leg, τ (Leg.gKet i p) < dim (Leg.gKet i p) → τ (Leg.gBra i p) < dim (Leg.gBra i p) →
      sumPairs dim (physPair i :: downPairs i ks) (fun ρ => kv i ρ * bv i ρ) τ =
        if τ (Leg.gKet i p) = τ (Leg.gBra i p) then 1 else 0) ∧
    IsoKids i ks
/-- every child sub-tree of node `i` is isometric toward `i`; both ends of every bond have the same dimension -/
def IsoKids (i : Nat) : List Tree → Prop
  | [] => True
  | c :: cs => dim (Leg.gKet i c.id) = dim (Leg.gKet c.id i) ∧ dim (Leg.gBra i c.id) = dim (Leg.gBra c.id i) ∧
      IsoSub i c ∧ IsoKids i cs
end

/-- what is known of one node: both tensors read only their own legs; the bra's child order is a permutation -/
def NodeLocal (e : Nat × Option Nat × List Nat) : Prop :=
  DependsOn (· ∈ (gKetT e.1 ⟨e.2.1, e.2.2⟩).legs) (kv e.1) ∧
  DependsOn (· ∈ (gBraT e.1 ⟨e.2.1, braKids e.1⟩).legs) (bv e.1) ∧ (braKids e.1).Perm e.2.2

theorem c04_ket_legs_sub (i : Nat) (p : Nat) (ks : List Tree) (l : Leg)
    (hl : l ∈ (gKetT i ⟨some p, ks.map Tree.id⟩).legs) :
    l ∈ Leg.gKet i p :: ([physPair i].map Prod.fst ++ (c04KidsOf kv bv i ks).kd) := by
  rw [c04_kids_kd]
  simp only [gKetT, T.fresh, Node.nbrs, List.mem_append, List.mem_map, List.mem_singleton] at hl
  simp only [List.mem_cons, List.mem_append, List.mem_map, physPair]
  rcases hl with ⟨n, hn, rfl⟩ | rfl
  · simp only [Option.toList, List.mem_singleton] at hn
    rcases hn with rfl | hn
    · exact Or.inl rfl
    · exact Or.inr (Or.inr ⟨n, by simpa using hn, rfl⟩)
  · simp

theorem c04_bra_legs_sub (i : Nat) (p : Nat) (ks : List Tree) (hp : (braKids i).Perm (ks.map Tree.id)) (l : Leg)
    (hl : l ∈ (gBraT i ⟨some p, braKids i⟩).legs) :
    l ∈ Leg.gBra i p :: ([physPair i].map Prod.snd ++ (c04KidsOf kv bv i ks).bd) := by
  rw [c04_kids_bd]
  simp only [gBraT, T.fresh, Node.nbrs, List.mem_append, List.mem_map, List.mem_singleton] at hl
  simp only [List.mem_cons, List.mem_append, List.mem_map, physPair]
  rcases hl with ⟨n, hn, rfl⟩ | rfl
  · simp only [Option.toList, List.mem_singleton] at hn
    rcases hn with rfl | hn
    · exact Or.inl rfl
    · exact Or.inr (Or.inr ⟨n, by simpa using hp.mem_iff.1 hn, rfl⟩)
  · simp

mutual
theorem c04_sub_canon (p : Nat) : ∀ t : Tree, (∀ e ∈ Tree.info (some p) t, NodeLocal kv bv braKids e) →
    IsoSub kv bv dim p t → (c04SubOf kv bv p t).Canon dim
  | .node i ks, hloc, hiso => by
    obtain ⟨hd, his, hk⟩ := hiso
    obtain ⟨h1, h2, h3⟩ := hloc (i, some p, ks.map Tree.id) (by simp [Tree.info])
    simp only [c04SubOf, Sub.Canon]
    refine ⟨h1.mono (c04_ket_legs_sub kv bv i p ks), h2.mono (c04_bra_legs_sub kv bv braKids i p ks h3), hd, ?_,
      c04_kids_canon i ks (fun e he => hloc e (by simp [Tree.info, he])) hk⟩
    intro τ hu hu'
    rw [c04_kids_pairs]
    exact his τ hu hu'
theorem c04_kids_canon (i : Nat) : ∀ ks : List Tree, (∀ e ∈ Tree.infoL i ks, NodeLocal kv bv braKids e) →
    IsoKids kv bv dim i ks → (c04KidsOf kv bv i ks).Canon dim
  | [], _, _ => by simp [c04KidsOf, Kids.Canon]
  | c :: cs, hloc, hiso => by
    obtain ⟨hd1, hd2, hs, hr⟩ := hiso
    simp only [c04KidsOf, Kids.Canon, c04SubOf_u, c04SubOf_u']
    exact ⟨hd1, hd2, c04_sub_canon i c (fun e he => hloc e (by simp [Tree.infoL, he])) hs,
      c04_kids_canon i cs (fun e he => hloc e (by simp [Tree.infoL, he])) hr⟩
end

mutual
theorem c04_iso_dims_sub (p : Nat) : ∀ t : Tree, IsoSub kv bv dim p t →
    ∀ x ∈ ssSpec t, isBraEdge x = true → dim x.1 = dim x.2
  | .node i ks, hiso, x, hx, hb => by
    simp only [ssSpec, List.mem_cons] at hx
    rcases hx with rfl | hx
    · simp [physPair, isBraEdge] at hb
    · exact c04_iso_dims_kids i ks hiso.2.2 x hx hb
theorem c04_iso_dims_kids (i : Nat) : ∀ ks : List Tree, IsoKids kv bv dim i ks →
    ∀ x ∈ ssSpecL i ks, isBraEdge x = true → dim x.1 = dim x.2
  | [], _, x, hx, _ => by simp [ssSpecL] at hx
  | c :: cs, hiso, x, hx, hb => by
    obtain ⟨_, hd2, hs, hr⟩ := hiso
    simp only [ssSpecL, List.mem_cons, List.mem_append] at hx
    rcases hx with rfl | rfl | hx | hx
    · simp [ketEdge, isBraEdge] at hb
    · exact hd2.symm
    · exact c04_iso_dims_sub i c hs x hx hb
    · exact c04_iso_dims_kids i cs hr x hx hb
end

/-- **the norm network of the loop, seen from the root**: with every non-root node an isometry toward the root the
flat network of the specification graph `ssSpec t` over the leaves of the loop has the value of the root's two
tensors alone, summed over one common index per leg -/
theorem c04_root_shortcut_netValue (c : Nat) (ks : List Tree)
    (hloc : ∀ e ∈ Tree.info none (.node c ks), NodeLocal kv bv braKids e)
    (hiso : IsoKids kv bv dim c ks) (hnd : (Expr.pairLegs (ssSpec (.node c ks))).Nodup) (σ : Asg Leg) :
    netValue dim (ssSpec (.node c ks)) ((ssLeaves braKids kv bv none (.node c ks)).map Prod.snd) σ =
      netValue dim (physPair c :: downPairs c ks) [kv c, bv c] σ := by
  obtain ⟨h1, h2, h3⟩ := hloc (c, none, ks.map Tree.id) (by simp [Tree.info])
  have hc : (c04CentreOf kv bv (.node c ks)).Canon dim := by
    refine ⟨h1.mono ?_, h2.mono ?_, c04_kids_canon kv bv braKids dim c ks
      (fun e he => hloc e (by simp [Tree.info, he])) hiso⟩
    · intro l hl
      simp only [c04CentreOf, c04_kids_kd]
      simp only [gKetT, T.fresh, Node.nbrs, Option.toList, List.nil_append, List.mem_append, List.mem_map,
        List.mem_singleton] at hl
      simp only [List.mem_append, List.mem_map, physPair]
      rcases hl with ⟨n, hn, rfl⟩ | rfl
      · exact Or.inr ⟨n, by simpa using hn, rfl⟩
      · simp
    · intro l hl
      simp only [c04CentreOf, c04_kids_bd]
      simp only [gBraT, T.fresh, Node.nbrs, Option.toList, List.nil_append, List.mem_append, List.mem_map,
        List.mem_singleton] at hl
      simp only [List.mem_append, List.mem_map, physPair]
      rcases hl with ⟨n, hn, rfl⟩ | rfl
      · exact Or.inr ⟨n, by simpa using h3.mem_iff.1 hn, rfl⟩
      · simp
  have key := centre_norm_eq_full_norm_value dim _ hc (c04_centre_labels_nodup kv bv _ hnd) σ
  rw [c04_centre_normBinds, c04_centre_leaves kv bv braKids] at key
  unfold netValue at key
  have hd : ∀ x ∈ ssSpec (.node c ks), isBraEdge x = true → dim x.1 = dim x.2 := by
    intro x hx hb
    simp only [ssSpec, List.mem_cons] at hx
    rcases hx with rfl | hx
    · simp [physPair, isBraEdge] at hb
    · exact c04_iso_dims_kids kv bv dim c ks hiso x hx hb
  rw [c04_sumPairs_flipIf dim isBraEdge _ hd] at key
  simpa [netValue, c04CentreOf, c04_kids_pairs] using key

end

end Ptn.C04
