import Ptn.C04.OpRoot
import Ptn.C04.TreeModel
/-! Tree-level composition for C04: the per-node theorems with arbitrary (global) labels and with blocks
that carry the bound pairs of their subtrees; dictionary lemmas; the node table of `netOf`. -/
namespace Ptn.C04

/-! ### per-node steps with arbitrary labels and blocks carrying bindings -/

theorem contractLeafs_general (p q : Nat) (a y b z : Leg) :
    contractLeafs ⟨some p, []⟩ ⟨some q, []⟩ (T.fresh [a, y]) (T.fresh [b, z]) = some ⟨[a, b], [(y, z)]⟩ := by
  simp only [contractLeafs, Node.isLeaf, Node.nn, Node.nparents, T.fresh]
  rw [tensordot_one _ _ _ _ y z (by simp) (by simp)]
  simp

/-- `contract_any_nodes` with arbitrary leg labels; the cached block of neighbour `n` is any two-leg
tensor `[a n, b n]` carrying the bindings `bb n` -/
theorem contract_any_nodes_general (mkK mkB a b : Nat → Leg) (y z : Leg) (bb : Nat → List (Leg × Leg))
    (cache : Cache) (n1 n2 : Node) (next : Nat) (f : Trafo)
    (hK : n1.nbrs.Nodup) (hB : n2.nbrs.Nodup) (hnext : next ∈ n1.nbrs)
    (hperm : n2.nbrs.Perm (n1.nbrs.map f)) (hpar : n2.parent = n1.parent.map f)
    (hcache : ∀ n ∈ n1.nbrs, n ≠ next → cache n = some ⟨[a n, b n], bb n⟩) :
    contractAnyNodes next n1 n2 (T.fresh (n1.nbrs.map mkK ++ [y])) (T.fresh (n2.nbrs.map mkB ++ [z])) cache f =
      some ⟨[mkK next, mkB (f next)],
            (n1.nbrs.filter (· ≠ next)).flatMap (fun n => bb n ++ [(mkK n, a n)]) ++
            ((n1.nbrs.filter (· ≠ next)).map (fun n => (b n, mkB (f n))) ++ [(y, z)])⟩ := by
  unfold contractAnyNodes
  by_cases hleaf : n1.isLeaf = true
  · rw [if_pos hleaf]
    obtain ⟨p1, c1⟩ := n1
    obtain ⟨p2, c2⟩ := n2
    simp only [Node.isLeaf, List.isEmpty_iff] at hleaf
    subst hleaf
    cases p1 with
    | none => simp [Node.nbrs] at hnext
    | some p =>
      simp only [Node.nbrs, Option.toList_some, List.append_nil, List.mem_singleton] at hnext
      subst hnext
      simp only [Option.map_some] at hpar
      subst hpar
      have hc2 : c2 = [] := by
        have := hperm.length_eq
        simpa [Node.nbrs] using this
      subst hc2
      have := contractLeafs_general next (f next) (mkK next) y (mkB (f next)) z
      simpa [Node.nbrs] using this
  · rw [if_neg hleaf]
    have h1 := allButOne_general 0 mkK (fun n => ⟨[a n, b n], bb n⟩) a [y] cache n1 next hK hnext
      (fun n hn hne => ⟨hcache n hn hne, by simp⟩)
    simp only [List.eraseIdx_cons_zero, flatMap_single] at h1
    simp only [contractSubtreesUsingDictionary, contractAllButOneNeighbourBlockToKet, h1]
    exact braIgnore_general (mkK next) y z b mkB n1 n2 next f _ hK hB hnext hperm

/-- `contract_node_with_environment_nodes` with arbitrary labels and blocks carrying bindings -/
theorem contract_root_general (mkK mkB a b : Nat → Leg) (y z : Leg) (bb : Nat → List (Leg × Leg))
    (cache : Cache) (n1 n2 : Node) (hK : n1.nbrs.Nodup) (hB : n2.nbrs.Nodup) (hperm : n2.nbrs.Perm n1.nbrs)
    (hcache : ∀ n ∈ n1.nbrs, cache n = some ⟨[a n, b n], bb n⟩) :
    contractNodeWithEnvironmentNodes n1 (T.fresh (n1.nbrs.map mkK ++ [y])) n2 (T.fresh (n2.nbrs.map mkB ++ [z]))
        cache =
      some ⟨[], n1.nbrs.flatMap (fun n => bb n ++ [(mkK n, a n)]) ++
                (n2.nbrs.map (fun n => (b n, mkB n)) ++ [(y, z)])⟩ := by
  have h1 := allLoop_general 0 mkK (fun n => ⟨[a n, b n], bb n⟩) a cache n1 n1.nbrs [y] []
    (fun n hn => ⟨hcache n hn, by simp⟩)
  simp only [List.eraseIdx_cons_zero, flatMap_single, List.nil_append] at h1
  simp only [contractNodeWithEnvironmentNodes, contractAllNeighbourBlocksToKet, T.fresh, h1]
  exact braAll_general y z b mkB n1 n2 _ hK hB hperm

/-- `contract_any_node_environment_but_one` with arbitrary labels; three-leg blocks `[a n, o n, b n]`
carrying the bindings `bb n` -/
theorem op_any_general (mkK mkO mkB a o b : Nat → Leg) (y zo zi z : Leg) (bb : Nat → List (Leg × Leg))
    (cache : Cache) (n1 nO nB : Node) (next : Nat) (g f : Trafo)
    (hK : n1.nbrs.Nodup) (hO : nO.nbrs.Nodup) (hB : nB.nbrs.Nodup) (hnext : next ∈ n1.nbrs)
    (hpermO : nO.nbrs.Perm (n1.nbrs.map g)) (hpermB : nB.nbrs.Perm (n1.nbrs.map f))
    (hparO : nO.parent = n1.parent.map g) (hparB : nB.parent = n1.parent.map f)
    (hcache : ∀ n ∈ n1.nbrs, n ≠ next → cache n = some ⟨[a n, o n, b n], bb n⟩) :
    opContractAnyNodeEnvironmentButOne next n1 (T.fresh (n1.nbrs.map mkK ++ [y])) nO
        (T.fresh (nO.nbrs.map mkO ++ [zo, zi])) cache nB (T.fresh (nB.nbrs.map mkB ++ [z])) g f =
      some ⟨[mkK next, mkO (g next), mkB (f next)],
            if n1.isLeaf then [(zo, z), (y, zi)]
            else ((n1.nbrs.filter (· ≠ next)).flatMap (fun n => bb n ++ [(mkK n, a n)]) ++
                  ((n1.nbrs.filter (· ≠ next)).map (fun n => (o n, mkO (g n))) ++ [(y, zi)])) ++
                 ((n1.nbrs.filter (· ≠ next)).map (fun n => (b n, mkB (f n))) ++ [(zo, z)])⟩ := by
  unfold opContractAnyNodeEnvironmentButOne
  by_cases hleaf : n1.isLeaf = true
  · rw [if_pos hleaf, if_pos hleaf]
    obtain ⟨p1, c1⟩ := n1
    obtain ⟨pO, cO⟩ := nO
    obtain ⟨pB, cB⟩ := nB
    simp only [Node.isLeaf, List.isEmpty_iff] at hleaf
    subst hleaf
    cases p1 with
    | none => simp [Node.nbrs] at hnext
    | some p =>
      simp only [Node.nbrs, Option.toList_some, List.append_nil, List.mem_singleton] at hnext
      subst hnext
      simp only [Option.map_some] at hparO hparB
      subst hparO; subst hparB
      have hcO : cO = [] := by
        have := hpermO.length_eq
        simpa [Node.nbrs] using this
      have hcB : cB = [] := by
        have := hpermB.length_eq
        simpa [Node.nbrs] using this
      subst hcO; subst hcB
      have := opContractLeaf_general next (g next) (f next) (mkK next) y (mkO (g next)) zo zi (mkB (f next)) z
      simpa [Node.nbrs] using this
  · rw [if_neg hleaf, if_neg hleaf]
    have h1 := allButOne_general 0 mkK (fun n => ⟨[a n, o n, b n], bb n⟩) a [y] cache n1 next hK hnext
      (fun n hn hne => ⟨hcache n hn hne, by simp⟩)
    simp only [List.eraseIdx_cons_zero] at h1
    simp only [opContractSubtreesUsingDictionary, contractAllButOneNeighbourBlockToKet, h1, List.cons_append,
      List.nil_append]
    have h2 := opTensor_general (mkK next) y zo zi o b mkO n1 nO next g
      ((n1.nbrs.filter (· ≠ next)).flatMap (fun n => bb n ++ [(mkK n, a n)])) hK hO hnext hpermO
    simp only [List.cons_append, List.nil_append] at h2
    rw [h2]
    have h3 := braTensor_general (mkK next) zo z b mkB n1 nB next f (mkO (g next))
      ((n1.nbrs.filter (· ≠ next)).flatMap (fun n => bb n ++ [(mkK n, a n)]) ++
        ((n1.nbrs.filter (· ≠ next)).map (fun n => (o n, mkO (g n))) ++ [(y, zi)])) hK hB hnext hpermB
    simp only [List.cons_append, List.nil_append, List.append_assoc] at h3 ⊢
    exact h3

/-! ### the dictionary -/

theorem Dict.deleteAll_spec (d : Dict) (keys : List (Nat × Nat)) (hnd : keys.Nodup)
    (hpres : ∀ k ∈ keys, (d k).isSome) :
    ∃ d', d.deleteAll keys = some d' ∧ ∀ k, d' k = if k ∈ keys then none else d k := by
  induction keys generalizing d with
  | nil => exact ⟨d, rfl, by simp⟩
  | cons k ks ih =>
    rw [List.nodup_cons] at hnd
    have hk : (d k).isSome := hpres k (by simp)
    obtain ⟨d', h1, h2⟩ := ih (fun k' => if k' = k then none else d k') hnd.2
      (fun k' hk' => by
        have : k' ≠ k := fun e => hnd.1 (e ▸ hk')
        simp only [this, if_false]
        exact hpres k' (by simp [hk']))
    refine ⟨d', by simp [Dict.deleteAll, Dict.delete, hk, h1], fun k' => ?_⟩
    rw [h2 k']
    by_cases e : k' = k
    · subst e; simp
    · by_cases m : k' ∈ ks <;> simp [e, m]

/-! ### the node table of `netOf` -/

mutual
theorem Tree.info_keys (p : Option Nat) : ∀ t : Tree, (Tree.info p t).map (·.1) = t.ids
  | .node i ks => by simp [Tree.info, Tree.ids, Tree.infoL_keys i ks]
theorem Tree.infoL_keys (p : Nat) : ∀ ts : List Tree, (Tree.infoL p ts).map (·.1) = Tree.idsL ts
  | [] => by simp [Tree.infoL, Tree.idsL]
  | t :: ts => by simp [Tree.infoL, Tree.idsL, Tree.info_keys (some p) t, Tree.infoL_keys p ts]
end

theorem find?_of_nodup_keys {β : Type} (l : List (Nat × β)) (hnd : (l.map (·.1)).Nodup) (e : Nat × β)
    (he : e ∈ l) : l.find? (·.1 == e.1) = some e := by
  induction l with
  | nil => simp at he
  | cons x xs ih =>
    simp only [List.map_cons, List.nodup_cons] at hnd
    simp only [List.mem_cons] at he
    rcases he with rfl | he
    · simp
    · have hne : x.1 ≠ e.1 := fun h => hnd.1 (h ▸ List.mem_map.2 ⟨e, he, rfl⟩)
      have hb : (x.1 == e.1) = false := by simpa using hne
      simp [hb, ih hnd.2 he]

theorem netOf_node (t : Tree) (childOrder : Nat → List Nat → List Nat) (mkT : Nat → Node → T)
    (hnd : t.ids.Nodup) (e : Nat × Option Nat × List Nat) (he : e ∈ Tree.info none t) :
    (netOf t childOrder mkT).node e.1 = some ⟨e.2.1, childOrder e.1 e.2.2⟩ ∧
    (netOf t childOrder mkT).tensor e.1 = some (mkT e.1 ⟨e.2.1, childOrder e.1 e.2.2⟩) := by
  have hkeys : (((Tree.info none t).map fun e => (e.1, (⟨e.2.1, childOrder e.1 e.2.2⟩ : Node))).map (·.1)).Nodup := by
    rw [List.map_map]
    have : ((fun x : Nat × Node => x.1) ∘ fun e : Nat × Option Nat × List Nat =>
        (e.1, (⟨e.2.1, childOrder e.1 e.2.2⟩ : Node))) = (·.1) := rfl
    rw [this, Tree.info_keys]; exact hnd
  have := find?_of_nodup_keys _ hkeys (e.1, (⟨e.2.1, childOrder e.1 e.2.2⟩ : Node))
    (List.mem_map.2 ⟨e, he, rfl⟩)
  simp only at this
  simp only [netOf, this, Option.map_some, and_self]

end Ptn.C04
