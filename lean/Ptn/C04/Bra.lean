import Ptn.C04.Loops
/-! The final `tensordot` with the bra tensor: `contract_bra_to_ket_and_blocks(_ignore_one_leg)`. -/
namespace Ptn.C04

theorem idxOf_inj {l : List Nat} {x y : Nat} (hx : x ∈ l) (hy : y ∈ l) (h : l.idxOf x = l.idxOf y) : x = y := by
  have h1 := getElem?_idxOf hx
  have h2 := getElem?_idxOf hy
  rw [h] at h1
  rw [h1] at h2
  exact Option.some.inj h2

theorem nodup_map_of_inj_on {β : Type} (l : List Nat) (g : Nat → β) (hl : l.Nodup)
    (hg : ∀ x ∈ l, ∀ y ∈ l, g x = g y → x = y) : (l.map g).Nodup := by
  induction l with
  | nil => simp
  | cons a as ih =>
    rw [List.nodup_cons] at hl
    simp only [List.map_cons, List.nodup_cons, List.mem_map, not_exists, not_and]
    refine ⟨fun x hx e => ?_, ih hl.2 (fun x hx y hy => hg x (by simp [hx]) y (by simp [hy]))⟩
    have := hg x (by simp [hx]) a (by simp) e
    exact hl.1 (this ▸ hx)

theorem inj_on_of_nodup_map {β : Type} (l : List Nat) (g : Nat → β) (h : (l.map g).Nodup) :
    ∀ x ∈ l, ∀ y ∈ l, g x = g y → x = y := by
  induction l with
  | nil => simp
  | cons a as ih =>
    simp only [List.map_cons, List.nodup_cons, List.mem_map, not_exists, not_and] at h
    intro x hx y hy e
    simp only [List.mem_cons] at hx hy
    rcases hx with rfl | hx <;> rcases hy with rfl | hy
    · rfl
    · exact absurd e.symm (h.1 y hy)
    · exact absurd e (h.1 x hx)
    · exact ih h.2 x hx y hy e

theorem zip_map_same {β γ : Type} (l : List Nat) (g : Nat → β) (h : Nat → γ) :
    (l.map g).zip (l.map h) = l.map (fun n => (g n, h n)) := by
  induction l with
  | nil => rfl
  | cons a as ih => simp [ih]

theorem nodup_filter {l : List Nat} (p : Nat → Bool) (h : l.Nodup) : (l.filter p).Nodup :=
  h.sublist List.filter_sublist

/-- position of a block leg in the tensor returned by `contract_all_but_one_neighbour_block_to_ket` -/
theorem blockPos (A B : List Nat) (next n : Nat) (hnd : (A ++ next :: B).Nodup) (hn : n ∈ A ++ B) :
    (A ++ next :: B).idxOf n + 1 + (if A.length > (A ++ next :: B).idxOf n then 1 else 0)
      = (A ++ B).idxOf n + 2 := by
  obtain ⟨hxA, hxB, _, _, hd⟩ := nodup_mid hnd
  by_cases hA : n ∈ A
  · have hlt := List.idxOf_lt_length_of_mem hA
    simp only [List.idxOf_append, hA, if_true]
    simp [hlt]
  · have hB : n ∈ B := by simpa [hA] using hn
    have hne' : next ≠ n := fun e => hxB (e ▸ hB)
    have hne : (next == n) = false := by simpa using hne'
    simp only [List.idxOf_append, hA, if_false, List.idxOf_cons, hne, cond_false]
    have : ¬ A.length > B.idxOf n + 1 + A.length := by omega
    simp only [this, if_false]
    omega

/-- the loop of `contract_bra_to_ket_and_blocks_ignore_one_leg` -/
theorem braIgnoreLoop_eq (braNode ketNode : Node) (next nextIdx : Nat) (f : Trafo) (seg : List Nat)
    (h : ∀ n ∈ seg, n ∈ ketNode.nbrs ∧ f n ∈ braNode.nbrs) :
    braIgnoreLoop braNode ketNode next nextIdx f seg =
      some ((seg.filter (· ≠ next)).map
              (fun n => ketNode.nbrs.idxOf n + 1 + (if nextIdx > ketNode.nbrs.idxOf n then 1 else 0)),
            (seg.filter (· ≠ next)).map (fun n => braNode.nbrs.idxOf (f n))) := by
  induction seg with
  | nil => simp [braIgnoreLoop]
  | cons n rest ih =>
    obtain ⟨hk, hb⟩ := h n (by simp)
    have ih' := ih (fun m hm => h m (by simp [hm]))
    simp only [braIgnoreLoop, ih', Node.neighbourIndex_of_mem _ _ hk, Node.neighbourIndex_of_mem _ _ hb]
    by_cases hne : n = next
    · simp [hne]
    · simp [hne]

theorem getElem?_two_add (x y : Leg) (l : List Leg) (i : Nat) : (x :: y :: l)[i + 2]? = l[i]? := by
  simp

theorem getElem?_map_idxOf {l : List Nat} {n : Nat} (g : Nat → Leg) (tail : List Leg) (h : n ∈ l) :
    (l.map g ++ tail)[l.idxOf n]? = some (g n) := by
  have hlt := List.idxOf_lt_length_of_mem h
  rw [List.getElem?_append_left (by simpa using hlt)]
  simp [getElem?_idxOf h]

/-- `contract_bra_to_ket_and_blocks_ignore_one_leg` on the tensor delivered by
`contract_all_but_one_neighbour_block_to_ket` (two-layer blocks) -/
theorem braIgnore_general (x y z : Leg) (q mkB : Nat → Leg) (ketNode braNode : Node) (next : Nat) (f : Trafo)
    (bs : List (Leg × Leg))
    (hK : ketNode.nbrs.Nodup) (hB : braNode.nbrs.Nodup) (hnext : next ∈ ketNode.nbrs)
    (hperm : braNode.nbrs.Perm (ketNode.nbrs.map f)) :
    contractBraToKetAndBlocksIgnoreOneLeg (T.fresh (braNode.nbrs.map mkB ++ [z]))
        ⟨[x, y] ++ (ketNode.nbrs.filter (· ≠ next)).map q, bs⟩
        braNode ketNode next f =
      some ⟨[x, mkB (f next)],
            bs ++ ((ketNode.nbrs.filter (· ≠ next)).map (fun n => (q n, mkB (f n)))
                    ++ [(y, z)])⟩ := by
  -- consequences of the permutation hypothesis
  have hmemB : ∀ n ∈ ketNode.nbrs, f n ∈ braNode.nbrs := fun n hn =>
    hperm.mem_iff.2 (List.mem_map.2 ⟨n, hn, rfl⟩)
  have hsurj : ∀ b ∈ braNode.nbrs, ∃ n ∈ ketNode.nbrs, f n = b := fun b hb =>
    List.mem_map.1 (hperm.mem_iff.1 hb)
  have hinj := inj_on_of_nodup_map ketNode.nbrs f (hperm.nodup_iff.1 hB)
  obtain ⟨A, B, hL⟩ := List.append_of_mem hnext
  have hK' := hK
  rw [hL] at hK'
  obtain ⟨hxA, hxB, _, _, _⟩ := nodup_mid hK'
  have hF : ketNode.nbrs.filter (· ≠ next) = A ++ B := by rw [hL]; exact filter_ne_mid A B next hxA hxB
  have hFnd : (A ++ B).Nodup := by rw [← hF]; exact nodup_filter _ hK
  have hFmem : ∀ n, n ∈ A ++ B ↔ (n ∈ ketNode.nbrs ∧ n ≠ next) := by
    intro n; rw [← hF]; simp
  have hnextIdx : ketNode.neighbourIndex next = some A.length := by
    rw [Node.neighbourIndex_of_mem _ _ hnext, hL, idxOf_append_mid A B next hxA]
  -- the two index lists
  have hloop := braIgnoreLoop_eq braNode ketNode next A.length f ketNode.nbrs
    (fun n hn => ⟨hn, hmemB n hn⟩)
  rw [hF] at hloop
  have hpos : (A ++ B).map (fun n => ketNode.nbrs.idxOf n + 1 + (if A.length > ketNode.nbrs.idxOf n then 1 else 0))
      = (A ++ B).map (fun n => (A ++ B).idxOf n + 2) := by
    apply List.map_congr_left
    intro n hn
    rw [hL]
    exact blockPos A B next n hK' hn
  rw [hpos] at hloop
  clear hpos
  simp only [contractBraToKetAndBlocksIgnoreOneLeg, hnextIdx, hloop, hF]
  clear hloop
  generalize A ++ B = F at hF hFnd hFmem ⊢
  -- legs picked on both sides
  have pa : pick ([x, y] ++ F.map q)
      (F.map (fun n => F.idxOf n + 2) ++ [1]) = some (F.map q ++ [y]) := by
    apply pick_append
    · apply pick_map
      intro n hn
      have := getElem?_map_idxOf q [] hn
      simpa using this
    · exact pick_single _ _ _ (by simp)
  have pb : pick (T.fresh (braNode.nbrs.map mkB ++ [z])).legs (F.map (fun n => braNode.nbrs.idxOf (f n)) ++ [braNode.nn])
      = some (F.map (fun n => mkB (f n)) ++ [z]) := by
    apply pick_append
    · apply pick_map
      intro n hn
      exact getElem?_map_idxOf mkB [z] (hmemB n ((hFmem n).1 hn).1)
    · apply pick_single
      simp [T.fresh, Node.nn_eq]
  have nda : (F.map (fun n => F.idxOf n + 2) ++ [1]).Nodup := by
    rw [List.nodup_append]
    refine ⟨nodup_map_of_inj_on _ _ hFnd (fun x hx y hy e => idxOf_inj hx hy (by omega)), by simp, ?_⟩
    intro a ha b hb
    simp only [List.mem_map] at ha
    obtain ⟨n, _, rfl⟩ := ha
    simp only [List.mem_singleton] at hb
    omega
  have ndb : (F.map (fun n => braNode.nbrs.idxOf (f n)) ++ [braNode.nn]).Nodup := by
    rw [List.nodup_append]
    refine ⟨nodup_map_of_inj_on _ _ hFnd (fun x hx y hy e => ?_), by simp, ?_⟩
    · have hx' := ((hFmem x).1 hx).1
      have hy' := ((hFmem y).1 hy).1
      exact hinj x hx' y hy' (idxOf_inj (hmemB x hx') (hmemB y hy') e)
    · intro a ha b hb
      simp only [List.mem_map] at ha
      obtain ⟨n, hn, rfl⟩ := ha
      simp only [List.mem_singleton] at hb
      have := List.idxOf_lt_length_of_mem (hmemB n ((hFmem n).1 hn).1)
      rw [Node.nn_eq] at hb
      omega
  rw [tensordot_eq _ _ _ _ _ _ (by simp) nda ndb pa pb]
  -- remaining legs
  have ra : remaining (F.map (fun n => F.idxOf n + 2) ++ [1]) 0
      ([x, y] ++ F.map q) = [x] := by
    rw [remaining_singleton _ 0 _ 0 (by simp)]
    · simp
    · intro i hi hne
      simp only [Nat.zero_add, List.mem_append, List.mem_map, List.mem_singleton]
      by_cases h1 : i = 1
      · exact Or.inr h1
      · left
        have hi2 : i - 2 < F.length := by simp at hi; omega
        refine ⟨F[i - 2], List.getElem_mem hi2, ?_⟩
        rw [hFnd.idxOf_getElem]
        omega
    · simp
  have rb : remaining (F.map (fun n => braNode.nbrs.idxOf (f n)) ++ [braNode.nn]) 0 (T.fresh (braNode.nbrs.map mkB ++ [z])).legs
      = [mkB (f next)] := by
    have hj := List.idxOf_lt_length_of_mem (hmemB next hnext)
    rw [remaining_singleton _ 0 _ (braNode.nbrs.idxOf (f next)) (by simp [T.fresh]; omega)]
    · have := getElem?_map_idxOf mkB [z] (hmemB next hnext)
      rw [List.getElem?_eq_getElem (by simp; omega)] at this
      simpa [T.fresh] using this
    · intro i hi hne
      simp only [Nat.zero_add, List.mem_append, List.mem_map, List.mem_singleton]
      simp only [T.fresh, List.length_append, List.length_map, List.length_cons, List.length_nil] at hi
      by_cases h1 : i = braNode.nbrs.length
      · right; rw [Node.nn_eq]; exact h1
      · left
        have hi2 : i < braNode.nbrs.length := by omega
        obtain ⟨n, hn, hfn⟩ := hsurj _ (List.getElem_mem hi2)
        have hidx : braNode.nbrs.idxOf (f n) = i := by rw [hfn]; exact hB.idxOf_getElem i hi2
        refine ⟨n, (hFmem n).2 ⟨hn, fun e => hne ?_⟩, hidx⟩
        rw [← hidx, e]
    · simp only [Nat.zero_add, List.mem_append, List.mem_map, List.mem_singleton, not_or, not_exists, not_and]
      refine ⟨fun n hn e => ?_, by rw [Node.nn_eq]; omega⟩
      have hn' := (hFmem n).1 hn
      exact hn'.2 (hinj n hn'.1 next hnext (idxOf_inj (hmemB n hn'.1) (hmemB next hnext) e))
  rw [ra, rb, List.zip_append (by simp), zip_map_same]
  simp [T.fresh]

end Ptn.C04
