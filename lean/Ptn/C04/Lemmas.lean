import Ptn.C04.Model
/-! Helper lemmas for C04: `remaining` / `pick` / `tensordot`, neighbour indices as list positions. -/
namespace Ptn.C04

/-! ### remaining -/

theorem remaining_none (idx : List Nat) (k : Nat) (l : List Leg) (h : ∀ j ∈ idx, j < k) :
    remaining idx k l = l := by
  induction l generalizing k with
  | nil => rfl
  | cons x xs ih =>
    have hk : idx.contains k = false := by
      cases hc : idx.contains k with
      | false => rfl
      | true =>
        have := h k (by simpa using hc)
        omega
    simp only [remaining, hk]
    rw [ih (k + 1) (fun j hj => by have := h j hj; omega)]
    simp

theorem remaining_all (idx : List Nat) (k : Nat) (l : List Leg) (h : ∀ i, i < l.length → k + i ∈ idx) :
    remaining idx k l = [] := by
  induction l generalizing k with
  | nil => rfl
  | cons x xs ih =>
    have hk : idx.contains k = true := by simpa using h 0 (by simp)
    simp only [remaining, hk, if_true]
    apply ih
    intro i hi
    have := h (i + 1) (by simpa using hi)
    simpa [Nat.add_assoc, Nat.add_comm 1 i] using this

theorem remaining_singleton (idx : List Nat) (k : Nat) (l : List Leg) (j : Nat) (hj : j < l.length)
    (hin : ∀ i, i < l.length → i ≠ j → k + i ∈ idx) (hout : k + j ∉ idx) :
    remaining idx k l = [l[j]] := by
  induction l generalizing k j with
  | nil => simp at hj
  | cons x xs ih =>
    cases j with
    | zero =>
      have hk : idx.contains k = false := by
        cases hc : idx.contains k with
        | false => rfl
        | true => exact absurd (by simpa using hc) hout
      simp only [remaining, hk]
      rw [remaining_all]
      · simp
      · intro i hi
        have := hin (i + 1) (by simpa using hi) (by omega)
        simpa [Nat.add_assoc, Nat.add_comm 1 i] using this
    | succ j =>
      have hk : idx.contains k = true := by simpa using hin 0 (by simp) (by omega)
      simp only [remaining, hk, if_true]
      rw [ih (k + 1) j (by simpa using hj)]
      · simp
      · intro i hi hne
        have := hin (i + 1) (by simpa using hi) (by omega)
        simpa [Nat.add_assoc, Nat.add_comm 1 i] using this
      · simpa [Nat.add_assoc, Nat.add_comm 1 j] using hout

theorem remaining_single (k i : Nat) (l : List Leg) : remaining [k + i] k l = l.eraseIdx i := by
  induction l generalizing k i with
  | nil => rfl
  | cons x xs ih =>
    cases i with
    | zero =>
      simp only [remaining, Nat.add_zero, List.contains_cons, beq_self_eq_true, Bool.true_or, if_true,
        List.eraseIdx_cons_zero]
      exact remaining_none _ _ _ (by simp)
    | succ i =>
      have hk : [k + (i + 1)].contains k = false := by simp
      simp only [remaining, hk, List.eraseIdx_cons_succ]
      have : k + (i + 1) = (k + 1) + i := by omega
      rw [this, ih]
      simp

/-! ### pick -/

theorem pick_map {β : Type} (l : List Leg) (xs : List β) (g : β → Nat) (h : β → Leg)
    (hx : ∀ x ∈ xs, l[g x]? = some (h x)) : pick l (xs.map g) = some (xs.map h) := by
  induction xs with
  | nil => rfl
  | cons x xs ih =>
    simp only [List.map_cons, pick, hx x (by simp), ih (fun y hy => hx y (by simp [hy]))]

theorem pick_append (l : List Leg) (a b : List Nat) (x y : List Leg) (ha : pick l a = some x)
    (hb : pick l b = some y) : pick l (a ++ b) = some (x ++ y) := by
  induction a generalizing x with
  | nil => simp [pick] at ha; subst ha; simpa using hb
  | cons i is ih =>
    simp only [pick] at ha
    split at ha
    · rename_i v vs hv hvs
      simp only [Option.some.injEq] at ha
      subst ha
      simp only [List.cons_append, pick, hv, ih vs hvs]
    · simp at ha

theorem pick_single (l : List Leg) (i : Nat) (x : Leg) (h : l[i]? = some x) : pick l [i] = some [x] := by
  simp [pick, h]

/-! ### tensordot -/

theorem tensordot_eq (a b : T) (ia ib : List Nat) (la lb : List Leg) (hlen : ia.length = ib.length)
    (ha : ia.Nodup) (hb : ib.Nodup) (pa : pick a.legs ia = some la) (pb : pick b.legs ib = some lb) :
    tensordot a b ia ib =
      some ⟨remaining ia 0 a.legs ++ remaining ib 0 b.legs, a.binds ++ b.binds ++ la.zip lb⟩ := by
  simp [tensordot, hlen, ha, hb, pa, pb]

theorem tensordot_one (a b : T) (i j : Nat) (x y : Leg) (hx : a.legs[i]? = some x) (hy : b.legs[j]? = some y) :
    tensordot a b [i] [j] =
      some ⟨a.legs.eraseIdx i ++ b.legs.eraseIdx j, a.binds ++ b.binds ++ [(x, y)]⟩ := by
  rw [tensordot_eq a b [i] [j] [x] [y] rfl (by simp) (by simp) (pick_single _ _ _ hx) (pick_single _ _ _ hy)]
  have h1 := remaining_single 0 i a.legs
  have h2 := remaining_single 0 j b.legs
  simp only [Nat.zero_add] at h1 h2
  simp [h1, h2]

/-! ### nodes: neighbour indices are positions in `nbrs` -/

theorem Node.nn_eq (nd : Node) : nd.nn = nd.nbrs.length := by
  cases nd with
  | mk p c => cases p <;> simp [Node.nn, Node.nbrs, Node.nparents] <;> omega

theorem Node.neighbourIndex_eq (nd : Node) (n : Nat) :
    nd.neighbourIndex n = if n ∈ nd.nbrs then some (nd.nbrs.idxOf n) else none := by
  cases nd with
  | mk p c =>
    cases p with
    | none => by_cases hc : n ∈ c <;> simp [Node.neighbourIndex, Node.nbrs, Node.nparents, hc]
    | some q =>
      simp only [Node.neighbourIndex, Node.nbrs, Node.nparents, Option.some.injEq, Option.toList_some,
        List.singleton_append, List.mem_cons, Option.isSome_some, if_true]
      by_cases h : q = n
      · subst h; simp
      · have h' : ¬ n = q := fun e => h e.symm
        simp only [h, h', if_false, false_or]
        by_cases hc : n ∈ c
        · have hb : (q == n) = false := by simpa using h
          simp [hc, List.idxOf_cons, hb]
        · simp [hc]

theorem Node.neighbourIndex_of_mem (nd : Node) (n : Nat) (h : n ∈ nd.nbrs) :
    nd.neighbourIndex n = some (nd.nbrs.idxOf n) := by
  simp [Node.neighbourIndex_eq, h]

theorem Node.neighbourIndex_of_not_mem (nd : Node) (n : Nat) (h : n ∉ nd.nbrs) :
    nd.neighbourIndex n = none := by
  simp [Node.neighbourIndex_eq, h]

/-! ### list positions -/

theorem idxOf_append_mid (A B : List Nat) (x : Nat) (h : x ∉ A) : (A ++ x :: B).idxOf x = A.length := by
  simp [List.idxOf_append, h]

theorem getElem?_idxOf {l : List Nat} {n : Nat} (h : n ∈ l) : l[l.idxOf n]? = some n := by
  have hlt := List.idxOf_lt_length_of_mem h
  rw [List.getElem?_eq_getElem hlt]
  simp

theorem eraseIdx_append_mid (P Q : List Leg) (x : Leg) : (P ++ x :: Q).eraseIdx P.length = P ++ Q := by
  induction P with
  | nil => rfl
  | cons p ps ih => simp [ih]

theorem getElem?_append_mid (P Q : List Leg) (x : Leg) : (P ++ x :: Q)[P.length]? = some x := by
  simp

theorem flatMap_single {α β : Type} (l : List α) (g : α → β) : l.flatMap (fun n => [g n]) = l.map g := by
  induction l with
  | nil => rfl
  | cons a as ih => simp [List.flatMap_cons, ih]

end Ptn.C04
