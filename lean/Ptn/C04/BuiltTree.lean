import Ptn.C04.BuiltFns
import Ptn.C04.GraphSS
import Ptn.C04.GraphSO
import Ptn.C04.GraphCC
/-! "Inputs built ⟹ output built" for the functions of `TreeModel.lean` (dictionary, loop step, root step), and
the composition along the tree: the tensor that `contract_two_ttns` / `expectation_value` / `as_matrix`
returns is built from exactly the node tensors of the networks. -/
namespace Ptn.C04

open Ptn.Ein

variable {R : Type}

/-! ### the dictionary only forgets -/

theorem Dict.delete_some {d d1 : Dict} {k0 k : Nat × Nat} {v : T} (h : d.delete k0 = some d1)
    (hk : d1 k = some v) : d k = some v := by
  unfold Dict.delete at h
  split at h
  · simp only [Option.some.injEq] at h
    subst h
    by_cases e : k = k0
    · simp [e] at hk
    · simpa [e] using hk
  · simp at h

theorem Dict.deleteAll_some : ∀ (keys : List (Nat × Nat)) {d d' : Dict} {k : Nat × Nat} {v : T},
    d.deleteAll keys = some d' → d' k = some v → d k = some v
  | [], d, d', k, v, h, hk => by
    simp only [Dict.deleteAll, Option.some.injEq] at h
    subst h; exact hk
  | k0 :: ks, d, d', k, v, h, hk => by
    unfold Dict.deleteAll at h
    split at h
    · simp at h
    · rename_i d1 hd1
      exact Dict.delete_some hd1 (Dict.deleteAll_some ks h hk)

/-! ### leaves of a tree of tensors -/

mutual
/-- the leaf tensors of a (sub)tree: `nodeLeaves i parent kids` for every node -/
def treeLeaves (nl : Nat → Option Nat → List Nat → List (LeafT R)) (p : Option Nat) : Tree → List (LeafT R)
  | .node i ks => nl i p (ks.map Tree.id) ++ treeLeavesL nl i ks
def treeLeavesL (nl : Nat → Option Nat → List Nat → List (LeafT R)) (i : Nat) : List Tree → List (LeafT R)
  | [] => []
  | c :: cs => treeLeaves nl (some i) c ++ treeLeavesL nl i cs
end

/-- the leaves of the kid with identifier `n` -/
def lvOf (f : Tree → List (LeafT R)) (ts : List Tree) (n : Nat) : List (LeafT R) :=
  ((ts.find? (fun c => c.id == n)).map f).getD []

theorem lvOf_flatMap (f : Tree → List (LeafT R)) : ∀ (ts : List Tree), (ts.map Tree.id).Nodup →
    (ts.map Tree.id).flatMap (lvOf f ts) = ts.flatMap f
  | [], _ => rfl
  | c :: cs, hnd => by
    simp only [List.map_cons, List.nodup_cons] at hnd
    have ih := lvOf_flatMap f cs hnd.2
    have hhead : lvOf f (c :: cs) c.id = f c := by simp [lvOf]
    have htail : (cs.map Tree.id).flatMap (lvOf f (c :: cs)) = (cs.map Tree.id).flatMap (lvOf f cs) := by
      apply flatMap_congr'
      intro n hn
      have hne : c.id ≠ n := fun e => hnd.1 (e ▸ hn)
      have hb : (c.id == n) = false := by simpa using hne
      simp [lvOf, hb]
    simp only [List.map_cons, List.flatMap_cons, hhead, htail, ih]

theorem treeLeavesL_eq (nl : Nat → Option Nat → List Nat → List (LeafT R)) (i : Nat) :
    ∀ ts : List Tree, treeLeavesL nl i ts = ts.flatMap (treeLeaves nl (some i))
  | [] => rfl
  | c :: cs => by simp [treeLeavesL, treeLeavesL_eq nl i cs]

/-- a block found in the kid table is the block of a kid -/
theorem find_kid {ts : List Tree} {n : Nat} {c : Tree} (h : ts.find? (fun c => c.id == n) = some c) :
    c ∈ ts ∧ c.id = n :=
  ⟨List.mem_of_find?_eq_some h, by simpa using List.find?_some h⟩

/-! ### contract_two_ttns -/

theorem ssContractAny_built {s1 s2 : Net} {d : Dict} {i next : Nat} {r : T} {l1 l2 : List (LeafT R)}
    {lv : Nat → List (LeafT R)} (h : ssContractAny i next s1 s2 d = some r)
    (h1 : ∀ t1, s1.tensor i = some t1 → BuiltL t1 l1) (h2 : ∀ t2, s2.tensor i = some t2 → BuiltL t2 l2)
    (hc : ∀ n1, s1.node i = some n1 → ∀ n ∈ n1.nbrs, n ≠ next → ∀ blk, d (n, i) = some blk → BuiltL blk (lv n)) :
    ∃ n1, s1.node i = some n1 ∧
      BuiltL r ((l1 ++ (if n1.isLeaf then [] else (n1.nbrs.filter (· ≠ next)).flatMap lv)) ++ l2) := by
  unfold ssContractAny at h
  split at h
  · rename_i n1 t1 n2 t2 hn1 ht1 hn2 ht2
    exact ⟨n1, hn1, contractAnyNodes_built h (h1 t1 ht1) (h2 t2 ht2) (hc n1 hn1)⟩
  · simp at h

/-- one iteration of the loop: the new entry is built from the node's two tensors and the blocks of its
children; every other entry was there before -/
theorem ssStep_built {s1 s2 : Net} {d d' : Dict} {i : Nat} {l1 l2 : List (LeafT R)} {lv : Nat → List (LeafT R)}
    (h : ssStep s1 s2 d i = some d')
    (h1 : ∀ t1, s1.tensor i = some t1 → BuiltL t1 l1) (h2 : ∀ t2, s2.tensor i = some t2 → BuiltL t2 l2)
    (hc : ∀ n1, s1.node i = some n1 → ∀ p, n1.parent = some p → ∀ n ∈ n1.nbrs, n ≠ p →
      ∀ blk, d (n, i) = some blk → BuiltL blk (lv n)) :
    ∃ n1 p, s1.node i = some n1 ∧ n1.parent = some p ∧ ∀ k blk, d' k = some blk →
      (k = (i, p) ∧
        BuiltL blk ((l1 ++ (if n1.isLeaf then [] else (n1.nbrs.filter (· ≠ p)).flatMap lv)) ++ l2)) ∨
      (k ≠ (i, p) ∧ d k = some blk) := by
  unfold ssStep at h
  split at h
  · simp at h
  · rename_i node hnode
    split at h
    · simp at h
    · rename_i p hp
      split at h
      · simp at h
      · rename_i block hblock
        obtain ⟨n1, hn1, hb⟩ := ssContractAny_built hblock h1 h2 (fun n1 hn1 => hc n1 hn1 p (by
          rw [hnode] at hn1; simp only [Option.some.injEq] at hn1; subst hn1; exact hp))
        rw [hnode] at hn1; simp only [Option.some.injEq] at hn1; subst hn1
        refine ⟨node, p, hnode, hp, fun k blk hk => ?_⟩
        have := Dict.deleteAll_some _ h hk
        unfold Dict.add at this
        by_cases e : k = (i, p)
        · rw [if_pos e] at this
          simp only [Option.some.injEq] at this
          subst this
          exact Or.inl ⟨e, hb⟩
        · rw [if_neg e] at this
          exact Or.inr ⟨e, this⟩

theorem ssContractNodeWithEnvironment_built {s1 s2 : Net} {d : Dict} {i : Nat} {r : T} {l1 l2 : List (LeafT R)}
    {lv : Nat → List (LeafT R)} (h : ssContractNodeWithEnvironment i s1 s2 d = some r)
    (h1 : ∀ t1, s1.tensor i = some t1 → BuiltL t1 l1) (h2 : ∀ t2, s2.tensor i = some t2 → BuiltL t2 l2)
    (hc : ∀ n1, s1.node i = some n1 → ∀ n ∈ n1.nbrs, ∀ blk, d (n, i) = some blk → BuiltL blk (lv n)) :
    ∃ n1, s1.node i = some n1 ∧ BuiltL r ((l1 ++ n1.nbrs.flatMap lv) ++ l2) := by
  unfold ssContractNodeWithEnvironment at h
  split at h
  · rename_i n1 t1 n2 t2 hn1 ht1 hn2 ht2
    exact ⟨n1, hn1, contractNodeWithEnvironmentNodes_built h (h1 t1 ht1) (h2 t2 ht2) (hc n1 hn1)⟩
  · simp at h

/-- `contract_two_ttns` is the loop followed by the root step -/
theorem contractTwoTtns_some {s1 s2 : Net} {r : T} (h : contractTwoTtns s1 s2 = some r) :
    ∃ d, ssLoop s1 s2 s1.order.dropLast Dict.empty = some d ∧
      ssContractNodeWithEnvironment s1.root s1 s2 d = some r := by
  unfold contractTwoTtns at h
  simp only at h
  split at h
  · simp at h
  · split at h
    · simp at h
    · rename_i d hd
      exact ⟨d, hd, h⟩

section ss
variable (s1 s2 : Net) (braKids : Nat → List Nat) (kv bv : Nat → Asg Leg → R)

/-- the two node tensors of node `i`: the ket tensor with the ket's child order, the bra tensor with the bra's -/
def ssNodeLeaves (i : Nat) (p : Option Nat) (kids : List Nat) : List (LeafT R) :=
  [((gKetT i ⟨p, kids⟩).legs, kv i), ((gBraT i ⟨p, braKids i⟩).legs, bv i)]

/-- all node tensors of the two networks -/
def ssLeaves (p : Option Nat) (t : Tree) : List (LeafT R) := treeLeaves (ssNodeLeaves braKids kv bv) p t

mutual
/-- **every cached block is built from the tensors of its subtree** (the blocks are those of `ssLoop_subtree`) -/
theorem ssBlock_built : ∀ (t : Tree) (p : Nat), t.ids.Nodup → p ∉ t.ids →
    Rep s1 s2 braKids (Tree.info (some p) t) → BuiltL (ssBlock t p) (ssLeaves braKids kv bv (some p) t)
  | .node i ks, p, hnd, hp, hrep => by
    have hnd' := hnd
    simp only [Tree.ids, List.nodup_cons] at hnd'
    have hp' := hp
    simp only [Tree.ids, List.mem_cons, not_or] at hp'
    have hkids := ssBlock_builtL ks i hnd'.2 hnd'.1 (fun e he => hrep e (by simp [Tree.info, he]))
    obtain ⟨df, _, hf2⟩ := ssLoop_forest s1 s2 braKids ks i Dict.empty hnd'.2 hnd'.1
      (fun e he => hrep e (by simp [Tree.info, he])) (fun _ _ _ => rfl)
    have hrep1 : Rep s1 s2 braKids [(i, some p, ks.map Tree.id)] := by
      intro e he
      simp only [List.mem_singleton] at he
      subst he
      exact hrep _ (by simp [Tree.info])
    obtain ⟨d', hs1, hs2⟩ := ssStep_node s1 s2 braKids i p ks df hnd hp hrep1
      (fun n hn => by rw [hf2 (n, i), kidBlock_of_mem ks i n hn])
    obtain ⟨h1, h2, h3, h4, hperm⟩ := hrep1 (i, some p, ks.map Tree.id) (by simp)
    simp only at h1 h2 h3 h4 hperm
    have hkn : (ks.map Tree.id).Nodup := Tree.nodup_kid_ids ks hnd'.2
    have hpk : p ∉ ks.map Tree.id := fun hm => hp'.2 (Tree.kid_id_mem ks p hm)
    have hik : i ∉ ks.map Tree.id := fun hm => hnd'.1 (Tree.kid_id_mem ks i hm)
    obtain ⟨n1, p1, hn1, hp1, hall⟩ := ssStep_built (R := R)
      (l1 := [((gKetT i ⟨some p, ks.map Tree.id⟩).legs, kv i)])
      (l2 := [((gBraT i ⟨some p, braKids i⟩).legs, bv i)])
      (lv := lvOf (ssLeaves braKids kv bv (some i)) ks) hs1
      (fun t1 ht1 => by
        rw [h2] at ht1; simp only [Option.some.injEq] at ht1; subst ht1
        exact BuiltL.fresh _ _)
      (fun t2 ht2 => by
        rw [h4] at ht2; simp only [Option.some.injEq] at ht2; subst ht2
        exact BuiltL.fresh _ _)
      (fun n1 hn1 p1 hp1 n hn hne blk hblk => by
        rw [h1] at hn1; simp only [Option.some.injEq] at hn1; subst hn1
        simp only [Option.some.injEq] at hp1; subst hp1
        have hn' : n ∈ ks.map Tree.id := by
          simp only [Node.nbrs, Option.toList_some, List.singleton_append, List.mem_cons] at hn
          rcases hn with e | hn
          · exact absurd e hne
          · exact hn
        rw [hf2 (n, i)] at hblk
        obtain ⟨c0, hc0, hcn⟩ := List.mem_map.1 hn'
        have hsome : (ks.find? (fun c => c.id == n)).isSome := by
          rw [List.find?_isSome]; exact ⟨c0, hc0, by simp [hcn]⟩
        obtain ⟨c, hc⟩ := Option.isSome_iff_exists.1 hsome
        obtain ⟨hcm, hcid⟩ := find_kid hc
        simp only [kidBlock, hc, if_true, Option.map_some] at hblk
        simp only [Option.some.injEq] at hblk
        subst hblk
        simp only [lvOf, hc, Option.map_some, Option.getD_some]
        exact hkids c hcm)
    rw [h1] at hn1; simp only [Option.some.injEq] at hn1; subst hn1
    simp only [Option.some.injEq] at hp1; subst hp1
    have hd' : d' (i, p) = some (ssBlock (Tree.node i ks) p) := by
      rw [hs2 (i, p)]
      have hnk : (i, p) ∉ (ks.map Tree.id).map (fun c => (c, i)) := by
        intro hm
        obtain ⟨n, hn, e⟩ := List.mem_map.1 hm
        exact hik ((Prod.mk.inj e).1 ▸ hn)
      rw [if_neg hnk, if_pos rfl]
    rcases hall (i, p) _ hd' with ⟨_, hb⟩ | ⟨hne, _⟩
    · refine hb.perm ?_
      have hfilter : (Node.mk (some p) (ks.map Tree.id)).nbrs.filter (· ≠ p) = ks.map Tree.id := by
        have := filter_ne_mid [] (ks.map Tree.id) p (by simp) hpk
        simpa [Node.nbrs] using this
      rw [hfilter, lvOf_flatMap _ ks hkn]
      simp only [ssLeaves, treeLeaves, ssNodeLeaves, treeLeavesL_eq]
      cases ks with
      | nil => simp [Node.isLeaf]
      | cons c cs =>
        simp only [Node.isLeaf, List.map_cons, List.isEmpty_cons, Bool.false_eq_true, if_false]
        simp only [List.cons_append, List.nil_append]
        exact List.Perm.cons _ (List.perm_append_comm.trans (List.Perm.refl _))
    · exact absurd rfl hne
theorem ssBlock_builtL : ∀ (ts : List Tree) (i : Nat), (Tree.idsL ts).Nodup → i ∉ Tree.idsL ts →
    Rep s1 s2 braKids (Tree.infoL i ts) →
    ∀ c ∈ ts, BuiltL (ssBlock c i) (ssLeaves braKids kv bv (some i) c)
  | [], _, _, _, _ => fun c hc => absurd hc (List.not_mem_nil)
  | c :: cs, i, hnd, hi, hrep => by
    simp only [Tree.idsL, List.nodup_append] at hnd
    simp only [Tree.idsL, List.mem_append, not_or] at hi
    intro c' hc'
    rcases List.mem_cons.1 hc' with h | hc'
    · rw [h]; exact ssBlock_built c i hnd.1 hi.1 (fun e he => hrep e (by simp [Tree.infoL, he]))
    · exact ssBlock_builtL cs i hnd.2.1 hi.2 (fun e he => hrep e (by simp [Tree.infoL, he])) c' hc'
end

/-- **The tensor `contract_two_ttns` returns is built from exactly the node tensors of the two networks**: the
loop over `linearise()` with the block dictionary and the root step are a nesting of `tensordot` calls over
the ket and bra tensors of all nodes. -/
theorem contractTwoTtns_built (kv bv : Nat → Asg Leg → R) (t : Tree) (hnd : t.ids.Nodup) (braKids : Nat → List Nat)
    (hperm : ∀ e ∈ Tree.info none t, (braKids e.1).Perm e.2.2) :
    BuiltL (⟨[], ssRootBinds t (braKids t.id)⟩ : T) (ssLeaves braKids kv bv none t) := by
  have heq := contractTwoTtns_eq t hnd braKids hperm
  obtain ⟨d, hd, hroot⟩ := contractTwoTtns_some heq
  obtain ⟨r, ks⟩ := t
  have hrep : Rep (netOf (.node r ks) (fun _ ks => ks) gKetT) (netOf (.node r ks) (fun i _ => braKids i) gBraT)
      braKids (Tree.info none (.node r ks)) := by
    intro e he
    have h1 := netOf_node (.node r ks) (fun _ ks => ks) gKetT hnd e he
    have h2 := netOf_node (.node r ks) (fun i _ => braKids i) gBraT hnd e he
    exact ⟨h1.1, h1.2, h2.1, h2.2, hperm e he⟩
  have hnd' := hnd
  simp only [Tree.ids, List.nodup_cons] at hnd'
  obtain ⟨d0, hl, hd0⟩ := ssLoop_forest _ _ braKids ks r Dict.empty hnd'.2 hnd'.1
    (fun e he => hrep e (by simp [Tree.info, he])) (fun _ _ _ => rfl)
  have horder : (netOf (.node r ks) (fun _ ks => ks) gKetT).order.dropLast = Tree.postL ks := by
    show (Tree.postL ks ++ [r]).dropLast = _
    simp
  rw [horder, hl] at hd
  simp only [Option.some.injEq] at hd
  subst hd
  have hkids := ssBlock_builtL _ _ braKids kv bv ks r hnd'.2 hnd'.1 (fun e he => hrep e (by simp [Tree.info, he]))
  obtain ⟨h1, h2, h3, h4, hp⟩ := hrep (r, none, ks.map Tree.id) (by simp [Tree.info])
  simp only at h1 h2 h3 h4 hp
  have hkn : (ks.map Tree.id).Nodup := Tree.nodup_kid_ids ks hnd'.2
  have hr1 : (netOf (.node r ks) (fun _ ks => ks) gKetT).root = r := rfl
  rw [hr1] at hroot
  obtain ⟨n1, hn1, hb⟩ := ssContractNodeWithEnvironment_built (R := R)
    (l1 := [((gKetT r ⟨none, ks.map Tree.id⟩).legs, kv r)])
    (l2 := [((gBraT r ⟨none, braKids r⟩).legs, bv r)])
    (lv := lvOf (ssLeaves braKids kv bv (some r)) ks) hroot
    (fun t1 ht1 => by
      rw [h2] at ht1; simp only [Option.some.injEq] at ht1; subst ht1
      exact BuiltL.fresh _ _)
    (fun t2 ht2 => by
      rw [h4] at ht2; simp only [Option.some.injEq] at ht2; subst ht2
      exact BuiltL.fresh _ _)
    (fun n1 hn1 n hn blk hblk => by
      rw [h1] at hn1; simp only [Option.some.injEq] at hn1; subst hn1
      have hn' : n ∈ ks.map Tree.id := by simpa [Node.nbrs] using hn
      rw [hd0 (n, r)] at hblk
      obtain ⟨c0, hc0, hcn⟩ := List.mem_map.1 hn'
      have hsome : (ks.find? (fun c => c.id == n)).isSome := by
        rw [List.find?_isSome]; exact ⟨c0, hc0, by simp [hcn]⟩
      obtain ⟨c, hc⟩ := Option.isSome_iff_exists.1 hsome
      obtain ⟨hcm, hcid⟩ := find_kid hc
      simp only [kidBlock, hc, if_true, Option.map_some] at hblk
      simp only [Option.some.injEq] at hblk
      subst hblk
      simp only [lvOf, hc, Option.map_some, Option.getD_some]
      exact hkids c hcm)
  rw [h1] at hn1; simp only [Option.some.injEq] at hn1; subst hn1
  refine hb.perm ?_
  have hnb : (Node.mk none (ks.map Tree.id)).nbrs = ks.map Tree.id := by simp [Node.nbrs]
  rw [hnb, lvOf_flatMap _ ks hkn]
  simp only [ssLeaves, treeLeaves, ssNodeLeaves, treeLeavesL_eq, Tree.id]
  simp only [List.cons_append, List.nil_append]
  exact List.Perm.cons _ (List.perm_append_comm.trans (List.Perm.refl _))

end ss

/-! ### expectation_value -/

theorem soContractAny_built {state op : Net} {braOf : Nat → Node → T} {d : Dict} {i next : Nat} {r : T}
    {l1 l2 : List (LeafT R)} {l3 : Node → List (LeafT R)} {lv : Nat → List (LeafT R)}
    (h : soContractAny i next state op braOf d = some r)
    (h1 : ∀ t1, state.tensor i = some t1 → BuiltL t1 l1) (h2 : ∀ t2, op.tensor i = some t2 → BuiltL t2 l2)
    (h3 : ∀ n1, state.node i = some n1 → BuiltL (braOf i n1) (l3 n1))
    (hc : ∀ n1, state.node i = some n1 → ∀ n ∈ n1.nbrs, n ≠ next → ∀ blk, d (n, i) = some blk → BuiltL blk (lv n)) :
    ∃ n1, state.node i = some n1 ∧
      BuiltL r (((l1 ++ (if n1.isLeaf then [] else (n1.nbrs.filter (· ≠ next)).flatMap lv)) ++ l2) ++ l3 n1) := by
  unfold soContractAny at h
  split at h
  · rename_i n1 t1 n2 t2 hn1 ht1 hn2 ht2
    exact ⟨n1, hn1, opContractAnyNodeEnvironmentButOne_built h (h1 t1 ht1) (h2 t2 ht2) (h3 n1 hn1) (hc n1 hn1)⟩
  · simp at h

theorem soStep_built {state op : Net} {braOf : Nat → Node → T} {d d' : Dict} {i : Nat}
    {l1 l2 : List (LeafT R)} {l3 : Node → List (LeafT R)} {lv : Nat → List (LeafT R)}
    (h : soStep state op braOf d i = some d')
    (h1 : ∀ t1, state.tensor i = some t1 → BuiltL t1 l1) (h2 : ∀ t2, op.tensor i = some t2 → BuiltL t2 l2)
    (h3 : ∀ n1, state.node i = some n1 → BuiltL (braOf i n1) (l3 n1))
    (hc : ∀ n1, state.node i = some n1 → ∀ p, n1.parent = some p → ∀ n ∈ n1.nbrs, n ≠ p →
      ∀ blk, d (n, i) = some blk → BuiltL blk (lv n)) :
    ∃ n1 p, state.node i = some n1 ∧ n1.parent = some p ∧ ∀ k blk, d' k = some blk →
      (k = (i, p) ∧
        BuiltL blk (((l1 ++ (if n1.isLeaf then [] else (n1.nbrs.filter (· ≠ p)).flatMap lv)) ++ l2) ++ l3 n1)) ∨
      (k ≠ (i, p) ∧ d k = some blk) := by
  unfold soStep at h
  split at h
  · simp at h
  · rename_i node hnode
    split at h
    · simp at h
    · rename_i p hp
      split at h
      · simp at h
      · rename_i block hblock
        obtain ⟨n1, hn1, hb⟩ := soContractAny_built hblock h1 h2 h3 (fun n1 hn1 => hc n1 hn1 p (by
          rw [hnode] at hn1; simp only [Option.some.injEq] at hn1; subst hn1; exact hp))
        rw [hnode] at hn1; simp only [Option.some.injEq] at hn1; subst hn1
        refine ⟨node, p, hnode, hp, fun k blk hk => ?_⟩
        have := Dict.deleteAll_some _ h hk
        unfold Dict.add at this
        by_cases e : k = (i, p)
        · rw [if_pos e] at this
          simp only [Option.some.injEq] at this
          subst this
          exact Or.inl ⟨e, hb⟩
        · rw [if_neg e] at this
          exact Or.inr ⟨e, this⟩

theorem soContractNodeWithEnvironment_built {state op : Net} {braOf : Nat → Node → T} {d : Dict} {i : Nat} {r : T}
    {l1 l2 : List (LeafT R)} {l3 : Node → List (LeafT R)} {lv : Nat → List (LeafT R)}
    (h : soContractNodeWithEnvironment i state op braOf d = some r)
    (h1 : ∀ t1, state.tensor i = some t1 → BuiltL t1 l1) (h2 : ∀ t2, op.tensor i = some t2 → BuiltL t2 l2)
    (h3 : ∀ n1, state.node i = some n1 → BuiltL (braOf i n1) (l3 n1))
    (hc : ∀ n1, state.node i = some n1 → ∀ n ∈ n1.nbrs, ∀ blk, d (n, i) = some blk → BuiltL blk (lv n)) :
    ∃ n1, state.node i = some n1 ∧ BuiltL r (l3 n1 ++ ((l1 ++ n1.nbrs.flatMap lv) ++ l2)) := by
  unfold soContractNodeWithEnvironment at h
  split at h
  · rename_i n1 t1 n2 t2 hn1 ht1 hn2 ht2
    exact ⟨n1, hn1, opContractNodeWithEnvironment_built h (h1 t1 ht1) (h2 t2 ht2) (h3 n1 hn1) (hc n1 hn1)⟩
  · simp at h

theorem expectationValue_some {state op : Net} {braOf : Nat → Node → T} {r : T}
    (h : expectationValue state op braOf = some r) :
    ∃ d, soLoop state op braOf state.order.dropLast Dict.empty = some d ∧
      soContractNodeWithEnvironment state.root state op braOf d = some r := by
  unfold expectationValue at h
  simp only at h
  split at h
  · simp at h
  · split at h
    · simp at h
    · rename_i d hd
      exact ⟨d, hd, h⟩

section so
variable (s1 s2 : Net) (opKids : Nat → List Nat) (kv ov bv : Nat → Asg Leg → R)

/-- the three node tensors of node `i`: ket, operator (with the operator's child order), bra (= the conjugated
ket tensor, on the ket's node) -/
def soNodeLeaves (i : Nat) (p : Option Nat) (kids : List Nat) : List (LeafT R) :=
  [((gKetT i ⟨p, kids⟩).legs, kv i), ((gOpT i ⟨p, opKids i⟩).legs, ov i), ((gBraT i ⟨p, kids⟩).legs, bv i)]

def soLeaves (p : Option Nat) (t : Tree) : List (LeafT R) := treeLeaves (soNodeLeaves opKids kv ov bv) p t

mutual
theorem soBlock_built : ∀ (t : Tree) (p : Nat), t.ids.Nodup → p ∉ t.ids →
    RepO s1 s2 opKids (Tree.info (some p) t) → BuiltL (soBlock t p) (soLeaves opKids kv ov bv (some p) t)
  | .node i ks, p, hnd, hp, hrep => by
    have hnd' := hnd
    simp only [Tree.ids, List.nodup_cons] at hnd'
    have hp' := hp
    simp only [Tree.ids, List.mem_cons, not_or] at hp'
    have hkids := soBlock_builtL ks i hnd'.2 hnd'.1 (fun e he => hrep e (by simp [Tree.info, he]))
    obtain ⟨df, _, hf2⟩ := soLoop_forest s1 s2 opKids ks i Dict.empty hnd'.2 hnd'.1
      (fun e he => hrep e (by simp [Tree.info, he])) (fun _ _ _ => rfl)
    have hrep1 : RepO s1 s2 opKids [(i, some p, ks.map Tree.id)] := by
      intro e he
      simp only [List.mem_singleton] at he
      subst he
      exact hrep _ (by simp [Tree.info])
    obtain ⟨d', hs1, hs2⟩ := soStep_node s1 s2 opKids i p ks df hnd hp hrep1
      (fun n hn => by rw [hf2 (n, i), soKidBlock_of_mem ks i n hn])
    obtain ⟨h1, h2, h3, h4, hperm⟩ := hrep1 (i, some p, ks.map Tree.id) (by simp)
    simp only at h1 h2 h3 h4 hperm
    have hkn : (ks.map Tree.id).Nodup := Tree.nodup_kid_ids ks hnd'.2
    have hpk : p ∉ ks.map Tree.id := fun hm => hp'.2 (Tree.kid_id_mem ks p hm)
    have hik : i ∉ ks.map Tree.id := fun hm => hnd'.1 (Tree.kid_id_mem ks i hm)
    obtain ⟨n1, p1, hn1, hp1, hall⟩ := soStep_built (R := R)
      (l1 := [((gKetT i ⟨some p, ks.map Tree.id⟩).legs, kv i)])
      (l2 := [((gOpT i ⟨some p, opKids i⟩).legs, ov i)])
      (l3 := fun n1 => [((gBraT i n1).legs, bv i)])
      (lv := lvOf (soLeaves opKids kv ov bv (some i)) ks) hs1
      (fun t1 ht1 => by
        rw [h2] at ht1; simp only [Option.some.injEq] at ht1; subst ht1
        exact BuiltL.fresh _ _)
      (fun t2 ht2 => by
        rw [h4] at ht2; simp only [Option.some.injEq] at ht2; subst ht2
        exact BuiltL.fresh _ _)
      (fun n1 _ => BuiltL.fresh _ _)
      (fun n1 hn1 p1 hp1 n hn hne blk hblk => by
        rw [h1] at hn1; simp only [Option.some.injEq] at hn1; subst hn1
        simp only [Option.some.injEq] at hp1; subst hp1
        have hn' : n ∈ ks.map Tree.id := by
          simp only [Node.nbrs, Option.toList_some, List.singleton_append, List.mem_cons] at hn
          rcases hn with e | hn
          · exact absurd e hne
          · exact hn
        rw [hf2 (n, i)] at hblk
        obtain ⟨c0, hc0, hcn⟩ := List.mem_map.1 hn'
        have hsome : (ks.find? (fun c => c.id == n)).isSome := by
          rw [List.find?_isSome]; exact ⟨c0, hc0, by simp [hcn]⟩
        obtain ⟨c, hc⟩ := Option.isSome_iff_exists.1 hsome
        obtain ⟨hcm, hcid⟩ := find_kid hc
        simp only [soKidBlock, hc, if_true, Option.map_some] at hblk
        simp only [Option.some.injEq] at hblk
        subst hblk
        simp only [lvOf, hc, Option.map_some, Option.getD_some]
        exact hkids c hcm)
    rw [h1] at hn1; simp only [Option.some.injEq] at hn1; subst hn1
    simp only [Option.some.injEq] at hp1; subst hp1
    have hd' : d' (i, p) = some (soBlock (Tree.node i ks) p) := by
      rw [hs2 (i, p)]
      have hnk : (i, p) ∉ (ks.map Tree.id).map (fun c => (c, i)) := by
        intro hm
        obtain ⟨n, hn, e⟩ := List.mem_map.1 hm
        exact hik ((Prod.mk.inj e).1 ▸ hn)
      rw [if_neg hnk, if_pos rfl]
    rcases hall (i, p) _ hd' with ⟨_, hb⟩ | ⟨hne, _⟩
    · refine hb.perm ?_
      have hfilter : (Node.mk (some p) (ks.map Tree.id)).nbrs.filter (· ≠ p) = ks.map Tree.id := by
        have := filter_ne_mid [] (ks.map Tree.id) p (by simp) hpk
        simpa [Node.nbrs] using this
      rw [hfilter, lvOf_flatMap _ ks hkn]
      simp only [soLeaves, treeLeaves, soNodeLeaves, treeLeavesL_eq]
      cases ks with
      | nil => simp [Node.isLeaf]
      | cons c cs =>
        simp only [Node.isLeaf, List.map_cons, List.isEmpty_cons, Bool.false_eq_true, if_false]
        simp only [List.cons_append, List.nil_append, List.append_assoc]
        refine List.Perm.cons _ ?_
        exact List.perm_append_comm.trans (List.Perm.refl _)
    · exact absurd rfl hne
theorem soBlock_builtL : ∀ (ts : List Tree) (i : Nat), (Tree.idsL ts).Nodup → i ∉ Tree.idsL ts →
    RepO s1 s2 opKids (Tree.infoL i ts) →
    ∀ c ∈ ts, BuiltL (soBlock c i) (soLeaves opKids kv ov bv (some i) c)
  | [], _, _, _, _ => fun c hc => absurd hc (List.not_mem_nil)
  | c :: cs, i, hnd, hi, hrep => by
    simp only [Tree.idsL, List.nodup_append] at hnd
    simp only [Tree.idsL, List.mem_append, not_or] at hi
    intro c' hc'
    rcases List.mem_cons.1 hc' with h | hc'
    · rw [h]; exact soBlock_built c i hnd.1 hi.1 (fun e he => hrep e (by simp [Tree.infoL, he]))
    · exact soBlock_builtL cs i hnd.2.1 hi.2 (fun e he => hrep e (by simp [Tree.infoL, he])) c' hc'
end

/-- **The tensor `expectation_value` returns is built from exactly the ket, operator and bra tensors of all
nodes.** -/
theorem expectationValue_built (kv ov bv : Nat → Asg Leg → R) (t : Tree) (hnd : t.ids.Nodup)
    (opKids : Nat → List Nat) (hperm : ∀ e ∈ Tree.info none t, (opKids e.1).Perm e.2.2) :
    BuiltL (⟨[], soRootBinds t⟩ : T) (soLeaves opKids kv ov bv none t) := by
  have heq := expectationValue_eq t hnd opKids hperm
  obtain ⟨d, hd, hroot⟩ := expectationValue_some heq
  obtain ⟨r, ks⟩ := t
  have hrep : RepO (netOf (.node r ks) (fun _ ks => ks) gKetT) (netOf (.node r ks) (fun i _ => opKids i) gOpT)
      opKids (Tree.info none (.node r ks)) := by
    intro e he
    have h1 := netOf_node (.node r ks) (fun _ ks => ks) gKetT hnd e he
    have h2 := netOf_node (.node r ks) (fun i _ => opKids i) gOpT hnd e he
    exact ⟨h1.1, h1.2, h2.1, h2.2, hperm e he⟩
  have hnd' := hnd
  simp only [Tree.ids, List.nodup_cons] at hnd'
  obtain ⟨d0, hl, hd0⟩ := soLoop_forest _ _ opKids ks r Dict.empty hnd'.2 hnd'.1
    (fun e he => hrep e (by simp [Tree.info, he])) (fun _ _ _ => rfl)
  have horder : (netOf (.node r ks) (fun _ ks => ks) gKetT).order.dropLast = Tree.postL ks := by
    show (Tree.postL ks ++ [r]).dropLast = _
    simp
  rw [horder, hl] at hd
  simp only [Option.some.injEq] at hd
  subst hd
  have hkids := soBlock_builtL _ _ opKids kv ov bv ks r hnd'.2 hnd'.1 (fun e he => hrep e (by simp [Tree.info, he]))
  obtain ⟨h1, h2, h3, h4, hp⟩ := hrep (r, none, ks.map Tree.id) (by simp [Tree.info])
  simp only at h1 h2 h3 h4 hp
  have hkn : (ks.map Tree.id).Nodup := Tree.nodup_kid_ids ks hnd'.2
  have hr1 : (netOf (.node r ks) (fun _ ks => ks) gKetT).root = r := rfl
  rw [hr1] at hroot
  obtain ⟨n1, hn1, hb⟩ := soContractNodeWithEnvironment_built (R := R)
    (l1 := [((gKetT r ⟨none, ks.map Tree.id⟩).legs, kv r)])
    (l2 := [((gOpT r ⟨none, opKids r⟩).legs, ov r)])
    (l3 := fun n1 => [((gBraT r n1).legs, bv r)])
    (lv := lvOf (soLeaves opKids kv ov bv (some r)) ks) hroot
    (fun t1 ht1 => by
      rw [h2] at ht1; simp only [Option.some.injEq] at ht1; subst ht1
      exact BuiltL.fresh _ _)
    (fun t2 ht2 => by
      rw [h4] at ht2; simp only [Option.some.injEq] at ht2; subst ht2
      exact BuiltL.fresh _ _)
    (fun n1 _ => BuiltL.fresh _ _)
    (fun n1 hn1 n hn blk hblk => by
      rw [h1] at hn1; simp only [Option.some.injEq] at hn1; subst hn1
      have hn' : n ∈ ks.map Tree.id := by simpa [Node.nbrs] using hn
      rw [hd0 (n, r)] at hblk
      obtain ⟨c0, hc0, hcn⟩ := List.mem_map.1 hn'
      have hsome : (ks.find? (fun c => c.id == n)).isSome := by
        rw [List.find?_isSome]; exact ⟨c0, hc0, by simp [hcn]⟩
      obtain ⟨c, hc⟩ := Option.isSome_iff_exists.1 hsome
      obtain ⟨hcm, hcid⟩ := find_kid hc
      simp only [soKidBlock, hc, if_true, Option.map_some] at hblk
      simp only [Option.some.injEq] at hblk
      subst hblk
      simp only [lvOf, hc, Option.map_some, Option.getD_some]
      exact hkids c hcm)
  rw [h1] at hn1; simp only [Option.some.injEq] at hn1; subst hn1
  refine hb.perm ?_
  have hnb : (Node.mk none (ks.map Tree.id)).nbrs = ks.map Tree.id := by simp [Node.nbrs]
  rw [hnb, lvOf_flatMap _ ks hkn]
  simp only [soLeaves, treeLeaves, soNodeLeaves, treeLeavesL_eq]
  simp only [List.cons_append, List.nil_append]
  refine (List.Perm.swap _ _ _).trans (List.Perm.cons _ ?_)
  refine (List.Perm.cons _ List.perm_append_comm).trans ?_
  exact List.Perm.swap _ _ _

end so

end Ptn.C04
