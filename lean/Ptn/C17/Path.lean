import Ptn.C17.Tree
/-! `path_from_to` on a well-formed tree: shape of the result and its correctness. -/
namespace Ptn.C17
namespace RTree

theorem nodup_reverse {l : List Nat} : l.reverse.Nodup ↔ l.Nodup :=
  (List.reverse_perm l).nodup_iff

theorem nodup_fork {pre xs ys : List Nat} {c : Nat} (h1 : (pre ++ c :: xs).Nodup)
    (h2 : (pre ++ c :: ys).Nodup) (hd : ∀ x ∈ xs, x ∉ ys) :
    (xs.reverse ++ ys.reverse ++ c :: pre.reverse).Nodup := by
  simp only [List.nodup_append, List.nodup_cons, nodup_reverse, List.mem_reverse,
    List.mem_append, List.mem_cons] at *
  grind

theorem nodup_fork' {pre xs ys : List Nat} {c : Nat} (h1 : (pre ++ c :: xs).Nodup)
    (h2 : (pre ++ c :: ys).Nodup) (hd : ∀ x ∈ xs, x ∉ ys) :
    (xs.reverse ++ c :: ys).Nodup := by
  simp only [List.nodup_append, List.nodup_cons, nodup_reverse, List.mem_reverse,
    List.mem_append, List.mem_cons] at *
  grind

/-- The shape of `path_from_to`: up from `a` to the fork node `c`, then down to `b`. -/
theorem pathFromTo_shape {t : RTree} {a b : Nat} (hwf : t.WF) (ha : a ∈ ids t) (hb : b ∈ ids t)
    (hab : a ≠ b) :
    ∃ pre c xs ys, pathDown a t = some (pre ++ c :: xs) ∧ pathDown b t = some (pre ++ c :: ys) ∧
      (∀ x ∈ xs, x ∉ ys) ∧ pathFromTo t a b = some (xs.reverse ++ c :: ys) := by
  obtain ⟨pa, hpa⟩ := pathDown_some_of_mem ha
  obtain ⟨pb, hpb⟩ := pathDown_some_of_mem hb
  obtain ⟨pre, c, xs, ys, e1, e2, hd⟩ := (pathDown_fork a b).1 t pa pb hwf hpa hpb
  subst e1; subst e2
  refine ⟨pre, c, xs, ys, hpa, hpb, hd, ?_⟩
  have hnd := nodup_fork (pathDown_nodup hwf hpa) (pathDown_nodup hwf hpb) hd
  have hm := mergeRootPaths_two_root_paths hnd
  simp only [pathFromTo, rootPath, hpa, hpb, if_neg hab]
  simp only [Option.map_some, List.reverse_append, List.reverse_cons, List.append_assoc,
    List.singleton_append, List.reverse_reverse] at hm ⊢
  simpa using hm

theorem head_of_last {pre xs ys : List Nat} {c a : Nat} (h : (pre ++ c :: xs).getLast? = some a) :
    (xs.reverse ++ c :: ys).head? = some a := by
  cases hx : xs.reverse with
  | nil =>
    have : xs = [] := by simpa using hx
    subst this
    simpa using h
  | cons y l =>
    have : xs = l.reverse ++ [y] := by
      have := congrArg List.reverse hx; simpa using this
    subst this
    have e : pre ++ c :: (l.reverse ++ [y]) = (pre ++ c :: l.reverse) ++ [y] := by simp
    rw [e, List.getLast?_concat] at h
    simp at h
    simp [h]

theorem last_of_last {pre xs ys : List Nat} {c b : Nat} (h : (pre ++ c :: ys).getLast? = some b) :
    (xs.reverse ++ c :: ys).getLast? = some b := by
  rw [List.getLast?_append] at h ⊢
  simpa using h

/-- `path_from_to(a, b)` completes and returns a simple path from `a` to `b` -/
theorem pathFromTo_isSimplePath {t : RTree} (hwf : t.WF) {a b : Nat} (ha : a ∈ ids t)
    (hb : b ∈ ids t) : ∃ p, pathFromTo t a b = some p ∧ IsSimplePath t p a b := by
  by_cases hab : a = b
  · subst hab
    exact ⟨[a], by simp [pathFromTo], by simp [IsSimplePath, ha, Chain]⟩
  · obtain ⟨pre, c, xs, ys, hpa, hpb, hd, hp⟩ := pathFromTo_shape hwf ha hb hab
    refine ⟨_, hp, ?_, ?_, ?_, ?_, ?_⟩
    · exact head_of_last ((pathDown_ends a).1 t _ hpa).2
    · exact last_of_last ((pathDown_ends b).1 t _ hpb).2
    · intro x hx
      simp only [List.mem_append, List.mem_reverse, List.mem_cons] at hx
      rcases hx with hx | rfl | hx
      · exact (pathDown_subset a).1 t _ hpa x (by simp [hx])
      · exact (pathDown_subset a).1 t _ hpa x (by simp)
      · exact (pathDown_subset b).1 t _ hpb x (by simp [hx])
    · have h1 := chain_append_right ((pathDown_chain a).1 t _ hpa)
      have h2 := chain_append_right ((pathDown_chain b).1 t _ hpb)
      apply chain_glue
      · have := chain_reverse h1
        simp only [List.reverse_cons] at this
        exact chain_mono (fun x y h => Or.inr h) this
      · exact chain_mono (fun x y h => Or.inl h) h2
    · exact nodup_fork' (pathDown_nodup hwf hpa) (pathDown_nodup hwf hpb) hd

end RTree
end Ptn.C17
