import Ptn.C17.SegSweep
/-! Every step of the update path is a good step toward its last node; good steps have the same
first hop toward the next node and toward the last node. -/
namespace Ptn.C17
namespace RTree

/-- every node other than the root has a parent -/
theorem exists_parent {t : RTree} {a : Nat} (ha : a ∈ ids t) (har : a ≠ t.rid) :
    ∃ par, (par, a) ∈ edges t := by
  rw [ids_eq_rid_cons] at ha
  simp only [List.mem_cons] at ha
  rcases ha with ha | ha
  · exact absurd ha har
  · have := (edges_targets.1 t).symm.subset ha
    obtain ⟨e, he, rfl⟩ := List.mem_map.mp this
    exact ⟨e.1, he⟩

theorem firstHop_of_path {t : RTree} {a b h : Nat} {rest : List Nat}
    (hp : pathFromTo t a b = some (a :: h :: rest)) : firstHop t a b = some h := by
  simp [firstHop, hp]

/-- a good step has the same first hop toward its successor and toward the target -/
theorem stepOK_firstHop {t : RTree} (hwf : t.WF) {f a b : Nat} (ha : a ∈ ids t) (hb : b ∈ ids t)
    (hf : f ∈ ids t) (h : StepOK t f a b) :
    ∃ v, firstHop t a b = some v ∧ firstHop t a f = some v := by
  obtain ⟨pb, hpb⟩ := pathDown_some_of_mem hb
  obtain ⟨pf, hpf⟩ := pathDown_some_of_mem hf
  rcases h with ⟨h1, h2⟩ | ⟨v, l1, l2, l1', l2', h1, h2⟩
  · have har : a ≠ t.rid := by
      intro e
      have hh := ((pathDown_ends b).1 t pb hpb).1
      exact h1 pb hpb (e ▸ List.mem_of_head? hh)
    obtain ⟨par, hpar⟩ := exists_parent ha har
    obtain ⟨r1, e1⟩ := next_hop_up hwf hpb (h1 pb hpb) hpar
    obtain ⟨r2, e2⟩ := next_hop_up hwf hpf (h2 pf hpf) hpar
    exact ⟨par, firstHop_of_path e1, firstHop_of_path e2⟩
  · exact ⟨v, firstHop_of_path (next_hop_down hwf h1), firstHop_of_path (next_hop_down hwf h2)⟩

/-- All steps of the update path are good steps toward its last node. -/
theorem updatePath_stepOK {r : Nat} {ks : List RTree} (hwf : (node r ks).WF) {p : List Nat}
    {s : Nat} (hshape : UpShape r ks p s) :
    ∃ L, p.getLast? = some L ∧ L ∈ ids (node r ks) ∧ Chain (StepOK (node r ks) L) p := by
  have hT : (r :: idsL ks).Nodup := by simpa [WF] using hwf
  have hndc := List.nodup_cons.mp hT
  have hrids := rids_nodup hndc.2
  rcases hshape with ⟨rfl, rfl⟩ | ⟨ki, up, rfl, hup, rfl⟩ |
      ⟨ki, kj, up, dn, f, hki, hkj, hne, hup, hdn, rfl⟩
  · exact ⟨r, by simp, by simp, by simp [Chain]⟩
  · refine ⟨r, by simp, by simp, ?_⟩
    have hupm := mem_ids_of_sweepUp hup
    have hk_r : ∀ y ∈ ids ki, y ≠ r := fun y hy e => hndc.1 (e ▸ by simpa using hy)
    have hnk : (ids ki).Nodup := by simpa using hndc.2
    apply chain_append
    · apply chain_mono_mem _ ((sweepUp_notAnc s).1 ki up hup hnk)
      intro a ha b hb hab
      exact Or.inl ⟨notAnc_kid hT (by simp) (hupm b hb) (hk_r a (hupm a ha)) hab,
        notAnc_root (hk_r a (hupm a ha))⟩
    · simp [Chain]
    · intro y hy z hz
      simp at hz; subst hz
      exact Or.inl ⟨notAnc_root (hk_r y (hupm y hy)), notAnc_root (hk_r y (hupm y hy))⟩
  · have hupm := mem_ids_of_sweepUp hup
    have hdnm := mem_ids_of_sweepDown hdn
    have hdnspec := ((sweepDown_spec f).1 kj).1 dn hdn
    have hfk : f ∈ ids kj := hdnspec.2.1
    have hp2 := idsL_remove_two hrids hki hkj hne
    have hnd2 := hp2.nodup hndc.2
    simp only [List.nodup_append, List.mem_append] at hnd2
    generalize hkeep : ks.filter (fun k => !(k.rid == ki.rid || k.rid == kj.rid)) = keep at *
    have hkeepsub : ∀ k ∈ keep, k ∈ ks := by
      intro k hk; rw [← hkeep] at hk; exact (List.mem_filter.mp hk).1
    have hne_r : ∀ y ∈ idsL ks, y ≠ r := fun y hy e => hndc.1 (e ▸ hy)
    have hi_r : ∀ y ∈ ids ki, y ≠ r := fun y hy => hne_r y (ids_subset_idsL hki y hy)
    have hj_r : ∀ y ∈ ids kj, y ≠ r := fun y hy => hne_r y (ids_subset_idsL hkj y hy)
    have hkeep_r : ∀ y ∈ idsL keep, y ≠ r := by
      intro y hy
      obtain ⟨k, hk, hyk⟩ := exists_kid_of_mem_idsL hy
      exact hne_r y (ids_subset_idsL (hkeepsub k hk) y hyk)
    have hi_j : ∀ y ∈ ids ki, y ∉ ids kj := fun y hy h => hnd2.1.2.2 y hy y h rfl
    have hi_keep : ∀ y ∈ ids ki, y ∉ idsL keep := fun y hy h => hnd2.2.2 y (Or.inl hy) y h rfl
    have hkeep_j : ∀ y ∈ idsL keep, y ∉ ids kj := fun y hy h => hnd2.2.2 y (Or.inr h) y hy rfl
    have hwfT : (node r ks).WF := hwf
    have sub1 : ∀ k ∈ [kj], k ∈ ks := by intro k hk; simp at hk; exact hk ▸ hkj
    -- nodes outside the last branch are not above f
    have hoff : ∀ y, y ≠ r → y ∉ ids kj → NotAnc (node r ks) y f := by
      intro y h1 h2
      exact notAnc_forest_cross hT (fs := [kj]) sub1 (by simpa using hfk) h1 (by simpa using h2)
    have hout_j : ∀ y, y ≠ r → y ∉ ids kj → ∀ z ∈ ids kj, StepOK (node r ks) f y z := by
      intro y h1 h2 z hz
      exact Or.inl ⟨notAnc_forest_cross hT (fs := [kj]) sub1 (by simpa using hz) h1
        (by simpa using h2), hoff y h1 h2⟩
    have hdown : ∀ z ∈ ids kj, StepOK (node r ks) f r z := by
      intro z hz
      obtain ⟨qz, _, hpz⟩ := pathDown_via_kid hwfT hkj hz
      obtain ⟨qf, _, hpf⟩ := pathDown_via_kid hwfT hkj hfk
      exact Or.inr ⟨kj.rid, [], qz, [], qf, by simpa using hpz, by simpa using hpf⟩
    refine ⟨f, ?_, by simp [ids_subset_idsL hkj f hfk], ?_⟩
    · cases dn with
      | nil => simp at hdnspec
      | cons y l =>
        rw [List.getLast?_append, List.getLast?_append]
        simp [hdnspec.2.2]
    · apply chain_append
      · apply chain_mono_mem _ ((sweepUp_notAnc s).1 ki up hup hnd2.1.1)
        intro a ha b hb hab
        exact Or.inl ⟨notAnc_kid hT hki (hupm b hb) (hi_r a (hupm a ha)) hab,
          hoff a (hi_r a (hupm a ha)) (hi_j a (hupm a ha))⟩
      · rw [List.append_assoc]
        apply chain_append
        · apply chain_mono_mem _ (postorder_notAnc.2 keep hnd2.2.1)
          intro a ha b hb hab
          have ha' := mem_idsL_of_mem_postorderL ha
          have hb' := mem_idsL_of_mem_postorderL hb
          exact Or.inl ⟨notAnc_forest hT hkeepsub hnd2.2.1 hb' (hkeep_r a ha') hab,
            hoff a (hkeep_r a ha') (hkeep_j a ha')⟩
        · apply chain_append (l1 := [r])
          · simp [Chain]
          · apply chain_mono_mem _ ((sweepDown_stepOK f).1 kj dn hdn hnd2.1.2.1)
            intro a ha b hb hab
            exact stepOK_kid hT hkj hfk (hdnm a ha) (hdnm b hb) hab
          · intro y hy z hz
            simp at hy; subst hy
            exact hdown z (hdnm z hz)
        · intro y hy z hz
          have hy' := mem_idsL_of_mem_postorderL hy
          rcases List.mem_cons.mp hz with hz | hz
          · subst hz
            exact Or.inl ⟨notAnc_root (hkeep_r y hy'), hoff y (hkeep_r y hy') (hkeep_j y hy')⟩
          · exact hout_j y (hkeep_r y hy') (hkeep_j y hy') z (hdnm z hz)
      · intro y hy z hz
        have hy' := hupm y hy
        simp only [List.mem_append, List.mem_singleton] at hz
        rcases hz with (hz | hz) | hz
        · have hz' := mem_idsL_of_mem_postorderL hz
          exact Or.inl ⟨notAnc_forest_cross hT hkeepsub hz' (hi_r y hy') (hi_keep y hy'),
            hoff y (hi_r y hy') (hi_j y hy')⟩
        · subst hz
          exact Or.inl ⟨notAnc_root (hi_r y hy'), hoff y (hi_r y hy') (hi_j y hy')⟩
        · exact hout_j y (hi_r y hy') (hi_j y hy') z (hdnm z hz)

end RTree
end Ptn.C17
