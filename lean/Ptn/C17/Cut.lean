import Ptn.C17.Contig
import Ptn.C17.Cache
/-! An edge is crossed by `path_from_to(a, b)` exactly when `a` and `b` lie on different sides of
it; hence walking the update path crosses every edge at most twice. -/
namespace Ptn.C17
namespace RTree

theorem unord_eq_iff (a b c d : Nat) :
    unord (a, b) = unord (c, d) ↔ (a = c ∧ b = d) ∨ (a = d ∧ b = c) := by
  simp only [unord]
  by_cases h1 : a ≤ b <;> by_cases h2 : c ≤ d <;> simp [h1, h2] <;> omega

/-- a tree has no edge in both directions -/
theorem no_two_cycle {t : RTree} (hwf : t.WF) {p x : Nat} (h : (p, x) ∈ edges t) :
    (x, p) ∉ edges t := by
  intro h'
  obtain ⟨q, h1, h2⟩ := pathDown_edge.1 t p x hwf h
  obtain ⟨q', h1', h2'⟩ := pathDown_edge.1 t x p hwf h'
  rw [h1] at h2'; rw [h2] at h1'
  have e1 := congrArg List.length (Option.some.inj h2')
  have e2 := congrArg List.length (Option.some.inj h1')
  simp at e1 e2
  omega

@[simp] theorem pathEdges_nil : pathEdges [] = [] := by simp [pathEdges]
@[simp] theorem pathEdges_single (a : Nat) : pathEdges [a] = [] := by simp [pathEdges]
@[simp] theorem pathEdges_cons_cons (a b : Nat) (l : List Nat) :
    pathEdges (a :: b :: l) = unord (a, b) :: pathEdges (b :: l) := by simp [pathEdges]

theorem pathEdges_glue (c : Nat) : ∀ (l1 l2 : List Nat),
    pathEdges (l1 ++ c :: l2) = pathEdges (l1 ++ [c]) ++ pathEdges (c :: l2)
  | [], l2 => by simp
  | [a], l2 => by simp [pathEdges]
  | a :: b :: l1, l2 => by
    have := pathEdges_glue c (b :: l1) l2
    simp only [List.cons_append, pathEdges_cons_cons] at this ⊢
    rw [this]

theorem pathEdges_snoc (l : List Nat) (a b : Nat) :
    pathEdges (l ++ [a, b]) = pathEdges (l ++ [a]) ++ [unord (a, b)] := by
  have := pathEdges_glue a l [b]
  simpa using this

theorem count_pathEdges_reverse (e : Nat × Nat) : ∀ (l : List Nat),
    (pathEdges l.reverse).count e = (pathEdges l).count e
  | [] => by simp
  | [a] => by simp
  | a :: b :: l => by
    have ih := count_pathEdges_reverse e (b :: l)
    have : (a :: b :: l).reverse = l.reverse ++ [b, a] := by simp
    rw [this, pathEdges_snoc, pathEdges_cons_cons, unord_swap b a]
    have h2 : l.reverse ++ [b] = (b :: l).reverse := by simp
    rw [h2, List.count_append, ih]
    simp only [List.count_cons, List.count_nil]
    omega

/-- along a descending chain the edge `(par, x)` is used exactly when `x` is reached -/
theorem count_down_chain {t : RTree} (hwf : t.WF) {par x : Nat} (he : (par, x) ∈ edges t) :
    ∀ (D : List Nat) (d0 : Nat), Chain (Down t) (d0 :: D) → (d0 :: D).Nodup →
      (pathEdges (d0 :: D)).count (unord (par, x)) = if x ∈ D then 1 else 0
  | [], d0, _, _ => by simp
  | d1 :: D, d0, hc, hnd => by
    have hc' := chain_cons_cons.mp hc
    have hnd' := (List.nodup_cons.mp hnd).2
    have ih := count_down_chain hwf he D d1 hc'.2 hnd'
    rw [pathEdges_cons_cons, List.count_cons, ih]
    have hiff : (unord (d0, d1) == unord (par, x)) = true ↔ d1 = x := by
      rw [beq_iff_eq, unord_eq_iff]
      constructor
      · rintro (⟨_, h⟩ | ⟨h1, h2⟩)
        · exact h
        · exfalso
          subst h1; subst h2
          exact no_two_cycle hwf he hc'.1
      · intro h
        subst h
        exact Or.inl ⟨parent_unique hwf hc'.1 he, rfl⟩
    by_cases hd : d1 = x
    · subst hd
      have hx : d1 ∉ D := (List.nodup_cons.mp hnd').1
      simp [hiff.mpr rfl, hx]
    · have : ¬ (unord (d0, d1) == unord (par, x)) = true := fun h => hd (hiff.mp h)
      have hx : (x ∈ d1 :: D) ↔ x ∈ D := by
        simp only [List.mem_cons]
        constructor
        · rintro (h | h)
          · exact absurd h.symm hd
          · exact h
        · exact Or.inr
      simp [this, hx]

/-- `y` is `x` or lies below `x` -/
def belowB (t : RTree) (x y : Nat) : Bool :=
  match pathDown y t with
  | some p => p.contains x
  | none => false

/-- The cut lemma: `path_from_to(a, b)` uses the edge above `x` once if exactly one of `a`, `b` is
    below `x`, and not at all otherwise. -/
theorem count_cut {t : RTree} (hwf : t.WF) {par x : Nat} (he : (par, x) ∈ edges t) {a b : Nat}
    (ha : a ∈ ids t) (hb : b ∈ ids t) {p : List Nat} (hp : pathFromTo t a b = some p) :
    (pathEdges p).count (unord (par, x)) = if belowB t x a != belowB t x b then 1 else 0 := by
  by_cases hab : a = b
  · subst hab
    simp [pathFromTo] at hp; subst hp; simp
  · obtain ⟨pre, c0, xs, ys, hpa, hpb, hd, hp'⟩ := pathFromTo_shape hwf ha hb hab
    rw [hp] at hp'; simp at hp'; subst hp'
    have hnda := pathDown_nodup hwf hpa
    have hndb := pathDown_nodup hwf hpb
    have hca := chain_append_right ((pathDown_chain a).1 t _ hpa)
    have hcb := chain_append_right ((pathDown_chain b).1 t _ hpb)
    have hna : (c0 :: xs).Nodup := (List.nodup_append.mp hnda).2.1
    have hnb : (c0 :: ys).Nodup := (List.nodup_append.mp hndb).2.1
    have e1 := count_down_chain hwf he xs c0 hca hna
    have e2 := count_down_chain hwf he ys c0 hcb hnb
    have hrev : xs.reverse ++ [c0] = (c0 :: xs).reverse := by simp
    rw [pathEdges_glue, List.count_append, hrev, count_pathEdges_reverse, e1, e2]
    have sa : belowB t x a = decide (x ∈ pre ++ c0 :: xs) := by simp [belowB, hpa]
    have sb : belowB t x b = decide (x ∈ pre ++ c0 :: ys) := by simp [belowB, hpb]
    rw [sa, sb]
    simp only [List.nodup_append, List.nodup_cons, List.mem_cons] at hnda hndb
    by_cases hx1 : x ∈ xs <;> by_cases hx2 : x ∈ ys
    · exact absurd hx2 (hd x hx1)
    · have h1 : x ∉ pre := fun h => hnda.2.2 x h x (Or.inr hx1) rfl
      have h2 : x ≠ c0 := fun h => hnda.2.1.1 (h ▸ hx1)
      simp [hx1, hx2, h1, h2]
    · have h1 : x ∉ pre := fun h => hndb.2.2 x h x (Or.inr hx2) rfl
      have h2 : x ≠ c0 := fun h => hndb.2.1.1 (h ▸ hx2)
      simp [hx1, hx2, h1, h2]
    · simp [hx1, hx2]

/-- every edge used by a path along neighbours is an edge of the tree -/
theorem pathEdges_are_edges {t : RTree} : ∀ {p : List Nat}, Chain (Adj t) p →
    ∀ e ∈ pathEdges p, ∃ par x, (par, x) ∈ edges t ∧ e = unord (par, x)
  | [], _, e, he => by simp at he
  | [_], _, e, he => by simp at he
  | a :: b :: l, hc, e, he => by
    have hc' := chain_cons_cons.mp hc
    simp only [pathEdges_cons_cons, List.mem_cons] at he
    rcases he with rfl | he
    · rcases hc'.1 with h | h
      · exact ⟨a, b, h, rfl⟩
      · exact ⟨b, a, h, unord_swap a b⟩
    · exact pathEdges_are_edges hc'.2 e he

theorem walkEdges_cons_cons (t : RTree) (a b : Nat) (rest : List Nat) :
    walkEdges t (a :: b :: rest) =
      (pathFromTo t a b).bind fun p => (walkEdges t (b :: rest)).map (fun w => pathEdges p ++ w) := by
  simp [walkEdges]

/-- the walk along a list of nodes of the tree exists, uses only edges of the tree, and crosses the
    edge above `x` as often as the list changes sides with respect to "below `x`" -/
theorem walkEdges_spec {t : RTree} (hwf : t.WF) : ∀ (l : List Nat), (∀ y ∈ l, y ∈ ids t) →
    ∃ w, walkEdges t l = some w ∧
      (∀ e ∈ w, ∃ par x, (par, x) ∈ edges t ∧ e = unord (par, x)) ∧
      ∀ par x, (par, x) ∈ edges t → w.count (unord (par, x)) = flips (belowB t x) l
  | [], _ => ⟨[], by simp [walkEdges], by simp, by simp [flips]⟩
  | [a], _ => ⟨[], by simp [walkEdges], by simp, by simp [flips]⟩
  | a :: b :: rest, h => by
    have ha := h a (by simp)
    have hb := h b (by simp)
    obtain ⟨p, hp, hsimple⟩ := pathFromTo_isSimplePath hwf ha hb
    obtain ⟨w, hw, hw1, hw2⟩ := walkEdges_spec hwf (b :: rest) (fun y hy => h y (by simp [hy]))
    refine ⟨pathEdges p ++ w, by simp [walkEdges_cons_cons, hp, hw], ?_, ?_⟩
    · intro e he
      rcases List.mem_append.mp he with he | he
      · exact pathEdges_are_edges hsimple.2.2.2.1 e he
      · exact hw1 e he
    · intro par x hpx
      rw [List.count_append, hw2 par x hpx, count_cut hwf hpx ha hb hp]
      simp [flips]

/-- `find_subtree_of_node` returns one of the subtrees -/
theorem subtreeAt_mem_subtrees (x : Nat) :
    (∀ t s, subtreeAt x t = some s → s ∈ subtrees t) ∧
    (∀ ts s, subtreeAtL x ts = some s → s ∈ subtreesL ts) := by
  apply induct
  · intro i ks ih s h
    rw [subtreeAt_node] at h
    by_cases hix : i = x
    · subst hix; simp at h; subst h; simp
    · simp [hix] at h
      simp [ih s h]
  · simp
  · intro t ts iht ihts s h
    rcases subtreeAtL_cons_cases x t ts with ⟨s', h1, h2⟩ | ⟨h1, h2⟩
    · rw [h2] at h; simp at h; subst h
      simp [iht _ h1]
    · rw [h2] at h
      simp [ihts s h]

/-- Walking the update path (from each node to the next along `path_from_to`) crosses no edge
    more than twice. -/
theorem updatePath_crossings (r : Nat) (ks : List RTree) (hwf : (node r ks).WF) :
    ∃ p w, updatePath (node r ks) = some p ∧ walkEdges (node r ks) p = some w ∧
      ∀ e, w.count e ≤ 2 := by
  obtain ⟨p, s, hp, _, hperm, _, _, hshape⟩ := updatePath_spec r ks hwf
  have hmem : ∀ y ∈ p, y ∈ ids (node r ks) := fun y hy => by simpa using hperm.subset hy
  obtain ⟨w, hw, hw1, hw2⟩ := walkEdges_spec hwf p hmem
  refine ⟨p, w, hp, hw, ?_⟩
  intro e
  by_cases he : e ∈ w
  · obtain ⟨par, x, hpx, rfl⟩ := hw1 e he
    rw [hw2 par x hpx]
    have hx := (edges_mem.1 _ par x hpx).2
    simp only [kids] at hx
    have hxt : x ∈ ids (node r ks) := by simp [hx]
    obtain ⟨sx, hsx⟩ := (subtreeAt_isSome x).1 _ hxt
    have hxr : ¬ r = x := by
      simp only [WF, ids_node, List.nodup_cons] at hwf
      exact fun e => hwf.1 (e ▸ hx)
    have hsub : sx ∈ subtreesL ks := by
      rw [subtreeAt_node] at hsx
      simp [hxr] at hsx
      exact (subtreeAt_mem_subtrees x).2 ks sx hsx
    apply flips_contig (updatePath_contig hwf hshape sx hsub)
    intro y
    rw [(subtreeAt_below x y).1 _ sx hwf hsx]
    simp only [belowB]
    cases hq : pathDown y (node r ks) with
    | none => simp
    | some q => simp
  · rw [List.count_eq_zero_of_not_mem he]; omega

end RTree
end Ptn.C17
