import Ptn.C17.RootStep
/-! The update path of a well-formed tree: completion, every node once, start, end. -/
namespace Ptn.C17
namespace RTree

theorem edges_kid_subset {r : Nat} {k : RTree} {e : Nat × Nat} :
    ∀ {ks : List RTree}, k ∈ ks → e ∈ edges k → e ∈ edgesL r ks
  | k0 :: ks0, hk, he => by
    rcases List.mem_cons.mp hk with rfl | hk
    · simp [he]
    · simp [edges_kid_subset hk he]

theorem depths_exists_of_mem {t : RTree} {d x : Nat} (hx : x ∈ ids t) : ∃ k, (x, k) ∈ depths d t := by
  rw [← depths_keys.1 t d] at hx
  obtain ⟨e, he, rfl⟩ := List.mem_map.mp hx
  exact ⟨e.2, he⟩

theorem depths_unique {t : RTree} (hwf : t.WF) {d x k k' : Nat} (h : (x, k) ∈ depths d t)
    (h' : (x, k') ∈ depths d t) : k = k' := by
  obtain ⟨p, hp, e⟩ := depths_value.1 t d x k hwf h
  obtain ⟨p', hp', e'⟩ := depths_value.1 t d x k' hwf h'
  rw [hp] at hp'; simp at hp'; subst hp'; omega

theorem isLeaf_iff {t : RTree} {y : Nat} : isLeaf t y = true ↔ ∀ e ∈ edges t, e.1 ≠ y := by
  simp [isLeaf]

/-- `find_start_node_id` returns a node of maximal depth, and such a node is a leaf. -/
theorem findStart_spec (t : RTree) (hwf : t.WF) :
    ∃ s v, findStart t = some s ∧ (s, v) ∈ depths 0 t ∧ (∀ e ∈ depths 0 t, e.2 ≤ v) ∧
      s ∈ ids t ∧ isLeaf t s = true := by
  have hne : depths 0 t ≠ [] := by cases t; simp
  obtain ⟨s, hs⟩ := argmaxFirst_isSome hne
  obtain ⟨v, hv, hmax⟩ := argmaxFirst_spec hs
  refine ⟨s, v, hs, hv, hmax, mem_ids_of_mem_depths hv, ?_⟩
  rw [isLeaf_iff]
  intro e he hes
  obtain ⟨p, x⟩ := e
  simp at hes; subst hes
  have hx := (edge_mem_ids he).2
  obtain ⟨k, hk⟩ := depths_exists_of_mem (d := 0) hx
  obtain ⟨q, h1, h2⟩ := pathDown_edge.1 t p x hwf he
  obtain ⟨p1, hp1, e1⟩ := depths_value.1 t 0 p v hwf hv
  obtain ⟨p2, hp2, e2⟩ := depths_value.1 t 0 x k hwf hk
  rw [h1] at hp1; rw [h2] at hp2
  simp at hp1 hp2; subst hp1; subst hp2
  have := hmax (x, k) hk
  simp at e1 e2 this
  omega

theorem getElem?_penultimate (l : List Nat) (a b : Nat) :
    (l ++ [a, b])[(l ++ [a, b]).length - 2]? = some a := by
  have : (l ++ [a, b]).length - 2 = l.length := by simp
  rw [this, List.getElem?_append_right (Nat.le_refl _)]
  simp

theorem mem_of_contains {l : List Nat} {x : Nat} (h : l.contains x = true) : x ∈ l := by
  simpa using h

/-- how the update path is put together -/
def UpShape (r : Nat) (ks : List RTree) (p : List Nat) (s : Nat) : Prop :=
  (ks = [] ∧ p = [r]) ∨
  (∃ ki up, ks = [ki] ∧ sweepUp s ki = some up ∧ p = up ++ [r]) ∨
  (∃ ki kj up dn f, ki ∈ ks ∧ kj ∈ ks ∧ ki.rid ≠ kj.rid ∧ sweepUp s ki = some up ∧
     sweepDown f kj = some dn ∧
     p = up ++ (postorderL (ks.filter (fun k => !(k.rid == ki.rid || k.rid == kj.rid)))
          ++ [r] ++ dn))

/-- The update path of a well-formed tree: it is computed without error, visits every node exactly
    once, starts at the start node, and ends at the root when the root has at most one child and
    at a leaf otherwise. -/
theorem updatePath_spec (r : Nat) (ks : List RTree) (hwf : (node r ks).WF) :
    ∃ p s, updatePath (node r ks) = some p ∧ findStart (node r ks) = some s ∧
      p.Perm (r :: idsL ks) ∧ p.head? = some s ∧
      ((ks.length ≤ 1 ∧ p.getLast? = some r) ∨
       (∃ f, p.getLast? = some f ∧ isLeaf (node r ks) f = true)) ∧ UpShape r ks p s := by
  cases ks with
  | nil =>
    refine ⟨[r], r, ?_, ?_, by simp, by simp, Or.inl (by simp), Or.inl ⟨rfl, rfl⟩⟩
    · simp [updatePath, findStart, argmaxFirst, argmaxGo, rootPath, upPart, rootDown,
        furthestNonVisitedLeaf, leavesOf, keepKids, downPart]
    · simp [findStart, argmaxFirst, argmaxGo]
  | cons k0 ks' =>
    generalize hks : k0 :: ks' = ks at *
    have hwf' := hwf
    simp only [WF, ids_node, List.nodup_cons] at hwf'
    obtain ⟨hr, hnd⟩ := hwf'
    have hrids := rids_nodup hnd
    obtain ⟨s, v, hs, hsv, hmax, hsm, hsleaf⟩ := findStart_spec (node r ks) hwf
    -- the start node is not the root
    have hsr : ¬ r = s := by
      intro e; subst e
      have h0 : (r, 0) ∈ depths 0 (node r ks) := by simp
      have hv0 := depths_unique hwf hsv h0
      have h1 : (k0.rid, 1) ∈ depths 0 (node r ks) := by
        subst hks; cases k0; simp [rid]
      have := hmax _ h1
      simp at this; omega
    have hsks : s ∈ idsL ks := by
      simp at hsm; rcases hsm with h | h
      · exact absurd h.symm hsr
      · exact h
    obtain ⟨ki, up, hki, hup, hfs⟩ := findSome_sweepUp hsks
    obtain ⟨hupperm, hski, huphead⟩ := ((sweepUp_spec s).1 ki).1 up hup
    have huphead' : up.head? = some s := by
      apply huphead
      intro e he
      exact (isLeaf_iff.mp hsleaf) e (by simpa using edges_kid_subset (r := r) hki he)
    have hupPart : upPart s r ks = some up := by simp [upPart, hsr, hfs]
    obtain ⟨q, _, hpds⟩ := pathDown_via_kid hwf hki hski
    have hmp : rootPath (node r ks) s = some (q.reverse ++ [ki.rid, r]) := by
      simp [rootPath, hpds]
    by_cases hlen : ks.length = 1
    · -- the root has one child: the path ends at the root
      have hrd : rootDown (node r ks) r ks (q.reverse ++ [ki.rid, r]) up = some [r] := by
        simp [rootDown, hlen]
      have hks1 : ks = [ki] := by
        cases ks with
        | nil => simp at hlen
        | cons a l =>
          cases l with
          | nil => simp at hki; simp [hki]
          | cons b l' => simp at hlen
      refine ⟨up ++ [r], s, ?_, hs, ?_, ?_, Or.inl ⟨by omega, by simp⟩,
        Or.inr (Or.inl ⟨ki, up, hks1, hup, rfl⟩)⟩
      · simp only [updatePath, hs, hmp, hupPart, hrd, Option.bind_some]
      · rw [hks1]
        simp only [idsL_cons, idsL_nil, List.append_nil]
        exact (List.perm_append_comm).trans (by simpa using hupperm)
      · cases up with
        | nil => simp at huphead'
        | cons y l => simpa using huphead'
    · -- at least two children
      have hlen2 : 2 ≤ ks.length := by
        have : ks.length ≠ 0 := by subst hks; simp
        omega
      obtain ⟨kj0, hkj0, hne0⟩ := exists_other_kid hrids hlen2 ki.rid
      have hleavest : leavesOf (node r ks) = leavesOfL ks := by
        rw [leavesOf_node]; subst hks; simp
      -- a leaf outside the first branch exists, so the search for the final leaf succeeds
      have hdisj : ∀ {kj : RTree}, kj ∈ ks → kj.rid ≠ ki.rid → ∀ x ∈ ids kj, x ∉ up := by
        intro kj hkj hne x hx hxu
        have hp2 := idsL_remove_two hrids hki hkj (Ne.symm hne)
        have hnd2 := hp2.nodup hnd
        rw [List.nodup_append] at hnd2
        have hnd3 := hnd2.1
        rw [List.nodup_append] at hnd3
        exact hnd3.2.2 x (hupperm.subset hxu) x hx rfl
      have hcand : (depths 0 (node r ks)).filter
          (fun e => (leavesOf (node r ks)).contains e.1 && !up.contains e.1) ≠ [] := by
        obtain ⟨l, hl⟩ := List.exists_mem_of_ne_nil _ (leavesOf_ne_nil.1 kj0)
        have hlk := leavesOf_subset.1 kj0 l hl
        have hlt : l ∈ ids (node r ks) := by simp [ids_subset_idsL hkj0 l hlk]
        obtain ⟨d, hd⟩ := depths_exists_of_mem (d := 0) hlt
        apply List.ne_nil_of_mem (a := (l, d))
        rw [List.mem_filter]
        refine ⟨hd, ?_⟩
        have h1 : l ∈ leavesOf (node r ks) := hleavest ▸ leavesOfL_of_mem hkj0 hl
        have h2 : l ∉ up := hdisj hkj0 hne0 l hlk
        simp [h1, h2]
      obtain ⟨f, hf⟩ := argmaxFirst_isSome hcand
      obtain ⟨vf, hfv, _⟩ := argmaxFirst_spec hf
      rw [List.mem_filter] at hfv
      have hfleaf : f ∈ leavesOf (node r ks) := by
        have := hfv.2; simp at this; exact this.1
      have hfup : f ∉ up := by
        have := hfv.2; simp at this; exact this.2
      obtain ⟨kj, hkj, hfkj⟩ := leavesOfL_mem (hleavest ▸ hfleaf)
      have hfkj' := leavesOf_subset.1 kj f hfkj
      have hne : kj.rid ≠ ki.rid := by
        intro e
        have := eq_of_rid_eq hrids hkj hki e
        subst this
        exact hfup (hupperm.symm.subset hfkj')
      have hfur : furthestNonVisitedLeaf (node r ks) up = some f := hf
      obtain ⟨qf, _, hpdf⟩ := pathDown_via_kid hwf hkj hfkj'
      have hkeep : keepKids ks (q.reverse ++ [ki.rid, r]) (r :: kj.rid :: qf)
          = some (ks.filter (fun k => !(k.rid == ki.rid || k.rid == kj.rid))) := by
        have hne' : ks.isEmpty = false := by subst hks; simp
        have h2 : 2 ≤ (q.reverse ++ [ki.rid, r]).length := by simp
        simp only [keepKids, hne', h2, if_true, getElem?_penultimate]
        simp
      obtain ⟨dn, hdn⟩ : ∃ dn, sweepDown f kj = some dn := by
        cases h : sweepDown f kj with
        | some dn => exact ⟨dn, rfl⟩
        | none => exact absurd hfkj' (((sweepDown_spec f).1 kj).2 h)
      obtain ⟨hdnperm, _, hdnlast⟩ := ((sweepDown_spec f).1 kj).1 dn hdn
      have hdown : downPart f ks (r :: kj.rid :: qf) = some dn := by
        simp [downPart, find_by_rid hrids hkj, hdn]
      have hrd : rootDown (node r ks) r ks (q.reverse ++ [ki.rid, r]) up
          = some (postorderL (ks.filter (fun k => !(k.rid == ki.rid || k.rid == kj.rid)))
              ++ [r] ++ dn) := by
        have : (ks.length == 1) = false := by simp [hlen]
        simp only [rootDown, this, hfur, hpdf, hkeep, hdown, Option.bind_some]
        simp
      refine ⟨up ++ (postorderL (ks.filter (fun k => !(k.rid == ki.rid || k.rid == kj.rid)))
          ++ [r] ++ dn), s, ?_, hs, ?_, ?_, Or.inr ⟨f, ?_, ?_⟩,
        Or.inr (Or.inr ⟨ki, kj, up, dn, f, hki, hkj, Ne.symm hne, hup, hdn, rfl⟩)⟩
      · simp only [updatePath, hs, hmp, hupPart, hrd, Option.bind_some]
      · have hp2 := idsL_remove_two hrids hki hkj (Ne.symm hne)
        apply List.perm_iff_count.mpr
        intro a
        have c1 := hupperm.count_eq a
        have c2 := hdnperm.count_eq a
        have c3 := (postorder_perm.2
          (ks.filter (fun k => !(k.rid == ki.rid || k.rid == kj.rid)))).count_eq a
        have c4 := hp2.count_eq a
        simp only [List.count_append, List.count_cons, List.count_nil] at c1 c2 c3 c4 ⊢
        omega
      · cases up with
        | nil => simp at huphead'
        | cons y l => simpa using huphead'
      · cases dn with
        | nil => simp at hdnlast
        | cons y l =>
          rw [List.getLast?_append, List.getLast?_append]
          simp [hdnlast]
      · have := leavesOf_eq_filter.1 (node r ks) hwf
        rw [this, List.mem_filter] at hfleaf
        exact hfleaf.2

/-- the start node is at least as far from the root as every other node -/
theorem findStart_deepest (t : RTree) (hwf : t.WF) {s : Nat} (hs : findStart t = some s) :
    ∀ y py, rootPath t y = some py → ∃ ps, rootPath t s = some ps ∧ py.length ≤ ps.length := by
  obtain ⟨s', v, hs', hsv, hmax, _, _⟩ := findStart_spec t hwf
  rw [hs] at hs'; simp at hs'; subst hs'
  intro y py hy
  simp only [rootPath, Option.map_eq_some_iff] at hy
  obtain ⟨qy, hqy, rfl⟩ := hy
  obtain ⟨k, hk⟩ := depths_exists_of_mem (d := 0) (mem_of_pathDown hqy)
  obtain ⟨p1, hp1, e1⟩ := depths_value.1 t 0 y k hwf hk
  obtain ⟨p2, hp2, e2⟩ := depths_value.1 t 0 s v hwf hsv
  rw [hqy] at hp1; simp at hp1; subst hp1
  have := hmax _ hk
  refine ⟨p2.reverse, by simp [rootPath, hp2], ?_⟩
  simp at this ⊢
  omega

/-! ### degrees -/

theorem filter_touch_le_one {f : Nat} : ∀ {E : List (Nat × Nat)}, (E.map (·.2)).Nodup →
    (∀ e ∈ E, e.1 ≠ f) → (E.filter (fun e => e.1 == f || e.2 == f)).length ≤ 1
  | [], _, _ => by simp
  | e :: E, hnd, hsrc => by
    simp only [List.map_cons, List.nodup_cons, List.mem_map, not_exists, not_and] at hnd
    have h1 : ¬ e.1 = f := hsrc e (by simp)
    have ih := filter_touch_le_one hnd.2 (fun e' he' => hsrc e' (by simp [he']))
    by_cases h2 : e.2 = f
    · have : E.filter (fun e => e.1 == f || e.2 == f) = [] := by
        apply List.filter_eq_nil_iff.mpr
        intro e' he'
        have a1 : ¬ e'.1 = f := hsrc e' (by simp [he'])
        have a2 : ¬ e'.2 = f := fun h => hnd.1 e' he' (h.trans h2.symm)
        simp [a1, a2]
      simp [List.filter_cons, h1, h2, this]
    · simp [List.filter_cons, h1, h2]
      exact ih

/-- the lower end points of the edges are the nodes other than the root, each once -/
theorem edges_targets :
    (∀ t, ((edges t).map (·.2)).Perm (idsL t.kids)) ∧
    (∀ ts i, ((edgesL i ts).map (·.2)).Perm (idsL ts)) := by
  apply induct
  · intro i ks ih
    simpa [kids] using ih i
  · simp
  · intro t ts iht ihts i
    simp only [edgesL_cons, List.map_cons, List.map_append, idsL_cons]
    rw [ids_eq_rid_cons t]
    exact List.Perm.cons _ (iht.append (ihts i))

theorem degree_leaf {t : RTree} (hwf : t.WF) {f : Nat} (hf : isLeaf t f = true) :
    degree t f ≤ 1 := by
  apply filter_touch_le_one
  · have hp := edges_targets.1 t
    apply hp.symm.nodup
    have : (ids t).Nodup := hwf
    rw [ids_eq_rid_cons] at this
    exact (List.nodup_cons.mp this).2
  · exact isLeaf_iff.mp hf

theorem degree_root_le_one {r : Nat} {ks : List RTree} (hwf : (node r ks).WF)
    (hlen : ks.length ≤ 1) : degree (node r ks) r ≤ 1 := by
  simp only [WF, ids_node, List.nodup_cons] at hwf
  cases ks with
  | nil => simp [degree]
  | cons k l =>
    cases l with
    | cons _ _ => simp at hlen
    | nil =>
      have : (edges k).filter (fun e => e.1 == r || e.2 == r) = [] := by
        apply List.filter_eq_nil_iff.mpr
        intro e he
        have h := edge_mem_ids (t := k) (p := e.1) (x := e.2) he
        have a1 : ¬ e.1 = r := fun h' => hwf.1 (by simp [← h', h.1])
        have a2 : ¬ e.2 = r := fun h' => hwf.1 (by simp [← h', h.2])
        simp [a1, a2]
      simp [degree, List.filter_cons, this]

end RTree
end Ptn.C17
