/-! Model for property C17 (core Lean only; no Mathlib). -/
namespace Ptn.C17
end Ptn.C17
