/-! Model for property C17: tree navigation (`pytreenet/core/tree_structure.py`), the TDVP update
path (`pytreenet/time_evolution/time_evo_util/update_path.py`) and the keys created by
`SandwichCache.init_cache_but_one` (`pytreenet/contractions/sandwich_caching.py`).
Core Lean only.

Two models live here, both executable and both compared with the code on every run:

* `FTree` - the *flat mirror* of `TreeStructure`: the `_nodes` dict as an association list in dict
  insertion order, every node with `parent : Option Nat` and `children : List Nat`, plus `root_id`.
  The Python routines are ported line by line on it (`…F`); recursion over the object graph is
  bounded by fuel (`#nodes + 1`), `KeyError`/`IndexError`/`AssertionError`/`ValueError` are `none`.
* `RTree` - ordered rooted trees.  The specifications (adjacency, simple paths, degree, depth) and a
  *structural* version of every routine whose result does not depend on the dict order live here;
  the theorems of `Props.lean` are about these.  The list algorithms that carry the delicate logic
  (`mergeRootPaths`: duplicate count and the two slices of `path_from_to`; `argmaxFirst`:
  `max(d, key=d.get)`; `dictUpdate`) are shared by both models.
-/
namespace Ptn.C17

/-! ## List algorithms shared by both models -/

/-- Python `l[:k]` for an integer stop `k` (negative: counted from the end, clipped at 0). -/
def pySliceTo (l : List Nat) (k : Int) : List Nat :=
  if 0 ≤ k then l.take k.toNat else l.take (l.length - k.natAbs)

/-- `len([j for j in combined if combined.count(j) != 1]) // 2` -/
def numDuplicates (combined : List Nat) : Nat :=
  (combined.filter (fun j => combined.count j != 1)).length / 2

/-- The body of `path_from_to` after the two root paths are known. -/
def mergeRootPaths (p1 p2 : List Nat) : List Nat :=
  let d : Int := (numDuplicates (p1 ++ p2) : Nat)
  let s1 := if -d + 1 != 0 then pySliceTo p1 (-d + 1) else p1
  let s2 := pySliceTo p2 (-d)
  s1 ++ s2.reverse

/-- `max(d, key=d.get)` for a dict given as association list: the first key with the largest
    value; `none` (ValueError) on the empty dict. -/
def argmaxGo (bk bv : Nat) : List (Nat × Nat) → Nat
  | [] => bk
  | (k, v) :: rest => if bv < v then argmaxGo k v rest else argmaxGo bk bv rest

def argmaxFirst : List (Nat × Nat) → Option Nat
  | [] => none
  | (k, v) :: rest => some (argmaxGo k v rest)

/-- `d[k] = v` on an insertion-ordered dict. -/
def dictSet (d : List (Nat × Nat)) (k v : Nat) : List (Nat × Nat) :=
  if d.any (fun e => e.1 == k) then d.map (fun e => if e.1 == k then (k, v) else e)
  else d ++ [(k, v)]

/-- `d.update(new)` -/
def dictUpdate (d new : List (Nat × Nat)) : List (Nat × Nat) :=
  new.foldl (fun acc e => dictSet acc e.1 e.2) d

def incr (d : List (Nat × Nat)) : List (Nat × Nat) := d.map (fun e => (e.1, e.2 + 1))

/-! ## The flat mirror -/

structure GNode where
  parent : Option Nat
  children : List Nat
deriving Repr, BEq, DecidableEq

/-- `neighbouring_nodes()`: the parent first, then the children. -/
def GNode.neighbours (n : GNode) : List Nat := n.parent.toList ++ n.children

structure FTree where
  nodes : List (Nat × GNode)
  root : Option Nat

namespace FTree

def get? (ft : FTree) (x : Nat) : Option GNode := ft.nodes.lookup x
def fuel (ft : FTree) : Nat := ft.nodes.length + 1

/-- `find_path_to_root` -/
def findPathToRootF (ft : FTree) : Nat → Nat → Option (List Nat)
  | 0, _ => none
  | f + 1, x => do
    let n ← ft.get? x
    match n.parent with
    | none => some [x]
    | some p => do
      let rest ← findPathToRootF ft f p
      some (x :: rest)

def findPathToRoot (ft : FTree) (x : Nat) : Option (List Nat) := findPathToRootF ft ft.fuel x

/-- `path_from_to` -/
def pathFromTo (ft : FTree) (a b : Nat) : Option (List Nat) :=
  if a = b then some [a] else do
    let p1 ← ft.findPathToRoot a
    let p2 ← ft.findPathToRoot b
    some (mergeRootPaths p1 p2)

/-- `_distance_to_node_rec(center, last)` -/
def distRecF (ft : FTree) : Nat → Nat → Nat → Option (List (Nat × Nat))
  | 0, _, _ => none
  | f + 1, c, last => do
    let n ← ft.get? c
    let nbs := n.neighbours
    if !nbs.contains last then none else        -- list.remove raises ValueError
    (nbs.erase last).foldlM (fun dd nb => do
        let sub ← distRecF ft f nb c
        pure (dictUpdate dd (incr sub))) [(c, 0)]

/-- `distance_to_node` -/
def distanceToNode (ft : FTree) (c : Nat) : Option (List (Nat × Nat)) := do
  let n ← ft.get? c                                -- ensure_existence
  n.neighbours.foldlM (fun dd nb => do
      let sub ← distRecF ft ft.fuel nb c
      pure (dictUpdate dd (incr sub))) [(c, 0)]

/-- `find_subtree_of_node` (keys of the returned dict, in order; dict keys are merged) -/
def subtreeF (ft : FTree) : Nat → Nat → Option (List Nat)
  | 0, _ => none
  | f + 1, x => do
    let n ← ft.get? x
    if n.children.isEmpty then some [x] else
    n.children.foldlM (fun acc c => do
        let sub ← subtreeF ft f c
        pure (acc ++ sub.filter (fun k => !acc.contains k))) [x]

def subtree (ft : FTree) (x : Nat) : Option (List Nat) := subtreeF ft ft.fuel x

/-- `leaves_under_node` -/
def leavesUnderF (ft : FTree) : Nat → Nat → Option (List Nat)
  | 0, _ => none
  | f + 1, x => do
    let n ← ft.get? x
    if n.children.isEmpty then some [x] else
    n.children.foldlM (fun acc c => do
        let sub ← leavesUnderF ft f c
        pure (acc ++ sub.filter (fun k => !acc.contains k))) []

def leavesUnder (ft : FTree) (x : Nat) : Option (List Nat) := leavesUnderF ft ft.fuel x

/-- `find_subtree_size_of_node` -/
def subtreeSizeF (ft : FTree) : Nat → Nat → Option Nat
  | 0, _ => none
  | f + 1, x => do
    let n ← ft.get? x
    if n.children.isEmpty then some 1 else
    n.children.foldlM (fun acc c => do
        let s ← subtreeSizeF ft f c
        pure (acc + s)) 1

def subtreeSize (ft : FTree) (x : Nat) : Option Nat := subtreeSizeF ft ft.fuel x

/-- `get_leaves` (dict order) -/
def getLeaves (ft : FTree) : List Nat :=
  (ft.nodes.filter (fun e => e.2.children.isEmpty)).map (·.1)

/-- `nearest_neighbours` (dict order, then child order) -/
def nearestNeighbours (ft : FTree) : List (Nat × Nat) :=
  ft.nodes.flatMap (fun e => e.2.children.map (fun c => (e.1, c)))

/-- `_linearised_rec` -/
def lineariseF (ft : FTree) : Nat → Nat → Option (List Nat)
  | 0, _ => none
  | f + 1, x => do
    let n ← ft.get? x
    let below ← n.children.foldlM (fun acc c => do
        let sub ← lineariseF ft f c
        pure (acc ++ sub)) []
    some (below ++ [x])

/-- `linearise` -/
def linearise (ft : FTree) : Option (List Nat) :=
  match ft.root with
  | none => some []
  | some r => lineariseF ft ft.fuel r

/-! ### `TDVPUpdatePathFinder` -/

/-- `find_start_node_id` -/
def findStart (ft : FTree) : Option Nat := do
  let r ← ft.root                      -- ensure_existence(None) raises
  let d ← ft.distanceToNode r
  argmaxFirst d

/-- `_path_for_branch_rec` -/
def branchRecF (ft : FTree) : Nat → Nat → Option (List Nat)
  | 0, _ => none
  | f + 1, x => do
    let n ← ft.get? x
    if n.children.isEmpty then some [x] else do
    let below ← n.children.foldlM (fun acc c => do
        let sub ← branchRecF ft f c
        pure (acc ++ sub)) []
    some (below ++ [x])

def branchRec (ft : FTree) (x : Nat) : Option (List Nat) := branchRecF ft ft.fuel x

def branchesThen (ft : FTree) (childIds : List Nat) (origin : Nat) : Option (List Nat) := do
  let below ← childIds.foldlM (fun acc c => do
      let sub ← ft.branchRec c
      pure (acc ++ sub)) []
  some (below ++ [origin])

/-- `path_for_branch` -/
def pathForBranch (ft : FTree) (mainPath : List Nat) (origin : Nat) : Option (List Nat) := do
  let n ← ft.get? origin
  ft.branchesThen (n.children.filter (fun c => !mainPath.contains c)) origin

/-- `find_furthest_non_visited_leaf` -/
def furthestNonVisitedLeaf (ft : FTree) (path : List Nat) : Option Nat := do
  let nonVisited := ft.getLeaves.filter (fun l => !path.contains l)
  let r ← ft.root
  let d ← ft.distanceToNode r
  let leafD := d.filter (fun e => nonVisited.contains e.1)
  argmaxFirst leafD                      -- the assert and max() of an empty dict both raise

/-- `find_main_path_down_from_root` -/
def mainPathDown (ft : FTree) (path : List Nat) : Option (List Nat) := do
  let fin ← ft.furthestNonVisitedLeaf path
  let p ← ft.findPathToRoot fin
  some p.reverse

/-- `_branch_downwards_origin_is_root`: the tuple `(main_path[-2], main_path_down[1])` is evaluated
    once per child, so it raises only if the root has a child. -/
def branchDownRoot (ft : FTree) (mainPath mpd : List Nat) : Option (List Nat) := do
  let r ← ft.root
  let n ← ft.get? r
  let keep ← if n.children.isEmpty then some [] else do
      let a ← if 2 ≤ mainPath.length then mainPath[mainPath.length - 2]? else none
      let b ← mpd[1]?
      some (n.children.filter (fun c => !(c == a || c == b)))
  ft.branchesThen keep r

/-- `_branch_path_downwards` -/
def branchDown (ft : FTree) (origin : Nat) (mpd : List Nat) : Option (List Nat) := do
  let n ← ft.get? origin
  ft.branchesThen (n.children.filter (fun c => !mpd.contains c)) origin

/-- `path_down_from_root` -/
def pathDownFromRoot (ft : FTree) (mainPath path : List Nat) : Option (List Nat) := do
  let r ← ft.root
  let n ← ft.get? r
  if n.children.length == 1 then some [r] else do
  let mpd ← ft.mainPathDown path
  mpd.foldlM (fun acc origin => do
      let bp ← if origin == r then ft.branchDownRoot mainPath mpd else ft.branchDown origin mpd
      pure (acc ++ bp)) []

/-- `__init__` (start, main_path) and `find_path` -/
def updatePath (ft : FTree) : Option (List Nat) := do
  let start ← ft.findStart
  let mainPath ← ft.findPathToRoot start
  mainPath.foldlM (fun path origin => do
      let ext ← if some origin != ft.root then ft.pathForBranch mainPath origin
                else ft.pathDownFromRoot mainPath path
      pure (path ++ ext)) []

/-! ### `_find_caching_path` / `init_cache_but_one` (keys only) -/

/-- `_find_caching_path_rec`; state = (caching_path, next_id_dict) -/
def cachingRecF (ft : FTree) (initialPath : List Nat) :
    Nat → Nat → List Nat × List (Nat × Nat) → Option (List Nat × List (Nat × Nat))
  | 0, _, _ => none
  | f + 1, x, st => do
    let n ← ft.get? x
    let newChildren := n.children.filter (fun c => !initialPath.contains c)
    let (cp, nd) ← newChildren.foldlM (fun st c => cachingRecF ft initialPath f c st) st
    let last ← initialPath.getLast?
    let nd ← if !(nd.any (fun e => e.1 == x)) && x != last then
               (match n.parent with
                | none => none                       -- assert node.parent is not None
                | some p => some (dictSet nd x p))
             else some nd
    some (cp ++ [x], nd)

/-- keys of the cache after `init_cache_but_one(state, hamiltonian, left_out)`, in creation order -/
def cacheKeys (ft : FTree) (leftOut : Nat) : Option (List (Nat × Nat)) := do
  let up ← ft.findPathToRoot leftOut
  let initialPath := up.reverse
  let nd0 := (initialPath.zip (initialPath.drop 1))
  let (cp, nd) ← initialPath.foldlM (fun st x => cachingRecF ft initialPath ft.fuel x st) ([], nd0)
  cp.dropLast.mapM (fun x => do
      let nxt ← nd.lookup x
      pure (x, nxt))

/-- the segments of the TDVP sweep: `(u_i, orthogonalization_path[i][0])` for `i < m - 1`, where
    `orthogonalization_path[i] = path_from_to(u_i, u_{i+1})[1:]` -/
def segsAlong (ft : FTree) : List Nat → Option (List (Nat × Nat))
  | a :: b :: rest => do
    let p ← ft.pathFromTo a b
    let h ← p[1]?
    let more ← segsAlong ft (b :: rest)
    some ((a, h) :: more)
  | _ => some []

def segs (ft : FTree) : Option (List (Nat × Nat) × Nat) := do
  let up ← ft.updatePath
  let sg ← ft.segsAlong up
  let last ← up.getLast?
  some (sg, last)

end FTree

/-! ## Ordered rooted trees: specifications and structural versions -/

inductive RTree where
  | node (id : Nat) (kids : List RTree)
deriving Repr

namespace RTree

def rid : RTree → Nat
  | node i _ => i

def kids : RTree → List RTree
  | node _ ks => ks

mutual
/-- node identifiers in pre-order -/
def ids : RTree → List Nat
  | node i ks => i :: idsL ks
def idsL : List RTree → List Nat
  | [] => []
  | t :: ts => ids t ++ idsL ts
end

/-- identifiers are distinct: the trees `TreeStructure` can hold -/
def WF (t : RTree) : Prop := (ids t).Nodup

instance (t : RTree) : Decidable (WF t) := by unfold WF; infer_instance

mutual
/-- (parent, child) pairs -/
def edges : RTree → List (Nat × Nat)
  | node i ks => edgesL i ks
def edgesL (p : Nat) : List RTree → List (Nat × Nat)
  | [] => []
  | t :: ts => (p, t.rid) :: (edges t ++ edgesL p ts)
end

/-- adjacency of the underlying undirected graph -/
def Adj (t : RTree) (a b : Nat) : Prop := (a, b) ∈ edges t ∨ (b, a) ∈ edges t

instance (t : RTree) (a b : Nat) : Decidable (Adj t a b) := by unfold Adj; infer_instance

/-- consecutive elements are related -/
def Chain (R : Nat → Nat → Prop) : List Nat → Prop
  | [] => True
  | [_] => True
  | a :: b :: rest => R a b ∧ Chain R (b :: rest)

def decChain (R : Nat → Nat → Prop) [∀ a b, Decidable (R a b)] :
    (l : List Nat) → Decidable (Chain R l)
  | [] => .isTrue (by simp [Chain])
  | [_] => .isTrue (by simp [Chain])
  | a :: b :: rest =>
    have := decChain R (b :: rest)
    decidable_of_iff (R a b ∧ Chain R (b :: rest)) (by simp [Chain])

instance (R : Nat → Nat → Prop) [∀ a b, Decidable (R a b)] (l : List Nat) :
    Decidable (Chain R l) := decChain R l

/-- `p` is a simple path from `a` to `b` in the graph of `t` -/
def IsSimplePath (t : RTree) (p : List Nat) (a b : Nat) : Prop :=
  p.head? = some a ∧ p.getLast? = some b ∧ (∀ x ∈ p, x ∈ ids t) ∧
    Chain (Adj t) p ∧ p.Nodup

instance (t : RTree) (p : List Nat) (a b : Nat) : Decidable (IsSimplePath t p a b) := by
  unfold IsSimplePath; infer_instance

/-- `y` has no child -/
def isLeaf (t : RTree) (y : Nat) : Bool := (edges t).all (fun e => e.1 != y)

/-- an edge without its orientation -/
def unord (e : Nat × Nat) : Nat × Nat := if e.1 ≤ e.2 then e else (e.2, e.1)

/-- number of neighbours -/
def degree (t : RTree) (x : Nat) : Nat :=
  ((edges t).filter (fun e => e.1 == x || e.2 == x)).length

mutual
/-- `linearise` / `_path_for_branch_rec`: children (in order) before the node -/
def postorder : RTree → List Nat
  | node i ks => postorderL ks ++ [i]
def postorderL : List RTree → List Nat
  | [] => []
  | t :: ts => postorder t ++ postorderL ts
end

mutual
/-- `distance_to_node(root)`: (id, depth) in pre-order -/
def depths : Nat → RTree → List (Nat × Nat)
  | d, node i ks => (i, d) :: depthsL (d + 1) ks
def depthsL : Nat → List RTree → List (Nat × Nat)
  | _, [] => []
  | d, t :: ts => depths d t ++ depthsL d ts
end

mutual
/-- the path from the root down to `a` -/
def pathDown (a : Nat) : RTree → Option (List Nat)
  | node i ks => if i = a then some [i] else (pathDownL a ks).map (fun p => i :: p)
def pathDownL (a : Nat) : List RTree → Option (List Nat)
  | [] => none
  | t :: ts =>
    match pathDown a t with
    | some p => some p
    | none => pathDownL a ts
end

/-- `x` lies on the way from the root to `y`: `y` is `x` or a descendant of `x` -/
def IsBelow (t : RTree) (x y : Nat) : Prop := ∃ p, pathDown y t = some p ∧ x ∈ p

/-- `find_path_to_root` -/
def rootPath (t : RTree) (a : Nat) : Option (List Nat) := (pathDown a t).map List.reverse

/-- `path_from_to` -/
def pathFromTo (t : RTree) (a b : Nat) : Option (List Nat) :=
  if a = b then some [a] else do
    let p1 ← rootPath t a
    let p2 ← rootPath t b
    some (mergeRootPaths p1 p2)

mutual
def subtreeAt (a : Nat) : RTree → Option RTree
  | node i ks => if i = a then some (node i ks) else subtreeAtL a ks
def subtreeAtL (a : Nat) : List RTree → Option RTree
  | [] => none
  | t :: ts =>
    match subtreeAt a t with
    | some s => some s
    | none => subtreeAtL a ts
end

mutual
/-- `leaves_under_node` of the root -/
def leavesOf : RTree → List Nat
  | node i ks => if ks.isEmpty then [i] else leavesOfL ks
def leavesOfL : List RTree → List Nat
  | [] => []
  | t :: ts => leavesOf t ++ leavesOfL ts
end

mutual
/-- `find_subtree_size_of_node` of the root -/
def size : RTree → Nat
  | node _ ks => if ks.isEmpty then 1 else 1 + sizeL ks
def sizeL : List RTree → Nat
  | [] => 0
  | t :: ts => size t + sizeL ts
end

/-- `find_subtree_of_node` (keys) -/
def subtreeIds (t : RTree) (x : Nat) : Option (List Nat) := (subtreeAt x t).map ids
/-- `leaves_under_node` (keys) -/
def leavesUnder (t : RTree) (x : Nat) : Option (List Nat) := (subtreeAt x t).map leavesOf
/-- `find_subtree_size_of_node` -/
def subtreeSize (t : RTree) (x : Nat) : Option Nat := (subtreeAt x t).map size

mutual
/-- The tree re-rooted at `c`; `up` is the (already re-rooted) part above, hung in first as the
    parent comes first in `neighbouring_nodes()`. -/
def reroot (c : Nat) : List RTree → RTree → Option RTree
  | up, node i ks => if i = c then some (node i (up ++ ks)) else rerootL c i up [] ks
def rerootL (c i : Nat) (up : List RTree) : List RTree → List RTree → Option RTree
  | _, [] => none
  | pre, k :: post =>
    match reroot c [node i (up ++ pre ++ post)] k with
    | some r => some r
    | none => rerootL c i up (pre ++ [k]) post
end

/-- `distance_to_node(c)` -/
def distanceToNode (t : RTree) (c : Nat) : Option (List (Nat × Nat)) :=
  (reroot c [] t).map (depths 0)

/-! ### The update path -/

mutual
/-- Upward sweep inside a subtree: from the start node `s` up to the root of the subtree, every
    branch off the way in post-order before its origin (`path_for_branch` along `main_path`). -/
def sweepUp (s : Nat) : RTree → Option (List Nat)
  | node r ks => if r = s then some (postorderL ks ++ [r]) else sweepUpL s r [] ks
def sweepUpL (s r : Nat) : List RTree → List RTree → Option (List Nat)
  | _, [] => none
  | pre, k :: post =>
    match sweepUp s k with
    | some p => some (p ++ postorderL (pre ++ post) ++ [r])
    | none => sweepUpL s r (pre ++ [k]) post
end

mutual
/-- Downward sweep inside a subtree toward the final leaf `f` (`_branch_path_downwards` along
    `main_path_down`). -/
def sweepDown (f : Nat) : RTree → Option (List Nat)
  | node x ks => if x = f then some (postorderL ks ++ [x]) else sweepDownL f x [] ks
def sweepDownL (f x : Nat) : List RTree → List RTree → Option (List Nat)
  | _, [] => none
  | pre, k :: post =>
    match sweepDown f k with
    | some p => some (postorderL (pre ++ post) ++ [x] ++ p)
    | none => sweepDownL f x (pre ++ [k]) post
end

/-- `find_start_node_id` -/
def findStart (t : RTree) : Option Nat := argmaxFirst (depths 0 t)

/-- `find_furthest_non_visited_leaf` -/
def furthestNonVisitedLeaf (t : RTree) (path : List Nat) : Option Nat :=
  argmaxFirst ((depths 0 t).filter (fun e => (leavesOf t).contains e.1 && !path.contains e.1))

/-- loop of `find_path` over `main_path[:-1]` (nothing to do when the start node is the root) -/
def upPart (s r : Nat) (ks : List RTree) : Option (List Nat) :=
  if r = s then some [] else ks.findSome? (sweepUp s)

/-- children of the root kept by `_branch_downwards_origin_is_root`: those different from
    `main_path[-2]` and `main_path_down[1]`; the tuple is only evaluated if the root has a child -/
def keepKids (ks : List RTree) (mainPath mpd : List Nat) : Option (List RTree) :=
  if ks.isEmpty then some [] else
    match (if 2 ≤ mainPath.length then mainPath[mainPath.length - 2]? else none), mpd[1]? with
    | some a, some b => some (ks.filter (fun k => !(k.rid == a || k.rid == b)))
    | _, _ => none

/-- the nodes of `main_path_down` below the root with their branches -/
def downPart (f : Nat) (ks : List RTree) (mpd : List Nat) : Option (List Nat) :=
  match mpd with
  | _ :: b :: _ => (ks.find? (fun k => k.rid == b)).bind (sweepDown f)
  | _ => some []

/-- `path_down_from_root(path)`; the step at the root is written as in the Python -/
def rootDown (t : RTree) (r : Nat) (ks : List RTree) (mainPath up : List Nat) :
    Option (List Nat) :=
  if ks.length == 1 then some [r] else
    (furthestNonVisitedLeaf t up).bind fun f =>
    (pathDown f t).bind fun mpd =>
    (keepKids ks mainPath mpd).bind fun keep =>
    (downPart f ks mpd).bind fun down =>
    some (postorderL keep ++ [r] ++ down)

/-- `TDVPUpdatePathFinder(t).find_path()`.  The sweeps inside the subtrees are the structural
    recursions above. -/
def updatePath : RTree → Option (List Nat)
  | node r ks =>
    (findStart (node r ks)).bind fun s =>
    (rootPath (node r ks) s).bind fun mainPath =>
    (upPart s r ks).bind fun up =>
    (rootDown (node r ks) r ks mainPath up).bind fun dn =>
    some (up ++ dn)

/-- the edges (orientation forgotten) along a list of nodes -/
def pathEdges : List Nat → List (Nat × Nat)
  | a :: b :: rest => unord (a, b) :: pathEdges (b :: rest)
  | _ => []

/-- all edge crossings when walking from every node of the list to the next one along
    `path_from_to` (what TDVP does with the orthogonality centre between two updates) -/
def walkEdges (t : RTree) : List Nat → Option (List (Nat × Nat))
  | a :: b :: rest =>
    (pathFromTo t a b).bind fun p => (walkEdges t (b :: rest)).map (fun w => pathEdges p ++ w)
  | _ => some []

/-- the first node after `a` on the way to `b`: `path_from_to(a, b)[1]` -/
def firstHop (t : RTree) (a b : Nat) : Option Nat := (pathFromTo t a b).bind (fun p => p[1]?)

/-- segments `(u_i, orthogonalization_path[i][0])` along a list of nodes -/
def segsAlong (t : RTree) : List Nat → Option (List (Nat × Nat))
  | a :: b :: rest =>
    (firstHop t a b).bind fun h => (segsAlong t (b :: rest)).map (fun more => (a, h) :: more)
  | _ => some []

/-- the segments of the TDVP sweep (`none` only if a path computation failed) -/
def segsOf? (t : RTree) : Option (List (Nat × Nat)) := (updatePath t).bind (segsAlong t)

/-- the segments of the TDVP sweep; on a well-formed tree `segsOf? t = some (segsOf t)` -/
def segsOf (t : RTree) : List (Nat × Nat) := (segsOf? t).getD []

/-- the last node of the update path; on a well-formed tree it exists -/
def lastOf (t : RTree) : Nat := ((updatePath t).bind List.getLast?).getD t.rid

/-- `neighbouring_nodes()` of node `n`: the parent (if any) first, then the children in order -/
def nbrsOf (t : RTree) (n : Nat) : List Nat :=
  ((edges t).filter (fun e => e.2 == n)).map (·.1) ++ ((edges t).filter (fun e => e.1 == n)).map (·.2)

/-! ### Keys of the initial cache -/

mutual
/-- blocks of a subtree hanging below `p`: post-order, all pointing upward -/
def upKeys (p : Nat) : RTree → List (Nat × Nat)
  | node i ks => upKeysL i ks ++ [(i, p)]
def upKeysL (p : Nat) : List RTree → List (Nat × Nat)
  | [] => []
  | t :: ts => upKeys p t ++ upKeysL p ts
end

mutual
/-- keys created by `init_cache_but_one(…, c)` in creation order -/
def cacheKeys (c : Nat) : RTree → Option (List (Nat × Nat))
  | node i ks => if i = c then some (upKeysL i ks) else cacheKeysL c i [] ks
def cacheKeysL (c i : Nat) : List RTree → List RTree → Option (List (Nat × Nat))
  | _, [] => none
  | pre, k :: post =>
    match cacheKeys c k with
    | some rest => some (upKeysL i (pre ++ post) ++ [(i, k.rid)] ++ rest)
    | none => cacheKeysL c i (pre ++ [k]) post
end

mutual
/-- the flat mirror of a tree in depth-first insertion order -/
def flattenAux (p : Option Nat) : RTree → List (Nat × GNode)
  | node i ks => (i, ⟨p, ks.map rid⟩) :: flattenL (some i) ks
def flattenL (p : Option Nat) : List RTree → List (Nat × GNode)
  | [] => []
  | t :: ts => flattenAux p t ++ flattenL p ts
end

def flatten (t : RTree) : FTree := ⟨flattenAux none t, some t.rid⟩

end RTree

/-! ## From the flat mirror to the tree (used by the driver) -/

def FTree.buildF (ft : FTree) : Nat → Nat → Option RTree
  | 0, _ => none
  | f + 1, x => do
    let n ← ft.get? x
    let ks ← n.children.mapM (FTree.buildF ft f)
    some (RTree.node x ks)

/-- The tree a consistent flat mirror stands for: `ft` has to be a rearrangement of
    `flatten t` (same entries, any dict order). -/
def FTree.toRTree (ft : FTree) : Option RTree := do
  let r ← ft.root
  let t ← ft.buildF ft.fuel r
  let fl := (RTree.flatten t).nodes
  if fl.length == ft.nodes.length
      && ft.nodes.all (fun e => decide (fl.lookup e.1 = some e.2))
      && (RTree.ids t).all (fun x => (RTree.ids t).count x == 1) then some t else none

end Ptn.C17
