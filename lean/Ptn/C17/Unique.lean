import Ptn.C17.Path
/-! Uniqueness of simple paths in a well-formed tree: every simple path from `a` to `b` is the one
`path_from_to` returns (it climbs, turns once at the fork node, and descends). -/
namespace Ptn.C17
namespace RTree

/-- `y` is the parent of `x` -/
def Up (t : RTree) (x y : Nat) : Prop := (y, x) ∈ edges t
/-- `y` is a child of `x` -/
def Down (t : RTree) (x y : Nat) : Prop := (x, y) ∈ edges t

theorem parent_unique {t : RTree} (hwf : t.WF) {p p' x : Nat} (h : (p, x) ∈ edges t)
    (h' : (p', x) ∈ edges t) : p = p' := by
  obtain ⟨q, h1, h2⟩ := pathDown_edge.1 t p x hwf h
  obtain ⟨q', h1', h2'⟩ := pathDown_edge.1 t p' x hwf h'
  rw [h2] at h2'
  have : q = q' := by simpa using h2'
  subst this
  have e1 := ((pathDown_ends p).1 t q h1).2
  have e2 := ((pathDown_ends p').1 t q h1').2
  rw [e1] at e2
  simpa using e2

theorem rootPath_edge {t : RTree} (hwf : t.WF) {p x : Nat} (h : (p, x) ∈ edges t) :
    ∃ r, rootPath t p = some r ∧ rootPath t x = some (x :: r) := by
  obtain ⟨q, h1, h2⟩ := pathDown_edge.1 t p x hwf h
  exact ⟨q.reverse, by simp [rootPath, h1], by simp [rootPath, h2]⟩

theorem rootPath_head {t : RTree} {x : Nat} {r : List Nat} (h : rootPath t x = some r) :
    ∃ r', r = x :: r' := by
  simp only [rootPath, Option.map_eq_some_iff] at h
  obtain ⟨q, hq, rfl⟩ := h
  have := ((pathDown_ends x).1 t q hq).2
  cases hr : q.reverse with
  | nil =>
    have : q = [] := by simpa using hr
    subst this; simp at *
  | cons y l =>
    have e : q = l.reverse ++ [y] := by
      have := congrArg List.reverse hr; simpa using this
    subst e
    rw [List.getLast?_concat] at this
    simp at this
    exact ⟨l, by simp [this]⟩

/-- a chain of parent steps is an initial segment of the root path of its first node -/
theorem upchain_prefix {t : RTree} (hwf : t.WF) :
    ∀ (U : List Nat) (u : Nat) (R : List Nat), Chain (Up t) (u :: U) → rootPath t u = some R →
      ∃ R2, R = (u :: U) ++ R2
  | [], u, R, _, hR => by
    obtain ⟨r', rfl⟩ := rootPath_head hR
    exact ⟨r', by simp⟩
  | v :: W, u, R, hc, hR => by
    have hc' := chain_cons_cons.mp hc
    obtain ⟨r, hr1, hr2⟩ := rootPath_edge hwf hc'.1
    rw [hR] at hr2
    simp at hr2
    subst hr2
    obtain ⟨R2, e⟩ := upchain_prefix hwf W v r hc'.2 hr1
    exact ⟨R2, by simp [e]⟩

/-- A simple path climbs first and descends afterwards: it never turns upward again. -/
theorem up_down_split {t : RTree} (hwf : t.WF) :
    ∀ (P : List Nat) (a : Nat), (a :: P).Nodup → Chain (Adj t) (a :: P) →
      ∃ U0 c D, a :: P = U0 ++ c :: D ∧ Chain (Up t) (U0 ++ [c]) ∧ Chain (Down t) (c :: D)
  | [], a, _, _ => ⟨[], a, [], by simp, by simp [Chain], by simp [Chain]⟩
  | a2 :: rest, a, hnd, hc => by
    have hc' := chain_cons_cons.mp hc
    have hnd' : (a2 :: rest).Nodup := (List.nodup_cons.mp hnd).2
    obtain ⟨U0', c', D', e, hu, hd⟩ := up_down_split hwf rest a2 hnd' hc'.2
    rcases hc'.1 with hdown | hup
    · -- a → a2 is a step down: then the rest cannot climb
      cases U0' with
      | nil =>
        simp at e
        obtain ⟨rfl, rfl⟩ := e
        exact ⟨[], a, a2 :: rest, by simp, by simp [Chain], chain_cons_cons.mpr ⟨hdown, hd⟩⟩
      | cons u U0'' =>
        exfalso
        -- a2 = u, and the next node of the climb is the parent of a2, i.e. `a` again
        have hu2 : a2 = u := by simpa using (List.cons_eq_cons.mp (by simpa using e)).1
        subst hu2
        have hrest : rest = U0'' ++ c' :: D' := by simpa using e
        cases U0'' with
        | nil =>
          have : Up t a2 c' := by simpa [Chain] using hu
          have hca : c' = a := parent_unique hwf this hdown
          subst hca
          have : c' ∈ a2 :: rest := by simp [hrest]
          exact (List.nodup_cons.mp hnd).1 this
        | cons w W =>
          have : Up t a2 w := (chain_cons_cons.mp (by simpa using hu)).1
          have hca : w = a := parent_unique hwf this hdown
          subst hca
          have : w ∈ a2 :: rest := by simp [hrest]
          exact (List.nodup_cons.mp hnd).1 this
    · -- a → a2 is a step up
      refine ⟨a :: U0', c', D', by simp [e], ?_, hd⟩
      have : ∃ l, U0' ++ [c'] = a2 :: l := by
        cases U0' with
        | nil => simp at e; exact ⟨[], by simp [e.1]⟩
        | cons u l => simp at e; exact ⟨l ++ [c'], by simp [e.1]⟩
      obtain ⟨l, hl⟩ := this
      have : a :: U0' ++ [c'] = a :: a2 :: l := by simp [← hl]
      rw [this]
      exact chain_cons_cons.mpr ⟨hup, hl ▸ hu⟩

/-- in a duplicate-free list the position of an element is unique -/
theorem split_unique {c : Nat} : ∀ {A A' B B' : List Nat}, (A ++ c :: B).Nodup →
    A ++ c :: B = A' ++ c :: B' → A = A' ∧ B = B'
  | [], [], _, _, _, h => by simpa using h
  | [], y :: A', B, B', hnd, h => by
    simp at h
    obtain ⟨rfl, rfl⟩ := h
    simp at hnd
  | x :: A, [], B, B', hnd, h => by
    simp at h
    obtain ⟨rfl, rfl⟩ := h
    simp at hnd
  | x :: A, y :: A', B, B', hnd, h => by
    simp at h
    obtain ⟨rfl, h⟩ := h
    have := split_unique (List.nodup_cons.mp hnd).2 h
    simp [this.1, this.2]

theorem simple_path_self {t : RTree} {p : List Nat} {a : Nat} (h : IsSimplePath t p a a) :
    p = [a] := by
  obtain ⟨hh, hl, _, _, hnd⟩ := h
  cases p with
  | nil => simp at hh
  | cons x l =>
    simp at hh; subst hh
    cases l with
    | nil => rfl
    | cons y l' =>
      rw [List.getLast?_cons_cons] at hl
      have : x ∈ y :: l' := List.mem_of_getLast? hl
      exact absurd this (List.nodup_cons.mp hnd).1

/-- Every simple path between two different nodes has the shape `path_from_to` produces. -/
theorem simple_path_shape {t : RTree} (hwf : t.WF) {a b : Nat} {P : List Nat}
    (h : IsSimplePath t P a b) {pre xs ys : List Nat} {c0 : Nat}
    (hpa : pathDown a t = some (pre ++ c0 :: xs)) (hpb : pathDown b t = some (pre ++ c0 :: ys))
    (hd : ∀ x ∈ xs, x ∉ ys) : P = xs.reverse ++ c0 :: ys := by
  obtain ⟨hh, hl, _, hch, hnd⟩ := h
  cases P with
  | nil => simp at hh
  | cons a' P' =>
  simp at hh; subst hh
  obtain ⟨U0, c, D, e, hu, hdn⟩ := up_down_split hwf P' a' hnd hch
  have hRa : rootPath t a' = some (xs.reverse ++ c0 :: pre.reverse) := by simp [rootPath, hpa]
  have hRb : rootPath t b = some (ys.reverse ++ c0 :: pre.reverse) := by simp [rootPath, hpb]
  have hnda := pathDown_nodup hwf hpa
  have hndb := pathDown_nodup hwf hpb
  -- the climb is an initial segment of the root path of a
  have hU : ∃ l, U0 ++ [c] = a' :: l := by
    cases U0 with
    | nil => simp at e; exact ⟨[], by simp [e.1]⟩
    | cons u l => simp at e; exact ⟨l ++ [c], by simp [e.1]⟩
  obtain ⟨lU, hlU⟩ := hU
  obtain ⟨R2, hR2⟩ := upchain_prefix hwf lU a' _ (hlU ▸ hu) hRa
  rw [← hlU] at hR2
  -- the descent, read backwards, is an initial segment of the root path of b
  have hup' : Chain (Up t) (D.reverse ++ [c]) := by
    have := chain_reverse hdn
    simp only [List.reverse_cons] at this
    exact chain_mono (fun x y h => h) this
  have hlast : (c :: D).getLast? = some b := by
    rw [e, List.getLast?_append] at hl
    simpa using hl
  have hD : ∃ l, D.reverse ++ [c] = b :: l := by
    cases hr : D.reverse with
    | nil =>
      have : D = [] := by simpa using hr
      subst this; simp at hlast; exact ⟨[], by simp [hlast]⟩
    | cons y l =>
      have e' : D = l.reverse ++ [y] := by
        have := congrArg List.reverse hr; simpa using this
      subst e'
      have : c :: (l.reverse ++ [y]) = (c :: l.reverse) ++ [y] := by simp
      rw [this, List.getLast?_concat] at hlast
      simp at hlast
      exact ⟨l ++ [c], by simp [hlast]⟩
  obtain ⟨lD, hlD⟩ := hD
  obtain ⟨R2', hR2'⟩ := upchain_prefix hwf lD b _ (hlD ▸ hup') hRb
  rw [← hlD] at hR2'
  have hRa' : xs.reverse ++ c0 :: pre.reverse = U0 ++ c :: R2 := by simpa using hR2
  have hRb' : ys.reverse ++ c0 :: pre.reverse = D.reverse ++ c :: R2' := by simpa using hR2'
  have hndRa : (xs.reverse ++ c0 :: pre.reverse).Nodup := by
    have := nodup_reverse.mpr hnda; simpa using this
  have hndRb : (ys.reverse ++ c0 :: pre.reverse).Nodup := by
    have := nodup_reverse.mpr hndb; simpa using this
  -- the turning point is the fork node
  have hc : c = c0 := by
    have hcA : c ∈ xs.reverse ++ c0 :: pre.reverse := by rw [hRa']; simp
    have hcB : c ∈ ys.reverse ++ c0 :: pre.reverse := by rw [hRb']; simp
    simp only [List.mem_append, List.mem_reverse, List.mem_cons] at hcA hcB
    simp only [List.nodup_append, List.nodup_cons, List.mem_cons] at hnda hndb
    rcases hcA with hx | hx | hx
    · exfalso
      rcases hcB with hy | hy | hy
      · exact hd c hx hy
      · grind
      · grind
    · exact hx
    · exfalso
      obtain ⟨pre1, pre2, rfl⟩ := List.append_of_mem hx
      have eA : xs.reverse ++ c0 :: (pre1 ++ c :: pre2).reverse
          = (xs.reverse ++ c0 :: pre2.reverse) ++ c :: pre1.reverse := by simp
      have eB : ys.reverse ++ c0 :: (pre1 ++ c :: pre2).reverse
          = (ys.reverse ++ c0 :: pre2.reverse) ++ c :: pre1.reverse := by simp
      have sA := split_unique (by rw [← hRa']; exact hndRa) (hRa'.symm.trans eA)
      have sB := split_unique (by rw [← hRb']; exact hndRb) (hRb'.symm.trans eB)
      have h1 : c0 ∈ U0 := by rw [sA.1]; simp
      have h2 : c0 ∈ D := by
        have : c0 ∈ D.reverse := by rw [sB.1]; simp
        simpa using this
      rw [e] at hnd
      simp only [List.nodup_append, List.nodup_cons, List.mem_cons] at hnd
      exact hnd.2.2 c0 h1 c0 (by simp [h2]) rfl
  subst hc
  have sA := split_unique (by rw [← hRa']; exact hndRa) hRa'.symm
  have sB := split_unique (by rw [← hRb']; exact hndRb) hRb'.symm
  have : D = ys := by
    have := congrArg List.reverse sB.1; simpa using this
  rw [e, sA.1, this]

/-- every simple path from `a` to `b` is the list `path_from_to(a, b)` returns -/
theorem simple_path_eq_pathFromTo {t : RTree} (hwf : t.WF) {a b : Nat} {p : List Nat}
    (h : IsSimplePath t p a b) : pathFromTo t a b = some p := by
  have ha : a ∈ ids t := h.2.2.1 a (List.mem_of_head? h.1)
  have hb : b ∈ ids t := h.2.2.1 b (List.mem_of_getLast? h.2.1)
  by_cases hab : a = b
  · subst hab
    rw [simple_path_self h]; simp [pathFromTo]
  · obtain ⟨pre, c, xs, ys, hpa, hpb, hd, hp⟩ := pathFromTo_shape hwf ha hb hab
    rw [hp, simple_path_shape hwf h hpa hpb hd]

end RTree
end Ptn.C17
