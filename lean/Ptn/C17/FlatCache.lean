import Ptn.C17.FlatSweep
import Ptn.C17.Cache
import Ptn.C17.SegHop
/-! Flat port = structural model: the keys created by `init_cache_but_one`
(`_find_caching_path` with its state `(caching_path, next_id_dict)`). -/
namespace Ptn.C17
open RTree

theorem cachingRecF_eval {ft : FTree} {ip : List Nat} {f x l : Nat} {st : List Nat × List (Nat × Nat)}
    {n : GNode} {cp' : List Nat} {nd' : List (Nat × Nat)} (h1 : ft.get? x = some n)
    (h2 : (n.children.filter (fun c => !ip.contains c)).foldlM
        (fun st c => ft.cachingRecF ip f c st) st = some (cp', nd'))
    (h3 : ip.getLast? = some l) :
    ft.cachingRecF ip (f + 1) x st =
      (if !(nd'.any (fun e => e.1 == x)) && x != l then
         (match n.parent with
          | none => none
          | some p => some (dictSet nd' x p))
       else some nd').bind fun nd => some (cp' ++ [x], nd) := by
  simp only [FTree.cachingRecF, h1, h2, h3, Option.bind_eq_bind, Option.bind_some]
  split <;> rfl

/-- `_find_caching_path_rec` on a subtree off the way to the left-out node: its post-order is
    appended to the caching path and every node is mapped to its parent -/
theorem cachingRecF_off (ft : FTree) (ip : List Nat) (l : Nat) (hl : ip.getLast? = some l) :
    (∀ s, ∀ par cp nd, KidsP ft (some par) s → (∀ y ∈ ids s, y ∉ ip) → (ids s).Nodup →
      (∀ y ∈ ids s, y ∉ nd.map (·.1)) → ∀ fuel, (ids s).length ≤ fuel →
      ft.cachingRecF ip fuel s.rid (cp, nd) = some (cp ++ postorder s, nd ++ upKeys par s)) ∧
    (∀ ks, ∀ x cp nd f, (∀ k ∈ ks, KidsP ft (some x) k) → (∀ y ∈ idsL ks, y ∉ ip) →
      (idsL ks).Nodup → (∀ y ∈ idsL ks, y ∉ nd.map (·.1)) → (idsL ks).length ≤ f →
      (ks.map rid).foldlM (fun st c' => ft.cachingRecF ip f c' st) (cp, nd) =
        some (cp ++ postorderL ks, nd ++ upKeysL x ks)) := by
  apply induct
  · intro x ks ih par cp nd hok hoff hnd hkeys fuel hf
    obtain ⟨f, rfl⟩ : ∃ f, fuel = f + 1 := ⟨fuel - 1, by simp at hf; omega⟩
    have hget := hok.self
    simp only [ids_node, List.nodup_cons] at hnd
    have hfilter : (ks.map rid).filter (fun c => !ip.contains c) = ks.map rid :=
      filter_none_on_path (fun k' hk' => hoff _ (by simp [ids_subset_idsL hk' _ (rid_mem_ids k')]))
    have hfold := ih x cp nd f (fun k hk => hok.kid hk) (fun y hy => hoff y (by simp [hy])) hnd.2
      (fun y hy => hkeys y (by simp [hy])) (by simp at hf; omega)
    have hlm : l ∈ ip := List.mem_of_getLast? hl
    have hxl : x ≠ l := fun e => hoff x (by simp) (e ▸ hlm)
    have hany : (nd ++ upKeysL x ks).any (fun e => e.1 == x) = false := by
      rw [List.any_eq_false]
      intro e he
      have hne : ¬ e.1 = x := by
        intro heq
        rcases List.mem_append.mp he with h | h
        · exact hkeys x (by simp) (heq ▸ List.mem_map.mpr ⟨e, h, rfl⟩)
        · have : e.1 ∈ (upKeysL x ks).map (·.1) := List.mem_map.mpr ⟨e, h, rfl⟩
          rw [(upKeys_spec.2 ks x).1] at this
          exact hnd.1 (heq ▸ (postorder_perm.2 ks).subset this)
      simpa using hne
    have hset : dictSet (nd ++ upKeysL x ks) x par = nd ++ upKeysL x ks ++ [(x, par)] := by
      apply dictSet_new
      intro hm
      obtain ⟨e, he, heq⟩ := List.mem_map.mp hm
      have := List.any_eq_false.mp hany e he
      simp [heq] at this
    rw [rid, cachingRecF_eval hget (by rw [hfilter]; exact hfold) hl]
    have hcond : (!(nd ++ upKeysL x ks).any (fun e => e.1 == x) && x != l) = true := by
      simp [hany, hxl]
    simp only [hcond, if_true, hset, Option.bind_some]
    simp
  · intro x cp nd f _ _ _ _ _; simp
  · intro k ks ihk ihks x cp nd f hok hoff hnd hkeys hf
    simp only [idsL_cons, List.length_append] at hf
    simp only [idsL_cons, List.nodup_append] at hnd
    have h1 := ihk x cp nd (hok k (by simp)) (fun y hy => hoff y (by simp [hy])) hnd.1
      (fun y hy => hkeys y (by simp [hy])) f (by omega)
    have h2 := ihks x (cp ++ postorder k) (nd ++ upKeys x k) f
      (fun k' hk' => hok k' (by simp [hk'])) (fun y hy => hoff y (by simp [hy])) hnd.2.1
      (by
        intro y hy hm
        simp only [List.map_append, List.mem_append] at hm
        rcases hm with hm | hm
        · exact hkeys y (by simp [hy]) hm
        · rw [(upKeys_spec.1 k x).1] at hm
          exact hnd.2.2 y ((postorder_perm.1 k).subset hm) y hy rfl)
      (by omega)
    simp only [List.map_cons, List.foldlM_cons, h1, Option.bind_eq_bind, Option.bind_some]
    rw [h2]; simp

namespace RTree

theorem cacheKeysL_split {c i : Nat} : ∀ (ks pre0 : List RTree) {T : List (Nat × Nat)},
    cacheKeysL c i pre0 ks = some T →
    ∃ pre k post Tk, ks = pre ++ k :: post ∧ (∀ k' ∈ pre, c ∉ ids k') ∧ cacheKeys c k = some Tk ∧
      T = upKeysL i (pre0 ++ pre ++ post) ++ [(i, k.rid)] ++ Tk
  | [], pre0, T, h => by simp at h
  | k :: post, pre0, T, h => by
    rcases cacheKeysL_cons_cases c i pre0 k post with ⟨Tk, h1, h2⟩ | ⟨h1, h2⟩
    · rw [h2] at h; simp only [Option.some.injEq] at h
      exact ⟨[], k, post, Tk, by simp, by simp, h1, by simp [← h]⟩
    · rw [h2] at h
      obtain ⟨pre, k', post', Tk, e, hpre, hk, hT⟩ := cacheKeysL_split post (pre0 ++ [k]) h
      refine ⟨k :: pre, k', post', Tk, by simp [e], ?_, hk, by simp [hT]⟩
      intro k'' hk''
      rcases List.mem_cons.mp hk'' with rfl | hk''
      · exact ((cacheKeys_spec c).1 _).2 h1
      · exact hpre k'' hk''

end RTree

/-- one step of the loop of `_find_caching_path` over the way to the left-out node -/
def cacheStep (ft : FTree) (ip : List Nat) (st : List Nat × List (Nat × Nat)) (x : Nat) :
    Option (List Nat × List (Nat × Nat)) := ft.cachingRecF ip ft.fuel x st

theorem any_append_left {l1 l2 : List (Nat × Nat)} {x : Nat}
    (h : l1.any (fun e => e.1 == x) = true) : (l1 ++ l2).any (fun e => e.1 == x) = true := by
  simp only [List.any_append, h, Bool.true_or]

/-- The loop over the part of the way inside a subtree: the caching path grows by the first
    components of the structural key list followed by `c`; the dict grows by the off-way keys. -/
theorem cache_loop {ft : FTree} {t : RTree} (h : Mirror ft t) (ip : List Nat) (c : Nat)
    (hl : ip.getLast? = some c) :
    (∀ t0, t0 ∈ subtrees t → ∀ q T, pathDown c t0 = some q → cacheKeys c t0 = some T →
      (∀ x ∈ ids t0, x ∈ ip ↔ x ∈ q) → ∀ cp nd,
      (∀ x ∈ q, x ≠ c → nd.any (fun e => e.1 == x) = true) →
      (∀ y ∈ ids t0, y ∉ q → y ∉ nd.map (·.1)) →
      ∃ off, q.foldlM (cacheStep ft ip) (cp, nd) = some (cp ++ T.map (·.1) ++ [c], nd ++ off) ∧
        T.Perm (q.zip (q.drop 1) ++ off)) ∧
    (∀ ks : List RTree, ∀ t0 ∈ ks, t0 ∈ subtrees t → ∀ q T, pathDown c t0 = some q →
      cacheKeys c t0 = some T → (∀ x ∈ ids t0, x ∈ ip ↔ x ∈ q) → ∀ cp nd,
      (∀ x ∈ q, x ≠ c → nd.any (fun e => e.1 == x) = true) →
      (∀ y ∈ ids t0, y ∉ q → y ∉ nd.map (·.1)) →
      ∃ off, q.foldlM (cacheStep ft ip) (cp, nd) = some (cp ++ T.map (·.1) ++ [c], nd ++ off) ∧
        T.Perm (q.zip (q.drop 1) ++ off)) := by
  apply induct
  · intro i ks ih hk q T hq hT hmp cp nd hany hkeys
    obtain ⟨⟨p, hget⟩, hsm, hiks, hndks, hkids⟩ := h.node_facts hk
    -- children with their parent recorded
    have hkidsP : ∀ k ∈ ks, ∃ p0, KidsP ft p0 (node i ks) := fun _ _ => by
      -- the node itself, found among the subtrees with parents of the mirror
      have key : (∀ t, ∀ p0, ∀ s ∈ subtrees t, ∃ p', (p', s) ∈ subtreesP p0 t) ∧
          (∀ ts, ∀ p0, ∀ s ∈ subtreesL ts, ∃ p', (p', s) ∈ subtreesPL p0 ts) := by
        apply induct
        · intro i ks ih p0 s hs
          simp only [subtrees_node, List.mem_cons] at hs
          rcases hs with rfl | hs
          · exact ⟨p0, by simp⟩
          · obtain ⟨p', hp'⟩ := ih (some i) s hs
            exact ⟨p', by simp [hp']⟩
        · simp
        · intro t ts iht ihts p0 s hs
          simp only [subtreesL_cons, List.mem_append] at hs
          rcases hs with hs | hs
          · obtain ⟨p', hp'⟩ := iht p0 s hs; exact ⟨p', by simp [hp']⟩
          · obtain ⟨p', hp'⟩ := ihts p0 s hs; exact ⟨p', by simp [hp']⟩
      obtain ⟨p', hp'⟩ := key.1 t none (node i ks) hk
      refine ⟨p', ?_⟩
      intro e he
      apply h.kidsP e
      -- subtrees-with-parent of a subtree-with-parent
      have trans : (∀ t, ∀ p0, ∀ e ∈ subtreesP p0 t, ∀ e' ∈ subtreesP e.1 e.2, e' ∈ subtreesP p0 t) ∧
          (∀ ts, ∀ p0, ∀ e ∈ subtreesPL p0 ts, ∀ e' ∈ subtreesP e.1 e.2, e' ∈ subtreesPL p0 ts) := by
        apply induct
        · intro i ks ih p0 e he e' he'
          simp only [subtreesP_node, List.mem_cons] at he ⊢
          rcases he with rfl | he
          · simpa using he'
          · exact Or.inr (ih (some i) e he e' he')
        · simp
        · intro t ts iht ihts p0 e he e' he'
          simp only [subtreesPL_cons, List.mem_append] at he ⊢
          rcases he with he | he
          · exact Or.inl (iht p0 e he e' he')
          · exact Or.inr (ihts p0 e he e' he')
      exact trans.1 t none (p', node i ks) hp' e he
    have hKP : ∀ k ∈ ks, KidsP ft (some i) k := by
      intro k hk'
      obtain ⟨p0, hp0⟩ := hkidsP k hk'
      exact hp0.kid hk'
    rw [cacheKeys_node] at hT
    by_cases hic : i = c
    · subst hic
      simp at hq hT; subst hq; subst hT
      have hoffks : ∀ y ∈ idsL ks, y ∉ ip := by
        intro y hy hin
        have := (hmp y (by simp [hy])).mp hin
        simp at this
        exact hiks (this ▸ hy)
      have hfilter : (ks.map rid).filter (fun c' => !ip.contains c') = ks.map rid :=
        filter_none_on_path (fun k' hk' => hoffks _ (ids_subset_idsL hk' _ (rid_mem_ids k')))
      have hlen : (idsL ks).length ≤ ft.fuel - 1 := by
        have hsubl : ∀ t, ∀ s ∈ subtrees t, (ids s).Sublist (ids t) := fun t s hs => by
          have key : (∀ t, ∀ s ∈ subtrees t, (ids s).Sublist (ids t)) ∧
              (∀ ts, ∀ s ∈ subtreesL ts, (ids s).Sublist (idsL ts)) := by
            apply induct
            · intro i ks ih s hs
              simp only [subtrees_node, List.mem_cons] at hs
              rcases hs with rfl | hs
              · exact List.Sublist.refl _
              · simpa using (ih s hs).trans (List.sublist_cons_self _ _)
            · simp
            · intro t ts iht ihts s hs
              simp only [subtreesL_cons, List.mem_append] at hs
              rcases hs with hs | hs
              · simpa using (iht s hs).trans (List.sublist_append_left _ _)
              · simpa using (ihts s hs).trans (List.sublist_append_right _ _)
          exact key.1 t s hs
        have := (hsubl t _ hk).length_le
        rw [h.fuel_eq]; simp at this; omega
      have hfold := (cachingRecF_off ft ip i hl).2 ks i cp nd (ft.fuel - 1) hKP hoffks hndks
        (fun y hy => hkeys y (by simp [hy]) (by
          simp only [List.mem_singleton]; intro e; exact hiks (e ▸ hy))) hlen
      have hfuel : ft.fuel = (ft.fuel - 1) + 1 := by rw [h.fuel_eq]; omega
      refine ⟨upKeysL i ks, ?_, by simp⟩
      simp only [List.foldlM_cons, List.foldlM_nil, cacheStep]
      rw [hfuel, cachingRecF_eval hget (by rw [hfilter]; exact hfold) hl]
      simp [(upKeys_spec.2 ks i).1]
    · simp [hic] at hT
      obtain ⟨pre, k, post, Tk, rfl, hpre, hTk, rfl⟩ := cacheKeysL_split ks [] hT
      have hck : c ∈ ids k := by
        apply Classical.byContradiction
        intro hn
        have := ((cacheKeys_spec c).1 k).1 Tk hTk
        exact hn (this.1.subset (by simp))
      obtain ⟨qk, hqk, hqt⟩ := pathDown_split (r := i) (post := post) hic hpre hck
      rw [hq] at hqt; simp at hqt; subst hqt
      have hkmem : k ∈ pre ++ k :: post := by simp
      have hnd' := hndks
      simp only [idsL_append, idsL_cons, List.nodup_append, List.mem_append] at hnd'
      have hqk_sub := (pathDown_subset c).1 k qk hqk
      have hhead := ((pathDown_ends c).1 k qk hqk).1
      have hkrid : k.rid ∈ qk := List.mem_of_head? hhead
      have hother : ∀ k' ∈ pre ++ post, ∀ y ∈ ids k', y ∉ ip := by
        intro k' hk' y hy hin
        have hk'ks : k' ∈ pre ++ k :: post := by
          simp at hk' ⊢; rcases hk' with h1 | h1
          · exact Or.inl h1
          · exact Or.inr (Or.inr h1)
        have hyks := ids_subset_idsL hk'ks y hy
        have := (hmp y (by simp [hyks])).mp hin
        simp only [List.mem_cons] at this
        rcases this with e | hin'
        · exact hiks (e ▸ hyks)
        · have h1 := hqk_sub _ hin'
          simp at hk'
          rcases hk' with hp' | hp'
          · exact hnd'.2.2 y (ids_subset_idsL hp' _ hy) y (Or.inl h1) rfl
          · exact hnd'.2.1.2.2 y h1 y (ids_subset_idsL hp' _ hy) rfl
      have hon : k.rid ∈ ip :=
        (hmp k.rid (by simp [ids_subset_idsL hkmem _ (rid_mem_ids k)])).mpr (by simp [hkrid])
      have hfilter : ((pre ++ k :: post).map rid).filter (fun c' => !ip.contains c')
          = (pre ++ post).map rid :=
        filter_off_path hon (fun k' hk' => hother k' (by simp [hk']) _ (rid_mem_ids k'))
          (fun k' hk' => hother k' (by simp [hk']) _ (rid_mem_ids k'))
      have hoffpp : ∀ y ∈ idsL (pre ++ post), y ∉ ip := by
        intro y hy
        obtain ⟨k', hk', hyk⟩ := exists_kid_of_mem_idsL hy
        exact hother k' hk' y hyk
      have hndpp : (idsL (pre ++ post)).Nodup := by
        rw [idsL_append, List.nodup_append]
        exact ⟨hnd'.1, hnd'.2.1.2.1, fun a ha b hb => hnd'.2.2 a ha b (Or.inr hb)⟩
      have hsubpp : ∀ y ∈ idsL (pre ++ post), y ∈ idsL (pre ++ k :: post) := by
        intro y hy
        rw [idsL_append, List.mem_append] at hy
        simp only [idsL_append, idsL_cons, List.mem_append]
        rcases hy with h1 | h1
        · exact Or.inl h1
        · exact Or.inr (Or.inr h1)
      have hnotq : ∀ y ∈ idsL (pre ++ post), y ∉ i :: qk := by
        intro y hy hin
        exact hoffpp y hy ((hmp y (by simp [hsubpp y hy])).mpr hin)
      have hlen : (idsL (pre ++ post)).length ≤ ft.fuel - 1 := by
        have h1 : (idsL (pre ++ post)).length ≤ (idsL (pre ++ k :: post)).length := by
          simp [idsL_append]
        have hsubl : (ids (node i (pre ++ k :: post))).length ≤ (ids t).length := by
          have key : (∀ t, ∀ s ∈ subtrees t, (ids s).Sublist (ids t)) ∧
              (∀ ts, ∀ s ∈ subtreesL ts, (ids s).Sublist (idsL ts)) := by
            apply induct
            · intro i ks ih s hs
              simp only [subtrees_node, List.mem_cons] at hs
              rcases hs with rfl | hs
              · exact List.Sublist.refl _
              · simpa using (ih s hs).trans (List.sublist_cons_self _ _)
            · simp
            · intro t ts iht ihts s hs
              simp only [subtreesL_cons, List.mem_append] at hs
              rcases hs with hs | hs
              · simpa using (iht s hs).trans (List.sublist_append_left _ _)
              · simpa using (ihts s hs).trans (List.sublist_append_right _ _)
          exact (key.1 t _ hk).length_le
        rw [h.fuel_eq]; simp at hsubl; omega
      have hfold := (cachingRecF_off ft ip c hl).2 (pre ++ post) i cp nd (ft.fuel - 1)
        (fun k' hk' => hKP k' (by
          simp at hk' ⊢; rcases hk' with h1 | h1
          · exact Or.inl h1
          · exact Or.inr (Or.inr h1)))
        hoffpp hndpp
        (fun y hy => hkeys y (by simp [hsubpp y hy]) (hnotq y hy)) hlen
      have hfuel : ft.fuel = (ft.fuel - 1) + 1 := by rw [h.fuel_eq]; omega
      have hic' : i ≠ c := hic
      have hanyi : (nd ++ upKeysL i (pre ++ post)).any (fun e => e.1 == i) = true :=
        any_append_left (hany i (by simp) hic')
      -- the step at i
      have hstep : cacheStep ft ip (cp, nd) i =
          some (cp ++ postorderL (pre ++ post) ++ [i], nd ++ upKeysL i (pre ++ post)) := by
        simp only [cacheStep]
        rw [hfuel, cachingRecF_eval hget (by rw [hfilter]; exact hfold) hl]
        simp [hanyi]
      -- the rest of the loop inside k
      obtain ⟨offk, hrest, hperm⟩ := ih k hkmem (hkids k hkmem) qk Tk hqk hTk
        (by
          intro x hx
          have hxk : x ∈ ids (node i (pre ++ k :: post)) := by
            simp [ids_subset_idsL hkmem x hx]
          rw [hmp x hxk]
          simp only [List.mem_cons]
          constructor
          · rintro (e | h1)
            · exact absurd (e ▸ ids_subset_idsL hkmem x hx) hiks
            · exact h1
          · exact Or.inr)
        (cp ++ postorderL (pre ++ post) ++ [i]) (nd ++ upKeysL i (pre ++ post))
        (fun x hx hxc => any_append_left (hany x (by simp [hx]) hxc))
        (by
          intro y hy hyq hm
          simp only [List.map_append, List.mem_append] at hm
          have hyi : y ≠ i := fun e => hiks (e ▸ ids_subset_idsL hkmem y hy)
          rcases hm with hm | hm
          · exact hkeys y (by simp [ids_subset_idsL hkmem y hy]) (by
              simp only [List.mem_cons, not_or]; exact ⟨hyi, hyq⟩) hm
          · rw [(upKeys_spec.2 (pre ++ post) i).1] at hm
            have := (postorder_perm.2 (pre ++ post)).subset hm
            rw [idsL_append, List.mem_append] at this
            rcases this with h1 | h1
            · exact hnd'.2.2 y h1 y (Or.inl hy) rfl
            · exact hnd'.2.1.2.2 y hy y h1 rfl)
      refine ⟨upKeysL i (pre ++ post) ++ offk, ?_, ?_⟩
      · simp only [List.foldlM_cons, hstep, Option.bind_eq_bind, Option.bind_some, hrest]
        simp [(upKeys_spec.2 (pre ++ post) i).1]
      · -- the keys: those of the branches off the way, the step of the way, the rest
        have hz : (i :: qk).zip ((i :: qk).drop 1) = (i, k.rid) :: qk.zip (qk.drop 1) := by
          cases qk with
          | nil => simp at hhead
          | cons y l => simp at hhead; subst hhead; simp
        rw [hz]
        simp only [List.nil_append]
        apply List.perm_iff_count.mpr
        intro a
        have := hperm.count_eq a
        simp only [List.count_append, List.count_cons, List.count_nil] at this ⊢
        omega
  · intro t0 ht0; simp at ht0
  · intro k ks ihk ihks t0 ht0
    rcases List.mem_cons.mp ht0 with rfl | ht0
    · exact ihk
    · exact ihks t0 ht0

theorem zip_next_mem : ∀ {q : List Nat} {x c : Nat}, x ∈ q → q.getLast? = some c → x ≠ c →
    ∃ y, (x, y) ∈ q.zip (q.drop 1)
  | [], _, _, h, _, _ => by simp at h
  | [a], x, c, h, hl, hne => by
    simp at h hl; subst h; exact absurd hl hne
  | a :: b :: rest, x, c, h, hl, hne => by
    rcases List.mem_cons.mp h with rfl | h
    · exact ⟨b, by simp⟩
    · rw [List.getLast?_cons_cons] at hl
      obtain ⟨y, hy⟩ := zip_next_mem h hl hne
      exact ⟨y, by simp at hy ⊢; exact Or.inr hy⟩

theorem zip_keys_subset (q : List Nat) : ∀ e ∈ q.zip (q.drop 1), e.1 ∈ q := by
  intro e he
  exact (List.of_mem_zip (a := e.1) (b := e.2) he).1

theorem lookup_of_mem_nodup' {l : List (Nat × Nat)} (hnd : (l.map (·.1)).Nodup) {x v : Nat}
    (h : (x, v) ∈ l) : l.lookup x = some v := by
  induction l with
  | nil => simp at h
  | cons e rest ih =>
    simp only [List.map_cons, List.nodup_cons] at hnd
    rcases List.mem_cons.mp h with rfl | h'
    · simp [List.lookup]
    · have hne : ¬ x = e.1 := fun e' => hnd.1 (e' ▸ List.mem_map.mpr ⟨(x, v), h', rfl⟩)
      have hb : (x == e.1) = false := by simpa using hne
      cases e with
      | mk k w =>
        simp only [List.lookup, hb]
        exact ih hnd.2 h'

theorem mapM_lookup {nd : List (Nat × Nat)} : ∀ (T : List (Nat × Nat)),
    (∀ e ∈ T, nd.lookup e.1 = some e.2) →
    (T.map (·.1)).mapM (fun x => do
        let nxt ← nd.lookup x
        pure (x, nxt)) = some T
  | [], _ => by simp
  | e :: T, h => by
    have h1 := h e (by simp)
    have ih := mapM_lookup T (fun e' he' => h e' (by simp [he']))
    simp only [List.map_cons, List.mapM_cons, h1, Option.bind_eq_bind, Option.bind_some,
      Option.pure_def] at ih ⊢
    rw [ih]; simp

/-- **keys of `init_cache_but_one`** (in creation order): the flat port with its state
    `(caching_path, next_id_dict)` equals the structural model on every valid mirror. -/
theorem flat_cache_keys_eq_struct (ft : FTree) (t : RTree) (h : Mirror ft t) (c : Nat) :
    ft.cacheKeys c = cacheKeys c t := by
  by_cases hc : c ∈ ids t
  · obtain ⟨q, hq⟩ := pathDown_some_of_mem hc
    cases hT : cacheKeys c t with
    | none => exact absurd hc (((cacheKeys_spec c).1 t).2 hT)
    | some T =>
      have hl := ((pathDown_ends c).1 t q hq).2
      have hkeysT := (((cacheKeys_spec c).1 t).1 T hT).1
      obtain ⟨off, hloop, hperm⟩ := (cache_loop h q c hl).1 t (by cases t; simp) q T hq hT
        (fun x _ => Iff.rfl) [] (q.zip (q.drop 1))
        (by
          intro x hx hxc
          obtain ⟨y, hy⟩ := zip_next_mem hx hl hxc
          rw [List.any_eq_true]
          exact ⟨(x, y), hy, by simp⟩)
        (by
          intro y _ hyq hm
          obtain ⟨e, he, rfl⟩ := List.mem_map.mp hm
          exact hyq (zip_keys_subset q e he))
      have hfold : q.foldlM (fun st x => ft.cachingRecF q ft.fuel x st) ([], q.zip (q.drop 1))
          = some (T.map (·.1) ++ [c], q.zip (q.drop 1) ++ off) := by
        have : (fun st x => ft.cachingRecF q ft.fuel x st) = cacheStep ft q := rfl
        rw [this, hloop]; simp
      -- lookups
      have hndT : (T.map (·.1)).Nodup := by
        have : (T.map (·.1) ++ [c]).Nodup := hkeysT.symm.nodup h.2.2
        exact (List.nodup_append.mp this).1
      have hndnd : ((q.zip (q.drop 1) ++ off).map (·.1)).Nodup :=
        (hperm.map (·.1)).nodup_iff.mp hndT
      have hlook : ∀ e ∈ T, (q.zip (q.drop 1) ++ off).lookup e.1 = some e.2 :=
        fun e he => lookup_of_mem_nodup' hndnd (hperm.subset he)
      simp only [FTree.cacheKeys, flat_find_path_to_root_eq_struct ft t h, rootPath, hq,
        Option.map_some, Option.bind_eq_bind, Option.bind_some, List.reverse_reverse, hfold]
      have hdl : (T.map (·.1) ++ [c]).dropLast = T.map (·.1) := by simp
      rw [hdl]
      exact mapM_lookup T hlook
  · have h1 : cacheKeys c t = none := by
      cases hT : cacheKeys c t with
      | none => rfl
      | some T =>
        have := (((cacheKeys_spec c).1 t).1 T hT).1
        exact absurd (this.subset (by simp)) hc
    simp [FTree.cacheKeys, flat_find_path_to_root_eq_struct ft t h, rootPath,
      pathDown_none_of_not_mem hc, h1]

end Ptn.C17
