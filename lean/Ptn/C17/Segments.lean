import Ptn.C17.SegRoot
import Ptn.C17.Last
import Ptn.C17.Cut
/-! The segments of the TDVP sweep (`segsOf`, `lastOf`): `(u_i, h_i)` with `u` the update path and
`h_i` the first node after `u_i` on the way to `u_{i+1}`.  On every well-formed tree they are the
edges of the tree, each once; `h_i` is the first hop from `u_i` toward the last node of the path. -/
namespace Ptn.C17
namespace RTree

/-- segments along a list all of whose steps are good steps toward its last node `L` -/
theorem segsAlong_of_chain {t : RTree} (hwf : t.WF) {L : Nat} (hL : L ∈ ids t) :
    ∀ (p : List Nat), (∀ y ∈ p, y ∈ ids t) → p.Nodup → p.getLast? = some L →
      Chain (StepOK t L) p →
      ∃ segs, segsAlong t p = some segs ∧ segs.map (·.1) = p.dropLast ∧
        ∀ e ∈ segs, firstHop t e.1 L = some e.2
  | [], _, _, h, _ => by simp at h
  | [a], _, _, _, _ => ⟨[], by simp [segsAlong], by simp, by simp⟩
  | a :: b :: rest, hm, hnd, hl, hc => by
    have hc' := chain_cons_cons.mp hc
    have hnd' := List.nodup_cons.mp hnd
    have hl' : (b :: rest).getLast? = some L := by
      rw [List.getLast?_cons_cons] at hl; exact hl
    obtain ⟨segs, h1, h2, h3⟩ := segsAlong_of_chain hwf hL (b :: rest)
      (fun y hy => hm y (by simp [hy])) hnd'.2 hl' hc'.2
    obtain ⟨v, hv1, hv2⟩ := stepOK_firstHop hwf (hm a (by simp)) (hm b (by simp)) hL hc'.1
    refine ⟨(a, v) :: segs, by simp [segsAlong, hv1, h1], ?_, ?_⟩
    · simp [h2]
    · intro e he
      rcases List.mem_cons.mp he with rfl | he
      · exact hv2
      · exact h3 e he

/-- the blocks of the initial cache toward `c`: one per node other than `c`, one per edge, each
    pointing to the first hop toward `c` -/
theorem cacheKeys_hops {t : RTree} (hwf : t.WF) {c : Nat} (hc : c ∈ ids t) :
    ∃ keys : List (Nat × Nat), (keys.map (·.1) ++ [c]).Perm (ids t) ∧
      (keys.map unord).Perm ((edges t).map unord) ∧
      ∀ e ∈ keys, firstHop t e.1 c = some e.2 := by
  cases hk : cacheKeys c t with
  | none => exact absurd hc (((cacheKeys_spec c).1 t).2 hk)
  | some keys =>
    obtain ⟨h1, h2⟩ := ((cacheKeys_spec c).1 t).1 keys hk
    refine ⟨keys, h1, h2, ?_⟩
    intro e he
    obtain ⟨pd, hpd⟩ := pathDown_some_of_mem hc
    rcases (cacheKeys_direction c).1 t keys pd hk hpd hwf e.1 e.2 he with ⟨g1, g2⟩ | ⟨l1, l2, g⟩
    · obtain ⟨rest, hr⟩ := next_hop_up hwf hpd g1 g2
      exact firstHop_of_path hr
    · exact firstHop_of_path (next_hop_down hwf (g ▸ hpd))

/-- two lists of pairs whose second components are the same function of the first components and
    whose first components are rearrangements of each other are rearrangements of each other -/
theorem pairs_perm {G : Nat → Option Nat} {l1 l2 : List (Nat × Nat)}
    (h1 : ∀ e ∈ l1, G e.1 = some e.2) (h2 : ∀ e ∈ l2, G e.1 = some e.2)
    (hp : (l1.map (·.1)).Perm (l2.map (·.1))) : l1.Perm l2 := by
  have e1 : l1 = (l1.map (·.1)).map (fun u => (u, (G u).getD 0)) := by
    rw [List.map_map]
    conv => lhs; rw [← List.map_id l1]
    apply List.map_congr_left
    intro e he
    simp [h1 e he]
  have e2 : l2 = (l2.map (·.1)).map (fun u => (u, (G u).getD 0)) := by
    rw [List.map_map]
    conv => lhs; rw [← List.map_id l2]
    apply List.map_congr_left
    intro e he
    simp [h2 e he]
  rw [e1, e2]
  exact hp.map _

/-- Everything about the segments of a well-formed tree in one statement. -/
theorem segs_spec (t : RTree) (hwf : t.WF) :
    ∃ p L segs, updatePath t = some p ∧ p.getLast? = some L ∧ segsAlong t p = some segs ∧
      segs.map (·.1) ++ [L] = p ∧
      (segs.map unord).Perm ((edges t).map unord) ∧
      ∀ e ∈ segs, firstHop t e.1 L = some e.2 := by
  cases t with
  | node r ks =>
    obtain ⟨p, s, hp, _, hperm, _, _, hshape⟩ := updatePath_spec r ks hwf
    have hperm' : p.Perm (ids (node r ks)) := by simpa using hperm
    obtain ⟨L, hlast, hL, hchain⟩ := updatePath_stepOK hwf hshape
    obtain ⟨segs, h1, h2, h3⟩ := segsAlong_of_chain hwf hL p (fun y hy => hperm'.subset hy)
      (hperm'.symm.nodup hwf) hlast hchain
    have hpe : segs.map (·.1) ++ [L] = p := by
      rw [h2]
      have hne : p ≠ [] := by intro e; subst e; simp at hlast
      have := List.dropLast_concat_getLast hne
      have hg : p.getLast hne = L := by
        have := List.getLast?_eq_some_getLast hne
        rw [hlast] at this
        exact (Option.some.inj this).symm
      rw [hg] at this
      exact this
    refine ⟨p, L, segs, hp, hlast, h1, hpe, ?_, h3⟩
    obtain ⟨keys, k1, k2, k3⟩ := cacheKeys_hops hwf hL
    have hfst : (segs.map (·.1)).Perm (keys.map (·.1)) := by
      have : (segs.map (·.1) ++ [L]).Perm (keys.map (·.1) ++ [L]) := by
        rw [hpe]; exact hperm'.trans k1.symm
      exact (List.perm_append_right_iff [L]).mp this
    have := pairs_perm (G := fun u => firstHop (node r ks) u L) h3 k3 hfst
    exact (this.map unord).trans k2

theorem segsOf_eq {t : RTree} {p : List Nat} {segs : List (Nat × Nat)} {L : Nat}
    (hp : updatePath t = some p) (hs : segsAlong t p = some segs) (hl : p.getLast? = some L) :
    segsOf? t = some segs ∧ segsOf t = segs ∧ lastOf t = L := by
  simp [segsOf, segsOf?, lastOf, hp, hs, hl]

end RTree

open RTree

/-! ### The statements exported to C05 -/

/-- The segments exist (no path computation fails) and `segsOf`, `lastOf` are what the sweep uses:
    first components followed by the last node are the update path. -/
theorem segs_nodes (t : RTree) (hwf : t.WF) :
    ∃ p, updatePath t = some p ∧ segsOf? t = some (segsOf t) ∧ p.getLast? = some (lastOf t) ∧
      (segsOf t).map (·.1) ++ [lastOf t] = p ∧ p.Perm (ids t) ∧ p.Nodup := by
  obtain ⟨p, L, segs, hp, hl, hs, hpe, _, _⟩ := segs_spec t hwf
  obtain ⟨e1, e2, e3⟩ := segsOf_eq hp hs hl
  have hperm : p.Perm (ids t) := by
    cases t with
    | node r ks =>
      obtain ⟨p', _, hp', _, hperm, _⟩ := updatePath_spec r ks hwf
      rw [hp] at hp'; simp at hp'; subst hp'
      simpa using hperm
  exact ⟨p, hp, by rw [e1, e2], by rw [e3]; exact hl, by rw [e2, e3]; exact hpe, hperm,
    hperm.symm.nodup hwf⟩

/-- The segments, orientation forgotten, are the edges of the tree: each edge exactly once. -/
theorem segs_edges_perm (t : RTree) (hwf : t.WF) :
    ((segsOf t).map unord).Perm ((edges t).map unord) := by
  obtain ⟨p, L, segs, hp, hl, hs, _, hperm, _⟩ := segs_spec t hwf
  rw [(segsOf_eq hp hs hl).2.1]; exact hperm

/-- Every segment `(u, h)` has `h` = the first node after `u` on the way to the last node of the
    sweep (the parent of `u` in the tree re-rooted at that node). -/
theorem segs_point_to_last (t : RTree) (hwf : t.WF) :
    ∀ e ∈ segsOf t, firstHop t e.1 (lastOf t) = some e.2 := by
  obtain ⟨p, L, segs, hp, hl, hs, _, _, h⟩ := segs_spec t hwf
  obtain ⟨_, e2, e3⟩ := segsOf_eq hp hs hl
  rw [e2, e3]; exact h

/-- On a tree with more than one node there is a last segment and it ends at the last node of the
    sweep (the last two nodes of the update path are neighbours). -/
theorem segs_last_adjacent (t : RTree) (hwf : t.WF) (hkids : t.kids ≠ []) :
    ∃ init s, segsOf t = init ++ [s] ∧ s.2 = lastOf t := by
  obtain ⟨p, L, segs, hp, hl, hs, hpe, _, hhop⟩ := segs_spec t hwf
  obtain ⟨_, e2, e3⟩ := segsOf_eq hp hs hl
  rw [e2, e3]
  cases t with
  | node r ks =>
    obtain ⟨p', l, y, z, hp', hpl, hadj⟩ := updatePath_last_two r ks hwf hkids
    rw [hp] at hp'; simp at hp'; subst hp'
    have hzL : z = L := by
      rw [hpl] at hl
      have : (l ++ [y, z]).getLast? = some z := by simp
      rw [this] at hl; exact Option.some.inj hl
    subst hzL
    -- the first components of the segments are l ++ [y]
    have hfst : segs.map (·.1) = l ++ [y] := by
      have : segs.map (·.1) ++ [z] = (l ++ [y]) ++ [z] := by rw [hpe, hpl]; simp
      exact List.append_cancel_right this
    cases hr : segs.reverse with
    | nil =>
      have : segs = [] := by simpa using hr
      subst this; simp at hfst
    | cons s init' =>
      have hsegs : segs = init'.reverse ++ [s] := by
        have := congrArg List.reverse hr; simpa using this
      refine ⟨init'.reverse, s, hsegs, ?_⟩
      have hs1 : s.1 = y := by
        rw [hsegs] at hfst
        simp only [List.map_append, List.map_cons, List.map_nil] at hfst
        have := List.append_inj' hfst rfl
        simpa using this.2
      have hh := hhop s (by rw [hsegs]; simp)
      -- the way from y to its neighbour z is [y, z]
      have hnd : p.Nodup := by
        obtain ⟨p'', hp'', _, _, _, _, hnd⟩ := segs_nodes (node r ks) hwf
        rw [hp] at hp''; simp at hp''; subst hp''; exact hnd
      have hyz : y ≠ z := by
        intro e; subst e
        rw [hpl] at hnd
        simp [List.nodup_append] at hnd
      have hmem : ∀ x ∈ p, x ∈ ids (node r ks) := by
        obtain ⟨p'', hp'', _, _, _, hperm', _⟩ := segs_nodes (node r ks) hwf
        rw [hp] at hp''; simp at hp''; subst hp''
        exact fun x hx => hperm'.subset hx
      have hsimple : IsSimplePath (node r ks) [y, z] y z :=
        ⟨by simp, by simp, by
          intro x hx
          simp at hx
          rcases hx with rfl | rfl
          · exact hmem _ (by rw [hpl]; simp)
          · exact hmem _ (by rw [hpl]; simp), by simp [Chain, hadj], by simp [hyz]⟩
      have := simple_path_eq_pathFromTo hwf hsimple
      rw [hs1, firstHop, this] at hh
      simpa using hh.symm

/-- the edges of a well-formed tree, orientation forgotten, are pairwise different -/
theorem edges_unord_nodup (t : RTree) (hwf : t.WF) : ((edges t).map unord).Nodup := by
  have htn : ((edges t).map (·.2)).Nodup := by
    apply (edges_targets.1 t).symm.nodup
    have : (ids t).Nodup := hwf
    rw [ids_eq_rid_cons] at this
    exact (List.nodup_cons.mp this).2
  have hnd : (edges t).Nodup := by
    rw [List.nodup_iff_pairwise_ne] at htn ⊢
    exact (List.pairwise_map.mp htn).imp (fun h e => h (by rw [e]))
  rw [List.nodup_iff_pairwise_ne, List.pairwise_map]
  rw [List.nodup_iff_pairwise_ne] at hnd
  apply hnd.imp_of_mem
  intro e e' he he' hne hu
  obtain ⟨a, b⟩ := e
  obtain ⟨c, d⟩ := e'
  rcases (unord_eq_iff a b c d).mp hu with ⟨rfl, rfl⟩ | ⟨rfl, rfl⟩
  · exact hne rfl
  · exact no_two_cycle hwf he he'

/-- no edge joins a node to itself -/
theorem edge_ne {t : RTree} (hwf : t.WF) {a b : Nat} (h : (a, b) ∈ edges t) : a ≠ b := by
  intro e; subst e
  exact no_two_cycle hwf h h

/-- The number of segments touching `v` is the degree of `v` in the tree. -/
theorem segs_degree (t : RTree) (hwf : t.WF) (v : Nat) :
    ((segsOf t).filter (fun e => e.1 == v || e.2 == v)).length = degree t v := by
  have hperm := segs_edges_perm t hwf
  have hq : ∀ e : Nat × Nat, ((unord e).1 == v || (unord e).2 == v) = (e.1 == v || e.2 == v) := by
    intro e
    simp only [unord]
    split
    · rfl
    · exact Bool.or_comm _ _
  have hc := hperm.countP_eq (fun e => e.1 == v || e.2 == v)
  simp only [List.countP_map] at hc
  have e1 : ∀ l : List (Nat × Nat), List.countP ((fun e => e.1 == v || e.2 == v) ∘ unord) l
      = List.countP (fun e => e.1 == v || e.2 == v) l := by
    intro l
    apply List.countP_congr
    intro e _
    simp only [Function.comp, hq]
  rw [e1, e1] at hc
  simp only [degree, ← List.countP_eq_length_filter]
  exact hc

end Ptn.C17
