import Ptn.C17.Model
import Ptn.C05.DiscModel
import Ptn.C09.EnvModel
/-! Line-protocol handler for the C17 model (core Lean only).

Request (one line):

    C17 <flat|struct> tree <root|-> <node> <node> … q <query> q <query> …

* `<node>` = `id:parent:c1,c2,…` in **dict insertion order**, `parent` = `-` for `None`, children in
  their list order (possibly empty: `4:1:`); `<root>` is `root_id` (`-` for `None`).
* `flat` answers from the line-by-line port on the flat mirror; `struct` rebuilds the `RTree`
  (answering `bad-op` when the mirror is not a rearrangement of `flatten t`) and answers from the
  structural model the theorems are about (`leaves`, `nn` depend on the dict order and exist only
  in `flat`).
* queries: `path a b` · `rootpath x` · `dist c` · `linearise` · `subtree x` · `leavesunder x` ·
  `subsize x` · `leaves` · `nn` · `start` · `updatepath` · `cachekeys c` · `segs` (the TDVP
  segments `u>h …` followed by `last L`) · `nbrs x` (`neighbouring_nodes()`) ·
  `events first|second|twosite` (struct only: the full event sequence of one time step of the
  TDVP variant, `Ptn.C05.DiscModel`: `site v` · `move a>b` · `link a>b` · `two a>b` · `hop a>b` ·
  `init c`, space separated; `err` where the code raises, i.e. one node for second / twosite) ·
  `bugenv` (struct only: the trace of one BUG step, `Ptn.C09.EnvModel`: events separated by ` ; `,
  `init r a>b …` · `descend p>c z>p:gen …` · `evolve c x>c:gen …` · `build c>p k>c:gen …` with
  `gen` ∈ `old`/`new`/`missing`)
* answer: the answers of the queries joined by ` | `; each is `ok` followed by identifiers
  (`k:v` for dict entries, `a>b` for pairs) or `err` where the Python raises.
-/
namespace Ptn.C17

def parseNode (tok : String) : Option (Nat × GNode) :=
  match tok.splitOn ":" with
  | [i, p, cs] => do
    let i ← i.toNat?
    let p ← if p == "-" then some none else (p.toNat?).map some
    let cs ← if cs == "" then some [] else (cs.splitOn ",").mapM (fun c => c.toNat?)
    some (i, ⟨p, cs⟩)
  | _ => none

def parseTree (toks : List String) : Option FTree :=
  match toks with
  | r :: nodes => do
    let r ← if r == "-" then some none else (r.toNat?).map some
    let ns ← nodes.mapM parseNode
    some ⟨ns, r⟩
  | [] => none

/-- split at the separator tokens `q` -/
def splitQ (toks : List String) : List (List String) :=
  let (cur, acc) := toks.foldl (fun (st : List String × List (List String)) tok =>
      if tok == "q" then ([], st.2 ++ [st.1]) else (st.1 ++ [tok], st.2)) ([], [])
  acc ++ [cur]

def showIds (l : List Nat) : String := " ".intercalate ("ok" :: l.map toString)
def showDict (l : List (Nat × Nat)) : String :=
  " ".intercalate ("ok" :: l.map (fun e => s!"{e.1}:{e.2}"))
def showPairs (l : List (Nat × Nat)) : String :=
  " ".intercalate ("ok" :: l.map (fun e => s!"{e.1}>{e.2}"))
def orErr (o : Option String) : String := o.getD "err"

def answerFlat (ft : FTree) (q : List String) : Option String :=
  match q with
  | ["path", a, b] => do
    let a ← a.toNat?; let b ← b.toNat?
    some (orErr ((ft.pathFromTo a b).map showIds))
  | ["rootpath", x] => do
    let x ← x.toNat?
    some (orErr ((ft.findPathToRoot x).map showIds))
  | ["dist", c] => do
    let c ← c.toNat?
    some (orErr ((ft.distanceToNode c).map showDict))
  | ["linearise"] => some (orErr (ft.linearise.map showIds))
  | ["subtree", x] => do
    let x ← x.toNat?
    some (orErr ((ft.subtree x).map showIds))
  | ["leavesunder", x] => do
    let x ← x.toNat?
    some (orErr ((ft.leavesUnder x).map showIds))
  | ["subsize", x] => do
    let x ← x.toNat?
    some (orErr ((ft.subtreeSize x).map (fun n => showIds [n])))
  | ["leaves"] => some (showIds ft.getLeaves)
  | ["nn"] => some (showPairs ft.nearestNeighbours)
  | ["start"] => some (orErr (ft.findStart.map (fun s => showIds [s])))
  | ["updatepath"] => some (orErr (ft.updatePath.map showIds))
  | ["segs"] => some (orErr (ft.segs.map fun r => showPairs r.1 ++ s!" last {r.2}"))
  | ["nbrs", x] => do
    let x ← x.toNat?
    some (orErr ((ft.get? x).map fun n => showIds n.neighbours))
  | ["cachekeys", c] => do
    let c ← c.toNat?
    some (orErr ((ft.cacheKeys c).map showPairs))
  | _ => none

def answerStruct (t : RTree) (q : List String) : Option String :=
  match q with
  | ["path", a, b] => do
    let a ← a.toNat?; let b ← b.toNat?
    some (orErr ((t.pathFromTo a b).map showIds))
  | ["rootpath", x] => do
    let x ← x.toNat?
    some (orErr ((t.rootPath x).map showIds))
  | ["dist", c] => do
    let c ← c.toNat?
    some (orErr ((t.distanceToNode c).map showDict))
  | ["linearise"] => some (showIds t.postorder)
  | ["subtree", x] => do
    let x ← x.toNat?
    some (orErr ((t.subtreeIds x).map showIds))
  | ["leavesunder", x] => do
    let x ← x.toNat?
    some (orErr ((t.leavesUnder x).map showIds))
  | ["subsize", x] => do
    let x ← x.toNat?
    some (orErr ((t.subtreeSize x).map (fun n => showIds [n])))
  | ["start"] => some (orErr (t.findStart.map (fun s => showIds [s])))
  | ["updatepath"] => some (orErr (t.updatePath.map showIds))
  | ["segs"] => some (orErr (t.segsOf?.map fun sg => showPairs sg ++ s!" last {t.lastOf}"))
  | ["nbrs", x] => do
    let x ← x.toNat?
    some (if (t.ids).contains x then showIds (t.nbrsOf x) else "err")
  | ["cachekeys", c] => do
    let c ← c.toNat?
    some (orErr ((t.cacheKeys c).map showPairs))
  | ["bugenv"] =>
    some ("ok " ++ " ; ".intercalate ((Ptn.C09.Env.bugRun t).map Ptn.C09.Env.showBEv))
  | ["events", which] =>
    let evs? : Option (Option (List Ptn.C05.Disc.DEv)) :=
      if which == "first" then some (Ptn.C05.Disc.eventsFirst t)
      else if which == "second" then some (Ptn.C05.Disc.eventsSecond t)
      else if which == "twosite" then some (Ptn.C05.Disc.eventsTwoSite t)
      else none
    evs?.map fun evs => orErr (evs.map fun l => " ".intercalate ("ok" :: l.map Ptn.C05.Disc.showEv))
  | _ => none

def handle (args : List String) : String :=
  match args with
  | mode :: "tree" :: rest =>
    match splitQ rest with
    | treeToks :: queries =>
      if queries.isEmpty then "bad-op" else
      match parseTree treeToks with
      | none => "bad-op"
      | some ft =>
        let answers : Option (List String) :=
          if mode == "flat" then queries.mapM (answerFlat ft)
          else if mode == "struct" then
            match ft.toRTree with
            | none => none
            | some t => queries.mapM (answerStruct t)
          else none
        match answers with
        | some as => " | ".intercalate as
        | none => "bad-op"
    | [] => "bad-op"
  | _ => "bad-op"

end Ptn.C17
