import Ptn.C17.Model
/-! Line-protocol handler for the C17 model (core Lean only). -/
namespace Ptn.C17
def handle (args : List String) : String := "bad-op"
end Ptn.C17
