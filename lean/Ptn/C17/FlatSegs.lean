import Ptn.C17.FlatUpdate
import Ptn.C17.Segments
/-! Flat port = structural model: the segments of the TDVP sweep. -/
namespace Ptn.C17
open RTree

theorem flat_segsAlong_eq_struct (ft : FTree) (t : RTree) (h : Mirror ft t) :
    ∀ l : List Nat, ft.segsAlong l = segsAlong t l
  | [] => by simp [FTree.segsAlong, segsAlong]
  | [_] => by simp [FTree.segsAlong, segsAlong]
  | a :: b :: rest => by
    have ih := flat_segsAlong_eq_struct ft t h (b :: rest)
    simp only [FTree.segsAlong, segsAlong, firstHop, flat_path_from_to_eq_struct ft t h, ih,
      Option.bind_eq_bind]
    cases pathFromTo t a b with
    | none => simp
    | some p =>
      simp only [Option.bind_some]
      cases p[1]? with
      | none => simp
      | some hh =>
        simp only [Option.bind_some]
        cases segsAlong t (b :: rest) <;> simp

/-- **segments of the sweep** `(u_i, orthogonalization_path[i][0])` and its last node -/
theorem flat_segs_eq_struct (ft : FTree) (t : RTree) (h : Mirror ft t) :
    ft.segs = some (segsOf t, lastOf t) := by
  obtain ⟨p, hp, hs, hl, _, _, _⟩ := segs_nodes t h.2.2
  have hsegs : segsAlong t p = some (segsOf t) := by
    simpa [segsOf?, hp] using hs
  simp [FTree.segs, flat_update_path_eq_struct ft t h, hp, flat_segsAlong_eq_struct ft t h, hsegs, hl]

end Ptn.C17
