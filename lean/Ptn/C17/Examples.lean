import Ptn.C17.Model
/-! A concrete tree used by the non-vacuity examples of `Props.lean`. -/
namespace Ptn.C17

/-- root 0 with the three branches 1-(3,4), 2, 5-6-7 -/
def exTree : RTree :=
  .node 0 [.node 1 [.node 3 [], .node 4 []], .node 2 [], .node 5 [.node 6 [.node 7 []]]]

end Ptn.C17
