import Ptn.C17.Last
/-! The node before the last-but-one node of the update path is a neighbour of it (the two-site
sweep performs its last forward update without moving the centre first). -/
namespace Ptn.C17
namespace RTree

theorem rid_edge {r : Nat} {k : RTree} : ∀ {ks : List RTree}, k ∈ ks → (r, k.rid) ∈ edgesL r ks
  | k0 :: ks0, h => by
    rcases List.mem_cons.mp h with rfl | h
    · simp
    · simp [rid_edge h]

/-- the post-order of a non-empty forest ends with the root of one of its trees -/
theorem postorderL_last : ∀ {ks : List RTree} {l : List Nat} {x : Nat},
    postorderL ks = l ++ [x] → ∃ k ∈ ks, k.rid = x
  | [], l, x, h => by simp at h
  | [k], l, x, h => by
    cases k with
    | node i js =>
      simp only [postorderL_cons, postorder_node, postorderL_nil, List.append_nil] at h
      have := List.append_inj' h rfl
      exact ⟨node i js, by simp, by simpa [rid] using this.2⟩
  | k :: k2 :: ks, l, x, h => by
    have hne : postorderL (k2 :: ks) ≠ [] := by
      cases k2; simp
    obtain ⟨l2, x2, h2⟩ : ∃ l2 x2, postorderL (k2 :: ks) = l2 ++ [x2] := by
      have := List.dropLast_concat_getLast hne
      exact ⟨_, _, this.symm⟩
    obtain ⟨k', hk', hx'⟩ := postorderL_last h2
    rw [postorderL_cons, h2, ← List.append_assoc] at h
    have := List.append_inj' h rfl
    have hx : x2 = x := by simpa using this.2
    exact ⟨k', by simp at hk' ⊢; exact Or.inr hk', hx ▸ hx'⟩

/-- the last element of `q ++ postorderL fs`, when `q` ends with the root of a child of `r` and `fs`
    consists of children of `r`, is the root of a child of `r` -/
theorem last_is_kid {r : Nat} {ks fs : List RTree} (hfs : ∀ k ∈ fs, k ∈ ks) {q l : List Nat}
    {x : Nat} {k0 : RTree} (hk0 : k0 ∈ ks) (hq : q.getLast? = some k0.rid)
    (h : q ++ postorderL fs = l ++ [x]) : (r, x) ∈ edgesL r ks := by
  by_cases hp : postorderL fs = []
  · rw [hp, List.append_nil] at h
    rw [h, List.getLast?_concat] at hq
    simp at hq; subst hq
    exact rid_edge hk0
  · obtain ⟨l2, x2, h2⟩ : ∃ l2 x2, postorderL fs = l2 ++ [x2] :=
      ⟨_, _, (List.dropLast_concat_getLast hp).symm⟩
    obtain ⟨k', hk', hx'⟩ := postorderL_last h2
    rw [h2, ← List.append_assoc] at h
    have := List.append_inj' h rfl
    have hx : x2 = x := by simpa using this.2
    exact hx ▸ hx' ▸ rid_edge (hfs k' hk')

/-- the node before the last node of an upward sweep is a child of the last node -/
theorem sweepUp_last_two (s : Nat) :
    (∀ k q, sweepUp s k = some q → ∀ l x y, q = l ++ [x, y] → (y, x) ∈ edges k) ∧
    (∀ ks r pre q, sweepUpL s r pre ks = some q → ∀ l x y, q = l ++ [x, y] →
      (y, x) ∈ edgesL r (pre ++ ks)) := by
  apply induct
  · intro r ks ih q hq l x y hl
    rw [sweepUp_node] at hq
    by_cases hrs : r = s
    · simp [hrs] at hq; subst hq
      have e : postorderL ks ++ [s] = (l ++ [x]) ++ [y] := by simpa using hl
      have := List.append_inj' e rfl
      have hy : s = y := by simpa using this.2
      obtain ⟨k', hk', hx'⟩ := postorderL_last this.1
      subst hy; subst hrs
      simpa [← hx'] using rid_edge (r := r) hk'
    · simp [hrs] at hq
      simpa using ih r [] q hq l x y hl
  · intro r pre q hq; simp at hq
  · intro k post _ ihpost r pre q hq l x y hl
    rcases sweepUpL_cons_cases s r pre k post with ⟨q0, h1, h2⟩ | ⟨h1, h2⟩
    · rw [h2] at hq; simp only [Option.some.injEq] at hq; subst hq
      have e : (q0 ++ postorderL (pre ++ post)) ++ [r] = (l ++ [x]) ++ [y] := by simpa using hl
      have := List.append_inj' e rfl
      have hy : r = y := by simpa using this.2
      subst hy
      have hsub : ∀ k' ∈ pre ++ post, k' ∈ pre ++ k :: post := by
        intro k' hk'; simp at hk' ⊢; rcases hk' with h | h
        · exact Or.inl h
        · exact Or.inr (Or.inr h)
      exact last_is_kid hsub (k0 := k) (by simp) ((sweepUp_last s).1 k q0 h1) this.1
    · rw [h2] at hq
      simpa using ihpost r (pre ++ [k]) q hq l x y hl

/-- the last three nodes of a downward sweep toward a leaf `f` -/
theorem sweepDown_last_three (f : Nat) :
    (∀ k q, sweepDown f k = some q → (∀ e ∈ edges k, e.1 ≠ f) →
      (q = [f] ∧ k.rid = f) ∨ (q = [k.rid, f] ∧ (k.rid, f) ∈ edges k) ∨
      ∃ l x y, q = l ++ [x, y, f] ∧ Adj k x y) ∧
    (∀ ks r pre q, sweepDownL f r pre ks = some q → (∀ e ∈ edgesL r ks, e.1 ≠ f) →
      (q = [r, f] ∧ (r, f) ∈ edgesL r ks) ∨
      ∃ l x y, q = l ++ [x, y, f] ∧ Adj (node r (pre ++ ks)) x y) := by
  apply induct
  · intro r ks ih q hq hleaf
    rw [sweepDown_node] at hq
    by_cases hrf : r = f
    · subst hrf
      simp at hq; subst hq
      cases ks with
      | nil => left; simp [rid]
      | cons k ks' => exact absurd rfl (hleaf (r, k.rid) (by simp))
    · simp [hrf] at hq
      right
      rcases ih r [] q hq (by simpa using hleaf) with ⟨h1, h2⟩ | h
      · exact Or.inl ⟨by simpa [rid] using h1, by simpa [rid] using h2⟩
      · exact Or.inr (by simpa using h)
  · intro r pre q hq; simp at hq
  · intro k post ihk ihpost r pre q hq hleaf
    rcases sweepDownL_cons_cases f r pre k post with ⟨q0, h1, h2⟩ | ⟨h1, h2⟩
    · rw [h2] at hq; simp only [Option.some.injEq] at hq; subst hq
      have hkmem : k ∈ pre ++ k :: post := by simp
      have hsub : ∀ k' ∈ pre ++ post, k' ∈ pre ++ k :: post := by
        intro k' hk'; simp at hk' ⊢; rcases hk' with h | h
        · exact Or.inl h
        · exact Or.inr (Or.inr h)
      have hek : ∀ e ∈ edges k, e ∈ edges (node r (pre ++ k :: post)) := by
        intro e he; simpa using edges_kid_subset (r := r) hkmem he
      rcases ihk q0 h1 (fun e he => hleaf e (by simp [he])) with ⟨rfl, hk⟩ | ⟨rfl, hk⟩ | ⟨l, x, y, rfl, hxy⟩
      · -- f is the child itself
        by_cases hp : postorderL (pre ++ post) = []
        · left
          exact ⟨by simp [hp], by simp [hk]⟩
        · right
          obtain ⟨l2, x2, h2'⟩ : ∃ l2 x2, postorderL (pre ++ post) = l2 ++ [x2] :=
            ⟨_, _, (List.dropLast_concat_getLast hp).symm⟩
          obtain ⟨k', hk', hx'⟩ := postorderL_last h2'
          refine ⟨l2, x2, r, by simp [h2'], Or.inr ?_⟩
          simpa [← hx'] using rid_edge (r := r) (hsub k' hk')
      · right
        refine ⟨postorderL (pre ++ post), r, k.rid, by simp, Or.inl ?_⟩
        simpa using rid_edge (r := r) hkmem
      · right
        refine ⟨postorderL (pre ++ post) ++ [r] ++ l, x, y, by simp, ?_⟩
        rcases hxy with h | h
        · exact Or.inl (hek _ h)
        · exact Or.inr (hek _ h)
    · rw [h2] at hq
      rcases ihpost r (pre ++ [k]) q hq (fun e he => hleaf e (by simp [he])) with ⟨h1', h2'⟩ | h
      · exact Or.inl ⟨h1', by simp [h2']⟩
      · exact Or.inr (by simpa using h)

theorem updatePath_last_three (r : Nat) (ks : List RTree) (hwf : (node r ks).WF) :
    ∃ p, updatePath (node r ks) = some p ∧
      ∀ l x y z, p = l ++ [x, y, z] → Adj (node r ks) x y := by
  obtain ⟨p, s, hp, _, _, _, hend, hshape⟩ := updatePath_spec r ks hwf
  refine ⟨p, hp, ?_⟩
  intro l x y z hl
  rcases hshape with ⟨rfl, rfl⟩ | ⟨ki, up, rfl, hup, rfl⟩ |
      ⟨ki, kj, up, dn, f, hki, hkj, hne, hup, hdn, rfl⟩
  · have := congrArg List.length hl; simp at this
  · have e : up ++ [r] = (l ++ [x, y]) ++ [z] := by simpa using hl
    have h1 := (List.append_inj' e rfl).1
    have := (sweepUp_last_two s).1 ki up hup l x y h1
    exact Or.inr (by simpa using edges_kid_subset (r := r) (ks := [ki]) (by simp) this)
  · have hdnlast := (((sweepDown_spec f).1 kj).1 dn hdn).2.2
    have hleaf : isLeaf (node r ks) f = true := by
      rcases hend with ⟨hlen, _⟩ | ⟨f', hl', hf'⟩
      · exfalso
        cases ks with
        | nil => simp at hki
        | cons a l' =>
          cases l' with
          | nil =>
            simp at hki hkj
            exact hne (by rw [hki, hkj])
          | cons b l'' => simp at hlen
      · have : f' = f := by
          cases dn with
          | nil => simp at hdnlast
          | cons y' l' =>
            rw [List.getLast?_append, List.getLast?_append] at hl'
            simp [hdnlast] at hl'
            exact hl'.symm
        exact this ▸ hf'
    have hleafk : ∀ e ∈ edges kj, e.1 ≠ f := fun e he =>
      (isLeaf_iff.mp hleaf) e (by simpa using edges_kid_subset (r := r) hkj he)
    have hkeepsub : ∀ k ∈ ks.filter (fun k => !(k.rid == ki.rid || k.rid == kj.rid)), k ∈ ks :=
      fun k hk => (List.mem_filter.mp hk).1
    have hekj : ∀ e ∈ edges kj, e ∈ edges (node r ks) := by
      intro e he; simpa using edges_kid_subset (r := r) hkj he
    generalize ks.filter (fun k => !(k.rid == ki.rid || k.rid == kj.rid)) = keep at *
    have huplast := (sweepUp_last s).1 ki up hup
    rcases (sweepDown_last_three f).1 kj dn hdn hleafk with ⟨rfl, _⟩ | ⟨rfl, _⟩ | ⟨l', x', y', rfl, hxy⟩
    · have e : (up ++ postorderL keep) ++ [r, f] = (l ++ [x]) ++ [y, z] := by simpa using hl
      have h1 := List.append_inj' e rfl
      have hy : r = y := by simpa using (List.cons.inj h1.2).1
      subst hy
      exact Or.inr (by simpa using last_is_kid (r := r) hkeepsub hki huplast h1.1)
    · have e : (up ++ postorderL keep) ++ [r, kj.rid, f] = l ++ [x, y, z] := by simpa using hl
      have h1 := List.append_inj' e rfl
      have h2 := h1.2
      simp at h2
      obtain ⟨rfl, rfl, _⟩ := h2
      exact Or.inl (by simpa using rid_edge (r := r) hkj)
    · have e : (up ++ postorderL keep ++ [r] ++ l') ++ [x', y', f] = l ++ [x, y, z] := by
        simpa using hl
      have h1 := List.append_inj' e rfl
      have h2 := h1.2
      simp at h2
      obtain ⟨rfl, rfl, _⟩ := h2
      rcases hxy with h | h
      · exact Or.inl (hekj _ h)
      · exact Or.inr (hekj _ h)

end RTree
end Ptn.C17
