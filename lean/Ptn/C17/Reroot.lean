import Ptn.C17.Linear
import Ptn.C17.Unique
/-! Re-rooting: the structural counterpart of `distance_to_node(c)` for an arbitrary centre. -/
namespace Ptn.C17
namespace RTree

/-- symmetric closure of a list of pairs -/
def SAdj (E : List (Nat × Nat)) (a b : Nat) : Prop := (a, b) ∈ E ∨ (b, a) ∈ E

theorem adj_iff_sadj (t : RTree) (a b : Nat) : Adj t a b ↔ SAdj (edges t) a b := Iff.rfl

theorem reroot_node (c : Nat) (up : List RTree) (i : Nat) (ks : List RTree) :
    reroot c up (node i ks) = if i = c then some (node i (up ++ ks)) else rerootL c i up [] ks := by
  simp [reroot]

@[simp] theorem rerootL_nil (c i : Nat) (up pre : List RTree) : rerootL c i up pre [] = none := by
  simp [rerootL]

theorem rerootL_cons_cases (c i : Nat) (up pre : List RTree) (k : RTree) (post : List RTree) :
    (∃ r, reroot c [node i (up ++ pre ++ post)] k = some r ∧
          rerootL c i up pre (k :: post) = some r) ∨
    (reroot c [node i (up ++ pre ++ post)] k = none ∧
          rerootL c i up pre (k :: post) = rerootL c i up (pre ++ [k]) post) := by
  cases h : reroot c [node i (up ++ pre ++ post)] k with
  | some r => exact Or.inl ⟨r, rfl, by rw [rerootL]; simp only [h]⟩
  | none => exact Or.inr ⟨rfl, by rw [rerootL]; simp only [h]⟩

/-- re-rooting keeps the nodes and the neighbour relation, and puts `c` on top -/
theorem reroot_spec (c : Nat) :
    (∀ t up r, reroot c up t = some r →
      r.rid = c ∧ (ids r).Perm (idsL up ++ ids t) ∧
      ∀ a b, SAdj (edges r) a b ↔ SAdj (edgesL t.rid up ++ edges t) a b) ∧
    (∀ ks i up pre r, rerootL c i up pre ks = some r →
      r.rid = c ∧ (ids r).Perm (idsL up ++ i :: idsL pre ++ idsL ks) ∧
      ∀ a b, SAdj (edges r) a b ↔ SAdj (edgesL i up ++ edgesL i pre ++ edgesL i ks) a b) := by
  apply induct
  · intro i ks ih up r h
    rw [reroot_node] at h
    by_cases hic : i = c
    · simp [hic] at h; subst h
      refine ⟨by simp [rid], ?_, ?_⟩
      · simp only [ids_node, idsL_append, hic]
        exact (List.perm_middle).symm
      · intro a b; simp [rid, edgesL_append, hic]
    · simp [hic] at h
      have := ih i up [] r h
      simpa [rid] using this
  · simp
  · intro k post ihk ihpost i up pre r h
    rcases rerootL_cons_cases c i up pre k post with ⟨r', h1, h2⟩ | ⟨h1, h2⟩
    · rw [h2] at h; simp at h; subst h
      obtain ⟨e1, e2, e3⟩ := ihk _ _ h1
      refine ⟨e1, ?_, ?_⟩
      · refine e2.trans ?_
        simp only [idsL_cons, idsL_nil, ids_node, idsL_append, List.append_nil]
        -- (i :: (up ++ pre ++ post)) ++ k  ~  up ++ i :: pre ++ (k ++ post)
        apply List.perm_iff_count.mpr
        intro a
        simp only [List.count_append, List.count_cons]
        omega
      · intro a b
        rw [e3 a b]
        simp only [SAdj, edgesL_cons, edgesL_nil, edges_node, edgesL_append, List.mem_append,
          List.mem_cons, Prod.mk.injEq, List.append_nil, rid]
        grind
    · rw [h2] at h
      obtain ⟨e1, e2, e3⟩ := ihpost i up (pre ++ [k]) r h
      refine ⟨e1, ?_, ?_⟩
      · refine e2.trans ?_
        simp [idsL_append]
      · intro a b
        rw [e3 a b]
        simp only [SAdj, edgesL_cons, edgesL_nil, edgesL_append, List.mem_append,
          List.mem_cons, Prod.mk.injEq, List.append_nil]
        grind

/-- re-rooting at a node of the tree succeeds -/
theorem reroot_isSome (c : Nat) :
    (∀ t up, c ∈ ids t → ∃ r, reroot c up t = some r) ∧
    (∀ ks i up pre, c ∈ idsL ks → ∃ r, rerootL c i up pre ks = some r) := by
  apply induct
  · intro i ks ih up h
    rw [reroot_node]
    by_cases hic : i = c
    · simp [hic]
    · simp [hic]
      have : c ∈ idsL ks := by
        simp at h; rcases h with h | h
        · exact absurd h.symm hic
        · exact h
      exact ih i up [] this
  · simp
  · intro k post ihk ihpost i up pre h
    rcases rerootL_cons_cases c i up pre k post with ⟨r', h1, h2⟩ | ⟨h1, h2⟩
    · exact ⟨r', h2⟩
    · rw [h2]
      have : c ∉ ids k := by
        intro hk
        obtain ⟨r, hr⟩ := ihk [node i (up ++ pre ++ post)] hk
        rw [hr] at h1; simp at h1
      simp at h
      rcases h with h | h
      · exact absurd h this
      · exact ihpost i up (pre ++ [k]) h

/-- a root path is a simple path from the root to its target -/
theorem pathDown_isSimplePath {t : RTree} (hwf : t.WF) {v : Nat} {p : List Nat}
    (h : pathDown v t = some p) : IsSimplePath t p t.rid v :=
  ⟨((pathDown_ends v).1 t p h).1, ((pathDown_ends v).1 t p h).2, (pathDown_subset v).1 t p h,
   chain_mono (fun _ _ hab => Or.inl hab) ((pathDown_chain v).1 t p h), pathDown_nodup hwf h⟩

end RTree
end Ptn.C17
