import Ptn.C17.Model
/-! Property theorems for C17. Only property theorems and non-vacuity examples live here. -/
namespace Ptn.C17
end Ptn.C17
